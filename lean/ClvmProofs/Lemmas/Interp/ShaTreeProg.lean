/-
C23: the standard recursive ChiaLisp `sha256tree` program, evaluated on the machine model through the
big-step rules of `BigStep.lean`.

* arity-specific rules with monotone costs (`EvalsLe`, `op1_le`, `op2_le`, `op3_le`, `apply2_le`);
* the operator facts needed (`c`, `i`, `l`, `sha256` under `chiaDialect`, environment paths 1 2 3 5 9 13);
* `body_evals`: the recursive part of the program computes the tree hash with an explicit cost;
* `prog_evals` / `prog_runs`: the whole program under `run_program`.
-/
import ClvmProofs.Lemmas.Interp.BigStep
import ClvmProofs.Lemmas.Interp.Fastpath
import ClvmProofs.Lemmas.Interp.LiftRestrict
import ClvmProofs.Lemmas.TreeHashStream
import ClvmModel.Spec.Sha256TreeProg

namespace Clvm.Interp
open Clvm Clvm.Alloc

/-! ### rules with monotone costs, by arity -/

/-- a big-step evaluation whose accumulated cost did not decrease -/
def EvalsLe (cfg : Cfg) (d : Dialect) (mc : Nat) (sfs : List SoftforkGuard) (vl el : Nat) (prog env : Val)
    (c0 : Ctr) (cost0 : Nat) (v : Val) (cost1 : Nat) (c1 : Ctr) : Prop :=
  Evals cfg d mc sfs vl el prog env c0 cost0 v cost1 c1 ∧ cost0 ≤ cost1

section rules
variable {cfg : Cfg} {d : Dialect} {mc : Nat} {sfs : List SoftforkGuard} {vl el : Nat} {env : Val}

theorem path_le {b : Bytes} {inl : Bool} {c0 : Ctr} {cost0 k : Nat} {v : Val}
    (h : pathLookup cfg b inl env = .ok (k, v)) (hvl : vl + 1 ≤ Gen.STACK_SIZE_LIMIT) :
    EvalsLe cfg d mc sfs vl el (.atom b inl) env c0 cost0 v (cost0 + k) c0 :=
  ⟨Evals.path h (by omega), by omega⟩

theorem quote_le {ob : Bytes} {oi : Bool} {x : Val} {c0 : Ctr} {cost0 : Nat}
    (hq : smallNumber (.atom ob oi) = some d.quoteKw) (hvl : vl + 1 ≤ Gen.STACK_SIZE_LIMIT) :
    EvalsLe cfg d mc sfs vl el (.pair (.atom ob oi) x) env c0 cost0 x (cost0 + Gen.QUOTE_COST) c0 :=
  ⟨Evals.quote hq (by omega), by omega⟩

theorem op1_le {ob : Bytes} {oi tb : Bool} {A : Val} {c0 : Ctr} {cost0 : Nat} {vA : Val} {costA : Nat}
    {cA cA' : Ctr} {oc : Nat} {v : Val} {c2 : Ctr}
    (hq : smallNumber (.atom ob oi) ≠ some d.quoteKw) (ha : smallNumber (.atom ob oi) ≠ some d.applyKw)
    (hs : smallNumber (.atom ob oi) ≠ some d.softforkKw)
    (hvl : vl + 3 ≤ Gen.STACK_SIZE_LIMIT) (hel : el + 1 ≤ Gen.STACK_SIZE_LIMIT)
    (hA : EvalsLe cfg d mc sfs (vl + 2) (el + 1) A env c0 (cost0 + Gen.OP_COST) vA costA cA)
    (hpA : cA.newPair = .ok cA')
    (hop : d.op (.atom ob oi) (.pair vA Val.nil) (sfMax mc sfs - costA) (sfExt sfs) cA' = some (.ok (oc, v, c2)))
    (hfin : costA + oc ≤ sfMax mc sfs) :
    EvalsLe cfg d mc sfs vl el (.pair (.atom ob oi) (.pair A (.atom [] tb))) env c0 cost0 v (costA + oc) c2 := by
  have h1 := hA.2
  refine ⟨Evals.op (tb := tb) hq ha hs rfl (by simp only [argList, List.length_cons, List.length_nil]; omega)
    (by omega) ?_ (by omega) hop hfin, by omega⟩
  exact .cons (.nil _ _ _ _ _) (by omega) (by omega) hA.1 (by omega) hpA

theorem op2_le {ob : Bytes} {oi tb : Bool} {A B : Val} {c0 : Ctr} {cost0 : Nat} {vA vB : Val} {costA costB : Nat}
    {cA cA' cB cB' : Ctr} {oc : Nat} {v : Val} {c2 : Ctr}
    (hq : smallNumber (.atom ob oi) ≠ some d.quoteKw) (ha : smallNumber (.atom ob oi) ≠ some d.applyKw)
    (hs : smallNumber (.atom ob oi) ≠ some d.softforkKw)
    (hvl : vl + 4 ≤ Gen.STACK_SIZE_LIMIT) (hel : el + 1 ≤ Gen.STACK_SIZE_LIMIT)
    (hB : EvalsLe cfg d mc sfs (vl + 3) (el + 1) B env c0 (cost0 + Gen.OP_COST) vB costB cB)
    (hpB : cB.newPair = .ok cB')
    (hA : EvalsLe cfg d mc sfs (vl + 2) (el + 1) A env cB' costB vA costA cA)
    (hpA : cA.newPair = .ok cA')
    (hop : d.op (.atom ob oi) (.pair vA (.pair vB Val.nil)) (sfMax mc sfs - costA) (sfExt sfs) cA' =
      some (.ok (oc, v, c2)))
    (hfin : costA + oc ≤ sfMax mc sfs) :
    EvalsLe cfg d mc sfs vl el (.pair (.atom ob oi) (.pair A (.pair B (.atom [] tb)))) env c0 cost0 v
      (costA + oc) c2 := by
  have h1 := hA.2
  have h2 := hB.2
  refine ⟨Evals.op (tb := tb) hq ha hs rfl (by simp only [argList, List.length_cons, List.length_nil]; omega)
    (by omega) ?_ (by omega) hop hfin, by omega⟩
  exact .cons (.cons (.nil _ _ _ _ _) (by omega) (by omega) hB.1 (by omega) hpB) (by omega) (by omega) hA.1
    (by omega) hpA

theorem op3_le {ob : Bytes} {oi tb : Bool} {A B C : Val} {c0 : Ctr} {cost0 : Nat} {vA vB vC : Val}
    {costA costB costC : Nat} {cA cA' cB cB' cC cC' : Ctr} {oc : Nat} {v : Val} {c2 : Ctr}
    (hq : smallNumber (.atom ob oi) ≠ some d.quoteKw) (ha : smallNumber (.atom ob oi) ≠ some d.applyKw)
    (hs : smallNumber (.atom ob oi) ≠ some d.softforkKw)
    (hvl : vl + 5 ≤ Gen.STACK_SIZE_LIMIT) (hel : el + 1 ≤ Gen.STACK_SIZE_LIMIT)
    (hC : EvalsLe cfg d mc sfs (vl + 4) (el + 1) C env c0 (cost0 + Gen.OP_COST) vC costC cC)
    (hpC : cC.newPair = .ok cC')
    (hB : EvalsLe cfg d mc sfs (vl + 3) (el + 1) B env cC' costC vB costB cB)
    (hpB : cB.newPair = .ok cB')
    (hA : EvalsLe cfg d mc sfs (vl + 2) (el + 1) A env cB' costB vA costA cA)
    (hpA : cA.newPair = .ok cA')
    (hop : d.op (.atom ob oi) (.pair vA (.pair vB (.pair vC Val.nil))) (sfMax mc sfs - costA) (sfExt sfs) cA' =
      some (.ok (oc, v, c2)))
    (hfin : costA + oc ≤ sfMax mc sfs) :
    EvalsLe cfg d mc sfs vl el (.pair (.atom ob oi) (.pair A (.pair B (.pair C (.atom [] tb))))) env c0 cost0 v
      (costA + oc) c2 := by
  have h1 := hA.2
  have h2 := hB.2
  have h3 := hC.2
  refine ⟨Evals.op (tb := tb) hq ha hs rfl (by simp only [argList, List.length_cons, List.length_nil]; omega)
    (by omega) ?_ (by omega) hop hfin, by omega⟩
  exact .cons (.cons (.cons (.nil _ _ _ _ _) (by omega) (by omega) hC.1 (by omega) hpC) (by omega) (by omega)
    hB.1 (by omega) hpB) (by omega) (by omega) hA.1 (by omega) hpA

/-- `(a P E)` -/
theorem apply2_le {ob : Bytes} {oi tb : Bool} {A B : Val} {c0 : Ctr} {cost0 : Nat} {vA vB : Val} {costA costB : Nat}
    {cA cA' cB cB' : Ctr} {v : Val} {cost2 : Nat} {c2 : Ctr}
    (hq : smallNumber (.atom ob oi) ≠ some d.quoteKw) (ha : smallNumber (.atom ob oi) = some d.applyKw)
    (hvl : vl + 4 ≤ Gen.STACK_SIZE_LIMIT) (hel : el + 1 ≤ Gen.STACK_SIZE_LIMIT)
    (hB : EvalsLe cfg d mc sfs (vl + 3) (el + 1) B env c0 (cost0 + Gen.OP_COST) vB costB cB)
    (hpB : cB.newPair = .ok cB')
    (hA : EvalsLe cfg d mc sfs (vl + 2) (el + 1) A env cB' costB vA costA cA)
    (hpA : cA.newPair = .ok cA')
    (hbody : EvalsLe cfg d mc sfs vl el vA vB cA' (costA + Gen.APPLY_COST) v cost2 c2)
    (hfin : cost2 ≤ sfMax mc sfs) :
    EvalsLe cfg d mc sfs vl el (.pair (.atom ob oi) (.pair A (.pair B (.atom [] tb)))) env c0 cost0 v cost2 c2 := by
  have h1 := hA.2
  have h2 := hB.2
  have h3 := hbody.2
  refine ⟨Evals.apply (tb := tb) (p := vA) (e := vB) (al := .pair vA (.pair vB Val.nil)) hq ha rfl
    (by simp only [argList, List.length_cons, List.length_nil]; omega) (by omega) ?_ (by omega) rfl hbody.1 hfin,
    by omega⟩
  exact .cons (.cons (.nil _ _ _ _ _) (by omega) (by omega) hB.1 (by omega) hpB) (by omega) (by omega) hA.1
    (by omega) hpA

theorem EvalsLe.cast {prog : Val} {c0 : Ctr} {cost0 : Nat} {v : Val} {cost1 cost1' : Nat} {c1 c1' : Ctr}
    (h : EvalsLe cfg d mc sfs vl el prog env c0 cost0 v cost1 c1) (hc : cost1 = cost1') (hctr : c1 = c1') :
    EvalsLe cfg d mc sfs vl el prog env c0 cost0 v cost1' c1' := by
  subst hc; subst hctr; exact h

end rules

/-! ### allocator counters -/

/-- `da` more atoms, `dp` more pairs, `dh` more heap bytes -/
def Ctr.bump (c : Ctr) (da dp dh : Nat) : Ctr :=
  { c with atoms := c.atoms + da, pairs := c.pairs + dp, heap := c.heap + dh }

theorem bump_bump (c : Ctr) (a p h a' p' h' : Nat) :
    (c.bump a p h).bump a' p' h' = c.bump (a + a') (p + p') (h + h') := by
  simp [Ctr.bump, Nat.add_assoc]

theorem newPair_bump (c : Ctr) (h : c.pairs < Gen.maxNumPairs) : c.newPair = .ok (c.bump 0 1 0) := by
  unfold Ctr.newPair Ctr.bump
  have : ¬ c.pairs ≥ Gen.maxNumPairs := by omega
  simp only [this, if_false, Nat.add_zero]

theorem allocAtom_bump (c : Ctr) (b : Bytes) (hh : c.heap + b.length ≤ c.heapLimit)
    (ha : c.atoms < Gen.maxNumAtoms) : allocAtom c b = .ok (Val.mkAtom b, c.bump 1 0 b.length) := by
  unfold allocAtom Ctr.newAtom Ctr.checkAtomLimit Ctr.bump
  have h1 : ¬ c.heap + b.length > c.heapLimit := by omega
  have h2 : (c.atoms == Gen.maxNumAtoms) = false := by
    rw [beq_eq_false_iff_ne]; omega
  simp only [h1, if_false, h2, Bool.false_eq_true, Nat.add_zero]

/-! ### the operators of the program -/

def ifCost (nm : Bool) : Nat := if nm then Gen.NEW_IF_COST else Gen.IF_COST
def listpCost (nm : Bool) : Nat := if nm then Gen.NEW_LISTP_COST else Gen.LISTP_COST
def shaBase (nm : Bool) : Nat := if nm then Gen.NEW_SHA256_BASE_COST else Gen.SHA256_BASE_COST
def shaArg (nm : Bool) : Nat := if nm then Gen.NEW_SHA256_COST_PER_ARG else Gen.SHA256_COST_PER_ARG
def shaByte (nm : Bool) : Nat := if nm then Gen.NEW_SHA256_COST_PER_BYTE else Gen.SHA256_COST_PER_BYTE

theorem opCons_two (fl m : Nat) (x y : Val) (c : Ctr) (h : c.pairs < Gen.maxNumPairs) :
    opCons fl m (.pair x (.pair y Val.nil)) c = .ok (Gen.CONS_COST, .pair x y, c.bump 0 1 0) := by
  simp only [opCons, getArgs2, getArgs, matchArgs, argList, List.length_cons, List.length_nil, Val.nil,
    allocPair, newPair_bump c h]
  rfl

theorem opIf_three (fl m : Nat) (cnd a b : Val) (c : Ctr) :
    opIf fl m (.pair cnd (.pair a (.pair b Val.nil))) c =
      .ok (ifCost (newModel fl), if cnd.nilp then b else a, c) := by
  simp only [opIf, getArgs3, getArgs, matchArgs, argList, List.length_cons, List.length_nil, Val.nil, ifCost]
  rfl

theorem opListp_one (fl m : Nat) (x : Val) (c : Ctr) :
    opListp fl m (.pair x Val.nil) c =
      .ok (listpCost (newModel fl), if x.isPair then Val.one else Val.nil, c) := by
  simp only [opListp, getArgs1, getArgs, matchArgs, argList, List.length_cons, List.length_nil, Val.nil, listpCost]
  rfl

theorem mkAtom_wf' (b : Bytes) : (Val.mkAtom b).wf = true := by
  unfold Val.mkAtom Val.newAtomTag
  cases h : (fitsInSmallAtom b).isSome <;> simp [Val.wf, h]

theorem sha256_len32 (msg : Bytes) : (Hash.sha256 msg).length = 32 := by
  simp [Hash.sha256, Hash.Sha256.digest, Hash.Sha256.be32]

theorem treeHash_len32 (t : Tree) : (TreeHash.treeHash t).length = 32 := by
  cases t <;> simp only [TreeHash.treeHash, sha256_len32]

/-- `(sha256 1 X)` on an atom `X`: the tree hash of the atom -/
theorem sha_opSha256_atom (cfg : Cfg) (fl m : Nat) (b : Bytes) (t : Bool) (c : Ctr)
    (hw : (Val.atom b t).wf = true)
    (hm : shaBase (newModel fl) + 2 * shaArg (newModel fl) + (1 + b.length) * shaByte (newModel fl) ≤ m)
    (hh : c.heap + 32 ≤ c.heapLimit) (ha : c.atoms < Gen.maxNumAtoms) :
    opSha256 cfg fl m (.pair (.atom [1] true) (.pair (.atom b t) Val.nil)) c =
      .ok (shaBase (newModel fl) + 2 * shaArg (newModel fl) + (1 + b.length) * shaByte (newModel fl)
             + 32 * Gen.MALLOC_COST_PER_BYTE,
           Val.mkAtom (TreeHash.treeHash (.atom b)), c.bump 1 0 32) := by
  have hwf : (Val.pair (.atom [1] true) (.pair (.atom b t) Val.nil)).wf = true := by
    simp only [Val.wf, hw, Val.nil, Bool.true_and]; decide
  have hcfg : opSha256 cfg fl m (.pair (.atom [1] true) (.pair (.atom b t) Val.nil)) c =
      opSha256 { fastpath := false } fl m (.pair (.atom [1] true) (.pair (.atom b t) Val.nil)) c := by
    cases cfg with
    | mk fp =>
      cases fp
      · rfl
      · exact opSha256_fastpath fl m _ c hwf
  rw [hcfg]
  unfold shaBase shaArg shaByte at *
  have hl := sha256_len32 (1 :: b)
  cases hnm : newModel fl
  all_goals
    simp only [hnm, Bool.false_eq_true, if_false, if_true, Gen.SHA256_BASE_COST, Gen.SHA256_COST_PER_ARG,
      Gen.SHA256_COST_PER_BYTE, Gen.NEW_SHA256_BASE_COST, Gen.NEW_SHA256_COST_PER_ARG,
      Gen.NEW_SHA256_COST_PER_BYTE, Gen.MALLOC_COST_PER_BYTE] at hm ⊢
    simp only [opSha256, hnm, Bool.false_eq_true, if_false, if_true, Val.isNilPtr, argList, Val.nil, sha256Loop,
      Gen.SHA256_BASE_COST, Gen.SHA256_COST_PER_ARG, Gen.SHA256_COST_PER_BYTE, Gen.NEW_SHA256_BASE_COST,
      Gen.NEW_SHA256_COST_PER_ARG, Gen.NEW_SHA256_COST_PER_BYTE, Gen.MALLOC_COST_PER_BYTE,
      atomBytes, List.length_cons, List.length_nil, checkCost, List.nil_append, List.cons_append]
    rw [if_neg (by omega), if_neg (by omega)]
    simp only [newAtomAndCost]
    rw [allocAtom_bump c _ (by rw [hl]; exact hh) ha]
    simp only [hl, TreeHash.treeHash, Except.ok.injEq, Prod.mk.injEq, and_true, Gen.MALLOC_COST_PER_BYTE]
    omega

/-- `(sha256 2 h₁ h₂)` on two 32-byte atoms -/
theorem sha_opSha256_pair (cfg : Cfg) (fl m : Nat) (h1 h2 : Bytes) (c : Ctr)
    (hl1 : h1.length = 32) (hl2 : h2.length = 32)
    (hm : shaBase (newModel fl) + 3 * shaArg (newModel fl) + 65 * shaByte (newModel fl) ≤ m)
    (hh : c.heap + 32 ≤ c.heapLimit) (ha : c.atoms < Gen.maxNumAtoms) :
    opSha256 cfg fl m (.pair (.atom [2] true) (.pair (Val.mkAtom h1) (.pair (Val.mkAtom h2) Val.nil))) c =
      .ok (shaBase (newModel fl) + 3 * shaArg (newModel fl) + 65 * shaByte (newModel fl)
             + 32 * Gen.MALLOC_COST_PER_BYTE,
           Val.mkAtom (Hash.sha256 (2 :: (h1 ++ h2))), c.bump 1 0 32) := by
  have hwf : (Val.pair (.atom [2] true) (.pair (Val.mkAtom h1) (.pair (Val.mkAtom h2) Val.nil))).wf = true := by
    have e1 := mkAtom_wf' h1
    have e2 := mkAtom_wf' h2
    simp only [Val.wf, e1, e2, Bool.and_true, Val.nil, Bool.true_and]; decide
  have hcfg : opSha256 cfg fl m (.pair (.atom [2] true) (.pair (Val.mkAtom h1) (.pair (Val.mkAtom h2) Val.nil))) c =
      opSha256 { fastpath := false } fl m
        (.pair (.atom [2] true) (.pair (Val.mkAtom h1) (.pair (Val.mkAtom h2) Val.nil))) c := by
    cases cfg with
    | mk fp =>
      cases fp
      · rfl
      · exact opSha256_fastpath fl m _ c hwf
  rw [hcfg]
  unfold shaBase shaArg shaByte at *
  have hl := sha256_len32 (2 :: (h1 ++ h2))
  cases hnm : newModel fl
  all_goals
    simp only [hnm, Bool.false_eq_true, if_false, if_true, Gen.SHA256_BASE_COST, Gen.SHA256_COST_PER_ARG,
      Gen.SHA256_COST_PER_BYTE, Gen.NEW_SHA256_BASE_COST, Gen.NEW_SHA256_COST_PER_ARG,
      Gen.NEW_SHA256_COST_PER_BYTE, Gen.MALLOC_COST_PER_BYTE] at hm ⊢
    simp only [opSha256, hnm, Bool.false_eq_true, if_false, if_true, Val.isNilPtr, argList, Val.nil, sha256Loop,
      Gen.SHA256_BASE_COST, Gen.SHA256_COST_PER_ARG, Gen.SHA256_COST_PER_BYTE, Gen.NEW_SHA256_BASE_COST,
      Gen.NEW_SHA256_COST_PER_ARG, Gen.NEW_SHA256_COST_PER_BYTE, Gen.MALLOC_COST_PER_BYTE,
      atomBytes, Val.mkAtom, List.length_cons, List.length_nil, checkCost, List.nil_append, List.cons_append,
      hl1, hl2]
    rw [if_neg (by omega), if_neg (by omega), if_neg (by omega)]
    simp only [newAtomAndCost]
    rw [allocAtom_bump c _ (by rw [hl]; exact hh) ha]
    simp only [hl, Val.mkAtom, Except.ok.injEq, Prod.mk.injEq, and_true, Gen.MALLOC_COST_PER_BYTE] <;> omega

/-- what `sha256` charges for `(1 X)`, `X` an atom of `len` bytes (with the 32-byte allocation) -/
def atomOpCost (nm : Bool) (len : Nat) : Nat :=
  shaBase nm + 2 * shaArg nm + (1 + len) * shaByte nm + 32 * Gen.MALLOC_COST_PER_BYTE
/-- what `sha256` charges for `(2 h₁ h₂)` -/
def pairOpCost (nm : Bool) : Nat :=
  shaBase nm + 3 * shaArg nm + 65 * shaByte nm + 32 * Gen.MALLOC_COST_PER_BYTE
/-- BODY up to the point where the chosen case starts: `a`, `1`, `i`, two quotes, `(l 5)`, `APPLY_COST` -/
def dispatchCost (nm : Bool) : Nat := 229 + listpCost nm + ifCost nm

/-- the cost of BODY in the environment `(BODY T)` -/
def bodyCost (nm : Bool) : Tree → Nat
  | .atom b => dispatchCost nm + 73 + atomOpCost nm b.length
  | .pair l r => dispatchCost nm + 799 + bodyCost nm r + bodyCost nm l + pairOpCost nm
/-- pairs allocated by BODY in the environment `(BODY T)` (argument lists and `c`) -/
def pairsUsed : Tree → Nat
  | .atom _ => 8
  | .pair l r => 25 + pairsUsed r + pairsUsed l
/-- nodes of a tree = atoms allocated by BODY (one 32-byte hash per node) -/
def nodes : Tree → Nat
  | .atom _ => 1
  | .pair l r => 1 + nodes r + nodes l
def depth : Tree → Nat
  | .atom _ => 0
  | .pair l r => 1 + max (depth l) (depth r)

theorem bump_congr (c : Ctr) {a p h a' p' h' : Nat} (h1 : a = a') (h2 : p = p') (h3 : h = h') :
    c.bump a p h = c.bump a' p' h' := by subst h1 h2 h3; rfl

/-! ### the program as a value -/

namespace ShaTree

/-- a one-byte inline atom (the tag `new_atom` gives to a non-zero byte `< 0x80`) -/
def vN (k : UInt8) : Val := .atom [k] true
/-- `(q . x)` -/
def qV (x : Val) : Val := .pair (vN 1) x
/-- `(c A B)` -/
def consV (A B : Val) : Val := .pair (vN 4) (.pair A (.pair B Val.nil))
/-- `(a 2 (c 2 (c PATH ())))` -/
def recCallV (path : UInt8) : Val :=
  .pair (vN 2) (.pair (vN 2) (.pair (consV (vN 2) (consV (vN path) Val.nil)) Val.nil))
/-- `(sha256 (q . 1) 5)` -/
def atomCaseV : Val := .pair (vN 11) (.pair (qV (vN 1)) (.pair (vN 5) Val.nil))
/-- `(sha256 (q . 2) (a 2 (c 2 (c 9 ()))) (a 2 (c 2 (c 13 ()))))` -/
def pairCaseV : Val := .pair (vN 11) (.pair (qV (vN 2)) (.pair (recCallV 9) (.pair (recCallV 13) Val.nil)))
/-- `(l 5)` -/
def listpV : Val := .pair (vN 7) (.pair (vN 5) Val.nil)
/-- `(i (l 5) (q . PAIRCASE) (q . ATOMCASE))` -/
def ifV : Val := .pair (vN 3) (.pair listpV (.pair (qV pairCaseV) (.pair (qV atomCaseV) Val.nil)))
/-- `(a (i (l 5) (q . PAIRCASE) (q . ATOMCASE)) 1)` -/
def bodyV : Val := .pair (vN 2) (.pair ifV (.pair (vN 1) Val.nil))
/-- `(a (q . MAIN) (c (q . BODY) 1))` -/
def progV : Val := .pair (vN 2) (.pair (qV (recCallV 3)) (.pair (consV (qV bodyV) (vN 1)) Val.nil))

/-- the value `node_from_bytes` builds for the explicit program tree -/
theorem progV_eq : Val.ofTree Spec.ShaTree.prog = progV := by decide

/-- the check behind `prog_parses`, as a Boolean for kernel evaluation -/
def parseCheck : Bool :=
  match bytesOfHex Gen.sha256treeProgHex with
  | none => false
  | some b =>
    match TreeHash.parseTree (b.length + 1) b with
    | .ok (t, r) => t == Spec.ShaTree.prog && r == []
    | .error _ => false

set_option maxRecDepth 100000 in
theorem parseCheck_true : parseCheck = true := by decide +kernel

/-- `node_from_bytes` of the bytes extracted from `/repo/tools/src/bin/sha256tree-benching.rs` is the explicit
program tree -/
theorem prog_parses :
    (bytesOfHex Gen.sha256treeProgHex).map Serde.Classic.nodeFromBytes = some (.ok Spec.ShaTree.prog) := by
  have h := parseCheck_true
  unfold parseCheck at h
  cases hb : bytesOfHex Gen.sha256treeProgHex with
  | none => rw [hb] at h; cases h
  | some b =>
    rw [hb] at h
    simp only at h
    cases hp : TreeHash.parseTree (b.length + 1) b with
    | error e => rw [hp] at h; cases h
    | ok q =>
      obtain ⟨t, r⟩ := q
      rw [hp] at h
      simp only [Bool.and_eq_true, beq_iff_eq] at h
      obtain ⟨rfl, rfl⟩ := h
      simp only [Option.map_some, Serde.Classic.nodeFromBytes, TreeHash.nodeFromStream_eq_parseTree, hp]

/-! ### the dialect -/

section dialect
variable (cfg : Cfg) (extra : String → Option OpFn) (F : Nat)

local notation "D" => chiaDialect cfg extra F

theorem newModel_norm : newModel (normFlags F ||| 0) = newModel F := by
  rw [Nat.or_zero]
  exact hasFlag_normFlags F 13 (by decide)

theorem D_cons (al : Val) (m : Nat) (c : Ctr) :
    (D).op (vN 4) al m .Default c = some (opCons (normFlags F ||| 0) m al c) := rfl
theorem D_if (al : Val) (m : Nat) (c : Ctr) :
    (D).op (vN 3) al m .Default c = some (opIf (normFlags F ||| 0) m al c) := rfl
theorem D_listp (al : Val) (m : Nat) (c : Ctr) :
    (D).op (vN 7) al m .Default c = some (opListp (normFlags F ||| 0) m al c) := rfl
theorem D_sha (al : Val) (m : Nat) (c : Ctr) :
    (D).op (vN 11) al m .Default c = some (opSha256 cfg (normFlags F ||| 0) m al c) := rfl

variable {cfg extra F} {mc vl el : Nat} {env : Val}

/-- an environment path -/
theorem pathV_le {k : UInt8} {c0 : Ctr} {cost0 pc : Nat} {v : Val}
    (h : pathLookup cfg [k] true env = .ok (pc, v)) (hvl : vl + 1 ≤ Gen.STACK_SIZE_LIMIT) :
    EvalsLe cfg (D) mc [] vl el (vN k) env c0 cost0 v (cost0 + pc) c0 :=
  path_le h hvl

/-- `()` as a program -/
theorem nilV_le {c0 : Ctr} {cost0 : Nat} (hvl : vl + 1 ≤ Gen.STACK_SIZE_LIMIT) :
    EvalsLe cfg (D) mc [] vl el Val.nil env c0 cost0 Val.nil (cost0 + 44) c0 := by
  refine path_le (b := []) (inl := true) ?_ hvl
  cases cfg with
  | mk fp => cases fp <;> rfl

/-- `(q . x)` -/
theorem qV_le {x : Val} {c0 : Ctr} {cost0 : Nat} (hvl : vl + 1 ≤ Gen.STACK_SIZE_LIMIT) :
    EvalsLe cfg (D) mc [] vl el (qV x) env c0 cost0 x (cost0 + 20) c0 :=
  quote_le (ob := [1]) (oi := true) rfl hvl

/-- `(c A B)` -/
theorem consV_le {A B : Val} {c0 : Ctr} {cost0 : Nat} {vA vB : Val} {costA costB : Nat} {cA cB : Ctr}
    (hvl : vl + 4 ≤ Gen.STACK_SIZE_LIMIT) (hel : el + 1 ≤ Gen.STACK_SIZE_LIMIT)
    (hB : EvalsLe cfg (D) mc [] (vl + 3) (el + 1) B env c0 (cost0 + 1) vB costB cB)
    (hpB : cB.pairs < Gen.maxNumPairs)
    (hA : EvalsLe cfg (D) mc [] (vl + 2) (el + 1) A env (cB.bump 0 1 0) costB vA costA cA)
    (hpA : cA.pairs + 2 ≤ Gen.maxNumPairs)
    (hfin : costA + 50 ≤ mc) :
    EvalsLe cfg (D) mc [] vl el (consV A B) env c0 cost0 (.pair vA vB) (costA + 50) (cA.bump 0 2 0) := by
  refine (op2_le (ob := [4]) (oi := true) (tb := true)
    (show _ ≠ some 1 by decide) (show _ ≠ some 2 by decide) (show _ ≠ some 36 by decide) hvl hel hB
    (newPair_bump _ hpB) hA (newPair_bump _ (by omega)) ?_ hfin).cast rfl rfl
  show (D).op (vN 4) _ _ .Default _ = _
  rw [D_cons, opCons_two _ _ _ _ _ (by simp only [Ctr.bump]; omega)]
  rfl

/-- `(a 2 (c 2 (c PATH ())))` in an environment whose path 2 is BODY and whose path PATH is `Y`:
333 + (cost of the path) and 8 pairs, then BODY in the environment `(BODY Y)` -/
theorem recCall_le {p : UInt8} {E Y : Val} {pc : Nat} {c0 : Ctr} {cost0 : Nat} {v : Val} {cost2 : Nat} {c2 : Ctr}
    (hE2 : pathLookup cfg [2] true E = .ok (48, bodyV))
    (hEp : pathLookup cfg [p] true E = .ok (pc, Y))
    (hvl : vl + 10 ≤ Gen.STACK_SIZE_LIMIT) (hel : el + 3 ≤ Gen.STACK_SIZE_LIMIT)
    (hpairs : c0.pairs + 8 ≤ Gen.maxNumPairs)
    (hbody : EvalsLe cfg (D) mc [] vl el bodyV (.pair bodyV (.pair Y Val.nil)) (c0.bump 0 8 0)
      (cost0 + 333 + pc) v cost2 c2)
    (hfin : cost2 ≤ mc) :
    EvalsLe cfg (D) mc [] vl el (recCallV p) E c0 cost0 v cost2 c2 := by
  have hm := hbody.2
  -- `(c PATH ())`
  have h1 : EvalsLe cfg (D) mc [] (vl + 6) (el + 2) (consV (vN p) Val.nil) E c0 (cost0 + 2)
      (.pair Y Val.nil) (cost0 + 3 + 44 + pc + 50) (c0.bump 0 3 0) := by
    refine (consV_le (vl := vl + 6) (el := el + 2) (by omega) (by omega)
      (nilV_le (by omega)) (by omega) (pathV_le hEp (by omega)) (by simp only [Ctr.bump]; omega)
      (by omega)).cast rfl (by simp [bump_bump])
  -- `(c 2 (c PATH ()))`
  have h2 : EvalsLe cfg (D) mc [] (vl + 3) (el + 1) (consV (vN 2) (consV (vN p) Val.nil)) E c0 (cost0 + 1)
      (.pair bodyV (.pair Y Val.nil)) (cost0 + 3 + 44 + pc + 50 + 48 + 50) (c0.bump 0 6 0) := by
    refine (consV_le (vl := vl + 3) (el := el + 1) (by omega) (by omega)
      h1 (by simp only [Ctr.bump]; omega) (pathV_le hE2 (by omega)) (by simp only [Ctr.bump]; omega)
      (by omega)).cast rfl (by simp [bump_bump])
  have e1 : ((c0.bump 0 6 0).bump 0 1 0).bump 0 1 0 = c0.bump 0 8 0 := by simp [bump_bump]
  have e2 : cost0 + 3 + 44 + pc + 50 + 48 + 50 + 48 + Gen.APPLY_COST = cost0 + 333 + pc := by
    simp only [Gen.APPLY_COST]; omega
  exact apply2_le (ob := [2]) (oi := true) (tb := true) (show _ ≠ some 1 by decide) (show _ = some 2 by decide)
    (by omega) (by omega) h2 (newPair_bump _ (by simp only [Ctr.bump]; omega))
    (pathV_le hE2 (by omega)) (newPair_bump _ (by simp only [Ctr.bump]; omega))
    (by rw [e1, e2]; exact hbody) hfin

/-- BODY `= (a (i (l 5) (q . PAIRCASE) (q . ATOMCASE)) 1)` in the environment `(BODY X)`: `dispatchCost` and
6 pairs, then the case selected by `X` in the same environment -/
theorem body_dispatch_le {X : Val} {c0 : Ctr} {cost0 : Nat} {v : Val} {cost2 : Nat} {c2 : Ctr}
    (hvl : vl + 7 ≤ Gen.STACK_SIZE_LIMIT) (hel : el + 3 ≤ Gen.STACK_SIZE_LIMIT)
    (hpairs : c0.pairs + 6 ≤ Gen.maxNumPairs)
    (hcase : EvalsLe cfg (D) mc [] vl el (if X.isPair then pairCaseV else atomCaseV)
      (.pair bodyV (.pair X Val.nil)) (c0.bump 0 6 0) (cost0 + dispatchCost (newModel F)) v cost2 c2)
    (hfin : cost2 ≤ mc) :
    EvalsLe cfg (D) mc [] vl el bodyV (.pair bodyV (.pair X Val.nil)) c0 cost0 v cost2 c2 := by
  have hm := hcase.2
  unfold dispatchCost at hm
  have hp1 : pathLookup cfg [1] true (.pair bodyV (.pair X Val.nil)) = .ok (44, .pair bodyV (.pair X Val.nil)) := by
    cases cfg with
    | mk fp => cases fp <;> rfl
  have hp5 : pathLookup cfg [5] true (.pair bodyV (.pair X Val.nil)) = .ok (52, X) := by
    cases cfg with
    | mk fp => cases fp <;> rfl
  -- `(l 5)`
  have hl : EvalsLe cfg (D) mc [] (vl + 4) (el + 2) listpV (.pair bodyV (.pair X Val.nil)) (c0.bump 0 3 0)
      (cost0 + 86) (if X.isPair then Val.one else Val.nil) (cost0 + 139 + listpCost (newModel F))
      (c0.bump 0 4 0) := by
    have hop : (D).op (vN 7) (.pair X Val.nil) (mc - (cost0 + 86 + 1 + 52)) .Default
        ((c0.bump 0 3 0).bump 0 1 0) = some (.ok (listpCost (newModel F),
          (if X.isPair then Val.one else Val.nil), (c0.bump 0 3 0).bump 0 1 0)) := by
      rw [D_listp, opListp_one, newModel_norm]
    exact (op1_le (ob := [7]) (oi := true) (tb := true) (show _ ≠ some 1 by decide) (show _ ≠ some 2 by decide)
      (show _ ≠ some 36 by decide) (by omega) (by omega) (pathV_le hp5 (by omega))
      (newPair_bump _ (by simp only [Ctr.bump]; omega)) hop
      (by show _ ≤ mc; simp only [Gen.OP_COST]; omega)).cast
      (by simp only [Gen.OP_COST] <;> omega) (by simp [bump_bump])
  -- `(i (l 5) (q . PAIRCASE) (q . ATOMCASE))`
  have hi : EvalsLe cfg (D) mc [] (vl + 2) (el + 1) ifV (.pair bodyV (.pair X Val.nil)) (c0.bump 0 1 0)
      (cost0 + 45) (if X.isPair then pairCaseV else atomCaseV)
      (cost0 + 139 + listpCost (newModel F) + ifCost (newModel F)) (c0.bump 0 5 0) := by
    have hop : (D).op (vN 3)
        (.pair (if X.isPair then Val.one else Val.nil) (.pair pairCaseV (.pair atomCaseV Val.nil)))
        (mc - (cost0 + 139 + listpCost (newModel F))) .Default ((c0.bump 0 4 0).bump 0 1 0) =
          some (.ok (ifCost (newModel F), (if X.isPair then pairCaseV else atomCaseV),
            (c0.bump 0 4 0).bump 0 1 0)) := by
      rw [D_if, opIf_three, newModel_norm]
      cases X.isPair <;> rfl
    have e3 : ((c0.bump 0 1 0).bump 0 1 0).bump 0 1 0 = c0.bump 0 3 0 := by simp [bump_bump]
    have e4 : cost0 + 45 + Gen.OP_COST + 20 + 20 = cost0 + 86 := by simp only [Gen.OP_COST]
    exact (op3_le (ob := [3]) (oi := true) (tb := true) (show _ ≠ some 1 by decide) (show _ ≠ some 2 by decide)
      (show _ ≠ some 36 by decide) (by omega) (by omega)
      (qV_le (by omega)) (newPair_bump _ (by simp only [Ctr.bump]; omega))
      (qV_le (by omega)) (newPair_bump _ (by simp only [Ctr.bump]; omega))
      (by rw [e3, e4]; exact hl)
      (newPair_bump _ (by simp only [Ctr.bump]; omega)) hop (by show _ ≤ mc; omega)).cast rfl
      (by simp [bump_bump])
  have e1 : (c0.bump 0 5 0).bump 0 1 0 = c0.bump 0 6 0 := by simp [bump_bump]
  have e2 : cost0 + 139 + listpCost (newModel F) + ifCost (newModel F) + Gen.APPLY_COST =
      cost0 + dispatchCost (newModel F) := by
    simp only [Gen.APPLY_COST, dispatchCost]; omega
  exact apply2_le (ob := [2]) (oi := true) (tb := true) (show _ ≠ some 1 by decide) (show _ = some 2 by decide)
    (by omega) (by omega) (pathV_le hp1 (by omega)) (newPair_bump _ (by omega))
    hi (newPair_bump _ (by simp only [Ctr.bump]; omega))
    (by rw [e1, e2]; exact hcase) hfin

/-- **BODY computes the tree hash.**  In the environment `(BODY X)`, for every well-formed value `X`
(any atom representation), from any cost, counters and stack heights that leave enough room. -/
theorem body_le (X : Val) : X.wf = true → ∀ (vl el : Nat) (c0 : Ctr) (cost0 : Nat),
    vl + 4 * depth X.erase + 12 ≤ Gen.STACK_SIZE_LIMIT → el + depth X.erase + 4 ≤ Gen.STACK_SIZE_LIMIT →
    c0.pairs + pairsUsed X.erase ≤ Gen.maxNumPairs → c0.atoms + nodes X.erase ≤ Gen.maxNumAtoms →
    c0.heap + 32 * nodes X.erase ≤ c0.heapLimit →
    cost0 + bodyCost (newModel F) X.erase ≤ mc →
    EvalsLe cfg (D) mc [] vl el bodyV (.pair bodyV (.pair X Val.nil)) c0 cost0
      (Val.mkAtom (TreeHash.treeHash X.erase)) (cost0 + bodyCost (newModel F) X.erase)
      (c0.bump (nodes X.erase) (pairsUsed X.erase) (32 * nodes X.erase)) := by
  induction X with
  | atom b t =>
    intro hw vl el c0 cost0 hvl hel hp ha hh hc
    simp only [Val.erase, depth, pairsUsed, nodes, bodyCost] at *
    refine body_dispatch_le (by omega) (by omega) (by omega) ?_ (by omega)
    simp only [Val.isPair, Bool.false_eq_true, if_false]
    have hp5 : pathLookup cfg [5] true (.pair bodyV (.pair (.atom b t) Val.nil)) = .ok (52, .atom b t) := by
      cases cfg with
      | mk fp => cases fp <;> rfl
    have hop : (D).op (vN 11) (.pair (vN 1) (.pair (.atom b t) Val.nil))
        (mc - (cost0 + dispatchCost (newModel F) + 1 + 52 + 20)) .Default ((c0.bump 0 7 0).bump 0 1 0) =
        some (.ok (atomOpCost (newModel F) b.length, Val.mkAtom (TreeHash.treeHash (.atom b)),
          ((c0.bump 0 7 0).bump 0 1 0).bump 1 0 32)) := by
      rw [D_sha]
      have := sha_opSha256_atom cfg (normFlags F ||| 0) (mc - (cost0 + dispatchCost (newModel F) + 1 + 52 + 20))
        b t ((c0.bump 0 7 0).bump 0 1 0) hw
        (by rw [newModel_norm]; unfold atomOpCost at hc; omega)
        (by simp only [Ctr.bump]; omega) (by simp only [Ctr.bump]; omega)
      rw [newModel_norm] at this
      exact congrArg some this
    have e1 : (c0.bump 0 6 0).bump 0 1 0 = c0.bump 0 7 0 := by simp [bump_bump]
    exact (op2_le (ob := [11]) (oi := true) (tb := true) (show _ ≠ some 1 by decide) (show _ ≠ some 2 by decide)
      (show _ ≠ some 36 by decide) (by omega) (by omega)
      (pathV_le hp5 (by omega)) (newPair_bump _ (by simp only [Ctr.bump]; omega))
      (by rw [e1]; exact qV_le (by omega)) (newPair_bump _ (by simp only [Ctr.bump]; omega))
      hop (by show _ ≤ mc; first | omega | (simp only [Gen.OP_COST]; omega))).cast
      (by first | omega | (simp only [Gen.OP_COST]; omega)) (by simp [bump_bump])
  | pair l r ihl ihr =>
    intro hw vl el c0 cost0 hvl hel hp ha hh hc
    rw [wf_pair] at hw
    simp only [Val.erase, depth, pairsUsed, nodes, bodyCost] at *
    refine body_dispatch_le (by omega) (by omega) (by omega) ?_ (by omega)
    simp only [Val.isPair, if_true]
    have hp2 : pathLookup cfg [2] true (.pair bodyV (.pair (.pair l r) Val.nil)) = .ok (48, bodyV) := by
      cases cfg with
      | mk fp => cases fp <;> rfl
    have hp9 : pathLookup cfg [9] true (.pair bodyV (.pair (.pair l r) Val.nil)) = .ok (56, l) := by
      cases cfg with
      | mk fp => cases fp <;> rfl
    have hp13 : pathLookup cfg [13] true (.pair bodyV (.pair (.pair l r) Val.nil)) = .ok (56, r) := by
      cases cfg with
      | mk fp => cases fp <;> rfl
    -- abbreviations for the accumulated costs
    generalize hK : cost0 + dispatchCost (newModel F) = K at *
    -- the right sub-tree (third operand, evaluated first)
    have hr := ihr hw.2 (vl + 4) (el + 1) ((c0.bump 0 6 0).bump 0 8 0) (K + 1 + 333 + 56) (by omega) (by omega)
      (by simp only [Ctr.bump]; omega) (by simp only [Ctr.bump]; omega) (by simp only [Ctr.bump]; omega)
      (by omega)
    have hR := recCall_le (p := 13) (cost0 := K + 1) hp2 hp13 (by omega) (by omega)
      (by simp only [Ctr.bump]; omega) hr (by omega)
    -- the left sub-tree
    have hl := ihl hw.1 (vl + 3) (el + 1)
      (((((c0.bump 0 6 0).bump 0 8 0).bump (nodes r.erase) (pairsUsed r.erase) (32 * nodes r.erase)).bump 0 1 0).bump
        0 8 0)
      (K + 1 + 333 + 56 + bodyCost (newModel F) r.erase + 333 + 56) (by omega) (by omega)
      (by simp only [Ctr.bump]; omega) (by simp only [Ctr.bump]; omega) (by simp only [Ctr.bump]; omega)
      (by omega)
    have hL := recCall_le (p := 9) (cost0 := K + 1 + 333 + 56 + bodyCost (newModel F) r.erase) hp2 hp9
      (by omega) (by omega) (by simp only [Ctr.bump]; omega) hl (by omega)
    have hop : (D).op (vN 11)
        (.pair (vN 2) (.pair (Val.mkAtom (TreeHash.treeHash l.erase))
          (.pair (Val.mkAtom (TreeHash.treeHash r.erase)) Val.nil)))
        (mc - (K + 1 + 333 + 56 + bodyCost (newModel F) r.erase + 333 + 56 + bodyCost (newModel F) l.erase + 20))
        .Default
        ((c0.bump (nodes r.erase + nodes l.erase) (24 + pairsUsed r.erase + pairsUsed l.erase)
          (32 * nodes r.erase + 32 * nodes l.erase)).bump 0 1 0) =
        some (.ok (pairOpCost (newModel F),
          Val.mkAtom (TreeHash.treeHash (.pair l.erase r.erase)),
          ((c0.bump (nodes r.erase + nodes l.erase) (24 + pairsUsed r.erase + pairsUsed l.erase)
            (32 * nodes r.erase + 32 * nodes l.erase)).bump 0 1 0).bump 1 0 32)) := by
      rw [D_sha]
      have := sha_opSha256_pair cfg (normFlags F ||| 0)
        (mc - (K + 1 + 333 + 56 + bodyCost (newModel F) r.erase + 333 + 56 + bodyCost (newModel F) l.erase + 20))
        (TreeHash.treeHash l.erase) (TreeHash.treeHash r.erase)
        ((c0.bump (nodes r.erase + nodes l.erase) (24 + pairsUsed r.erase + pairsUsed l.erase)
          (32 * nodes r.erase + 32 * nodes l.erase)).bump 0 1 0)
        (treeHash_len32 _) (treeHash_len32 _)
        (by rw [newModel_norm]; unfold pairOpCost at hc; omega)
        (by simp only [Ctr.bump]; omega) (by simp only [Ctr.bump]; omega)
      rw [newModel_norm] at this
      exact congrArg some this
    have e1 : ((((((c0.bump 0 6 0).bump 0 8 0).bump (nodes r.erase) (pairsUsed r.erase) (32 * nodes r.erase)).bump 0 1
        0).bump 0 8 0).bump (nodes l.erase) (pairsUsed l.erase) (32 * nodes l.erase)).bump 0 1 0 =
        c0.bump (nodes r.erase + nodes l.erase) (24 + pairsUsed r.erase + pairsUsed l.erase)
          (32 * nodes r.erase + 32 * nodes l.erase) := by
      simp only [bump_bump]
      exact bump_congr _ (by omega) (by omega) (by omega)
    exact (op3_le (ob := [11]) (oi := true) (tb := true) (show _ ≠ some 1 by decide) (show _ ≠ some 2 by decide)
      (show _ ≠ some 36 by decide) (by omega) (by omega)
      hR (newPair_bump _ (by simp only [Ctr.bump]; omega))
      hL (newPair_bump _ (by simp only [Ctr.bump]; omega))
      (by rw [e1]; exact qV_le (by omega)) (newPair_bump _ (by simp only [Ctr.bump]; omega))
      hop (by show _ ≤ mc; omega)).cast
      (by omega) (by simp only [bump_bump]; exact bump_congr _ (by omega) (by omega) (by omega))

/-- cost of the whole program on the tree `t`: 607 for the wrapper `(a (q . MAIN) (c (q . BODY) 1))` and MAIN -/
def progCost (nm : Bool) (t : Tree) : Nat := 607 + bodyCost nm t

/-- **The whole program** in the environment `T` -/
theorem prog_le (T : Val) (hw : T.wf = true) (vl el : Nat) (c0 : Ctr) (cost0 : Nat)
    (hvl : vl + 4 * depth T.erase + 22 ≤ Gen.STACK_SIZE_LIMIT)
    (hel : el + depth T.erase + 7 ≤ Gen.STACK_SIZE_LIMIT)
    (hp : c0.pairs + 13 + pairsUsed T.erase ≤ Gen.maxNumPairs)
    (ha : c0.atoms + nodes T.erase ≤ Gen.maxNumAtoms)
    (hh : c0.heap + 32 * nodes T.erase ≤ c0.heapLimit)
    (hc : cost0 + progCost (newModel F) T.erase ≤ mc) :
    EvalsLe cfg (D) mc [] vl el progV T c0 cost0
      (Val.mkAtom (TreeHash.treeHash T.erase)) (cost0 + progCost (newModel F) T.erase)
      (c0.bump (nodes T.erase) (13 + pairsUsed T.erase) (32 * nodes T.erase)) := by
  unfold progCost at *
  have hp1 : pathLookup cfg [1] true T = .ok (44, T) := by
    cases cfg with
    | mk fp => cases fp <;> rfl
  have hp2 : pathLookup cfg [2] true (.pair bodyV T) = .ok (48, bodyV) := by
    cases cfg with
    | mk fp => cases fp <;> rfl
  have hp3 : pathLookup cfg [3] true (.pair bodyV T) = .ok (48, T) := by
    cases cfg with
    | mk fp => cases fp <;> rfl
  -- `(c (q . BODY) 1)`
  have h1 : EvalsLe cfg (D) mc [] (vl + 3) (el + 1) (consV (qV bodyV) (vN 1)) T c0 (cost0 + 1)
      (.pair bodyV T) (cost0 + 116) (c0.bump 0 3 0) := by
    refine (consV_le (vl := vl + 3) (el := el + 1) (by omega) (by omega)
      (pathV_le hp1 (by omega)) (by omega) (qV_le (by omega)) (by simp only [Ctr.bump]; omega)
      (by omega)).cast (by omega) (by simp [bump_bump])
  -- BODY on `T`
  have hb := body_le (cfg := cfg) (extra := extra) (F := F) (mc := mc) T hw vl el (c0.bump 0 13 0)
    (cost0 + 607) (by omega) (by omega) (by simp only [Ctr.bump]; omega) (by simp only [Ctr.bump]; omega)
    (by simp only [Ctr.bump]; omega) (by omega)
  -- MAIN `= (a 2 (c 2 (c 3 ())))` in the environment `(BODY . T)`
  have e0 : (c0.bump 0 5 0).bump 0 8 0 = c0.bump 0 13 0 := by simp [bump_bump]
  have hmain : EvalsLe cfg (D) mc [] vl el (recCallV 3) (.pair bodyV T) (c0.bump 0 5 0) (cost0 + 226)
      (Val.mkAtom (TreeHash.treeHash T.erase)) (cost0 + 607 + bodyCost (newModel F) T.erase)
      ((c0.bump 0 13 0).bump (nodes T.erase) (pairsUsed T.erase) (32 * nodes T.erase)) := by
    have e3 : cost0 + 226 + 333 + 48 = cost0 + 607 := by omega
    exact recCall_le (p := 3) hp2 hp3 (by omega) (by omega) (by simp only [Ctr.bump]; omega)
      (by rw [e0, e3]; exact hb) (by omega)
  have e1 : ((c0.bump 0 3 0).bump 0 1 0).bump 0 1 0 = c0.bump 0 5 0 := by simp [bump_bump]
  have e2 : cost0 + 116 + 20 + Gen.APPLY_COST = cost0 + 226 := by simp only [Gen.APPLY_COST]
  exact (apply2_le (ob := [2]) (oi := true) (tb := true) (show _ ≠ some 1 by decide) (show _ = some 2 by decide)
    (by omega) (by omega) h1 (newPair_bump _ (by simp only [Ctr.bump]; omega))
    (qV_le (by omega)) (newPair_bump _ (by simp only [Ctr.bump]; omega))
    (by rw [e1, e2]; exact hmain) (by show _ ≤ mc; omega)).cast (by omega)
    (by simp only [bump_bump]; exact bump_congr _ (by omega) (by omega) (by omega))

/-- … and as a run of `run_program` from the initial state (counters `c0`, budget `mc0`, 0 = unlimited) -/
theorem prog_runs (T : Val) (hw : T.wf = true) (c0 : Ctr) (mc0 : Nat)
    (hd : 4 * depth T.erase + 22 ≤ Gen.STACK_SIZE_LIMIT)
    (hp : c0.pairs + 13 + pairsUsed T.erase ≤ Gen.maxNumPairs)
    (ha : c0.atoms + 1 + nodes T.erase ≤ Gen.maxNumAtoms)
    (hh : c0.heap + 32 * nodes T.erase ≤ c0.heapLimit)
    (hc : progCost (newModel F) T.erase ≤ (if mc0 == 0 then U64_MAX else mc0)) :
    ∃ fuel0, ∀ fuel, fuel0 ≤ fuel →
      runProgram cfg (D) fuel c0 progV T mc0 =
        some (.ok (progCost (newModel F) T.erase, Val.mkAtom (TreeHash.treeHash T.erase),
          c0.bump (1 + nodes T.erase) (13 + pairsUsed T.erase) (32 * nodes T.erase))) := by
  have hg : c0.addGhostAtom 1 = .ok (c0.bump 1 0 0) := by
    unfold Ctr.addGhostAtom Ctr.bump
    have : ¬ Gen.maxNumAtoms - c0.atoms < 1 := by omega
    simp only [this, if_false, Nat.add_zero]
  have h := prog_le (cfg := cfg) (extra := extra) (F := F) (mc := if mc0 == 0 then U64_MAX else mc0) T hw 0 0
    (c0.bump 1 0 0) 0 (by omega) (by have := depth T.erase; omega) (by simp only [Ctr.bump]; omega)
    (by simp only [Ctr.bump]; omega) (by simp only [Ctr.bump]; omega) (by omega)
  have h' := h.1
  rw [Nat.zero_add, bump_bump] at h'
  have e : c0.bump (1 + nodes T.erase) (0 + (13 + pairsUsed T.erase)) (0 + 32 * nodes T.erase) =
      c0.bump (1 + nodes T.erase) (13 + pairsUsed T.erase) (32 * nodes T.erase) :=
    bump_congr _ rfl (by omega) (by omega)
  rw [e] at h'
  exact runProgram_of_Evals hg h' hc

end dialect

/-! ### closed forms -/

/-- cost per pair of the tree -/
def pairCoeff (nm : Bool) : Nat := dispatchCost nm + 799 + pairOpCost nm
/-- cost per atom of the tree (without its bytes) -/
def atomCoeff (nm : Bool) : Nat :=
  dispatchCost nm + 73 + shaBase nm + 2 * shaArg nm + shaByte nm + 32 * Gen.MALLOC_COST_PER_BYTE

theorem coeff_values :
    pairCoeff false = 2019 ∧ atomCoeff false = 1031 ∧ shaByte false = 2 ∧
    pairCoeff true = 3748 ∧ atomCoeff true = 2478 ∧ shaByte true = 6 := by decide

theorem bodyCost_closed (nm : Bool) (t : Tree) :
    bodyCost nm t = pairCoeff nm * t.pairs + atomCoeff nm * t.atoms + shaByte nm * TreeHash.sumLen t := by
  obtain ⟨h1, h2, h3, h4, h5, h6⟩ := coeff_values
  induction t with
  | atom b =>
    cases nm
    · have : bodyCost false (.atom b) = 1031 + 2 * b.length := by
        simp only [bodyCost, dispatchCost, atomOpCost, listpCost, ifCost, shaBase, shaArg, shaByte,
          Bool.false_eq_true, if_false, Gen.LISTP_COST, Gen.IF_COST, Gen.SHA256_BASE_COST, Gen.SHA256_COST_PER_ARG,
          Gen.SHA256_COST_PER_BYTE, Gen.MALLOC_COST_PER_BYTE]
        omega
      rw [this, h1, h2, h3]; simp only [Tree.pairs, Tree.atoms, TreeHash.sumLen] <;> omega
    · have : bodyCost true (.atom b) = 2478 + 6 * b.length := by
        simp only [bodyCost, dispatchCost, atomOpCost, listpCost, ifCost, shaBase, shaArg, shaByte,
          if_true, Gen.NEW_LISTP_COST, Gen.NEW_IF_COST, Gen.NEW_SHA256_BASE_COST, Gen.NEW_SHA256_COST_PER_ARG,
          Gen.NEW_SHA256_COST_PER_BYTE, Gen.MALLOC_COST_PER_BYTE]
        omega
      rw [this, h4, h5, h6]; simp only [Tree.pairs, Tree.atoms, TreeHash.sumLen] <;> omega
  | pair l r ihl ihr =>
    have hp : bodyCost nm (.pair l r) = pairCoeff nm + bodyCost nm r + bodyCost nm l := by
      simp only [bodyCost, pairCoeff]; omega
    rw [hp, ihl, ihr]
    cases nm
    · rw [h1, h2, h3]; simp only [Tree.pairs, Tree.atoms, TreeHash.sumLen]; omega
    · rw [h4, h5, h6]; simp only [Tree.pairs, Tree.atoms, TreeHash.sumLen]; omega

theorem pairsUsed_closed (t : Tree) : pairsUsed t = 25 * t.pairs + 8 * t.atoms := by
  induction t with
  | atom b => simp [pairsUsed, Tree.pairs, Tree.atoms]
  | pair l r ihl ihr => simp only [pairsUsed, Tree.pairs, Tree.atoms, ihl, ihr]; omega

theorem nodes_closed (t : Tree) : nodes t = t.pairs + t.atoms := by
  induction t with
  | atom b => simp [nodes, Tree.pairs, Tree.atoms]
  | pair l r ihl ihr => simp only [nodes, Tree.pairs, Tree.atoms, ihl, ihr]; omega

theorem depth_le_pairs (t : Tree) : depth t ≤ t.pairs := by
  induction t with
  | atom b => simp [depth]
  | pair l r ihl ihr => simp only [depth, Tree.pairs]; omega

end ShaTree

end Clvm.Interp
