/-
C03, whole runs of `ChiaDialect` with all operators (`cryptoExtra`): no operator hypotheses left.
-/
import ClvmProofs.Lemmas.Interp.ReprMachine
import ClvmProofs.Lemmas.Interp.Clean
import ClvmProofs.Lemmas.Interp.CryptoShapes

namespace Clvm.Interp
open Clvm Clvm.Alloc

/-- **C03 for `ChiaDialect` with every operator and every flag set.**  Two runs on re-encoded
programs and environments (equal erasure, both well-formed) from the same counters: if neither run
applies `op_substr` inside the defect region of known finding C (the guarded runs both answer), the
runs of the real dialect give those answers, and they agree up to representation tags — same error
kind, or same cost, erase-equal result, equal atom / pair counts and heap size. -/
theorem chia_eval_retag_partial (cfg : Cfg) (F : Flags)
    (fuel fuel' : Nat) (c0 : Ctr) (program program' env env' : Val)
    (hpw : program.wf = true) (hpw' : program'.wf = true) (hpe : program.erase = program'.erase)
    (hew : env.wf = true) (hew' : env'.wf = true) (hee : env.erase = env'.erase)
    (maxCost : Nat) (r r' : OpRes)
    (hr : runProgram cfg ((chiaDialect cfg cryptoExtra F).guard substrGuard) fuel c0 program env maxCost = some r)
    (hr' : runProgram cfg ((chiaDialect cfg cryptoExtra F).guard substrGuard) fuel' c0 program' env' maxCost = some r') :
    runProgram cfg (chiaDialect cfg cryptoExtra F) fuel c0 program env maxCost = some r ∧
    runProgram cfg (chiaDialect cfg cryptoExtra F) fuel' c0 program' env' maxCost = some r' ∧
    ResEraseEq true r r' :=
  eval_retag_chia_partial cfg cryptoExtra F (coreOps_wf cfg) opUnknown_wf
    (fun name f h => ⟨cryptoExtra_repr name f h, cryptoExtra_wf name f h⟩)
    fuel fuel' c0 program program' env env' hpw hpw' hpe hew hew' hee maxCost r r' hr hr'

/-- `(+ (q . 1) (q . 2))` with the operator atom inline / on the heap -/
def addProg (inl : Bool) : Val :=
  .pair (.atom [16] inl)
    (.pair (.pair (.atom [1] true) (.atom [1] true))
      (.pair (.pair (.atom [1] true) (.atom [2] true)) Val.nil))

-- under ENABLE_GC the inline operator atom is a `gc_candidate`, the heap one is not: the first run
-- takes one `RestoreAllocator` step more (fuel 7 vs 6); both guarded runs answer
example : (addProg true).wf = true ∧ (addProg false).wf = true ∧ (addProg true).erase = (addProg false).erase := by
  decide
example : (chiaDialect {} cryptoExtra Gen.FLAG_ENABLE_GC).gcCandidate (.atom [16] true) = true ∧
    (chiaDialect {} cryptoExtra Gen.FLAG_ENABLE_GC).gcCandidate (.atom [16] false) = false := by decide
example : (runProgram {} ((chiaDialect {} cryptoExtra Gen.FLAG_ENABLE_GC).guard substrGuard) 6 (Ctr.new 1000)
    (addProg true) Val.nil 0).isSome = false := by rfl
example : (runProgram {} ((chiaDialect {} cryptoExtra Gen.FLAG_ENABLE_GC).guard substrGuard) 7 (Ctr.new 1000)
    (addProg true) Val.nil 0).isSome = true := by rfl
example : (runProgram {} ((chiaDialect {} cryptoExtra Gen.FLAG_ENABLE_GC).guard substrGuard) 6 (Ctr.new 1000)
    (addProg false) Val.nil 0).isSome = true := by rfl

end Clvm.Interp
