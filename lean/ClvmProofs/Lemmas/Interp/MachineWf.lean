/-
The machine preserves well-formedness of the values on its stacks, given that the dialect's
operators return well-formed values on well-formed arguments.
-/
import ClvmProofs.Lemmas.Interp.MachineBase

namespace Clvm.Interp
open Clvm Clvm.Alloc

/-- the dialect's operators return well-formed values -/
def Dialect.OpWf (d : Dialect) : Prop :=
  ∀ (o args : Val) (m : Nat) (ext : OperatorSet) (c : Ctr) (r : Nat × Val × Ctr),
    o.wf = true → args.wf = true → d.op o args m ext c = some (.ok r) → r.2.1.wf = true

theorem wf_nil : Val.nil.wf = true := by decide
theorem wf_one : Val.one.wf = true := by decide

theorem wf_pair {l r : Val} : (Val.pair l r).wf = true ↔ l.wf = true ∧ r.wf = true := by
  simp [Val.wf]

theorem mw_argList_wf : ∀ (a : Val), a.wf = true → ∀ x ∈ argList a, x.wf = true := by
  intro a
  induction a with
  | atom b i => intro _ x hx; simp [argList] at hx
  | pair l r _ ihr =>
    intro h x hx
    rw [wf_pair] at h
    simp only [argList, List.mem_cons] at hx
    rcases hx with rfl | hx
    · exact h.1
    · exact ihr h.2 x hx

theorem getArgs_wf {n : Nat} {a : Val} {name : String} {l : List Val} (hw : a.wf = true)
    (h : getArgs n a name = .ok l) : ∀ x ∈ l, x.wf = true := by
  unfold getArgs matchArgs at h
  simp only at h
  split at h
  · rename_i l' hl
    split at hl
    · simp only [Option.some.injEq] at hl; subst hl
      simp only [Except.ok.injEq] at h; subst h
      exact mw_argList_wf a hw
    · cases hl
  · cases h

theorem getArgs1_wf {a v : Val} {name : String} (hw : a.wf = true) (h : getArgs1 a name = .ok v) :
    v.wf = true := by
  unfold getArgs1 at h
  cases hg : getArgs 1 a name with
  | error e => rw [hg] at h; cases h
  | ok l =>
    rw [hg] at h
    have := getArgs_wf hw hg
    match l, h with
    | [x], h => simp only [Except.ok.injEq] at h; subst h; exact this _ (by simp)

theorem getArgs2_wf {a v w : Val} {name : String} (hw : a.wf = true) (h : getArgs2 a name = .ok (v, w)) :
    v.wf = true ∧ w.wf = true := by
  unfold getArgs2 at h
  cases hg : getArgs 2 a name with
  | error e => rw [hg] at h; cases h
  | ok l =>
    rw [hg] at h
    have := getArgs_wf hw hg
    match l, h with
    | [x, y], h =>
      simp only [Except.ok.injEq, Prod.mk.injEq] at h
      obtain ⟨rfl, rfl⟩ := h
      exact ⟨this _ (by simp), this _ (by simp)⟩

theorem getArgs4_wf {a v1 v2 v3 v4 : Val} {name : String} (hw : a.wf = true)
    (h : getArgs4 a name = .ok (v1, v2, v3, v4)) :
    v1.wf = true ∧ v2.wf = true ∧ v3.wf = true ∧ v4.wf = true := by
  unfold getArgs4 at h
  cases hg : getArgs 4 a name with
  | error e => rw [hg] at h; cases h
  | ok l =>
    rw [hg] at h
    have := getArgs_wf hw hg
    match l, h with
    | [x, y, z, w], h =>
      simp only [Except.ok.injEq, Prod.mk.injEq] at h
      obtain ⟨rfl, rfl, rfl, rfl⟩ := h
      exact ⟨this _ (by simp), this _ (by simp), this _ (by simp), this _ (by simp)⟩

theorem walk_wf : ∀ (bits : List Bool) (v : Val) (cost : Nat) (r : Nat × Val),
    v.wf = true → walk bits v cost = .ok r → r.2.wf = true := by
  intro bits
  induction bits with
  | nil => intro v cost r hv h; simp only [walk, Except.ok.injEq] at h; subst h; exact hv
  | cons b bs ih =>
    intro v cost r hv h
    cases v with
    | atom _ _ => simp [walk] at h
    | pair l rr =>
      rw [wf_pair] at hv
      simp only [walk] at h
      cases b
      · exact ih l _ r hv.1 h
      · exact ih rr _ r hv.2 h

theorem traversePath_wf (b : Bytes) (env : Val) (r : Nat × Val) (he : env.wf = true)
    (h : traversePath b env = .ok r) : r.2.wf = true := by
  unfold traversePath at h
  simp only at h
  split at h
  · simp only [Except.ok.injEq] at h; subst h; exact wf_nil
  · exact walk_wf _ _ _ _ he h

theorem walkFast_wf : ∀ (fuel n : Nat) (v : Val) (nb : Nat) (r : Nat × Val),
    v.wf = true → walkFast fuel n v nb = .ok r → r.2.wf = true := by
  intro fuel
  induction fuel with
  | zero => intro n v nb r _ h; simp [walkFast] at h
  | succ f ih =>
    intro n v nb r hv h
    simp only [walkFast] at h
    split at h
    · simp only [Except.ok.injEq] at h; subst h; exact hv
    · cases v with
      | atom _ _ => simp at h
      | pair l rr =>
        rw [wf_pair] at hv
        simp only at h
        split at h
        · exact ih _ _ _ r hv.2 h
        · exact ih _ _ _ r hv.1 h

theorem traversePathFast_wf (n : Nat) (env : Val) (r : Nat × Val) (he : env.wf = true)
    (h : traversePathFast n env = .ok r) : r.2.wf = true := by
  unfold traversePathFast at h
  split at h
  · simp only [Except.ok.injEq] at h; subst h; exact wf_nil
  · cases hw : walkFast 33 n env 0 with
    | error e => rw [hw] at h; cases h
    | ok p =>
      rw [hw] at h
      simp only [Except.ok.injEq] at h
      subst h
      exact walkFast_wf _ _ _ _ p he hw

/-! ### state-level -/

theorem MState.WF.push {s : MState} {v : Val} {s' : MState} (hs : s.WF) (hv : v.wf = true)
    (h : s.push v = .ok s') : s'.WF := by
  unfold MState.push at h
  split at h
  · cases h
  · simp only [Except.ok.injEq] at h; subst h
    exact ⟨fun x hx => by
      simp only [List.mem_cons] at hx
      rcases hx with rfl | hx
      · exact hv
      · exact hs.1 x hx, hs.2⟩

theorem MState.WF.pushEnv {s : MState} {v : Val} {s' : MState} (hs : s.WF) (hv : v.wf = true)
    (h : s.pushEnv v = .ok s') : s'.WF := by
  unfold MState.pushEnv at h
  split at h
  · cases h
  · simp only [Except.ok.injEq] at h; subst h
    exact ⟨hs.1, fun x hx => by
      simp only [List.mem_cons] at hx
      rcases hx with rfl | hx
      · exact hv
      · exact hs.2 x hx⟩

theorem MState.WF.pop {s : MState} {v : Val} {s' : MState} (hs : s.WF) (h : s.pop = .ok (v, s')) :
    v.wf = true ∧ s'.WF := by
  unfold MState.pop at h
  cases hv : s.valStack with
  | nil => rw [hv] at h; cases h
  | cons x xs =>
    rw [hv] at h
    simp only [Except.ok.injEq, Prod.mk.injEq] at h
    obtain ⟨rfl, rfl⟩ := h
    have h1 := hs.1
    rw [hv] at h1
    exact ⟨h1 _ (by simp), fun y hy => h1 y (by simp [hy]), hs.2⟩

theorem MState.WF.pushOp {s : MState} (hs : s.WF) (o : Operation) : (s.pushOp o).WF := hs

theorem MState.WF.setOps {s : MState} (hs : s.WF) (ops : List Operation) :
    MState.WF { s with opStack := ops } := hs

end Clvm.Interp
