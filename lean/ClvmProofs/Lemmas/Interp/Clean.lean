/-
C25, per-operator layer: `OpClean f` (no `Panic` / `InternalError` / `Abort` on well-formed arguments)
and `OpWf f` (results well-formed, counters only grow) for every operator of `coreOpByName` and for
`opUnknown`.
-/
import ClvmProofs.Lemmas.Interp.CleanAux
import ClvmProofs.Lemmas.Interp.Budget

namespace Clvm.Interp
open Clvm Clvm.Alloc

/-! ### `OpClean` -/

/-- the error of a failed primitive or loop is not internal -/
macro "clean_any" : tactic =>
  `(tactic| first
    | clean_prim
    | exact sha256Loop_clean ‹_› | exact unknownArith_clean ‹_› | exact unknownConcat_clean ‹_›
    | exact unknownMul_clean ‹_› | exact addFast_clean ‹_› | exact addGeneric_clean ‹_›
    | exact subFast_clean ‹_› | exact subGeneric_clean ‹_› | exact binopLoop_clean ‹_›
    | exact boolLoop_clean ‹_› | exact concatLoop_clean ‹_› | exact mulLoop_clean ‹_›)

/-- one case of `fun_cases op …` in the proof of `OpClean op` -/
syntax "op_clean_case " ident : tactic
macro_rules
  | `(tactic| op_clean_case $h:ident) => `(tactic|
    first
    | (cases $h:ident; done)
    | (cases $h:ident; rfl)
    | (cases $h:ident; clean_any))

theorem opIf_clean : OpClean opIf := by
  intro flags m args c e _ h
  revert h
  fun_cases opIf flags m args c <;> intro h <;> op_clean_case h

theorem opCons_clean : OpClean opCons := by
  intro flags m args c e _ h
  revert h
  fun_cases opCons flags m args c <;> intro h <;> op_clean_case h

theorem opFirst_clean : OpClean opFirst := by
  intro flags m args c e _ h
  revert h
  fun_cases opFirst flags m args c <;> intro h <;> op_clean_case h

theorem opRest_clean : OpClean opRest := by
  intro flags m args c e _ h
  revert h
  fun_cases opRest flags m args c <;> intro h <;> op_clean_case h

theorem opListp_clean : OpClean opListp := by
  intro flags m args c e _ h
  revert h
  fun_cases opListp flags m args c <;> intro h <;> op_clean_case h

theorem opRaise_clean : OpClean opRaise := by
  intro flags m args c e _ h
  cases h; rfl

theorem opEq_clean : OpClean opEq := by
  intro flags m args c e _ h
  revert h
  fun_cases opEq flags m args c <;> intro h <;> op_clean_case h

theorem opGr_clean (cfg : Cfg) : OpClean (opGr cfg) := by
  intro flags m args c e _ h
  revert h
  fun_cases opGr cfg flags m args c <;> intro h <;> op_clean_case h

theorem opGrBytes_clean : OpClean opGrBytes := by
  intro flags m args c e _ h
  revert h
  fun_cases opGrBytes flags m args c <;> intro h <;> op_clean_case h

theorem opStrlen_clean : OpClean opStrlen := by
  intro flags m args c e _ h
  revert h
  fun_cases opStrlen flags m args c <;> intro h <;> op_clean_case h

theorem opAsh_clean : OpClean opAsh := by
  intro flags m args c e _ h
  revert h
  fun_cases opAsh flags m args c <;> intro h <;> op_clean_case h

theorem opLsh_clean : OpClean opLsh := by
  intro flags m args c e _ h
  revert h
  fun_cases opLsh flags m args c <;> intro h <;> op_clean_case h

theorem opLognot_clean : OpClean opLognot := by
  intro flags m args c e _ h
  revert h
  fun_cases opLognot flags m args c <;> intro h <;> op_clean_case h

theorem opNot_clean : OpClean opNot := by
  intro flags m args c e _ h
  revert h
  fun_cases opNot flags m args c <;> intro h <;> op_clean_case h

theorem opAny_clean : OpClean opAny := by
  intro flags m args c e _ h
  revert h
  fun_cases opAny flags m args c <;> intro h <;> op_clean_case h

theorem opAll_clean : OpClean opAll := by
  intro flags m args c e _ h
  revert h
  fun_cases opAll flags m args c <;> intro h <;> op_clean_case h

theorem binopReduction_clean (name : String) (init : Int) (f : Int → Int → Int) :
    OpClean (binopReduction name init f) := by
  intro flags m args c e _ h
  revert h
  fun_cases binopReduction name init f flags m args c <;> intro h <;> op_clean_case h

theorem opLogand_clean : OpClean opLogand := binopReduction_clean _ _ _
theorem opLogior_clean : OpClean opLogior := binopReduction_clean _ _ _
theorem opLogxor_clean : OpClean opLogxor := binopReduction_clean _ _ _

theorem opSha256_clean (cfg : Cfg) : OpClean (opSha256 cfg) := by
  intro flags m args c e _ h
  simp only [opSha256_eq] at h
  split at h
  · exact newAtomAndCost_clean h
  · rcases sha256Fast_cases cfg c args (sha256Costs flags).1 (sha256Costs flags).2.1 (sha256Costs flags).2.2
      with hf | ⟨cost, val, hf⟩
    · simp only [hf] at h
      split at h
      · cases h; exact sha256Loop_clean ‹_›
      · exact newAtomAndCost_clean h
    · simp only [hf] at h
      split at h
      · cases h; exact checkCost_clean ‹_›
      · exact newAtomAndCost_clean h

theorem addFastSel_clean {cfg : Cfg} {nm : Bool} {cpa cpb m : Nat} {l : List Val} {base : Nat} {e : Err}
    (h : addFastSel cfg nm cpa cpb m l base = .error e) : Err.isInternal e = false := by
  unfold addFastSel at h
  split at h
  · exact addFast_clean h
  · cases h

theorem subFastSel_clean {cfg : Cfg} {nm : Bool} {cpa cpb m : Nat} {l : List Val} {base : Nat} {e : Err}
    (h : subFastSel cfg nm cpa cpb m l base = .error e) : Err.isInternal e = false := by
  unfold subFastSel at h
  split at h
  · exact subFast_clean h
  · cases h

theorem opAdd_clean (cfg : Cfg) : OpClean (opAdd cfg) := by
  intro flags m args c e _ h
  simp only [opAdd_eq] at h
  split at h
  · cases h; exact addFastSel_clean ‹_›
  · split at h <;> op_clean_case h
  · split at h
    · op_clean_case h
    · split at h <;> op_clean_case h

theorem opSubtract_clean (cfg : Cfg) : OpClean (opSubtract cfg) := by
  intro flags m args c e _ h
  simp only [opSubtract_eq] at h
  split at h
  · cases h; exact subFastSel_clean ‹_›
  · split at h <;> op_clean_case h
  · split at h
    · op_clean_case h
    · split at h <;> op_clean_case h

theorem mulFirstCost_clean {nm : Bool} {cost0 l0 m : Nat} {e : Err} (h : mulFirstCost nm cost0 l0 m = .error e) :
    Err.isInternal e = false := by
  revert h
  fun_cases mulFirstCost nm cost0 l0 m <;> intro h <;> op_clean_case h

theorem mulBody_clean {cfg : Cfg} {flags m : Nat} {args : Val} {e : Err} (h : mulBody cfg flags m args = .error e) :
    Err.isInternal e = false := by
  revert h
  fun_cases mulBody cfg flags m args <;> intro h <;>
    first
    | op_clean_case h
    | (cases h; exact mulFirstCost_clean ‹_›)
    | exact mulLoop_clean h

theorem opMultiply_clean (cfg : Cfg) : OpClean (opMultiply cfg) := by
  intro flags m args c e _ h
  simp only [opMultiply_eq] at h
  split at h
  · cases h; exact mulBody_clean ‹_›
  · split at h
    · cases h; exact allocNumber_clean ‹_›
    · cases h

/-- an integer reader that never fails internally -/
def CleanReader (intA : Val → String → Except Err (Int × Nat)) : Prop :=
  ∀ v n e, intA v n = .error e → Err.isInternal e = false

theorem intAtom_cleanReader : CleanReader intAtom := fun _ _ _ h => intAtom_clean h
theorem malachiteIntAtom_cleanReader : CleanReader malachiteIntAtom := fun _ _ _ h => malachiteIntAtom_clean h

theorem computeNewDivCost_clean {a b : Nat} {e : Err} (h : computeNewDivCost a b = .error e) :
    Err.isInternal e = false := by
  revert h
  fun_cases computeNewDivCost a b <;> intro h <;> op_clean_case h

theorem computeModpowCost_clean {a b c : Nat} {nm : Bool} {e : Err} (h : computeModpowCost a b c nm = .error e) :
    Err.isInternal e = false := by
  delta computeModpowCost at h
  split at h
  · (repeat' (split at h)) <;>
      first
      | (cases h; done)
      | exact ckAdd_clean h
      | (rename_i heq; cases h; first | exact ckAdd_clean heq | exact ckMul_clean heq)
  · cases h

theorem divPrologue_clean {intA : Val → String → Except Err (Int × Nat)} (hA : CleanReader intA)
    {name errName : String} {ob opb flags m : Nat} {input : Val} {e : Err}
    (h : divPrologue intA name errName ob opb flags m input = .error e) : Err.isInternal e = false := by
  revert h
  fun_cases divPrologue intA name errName ob opb flags m input <;> intro h <;>
    first
    | op_clean_case h
    | (cases h; exact hA _ _ _ ‹_›)
    | (cases h; rename_i hc; simp +zetaDelta only at hc
       split at hc <;> first | exact computeNewDivCost_clean hc | (cases hc; done))

theorem opDivWith_clean {intA : Val → String → Except Err (Int × Nat)} (hA : CleanReader intA) :
    OpClean (opDivWith intA) := by
  intro flags m args c e _ h
  revert h
  fun_cases opDivWith intA flags m args c <;> intro h <;>
    first | op_clean_case h | (cases h; exact divPrologue_clean hA ‹_›)

theorem opModWith_clean {intA : Val → String → Except Err (Int × Nat)} (hA : CleanReader intA) :
    OpClean (opModWith intA) := by
  intro flags m args c e _ h
  revert h
  fun_cases opModWith intA flags m args c <;> intro h <;>
    first | op_clean_case h | (cases h; exact divPrologue_clean hA ‹_›)

theorem opDivmodWith_clean {intA : Val → String → Except Err (Int × Nat)} (hA : CleanReader intA) :
    OpClean (opDivmodWith intA) := by
  intro flags m args c e _ h
  revert h
  fun_cases opDivmodWith intA flags m args c <;> intro h <;>
    first | op_clean_case h | (cases h; exact divPrologue_clean hA ‹_›)

theorem opModpowWith_clean {intA : Val → String → Except Err (Int × Nat)} (hA : CleanReader intA) :
    OpClean (opModpowWith intA) := by
  intro flags m args c e _ h
  revert h
  fun_cases opModpowWith intA flags m args c <;> intro h <;>
    first
    | op_clean_case h
    | (cases h; exact hA _ _ _ ‹_›)
    | (cases h; exact computeModpowCost_clean ‹_›)

theorem OpClean.ite {f g : OpFn} (bit : Nat) (hf : OpClean f) (hg : OpClean g) :
    OpClean (fun flags m a c => if hasFlag flags bit then f flags m a c else g flags m a c) := by
  intro flags m args c e hw h
  by_cases hb : hasFlag flags bit = true
  · simp only [hb, ↓reduceIte] at h; exact hf flags m args c e hw h
  · simp only [hb, ↓reduceIte, Bool.false_eq_true] at h; exact hg flags m args c e hw h

theorem opDiv_clean : OpClean opDiv :=
  OpClean.ite _ (opDivWith_clean malachiteIntAtom_cleanReader) (opDivWith_clean intAtom_cleanReader)
theorem opMod_clean : OpClean opMod :=
  OpClean.ite _ (opModWith_clean malachiteIntAtom_cleanReader) (opModWith_clean intAtom_cleanReader)
theorem opDivmod_clean : OpClean opDivmod :=
  OpClean.ite _ (opDivmodWith_clean malachiteIntAtom_cleanReader) (opDivmodWith_clean intAtom_cleanReader)
theorem opModpow_clean : OpClean opModpow :=
  OpClean.ite _ (opModpowWith_clean malachiteIntAtom_cleanReader) (opModpowWith_clean intAtom_cleanReader)

theorem opConcat_clean : OpClean opConcat := by
  intro flags m args c e hw h
  revert h
  fun_cases opConcat flags m args c <;> intro h <;>
    first
    | op_clean_case h
    | (cases h
       exact newConcat_clean (concatLoop_inv ‹_› (argList_all_wf hw) ConcatInv.nil) ‹_›)

theorem atom_of_atomLen {v : Val} {n : String} {k : Nat} (h : atomLen v n = .ok k) : ∃ b i, v = .atom b i := by
  cases v with
  | atom b i => exact ⟨b, i, rfl⟩
  | pair l r => cases h

theorem opSubstr_clean : OpClean opSubstr := by
  intro flags m args c e hw h
  revert h
  fun_cases opSubstr flags m args c <;> intro h <;>
    first
    | op_clean_case h
    | (cases h
       rename_i hs
       obtain ⟨b, i, hb⟩ := atom_of_atomLen ‹atomLen _ _ = .ok _›
       loop_prep
       rw [hb] at hs
       exact newSubstr_clean hs)
    | (cases h
       rename_i hs
       loop_prep
       split at hs <;> first | exact i32Atom_clean hs | (cases hs; done))

theorem unknownBaseK_clean {k flags m : Nat} {args : Val} {e : Err} (h : unknownBaseK k flags m args = .error e) :
    Err.isInternal e = false := by
  match k with
  | 0 => cases h
  | 1 => exact unknownArith_clean h
  | 2 => exact unknownMul_clean h
  | 3 => exact unknownConcat_clean h
  | n + 4 => cases h

/-- every base cost of `op_unknown` is positive: the `assert!(cost > 0)` cannot fire -/
theorem unknownBaseK_pos {k flags m : Nat} {args : Val} {b : Nat} (h : unknownBaseK k flags m args = .ok b) :
    0 < b := by
  match k with
  | 0 => cases h; decide
  | 1 => exact Nat.lt_of_lt_of_le (by decide : 0 < Gen.ARITH_BASE_COST) (unknownArith_ok h).1
  | 2 =>
    refine Nat.lt_of_lt_of_le ?_ (unknownMul_ok h).1
    cases newModel flags <;> decide
  | 3 => exact Nat.lt_of_lt_of_le (by decide : 0 < Gen.CONCAT_BASE_COST) (unknownConcat_ok h).1
  | n + 4 => cases h; decide

theorem unknownFinish_clean {flags cost mult : Nat} {c : Ctr} {e : Err}
    (h : unknownFinish flags cost mult c = .error e) : Err.isInternal e = false := by
  unfold unknownFinish at h
  by_cases hnm : newModel flags = true
  · simp only [hnm, ↓reduceIte] at h
    split at h
    · cases h; exact ckMul_clean ‹_›
    · split at h
      · cases h; rfl
      · cases h
  · simp only [hnm, ↓reduceIte, Bool.false_eq_true] at h
    split at h
    · cases h; rfl
    · cases h

theorem opUnknown_clean (op : Bytes) : OpClean (opUnknown op) := by
  intro flags m args c e _ h
  simp only [opUnknown_eq_parts] at h
  split at h
  · cases h; rfl
  · split at h
    · cases h; rfl
    · split at h
      · cases h; exact unknownBaseK_clean ‹_›
      · rename_i cost hb
        have hpos := unknownBaseK_pos hb
        split at h
        · rename_i hz
          exact absurd (by simpa using hz) (Nat.ne_of_gt hpos)
        · split at h
          · cases h; exact checkCost_clean ‹_›
          · exact unknownFinish_clean h


/-- **C25, per-operator layer**: no operator of the core table fails internally -/
theorem coreOps_clean (cfg : Cfg) (name : String) (f : OpFn) (h : coreOpByName cfg name = some f) :
    OpClean f := by
  unfold coreOpByName at h
  split at h <;> (try cases h) <;> first
    | exact opIf_clean | exact opCons_clean | exact opFirst_clean | exact opRest_clean
    | exact opListp_clean | exact opRaise_clean | exact opEq_clean | exact opGrBytes_clean
    | exact opSha256_clean _ | exact opSubstr_clean | exact opStrlen_clean | exact opConcat_clean
    | exact opAdd_clean _ | exact opSubtract_clean _ | exact opMultiply_clean _ | exact opDiv_clean
    | exact opDivmod_clean | exact opGr_clean _ | exact opAsh_clean | exact opLsh_clean
    | exact opLogand_clean | exact opLogior_clean | exact opLogxor_clean | exact opLognot_clean
    | exact opNot_clean | exact opAny_clean | exact opAll_clean | exact opModpow_clean
    | exact opMod_clean

/-! ### `OpWf` -/

theorem OpWf.of {f : OpFn}
    (h : ∀ flags m args c r, args.wf = true → f flags m args c = .ok r → r.2.1.wf = true ∧ CtrLe c r.2.2) :
    OpWf f := h

theorem wf_ite (p : Prop) [Decidable p] : (if p then Val.one else Val.nil).wf = true := by
  split <;> decide

theorem first_wf {v r : Val} (hw : v.wf = true) (h : first v = .ok r) : r.wf = true := by
  cases v with
  | atom b i => cases h
  | pair l r' => cases h; exact (Val.wf_pair.1 hw).1

theorem rest_wf {v r : Val} (hw : v.wf = true) (h : rest v = .ok r) : r.wf = true := by
  cases v with
  | atom b i => cases h
  | pair l r' => cases h; exact (Val.wf_pair.1 hw).2

/-- one case of `fun_cases op …` in the proof of `OpWf op`: failure cases, boolean results, and results
allocated last -/
syntax "op_wf_case " ident : tactic
macro_rules
  | `(tactic| op_wf_case $h:ident) => `(tactic|
    first
    | (cases $h:ident; done)
    | (cases $h:ident; exact ⟨wf_ite _, CtrLe.refl _⟩)
    | (cases $h:ident; exact allocNumber_wf ‹_›)
    | (cases $h:ident; exact allocAtom_wf ‹_›)
    | exact newAtomAndCost_wf $h)

theorem opIf_wf : OpWf opIf := by
  refine .of fun flags m args c r hw h => ?_
  revert h
  fun_cases opIf flags m args c <;> intro h
  · cases h
  · cases h
    have := getArgs3_args_wf hw ‹_›
    refine ⟨?_, CtrLe.refl _⟩
    show Val.wf (if _ then _ else _) = true
    split
    · exact this.2.2
    · exact this.2.1

theorem opCons_wf : OpWf opCons := by
  refine .of fun flags m args c r hw h => ?_
  revert h
  fun_cases opCons flags m args c <;> intro h
  · cases h
  · cases h
  · cases h
    have := getArgs2_args_wf hw ‹_›
    obtain ⟨rfl, hc⟩ := allocPair_wf ‹_›
    exact ⟨Val.wf_pair.2 this, hc⟩

theorem opFirst_wf : OpWf opFirst := by
  refine .of fun flags m args c r hw h => ?_
  revert h
  fun_cases opFirst flags m args c <;> intro h
  · cases h
  · cases h
  · cases h; exact ⟨first_wf (getArgs1_args_wf hw ‹_›) ‹_›, CtrLe.refl _⟩

theorem opRest_wf : OpWf opRest := by
  refine .of fun flags m args c r hw h => ?_
  revert h
  fun_cases opRest flags m args c <;> intro h
  · cases h
  · cases h
  · cases h; exact ⟨rest_wf (getArgs1_args_wf hw ‹_›) ‹_›, CtrLe.refl _⟩

theorem opListp_wf : OpWf opListp := by
  refine .of fun flags m args c r hw h => ?_
  revert h
  fun_cases opListp flags m args c <;> intro h <;> op_wf_case h

theorem opRaise_wf : OpWf opRaise := by
  refine .of fun flags m args c r hw h => ?_
  cases h

theorem opEq_wf : OpWf opEq := by
  refine .of fun flags m args c r hw h => ?_
  revert h
  fun_cases opEq flags m args c <;> intro h <;> op_wf_case h

theorem opGr_wf (cfg : Cfg) : OpWf (opGr cfg) := by
  refine .of fun flags m args c r hw h => ?_
  revert h
  fun_cases opGr cfg flags m args c <;> intro h
  · cases h
  · rename_i hfast
    cases h
    loop_prep
    split at hfast
    · split at hfast
      · cases hfast; exact ⟨wf_ite _, CtrLe.refl _⟩
      · cases hfast
    · cases hfast
  · cases h
  · cases h
  · cases h; exact ⟨wf_ite _, CtrLe.refl _⟩

theorem opGrBytes_wf : OpWf opGrBytes := by
  refine .of fun flags m args c r hw h => ?_
  revert h
  fun_cases opGrBytes flags m args c <;> intro h <;> op_wf_case h

theorem opStrlen_wf : OpWf opStrlen := by
  refine .of fun flags m args c r hw h => ?_
  revert h
  fun_cases opStrlen flags m args c <;> intro h <;> op_wf_case h

theorem opAsh_wf : OpWf opAsh := by
  refine .of fun flags m args c r hw h => ?_
  revert h
  fun_cases opAsh flags m args c <;> intro h <;> op_wf_case h

theorem opLsh_wf : OpWf opLsh := by
  refine .of fun flags m args c r hw h => ?_
  revert h
  fun_cases opLsh flags m args c <;> intro h <;> op_wf_case h

theorem opLognot_wf : OpWf opLognot := by
  refine .of fun flags m args c r hw h => ?_
  revert h
  fun_cases opLognot flags m args c <;> intro h <;> op_wf_case h

theorem opNot_wf : OpWf opNot := by
  refine .of fun flags m args c r hw h => ?_
  revert h
  fun_cases opNot flags m args c <;> intro h <;> op_wf_case h

theorem opAny_wf : OpWf opAny := by
  refine .of fun flags m args c r hw h => ?_
  revert h
  fun_cases opAny flags m args c <;> intro h <;> op_wf_case h

theorem opAll_wf : OpWf opAll := by
  refine .of fun flags m args c r hw h => ?_
  revert h
  fun_cases opAll flags m args c <;> intro h <;> op_wf_case h

theorem binopReduction_wf (name : String) (init : Int) (f : Int → Int → Int) :
    OpWf (binopReduction name init f) := by
  refine .of fun flags m args c r hw h => ?_
  revert h
  fun_cases binopReduction name init f flags m args c <;> intro h <;> op_wf_case h

theorem opLogand_wf : OpWf opLogand := binopReduction_wf _ _ _
theorem opLogior_wf : OpWf opLogior := binopReduction_wf _ _ _
theorem opLogxor_wf : OpWf opLogxor := binopReduction_wf _ _ _

theorem opSha256_wf (cfg : Cfg) : OpWf (opSha256 cfg) := by
  refine .of fun flags m args c r hw h => ?_
  simp only [opSha256_eq] at h
  split at h
  · exact newAtomAndCost_wf h
  · rcases sha256Fast_cases cfg c args (sha256Costs flags).1 (sha256Costs flags).2.1 (sha256Costs flags).2.2
      with hf | ⟨cost, val, hf⟩
    · simp only [hf] at h
      split at h
      · cases h
      · exact newAtomAndCost_wf h
    · simp only [hf] at h
      split at h
      · cases h
      · exact newAtomAndCost_wf h

theorem opConcat_wf : OpWf opConcat := by
  refine .of fun flags m args c r hw h => ?_
  revert h
  fun_cases opConcat flags m args c <;> intro h
  · cases h
  · cases h
  · cases h
    exact newConcat_wf (concatLoop_inv ‹_› (argList_all_wf hw) ConcatInv.nil) ‹_›

theorem opSubstr_wf : OpWf opSubstr := by
  refine .of fun flags m args c r hw h => ?_
  revert h
  fun_cases opSubstr flags m args c <;> intro h <;>
    first
    | (cases h; done)
    | (cases h; exact newSubstr_wf ‹_›)

theorem opAdd_wf (cfg : Cfg) : OpWf (opAdd cfg) := by
  refine .of fun flags m args c r hw h => ?_
  simp only [opAdd_eq] at h
  split at h
  · cases h
  · split at h <;> op_wf_case h
  · split at h
    · cases h
    · split at h <;> op_wf_case h

theorem opSubtract_wf (cfg : Cfg) : OpWf (opSubtract cfg) := by
  refine .of fun flags m args c r hw h => ?_
  simp only [opSubtract_eq] at h
  split at h
  · cases h
  · split at h <;> op_wf_case h
  · split at h
    · cases h
    · split at h <;> op_wf_case h

theorem opMultiply_wf (cfg : Cfg) : OpWf (opMultiply cfg) := by
  refine .of fun flags m args c r hw h => ?_
  simp only [opMultiply_eq] at h
  split at h
  · cases h
  · split at h <;> op_wf_case h

theorem opDivWith_wf (intA : Val → String → Except Err (Int × Nat)) : OpWf (opDivWith intA) := by
  refine .of fun flags m args c r hw h => ?_
  revert h
  fun_cases opDivWith intA flags m args c <;> intro h <;> op_wf_case h

theorem opModWith_wf (intA : Val → String → Except Err (Int × Nat)) : OpWf (opModWith intA) := by
  refine .of fun flags m args c r hw h => ?_
  revert h
  fun_cases opModWith intA flags m args c <;> intro h <;> op_wf_case h

theorem opDivmodWith_wf (intA : Val → String → Except Err (Int × Nat)) : OpWf (opDivmodWith intA) := by
  refine .of fun flags m args c r hw h => ?_
  revert h
  fun_cases opDivmodWith intA flags m args c <;> intro h <;>
    first
    | (cases h; done)
    | (cases h
       obtain ⟨hq, hc1⟩ := allocNumber_wf ‹allocNumber c (Int.fdiv _ _) = .ok _›
       obtain ⟨hr, hc2⟩ := allocNumber_wf ‹allocNumber _ (Int.fmod _ _) = .ok _›
       obtain ⟨rfl, hc3⟩ := allocPair_wf ‹_›
       exact ⟨Val.wf_pair.2 ⟨hq, hr⟩, (hc1.trans hc2).trans hc3⟩)

theorem opModpowWith_wf (intA : Val → String → Except Err (Int × Nat)) : OpWf (opModpowWith intA) := by
  refine .of fun flags m args c r hw h => ?_
  revert h
  fun_cases opModpowWith intA flags m args c <;> intro h <;> op_wf_case h

theorem OpWf.ite {f g : OpFn} (bit : Nat) (hf : OpWf f) (hg : OpWf g) :
    OpWf (fun flags m a c => if hasFlag flags bit then f flags m a c else g flags m a c) := by
  intro flags m args c r hw h
  by_cases hb : hasFlag flags bit = true
  · simp only [hb, ↓reduceIte] at h; exact hf flags m args c r hw h
  · simp only [hb, ↓reduceIte, Bool.false_eq_true] at h; exact hg flags m args c r hw h

theorem opDiv_wf : OpWf opDiv := OpWf.ite _ (opDivWith_wf _) (opDivWith_wf _)
theorem opMod_wf : OpWf opMod := OpWf.ite _ (opModWith_wf _) (opModWith_wf _)
theorem opDivmod_wf : OpWf opDivmod := OpWf.ite _ (opDivmodWith_wf _) (opDivmodWith_wf _)
theorem opModpow_wf : OpWf opModpow := OpWf.ite _ (opModpowWith_wf _) (opModpowWith_wf _)

theorem opUnknown_wf (op : Bytes) : OpWf (opUnknown op) := by
  refine .of fun flags m args c r hw h => ?_
  obtain ⟨base, mult, _, _, _, hf, _⟩ := opUnknown_budget_general op flags m args c r h
  unfold unknownFinish at hf
  by_cases hnm : newModel flags = true
  · simp only [hnm, ↓reduceIte] at hf
    split at hf
    · cases hf
    · split at hf
      · cases hf
      · cases hf; exact ⟨Val.wf_nil, CtrLe.refl _⟩
  · simp only [hnm, ↓reduceIte, Bool.false_eq_true] at hf
    split at hf
    · cases hf
    · cases hf; exact ⟨Val.wf_nil, CtrLe.refl _⟩

/-- results of every operator of the core table are well-formed and the counters only grow -/
theorem coreOps_wf (cfg : Cfg) (name : String) (f : OpFn) (h : coreOpByName cfg name = some f) :
    OpWf f := by
  unfold coreOpByName at h
  split at h <;> (try cases h) <;> first
    | exact opIf_wf | exact opCons_wf | exact opFirst_wf | exact opRest_wf
    | exact opListp_wf | exact opRaise_wf | exact opEq_wf | exact opGrBytes_wf
    | exact opSha256_wf _ | exact opSubstr_wf | exact opStrlen_wf | exact opConcat_wf
    | exact opAdd_wf _ | exact opSubtract_wf _ | exact opMultiply_wf _ | exact opDiv_wf
    | exact opDivmod_wf | exact opGr_wf _ | exact opAsh_wf | exact opLsh_wf
    | exact opLogand_wf | exact opLogior_wf | exact opLogxor_wf | exact opLognot_wf
    | exact opNot_wf | exact opAny_wf | exact opAll_wf | exact opModpow_wf
    | exact opMod_wf

end Clvm.Interp
