/-
C11, machine level: the value a program returns does not depend on the cost model.

Generic part: `DialectModelRel E d1 d2` (same keywords and argument parsing; operator sets related
by `E` enable the same operators, and two successful operator calls return the same value and
counters whatever their budgets) implies that two *successful* runs — budgets, costs and fuel may
differ — go through the same machine states up to the guards on the softfork stack (expected cost
and operator set may differ), hence return the same value and counters (`runProgram_model`).

Instance `eval_value_model_partial` for `ChiaDialect::new(F)` against
`ChiaDialect::new(F ∪ NEW_COST_MODEL)`; see its doc comment for what is missing.
-/
import ClvmProofs.Lemmas.Interp.LiftFrame
import ClvmProofs.Lemmas.Interp.LiftRestrict
import ClvmProofs.Lemmas.Interp.ModelIndep

namespace Clvm.Interp
open Clvm Clvm.Alloc

/-- `d1` and `d2` differ only in costs; `E` relates the operator sets of corresponding guards -/
structure DialectModelRel (E : OperatorSet → OperatorSet → Prop) (d1 d2 : Dialect) : Prop where
  default : E .Default .Default
  quoteKw : d1.quoteKw = d2.quoteKw
  applyKw : d1.applyKw = d2.applyKw
  softforkKw : d1.softforkKw = d2.softforkKw
  gcCandidate : d1.gcCandidate = d2.gcCandidate
  allowUnknownOps : d1.allowUnknownOps = d2.allowUnknownOps
  limitSoftfork : hasFlag d1.flags Gen.FLAG_LIMIT_SOFTFORK = hasFlag d2.flags Gen.FLAG_LIMIT_SOFTFORK
  uint : ∀ (v : Val), uintAtom 8 v "softfork" d1.flags = uintAtom 8 v "softfork" d2.flags
  parse : ∀ (ol : Val),
    match parseSoftforkArguments d1 ol, parseSoftforkArguments d2 ol with
    | .error _, .error _ => True
    | .ok (e1, p1, v1), .ok (e2, p2, v2) => E e1 e2 ∧ p1 = p2 ∧ v1 = v2
    | _, _ => False
  op : ∀ (o args : Val) (m m' : Nat) (e1 e2 : OperatorSet) (c : Ctr) (r r' : Nat × Val × Ctr), E e1 e2 →
    d1.op o args m e1 c = some (.ok r) → d2.op o args m' e2 c = some (.ok r') → r.2 = r'.2

/-- corresponding guards: same counters to restore, related operator sets -/
def GuardModel (E : OperatorSet → OperatorSet → Prop) (g g' : SoftforkGuard) : Prop :=
  g.allocatorState = g'.allocatorState ∧ E g.operatorSet g'.operatorSet

theorem curExt_model {E : OperatorSet → OperatorSet → Prop} (hdef : E .Default .Default) {s : MState}
    {sf2 : List SoftforkGuard} (hg : GuardsRel (GuardModel E) s.softforkStack sf2) :
    E (curExt s) (curExt (s.setSf sf2)) := by
  unfold curExt
  rcases hg.inv with ⟨h1, rfl⟩ | ⟨g1, g2, r1, r2, h1, rfl, hh, _⟩
  · simpa [MState.setSf, h1] using hdef
  · simpa [MState.setSf, h1] using hh.2

/-- a successful `exit_guard`, as a state -/
theorem exitGuard_ok {s s' : MState} {cost c : Nat} {g : SoftforkGuard} {rest : List SoftforkGuard}
    (hs : s.softforkStack = g :: rest) (h : exitGuard s cost = .ok (c, s')) :
    ∃ v vs, s.valStack = v :: vs ∧
      s' = { s with softforkStack := rest, ctr := { g.allocatorState with heapLimit := s.ctr.heapLimit },
                    valStack := Val.nil :: vs, valLen := s.valLen - 1 + 1 } := by
  unfold exitGuard at h
  rw [hs] at h
  simp only at h
  split at h
  · cases h
  · split at h
    · cases h
    · rename_i v vs hv
      obtain ⟨s1, h1, h⟩ := M_bind_ok h
      cases M_pure_ok h
      exact ⟨v, vs, hv, push_ok h1⟩

theorem applyBody_model {cfg : Cfg} {E : OperatorSet → OperatorSet → Prop} {d1 d2 : Dialect}
    (hd : DialectModelRel E d1 d2) {s s1' s2' : MState} {sf2 : List SoftforkGuard} {ol o : Val}
    {cc1 mc1 c1 cc2 mc2 c2 : Nat} (hg : GuardsRel (GuardModel E) s.softforkStack sf2)
    (h1 : applyBody cfg d1 s ol o cc1 mc1 = .ok (c1, s1'))
    (h2 : applyBody cfg d2 (s.setSf sf2) ol o cc2 mc2 = .ok (c2, s2')) :
    ∃ sf2', s2' = s1'.setSf sf2' ∧ GuardsRel (GuardModel E) s1'.softforkStack sf2' := by
  unfold applyBody at h1 h2
  rw [← hd.applyKw, ← hd.softforkKw] at h2
  split at h1
  · rename_i hk
    rw [if_pos hk] at h2
    unfold applyApply at h1 h2
    obtain ⟨⟨no, env⟩, h0, h1⟩ := M_bind_ok h1
    obtain ⟨⟨k1, t1⟩, he1, h1⟩ := M_bind_ok h1
    cases M_pure_ok h1
    rw [M_bind_eq h0] at h2
    simp only at h2
    obtain ⟨e1, f1⟩ := evalPair_setSf sf2 he1
    rw [← evalPair_kw hd.quoteKw hd.gcCandidate, M_bind_eq e1] at h2
    cases M_pure_ok h2
    exact ⟨sf2, rfl, by rw [f1]; exact hg⟩
  · rename_i hk
    rw [if_neg hk] at h2
    split at h1
    · rename_i hk2
      rw [if_pos hk2] at h2
      unfold applySoftfork at h1 h2
      obtain ⟨f, hf, h1⟩ := M_bind_ok h1
      obtain ⟨ec, hec, h1⟩ := M_bind_ok h1
      rw [M_bind_eq hf, ← hd.uint, M_bind_eq hec] at h2
      split at h1
      · cases h1
      · split at h1
        · cases h1
        · by_cases hx1 : ec > mc2
          · rw [if_pos hx1] at h2; cases h2
          rw [if_neg hx1] at h2
          by_cases hx2 : (ec == 0) = true
          · rw [if_pos hx2] at h2; cases h2
          rw [if_neg hx2] at h2
          have hp := hd.parse ol
          cases hp1 : parseSoftforkArguments d1 ol with
          | error err1 =>
            cases hp2 : parseSoftforkArguments d2 ol with
            | ok x => rw [hp1, hp2] at hp; exact hp.elim
            | error err2 =>
              rw [hp1] at h1
              rw [hp2] at h2
              simp only at h1 h2
              split at h1
              · rename_i hallow
                rw [← hd.allowUnknownOps, if_pos hallow] at h2
                obtain ⟨t1, hpu, h1⟩ := M_bind_ok h1
                cases M_pure_ok h1
                obtain ⟨e1, f1⟩ := push_setSf sf2 hpu
                rw [M_bind_eq e1] at h2
                cases M_pure_ok h2
                exact ⟨sf2, rfl, by rw [f1]; exact hg⟩
              · cases h1
          | ok x1 =>
            obtain ⟨ext1, prg1, env1⟩ := x1
            cases hp2 : parseSoftforkArguments d2 ol with
            | error err2 => rw [hp1, hp2] at hp; exact hp.elim
            | ok x2 =>
              obtain ⟨ext2, prg2, env2⟩ := x2
              rw [hp1, hp2] at hp
              obtain ⟨hE, rfl, rfl⟩ := hp
              rw [hp1] at h1
              rw [hp2] at h2
              simp only at h1 h2
              have hlen : (s.setSf sf2).softforkStack.length = s.softforkStack.length := hg.length_eq.symm
              rw [hlen, ← hd.limitSoftfork] at h2
              split at h1
              · cases h1
              · rename_i hlim
                rw [if_neg hlim] at h2
                obtain ⟨⟨k1, t1⟩, he1, h1⟩ := M_bind_ok h1
                cases M_pure_ok h1
                obtain ⟨⟨k2, t2⟩, he2, h2⟩ := M_bind_ok h2
                cases M_pure_ok h2
                let g1 : SoftforkGuard :=
                  { expectedCost := guardExpected s ext1 cc1 mc1 ec, allocatorState := s.ctr,
                    operatorSet := ext1 }
                let g2 : SoftforkGuard :=
                  { expectedCost := guardExpected (s.setSf sf2) ext2 cc2 mc2 ec,
                    allocatorState := (s.setSf sf2).ctr, operatorSet := ext2 }
                obtain ⟨e1, f1⟩ := evalPair_setSf (g2 :: sf2) he1
                have : enterGuard (s.setSf sf2) g2 = (enterGuard s g1).setSf (g2 :: sf2) := rfl
                rw [← evalPair_kw hd.quoteKw hd.gcCandidate, this, e1] at he2
                cases he2
                refine ⟨g2 :: sf2, rfl, ?_⟩
                rw [f1]
                exact GuardsRel.cons ⟨rfl, hE⟩ hg
    · rename_i hk2
      rw [if_neg hk2] at h2
      unfold applyOrdinary at h1 h2
      have hctr : (s.setSf sf2).ctr = s.ctr := rfl
      rw [hctr] at h2
      split at h1
      · cases h1
      · cases h1
      · rename_i k1 v1 ct1 hop1
        split at h2
        · cases h2
        · cases h2
        · rename_i k2 v2 ct2 hop2
          have := hd.op o ol _ _ _ _ _ _ _ (curExt_model hd.default hg) hop1 hop2
          simp only [Prod.mk.injEq] at this
          obtain ⟨rfl, rfl⟩ := this
          obtain ⟨t1, hpu, h1⟩ := M_bind_ok h1
          cases M_pure_ok h1
          obtain ⟨e1, f1⟩ := push_setSf sf2 hpu
          have : ({ s with ctr := ct1 } : MState).setSf sf2 = { s.setSf sf2 with ctr := ct1 } := rfl
          rw [this] at e1
          rw [M_bind_eq e1] at h2
          cases M_pure_ok h2
          exact ⟨sf2, rfl, by rw [f1]; exact hg⟩

theorem stepOp_model {cfg : Cfg} {E : OperatorSet → OperatorSet → Prop} {d1 d2 : Dialect}
    (hd : DialectModelRel E d1 d2) {s s1' s2' : MState} {sf2 : List SoftforkGuard} {op : Operation}
    {cost1 em1 c1 cost2 em2 c2 : Nat} (hg : GuardsRel (GuardModel E) s.softforkStack sf2)
    (h1 : stepOp cfg d1 s op cost1 em1 = .ok (c1, s1'))
    (h2 : stepOp cfg d2 (s.setSf sf2) op cost2 em2 = .ok (c2, s2')) :
    ∃ sf2', s2' = s1'.setSf sf2' ∧ GuardsRel (GuardModel E) s1'.softforkStack sf2' := by
  cases op with
  | Apply =>
    simp only [stepOp] at h1 h2
    match hvs : s.valStack, hes : s.envStack with
    | [], _ => simp [applyOp, MState.pop, hvs, bind, Except.bind] at h1
    | [_], _ => simp [applyOp, MState.pop, hvs, bind, Except.bind] at h1
    | _ :: _ :: _, [] => simp [applyOp, MState.pop, hvs, hes, bind, Except.bind] at h1
    | ol :: o :: vals, e0 :: envs =>
      rw [applyOp_eq cfg _ s _ _ hvs hes] at h1
      rw [applyOp_eq cfg _ (s.setSf sf2) _ _ (show (s.setSf sf2).valStack = _ from hvs)
        (show (s.setSf sf2).envStack = _ from hes)] at h2
      exact applyBody_model hd (s := s.applyBase vals envs) hg h1 h2
  | ExitGuard =>
    simp only [stepOp] at h1 h2
    rcases hg.inv with ⟨e1, rfl⟩ | ⟨g1, g2, r1, r2, e1, rfl, hh, ht⟩
    · unfold exitGuard at h1
      rw [e1] at h1
      cases h1
    · obtain ⟨v, vs, hv, rfl⟩ := exitGuard_ok e1 h1
      obtain ⟨v', vs', hv', rfl⟩ := exitGuard_ok (s := s.setSf (g2 :: r2)) (g := g2) (rest := r2) rfl h2
      have : (s.setSf (g2 :: r2)).valStack = s.valStack := rfl
      rw [this, hv] at hv'
      cases hv'
      refine ⟨r2, ?_, ht⟩
      simp only [MState.setSf, hh.1]
  | Cons =>
    simp only [stepOp] at h1 h2
    obtain ⟨e1, f1⟩ := consOp_setSf sf2 h1
    rw [e1] at h2; cases h2
    exact ⟨sf2, rfl, by rw [f1]; exact hg⟩
  | SwapEval =>
    simp only [stepOp] at h1 h2
    obtain ⟨e1, f1⟩ := swapEvalOp_setSf sf2 h1
    rw [← swapEvalOp_kw hd.quoteKw hd.gcCandidate, e1] at h2; cases h2
    exact ⟨sf2, rfl, by rw [f1]; exact hg⟩
  | RestoreAllocator =>
    simp only [stepOp] at h1 h2
    have e1 : (s.setSf sf2).allocatorStack = s.allocatorStack := rfl
    have e2 : (s.setSf sf2).valStack = s.valStack := rfl
    rw [e1, e2] at h2
    split at h1
    · cases h1
    · rename_i hh1
      rw [if_neg hh1] at h2
      split at h1
      · cases h1
      · rename_i hh2
        rw [if_neg hh2] at h2
        cases h1; cases h2
        exact ⟨sf2, rfl, hg⟩

/-- two successful loops from related states end in related states -/
theorem runLoop_model {cfg : Cfg} {E : OperatorSet → OperatorSet → Prop} {d1 d2 : Dialect}
    (hd : DialectModelRel E d1 d2) (mc1 mc2 : Nat) (fuel : Nat) :
    ∀ (s : MState) (sf2 : List SoftforkGuard) (cost1 cost2 C1 C2 : Nat) (sF1 sF2 : MState),
      GuardsRel (GuardModel E) s.softforkStack sf2 →
      runLoop cfg d1 mc1 fuel s cost1 = some (.ok (C1, sF1)) →
      runLoop cfg d2 mc2 fuel (s.setSf sf2) cost2 = some (.ok (C2, sF2)) →
      ∃ sfF, sF2 = sF1.setSf sfF := by
  induction fuel with
  | zero => intro s sf2 cost1 cost2 C1 C2 sF1 sF2 _ h; simp [runLoop_zero] at h
  | succ n ih =>
    intro s sf2 cost1 cost2 C1 C2 sF1 sF2 hg h1 h2
    rw [runLoop_succ] at h1 h2
    unfold loopBody at h1 h2
    split at h1
    · cases h1
    · split at h2
      · cases h2
      · have hops : (s.setSf sf2).opStack = s.opStack := rfl
        rw [hops] at h2
        split at h1
        · rename_i hop
          rw [hop] at h2
          cases h1; cases h2
          exact ⟨sf2, rfl⟩
        · rename_i op ops hop
          rw [hop] at h2
          simp only at h2
          split at h1
          · cases h1
          · rename_i c1 t1 hst1
            split at h2
            · cases h2
            · rename_i c2 t2 hst2
              have : ({ s.setSf sf2 with opStack := ops } : MState) = ({ s with opStack := ops } : MState).setSf sf2 := rfl
              rw [this] at hst2
              obtain ⟨sf2', rfl, hg'⟩ := stepOp_model hd (s := { s with opStack := ops }) hg hst1 hst2
              exact ih t1 sf2' _ _ C1 C2 sF1 sF2 hg' h1 h2

/-- **lifting**: two successful runs of the same program under cost-model-related dialects return
the same value and leave the same allocator counters; budgets and fuel may differ -/
theorem runProgram_model {cfg : Cfg} {E : OperatorSet → OperatorSet → Prop} {d1 d2 : Dialect}
    (hd : DialectModelRel E d1 d2) {fuel1 fuel2 : Nat} {c0 : Ctr} {p e : Val} {M1 M2 : Nat}
    {r1 r2 : Nat × Val × Ctr} (h1 : runProgram cfg d1 fuel1 c0 p e M1 = some (.ok r1))
    (h2 : runProgram cfg d2 fuel2 c0 p e M2 = some (.ok r2)) : r1.2 = r2.2 := by
  obtain ⟨C1, v1, k1⟩ := r1
  obtain ⟨C2, v2, k2⟩ := r2
  obtain ⟨a1, cost1, s1, sF1, vs1, ha1, hev1, hl1, hv1, hk1⟩ := runProgram_ok_iff.1 h1
  obtain ⟨a2, cost2, s2, sF2, vs2, ha2, hev2, hl2, hv2, hk2⟩ := runProgram_ok_iff.1 h2
  rw [ha1] at ha2; cases ha2
  rw [← evalPair_kw hd.quoteKw hd.gcCandidate, hev1] at hev2; cases hev2
  have hsf0 : s1.softforkStack = [] := (evalPair_setSf [] hev1).2
  have hs0 : s1.setSf [] = s1 := by rw [← hsf0]; rfl
  have hl1' := runLoop_fuel_le cfg d1 _ fuel1 (max fuel1 fuel2) (Nat.le_max_left _ _) _ _ _ hl1
  have hl2' := runLoop_fuel_le cfg d2 _ fuel2 (max fuel1 fuel2) (Nat.le_max_right _ _) _ _ _ hl2
  rw [← hs0] at hl2'
  obtain ⟨sfF, rfl⟩ := runLoop_model hd _ _ _ s1 [] _ _ C1 C2 sF1 sF2 (by rw [hsf0]; exact GuardsRel.nil) hl1' hl2'
  have e1 : (sF1.setSf sfF).valStack = sF1.valStack := rfl
  have e2 : (sF1.setSf sfF).ctr = sF1.ctr := rfl
  rw [e1, hv1] at hv2
  rw [e2, hk1] at hk2
  cases hv2; cases hk2
  rfl

/-! ### `ChiaDialect::op` and the cost model -/

/-- the flag an operator set adds (`ChiaDialect::op`) -/
def extBits : OperatorSet → Nat
  | .Default => 0
  | .Bls => 0
  | .Keccak => Gen.FLAG_ENABLE_KECCAK_OPS_OUTSIDE_GUARD
  | .PreHardFork => Gen.FLAG_ENABLE_KECCAK_OPS_OUTSIDE_GUARD

/-- the operator set only matters through the flag it adds -/
theorem chiaOp_ext (cfg : Cfg) (extra : String → Option OpFn) (dflags : Flags) (o args : Val) (m : Nat)
    (ext : OperatorSet) (c : Ctr) :
    chiaOp cfg extra dflags o args m ext c = chiaOp cfg extra (dflags ||| extBits ext) o args m .Default c := by
  unfold chiaOp
  simp only [Nat.or_zero]
  cases ext <;> rfl

theorem chiaOpTable_req_ncm : ∀ e ∈ Gen.chiaOpTable, Gen.FLAG_NEW_COST_MODEL &&& e.2.2 = 0 := by decide

theorem lookupOp_req_ncm {op : Nat} {name : String} {req : Nat}
    (h : lookupOp Gen.chiaOpTable op = some (name, req)) : Gen.FLAG_NEW_COST_MODEL &&& req = 0 := by
  unfold lookupOp at h
  cases hf : Gen.chiaOpTable.find? (fun e => e.1 == op) with
  | none => simp [hf] at h
  | some e =>
    simp only [hf, Option.map_some, Option.some.injEq] at h
    have := chiaOpTable_req_ncm e (List.mem_of_find?_eq_some hf)
    rw [h] at this
    exact this

theorem call_modelIndep {cfg : Cfg} {extra : String → Option OpFn}
    (hextra : ∀ name f, extra name = some f → OpModelIndep f)
    {K : Nat} (hK : hasFlag K Gen.FLAG_NEW_COST_MODEL = false) {name : String} {m m' : Nat} {args : Val} {c : Ctr}
    {r r' : Nat × Val × Ctr}
    (h : (match coreOpByName cfg name with
      | some f => some (f K m args c)
      | none => match extra name with
        | some f => some (f K m args c)
        | none => none) = some (.ok r))
    (h' : (match coreOpByName cfg name with
      | some f => some (f (K ||| Gen.FLAG_NEW_COST_MODEL) m' args c)
      | none => match extra name with
        | some f => some (f (K ||| Gen.FLAG_NEW_COST_MODEL) m' args c)
        | none => none) = some (.ok r')) : r.2 = r'.2 := by
  cases h1 : coreOpByName cfg name with
  | some f =>
    simp only [h1, Option.some.injEq] at h h'
    exact coreOps_modelIndep h1 K m m' args c r r' hK h h'
  | none =>
    simp only [h1] at h h'
    cases h2 : extra name with
    | some f =>
      simp only [h2, Option.some.injEq] at h h'
      exact hextra name f h2 K m m' args c r r' hK h h'
    | none => simp [h2] at h

theorem unknownOperator_modelIndep {ob : Bytes} {args : Val} {K m m' : Nat} {c : Ctr} {r r' : Nat × Val × Ctr}
    (hK : hasFlag K Gen.FLAG_NEW_COST_MODEL = false)
    (h : unknownOperator ob args K m c = .ok r)
    (h' : unknownOperator ob args (K ||| Gen.FLAG_NEW_COST_MODEL) m' c = .ok r') : r.2 = r'.2 := by
  unfold unknownOperator at h h'
  split at h
  · cases h
  · split at h'
    · cases h'
    · exact opUnknown_modelIndep ob K m m' args c r r' hK h h'

/-- **C11 through `ChiaDialect::op`** (outside guards; inside them see `chiaOp_ext`) -/
theorem chiaOp_modelIndep (cfg : Cfg) (extra : String → Option OpFn)
    (hextra : ∀ name f, extra name = some f → OpModelIndep f)
    (K : Nat) (hK : hasFlag K Gen.FLAG_NEW_COST_MODEL = false) (o args : Val) (m m' : Nat) (c : Ctr)
    (r r' : Nat × Val × Ctr)
    (h : chiaOp cfg extra K o args m .Default c = some (.ok r))
    (h' : chiaOp cfg extra (K ||| Gen.FLAG_NEW_COST_MODEL) o args m' .Default c = some (.ok r')) : r.2 = r'.2 := by
  simp only [chiaOp, Nat.or_zero] at h h'
  cases o with
  | pair l r => simp at h
  | atom ob inl =>
    simp only at h h'
    have hunk : ∀ {x y : Option OpRes}, x = some (unknownOperator ob args K m c) →
        y = some (unknownOperator ob args (K ||| Gen.FLAG_NEW_COST_MODEL) m' c) →
        x = some (.ok r) → y = some (.ok r') → r.2 = r'.2 := by
      intro x y hx hy hx' hy'
      rw [hx] at hx'; rw [hy] at hy'
      exact unknownOperator_modelIndep hK (Option.some.inj hx') (Option.some.inj hy')
    by_cases h4 : (ob.length == 4) = true
    · simp only [h4, ↓reduceIte] at h h'
      split at h
      · rename_i heq; simp only [heq] at h'; exact call_modelIndep hextra hK h h'
      · rename_i heq; simp only [heq] at h'; exact hunk rfl rfl h h'
    · simp only [h4, ↓reduceIte, Bool.false_eq_true] at h h'
      by_cases h1 : (ob.length != 1) = true
      · simp only [h1, ↓reduceIte] at h h'; exact hunk rfl rfl h h'
      · simp only [h1, ↓reduceIte, Bool.false_eq_true] at h h'
        cases hs : smallNumber (.atom ob inl) with
        | none => simp only [hs] at h h'; exact hunk rfl rfl h h'
        | some op =>
          simp only [hs] at h h'
          cases hl : lookupOp Gen.chiaOpTable op with
          | none => simp only [hl] at h h'; exact hunk rfl rfl h h'
          | some nr =>
            obtain ⟨name, req⟩ := nr
            simp only [hl] at h h'
            have hreq : hasFlag (K ||| Gen.FLAG_NEW_COST_MODEL) req = hasFlag K req :=
              hasFlag_or_newModel K req (lookupOp_req_ncm hl)
            rw [hreq, newModel_or_newModel] at h'
            by_cases hq : (req != 0 && !hasFlag K req) = true
            · simp only [hq, ↓reduceIte] at h h'; exact hunk rfl rfl h h'
            · simp only [hq, ↓reduceIte, Bool.false_eq_true] at h h'
              simp only [Bool.not_true, Bool.and_false, Bool.false_eq_true, ↓reduceIte] at h'
              split at h
              · cases h
              · exact call_modelIndep hextra hK h h'

/-! ### the instance -/

theorem or_self_bit (X k : Nat) (h : X.testBit k = true) : X ||| 2 ^ k = X := by
  apply Nat.eq_of_testBit_eq
  intro j
  rw [Nat.testBit_or, Nat.testBit_two_pow]
  by_cases hj : k = j
  · subst hj; simp [h]
  · simp [hj]

/-- the `LIMITS` bit of `F`, as a restriction set -/
def limitsPart (F : Nat) : Nat := if F.testBit 6 then 2 ^ 6 else 0

theorem limitsPart_restr (F : Nat) : limitsPart F &&& restrictionBits = limitsPart F := by
  unfold limitsPart; split <;> decide

theorem clr_or_limitsPart (F : Nat) : clrLimits F ||| limitsPart F = F := by
  apply Nat.eq_of_testBit_eq
  intro j
  rw [Nat.testBit_or, testBit_clrLimits]
  unfold limitsPart
  cases h6 : F.testBit 6
  · simp only [Bool.false_eq_true, ↓reduceIte, Nat.zero_testBit, Bool.or_false]
    by_cases hj : j = 6
    · subst hj; simp [h6]
    · have : (j == 6) = false := by simpa using hj
      simp [this]
  · simp only [↓reduceIte, Nat.testBit_two_pow]
    by_cases hj : j = 6
    · subst hj; simp [h6]
    · have : (j == 6) = false := by simpa using hj
      have hj' : ¬ 6 = j := fun e => hj e.symm
      simp [this, hj']

theorem normFlags_old (F : Nat) (hF : hasFlag F Gen.FLAG_NEW_COST_MODEL = false) : normFlags F = F := by
  unfold normFlags; simp [hF]

theorem normFlags_new (F : Nat) (hF : hasFlag F Gen.FLAG_NEW_COST_MODEL = false) :
    normFlags (F ||| Gen.FLAG_NEW_COST_MODEL) = clrLimits F ||| Gen.FLAG_NEW_COST_MODEL := by
  have h13 : Gen.FLAG_NEW_COST_MODEL = 2 ^ 13 := by decide
  have hF13 : F.testBit 13 = false := by rw [← hasFlag_pow, ← h13]; exact hF
  rw [h13]
  apply Nat.eq_of_testBit_eq
  intro j
  rw [testBit_normFlags, Nat.testBit_or, Nat.testBit_or, Nat.testBit_or, testBit_clrLimits, Nat.testBit_two_pow,
    Nat.testBit_two_pow]
  simp only [decide_true, Bool.or_true, Bool.and_true]
  by_cases hj : j = 6
  · subst hj; simp
  · have : (j == 6) = false := by simpa using hj
    simp [this]

/-- `ChiaDialect::new(F)` against `ChiaDialect::new(F ∪ NEW_COST_MODEL)` when keccak is enabled
outside guards: every operator set then enables the same operators -/
theorem chiaDialect_modelRel (cfg : Cfg) (extra : String → Option OpFn)
    (hmi : ∀ name f, extra name = some f → OpModelIndep f)
    (hre : ∀ name f, extra name = some f → OpRestrict f)
    (F : Nat) (hF : hasFlag F Gen.FLAG_NEW_COST_MODEL = false)
    (hKec : hasFlag F Gen.FLAG_ENABLE_KECCAK_OPS_OUTSIDE_GUARD = true) :
    DialectModelRel (fun _ _ => True) (chiaDialect cfg extra F)
      (chiaDialect cfg extra (F ||| Gen.FLAG_NEW_COST_MODEL)) := by
  have hb : ∀ k, k ≠ 6 → Gen.FLAG_NEW_COST_MODEL &&& 2 ^ k = 0 →
      hasFlag (normFlags F) (2 ^ k) = hasFlag (normFlags (F ||| Gen.FLAG_NEW_COST_MODEL)) (2 ^ k) := by
    intro k hk hd
    rw [hasFlag_normFlags _ _ hk, hasFlag_normFlags _ _ hk, hasFlag_or_newModel _ _ hd]
  have hcanon : hasFlag (normFlags F) Gen.FLAG_CANONICAL_INTS =
      hasFlag (normFlags (F ||| Gen.FLAG_NEW_COST_MODEL)) Gen.FLAG_CANONICAL_INTS := hb 0 (by decide) (by decide)
  refine
    { default := trivial, quoteKw := rfl, applyKw := rfl, softforkKw := rfl
      gcCandidate := gcCandidate_chia_eq (hb 5 (by decide) (by decide))
      allowUnknownOps := ?_
      limitSoftfork := hb 4 (by decide) (by decide)
      uint := fun v => uintAtom_flags 8 v "softfork" _ _ hcanon
      parse := ?_
      op := ?_ }
  · show (!hasFlag (normFlags F) Gen.FLAG_NO_UNKNOWN_OPS) = (!hasFlag (normFlags (F ||| Gen.FLAG_NEW_COST_MODEL)) Gen.FLAG_NO_UNKNOWN_OPS)
    have hunk : hasFlag (normFlags F) Gen.FLAG_NO_UNKNOWN_OPS =
        hasFlag (normFlags (F ||| Gen.FLAG_NEW_COST_MODEL)) Gen.FLAG_NO_UNKNOWN_OPS := hb 1 (by decide) (by decide)
    rw [hunk]
  · intro ol
    unfold parseSoftforkArguments
    cases getArgs4 ol "softfork" with
    | error e => trivial
    | ok q =>
      obtain ⟨a1, a2, a3, a4⟩ := q
      simp only [chiaDialect_flags]
      rw [← uintAtom_flags 4 a2 "softfork" _ _ hcanon]
      cases uintAtom 4 a2 "softfork" (normFlags F) with
      | error e => trivial
      | ok n =>
        simp only
        have h1 : (chiaDialect cfg extra F).softforkExtension n =
            (if n == 0 then .Bls else if n == 1 then .Keccak else .Default) := by
          show (if hasFlag (normFlags F) Gen.FLAG_NEW_COST_MODEL = true then _ else _) = _
          rw [(nf_flag F).2.2.2.2.1, hF]; rfl
        have h2 : (chiaDialect cfg extra (F ||| Gen.FLAG_NEW_COST_MODEL)).softforkExtension n =
            (if n == 0 || n == 1 then .PreHardFork else .Default) := by
          show (if hasFlag (normFlags (F ||| Gen.FLAG_NEW_COST_MODEL)) Gen.FLAG_NEW_COST_MODEL = true then _ else _) = _
          rw [(nf_flag _).2.2.2.2.1]
          have : hasFlag (F ||| Gen.FLAG_NEW_COST_MODEL) Gen.FLAG_NEW_COST_MODEL = true := newModel_or_newModel F
          rw [this]; rfl
        rw [h1, h2]
        by_cases hn0 : (n == 0) = true
        · simp [hn0]
        · by_cases hn1 : (n == 1) = true
          · simp [hn0, hn1]
          · simp [hn0, hn1]
  · intro o args m m' e1 e2 c r r' _ h h'
    have h8 : Gen.FLAG_ENABLE_KECCAK_OPS_OUTSIDE_GUARD = 2 ^ 8 := by decide
    have hF8 : F.testBit 8 = true := by rw [← hasFlag_pow, ← h8]; exact hKec
    have hC8 : (clrLimits F).testBit 8 = true := by rw [testBit_clrLimits, hF8]; rfl
    -- every operator set adds nothing to flags that already contain the keccak bit
    have hx : ∀ (X : Nat) (e : OperatorSet), X.testBit 8 = true → X ||| extBits e = X := by
      intro X e hX
      cases e
      · exact Nat.or_zero X
      · exact Nat.or_zero X
      · show X ||| Gen.FLAG_ENABLE_KECCAK_OPS_OUTSIDE_GUARD = X; rw [h8]; exact or_self_bit X 8 hX
      · show X ||| Gen.FLAG_ENABLE_KECCAK_OPS_OUTSIDE_GUARD = X; rw [h8]; exact or_self_bit X 8 hX
    have h0 : chiaOp cfg extra (normFlags F) o args m e1 c = some (.ok r) := h
    have h0' : chiaOp cfg extra (normFlags (F ||| Gen.FLAG_NEW_COST_MODEL)) o args m' e2 c = some (.ok r') := h'
    rw [chiaOp_ext, normFlags_old F hF, hx F e1 hF8] at h0
    have hN8 : (clrLimits F ||| Gen.FLAG_NEW_COST_MODEL).testBit 8 = true := by
      rw [Nat.testBit_or, hC8]; rfl
    rw [chiaOp_ext, normFlags_new F hF, hx _ e2 hN8] at h0'
    have hclr : hasFlag (clrLimits F) Gen.FLAG_NEW_COST_MODEL = false := by
      have h13 : Gen.FLAG_NEW_COST_MODEL = 2 ^ 13 := by decide
      rw [h13, hasFlag_pow, testBit_clrLimits, ← hasFlag_pow, ← h13, hF]; rfl
    have h0r : chiaOp cfg extra (clrLimits F) o args m .Default c = some (.ok r) := by
      rw [← clr_or_limitsPart F] at h0
      exact chiaOp_restrict cfg extra hre (clrLimits F) (limitsPart F) (limitsPart_restr F) o args m .Default c r h0
    exact chiaOp_modelIndep cfg extra hmi (clrLimits F) hclr o args m m' c r r' h0r h0'

/-- **C11, `eval_value_model_partial`.**  For `ChiaDialect::new`, a flag set `F` without
NEW_COST_MODEL and *with ENABLE_KECCAK_OPS_OUTSIDE_GUARD*: a program that succeeds under `F` and under
`F ∪ NEW_COST_MODEL` — budgets, costs, fuel may differ — returns the same value and leaves the same
allocator counters.  (The `LIMITS` normalisation of `ChiaDialect::new` is covered: under the new
model the operators run without `LIMITS`, which can only add successes.)

**What is missing for the full statement** (`F` without the keccak flag): a run that enters a
softfork guard with extension 0.  There `keccak256` (opcode 62) is an *unknown operator* in the old
model (`OperatorSet::Bls`) and the keccak operator in the new one (`OperatorSet::PreHardFork`), so
the two runs are not in lock-step *inside* the guard; both guards still end in nil with the
counters restored, so the statement is expected to hold, but the proof needs the guard as a black
box (a frame lemma for the machine: a segment of the operation stack never touches the stacks
below it), which is not done.  `runProgram_model` is the general lock-step theorem; the only
hypothesis `DialectModelRel` that fails without the keccak flag is `op` for the pair
(`Bls`, `PreHardFork`). -/
theorem eval_value_model_partial (cfg : Cfg) (extra : String → Option OpFn)
    (hmi : ∀ name f, extra name = some f → OpModelIndep f)
    (hre : ∀ name f, extra name = some f → OpRestrict f)
    (F : Nat) (hF : hasFlag F Gen.FLAG_NEW_COST_MODEL = false)
    (hKec : hasFlag F Gen.FLAG_ENABLE_KECCAK_OPS_OUTSIDE_GUARD = true)
    {fuel1 fuel2 : Nat} {c0 : Ctr} {p e : Val} {M1 M2 : Nat} {r1 r2 : Nat × Val × Ctr}
    (h1 : runProgram cfg (chiaDialect cfg extra F) fuel1 c0 p e M1 = some (.ok r1))
    (h2 : runProgram cfg (chiaDialect cfg extra (F ||| Gen.FLAG_NEW_COST_MODEL)) fuel2 c0 p e M2 = some (.ok r2)) :
    r1.2 = r2.2 :=
  runProgram_model (chiaDialect_modelRel cfg extra hmi hre F hF hKec) h1 h2

end Clvm.Interp
