/-
C11, machine level: the value a program returns does not depend on the cost model.

Generic part: `DialectModelRel E d1 d2` (same keywords and argument parsing; operator sets related
by `E` enable the same operators, and two successful operator calls return the same value and
counters whatever their budgets) implies that two *successful* runs — budgets, costs and fuel may
differ — go through the same machine states up to the guards on the softfork stack (expected cost
and operator set may differ), hence return the same value and counters (`runProgram_model`).

Instance `eval_value_model_partial` for `ChiaDialect::new(F)` against
`ChiaDialect::new(F ∪ NEW_COST_MODEL)`; see its doc comment for what is missing.
-/
import ClvmProofs.Lemmas.Interp.LiftFrame
import ClvmProofs.Lemmas.Interp.LiftRestrict
import ClvmProofs.Lemmas.Interp.ModelIndep

namespace Clvm.Interp
open Clvm Clvm.Alloc

/-- `d1` and `d2` differ only in costs; `E` relates the operator sets of corresponding guards -/
structure DialectModelRel (E : OperatorSet → OperatorSet → Prop) (d1 d2 : Dialect) : Prop where
  default : E .Default .Default
  quoteKw : d1.quoteKw = d2.quoteKw
  applyKw : d1.applyKw = d2.applyKw
  softforkKw : d1.softforkKw = d2.softforkKw
  gcCandidate : d1.gcCandidate = d2.gcCandidate
  allowUnknownOps : d1.allowUnknownOps = d2.allowUnknownOps
  limitSoftfork : hasFlag d1.flags Gen.FLAG_LIMIT_SOFTFORK = hasFlag d2.flags Gen.FLAG_LIMIT_SOFTFORK
  uint : ∀ (v : Val), uintAtom 8 v "softfork" d1.flags = uintAtom 8 v "softfork" d2.flags
  parse : ∀ (ol : Val),
    match parseSoftforkArguments d1 ol, parseSoftforkArguments d2 ol with
    | .error _, .error _ => True
    | .ok (e1, p1, v1), .ok (e2, p2, v2) => E e1 e2 ∧ p1 = p2 ∧ v1 = v2
    | _, _ => False
  op : ∀ (o args : Val) (m m' : Nat) (e1 e2 : OperatorSet) (c : Ctr) (r r' : Nat × Val × Ctr), E e1 e2 →
    d1.op o args m e1 c = some (.ok r) → d2.op o args m' e2 c = some (.ok r') → r.2 = r'.2

/-- corresponding guards: same counters to restore, related operator sets -/
def GuardModel (E : OperatorSet → OperatorSet → Prop) (g g' : SoftforkGuard) : Prop :=
  g.allocatorState = g'.allocatorState ∧ E g.operatorSet g'.operatorSet

theorem curExt_model {E : OperatorSet → OperatorSet → Prop} (hdef : E .Default .Default) {s : MState}
    {sf2 : List SoftforkGuard} (hg : GuardsRel (GuardModel E) s.softforkStack sf2) :
    E (curExt s) (curExt (s.setSf sf2)) := by
  unfold curExt
  rcases hg.inv with ⟨h1, rfl⟩ | ⟨g1, g2, r1, r2, h1, rfl, hh, _⟩
  · simpa [MState.setSf, h1] using hdef
  · simpa [MState.setSf, h1] using hh.2

/-- a successful `exit_guard`, as a state -/
theorem exitGuard_ok {s s' : MState} {cost c : Nat} {g : SoftforkGuard} {rest : List SoftforkGuard}
    (hs : s.softforkStack = g :: rest) (h : exitGuard s cost = .ok (c, s')) :
    ∃ v vs, s.valStack = v :: vs ∧
      s' = { s with softforkStack := rest, ctr := { g.allocatorState with heapLimit := s.ctr.heapLimit },
                    valStack := Val.nil :: vs, valLen := s.valLen - 1 + 1 } := by
  unfold exitGuard at h
  rw [hs] at h
  simp only at h
  split at h
  · cases h
  · split at h
    · cases h
    · rename_i v vs hv
      obtain ⟨s1, h1, h⟩ := M_bind_ok h
      cases M_pure_ok h
      exact ⟨v, vs, hv, push_ok h1⟩

theorem applyBody_model {cfg : Cfg} {E : OperatorSet → OperatorSet → Prop} {d1 d2 : Dialect}
    (hd : DialectModelRel E d1 d2) {s s1' s2' : MState} {sf2 : List SoftforkGuard} {ol o : Val}
    {cc1 mc1 c1 cc2 mc2 c2 : Nat} (hg : GuardsRel (GuardModel E) s.softforkStack sf2)
    (h1 : applyBody cfg d1 s ol o cc1 mc1 = .ok (c1, s1'))
    (h2 : applyBody cfg d2 (s.setSf sf2) ol o cc2 mc2 = .ok (c2, s2')) :
    ∃ sf2', s2' = s1'.setSf sf2' ∧ GuardsRel (GuardModel E) s1'.softforkStack sf2' := by
  unfold applyBody at h1 h2
  rw [← hd.applyKw, ← hd.softforkKw] at h2
  split at h1
  · rename_i hk
    rw [if_pos hk] at h2
    unfold applyApply at h1 h2
    obtain ⟨⟨no, env⟩, h0, h1⟩ := M_bind_ok h1
    obtain ⟨⟨k1, t1⟩, he1, h1⟩ := M_bind_ok h1
    cases M_pure_ok h1
    rw [M_bind_eq h0] at h2
    simp only at h2
    obtain ⟨e1, f1⟩ := evalPair_setSf sf2 he1
    rw [← evalPair_kw hd.quoteKw hd.gcCandidate, M_bind_eq e1] at h2
    cases M_pure_ok h2
    exact ⟨sf2, rfl, by rw [f1]; exact hg⟩
  · rename_i hk
    rw [if_neg hk] at h2
    split at h1
    · rename_i hk2
      rw [if_pos hk2] at h2
      unfold applySoftfork at h1 h2
      obtain ⟨f, hf, h1⟩ := M_bind_ok h1
      obtain ⟨ec, hec, h1⟩ := M_bind_ok h1
      rw [M_bind_eq hf, ← hd.uint, M_bind_eq hec] at h2
      split at h1
      · cases h1
      · split at h1
        · cases h1
        · by_cases hx1 : ec > mc2
          · rw [if_pos hx1] at h2; cases h2
          rw [if_neg hx1] at h2
          by_cases hx2 : (ec == 0) = true
          · rw [if_pos hx2] at h2; cases h2
          rw [if_neg hx2] at h2
          have hp := hd.parse ol
          cases hp1 : parseSoftforkArguments d1 ol with
          | error err1 =>
            cases hp2 : parseSoftforkArguments d2 ol with
            | ok x => rw [hp1, hp2] at hp; exact hp.elim
            | error err2 =>
              rw [hp1] at h1
              rw [hp2] at h2
              simp only at h1 h2
              split at h1
              · rename_i hallow
                rw [← hd.allowUnknownOps, if_pos hallow] at h2
                obtain ⟨t1, hpu, h1⟩ := M_bind_ok h1
                cases M_pure_ok h1
                obtain ⟨e1, f1⟩ := push_setSf sf2 hpu
                rw [M_bind_eq e1] at h2
                cases M_pure_ok h2
                exact ⟨sf2, rfl, by rw [f1]; exact hg⟩
              · cases h1
          | ok x1 =>
            obtain ⟨ext1, prg1, env1⟩ := x1
            cases hp2 : parseSoftforkArguments d2 ol with
            | error err2 => rw [hp1, hp2] at hp; exact hp.elim
            | ok x2 =>
              obtain ⟨ext2, prg2, env2⟩ := x2
              rw [hp1, hp2] at hp
              obtain ⟨hE, rfl, rfl⟩ := hp
              rw [hp1] at h1
              rw [hp2] at h2
              simp only at h1 h2
              have hlen : (s.setSf sf2).softforkStack.length = s.softforkStack.length := hg.length_eq.symm
              rw [hlen, ← hd.limitSoftfork] at h2
              split at h1
              · cases h1
              · rename_i hlim
                rw [if_neg hlim] at h2
                obtain ⟨⟨k1, t1⟩, he1, h1⟩ := M_bind_ok h1
                cases M_pure_ok h1
                obtain ⟨⟨k2, t2⟩, he2, h2⟩ := M_bind_ok h2
                cases M_pure_ok h2
                let g1 : SoftforkGuard :=
                  { expectedCost := guardExpected s ext1 cc1 mc1 ec, allocatorState := s.ctr,
                    operatorSet := ext1 }
                let g2 : SoftforkGuard :=
                  { expectedCost := guardExpected (s.setSf sf2) ext2 cc2 mc2 ec,
                    allocatorState := (s.setSf sf2).ctr, operatorSet := ext2 }
                obtain ⟨e1, f1⟩ := evalPair_setSf (g2 :: sf2) he1
                have : enterGuard (s.setSf sf2) g2 = (enterGuard s g1).setSf (g2 :: sf2) := rfl
                rw [← evalPair_kw hd.quoteKw hd.gcCandidate, this, e1] at he2
                cases he2
                refine ⟨g2 :: sf2, rfl, ?_⟩
                rw [f1]
                exact GuardsRel.cons ⟨rfl, hE⟩ hg
    · rename_i hk2
      rw [if_neg hk2] at h2
      unfold applyOrdinary at h1 h2
      have hctr : (s.setSf sf2).ctr = s.ctr := rfl
      rw [hctr] at h2
      split at h1
      · cases h1
      · cases h1
      · rename_i k1 v1 ct1 hop1
        split at h2
        · cases h2
        · cases h2
        · rename_i k2 v2 ct2 hop2
          have := hd.op o ol _ _ _ _ _ _ _ (curExt_model hd.default hg) hop1 hop2
          simp only [Prod.mk.injEq] at this
          obtain ⟨rfl, rfl⟩ := this
          obtain ⟨t1, hpu, h1⟩ := M_bind_ok h1
          cases M_pure_ok h1
          obtain ⟨e1, f1⟩ := push_setSf sf2 hpu
          have : ({ s with ctr := ct1 } : MState).setSf sf2 = { s.setSf sf2 with ctr := ct1 } := rfl
          rw [this] at e1
          rw [M_bind_eq e1] at h2
          cases M_pure_ok h2
          exact ⟨sf2, rfl, by rw [f1]; exact hg⟩

theorem stepOp_model {cfg : Cfg} {E : OperatorSet → OperatorSet → Prop} {d1 d2 : Dialect}
    (hd : DialectModelRel E d1 d2) {s s1' s2' : MState} {sf2 : List SoftforkGuard} {op : Operation}
    {cost1 em1 c1 cost2 em2 c2 : Nat} (hg : GuardsRel (GuardModel E) s.softforkStack sf2)
    (h1 : stepOp cfg d1 s op cost1 em1 = .ok (c1, s1'))
    (h2 : stepOp cfg d2 (s.setSf sf2) op cost2 em2 = .ok (c2, s2')) :
    ∃ sf2', s2' = s1'.setSf sf2' ∧ GuardsRel (GuardModel E) s1'.softforkStack sf2' := by
  cases op with
  | Apply =>
    simp only [stepOp] at h1 h2
    match hvs : s.valStack, hes : s.envStack with
    | [], _ => simp [applyOp, MState.pop, hvs, bind, Except.bind] at h1
    | [_], _ => simp [applyOp, MState.pop, hvs, bind, Except.bind] at h1
    | _ :: _ :: _, [] => simp [applyOp, MState.pop, hvs, hes, bind, Except.bind] at h1
    | ol :: o :: vals, e0 :: envs =>
      rw [applyOp_eq cfg _ s _ _ hvs hes] at h1
      rw [applyOp_eq cfg _ (s.setSf sf2) _ _ (show (s.setSf sf2).valStack = _ from hvs)
        (show (s.setSf sf2).envStack = _ from hes)] at h2
      exact applyBody_model hd (s := s.applyBase vals envs) hg h1 h2
  | ExitGuard =>
    simp only [stepOp] at h1 h2
    rcases hg.inv with ⟨e1, rfl⟩ | ⟨g1, g2, r1, r2, e1, rfl, hh, ht⟩
    · unfold exitGuard at h1
      rw [e1] at h1
      cases h1
    · obtain ⟨v, vs, hv, rfl⟩ := exitGuard_ok e1 h1
      obtain ⟨v', vs', hv', rfl⟩ := exitGuard_ok (s := s.setSf (g2 :: r2)) (g := g2) (rest := r2) rfl h2
      have : (s.setSf (g2 :: r2)).valStack = s.valStack := rfl
      rw [this, hv] at hv'
      cases hv'
      refine ⟨r2, ?_, ht⟩
      simp only [MState.setSf, hh.1]
  | Cons =>
    simp only [stepOp] at h1 h2
    obtain ⟨e1, f1⟩ := consOp_setSf sf2 h1
    rw [e1] at h2; cases h2
    exact ⟨sf2, rfl, by rw [f1]; exact hg⟩
  | SwapEval =>
    simp only [stepOp] at h1 h2
    obtain ⟨e1, f1⟩ := swapEvalOp_setSf sf2 h1
    rw [← swapEvalOp_kw hd.quoteKw hd.gcCandidate, e1] at h2; cases h2
    exact ⟨sf2, rfl, by rw [f1]; exact hg⟩
  | RestoreAllocator =>
    simp only [stepOp] at h1 h2
    have e1 : (s.setSf sf2).allocatorStack = s.allocatorStack := rfl
    have e2 : (s.setSf sf2).valStack = s.valStack := rfl
    rw [e1, e2] at h2
    split at h1
    · cases h1
    · rename_i hh1
      rw [if_neg hh1] at h2
      split at h1
      · cases h1
      · rename_i hh2
        rw [if_neg hh2] at h2
        cases h1; cases h2
        exact ⟨sf2, rfl, hg⟩

/-- two successful loops from related states end in related states -/
theorem runLoop_model {cfg : Cfg} {E : OperatorSet → OperatorSet → Prop} {d1 d2 : Dialect}
    (hd : DialectModelRel E d1 d2) (mc1 mc2 : Nat) (fuel : Nat) :
    ∀ (s : MState) (sf2 : List SoftforkGuard) (cost1 cost2 C1 C2 : Nat) (sF1 sF2 : MState),
      GuardsRel (GuardModel E) s.softforkStack sf2 →
      runLoop cfg d1 mc1 fuel s cost1 = some (.ok (C1, sF1)) →
      runLoop cfg d2 mc2 fuel (s.setSf sf2) cost2 = some (.ok (C2, sF2)) →
      ∃ sfF, sF2 = sF1.setSf sfF := by
  induction fuel with
  | zero => intro s sf2 cost1 cost2 C1 C2 sF1 sF2 _ h; simp [runLoop_zero] at h
  | succ n ih =>
    intro s sf2 cost1 cost2 C1 C2 sF1 sF2 hg h1 h2
    rw [runLoop_succ] at h1 h2
    unfold loopBody at h1 h2
    split at h1
    · cases h1
    · split at h2
      · cases h2
      · have hops : (s.setSf sf2).opStack = s.opStack := rfl
        rw [hops] at h2
        split at h1
        · rename_i hop
          rw [hop] at h2
          cases h1; cases h2
          exact ⟨sf2, rfl⟩
        · rename_i op ops hop
          rw [hop] at h2
          simp only at h2
          split at h1
          · cases h1
          · rename_i c1 t1 hst1
            split at h2
            · cases h2
            · rename_i c2 t2 hst2
              have : ({ s.setSf sf2 with opStack := ops } : MState) = ({ s with opStack := ops } : MState).setSf sf2 := rfl
              rw [this] at hst2
              obtain ⟨sf2', rfl, hg'⟩ := stepOp_model hd (s := { s with opStack := ops }) hg hst1 hst2
              exact ih t1 sf2' _ _ C1 C2 sF1 sF2 hg' h1 h2

/-- **lifting**: two successful runs of the same program under cost-model-related dialects return
the same value and leave the same allocator counters; budgets and fuel may differ -/
theorem runProgram_model {cfg : Cfg} {E : OperatorSet → OperatorSet → Prop} {d1 d2 : Dialect}
    (hd : DialectModelRel E d1 d2) {fuel1 fuel2 : Nat} {c0 : Ctr} {p e : Val} {M1 M2 : Nat}
    {r1 r2 : Nat × Val × Ctr} (h1 : runProgram cfg d1 fuel1 c0 p e M1 = some (.ok r1))
    (h2 : runProgram cfg d2 fuel2 c0 p e M2 = some (.ok r2)) : r1.2 = r2.2 := by
  obtain ⟨C1, v1, k1⟩ := r1
  obtain ⟨C2, v2, k2⟩ := r2
  obtain ⟨a1, cost1, s1, sF1, vs1, ha1, hev1, hl1, hv1, hk1⟩ := runProgram_ok_iff.1 h1
  obtain ⟨a2, cost2, s2, sF2, vs2, ha2, hev2, hl2, hv2, hk2⟩ := runProgram_ok_iff.1 h2
  rw [ha1] at ha2; cases ha2
  rw [← evalPair_kw hd.quoteKw hd.gcCandidate, hev1] at hev2; cases hev2
  have hsf0 : s1.softforkStack = [] := (evalPair_setSf [] hev1).2
  have hs0 : s1.setSf [] = s1 := by rw [← hsf0]; rfl
  have hl1' := runLoop_fuel_le cfg d1 _ fuel1 (max fuel1 fuel2) (Nat.le_max_left _ _) _ _ _ hl1
  have hl2' := runLoop_fuel_le cfg d2 _ fuel2 (max fuel1 fuel2) (Nat.le_max_right _ _) _ _ _ hl2
  rw [← hs0] at hl2'
  obtain ⟨sfF, rfl⟩ := runLoop_model hd _ _ _ s1 [] _ _ C1 C2 sF1 sF2 (by rw [hsf0]; exact GuardsRel.nil) hl1' hl2'
  have e1 : (sF1.setSf sfF).valStack = sF1.valStack := rfl
  have e2 : (sF1.setSf sfF).ctr = sF1.ctr := rfl
  rw [e1, hv1] at hv2
  rw [e2, hk1] at hk2
  cases hv2; cases hk2
  rfl

end Clvm.Interp
