/-
Per-operator shapes for the operators outside the core table (`cryptoExtra`), generic part:

* tree-level versions (`TBudget`, `TClean`, `TRestrict`, `TRelax`, `TModelIndep`) of the operator
  shapes of `OpProps.lean` for a tree-level operator `g : Crypto.OpFn`;
* `liftCrypto g` inherits every shape from `g` (`liftCrypto` only adds one `allocAtom`, after `g`
  has returned, which looks neither at the budget nor at the flags);
* small lemmas about `Except` do-blocks, `check_cost` and the flag bits as the crypto model reads
  them (`flags &&& bit == bit`).
-/
import ClvmProofs.Lemmas.Interp.CleanAux
import ClvmProofs.Lemmas.Interp.FlagBits
import ClvmModel.Interp.CryptoOps

namespace Clvm.Interp
open Clvm Clvm.Alloc

/-! ### `Except` do-blocks -/

theorem ex_bind_ok {α β} {a : Except Err α} {k : α → Except Err β} {r : β} :
    (a >>= k) = .ok r ↔ ∃ x, a = .ok x ∧ k x = .ok r := by
  cases a <;> simp [bind, Except.bind]

theorem ex_bind_err {α β} {a : Except Err α} {k : α → Except Err β} {e : Err} :
    (a >>= k) = .error e ↔ a = .error e ∨ ∃ x, a = .ok x ∧ k x = .error e := by
  cases a <;> simp [bind, Except.bind]

/-- (stated with a hypothesis so that `simp` uses it as a rewrite rule with a proof term: as a `rfl`
lemma the kernel would have to re-check the step by unfolding, which is slow on these terms) -/
theorem ex_bind_of_ok {α β} {a : Except Err α} {x : α} (h : a = .ok x) (k : α → Except Err β) :
    (a >>= k) = k x := by subst h; rfl
theorem ex_bind_of_err {α β} {a : Except Err α} {e : Err} (h : a = .error e) (k : α → Except Err β) :
    (a >>= k) = .error e := by subst h; rfl
theorem ex_ok_bind {α β} (x : α) (k : α → Except Err β) : ((Except.ok x : Except Err α) >>= k) = k x :=
  ex_bind_of_ok (Eq.refl _) k
theorem ex_err_bind {α β} (e : Err) (k : α → Except Err β) :
    ((Except.error e : Except Err α) >>= k) = .error e := ex_bind_of_err (Eq.refl _) k
theorem ex_pure {α} (x : α) : (pure x : Except Err α) = .ok x := rfl
theorem ex_throw {α} (e : Err) : (throw e : Except Err α) = .error e := rfl

/-! ### the post-processing of `liftCrypto` -/

/-- what `liftCrypto` does with a successful tree-level result -/
def liftPost (r : Crypto.OpRes) (c : Ctr) : OpRes :=
  if r.fresh then
    match r.value with
    | .atom b =>
      match allocAtom c b with
      | .error e => .error e
      | .ok (v, c') => .ok (r.cost, v, c')
    | .pair _ _ => .error (.Panic "crypto operator allocated a pair")
  else .ok (r.cost, Val.ofTree r.value, c)

theorem liftCrypto_eq (g : Crypto.OpFn) (flags m : Nat) (args : Val) (c : Ctr) :
    liftCrypto g flags m args c =
      match g flags m args.erase with
      | .error e => .error e
      | .ok r => liftPost r c := by
  unfold liftCrypto liftPost; rfl

theorem liftCrypto_of_ok {g : Crypto.OpFn} {flags m : Nat} {args : Val} {q : Crypto.OpRes}
    (h : g flags m args.erase = .ok q) (c : Ctr) : liftCrypto g flags m args c = liftPost q c := by
  rw [liftCrypto_eq, h]

theorem liftCrypto_of_err {g : Crypto.OpFn} {flags m : Nat} {args : Val} {e : Err}
    (h : g flags m args.erase = .error e) (c : Ctr) : liftCrypto g flags m args c = .error e := by
  rw [liftCrypto_eq, h]

theorem liftCrypto_ok_inv {g : Crypto.OpFn} {flags m : Nat} {args : Val} {c : Ctr} {r : Nat × Val × Ctr}
    (h : liftCrypto g flags m args c = .ok r) :
    ∃ q, g flags m args.erase = .ok q ∧ liftPost q c = .ok r := by
  rw [liftCrypto_eq] at h
  cases hg : g flags m args.erase with
  | error e => rw [hg] at h; cases h
  | ok q => rw [hg] at h; exact ⟨q, rfl, h⟩

theorem liftPost_cost {q : Crypto.OpRes} {c : Ctr} {r : Nat × Val × Ctr} (h : liftPost q c = .ok r) :
    r.1 = q.cost := by
  unfold liftPost at h
  split at h
  · split at h
    · split at h
      · cases h
      · cases h; rfl
    · cases h
  · cases h; rfl

theorem Val.wf_ofTree (t : Tree) : (Val.ofTree t).wf = true := by
  induction t with
  | atom b => exact Val.wf_mkAtom b
  | pair l r ihl ihr => exact Val.wf_pair.2 ⟨ihl, ihr⟩

theorem liftPost_wf {q : Crypto.OpRes} {c : Ctr} {r : Nat × Val × Ctr} (h : liftPost q c = .ok r) :
    r.2.1.wf = true ∧ CtrLe c r.2.2 := by
  unfold liftPost at h
  split at h
  · split at h
    · split at h
      · cases h
      · rename_i ha; cases h; exact allocAtom_wf ha
    · cases h
  · cases h; exact ⟨Val.wf_ofTree _, CtrLe.refl _⟩

/-- the value and the counters that `liftPost` returns depend only on `value` and `fresh` -/
theorem liftPost_snd {q q' : Crypto.OpRes} {c : Ctr} {r r' : Nat × Val × Ctr}
    (hv : q.value = q'.value) (hf : q.fresh = q'.fresh)
    (h : liftPost q c = .ok r) (h' : liftPost q' c = .ok r') : r.2 = r'.2 := by
  unfold liftPost at h h'
  rw [← hv, ← hf] at h'
  split at h
  · rename_i hfr
    rw [if_pos hfr] at h'
    split at h
    · rename_i b hb
      rw [hb] at h'
      simp only at h'
      split at h
      · cases h
      · rename_i ha
        rw [ha] at h'
        cases h; cases h'; rfl
    · cases h
  · rename_i hfr
    rw [if_neg hfr] at h'
    cases h; cases h'; rfl

/-! ### tree-level shapes -/

/-- budget shape: after a success, the budget matters only through `CostExceeded`, and the charged
cost is a sufficient budget (`LoopOk` of `BudgetAux.lean` with start cost 0) -/
def TBudget (g : Crypto.OpFn) : Prop :=
  ∀ (flags m : Nat) (args : Tree) (r : Crypto.OpRes),
    g flags m args = .ok r → LoopOk r.cost 0 (fun m' => g flags m' args) r

/-- no `Panic` / `InternalError` / `Abort`, and a result obtained from an allocation call is an atom
(so the `Panic` of `liftCrypto` is unreachable) -/
def TClean (g : Crypto.OpFn) : Prop :=
  (∀ (flags m : Nat) (args : Tree) (e : Err), g flags m args = .error e → Err.isInternal e = false) ∧
  (∀ (flags m : Nat) (args : Tree) (r : Crypto.OpRes), g flags m args = .ok r → r.fresh = true →
    ∃ b, r.value = .atom b)

def TRestrict (g : Crypto.OpFn) : Prop :=
  ∀ (F R m : Nat) (args : Tree) (r : Crypto.OpRes),
    R &&& restrictionBits = R → g (F ||| R) m args = .ok r → g F m args = .ok r

def TRelax (g : Crypto.OpFn) : Prop :=
  ∀ (F m : Nat) (args : Tree) (r : Crypto.OpRes),
    g F m args = .ok r → g (F ||| Gen.FLAG_RELAXED_BLS) m args = .ok r

def TModelIndep (g : Crypto.OpFn) : Prop :=
  ∀ (F m m' : Nat) (args : Tree) (r r' : Crypto.OpRes),
    hasFlag F Gen.FLAG_NEW_COST_MODEL = false →
    g F m args = .ok r → g (F ||| Gen.FLAG_NEW_COST_MODEL) m' args = .ok r' →
      r.value = r'.value ∧ r.fresh = r'.fresh

/-! ### `liftCrypto` inherits the shapes -/

theorem liftCrypto_budget {g : Crypto.OpFn} (hg : TBudget g) : OpBudget (liftCrypto g) := by
  intro flags m m' args c r h
  obtain ⟨q, hq, hp⟩ := liftCrypto_ok_inv h
  obtain ⟨_, hL⟩ := hg flags m args.erase q hq
  have hc := liftPost_cost hp
  refine ⟨?_, fun hle => ?_⟩
  · rcases (hL m').1 with h1 | h1
    · exact Or.inl (by rw [liftCrypto_of_ok h1, hp])
    · exact Or.inr (liftCrypto_of_err h1 c)
  · rw [liftCrypto_of_ok ((hL m').2 (hc ▸ hle)), hp]

theorem liftCrypto_wf (g : Crypto.OpFn) : OpWf (liftCrypto g) := by
  intro flags m args c r _ h
  obtain ⟨q, _, hp⟩ := liftCrypto_ok_inv h
  obtain ⟨h1, h2, h3, h4, h5⟩ := liftPost_wf hp
  exact ⟨h1, h2, h3, h4, h5⟩

theorem liftCrypto_clean {g : Crypto.OpFn} (hg : TClean g) : OpClean (liftCrypto g) := by
  intro flags m args c e _ h
  rw [liftCrypto_eq] at h
  cases hq : g flags m args.erase with
  | error e' => rw [hq] at h; cases h; exact hg.1 flags m _ _ hq
  | ok q =>
    rw [hq] at h
    simp only at h
    unfold liftPost at h
    split at h
    · rename_i hf
      obtain ⟨b, hb⟩ := hg.2 flags m _ q hq hf
      rw [hb] at h
      simp only at h
      split at h
      · rename_i ha; cases h; exact allocAtom_clean ha
      · cases h
    · cases h

theorem liftCrypto_restrict {g : Crypto.OpFn} (hg : TRestrict g) : OpRestrict (liftCrypto g) := by
  intro F R m args c r hR h
  obtain ⟨q, hq, hp⟩ := liftCrypto_ok_inv h
  rw [liftCrypto_of_ok (hg F R m _ q hR hq), hp]

theorem liftCrypto_relax {g : Crypto.OpFn} (hg : TRelax g) : OpRelax (liftCrypto g) := by
  intro F m args c r h
  obtain ⟨q, hq, hp⟩ := liftCrypto_ok_inv h
  rw [liftCrypto_of_ok (hg F m _ q hq), hp]

theorem liftCrypto_modelIndep {g : Crypto.OpFn} (hg : TModelIndep g) : OpModelIndep (liftCrypto g) := by
  intro F m m' args c r r' hF h h'
  obtain ⟨q, hq, hp⟩ := liftCrypto_ok_inv h
  obtain ⟨q', hq', hp'⟩ := liftCrypto_ok_inv h'
  obtain ⟨hv, hf⟩ := hg F m m' _ q q' hF hq hq'
  exact liftPost_snd hv hf hp hp'

/-! ### `check_cost` of the crypto model, `LoopOk` combinators in `do`-form -/

section
open Clvm.Crypto.Ops

theorem cCheck_ok_iff {x m : Nat} : Crypto.Ops.checkCost x m = .ok () ↔ x ≤ m := by
  unfold Crypto.Ops.checkCost; split <;> simp <;> omega

theorem cCheck_of_le {x m : Nat} (h : x ≤ m) : Crypto.Ops.checkCost x m = .ok () := cCheck_ok_iff.2 h

theorem cCheck_of_lt {x m : Nat} (h : m < x) : Crypto.Ops.checkCost x m = .error .CostExceeded := by
  unfold Crypto.Ops.checkCost; simp [h]

theorem cCheck_err {x m : Nat} {e} (h : Crypto.Ops.checkCost x m = .error e) : e = .CostExceeded := by
  unfold Crypto.Ops.checkCost at h; split at h <;> simp_all

theorem cCheck_clean {x m : Nat} {e} (h : Crypto.Ops.checkCost x m = .error e) : Err.isInternal e = false := by
  rw [cCheck_err h]; rfl

theorem LoopOk.checkB {α} {b lo x : Nat} {g : Nat → Except Err α} {r : α}
    (h : LoopOk b x g r) (hlo : lo ≤ x) :
    LoopOk b lo (fun m' => Crypto.Ops.checkCost x m' >>= fun _ => g m') r := by
  obtain ⟨h1, h2⟩ := h
  refine ⟨Nat.le_trans hlo h1, fun m' => ?_⟩
  by_cases hm : x ≤ m'
  · simp only [cCheck_of_le hm, ex_ok_bind]; exact h2 m'
  · simp only [cCheck_of_lt (Nat.lt_of_not_le hm), ex_err_bind]
    exact ⟨Or.inr trivial, fun hh => absurd (Nat.le_trans h1 hh) hm⟩

/-- a loop followed by a budget-independent continuation that adds to the cost -/
theorem LoopOk.bindB {α β} {b1 b2 lo : Nat} {g : Nat → Except Err α} {k : α → Nat → Except Err β}
    {a : α} {r : β} (hg : LoopOk b1 lo g a) (hk : LoopOk b2 b1 (k a) r) :
    LoopOk b2 lo (fun m' => g m' >>= fun x => k x m') r :=
  LoopOk.bind hg hk (fun m' h => by simp only [h, ex_ok_bind]) (fun m' h => by simp only [h, ex_err_bind])

end

/-! ### flag bits as the crypto model reads them -/

theorem and_two_pow' (X k : Nat) : X &&& 2 ^ k = if X.testBit k then 2 ^ k else 0 := by
  apply Nat.eq_of_testBit_eq
  intro i
  rw [Nat.testBit_and, Nat.testBit_two_pow]
  by_cases hi : k = i
  · subst hi
    cases h : X.testBit k <;> simp
  · cases h : X.testBit k <;> simp [hi]

theorem cHasFlag_pow (X k : Nat) : Crypto.Ops.hasFlag X (2 ^ k) = X.testBit k := by
  unfold Crypto.Ops.hasFlag
  rw [and_two_pow']
  have : (2 : Nat) ^ k ≠ 0 := Nat.pos_iff_ne_zero.1 (Nat.two_pow_pos k)
  cases X.testBit k
  · simp [Ne.symm this]
  · simp

theorem iHasFlag_pow (X k : Nat) : hasFlag X (2 ^ k) = X.testBit k := by
  unfold hasFlag
  rw [and_two_pow']
  have : (2 : Nat) ^ k ≠ 0 := Nat.pos_iff_ne_zero.1 (Nat.two_pow_pos k)
  cases X.testBit k
  · simp
  · simp

theorem cNewCostModel_eq (F : Nat) : Crypto.Ops.newCostModel F = hasFlag F Gen.FLAG_NEW_COST_MODEL := by
  unfold Crypto.Ops.newCostModel
  have h1 : Gen.Crypto.flagNewCostModel = 2 ^ 13 := by decide
  have h2 : Gen.FLAG_NEW_COST_MODEL = 2 ^ 13 := by decide
  rw [h1, h2, cHasFlag_pow, iHasFlag_pow]

theorem cLimits_eq (F : Nat) : Crypto.Ops.hasFlag F Gen.Crypto.flagLimits = hasFlag F Gen.FLAG_LIMITS := by
  have h1 : Gen.Crypto.flagLimits = 2 ^ 6 := by decide
  have h2 : Gen.FLAG_LIMITS = 2 ^ 6 := by decide
  rw [h1, h2, cHasFlag_pow, iHasFlag_pow]

theorem cRelaxed_eq (F : Nat) :
    Crypto.Ops.hasFlag F Gen.Crypto.flagRelaxedBls = hasFlag F Gen.FLAG_RELAXED_BLS := by
  have h1 : Gen.Crypto.flagRelaxedBls = 2 ^ 3 := by decide
  have h2 : Gen.FLAG_RELAXED_BLS = 2 ^ 3 := by decide
  rw [h1, h2, cHasFlag_pow, iHasFlag_pow]

/-- the three bits a tree-level crypto operator can read -/
structure CView (F G : Nat) : Prop where
  nm : Crypto.Ops.newCostModel F = Crypto.Ops.newCostModel G
  lim : Crypto.Ops.hasFlag F Gen.Crypto.flagLimits = Crypto.Ops.hasFlag G Gen.Crypto.flagLimits
  rel : Crypto.Ops.hasFlag F Gen.Crypto.flagRelaxedBls = Crypto.Ops.hasFlag G Gen.Crypto.flagRelaxedBls

theorem cNewCostModel_or_restr {R : Nat} (hR : R &&& restrictionBits = R) (F : Nat) :
    Crypto.Ops.newCostModel (F ||| R) = Crypto.Ops.newCostModel F := by
  rw [cNewCostModel_eq, cNewCostModel_eq]; exact hasFlag_or_disjoint _ _ _ (restr_newCostModel hR)

theorem cRelaxed_or_restr {R : Nat} (hR : R &&& restrictionBits = R) (F : Nat) :
    Crypto.Ops.hasFlag (F ||| R) Gen.Crypto.flagRelaxedBls = Crypto.Ops.hasFlag F Gen.Crypto.flagRelaxedBls := by
  rw [cRelaxed_eq, cRelaxed_eq]; exact hasFlag_or_disjoint _ _ _ (restr_relaxedBls hR)

theorem cLimits_or_mono (F R : Nat) (h : Crypto.Ops.hasFlag F Gen.Crypto.flagLimits = true) :
    Crypto.Ops.hasFlag (F ||| R) Gen.Crypto.flagLimits = true := by
  rw [cLimits_eq] at h ⊢; rw [hasFlag_or, h]; rfl

theorem cNewCostModel_or_relaxed (F : Nat) :
    Crypto.Ops.newCostModel (F ||| Gen.FLAG_RELAXED_BLS) = Crypto.Ops.newCostModel F := by
  rw [cNewCostModel_eq, cNewCostModel_eq]; exact hasFlag_or_relaxed F _ (by decide)

theorem cLimits_or_relaxed (F : Nat) :
    Crypto.Ops.hasFlag (F ||| Gen.FLAG_RELAXED_BLS) Gen.Crypto.flagLimits =
      Crypto.Ops.hasFlag F Gen.Crypto.flagLimits := by
  rw [cLimits_eq, cLimits_eq]; exact hasFlag_or_relaxed F _ (by decide)

theorem cRelaxed_or_relaxed (F : Nat) :
    Crypto.Ops.hasFlag (F ||| Gen.FLAG_RELAXED_BLS) Gen.Crypto.flagRelaxedBls = true := by
  rw [cRelaxed_eq, hasFlag_or]
  have : hasFlag Gen.FLAG_RELAXED_BLS Gen.FLAG_RELAXED_BLS = true := by decide
  rw [this, Bool.or_true]

theorem cNewCostModel_or_newModel (F : Nat) :
    Crypto.Ops.newCostModel (F ||| Gen.FLAG_NEW_COST_MODEL) = true := by
  rw [cNewCostModel_eq]; exact newModel_or_newModel F

theorem cLimits_or_newModel (F : Nat) :
    Crypto.Ops.hasFlag (F ||| Gen.FLAG_NEW_COST_MODEL) Gen.Crypto.flagLimits =
      Crypto.Ops.hasFlag F Gen.Crypto.flagLimits := by
  rw [cLimits_eq, cLimits_eq]; exact hasFlag_or_newModel F _ (by decide)

theorem cRelaxed_or_newModel (F : Nat) :
    Crypto.Ops.hasFlag (F ||| Gen.FLAG_NEW_COST_MODEL) Gen.Crypto.flagRelaxedBls =
      Crypto.Ops.hasFlag F Gen.Crypto.flagRelaxedBls := by
  rw [cRelaxed_eq, cRelaxed_eq]; exact hasFlag_or_newModel F _ (by decide)

end Clvm.Interp
