/-
C10: cost lemmas for the operators with an argument loop (any, all, concat, sha256, logand/logior/
logxor); add, subtract, multiply are in `CostArith.lean`.
-/
import ClvmProofs.Lemmas.Interp.CostDiv

namespace Clvm.Interp
open Clvm Clvm.Alloc

theorem sum_cons' (a : Nat) (l : List Nat) : Spec.Cost.sum (a :: l) = a + Spec.Cost.sum l := rfl
theorem sumLen_cons (a : Val) (l : List Val) :
    Spec.Cost.sumLen (a :: l) = Spec.Cost.len a + Spec.Cost.sumLen l := rfl
theorem sumLen_nil : Spec.Cost.sumLen [] = 0 := rfl

/-! ### any, all -/

theorem boolLoop_ok (B : Nat) (isAny : Bool) (l : List Val) (cost : Nat) (acc : Bool) (cost' : Nat) (r : Bool)
    (h : boolLoop B isAny l cost acc = .ok (cost', r)) : cost' = cost + Gen.BOOL_COST_PER_ARG * l.length := by
  induction l generalizing cost acc with
  | nil => simp only [boolLoop] at h; injection h with h; injection h with h1 _; simp [← h1]
  | cons a t ih =>
    simp only [boolLoop] at h
    split at h
    · cases h
    · have := ih _ _ h
      rw [this, List.length_cons]
      simp only [Gen.BOOL_COST_PER_ARG]; omega

theorem cost_opAny : CostOK opAny Spec.Cost.opAny := by
  intro flags m args c cost v c' _ h
  unfold opAny at h
  split at h
  · cases h
  · rename_i cost0 r hl
    simp only [Except.ok.injEq, Prod.mk.injEq] at h
    obtain ⟨rfl, _, _⟩ := h
    rw [boolLoop_ok _ _ _ _ _ _ _ hl]
    simp only [Spec.Cost.opAny, Spec.Cost.BOOL_BASE, Spec.Cost.BOOL_PER_ARG, Gen.BOOL_BASE_COST, Gen.BOOL_COST_PER_ARG]

theorem cost_opAll : CostOK opAll Spec.Cost.opAll := by
  intro flags m args c cost v c' _ h
  unfold opAll at h
  split at h
  · cases h
  · rename_i cost0 r hl
    simp only [Except.ok.injEq, Prod.mk.injEq] at h
    obtain ⟨rfl, _, _⟩ := h
    rw [boolLoop_ok _ _ _ _ _ _ _ hl]
    simp only [Spec.Cost.opAll, Spec.Cost.BOOL_BASE, Spec.Cost.BOOL_PER_ARG, Gen.BOOL_BASE_COST, Gen.BOOL_COST_PER_ARG]

/-! ### concat -/

theorem concatLoop_ok (B : Nat) (l : List Val) (cost total : Nat) (terms : List Val)
    (cost' total' : Nat) (terms' : List Val)
    (h : concatLoop B l cost total terms = .ok (cost', total', terms')) :
    cost' = cost + 135 * l.length + 13 * Spec.Cost.sumLen l ∧ total' = total + Spec.Cost.sumLen l := by
  induction l generalizing cost total terms with
  | nil =>
    simp only [concatLoop] at h
    injection h with h; injection h with h1 h2; injection h2 with h2 _
    simp [← h1, ← h2, sumLen_nil]
  | cons a t ih =>
    cases a with
    | pair x y => simp [concatLoop] at h
    | atom b tg =>
      simp only [concatLoop] at h
      split at h
      · cases h
      · split at h
        · have := ih _ _ _ h
          simp only [List.length_cons, sumLen_cons, Spec.Cost.len, this.1, this.2,
            Gen.CONCAT_COST_PER_ARG, Gen.CONCAT_COST_PER_BYTE, Gen.MALLOC_COST_PER_BYTE]
          omega
        · have := ih _ _ _ h
          simp only [List.length_cons, sumLen_cons, Spec.Cost.len, this.1, this.2,
            Gen.CONCAT_COST_PER_ARG, Gen.CONCAT_COST_PER_BYTE, Gen.MALLOC_COST_PER_BYTE]
          omega

theorem newConcat_len (c : Ctr) (newSize : Nat) (nodes : List Val) (v : Val) (c' : Ctr)
    (h : newConcat c newSize nodes = .ok (v, c')) : Spec.Cost.len v = newSize := by
  unfold newConcat at h
  split at h
  · cases h
  · split at h
    · cases h
    · split at h
      · split at h
        · cases h
        · rename_i hz
          simp only [Except.ok.injEq, Prod.mk.injEq] at h
          obtain ⟨rfl, _⟩ := h
          have : newSize = 0 := by simpa using hz
          simp [this, Spec.Cost.len, Val.nil]
      · split at h
        · cases h
        · split at h
          · cases h
          · rename_i hz
            simp only [Except.ok.injEq, Prod.mk.injEq] at h
            obtain ⟨rfl, _⟩ := h
            simp only [Spec.Cost.len]
            simpa using hz
      · simp only at h
        split at h
        · cases h
        · split at h
          · cases h
          · rename_i hz
            simp only [Except.ok.injEq, Prod.mk.injEq] at h
            obtain ⟨rfl, _⟩ := h
            simp only [Spec.Cost.len]
            simpa using hz

theorem cost_opConcat : CostOK opConcat Spec.Cost.opConcat := by
  intro flags m args c cost v c' _ h
  unfold opConcat at h
  split at h
  · cases h
  · rename_i cost0 total terms hl
    split at h
    · cases h
    · rename_i v0 c1 hc
      simp only [Except.ok.injEq, Prod.mk.injEq] at h
      obtain ⟨rfl, rfl, _⟩ := h
      have h1 := concatLoop_ok _ _ _ _ _ _ _ _ hl
      have h2 := newConcat_len _ _ _ _ _ hc
      simp only [Spec.Cost.opConcat, Spec.Cost.malloc, h2, h1.1, h1.2, Spec.Cost.CONCAT_BASE,
        Spec.Cost.CONCAT_PER_ARG, Spec.Cost.CONCAT_PER_BYTE, Spec.Cost.MALLOC_PER_BYTE, Gen.CONCAT_BASE_COST]
      omega

/-! ### sha256 -/

theorem sha256Loop_ok (cpa cpb B : Nat) (l : List Val) (cost : Nat) (acc : Bytes) (cost' : Nat) (data : Bytes)
    (h : sha256Loop cpa cpb B l cost acc = .ok (cost', data)) :
    cost' = cost + cpa * l.length + cpb * Spec.Cost.sumLen l := by
  induction l generalizing cost acc with
  | nil => simp only [sha256Loop] at h; injection h with h; injection h with h1 _; simp [← h1, sumLen_nil]
  | cons a t ih =>
    simp only [sha256Loop] at h
    split at h
    · cases h
    · rename_i blob hb
      split at h
      · cases h
      · have := ih _ _ h
        rw [this, List.length_cons, sumLen_cons, ← atomBytes_ok _ _ _ hb, Nat.mul_add, Nat.mul_add]
        rw [Nat.mul_comm blob.length cpb]; omega

theorem newAtomAndCost_ok (c : Ctr) (cost : Nat) (buf : Bytes) (k : Nat) (v : Val) (c' : Ctr)
    (h : newAtomAndCost c cost buf = .ok (k, v, c')) :
    k = cost + Spec.Cost.malloc v := by
  unfold newAtomAndCost at h
  split at h
  · cases h
  · rename_i v0 c1 ha
    simp only [Except.ok.injEq, Prod.mk.injEq] at h
    obtain ⟨rfl, rfl, _⟩ := h
    rw [allocAtom_ok _ _ _ _ ha]
    simp [Spec.Cost.malloc, len_mkAtom, Spec.Cost.MALLOC_PER_BYTE, Gen.MALLOC_COST_PER_BYTE, Nat.mul_comm]

theorem precomputed_len : Gen.thPrecomputedHashes.length = 37 := by decide
theorem lenForValue_small : ∀ val, val < 37 → lenForValue val = if val > 0 then 1 else 0 := by
  decide +kernel

theorem isNilPtr_argList (v : Val) (h : v.isNilPtr = true) : argList v = [] := by
  cases v with
  | pair x y => simp [Val.isNilPtr] at h
  | atom b t => rfl

theorem matchArgs_ok (n : Nat) (args : Val) (l : List Val) (h : matchArgs n args = some l) :
    argList args = l := by
  unfold matchArgs at h
  simp only at h
  split at h
  · injection h
  · cases h

theorem cost_opSha256 (cfg : Cfg) : CostOK (opSha256 cfg) Spec.Cost.opSha256 := by
  intro flags m args c cost v c' hwf h
  unfold opSha256 at h
  have key : ∀ base cpa cpb : Nat,
      (if args.isNilPtr = true then newAtomAndCost c base (Hash.sha256 [])
        else
          match (if cfg.fastpath = true then
              match matchArgs 2 args with
              | some [v0, v1] =>
                if (smallNumber v0 == some 1) = true then
                  match smallNumber v1 with
                  | some val =>
                    if val < Gen.thPrecomputedHashes.length then
                      let numBytes := if val > 0 then 2 else 1
                      let cost := base + numBytes * cpb + 2 * cpa
                      some (match checkCost cost m with
                        | .error e => .error e
                        | .ok () => newAtomAndCost c cost (precomputedHash val))
                    else none
                  | none => none
                else none
              | _ => none
            else none : Option (Except Err (Nat × Val × Ctr))) with
          | some r => r
          | none =>
            match sha256Loop cpa cpb m (argList args) base [] with
            | .error e => .error e
            | .ok (cost, data) => newAtomAndCost c cost (Hash.sha256 data)) = .ok (cost, v, c') →
      cost = base + cpa * (argList args).length + cpb * Spec.Cost.sumLen (argList args) + Spec.Cost.malloc v := by
    intro base cpa cpb h
    split at h
    · rename_i hnil
      rw [isNilPtr_argList _ hnil, newAtomAndCost_ok _ _ _ _ _ _ h]
      simp [sumLen_nil]
    · split at h
      · rename_i r hfast
        split at hfast
        · split at hfast
          · rename_i v0 v1 hm
            have hl := matchArgs_ok _ _ _ hm
            have h0 : v0.wf = true := wf_argList args hwf v0 (by rw [hl]; simp)
            have h1 : v1.wf = true := wf_argList args hwf v1 (by rw [hl]; simp)
            split at hfast
            · rename_i hs0
              have hs0' : smallNumber v0 = some 1 := by simpa using hs0
              split at hfast
              · rename_i val hs1
                split at hfast
                · rename_i hval
                  injection hfast with hfast; subst hfast
                  split at h
                  · cases h
                  · rw [newAtomAndCost_ok _ _ _ _ _ _ h, hl]
                    have e0 := smallNumber_len v0 1 h0 hs0'
                    have e1 := smallNumber_len v1 val h1 hs1
                    rw [precomputed_len] at hval
                    rw [lenForValue_small val hval] at e1
                    have e0' : Spec.Cost.len v0 = 1 := by rw [← e0]; decide
                    simp only [sumLen_two, e0', ← e1, List.length_cons, List.length_nil]
                    split <;> simp <;> omega
                · cases hfast
              · cases hfast
            · cases hfast
          · cases hfast
        · cases hfast
      · split at h
        · cases h
        · rename_i cost0 data hloop
          rw [newAtomAndCost_ok _ _ _ _ _ _ h, sha256Loop_ok _ _ _ _ _ _ _ _ hloop]
  cases hnm : newModel flags
  · simp only [hnm, Bool.false_eq_true, if_false] at h
    rw [key _ _ _ h]
    simp only [Spec.Cost.opSha256, Bool.false_eq_true, if_false, Spec.Cost.SHA256_BASE, Spec.Cost.SHA256_PER_ARG,
      Spec.Cost.SHA256_PER_BYTE, Gen.SHA256_BASE_COST, Gen.SHA256_COST_PER_ARG, Gen.SHA256_COST_PER_BYTE]
  · simp only [hnm, if_true] at h
    rw [key _ _ _ h]
    simp only [Spec.Cost.opSha256, if_true, Spec.Cost.NEW_SHA256_BASE, Spec.Cost.NEW_SHA256_PER_ARG,
      Spec.Cost.NEW_SHA256_PER_BYTE, Gen.NEW_SHA256_BASE_COST, Gen.NEW_SHA256_COST_PER_ARG, Gen.NEW_SHA256_COST_PER_BYTE]

/-! ### logand, logior, logxor -/

theorem sumMax_nil (accs : List Int) : Spec.Cost.sumMax [] accs = 0 := by
  simp [Spec.Cost.sumMax, Spec.Cost.sum]

theorem sumMax_cons (a : Val) (t : List Val) (p : Int) (ps : List Int) :
    Spec.Cost.sumMax (a :: t) (p :: ps) = max (Spec.Cost.len a) (Spec.Cost.limbs p) + Spec.Cost.sumMax t ps := by
  simp [Spec.Cost.sumMax, Spec.Cost.sum]

theorem binopLoop_new (opName : String) (f : Int → Int → Int) (B : Nat) (l : List Val)
    (hwf : ∀ v ∈ l, v.wf = true) (cost : Nat) (pos neg : Int) (cost' : Nat) (total : Int)
    (h : binopLoop opName true f B l cost pos neg = .ok (cost', total)) :
    cost' = cost + 264 * l.length + 3 * Spec.Cost.sumMax l (Spec.Cost.partials f pos (l.map Spec.Cost.int)) := by
  induction l generalizing cost pos neg with
  | nil => simp only [binopLoop] at h; injection h with h; injection h with h1 _; simp [← h1, sumMax_nil]
  | cons a t ih =>
    have ha : a.wf = true := hwf a (by simp)
    have ht : ∀ v ∈ t, v.wf = true := fun v hv => hwf v (by simp [hv])
    simp only [binopLoop] at h
    split at h
    · cases h
    · rename_i n0 len hint
      simp only [if_true] at h
      split at h
      · cases h
      · have := ih ht _ _ _ h
        obtain ⟨hlen, hn0⟩ := intAtom_ok _ _ _ _ ha hint
        rw [this, List.map_cons, Spec.Cost.partials, sumMax_cons, List.length_cons, hlen, hn0, limbs_eq]
        simp only [Gen.LOG_COST_PER_BYTE, Gen.LOG_COST_PER_ARG]
        omega

theorem binopLoop_old (opName : String) (f : Int → Int → Int) (B : Nat) (l : List Val)
    (hwf : ∀ v ∈ l, v.wf = true) (cost : Nat) (pos neg : Int) (cost' : Nat) (total : Int)
    (h : binopLoop opName false f B l cost pos neg = .ok (cost', total)) :
    cost' = cost + 264 * l.length + 3 * Spec.Cost.sumLen l := by
  induction l generalizing cost pos neg with
  | nil => simp only [binopLoop] at h; injection h with h; injection h with h1 _; simp [← h1, sumLen_nil]
  | cons a t ih =>
    have ha : a.wf = true := hwf a (by simp)
    have ht : ∀ v ∈ t, v.wf = true := fun v hv => hwf v (by simp [hv])
    simp only [binopLoop] at h
    split at h
    · cases h
    · rename_i n0 len hint
      simp only [Bool.false_eq_true, if_false] at h
      split at h
      · cases h
      · have := ih ht _ _ _ h
        obtain ⟨hlen, _⟩ := intAtom_ok _ _ _ _ ha hint
        rw [this, sumLen_cons, List.length_cons, hlen]
        simp only [Gen.LOG_COST_PER_BYTE, Gen.LOG_COST_PER_ARG]
        omega

theorem cost_binopReduction (opName : String) (init : Int) (f : Int → Int → Int) :
    CostOK (binopReduction opName init f) (Spec.Cost.opLog f init) := by
  intro flags m args c cost v c' hwf h
  unfold binopReduction at h
  split at h
  · cases h
  · rename_i cost0 total hl
    split at h
    · cases h
    · rename_i v0 c1 halloc
      simp only [Except.ok.injEq, Prod.mk.injEq] at h
      obtain ⟨rfl, rfl, _⟩ := h
      rw [allocNumber_ok _ _ _ _ halloc, mallocCost_mkAtom]
      have hw := wf_argList args hwf
      cases hnm : newModel flags
      · rw [hnm] at hl
        rw [binopLoop_old _ _ _ _ hw _ _ _ _ _ hl]
        simp only [Spec.Cost.opLog, Bool.false_eq_true, if_false, Spec.Cost.LOG_BASE, Spec.Cost.LOG_PER_ARG,
          Spec.Cost.LOG_PER_BYTE, Gen.LOG_BASE_COST]
      · rw [hnm] at hl
        rw [binopLoop_new _ _ _ _ hw _ _ _ _ _ hl]
        simp only [Spec.Cost.opLog, if_true, Spec.Cost.logAccs, Spec.Cost.LOG_BASE, Spec.Cost.LOG_PER_ARG,
          Spec.Cost.LOG_PER_BYTE, Gen.LOG_BASE_COST]

theorem cost_opLogand : CostOK opLogand (Spec.Cost.opLog intAnd (-1)) := cost_binopReduction _ _ _
theorem cost_opLogior : CostOK opLogior (Spec.Cost.opLog intOr 0) := cost_binopReduction _ _ _
theorem cost_opLogxor : CostOK opLogxor (Spec.Cost.opLog intXor 0) := cost_binopReduction _ _ _

end Clvm.Interp
