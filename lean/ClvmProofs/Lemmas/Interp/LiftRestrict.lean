/-
C07, machine level: restriction flags only remove successes; RELAXED_BLS only adds them.

Generic part: `DialectLe d1 d2` ("`d1` is at least as restrictive as `d2`": same keywords, every
successful operator call / integer read / softfork-argument parse of `d1` is the same success in
`d2`, an unknown guard accepted by `d1` is an unknown guard accepted by `d2`) implies that every
successful `run_program` under `d1` is the identical success under `d2` (`runProgram_le`): the two
runs go through identical machine states.

Instances for `ChiaDialect::new`: `eval_restrict_partial` (outside the region of known finding K),
`mempool_implies_consensus`, `eval_relaxed`.
-/
import ClvmProofs.Lemmas.Interp.LiftCore
import ClvmProofs.Lemmas.Interp.FlagsDispatch
import ClvmProofs.Lemmas.Interp.MachineAgree

namespace Clvm.Interp
open Clvm Clvm.Alloc

/-- `d1` is at least as restrictive as `d2` -/
structure DialectLe (d1 d2 : Dialect) : Prop where
  quoteKw : d1.quoteKw = d2.quoteKw
  applyKw : d1.applyKw = d2.applyKw
  softforkKw : d1.softforkKw = d2.softforkKw
  gcCandidate : d1.gcCandidate = d2.gcCandidate
  newCostModel : hasFlag d1.flags Gen.FLAG_NEW_COST_MODEL = hasFlag d2.flags Gen.FLAG_NEW_COST_MODEL
  uint : ∀ (v : Val) (r : Nat), uintAtom 8 v "softfork" d1.flags = .ok r → uintAtom 8 v "softfork" d2.flags = .ok r
  parseOk : ∀ (ol : Val) (x : OperatorSet × Val × Val),
    parseSoftforkArguments d1 ol = .ok x → parseSoftforkArguments d2 ol = .ok x
  parseErr : ∀ (ol : Val) (err : Err), parseSoftforkArguments d1 ol = .error err → d1.allowUnknownOps = true →
    d2.allowUnknownOps = true ∧ ∃ err', parseSoftforkArguments d2 ol = .error err'
  limitSoftfork : hasFlag d2.flags Gen.FLAG_LIMIT_SOFTFORK = true → hasFlag d1.flags Gen.FLAG_LIMIT_SOFTFORK = true
  op : ∀ (o args : Val) (m : Nat) (ext : OperatorSet) (c : Ctr) (r : Nat × Val × Ctr),
    d1.op o args m ext c = some (.ok r) → d2.op o args m ext c = some (.ok r)

theorem applyBody_le {cfg : Cfg} {d1 d2 : Dialect} (hd : DialectLe d1 d2) {s s' : MState} {ol o : Val}
    {cc mc c : Nat} (h : applyBody cfg d1 s ol o cc mc = .ok (c, s')) :
    applyBody cfg d2 s ol o cc mc = .ok (c, s') := by
  unfold applyBody at h ⊢
  rw [← hd.applyKw, ← hd.softforkKw]
  split
  · rename_i hk
    rw [if_pos hk] at h
    unfold applyApply at h ⊢
    simp only [← evalPair_kw hd.quoteKw hd.gcCandidate]
    exact h
  · rename_i hk
    rw [if_neg hk] at h
    split
    · rename_i hk2
      rw [if_pos hk2] at h
      unfold applySoftfork at h ⊢
      obtain ⟨f, hf, h⟩ := M_bind_ok h
      obtain ⟨ec, hec, h⟩ := M_bind_ok h
      rw [M_bind_eq hf, M_bind_eq (liftE_of_ok (hd.uint f ec (liftE_ok hec)))]
      split at h
      · cases h
      · rename_i h1
        rw [if_neg h1]
        split at h
        · cases h
        · rename_i h2
          rw [if_neg h2]
          split at h
          · rename_i err hperr
            split at h
            · rename_i hallow
              obtain ⟨hallow2, err', hperr2⟩ := hd.parseErr ol err hperr hallow
              simp only [hperr2, hallow2, if_true]
              exact h
            · cases h
          · rename_i ext prg env hparse
            simp only [hd.parseOk ol _ hparse]
            split at h
            · cases h
            · rename_i hlim
              have hlim2 : ¬ ((hasFlag d2.flags Gen.FLAG_LIMIT_SOFTFORK &&
                  decide (s.softforkStack.length ≥ Gen.softforkNestingLimit)) = true) := by
                intro hh
                apply hlim
                simp only [Bool.and_eq_true] at hh ⊢
                exact ⟨hd.limitSoftfork hh.1, hh.2⟩
              rw [if_neg hlim2]
              have hgc : guardCost d1 = guardCost d2 := by unfold guardCost; rw [hd.newCostModel]
              simp only [← evalPair_kw hd.quoteKw hd.gcCandidate, ← hgc]
              exact h
    · rename_i hk2
      rw [if_neg hk2] at h
      unfold applyOrdinary at h ⊢
      split at h
      · cases h
      · cases h
      · rename_i cost v c' hop
        simp only [hd.op _ _ _ _ _ _ hop]
        exact h

theorem stepOp_le {cfg : Cfg} {d1 d2 : Dialect} (hd : DialectLe d1 d2) {s s' : MState} {op : Operation}
    {cost em c : Nat} (h : stepOp cfg d1 s op cost em = .ok (c, s')) :
    stepOp cfg d2 s op cost em = .ok (c, s') := by
  cases op with
  | Apply =>
    simp only [stepOp] at h ⊢
    match hvs : s.valStack, hes : s.envStack with
    | [], _ => simp [applyOp, MState.pop, hvs, bind, Except.bind] at h
    | [_], _ => simp [applyOp, MState.pop, hvs, bind, Except.bind] at h
    | _ :: _ :: _, [] => simp [applyOp, MState.pop, hvs, hes, bind, Except.bind] at h
    | ol :: o :: vals, e0 :: envs =>
      rw [applyOp_eq cfg _ s _ _ hvs hes] at h ⊢
      exact applyBody_le hd h
  | ExitGuard => exact h
  | Cons => exact h
  | SwapEval => simp only [stepOp] at h ⊢; rw [← swapEvalOp_kw hd.quoteKw hd.gcCandidate]; exact h
  | RestoreAllocator => exact h

theorem runLoop_le {cfg : Cfg} {d1 d2 : Dialect} (hd : DialectLe d1 d2) (mc : Nat) (fuel : Nat) :
    ∀ (s : MState) (cost : Nat) (r : Nat × MState),
      runLoop cfg d1 mc fuel s cost = some (.ok r) → runLoop cfg d2 mc fuel s cost = some (.ok r) := by
  induction fuel with
  | zero => intro s cost r h; simp [runLoop_zero] at h
  | succ n ih =>
    intro s cost r h
    rw [runLoop_succ] at h ⊢
    unfold loopBody at h ⊢
    split at h
    · cases h
    · rename_i hc
      rw [if_neg hc]
      split at h
      · exact h
      · rename_i op ops hop
        split at h
        · cases h
        · rename_i c s1 hst
          simp only [stepOp_le hd hst]
          exact ih s1 _ r h

/-- **lifting**: a successful run under the more restrictive dialect is the identical success
(cost, value, counters) under the less restrictive one -/
theorem runProgram_le {cfg : Cfg} {d1 d2 : Dialect} (hd : DialectLe d1 d2) (fuel : Nat) (c0 : Ctr) (p e : Val)
    (M : Nat) (r : Nat × Val × Ctr) (h : runProgram cfg d1 fuel c0 p e M = some (.ok r)) :
    runProgram cfg d2 fuel c0 p e M = some (.ok r) := by
  obtain ⟨C, v, c⟩ := r
  obtain ⟨c1, cost0, s0, sF, vs, h1, h2, h3, h4, h5⟩ := runProgram_ok_iff.1 h
  refine runProgram_ok_iff.2 ⟨c1, cost0, s0, sF, vs, h1, ?_, runLoop_le hd _ fuel s0 cost0 _ h3, h4, h5⟩
  rw [← evalPair_kw hd.quoteKw hd.gcCandidate]; exact h2

/-! ### `ChiaDialect::new`: bit arithmetic of the `LIMITS` normalisation -/

theorem hasFlag_pow (X k : Nat) : hasFlag X (2 ^ k) = X.testBit k := by
  unfold hasFlag
  cases h : X.testBit k
  · have : X &&& 2 ^ k = 0 := by
      apply Nat.eq_of_testBit_eq
      intro i
      rw [Nat.testBit_and, Nat.testBit_two_pow, Nat.zero_testBit]
      by_cases hi : k = i
      · subst hi; simp [h]
      · simp [hi]
    simp [this]
  · have : (X &&& 2 ^ k).testBit k = true := by
      rw [Nat.testBit_and, Nat.testBit_two_pow, h]; simp
    have hne : X &&& 2 ^ k ≠ 0 := by
      intro h0; rw [h0, Nat.zero_testBit] at this; cases this
    simpa using hne

theorem testBit_sub_bit (X k : Nat) (h : X.testBit k = true) (j : Nat) :
    (X - 2 ^ k).testBit j = (X.testBit j && !(j == k)) := by
  have hd : X / 2 ^ k % 2 = 1 := by simpa [Nat.testBit_eq_decide_div_mod_eq] using h
  have hp : 0 < 2 ^ k := Nat.two_pow_pos k
  have hx : X = 2 ^ (k + 1) * (X / 2 ^ (k + 1)) + (2 ^ k + X % 2 ^ k) := by
    have h1 := Nat.div_add_mod X (2 ^ k)
    have h2 := Nat.div_add_mod (X / 2 ^ k) 2
    have h3 : X / 2 ^ (k + 1) = X / 2 ^ k / 2 := by rw [Nat.pow_succ, Nat.div_div_eq_div_mul]
    rw [h3, Nat.pow_succ]
    generalize X / 2 ^ k = q at *
    generalize 2 ^ k = P at *
    have : P * 2 * (q / 2) = P * (2 * (q / 2)) := by rw [Nat.mul_assoc]
    rw [this]
    have h4 : 2 * (q / 2) = q - 1 := by omega
    rw [h4]
    have : P * (q - 1) = P * q - P := by rw [Nat.mul_sub, Nat.mul_one]
    have h5 : P ≤ P * q := Nat.le_mul_of_pos_right _ (by omega)
    omega
  have hlt : X % 2 ^ k < 2 ^ k := Nat.mod_lt _ hp
  have hy : X - 2 ^ k = 2 ^ (k + 1) * (X / 2 ^ (k + 1)) + X % 2 ^ k := by omega
  have hb1 : 2 ^ k + X % 2 ^ k < 2 ^ (k + 1) := by rw [Nat.pow_succ]; omega
  have hb2 : X % 2 ^ k < 2 ^ (k + 1) := by rw [Nat.pow_succ]; omega
  rw [hy]
  conv => rhs; rw [hx]
  rw [Nat.testBit_two_pow_mul_add _ hb1, Nat.testBit_two_pow_mul_add _ hb2]
  by_cases hj : j < k + 1
  · simp only [hj, if_true]
    by_cases hjk : j = k
    · subst hjk
      rw [Nat.testBit_two_pow_add_eq, Nat.testBit_lt_two_pow hlt]; simp
    · have : j < k := by omega
      rw [Nat.testBit_two_pow_add_gt this]
      have : (j == k) = false := by simpa using hjk
      simp [this]
  · simp only [hj, if_false]
    have : (j == k) = false := by simp; omega
    simp [this]

/-- the flags `ChiaDialect::new(F)` keeps: `LIMITS` is removed under `NEW_COST_MODEL` -/
def normFlags (F : Nat) : Nat :=
  if hasFlag F Gen.FLAG_NEW_COST_MODEL && hasFlag F Gen.FLAG_LIMITS then F - Gen.FLAG_LIMITS else F

theorem chiaDialect_flags (cfg : Cfg) (extra : String → Option OpFn) (F : Nat) :
    (chiaDialect cfg extra F).flags = normFlags F := rfl

theorem testBit_normFlags (F j : Nat) :
    (normFlags F).testBit j = (F.testBit j && !(j == 6 && F.testBit 13)) := by
  unfold normFlags
  have h13 : Gen.FLAG_NEW_COST_MODEL = 2 ^ 13 := by decide
  have h6 : Gen.FLAG_LIMITS = 2 ^ 6 := by decide
  rw [h13, h6, hasFlag_pow, hasFlag_pow]
  cases hn : F.testBit 13
  · simp
  · cases hl : F.testBit 6
    · simp only [Bool.and_false, Bool.false_eq_true, ↓reduceIte, Bool.and_true]
      by_cases hj : j = 6
      · subst hj; simp [hl]
      · have : (j == 6) = false := by simpa using hj
        simp [this]
    · simp only [Bool.and_self, ↓reduceIte, Bool.and_true]
      exact testBit_sub_bit F 6 hl j

theorem hasFlag_normFlags (F k : Nat) (hk : k ≠ 6) : hasFlag (normFlags F) (2 ^ k) = hasFlag F (2 ^ k) := by
  rw [hasFlag_pow, hasFlag_pow, testBit_normFlags]
  have : (k == 6) = false := by simpa using hk
  simp [this]

/-- clear bit 6 -/
def clrLimits (R : Nat) : Nat := if R.testBit 6 then R - 2 ^ 6 else R

theorem testBit_clrLimits (R j : Nat) : (clrLimits R).testBit j = (R.testBit j && !(j == 6)) := by
  unfold clrLimits
  cases h : R.testBit 6
  · simp only [Bool.false_eq_true, ↓reduceIte]
    by_cases hj : j = 6
    · subst hj; simp [h]
    · have : (j == 6) = false := by simpa using hj
      simp [this]
  · simp only [↓reduceIte]
    exact testBit_sub_bit R 6 h j

theorem restr_testBit {R : Nat} (hR : R &&& restrictionBits = R) (j : Nat) (h : R.testBit j = true) :
    restrictionBits.testBit j = true := by
  have := congrArg (fun x => x.testBit j) hR
  simp only [Nat.testBit_and, h, Bool.true_and] at this
  exact this

/-- the normalisation commutes with adding restriction flags, up to the restriction set -/
theorem normFlags_restrict (F R : Nat) (hR : R &&& restrictionBits = R) :
    ∃ R', R' &&& restrictionBits = R' ∧ normFlags (F ||| R) = normFlags F ||| R' := by
  have hR13 : R.testBit 13 = false := by
    cases h : R.testBit 13
    · rfl
    · have := restr_testBit hR 13 h
      revert this; decide
  refine ⟨if F.testBit 13 then clrLimits R else R, ?_, ?_⟩
  · apply Nat.eq_of_testBit_eq
    intro j
    rw [Nat.testBit_and]
    cases hj : (if F.testBit 13 = true then clrLimits R else R).testBit j
    · rfl
    · have hRj : R.testBit j = true := by
        split at hj
        · rw [testBit_clrLimits] at hj; simp at hj; exact hj.1
        · exact hj
      rw [restr_testBit hR j hRj]; rfl
  · apply Nat.eq_of_testBit_eq
    intro j
    rw [testBit_normFlags, Nat.testBit_or, Nat.testBit_or, Nat.testBit_or, testBit_normFlags, hR13]
    cases h13 : F.testBit 13
    · simp
    · simp only [Bool.or_false, Bool.and_true, ↓reduceIte, testBit_clrLimits]
      cases F.testBit j <;> cases R.testBit j <;> cases (j == 6) <;> rfl

theorem normFlags_relaxed (F : Nat) : normFlags (F ||| Gen.FLAG_RELAXED_BLS) = normFlags F ||| Gen.FLAG_RELAXED_BLS := by
  have h3 : Gen.FLAG_RELAXED_BLS = 2 ^ 3 := by decide
  rw [h3]
  apply Nat.eq_of_testBit_eq
  intro j
  rw [testBit_normFlags, Nat.testBit_or, Nat.testBit_or, Nat.testBit_or, testBit_normFlags, Nat.testBit_two_pow]
  have e13 : (2 ^ 3 : Nat).testBit 13 = false := by decide
  rw [e13]
  by_cases hj : 3 = j
  · subst hj; simp
  · simp [hj]

/-! ### `uint_atom`: a canonical read is the same lenient read -/

theorem stripZeros_of_ne {b0 : UInt8} {rest : Bytes} (h : (b0.toNat == 0) = false) :
    stripZeros (b0 :: rest) = b0 :: rest := by
  simp [stripZeros, h]

theorem uintAtom_mono {size : Nat} {v : Val} {name : String} {f1 f2 : Flags} {r : Nat}
    (hf : hasFlag f2 Gen.FLAG_CANONICAL_INTS = true → hasFlag f1 Gen.FLAG_CANONICAL_INTS = true)
    (h : uintAtom size v name f1 = .ok r) : uintAtom size v name f2 = .ok r := by
  cases h2 : hasFlag f2 Gen.FLAG_CANONICAL_INTS
  · cases h1 : hasFlag f1 Gen.FLAG_CANONICAL_INTS
    · rw [uintAtom_flags size v name f2 f1 (by rw [h1, h2])]; exact h
    · -- canonical success ⇒ lenient success with the same bytes
      unfold uintAtom at h ⊢
      cases hn : node v with
      | pair l r' => rw [hn] at h; cases h
      | u32 x => rw [hn] at h; exact h
      | buffer bytes =>
        rw [hn] at h
        cases bytes with
        | nil => exact h
        | cons b0 rest =>
          simp only [h1, h2, Bool.false_eq_true, ↓reduceIte] at h ⊢
          split at h
          · cases h
          · rename_i hneg
            rw [if_neg hneg]
            by_cases h0 : (b0.toNat == 0) = true
            · simp only [h0, if_true] at h
              cases rest with
              | nil => cases h
              | cons b1 tl =>
                simp only at h
                by_cases hb1 : (b1.toNat &&& 0x80 == 0) = true
                · simp only [hb1, if_true] at h; cases h
                · simp only [hb1, Bool.false_eq_true, ↓reduceIte] at h
                  have hb1nz : (b1.toNat == 0) = false := by
                    cases hz : (b1.toNat == 0)
                    · rfl
                    · exfalso; apply hb1
                      have : b1.toNat = 0 := by simpa using hz
                      rw [this]; rfl
                  have : stripZeros (b0 :: b1 :: tl) = b1 :: tl := by
                    simp only [stripZeros, h0, if_true]
                    exact stripZeros_of_ne hb1nz
                  rw [this]; exact h
            · have h0' : (b0.toNat == 0) = false := by simpa using h0
              simp only [h0', Bool.false_eq_true, ↓reduceIte] at h
              rw [stripZeros_of_ne h0']; exact h
  · rw [uintAtom_flags size v name f2 f1 (by rw [hf h2, h2])]; exact h

/-! ### the instances -/

theorem parse_chia_eq {cfg : Cfg} {extra : String → Option OpFn} {F G : Nat}
    (hc : hasFlag (normFlags F) Gen.FLAG_CANONICAL_INTS = hasFlag (normFlags G) Gen.FLAG_CANONICAL_INTS)
    (hn : hasFlag (normFlags F) Gen.FLAG_NEW_COST_MODEL = hasFlag (normFlags G) Gen.FLAG_NEW_COST_MODEL)
    (ol : Val) :
    parseSoftforkArguments (chiaDialect cfg extra F) ol = parseSoftforkArguments (chiaDialect cfg extra G) ol := by
  unfold parseSoftforkArguments
  cases getArgs4 ol "softfork" with
  | error e => rfl
  | ok q =>
    obtain ⟨a1, a2, a3, a4⟩ := q
    simp only [chiaDialect_flags]
    rw [uintAtom_flags 4 a2 "softfork" _ _ hc]
    have : (chiaDialect cfg extra F).softforkExtension = (chiaDialect cfg extra G).softforkExtension := by
      funext x
      show (if hasFlag (normFlags F) Gen.FLAG_NEW_COST_MODEL = true then _ else _) =
        (if hasFlag (normFlags G) Gen.FLAG_NEW_COST_MODEL = true then _ else _)
      rw [hn]
    rw [this]

theorem parse_chia_mono {cfg : Cfg} {extra : String → Option OpFn} {F G : Nat}
    (hc : hasFlag (normFlags G) Gen.FLAG_CANONICAL_INTS = true → hasFlag (normFlags F) Gen.FLAG_CANONICAL_INTS = true)
    (hn : hasFlag (normFlags F) Gen.FLAG_NEW_COST_MODEL = hasFlag (normFlags G) Gen.FLAG_NEW_COST_MODEL)
    (ol : Val) (x : OperatorSet × Val × Val)
    (h : parseSoftforkArguments (chiaDialect cfg extra F) ol = .ok x) :
    parseSoftforkArguments (chiaDialect cfg extra G) ol = .ok x := by
  unfold parseSoftforkArguments at h ⊢
  cases hg : getArgs4 ol "softfork" with
  | error e => rw [hg] at h; cases h
  | ok q =>
    obtain ⟨a1, a2, a3, a4⟩ := q
    rw [hg] at h
    simp only [chiaDialect_flags] at h ⊢
    cases hu : uintAtom 4 a2 "softfork" (normFlags F) with
    | error e => rw [hu] at h; cases h
    | ok ext =>
      rw [hu] at h
      rw [uintAtom_mono hc hu]
      have : (chiaDialect cfg extra F).softforkExtension = (chiaDialect cfg extra G).softforkExtension := by
        funext x
        show (if hasFlag (normFlags F) Gen.FLAG_NEW_COST_MODEL = true then _ else _) =
          (if hasFlag (normFlags G) Gen.FLAG_NEW_COST_MODEL = true then _ else _)
        rw [hn]
      rw [← this]; exact h

theorem gcCandidate_chia_eq {cfg : Cfg} {extra : String → Option OpFn} {F G : Nat}
    (hg : hasFlag (normFlags F) Gen.FLAG_ENABLE_GC = hasFlag (normFlags G) Gen.FLAG_ENABLE_GC) :
    (chiaDialect cfg extra F).gcCandidate = (chiaDialect cfg extra G).gcCandidate := by
  funext op
  show (if (!hasFlag (normFlags F) Gen.FLAG_ENABLE_GC) = true then _ else _) =
    (if (!hasFlag (normFlags G) Gen.FLAG_ENABLE_GC) = true then _ else _)
  rw [hg]

theorem nf_flag (F : Nat) :
    hasFlag (normFlags F) Gen.FLAG_CANONICAL_INTS = hasFlag F Gen.FLAG_CANONICAL_INTS ∧
    hasFlag (normFlags F) Gen.FLAG_NO_UNKNOWN_OPS = hasFlag F Gen.FLAG_NO_UNKNOWN_OPS ∧
    hasFlag (normFlags F) Gen.FLAG_LIMIT_SOFTFORK = hasFlag F Gen.FLAG_LIMIT_SOFTFORK ∧
    hasFlag (normFlags F) Gen.FLAG_ENABLE_GC = hasFlag F Gen.FLAG_ENABLE_GC ∧
    hasFlag (normFlags F) Gen.FLAG_NEW_COST_MODEL = hasFlag F Gen.FLAG_NEW_COST_MODEL ∧
    hasFlag (normFlags F) Gen.FLAG_ENABLE_KECCAK_OPS_OUTSIDE_GUARD = hasFlag F Gen.FLAG_ENABLE_KECCAK_OPS_OUTSIDE_GUARD :=
  ⟨hasFlag_normFlags F 0 (by decide), hasFlag_normFlags F 1 (by decide), hasFlag_normFlags F 4 (by decide),
   hasFlag_normFlags F 5 (by decide), hasFlag_normFlags F 13 (by decide), hasFlag_normFlags F 8 (by decide)⟩

/-- `ChiaDialect::new(F ∪ R)` is at least as restrictive as `ChiaDialect::new(F)`, outside the
region of finding K: either `R` does not add `CANONICAL_INTS`, or unknown operators (hence unknown
softfork guards) are rejected anyway -/
theorem chiaDialect_le (cfg : Cfg) (extra : String → Option OpFn)
    (hextra : ∀ name f, extra name = some f → OpRestrict f) (F R : Nat) (hR : R &&& restrictionBits = R)
    (hK : hasFlag R Gen.FLAG_CANONICAL_INTS = false ∨ hasFlag (F ||| R) Gen.FLAG_NO_UNKNOWN_OPS = true) :
    DialectLe (chiaDialect cfg extra (F ||| R)) (chiaDialect cfg extra F) := by
  obtain ⟨c1, u1, l1, g1, n1, _⟩ := nf_flag (F ||| R)
  obtain ⟨c2, u2, l2, g2, n2, _⟩ := nf_flag F
  have hn : hasFlag (normFlags (F ||| R)) Gen.FLAG_NEW_COST_MODEL = hasFlag (normFlags F) Gen.FLAG_NEW_COST_MODEL := by
    rw [n1, n2, hasFlag_or, restr_newCostModel hR, Bool.or_false]
  have hg : hasFlag (normFlags (F ||| R)) Gen.FLAG_ENABLE_GC = hasFlag (normFlags F) Gen.FLAG_ENABLE_GC := by
    rw [g1, g2, hasFlag_or, restr_enableGc hR, Bool.or_false]
  have hc : hasFlag (normFlags F) Gen.FLAG_CANONICAL_INTS = true →
      hasFlag (normFlags (F ||| R)) Gen.FLAG_CANONICAL_INTS = true := by
    rw [c1, c2, hasFlag_or]; intro h; rw [h]; rfl
  refine
    { quoteKw := rfl, applyKw := rfl, softforkKw := rfl
      gcCandidate := gcCandidate_chia_eq hg
      newCostModel := hn
      uint := fun v r h => uintAtom_mono hc h
      parseOk := fun ol x h => parse_chia_mono hc hn ol x h
      parseErr := ?_
      limitSoftfork := ?_
      op := ?_ }
  · intro ol err hperr hallow
    have hallow1 : hasFlag (F ||| R) Gen.FLAG_NO_UNKNOWN_OPS = false := by
      have : (!hasFlag (normFlags (F ||| R)) Gen.FLAG_NO_UNKNOWN_OPS) = true := hallow
      rw [u1] at this
      simpa using this
    have hcR : hasFlag R Gen.FLAG_CANONICAL_INTS = false := by
      rcases hK with h | h
      · exact h
      · rw [hallow1] at h; cases h
    have hF : hasFlag F Gen.FLAG_NO_UNKNOWN_OPS = false := by
      rw [hasFlag_or] at hallow1
      cases hh : hasFlag F Gen.FLAG_NO_UNKNOWN_OPS
      · rfl
      · rw [hh] at hallow1; cases hallow1
    constructor
    · show (!hasFlag (normFlags F) Gen.FLAG_NO_UNKNOWN_OPS) = true
      rw [u2, hF]; rfl
    · refine ⟨err, ?_⟩
      rw [← parse_chia_eq (F := F ||| R) (G := F) ?_ hn]
      · exact hperr
      · rw [c1, c2, hasFlag_or, hcR, Bool.or_false]
  · intro h
    show hasFlag (normFlags (F ||| R)) Gen.FLAG_LIMIT_SOFTFORK = true
    have h' : hasFlag (normFlags F) Gen.FLAG_LIMIT_SOFTFORK = true := h
    rw [l1, hasFlag_or]; rw [l2] at h'; rw [h']; rfl
  · intro o args m ext c r h
    obtain ⟨R', hR', hnf⟩ := normFlags_restrict F R hR
    have h' : chiaOp cfg extra (normFlags (F ||| R)) o args m ext c = some (.ok r) := h
    rw [hnf] at h'
    exact chiaOp_restrict cfg extra hextra (normFlags F) R' hR' o args m ext c r h'

/-- **C07, `eval_restrict_partial`.**  For `ChiaDialect::new`, every flag set `F`, every set `R` of
restriction flags (NO_UNKNOWN_OPS, CANONICAL_INTS, DISABLE_OP, LIMIT_SOFTFORK, LIMITS, LIMIT_HEAP)
such that `R` does not add CANONICAL_INTS **or** `F ∪ R` contains NO_UNKNOWN_OPS: a program that
succeeds under `F ∪ R` succeeds under `F` with the same cost, value and allocator counters — for
every program, environment, budget, initial counters and fuel.  What is missing for the full
statement is exactly the region of known finding K (CANONICAL_INTS added in lenient mode turns a
guard with a non-canonical extension argument into an unknown guard): there the statement is false
(`evalRestrict_witness`). -/
theorem eval_restrict_partial (cfg : Cfg) (extra : String → Option OpFn)
    (hextra : ∀ name f, extra name = some f → OpRestrict f) (F R : Nat) (hR : R &&& restrictionBits = R)
    (hK : hasFlag R Gen.FLAG_CANONICAL_INTS = false ∨ hasFlag (F ||| R) Gen.FLAG_NO_UNKNOWN_OPS = true)
    (fuel : Nat) (c0 : Ctr) (prog env : Val) (m : Nat) (r : Nat × Val × Ctr)
    (h : runProgram cfg (chiaDialect cfg extra (F ||| R)) fuel c0 prog env m = some (.ok r)) :
    runProgram cfg (chiaDialect cfg extra F) fuel c0 prog env m = some (.ok r) :=
  runProgram_le (chiaDialect_le cfg extra hextra F R hR hK) fuel c0 prog env m r h

/-- **C07, `mempool_implies_consensus`.**  Whatever a program does successfully under
`F ∪ MEMPOOL_MODE` it does identically under the consensus flags `F` (MEMPOOL_MODE contains
NO_UNKNOWN_OPS, so finding K does not apply). -/
theorem mempool_implies_consensus (cfg : Cfg) (extra : String → Option OpFn)
    (hextra : ∀ name f, extra name = some f → OpRestrict f) (F : Nat)
    (fuel : Nat) (c0 : Ctr) (prog env : Val) (m : Nat) (r : Nat × Val × Ctr)
    (h : runProgram cfg (chiaDialect cfg extra (F ||| Gen.MEMPOOL_MODE)) fuel c0 prog env m = some (.ok r)) :
    runProgram cfg (chiaDialect cfg extra F) fuel c0 prog env m = some (.ok r) :=
  eval_restrict_partial cfg extra hextra F Gen.MEMPOOL_MODE (by decide)
    (Or.inr (by rw [hasFlag_or]; have : hasFlag Gen.MEMPOOL_MODE Gen.FLAG_NO_UNKNOWN_OPS = true := by decide
                rw [this, Bool.or_true])) fuel c0 prog env m r h

/-- `ChiaDialect::new(F)` is at least as restrictive as `ChiaDialect::new(F ∪ RELAXED_BLS)` -/
theorem chiaDialect_relaxed_le (cfg : Cfg) (extra : String → Option OpFn)
    (hextra : ∀ name f, extra name = some f → OpRelax f) (F : Nat) :
    DialectLe (chiaDialect cfg extra F) (chiaDialect cfg extra (F ||| Gen.FLAG_RELAXED_BLS)) := by
  have hb : ∀ b, Gen.FLAG_RELAXED_BLS &&& b = 0 →
      hasFlag (normFlags F) b = hasFlag (normFlags (F ||| Gen.FLAG_RELAXED_BLS)) b := by
    intro b hb
    rw [normFlags_relaxed, hasFlag_or_relaxed _ _ hb]
  have hn := hb Gen.FLAG_NEW_COST_MODEL (by decide)
  have hc := hb Gen.FLAG_CANONICAL_INTS (by decide)
  refine
    { quoteKw := rfl, applyKw := rfl, softforkKw := rfl
      gcCandidate := gcCandidate_chia_eq (hb _ (by decide))
      newCostModel := hn
      uint := fun v r h => uintAtom_mono (fun h' => by rw [chiaDialect_flags] at h' ⊢; rw [hc]; exact h') h
      parseOk := fun ol x h => parse_chia_mono (fun h' => by rw [hc]; exact h') hn ol x h
      parseErr := ?_
      limitSoftfork := ?_
      op := ?_ }
  · intro ol err hperr hallow
    constructor
    · show (!hasFlag (normFlags (F ||| Gen.FLAG_RELAXED_BLS)) Gen.FLAG_NO_UNKNOWN_OPS) = true
      rw [← hb _ (by decide)]; exact hallow
    · exact ⟨err, by rw [← parse_chia_eq hc hn]; exact hperr⟩
  · intro h
    show hasFlag (normFlags F) Gen.FLAG_LIMIT_SOFTFORK = true
    rw [hb _ (by decide)]; exact h
  · intro o args m ext c r h
    show chiaOp cfg extra (normFlags (F ||| Gen.FLAG_RELAXED_BLS)) o args m ext c = some (.ok r)
    rw [normFlags_relaxed]
    exact chiaOp_relax cfg extra hextra (normFlags F) o args m ext c r h

/-- **C07, `eval_relaxed`.**  Adding RELAXED_BLS never turns a success into a failure nor changes
it: a program that succeeds under `F` succeeds identically under `F ∪ RELAXED_BLS`. -/
theorem eval_relaxed (cfg : Cfg) (extra : String → Option OpFn)
    (hextra : ∀ name f, extra name = some f → OpRelax f) (F : Nat)
    (fuel : Nat) (c0 : Ctr) (prog env : Val) (m : Nat) (r : Nat × Val × Ctr)
    (h : runProgram cfg (chiaDialect cfg extra F) fuel c0 prog env m = some (.ok r)) :
    runProgram cfg (chiaDialect cfg extra (F ||| Gen.FLAG_RELAXED_BLS)) fuel c0 prog env m = some (.ok r) :=
  runProgram_le (chiaDialect_relaxed_le cfg extra hextra F) fuel c0 prog env m r h

end Clvm.Interp
