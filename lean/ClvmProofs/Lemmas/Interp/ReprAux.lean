/-
C03 (representation independence), layer 0: the readers.

`Req a a'` — both values well-formed with the same erasure — is the relation under which every
reader of `op_utils.rs` / `Allocator` returns *equal* results.  The core of each lemma is
"an inline small atom and a heap atom with the same (canonical, < 2^26) bytes are read alike".
-/
import ClvmProofs.Lemmas.Interp.OpProps
import ClvmProofs.Lemmas.AllocInt

namespace Clvm.Interp
open Clvm Clvm.Alloc

/-! ### what `wf` says about an inline atom -/

structure SmallFacts (b : Bytes) : Prop where
  fits : fitsInSmallAtom b = some (beNat b)
  dec : decodeInt b = (beNat b : Int)
  len : lenForValue (beNat b) = b.length
  lt : beNat b < 2 ^ 26
  len4 : b.length ≤ 4
  canon : canonical b = true
  enc : b = encodeInt (beNat b : Int)

theorem smallFacts_of_fits (b : Bytes) (v : Nat) (h : fitsInSmallAtom b = some v) :
    v = beNat b ∧ SmallFacts b := by
  have hc := (fitsInSmallAtom_core b v).1 h
  have hi := (fitsInSmallAtom_iff b v).1 h
  obtain ⟨hcan, hdec, hlt, hl4⟩ := hc
  have hv : v = beNat b := by
    have hl := beNat_lt b
    have hcast := ipow_cast b.length
    rw [decodeInt_eq] at hdec
    split at hdec <;> omega
  subst hv
  refine ⟨rfl, h, hdec, ?_, hlt, hl4, hcan, hi.1⟩
  rw [lenForValue_enc _ (by omega), ← hi.1]

theorem smallFacts_of_isSome (b : Bytes) (h : (fitsInSmallAtom b).isSome = true) : SmallFacts b := by
  cases hf : fitsInSmallAtom b with
  | none => rw [hf] at h; cases h
  | some v => exact (smallFacts_of_fits b v hf).2

theorem fits_eq_some_beNat (b : Bytes) (v : Nat) (h : fitsInSmallAtom b = some v) : v = beNat b :=
  (smallFacts_of_fits b v h).1

/-! ### the relation -/

/-- both well-formed, same erased tree -/
def Req (a a' : Val) : Prop := a.wf = true ∧ a'.wf = true ∧ a.erase = a'.erase

theorem Req.refl {a : Val} (h : a.wf = true) : Req a a := ⟨h, h, rfl⟩
theorem Req.symm {a a' : Val} (h : Req a a') : Req a' a := ⟨h.2.1, h.1, h.2.2.symm⟩
theorem Req.trans {a b c : Val} (h : Req a b) (h' : Req b c) : Req a c := ⟨h.1, h'.2.1, h.2.2.trans h'.2.2⟩

theorem Req.pair {l r l' r' : Val} (hl : Req l l') (hr : Req r r') : Req (.pair l r) (.pair l' r') := by
  refine ⟨?_, ?_, ?_⟩
  · simp [Val.wf, hl.1, hr.1]
  · simp [Val.wf, hl.2.1, hr.2.1]
  · simp [Val.erase, hl.2.2, hr.2.2]

theorem Req.nil : Req Val.nil Val.nil := Req.refl (by decide)
theorem Req.one : Req Val.one Val.one := Req.refl (by decide)

theorem wf_inline {b : Bytes} (h : (Val.atom b true).wf = true) : SmallFacts b :=
  smallFacts_of_isSome b (by simpa [Val.wf] using h)

/-- case analysis of related values -/
inductive ReqCases : Val → Val → Prop where
  | atom (b : Bytes) (t t' : Bool) (ht : t = true → SmallFacts b) (ht' : t' = true → SmallFacts b) :
      ReqCases (.atom b t) (.atom b t')
  | pair (l r l' r' : Val) (hl : Req l l') (hr : Req r r') : ReqCases (.pair l r) (.pair l' r')

theorem Req.cases {a a' : Val} (h : Req a a') : ReqCases a a' := by
  obtain ⟨hw, hw', he⟩ := h
  cases a with
  | atom b t =>
    cases a' with
    | atom b' t' =>
      simp only [Val.erase, Tree.atom.injEq] at he
      subst he
      refine .atom b t t' ?_ ?_
      · intro ht; subst ht; exact wf_inline hw
      · intro ht; subst ht; exact wf_inline hw'
    | pair l' r' => simp [Val.erase] at he
  | pair l r =>
    cases a' with
    | atom b' t' => simp [Val.erase] at he
    | pair l' r' =>
      simp only [Val.erase, Tree.pair.injEq] at he
      simp only [Val.wf, Bool.and_eq_true] at hw hw'
      exact .pair l r l' r' ⟨hw.1, hw'.1, he.1⟩ ⟨hw.2, hw'.2, he.2⟩

/-- a predicate on values that does not see the tag of a well-formed atom -/
theorem req_of_tag {α : Type} (f : Val → α)
    (hatom : ∀ b, SmallFacts b → f (.atom b true) = f (.atom b false))
    (hpair : ∀ l r l' r', Req l l' → Req r r' → f (.pair l r) = f (.pair l' r'))
    {a a' : Val} (h : Req a a') : f a = f a' := by
  cases h.cases with
  | atom b t t' ht ht' =>
    cases t <;> cases t'
    · rfl
    · exact (hatom b (ht' rfl)).symm
    · exact hatom b (ht rfl)
    · rfl
  | pair l r l' r' hl hr => exact hpair l r l' r' hl hr

/-! ### argument lists -/

/-- pointwise related lists -/
inductive ListReq : List Val → List Val → Prop where
  | nil : ListReq [] []
  | cons {x x' : Val} {l l' : List Val} (h : Req x x') (t : ListReq l l') : ListReq (x :: l) (x' :: l')

theorem argList_req {a a' : Val} (h : Req a a') : ListReq (argList a) (argList a') := by
  induction a generalizing a' with
  | atom b t =>
    cases h.cases with
    | atom _ _ t' _ _ => exact .nil
  | pair l r _ ihr =>
    cases h.cases with
    | pair _ _ l' r' hl hr =>
      simp only [argList]
      exact .cons hl (ihr hr)

theorem ListReq.length_eq {l l' : List Val} (h : ListReq l l') : l.length = l'.length := by
  induction h with
  | nil => rfl
  | cons _ _ ih => simp [ih]

theorem ListReq.append {l l' k k' : List Val} (h : ListReq l l') (hk : ListReq k k') :
    ListReq (l ++ k) (l' ++ k') := by
  induction h with
  | nil => exact hk
  | cons hx _ ih => exact .cons hx ih

theorem ListReq.reverse {l l' : List Val} (h : ListReq l l') : ListReq l.reverse l'.reverse := by
  induction h with
  | nil => exact .nil
  | cons hx _ ih =>
    simp only [List.reverse_cons]
    exact ih.append (.cons hx .nil)

/-- outcome of `get_args::<N>` style helpers on related argument lists -/
inductive ArgsRel {α : Type} (R : α → α → Prop) : Except Err α → Except Err α → Prop where
  | err (e : Err) : ArgsRel R (.error e) (.error e)
  | ok (x x' : α) (h : R x x') : ArgsRel R (.ok x) (.ok x')

theorem ArgsRel.cases' {α : Type} {R : α → α → Prop} {x y : Except Err α} (h : ArgsRel R x y) :
    (∃ e, x = .error e ∧ y = .error e) ∨ (∃ v v', x = .ok v ∧ y = .ok v' ∧ R v v') := by
  cases h with
  | err e => exact .inl ⟨e, rfl, rfl⟩
  | ok v v' h => exact .inr ⟨v, v', rfl, rfl, h⟩

theorem getArgs_req {a a' : Val} (h : Req a a') (n : Nat) (name : String) :
    ArgsRel (ListReq) (getArgs n a name) (getArgs n a' name) := by
  have hl := argList_req h
  have hlen := hl.length_eq
  unfold getArgs matchArgs
  simp only [hlen]
  by_cases hn : ((argList a').length == n) = true
  · simp only [hn, if_true]; exact .ok _ _ hl
  · simp only [hn, if_false]; exact .err _

theorem getArgs1_req {a a' : Val} (h : Req a a') (name : String) :
    ArgsRel Req (getArgs1 a name) (getArgs1 a' name) := by
  unfold getArgs1
  rcases (getArgs_req h 1 name).cases' with ⟨e, h1, h2⟩ | ⟨l, l', h1, h2, hl⟩
  · rw [h1, h2]; exact .err e
  · rw [h1, h2]
    match l, l', hl with
    | [], [], _ => exact .err _
    | [x], [x'], .cons hx .nil => exact .ok _ _ hx
    | _ :: _ :: _, _ :: _ :: _, .cons _ (.cons _ _) => exact .err _

theorem getArgs2_req {a a' : Val} (h : Req a a') (name : String) :
    ArgsRel (fun p p' => Req p.1 p'.1 ∧ Req p.2 p'.2) (getArgs2 a name) (getArgs2 a' name) := by
  unfold getArgs2
  rcases (getArgs_req h 2 name).cases' with ⟨e, h1, h2⟩ | ⟨l, l', h1, h2, hl⟩
  · rw [h1, h2]; exact .err e
  · rw [h1, h2]
    match l, l', hl with
    | [], [], _ => exact .err _
    | [_], [_], .cons _ .nil => exact .err _
    | [x, y], [x', y'], .cons hx (.cons hy .nil) => exact .ok _ _ ⟨hx, hy⟩
    | _ :: _ :: _ :: _, _ :: _ :: _ :: _, .cons _ (.cons _ (.cons _ _)) => exact .err _

theorem getArgs3_req {a a' : Val} (h : Req a a') (name : String) :
    ArgsRel (fun p p' => Req p.1 p'.1 ∧ Req p.2.1 p'.2.1 ∧ Req p.2.2 p'.2.2)
      (getArgs3 a name) (getArgs3 a' name) := by
  unfold getArgs3
  rcases (getArgs_req h 3 name).cases' with ⟨e, h1, h2⟩ | ⟨l, l', h1, h2, hl⟩
  · rw [h1, h2]; exact .err e
  · rw [h1, h2]
    match l, l', hl with
    | [], [], _ => exact .err _
    | [_], [_], .cons _ .nil => exact .err _
    | [_, _], [_, _], .cons _ (.cons _ .nil) => exact .err _
    | [x, y, z], [x', y', z'], .cons hx (.cons hy (.cons hz .nil)) => exact .ok _ _ ⟨hx, hy, hz⟩
    | _ :: _ :: _ :: _ :: _, _ :: _ :: _ :: _ :: _, .cons _ (.cons _ (.cons _ (.cons _ _))) => exact .err _

theorem getArgs4_req {a a' : Val} (h : Req a a') (name : String) :
    ArgsRel (fun p p' => Req p.1 p'.1 ∧ Req p.2.1 p'.2.1 ∧ Req p.2.2.1 p'.2.2.1 ∧ Req p.2.2.2 p'.2.2.2)
      (getArgs4 a name) (getArgs4 a' name) := by
  unfold getArgs4
  rcases (getArgs_req h 4 name).cases' with ⟨e, h1, h2⟩ | ⟨l, l', h1, h2, hl⟩
  · rw [h1, h2]; exact .err e
  · rw [h1, h2]
    match l, l', hl with
    | [], [], _ => exact .err _
    | [_], [_], .cons _ .nil => exact .err _
    | [_, _], [_, _], .cons _ (.cons _ .nil) => exact .err _
    | [_, _, _], [_, _, _], .cons _ (.cons _ (.cons _ .nil)) => exact .err _
    | [x, y, z, w], [x', y', z', w'], .cons hx (.cons hy (.cons hz (.cons hw .nil))) =>
      exact .ok _ _ ⟨hx, hy, hz, hw⟩
    | _ :: _ :: _ :: _ :: _ :: _, _ :: _ :: _ :: _ :: _ :: _,
        .cons _ (.cons _ (.cons _ (.cons _ (.cons _ _)))) => exact .err _

theorem getVarargs_req {a a' : Val} (h : Req a a') (n : Nat) (name : String) :
    ArgsRel (ListReq) (getVarargs n a name) (getVarargs n a' name) := by
  have hl := argList_req h
  have hlen := hl.length_eq
  unfold getVarargs
  simp only [hlen]
  by_cases hn : (argList a').length > n
  · simp only [hn, if_true]; exact .err _
  · simp only [hn, if_false]; exact .ok _ _ hl

/-! ### readers: equal results on related values -/

theorem atomLen_req {a a' : Val} (h : Req a a') (n : String) : atomLen a n = atomLen a' n :=
  req_of_tag (fun v => atomLen v n) (fun _ _ => rfl) (fun _ _ _ _ _ _ => rfl) h

theorem atomBytes_req {a a' : Val} (h : Req a a') (n : String) : atomBytes a n = atomBytes a' n :=
  req_of_tag (fun v => atomBytes v n) (fun _ _ => rfl) (fun _ _ _ _ _ _ => rfl) h

theorem nilp_req {a a' : Val} (h : Req a a') : a.nilp = a'.nilp :=
  req_of_tag Val.nilp (fun _ _ => rfl) (fun _ _ _ _ _ _ => rfl) h

theorem isPair_req {a a' : Val} (h : Req a a') : a.isPair = a'.isPair :=
  req_of_tag Val.isPair (fun _ _ => rfl) (fun _ _ _ _ _ _ => rfl) h

theorem mallocCost_req {a a' : Val} (h : Req a a') (k : Nat) : mallocCost k a = mallocCost k a' :=
  req_of_tag (mallocCost k) (fun _ _ => rfl) (fun _ _ _ _ _ _ => rfl) h

theorem smallNumber_req {a a' : Val} (h : Req a a') : smallNumber a = smallNumber a' :=
  req_of_tag smallNumber (fun b hb => by simp [smallNumber, hb.fits]) (fun _ _ _ _ _ _ => rfl) h

theorem intAtom_req {a a' : Val} (h : Req a a') (n : String) : intAtom a n = intAtom a' n :=
  req_of_tag (fun v => intAtom v n) (fun b hb => by simp [intAtom, hb.dec, hb.len])
    (fun _ _ _ _ _ _ => rfl) h

theorem malachiteIntAtom_eq_intAtom (v : Val) (n : String) : malachiteIntAtom v n = intAtom v n := by
  cases v with
  | atom b inl => cases inl <;> rfl
  | pair l r => rfl

theorem malachiteIntAtom_req {a a' : Val} (h : Req a a') (n : String) :
    malachiteIntAtom a n = malachiteIntAtom a' n := by
  rw [malachiteIntAtom_eq_intAtom, malachiteIntAtom_eq_intAtom, intAtom_req h]

/-- first byte of a small canonical atom -/
theorem SmallFacts.head_lt {x : UInt8} {t : Bytes} (h : SmallFacts (x :: t)) : x.toNat < 128 := by
  have hd := h.dec
  have hl := beNat_lt (x :: t)
  have hcast := ipow_cast (x :: t).length
  simp only [decodeInt] at hd
  split at hd
  · omega
  · omega

theorem i32FromU8_small (b : Bytes) (hb : SmallFacts b) : i32FromU8 b = some (beNat b : Int) := by
  cases b with
  | nil => simp [i32FromU8, u32FromU8Impl, beNat]
  | cons x t =>
    have hx := hb.head_lt
    have h4 := hb.len4
    have hlt := hb.lt
    have hand : (x.toNat &&& 128 != 0) = false := by
      rw [and128]; simp [hx]
    have hlen : ¬ (x :: t).length > 4 := by omega
    have : ¬ beNat (x :: t) ≥ 2 ^ 31 := by omega
    simp only [i32FromU8, u32FromU8Impl, hlen, if_false, hand, Bool.and_false, Bool.false_eq_true]
    simp
    omega

theorem i32Atom_req {a a' : Val} (h : Req a a') (n : String) : i32Atom a n = i32Atom a' n :=
  req_of_tag (fun v => i32Atom v n)
    (fun b hb => by simp [i32Atom, node, i32FromU8_small b hb])
    (fun _ _ _ _ _ _ => rfl) h

theorem beNat_stripZeros (b : Bytes) : beNat (stripZeros b) = beNat b ∧ (stripZeros b).length ≤ b.length := by
  induction b with
  | nil => simp [stripZeros]
  | cons x t ih =>
    simp only [stripZeros]
    split
    · rename_i h0
      have h0' : x.toNat = 0 := by simpa using h0
      refine ⟨?_, by simp; omega⟩
      rw [ih.1, beNat_cons, h0']; simp
    · exact ⟨rfl, Nat.le_refl _⟩

/-- the `Buffer` branch of `uint_atom::<SIZE>` on a canonical small atom returns its value
(`SIZE ≥ 4`: the only instantiations are 4 and 8) -/
theorem uintAtom_small (size : Nat) (hs : 4 ≤ size) (b : Bytes) (hb : SmallFacts b) (n : String) (flags : Flags) :
    uintAtom size (.atom b false) n flags = .ok (beNat b) := by
  cases b with
  | nil => simp [uintAtom, node, beNat]
  | cons x t =>
    have hx := hb.head_lt
    have h4 := hb.len4
    have hand : (x.toNat &&& 128 != 0) = false := by
      rw [and128]; simp [hx]
    simp only [uintAtom, node, hand, Bool.false_eq_true, if_false]
    by_cases hc : hasFlag flags Gen.FLAG_CANONICAL_INTS = true
    · simp only [hc, if_true]
      by_cases h0 : x.toNat = 0
      · have hcan := hb.canon
        cases t with
        | nil => simp [canonical, h0] at hcan
        | cons y u =>
          have hy : ¬ y.toNat < 128 := by
            simp only [canonical, h0] at hcan
            intro hy; simp [hy] at hcan
          have hand2 : (y.toNat &&& 128 == 0) = false := by
            rw [and128]; simp [hy]
          have hlen : ¬ (y :: u).length > size := by simp at h4 ⊢; omega
          simp only [h0, beq_self_eq_true, if_true, hand2, Bool.false_eq_true, if_false, hlen]
          rw [beNat_cons x (y :: u), h0]; simp
      · have h0' : (x.toNat == 0) = false := by simpa using h0
        have hlen : ¬ (x :: t).length > size := by omega
        simp only [h0', Bool.false_eq_true, if_false, hlen]
    · have hc' : hasFlag flags Gen.FLAG_CANONICAL_INTS = false := by simpa using hc
      have hs := beNat_stripZeros (x :: t)
      have hlen : ¬ (stripZeros (x :: t)).length > size := by omega
      simp only [hc', Bool.false_eq_true, if_false, hlen, hs.1]

theorem uintAtom_req (size : Nat) (hs : 4 ≤ size) {a a' : Val} (h : Req a a') (n : String) (flags : Flags) :
    uintAtom size a n flags = uintAtom size a' n flags :=
  req_of_tag (fun v => uintAtom size v n flags)
    (fun b hb => by rw [uintAtom_small size hs b hb]; simp [uintAtom, node])
    (fun _ _ _ _ _ _ => rfl) h

theorem first_req {a a' : Val} (h : Req a a') : ArgsRel Req (first a) (first a') := by
  cases h.cases with
  | atom b t t' _ _ => exact .err _
  | pair l r l' r' hl hr => exact .ok _ _ hl

theorem rest_req {a a' : Val} (h : Req a a') : ArgsRel Req (rest a) (rest a') := by
  cases h.cases with
  | atom b t t' _ _ => exact .err _
  | pair l r l' r' hl hr => exact .ok _ _ hr

/-! ### outcomes -/

theorem ResEraseEq.refl_wf (h : Bool) (r : OpRes) : ResEraseEq h r r := by
  cases r with
  | error e => exact rfl
  | ok x => obtain ⟨k, v, c⟩ := x; exact ⟨rfl, rfl, rfl, rfl, rfl, fun _ => rfl⟩

theorem ResEraseEq.of_eq (h : Bool) {r r' : OpRes} (e : r = r') : ResEraseEq h r r' := by
  subst e; exact ResEraseEq.refl_wf h r

theorem ResEraseEq.err (h : Bool) (e : Err) : ResEraseEq h (.error e) (.error e) := rfl

theorem ResEraseEq.ok_req (h : Bool) (k : Nat) {v v' : Val} (c : Ctr) (hv : Req v v') :
    ResEraseEq h (.ok (k, v, c)) (.ok (k, v', c)) :=
  ⟨rfl, hv.2.2, rfl, rfl, rfl, fun _ => rfl⟩

theorem ResEraseEq.weaken {r r' : OpRes} (h : ResEraseEq true r r') : ResEraseEq false r r' := by
  cases r with
  | error e => cases r' with
    | error e' => exact h
    | ok x => exact h
  | ok x => cases r' with
    | error e' => exact h
    | ok x' =>
      obtain ⟨k, v, c⟩ := x; obtain ⟨k', v', c'⟩ := x'
      obtain ⟨h1, h2, h3, h4, h5, _⟩ := h
      exact ⟨h1, h2, h3, h4, h5, fun hh => by cases hh⟩

theorem ResEraseEq.symm {hp : Bool} {r r' : OpRes} (h : ResEraseEq hp r r') : ResEraseEq hp r' r := by
  cases r with
  | error e => cases r' with
    | error e' => exact Eq.symm h
    | ok x => exact h
  | ok x => cases r' with
    | error e' => exact h
    | ok x' =>
      obtain ⟨k, v, c⟩ := x; obtain ⟨k', v', c'⟩ := x'
      obtain ⟨h1, h2, h3, h4, h5, h6⟩ := h
      exact ⟨h1.symm, h2.symm, h3.symm, h4.symm, h5.symm, fun hh => (h6 hh).symm⟩

theorem ResEraseEq.strengthen {r r' : OpRes} (h : ResEraseEq false r r')
    (hh : ∀ x x', r = .ok x → r' = .ok x' → x.2.2.heap = x'.2.2.heap) : ResEraseEq true r r' := by
  cases r with
  | error e => cases r' with
    | error e' => exact h
    | ok x => exact h
  | ok x => cases r' with
    | error e' => exact h
    | ok x' =>
      have := hh x x' rfl rfl
      obtain ⟨k, v, c⟩ := x; obtain ⟨k', v', c'⟩ := x'
      obtain ⟨h1, h2, h3, h4, h5, _⟩ := h
      exact ⟨h1, h2, h3, h4, h5, fun _ => this⟩

theorem OpRepr.weaken {f : OpFn} (h : OpRepr true f) : OpRepr false f :=
  fun flags m a a' c hw hw' he => (h flags m a a' c hw hw' he).weaken

/-- an operator that produces *equal* results on related arguments -/
theorem opRepr_of_eq {f : OpFn} (h : ∀ flags m a a' c, Req a a' → f flags m a c = f flags m a' c) :
    OpRepr true f :=
  fun flags m a a' c hw hw' he => ResEraseEq.of_eq _ (h flags m a a' c ⟨hw, hw', he⟩)

theorem opRepr_of_req {hp : Bool} {f : OpFn}
    (h : ∀ flags m a a' c, Req a a' → ResEraseEq hp (f flags m a c) (f flags m a' c)) :
    OpRepr hp f :=
  fun flags m a a' c hw hw' he => h flags m a a' c ⟨hw, hw', he⟩

end Clvm.Interp
