/-
C11, per-operator layer for the operators outside the core table: the value (and the `fresh` bit) a
tree-level crypto operator returns does not depend on the cost model — `NEW_COST_MODEL` only selects
cost constants (and switches off the `LIMITS` scalar-length failure of `g1_multiply` /
`g2_multiply`).  Two successful calls, with and without the bit and with arbitrary budgets, are
compared step by step.
-/
import ClvmProofs.Lemmas.Interp.CryptoShapesFlags

set_option linter.unusedSimpArgs false

namespace Clvm.Crypto.Ops
open Clvm Clvm.Crypto Clvm.Interp

/-! ### the loops: what is accumulated does not depend on costs or budget -/

theorem sha256Loop_rel {pa pb m pa' pb' m' : Nat} : ∀ {t : Tree} {cost cost' : Nat} {acc : Bytes}
    {r r' : Nat × Bytes},
    sha256Loop pa pb m t cost acc = .ok r → sha256Loop pa' pb' m' t cost' acc = .ok r' → r.2 = r'.2 := by
  intro t
  induction t with
  | atom b => intro cost cost' acc r r' h h'; cases h; cases h'; rfl
  | pair arg rest _ ih =>
    intro cost cost' acc r r' h h'
    unfold sha256Loop at h h'
    walk_ok h
    simp only [*, ex_ok_bind] at h'
    walk_ok h'
    exact ih h h'

theorem keccakLoop_rel {pa pb m pa' pb' m' : Nat} : ∀ {t : Tree} {cost cost' : Nat} {acc : Bytes}
    {r r' : Nat × Bytes},
    keccakLoop pa pb m t cost acc = .ok r → keccakLoop pa' pb' m' t cost' acc = .ok r' → r.2 = r'.2 := by
  intro t
  induction t with
  | atom b => intro cost cost' acc r r' h h'; cases h; cases h'; rfl
  | pair arg rest _ ih =>
    intro cost cost' acc r r' h h'
    unfold keccakLoop at h h'
    walk_ok h
    simp only [*, ex_ok_bind] at h'
    walk_ok h'
    exact ih h h'

theorem pairingLoop_rel {cpa m cpa' m' : Nat} : ∀ {fuel : Nat} {args : Tree} {cost cost' : Nat}
    {items : List (Bls.G1 × Bls.G2)} {r r' : Nat × List (Bls.G1 × Bls.G2)},
    pairingLoop cpa m fuel args cost items = .ok r → pairingLoop cpa' m' fuel args cost' items = .ok r' →
      r.2 = r'.2 := by
  intro fuel
  induction fuel with
  | zero => intro args cost cost' items r r' h; cases h
  | succ fuel ih =>
    intro args cost cost' items r r' h h'
    unfold pairingLoop at h h'
    split at h
    · rename_i hn
      simp only [hn, ↓reduceIte] at h'
      cases h; cases h'; rfl
    · rename_i hn
      simp only [hn, Bool.false_eq_true, ↓reduceIte] at h'
      walk_ok h
      simp only [*, ex_ok_bind] at h'
      walk_ok h'
      exact ih h h'

theorem verifyLoop_rel {cpa cpb cpd m cpa' cpb' cpd' m' : Nat} : ∀ {fuel : Nat} {args : Tree} {cost cost' : Nat}
    {items : List (Bls.G1 × Bytes)} {r r' : Nat × List (Bls.G1 × Bytes)},
    verifyLoop cpa cpb cpd m fuel args cost items = .ok r →
    verifyLoop cpa' cpb' cpd' m' fuel args cost' items = .ok r' → r.2 = r'.2 := by
  intro fuel
  induction fuel with
  | zero => intro args cost cost' items r r' h; cases h
  | succ fuel ih =>
    intro args cost cost' items r r' h h'
    unfold verifyLoop at h h'
    split at h
    · rename_i hn
      simp only [hn, ↓reduceIte] at h'
      cases h; cases h'; rfl
    · rename_i hn
      simp only [hn, Bool.false_eq_true, ↓reduceIte] at h'
      walk_ok h
      simp only [*, ex_ok_bind] at h'
      walk_ok h'
      exact ih h h'

/-! ### the operators -/

/-- the two calls of `TModelIndep`, with the flag tests already evaluated -/
theorem modelIndep_intro {g : Crypto.OpFn}
    (H : ∀ (F G m m' : Nat) (args : Tree) (r r' : OpRes), newCostModel F = false → newCostModel G = true →
      g F m args = .ok r → g G m' args = .ok r' → r.value = r'.value ∧ r.fresh = r'.fresh) :
    TModelIndep g := fun F m m' args r r' hF h h' =>
  H F _ m m' args r r' ((cNewCostModel_eq F).trans hF) (cNewCostModel_or_newModel F) h h'

theorem opSha256_modelIndep : TModelIndep opSha256 := modelIndep_intro fun F G m m' args r r' hF hG h h' => by
  unfold opSha256 at h h'
  simp only [hF, hG, Bool.false_eq_true, ↓reduceIte, newAtomAndCost] at h h'
  by_cases hnil : args = .atom []
  · simp only [hnil, ↓reduceIte] at h h'; cases h; cases h'; exact ⟨rfl, rfl⟩
  · simp only [hnil, ↓reduceIte] at h h'
    split at h
    · rename_i val hfast
      rw [hfast] at h'
      simp only at h'
      split at h
      · cases h
      · split at h'
        · cases h'
        · split at h
          · rename_i hh
            rw [hh] at h'
            cases h; cases h'; exact ⟨rfl, rfl⟩
          · cases h
    · rename_i hfast
      rw [hfast] at h'
      simp only at h'
      split at h
      · cases h
      · rename_i hl
        split at h'
        · cases h'
        · rename_i hl'
          cases h; cases h'
          have := sha256Loop_rel hl hl'
          simp only at this
          subst this
          exact ⟨rfl, rfl⟩

theorem opKeccak256_modelIndep : TModelIndep opKeccak256 :=
  modelIndep_intro fun F G m m' args r r' hF hG h h' => by
  unfold opKeccak256 at h h'
  simp only [hF, hG, Bool.false_eq_true, ↓reduceIte, newAtomAndCost] at h h'
  split at h
  · cases h
  · split at h'
    · cases h'
    · rename_i hl _ _ _ hl'
      cases h; cases h'
      have := keccakLoop_rel hl hl'
      simp only at this
      subst this
      exact ⟨rfl, rfl⟩

/-- straight-line operators: walk the first call, replay what it found in the second -/
syntax "model_walk " ident ident : tactic
macro_rules
  | `(tactic| model_walk $h:ident $h':ident) => `(tactic|
    (walk_ok $h
     all_goals
       (simp only [*, ex_ok_bind, ex_pure, Bool.false_eq_true, ↓reduceIte] at $h':ident
        walk_ok $h'))
     <;> exact ⟨rfl, rfl⟩)

theorem opCoinid_modelIndep : TModelIndep opCoinid := modelIndep_intro fun F G m m' args r r' hF hG h h' => by
  rcases getArgs3_cases args "coinid" with ⟨a, b, c, t, rfl, hg⟩ | ⟨s, hg⟩
  · unfold opCoinid at h h'
    simp only [hg, hF, hG, ex_ok_bind, newAtomAndCost, Bool.false_eq_true, ↓reduceIte] at h h'
    model_walk h h'
  · unfold opCoinid at h; simp only [hg, ex_err_bind, reduceCtorEq] at h

theorem opBlsG1Multiply_modelIndep : TModelIndep opBlsG1Multiply :=
  modelIndep_intro fun F G m m' args r r' hF hG h h' => by
  rcases getArgs2_cases args "g1_multiply" with ⟨a, b, t, rfl, hg⟩ | ⟨s, hg⟩
  · unfold opBlsG1Multiply at h h'
    simp only [hg, hF, hG, ex_ok_bind, Bool.false_eq_true, ↓reduceIte] at h h'
    model_walk h h'
  · unfold opBlsG1Multiply at h; simp only [hg, ex_err_bind, reduceCtorEq] at h

theorem opBlsG2Multiply_modelIndep : TModelIndep opBlsG2Multiply :=
  modelIndep_intro fun F G m m' args r r' hF hG h h' => by
  rcases getArgs2_cases args "g2_multiply" with ⟨a, b, t, rfl, hg⟩ | ⟨s, hg⟩
  · unfold opBlsG2Multiply at h h'
    simp only [hg, hF, hG, ex_ok_bind, Bool.false_eq_true, ↓reduceIte] at h h'
    model_walk h h'
  · unfold opBlsG2Multiply at h; simp only [hg, ex_err_bind, reduceCtorEq] at h

theorem opBlsMapToG1_modelIndep (H : Bytes → Bytes → Bls.G1) : TModelIndep (opBlsMapToG1 H) :=
  modelIndep_intro fun F G m m' args r r' hF hG h h' => by
  unfold opBlsMapToG1 at h h'
  rcases getVarargs2_cases args "g1_map" with ⟨t, rfl, hg⟩ | ⟨a, t, rfl, hg⟩ | ⟨a, b, t, rfl, hg⟩ | ⟨s, hg⟩
  · simp only [hg, ex_ok_bind] at h; argc_simp at h; simp only [ex_throw, ex_err_bind, reduceCtorEq] at h
  · simp only [hg, hF, hG, ex_ok_bind] at h h'; argc_simp at h h'; model_walk h h'
  · simp only [hg, hF, hG, ex_ok_bind] at h h'; argc_simp at h h'; model_walk h h'
  · simp only [hg, ex_err_bind, reduceCtorEq] at h

theorem opBlsMapToG2_modelIndep (H : Bytes → Bytes → Bls.G2) : TModelIndep (opBlsMapToG2 H) :=
  modelIndep_intro fun F G m m' args r r' hF hG h h' => by
  unfold opBlsMapToG2 at h h'
  rcases getVarargs2_cases args "g2_map" with ⟨t, rfl, hg⟩ | ⟨a, t, rfl, hg⟩ | ⟨a, b, t, rfl, hg⟩ | ⟨s, hg⟩
  · simp only [hg, ex_ok_bind] at h; argc_simp at h; simp only [ex_throw, ex_err_bind, reduceCtorEq] at h
  · simp only [hg, hF, hG, ex_ok_bind] at h h'; argc_simp at h h'; model_walk h h'
  · simp only [hg, hF, hG, ex_ok_bind] at h h'; argc_simp at h h'; model_walk h h'
  · simp only [hg, ex_err_bind, reduceCtorEq] at h

theorem opBlsPairingIdentity_modelIndep (A : List (Bls.G1 × Bls.G2) → Bool) :
    TModelIndep (opBlsPairingIdentity A) := modelIndep_intro fun F G m m' args r r' hF hG h h' => by
  unfold opBlsPairingIdentity at h h'
  simp only [hF, hG, Bool.false_eq_true, ↓reduceIte, ex_bind_ok] at h h'
  obtain ⟨_, _, ⟨cost, items⟩, hl, h⟩ := h
  obtain ⟨_, _, ⟨cost', items'⟩, hl', h'⟩ := h'
  simp only at h h'
  split at h
  · simp only [ex_throw, reduceCtorEq] at h
  · split at h'
    · simp only [ex_throw, reduceCtorEq] at h'
    · simp only [ex_pure, Except.ok.injEq] at h h'
      subst h; subst h'; exact ⟨rfl, rfl⟩

theorem opBlsVerify_modelIndep (A : Bls.G2 → List (Bls.G1 × Bytes) → Bool) :
    TModelIndep (opBlsVerify A) := modelIndep_intro fun F G m m' args r r' hF hG h h' => by
  unfold opBlsVerify at h h'
  simp only [hF, hG, Bool.false_eq_true, ↓reduceIte, ex_bind_ok] at h h'
  obtain ⟨_, _, _, _, _, _, _, _, ⟨cost, items⟩, hl, h⟩ := h
  obtain ⟨_, _, _, _, _, _, _, _, ⟨cost', items'⟩, hl', h'⟩ := h'
  simp only at h h'
  split at h
  · simp only [ex_throw, reduceCtorEq] at h
  · split at h'
    · simp only [ex_throw, reduceCtorEq] at h'
    · simp only [ex_pure, Except.ok.injEq] at h h'
      subst h; subst h'; exact ⟨rfl, rfl⟩

/-! ### dispatch -/

/-- **restriction flags only remove successes**, every operator of the dispatch table -/
theorem opByNameWith_restrict (P : Primitives) {name : String} {g : Crypto.OpFn}
    (h : opByNameWith P name = some g) : TRestrict g := by
  unfold opByNameWith at h
  split at h <;> first
    | (cases h; done)
    | (cases h; first
        | exact opSha256_nmOnly.restrict | exact opKeccak256_nmOnly.restrict | exact opCoinid_nmOnly.restrict
        | exact opPointAdd_noFlags.nmOnly.restrict | exact opPubkeyForExp_noFlags.nmOnly.restrict
        | exact opBlsG1Subtract_noFlags.nmOnly.restrict | exact opBlsG1Multiply_restrict
        | exact opBlsG1Negate_restrict | exact opBlsG2Add_noFlags.nmOnly.restrict
        | exact opBlsG2Subtract_noFlags.nmOnly.restrict | exact opBlsG2Multiply_restrict
        | exact opBlsG2Negate_restrict | exact (opBlsMapToG1_nmOnly _).restrict
        | exact (opBlsMapToG2_nmOnly _).restrict | exact (opBlsPairingIdentity_nmOnly _).restrict
        | exact (opBlsVerify_nmOnly _).restrict | exact opSecp256k1Verify_noFlags.nmOnly.restrict
        | exact opSecp256r1Verify_noFlags.nmOnly.restrict)

/-- **RELAXED_BLS only adds successes**, every operator of the dispatch table -/
theorem opByNameWith_relax (P : Primitives) {name : String} {g : Crypto.OpFn}
    (h : opByNameWith P name = some g) : TRelax g := by
  unfold opByNameWith at h
  split at h <;> first
    | (cases h; done)
    | (cases h; first
        | exact opSha256_nmOnly.relax | exact opKeccak256_nmOnly.relax | exact opCoinid_nmOnly.relax
        | exact opPointAdd_noFlags.nmOnly.relax | exact opPubkeyForExp_noFlags.nmOnly.relax
        | exact opBlsG1Subtract_noFlags.nmOnly.relax | exact opBlsG1Multiply_relax
        | exact opBlsG1Negate_relax | exact opBlsG2Add_noFlags.nmOnly.relax
        | exact opBlsG2Subtract_noFlags.nmOnly.relax | exact opBlsG2Multiply_relax
        | exact opBlsG2Negate_relax | exact (opBlsMapToG1_nmOnly _).relax
        | exact (opBlsMapToG2_nmOnly _).relax | exact (opBlsPairingIdentity_nmOnly _).relax
        | exact (opBlsVerify_nmOnly _).relax | exact opSecp256k1Verify_noFlags.nmOnly.relax
        | exact opSecp256r1Verify_noFlags.nmOnly.relax)

/-- **values do not depend on the cost model**, every operator of the dispatch table -/
theorem opByNameWith_modelIndep (P : Primitives) {name : String} {g : Crypto.OpFn}
    (h : opByNameWith P name = some g) : TModelIndep g := by
  unfold opByNameWith at h
  split at h <;> first
    | (cases h; done)
    | (cases h; first
        | exact opSha256_modelIndep | exact opKeccak256_modelIndep | exact opCoinid_modelIndep
        | exact opPointAdd_noFlags.modelIndep opPointAdd_budget
        | exact opPubkeyForExp_noFlags.modelIndep opPubkeyForExp_budget
        | exact opBlsG1Subtract_noFlags.modelIndep opBlsG1Subtract_budget | exact opBlsG1Multiply_modelIndep
        | exact opBlsG1Negate_modelIndep | exact opBlsG2Add_noFlags.modelIndep opBlsG2Add_budget
        | exact opBlsG2Subtract_noFlags.modelIndep opBlsG2Subtract_budget | exact opBlsG2Multiply_modelIndep
        | exact opBlsG2Negate_modelIndep | exact opBlsMapToG1_modelIndep _
        | exact opBlsMapToG2_modelIndep _ | exact opBlsPairingIdentity_modelIndep _
        | exact opBlsVerify_modelIndep _ | exact opSecp256k1Verify_noFlags.modelIndep opSecp256k1Verify_budget
        | exact opSecp256r1Verify_noFlags.modelIndep opSecp256r1Verify_budget)

end Clvm.Crypto.Ops
