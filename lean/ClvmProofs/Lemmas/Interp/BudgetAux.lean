/-
Budget lemmas for the per-argument loops of the operators (C02, per-operator layer).

`LoopOk b lo g r` is the statement every loop (and every operator) satisfies after a successful run
`g m = .ok r`: under any other budget `m'` the outcome is the same or `CostExceeded`, it is the same
whenever `b ≤ m'`, and `lo ≤ b` (`lo` = the cost the loop started with, `b` = the cost it returned:
costs only grow and every checked value is at most the final one).
-/
import ClvmProofs.Lemmas.Interp.OpProps

namespace Clvm.Interp
open Clvm Clvm.Alloc

/-! ### `check_cost` -/

theorem checkCost_ok_iff {x m : Nat} : checkCost x m = .ok () ↔ x ≤ m := by
  unfold checkCost; split <;> simp <;> omega

theorem checkCost_of_le {x m : Nat} (h : x ≤ m) : checkCost x m = .ok () := checkCost_ok_iff.2 h

theorem checkCost_of_lt {x m : Nat} (h : m < x) : checkCost x m = .error .CostExceeded := by
  unfold checkCost; simp [h]

theorem checkCost_err {x m : Nat} {e} (h : checkCost x m = .error e) : e = .CostExceeded := by
  unfold checkCost at h; split at h <;> simp_all

theorem checkCost_mono {x m m' : Nat} (hle : m ≤ m') (h : checkCost x m = .ok ()) :
    checkCost x m' = .ok () :=
  checkCost_of_le (Nat.le_trans (checkCost_ok_iff.1 h) hle)

theorem ckAdd_err {a b : Nat} {e} (h : ckAdd a b = .error e) : e = .CostExceeded := by
  unfold ckAdd at h; split at h <;> simp_all

theorem ckMul_err {a b : Nat} {e} (h : ckMul a b = .error e) : e = .CostExceeded := by
  unfold ckMul at h; split at h <;> simp_all

theorem ckAdd_ok {a b r : Nat} (h : ckAdd a b = .ok r) : r = a + b := by
  unfold ckAdd at h; split at h <;> simp_all

theorem ckMul_ok {a b r : Nat} (h : ckMul a b = .ok r) : r = a * b := by
  unfold ckMul at h; split at h <;> simp_all

/-! ### the shape of a budget lemma -/

/-- after `g m = .ok r`: same outcome or `CostExceeded` under every budget, same outcome when the
budget covers `b`, and `lo ≤ b` -/
def LoopOk {α} (b lo : Nat) (g : Nat → Except Err α) (r : α) : Prop :=
  lo ≤ b ∧ ∀ m', (g m' = .ok r ∨ g m' = .error .CostExceeded) ∧ (b ≤ m' → g m' = .ok r)

theorem LoopOk.pure {α} {b lo : Nat} {r : α} (h : lo ≤ b) : LoopOk b lo (fun _ => .ok r) r :=
  ⟨h, fun _ => ⟨Or.inl rfl, fun _ => rfl⟩⟩

theorem LoopOk.check {α} {b lo x : Nat} {g : Nat → Except Err α} {r : α}
    (h : LoopOk b x g r) (hlo : lo ≤ x) :
    LoopOk b lo (fun m' => match checkCost x m' with | .error e => .error e | .ok () => g m') r := by
  obtain ⟨h1, h2⟩ := h
  refine ⟨Nat.le_trans hlo h1, fun m' => ?_⟩
  by_cases hm : x ≤ m'
  · simp only [checkCost_of_le hm]; exact h2 m'
  · simp only [checkCost_of_lt (Nat.lt_of_not_le hm)]
    exact ⟨Or.inr trivial, fun hh => absurd (Nat.le_trans h1 hh) hm⟩

theorem LoopOk.weaken {α} {b lo x : Nat} {g : Nat → Except Err α} {r : α}
    (h : LoopOk b x g r) (hlo : lo ≤ x) : LoopOk b lo g r := ⟨Nat.le_trans hlo h.1, h.2⟩

theorem LoopOk.lift {α β} {b b' lo : Nat} {g : Nat → Except Err α}
    {F : Nat → Except Err β} {a : α} {r : β} (hg : LoopOk b lo g a) (hk : b ≤ b')
    (h1 : ∀ m', g m' = .ok a → F m' = .ok r)
    (h2 : ∀ m', g m' = .error .CostExceeded → F m' = .error .CostExceeded) : LoopOk b' lo F r := by
  refine ⟨Nat.le_trans hg.1 hk, fun m' => ⟨?_, fun hh => h1 m' ((hg.2 m').2 (Nat.le_trans hk hh))⟩⟩
  rcases (hg.2 m').1 with h | h
  · exact Or.inl (h1 m' h)
  · exact Or.inr (h2 m' h)

theorem ckAdd_ok_iff {a b r : Nat} : ckAdd a b = .ok r ↔ (a + b ≤ U64_MAX ∧ r = a + b) := by
  unfold ckAdd; split <;> simp <;> omega

theorem ckMul_ok_iff {a b r : Nat} : ckMul a b = .ok r ↔ (a * b ≤ U64_MAX ∧ r = a * b) := by
  unfold ckMul; split <;> simp <;> omega

theorem LoopOk.bind {α β} {b1 b2 lo : Nat} {g : Nat → Except Err α} {G F : Nat → Except Err β} {a : α} {r : β}
    (hg : LoopOk b1 lo g a) (hG : LoopOk b2 b1 G r)
    (h1 : ∀ m', g m' = .ok a → F m' = G m')
    (h2 : ∀ m', g m' = .error .CostExceeded → F m' = .error .CostExceeded) : LoopOk b2 lo F r := by
  refine ⟨Nat.le_trans hg.1 hG.1, fun m' => ⟨?_, fun hh => ?_⟩⟩
  · rcases (hg.2 m').1 with h | h
    · rw [h1 m' h]; exact (hG.2 m').1
    · exact Or.inr (h2 m' h)
  · rw [h1 m' ((hg.2 m').2 (Nat.le_trans hG.1 hh))]; exact (hG.2 m').2 hh

/-- `omega` after turning successful `checked_add` / `checked_mul` into equations and abstracting
quotients by non-literals -/
macro "cost_omega" : tactic =>
  `(tactic| first
    | omega
    | ((try simp only [ckAdd_ok_iff, ckMul_ok_iff] at *); (try clear_value *);
       (try generalize ((_ : Nat) / (_ : Nat)) = q at *); omega))

/-- unfold the `let` variables of a `fun_induction` case and decide `if`s on literals -/
macro "loop_prep" : tactic =>
  `(tactic| ((try simp +zetaDelta only at *);
             (try simp only [Bool.false_eq_true, eq_self, ↓reduceIte, Prod.mk.injEq, not_true_eq_false, not_false_eq_true] at *)))

/-- closes one case of the induction of a `…_ok` loop lemma (`h` the success hypothesis, `ih` the
induction hypothesis if there is one): contradiction, the empty list, or a step with zero, one or
two `check_cost` calls -/
syntax "loop_ok_core " ident ident ident : tactic
macro_rules
  | `(tactic| loop_ok_core $L:ident $ih:ident $h:ident) => `(tactic|
    first
    | (cases $h:ident; done)
    | (cases $h:ident; exact LoopOk.pure (Nat.le_refl _))
    | (loop_prep <;>
       (simp only [$L:ident, *, ↓reduceIte, Bool.false_eq_true, eq_self];
        first
        | done
        | exact ($ih $h).check (by cost_omega)
        | exact (($ih $h).check (by cost_omega)).check (by cost_omega)
        | exact ($ih $h).weaken (by cost_omega))))

syntax "loop_ok_case " ident : tactic
macro_rules
  | `(tactic| loop_ok_case $L:ident) => `(tactic| (rename_i ih h; loop_ok_core $L ih h))

/-- closes one case of the induction of a `…_mono` loop lemma (`h : L m … = x`, `hne : x ≠ CostExceeded`,
`hle : m ≤ m'`, goal `L m' … = x`) -/
syntax "loop_mono_core " ident ident ident ident : tactic
macro_rules
  | `(tactic| loop_mono_core $L:ident $hne:ident $hle:ident $h:ident) => `(tactic|
    first
    | (subst $h:ident; exact absurd (congrArg Except.error (checkCost_err ‹_›)) $hne)
    | (subst $h:ident; first
        | rfl
        | (loop_prep <;>
           (simp only [$L:ident, *, ↓reduceIte, Bool.false_eq_true, eq_self]; done)))
    | (loop_prep <;>
       (simp only [$L:ident, *, checkCost_mono $hle, ↓reduceIte, Bool.false_eq_true, eq_self]; done)))

syntax "loop_mono_case " ident ident ident : tactic
macro_rules
  | `(tactic| loop_mono_case $L:ident $hne:ident $hle:ident) =>
    `(tactic| (rename_i h; loop_mono_core $L $hne $hle h))

syntax "step_ok_core " ident ident : tactic
macro_rules
  | `(tactic| step_ok_core $L:ident $h:ident) => `(tactic|
    first
    | (cases $h:ident; done)
    | (loop_prep <;>
       (cases $h:ident; simp only [$L:ident, *, ↓reduceIte, Bool.false_eq_true, eq_self];
        first
        | done
        | exact LoopOk.pure (Nat.le_refl _)
        | exact LoopOk.pure (Nat.zero_le _)
        | exact (LoopOk.pure (Nat.le_refl _)).check (by cost_omega))))

/-! ### the loops -/

theorem sha256Loop_ok {cpa cpb m l cost acc r} (h : sha256Loop cpa cpb m l cost acc = .ok r) :
    LoopOk r.1 cost (fun m' => sha256Loop cpa cpb m' l cost acc) r := by
  revert h
  fun_induction sha256Loop cpa cpb m l cost acc <;> intro h <;> loop_ok_case sha256Loop

theorem sha256Loop_mono {cpa cpb m l cost acc x} (h : sha256Loop cpa cpb m l cost acc = x)
    (hne : x ≠ .error .CostExceeded) {m'} (hle : m ≤ m') : sha256Loop cpa cpb m' l cost acc = x := by
  revert h
  fun_induction sha256Loop cpa cpb m l cost acc <;> intro h <;> loop_mono_case sha256Loop hne hle

theorem unknownConcat_ok {m l cost r} (h : unknownConcat m l cost = .ok r) :
    LoopOk r cost (fun m' => unknownConcat m' l cost) r := by
  revert h
  fun_induction unknownConcat m l cost <;> intro h <;> loop_ok_case unknownConcat

theorem unknownConcat_mono {m l cost x} (h : unknownConcat m l cost = x)
    (hne : x ≠ .error .CostExceeded) {m'} (hle : m ≤ m') : unknownConcat m' l cost = x := by
  revert h
  fun_induction unknownConcat m l cost <;> intro h <;> loop_mono_case unknownConcat hne hle

theorem boolLoop_ok {m isAny l cost acc r} (h : boolLoop m isAny l cost acc = .ok r) :
    LoopOk r.1 cost (fun m' => boolLoop m' isAny l cost acc) r := by
  revert h
  fun_induction boolLoop m isAny l cost acc <;> intro h <;> loop_ok_case boolLoop

theorem boolLoop_mono {m isAny l cost acc x} (h : boolLoop m isAny l cost acc = x)
    (hne : x ≠ .error .CostExceeded) {m'} (hle : m ≤ m') : boolLoop m' isAny l cost acc = x := by
  revert h
  fun_induction boolLoop m isAny l cost acc <;> intro h <;> loop_mono_case boolLoop hne hle

theorem concatLoop_ok {m l cost ts terms r} (h : concatLoop m l cost ts terms = .ok r) :
    LoopOk r.1 cost (fun m' => concatLoop m' l cost ts terms) r := by
  revert h
  fun_induction concatLoop m l cost ts terms <;> intro h <;> loop_ok_case concatLoop

theorem concatLoop_mono {m l cost ts terms x} (h : concatLoop m l cost ts terms = x)
    (hne : x ≠ .error .CostExceeded) {m'} (hle : m ≤ m') : concatLoop m' l cost ts terms = x := by
  revert h
  fun_induction concatLoop m l cost ts terms <;> intro h <;> loop_mono_case concatLoop hne hle

theorem unknownArith_ok {nm m l cost sz r} (h : unknownArith nm m l cost sz = .ok r) :
    LoopOk r cost (fun m' => unknownArith nm m' l cost sz) r := by
  revert h
  cases nm <;> fun_induction unknownArith _ m l cost sz <;> intro h <;> loop_ok_case unknownArith

theorem unknownArith_mono {nm m l cost sz x} (h : unknownArith nm m l cost sz = x)
    (hne : x ≠ .error .CostExceeded) {m'} (hle : m ≤ m') : unknownArith nm m' l cost sz = x := by
  revert h
  cases nm <;> fun_induction unknownArith _ m l cost sz <;> intro h <;> loop_mono_case unknownArith hne hle

theorem addGeneric_ok {nm cpa cpb m l cost acc sa r} (h : addGeneric nm cpa cpb m l cost acc sa = .ok r) :
    LoopOk r.1 cost (fun m' => addGeneric nm cpa cpb m' l cost acc sa) r := by
  revert h
  cases nm <;> fun_induction addGeneric _ cpa cpb m l cost acc sa <;> intro h <;> loop_ok_case addGeneric

theorem addGeneric_mono {nm cpa cpb m l cost acc sa x} (h : addGeneric nm cpa cpb m l cost acc sa = x)
    (hne : x ≠ .error .CostExceeded) {m'} (hle : m ≤ m') : addGeneric nm cpa cpb m' l cost acc sa = x := by
  revert h
  cases nm <;> fun_induction addGeneric _ cpa cpb m l cost acc sa <;> intro h <;> loop_mono_case addGeneric hne hle

theorem subGeneric_ok {nm cpa cpb m l cost acc sa fi r} (h : subGeneric nm cpa cpb m l cost acc sa fi = .ok r) :
    LoopOk r.1 cost (fun m' => subGeneric nm cpa cpb m' l cost acc sa fi) r := by
  revert h
  cases nm <;> fun_induction subGeneric _ cpa cpb m l cost acc sa fi <;> intro h <;> loop_ok_case subGeneric

theorem subGeneric_mono {nm cpa cpb m l cost acc sa fi x}
    (h : subGeneric nm cpa cpb m l cost acc sa fi = x)
    (hne : x ≠ .error .CostExceeded) {m'} (hle : m ≤ m') : subGeneric nm cpa cpb m' l cost acc sa fi = x := by
  revert h
  cases nm <;> fun_induction subGeneric _ cpa cpb m l cost acc sa fi <;> intro h <;> loop_mono_case subGeneric hne hle

theorem binopLoop_ok {nme nm f m l cost pa na r} (h : binopLoop nme nm f m l cost pa na = .ok r) :
    LoopOk r.1 cost (fun m' => binopLoop nme nm f m' l cost pa na) r := by
  revert h
  cases nm <;> fun_induction binopLoop nme _ f m l cost pa na <;> intro h <;> loop_ok_case binopLoop

theorem binopLoop_mono {nme nm f m l cost pa na x} (h : binopLoop nme nm f m l cost pa na = x)
    (hne : x ≠ .error .CostExceeded) {m'} (hle : m ≤ m') : binopLoop nme nm f m' l cost pa na = x := by
  revert h
  cases nm <;> fun_induction binopLoop nme _ f m l cost pa na <;> intro h <;> loop_mono_case binopLoop hne hle

/-! `unknownMul`: its equation lemmas cannot be generated within the default recursion depth, so the
unfolding equations are stated by hand (`rfl`) and the induction uses `unknownMul.induct`. -/

theorem unknownMul_nil_eq {nm : Bool} {m d cost l0 : Nat} {fi : Bool} :
    unknownMul nm m d [] cost l0 fi = .ok cost := rfl

set_option maxRecDepth 8000 in
theorem unknownMul_cons_eq {nm : Bool} {maxCost sqDiv cost l0 : Nat} {firstIter : Bool} {arg : Val} {rest : List Val} :
    unknownMul nm maxCost sqDiv (arg :: rest) cost l0 firstIter =
    match atomLen arg "unknown op" with
    | .error e => .error e
    | .ok len =>
      if firstIter then
        if nm then
          match ckMul len Gen.MUL_LINEAR_COST_PER_BYTE with
          | .error e => .error e
          | .ok m =>
            match ckAdd cost m with
            | .error e => .error e
            | .ok cost1 =>
              match checkCost cost1 maxCost with
              | .error e => .error e
              | .ok () => unknownMul nm maxCost sqDiv rest cost1 len false
        else unknownMul nm maxCost sqDiv rest cost len false
      else if nm then
        match ckAdd cost Gen.MUL_COST_PER_OP with
        | .error e => .error e
        | .ok cost1 =>
          match ckAdd l0 len with
          | .error e => .error e
          | .ok s =>
            match ckMul s Gen.MUL_LINEAR_COST_PER_BYTE with
            | .error e => .error e
            | .ok lin =>
              match ckAdd cost1 lin with
              | .error e => .error e
              | .ok cost2 =>
                match ckMul l0 len with
                | .error e => .error e
                | .ok sq =>
                  match ckAdd cost2 (sq / sqDiv) with
                  | .error e => .error e
                  | .ok cost3 =>
                    match checkCost cost3 maxCost with
                    | .error e => .error e
                    | .ok () => unknownMul nm maxCost sqDiv rest cost3 (l0 + len) false
      else
        let cost3 := cost + Gen.MUL_COST_PER_OP + (l0 + len) * Gen.MUL_LINEAR_COST_PER_BYTE + (l0 * len) / sqDiv
        match checkCost cost3 maxCost with
        | .error e => .error e
        | .ok () => unknownMul nm maxCost sqDiv rest cost3 (l0 + len) false := rfl

theorem unknownMul_ok {nm : Bool} {m d : Nat} {l : List Val} {cost l0 : Nat} {fi : Bool} {r : Nat}
    (h : unknownMul nm m d l cost l0 fi = .ok r) :
    LoopOk r cost (fun m' => unknownMul nm m' d l cost l0 fi) r := by
  revert h
  cases nm
  · induction l, cost, l0, fi using unknownMul.induct (nm := false) (maxCost := m) (sqDiv := d) <;>
      intro h <;> rename_i ih <;> loop_prep <;>
      simp only [unknownMul_nil_eq, unknownMul_cons_eq, *, ↓reduceIte, Bool.false_eq_true] at h <;>
      loop_ok_core unknownMul_cons_eq ih h
  · induction l, cost, l0, fi using unknownMul.induct (nm := true) (maxCost := m) (sqDiv := d) <;>
      intro h <;> rename_i ih <;> loop_prep <;>
      simp only [unknownMul_nil_eq, unknownMul_cons_eq, *, ↓reduceIte, Bool.false_eq_true] at h <;>
      loop_ok_core unknownMul_cons_eq ih h

set_option maxRecDepth 4000 in
theorem unknownMul_mono {nm : Bool} {m d : Nat} {l : List Val} {cost l0 : Nat} {fi : Bool} {x : Except Err _}
    (h : unknownMul nm m d l cost l0 fi = x)
    (hne : x ≠ .error .CostExceeded) {m' : Nat} (hle : m ≤ m') : unknownMul nm m' d l cost l0 fi = x := by
  revert h
  cases nm
  · induction l, cost, l0, fi using unknownMul.induct (nm := false) (maxCost := m) (sqDiv := d) <;>
      intro h <;> loop_prep <;>
      simp only [unknownMul_nil_eq, unknownMul_cons_eq, *, ↓reduceIte, Bool.false_eq_true] at h <;>
      loop_mono_core unknownMul_cons_eq hne hle h
  · induction l, cost, l0, fi using unknownMul.induct (nm := true) (maxCost := m) (sqDiv := d) <;>
      intro h <;> loop_prep <;>
      simp only [unknownMul_nil_eq, unknownMul_cons_eq, *, ↓reduceIte, Bool.false_eq_true] at h <;>
      loop_mono_core unknownMul_cons_eq hne hle h

/-! ### fast paths of `op_add` / `op_subtract` -/

theorem addFast_ok {nm : Bool} {cpa cpb m : Nat} {l : List Val} {cost total : Nat} {r : Nat × Nat}
    (h : addFast nm cpa cpb m l cost total = .ok (some r)) :
    LoopOk r.1 cost (fun m' => addFast nm cpa cpb m' l cost total) (some r) := by
  revert h
  cases nm <;> fun_induction addFast _ cpa cpb m l cost total <;> intro h <;> loop_ok_case addFast

theorem addFast_mono {nm : Bool} {cpa cpb m : Nat} {l : List Val} {cost total : Nat} {x : Except Err _}
    (h : addFast nm cpa cpb m l cost total = x)
    (hne : x ≠ .error .CostExceeded) {m' : Nat} (hle : m ≤ m') : addFast nm cpa cpb m' l cost total = x := by
  revert h
  cases nm <;> fun_induction addFast _ cpa cpb m l cost total <;> intro h <;> loop_mono_case addFast hne hle

theorem subFast_ok {nm : Bool} {cpa cpb m : Nat} {l : List Val} {cost : Nat} {total : Int} {fi : Bool} {r : Nat × Int}
    (h : subFast nm cpa cpb m l cost total fi = .ok (some r)) :
    LoopOk r.1 cost (fun m' => subFast nm cpa cpb m' l cost total fi) (some r) := by
  revert h
  cases nm <;> fun_induction subFast _ cpa cpb m l cost total fi <;> intro h <;> loop_ok_case subFast

theorem subFast_mono {nm : Bool} {cpa cpb m : Nat} {l : List Val} {cost : Nat} {total : Int} {fi : Bool} {x : Except Err _}
    (h : subFast nm cpa cpb m l cost total fi = x)
    (hne : x ≠ .error .CostExceeded) {m' : Nat} (hle : m ≤ m') : subFast nm cpa cpb m' l cost total fi = x := by
  revert h
  cases nm <;> fun_induction subFast _ cpa cpb m l cost total fi <;> intro h <;> loop_mono_case subFast hne hle

/-! a fall-back decision of the fast path is budget-independent once the generic loop succeeded:
the values the fast path checks are the values the generic loop checks on the same prefix -/

theorem limbs_natCast (n : Nat) : limbs (n : Int) = (natBE n).length := by
  simp [limbs]

theorem addFast_none {nm : Bool} {cpa cpb m : Nat} {l : List Val} {cost total : Nat} {acc : Int} {r : Nat × Int}
    (h : addFast nm cpa cpb m l cost total = .ok none)
    (hg : addGeneric nm cpa cpb m l cost acc (total : Int) = .ok r) :
    LoopOk r.1 cost (fun m' => addFast nm cpa cpb m' l cost total) none := by
  revert h hg
  cases nm <;> fun_induction addFast _ cpa cpb m l cost total <;> intro h hg <;> loop_prep <;>
  first
  | (cases h; done)
  | (rename_i ih
     simp only [addGeneric, *, limbs_natCast, ↓reduceIte, Bool.false_eq_true, ← Int.natCast_add] at hg
     simp only [addFast, *, ↓reduceIte, Bool.false_eq_true]
     exact (ih h hg).check (by omega))
  | (simp only [addGeneric, *, limbs_natCast, ↓reduceIte, Bool.false_eq_true] at hg
     simp only [addFast, *, ↓reduceIte, Bool.false_eq_true]
     exact (LoopOk.pure (addGeneric_ok hg).1).check (by omega))
  | (rename_i hn
     have hlo := (addGeneric_ok hg).1
     cases hv : node _ <;> first | exact absurd hv (hn _) | (simp only [addFast, hv]; exact LoopOk.pure hlo))

theorem limbsI64_eq (v : Int) : limbsI64 v = limbs v := rfl

theorem subGeneric_u32 {nm : Bool} {cpa cpb m : Nat} {arg : Val} {rest : List Val} {cost : Nat} {acc sa : Int}
    {fi : Bool} {r : Nat × Int} {val : Nat} (hn : node arg = .u32 val)
    (h : subGeneric nm cpa cpb m (arg :: rest) cost acc sa fi = .ok r) :
    subGeneric nm cpa cpb m rest
      (if nm then cost + cpa + (max (limbs sa) (lenForValue val)) * cpb else cost + cpa + lenForValue val * cpb)
      acc (sa + (if fi then 1 else -1) * (val : Int)) false = .ok r := by
  simp only [subGeneric, hn] at h
  split at h
  · cases h
  · split at h
    · cases h
    · exact h

theorem subFast_none {nm : Bool} {cpa cpb m : Nat} {l : List Val} {cost : Nat} {total : Int} {fi : Bool}
    {acc : Int} {r : Nat × Int}
    (h : subFast nm cpa cpb m l cost total fi = .ok none)
    (hg : subGeneric nm cpa cpb m l cost acc total fi = .ok r) (h0 : fi = true → total = 0) :
    LoopOk r.1 cost (fun m' => subFast nm cpa cpb m' l cost total fi) none := by
  revert h hg h0
  cases nm <;> fun_induction subFast _ cpa cpb m l cost total fi <;> intro h hg h0 <;> loop_prep <;>
  first
  | (cases h; done)
  | (rename_i ih
     have hg' := subGeneric_u32 ‹node _ = View.u32 _› hg
     obtain rfl := h0 trivial
     simp only [↓reduceIte, Bool.false_eq_true, Int.zero_add, Int.one_mul, ← limbsI64_eq] at hg'
     simp only [subFast, *, ↓reduceIte, Bool.false_eq_true]
     exact (ih h hg' (fun hh => nomatch hh)).check (by omega))
  | (rename_i ih
     have hg' := subGeneric_u32 ‹node _ = View.u32 _› hg
     simp only [↓reduceIte, Bool.false_eq_true, Int.neg_mul, Int.one_mul, ← Int.sub_eq_add_neg, ← limbsI64_eq, *] at hg'
     simp only [subFast, *, ↓reduceIte, Bool.false_eq_true]
     exact (ih h hg' (fun hh => nomatch hh)).check (by omega))
  | (have hg' := subGeneric_u32 ‹node _ = View.u32 _› hg
     simp only [↓reduceIte, Bool.false_eq_true, ← limbsI64_eq, *] at hg'
     simp only [subFast, *, ↓reduceIte, Bool.false_eq_true]
     exact (LoopOk.pure (subGeneric_ok hg').1).check (by omega))
  | (rename_i hn
     have hlo := (subGeneric_ok hg).1
     cases hv : node _ <;> first | exact absurd hv (hn _) | (simp only [subFast, hv]; exact LoopOk.pure hlo))

/-! ### `op_multiply` -/

/-- one iteration of `mulLoop` up to the product (the `step` of the model, as a function) -/
def mulStep (cfg : Cfg) (flags : Flags) (maxCost sqDiv : Nat) (arg : Val) (cost : Nat) (total : Int) (l0 : Nat) :
    Except Err (Nat × Int) :=
  let nm := newModel flags
  let limits := hasFlag flags Gen.FLAG_LIMITS && !nm
  let cost1 := cost + Gen.MUL_COST_PER_OP
  if cfg.fastpath then
    match node arg with
    | .buffer buf =>
      let l1 := buf.length
      if limits && l1 > 256 then .error (.InvalidOpArg "*")
      else
        let cost2 := cost1 + (l0 + l1) * Gen.MUL_LINEAR_COST_PER_BYTE + (l0 * l1) / sqDiv
        match checkCost cost2 maxCost with
        | .error e => .error e
        | .ok () => .ok (cost2, total * decodeInt buf)
    | .u32 val =>
      let l1 := lenForValue val
      let cost2 := cost1 + (l0 + l1) * Gen.MUL_LINEAR_COST_PER_BYTE + (l0 * l1) / sqDiv
      match checkCost cost2 maxCost with
      | .error e => .error e
      | .ok () => .ok (cost2, total * (val : Int))
    | .pair _ _ => .error (.InvalidOpArg "Requires Int Argument: *")
  else
    match intAtom arg "*" with
    | .error e => .error e
    | .ok (n1, l1) =>
      if limits && l1 > 256 then .error (.InvalidOpArg "*")
      else
        let cost2 := cost1 + (l0 + l1) * Gen.MUL_LINEAR_COST_PER_BYTE + (l0 * l1) / sqDiv
        match checkCost cost2 maxCost with
        | .error e => .error e
        | .ok () => .ok (cost2, total * n1)

theorem mulLoop_cons {cfg : Cfg} {flags m d : Nat} {arg : Val} {rest : List Val} {cost : Nat} {total : Int} {l0 : Nat} :
    mulLoop cfg flags m d (arg :: rest) cost total l0 =
    match mulStep cfg flags m d arg cost total l0 with
    | .error e => .error e
    | .ok (cost2, total') =>
      if (hasFlag flags Gen.FLAG_LIMITS && !newModel flags) && limbs total' > 1024 then .error (.InvalidOpArg "*")
      else mulLoop cfg flags m d rest cost2 total' (limbs total') := rfl


theorem mulStep_ok {cfg : Cfg} {flags m d : Nat} {arg : Val} {cost : Nat} {total : Int} {l0 : Nat} {r : Nat × Int}
    (h : mulStep cfg flags m d arg cost total l0 = .ok r) :
    LoopOk r.1 cost (fun m' => mulStep cfg flags m' d arg cost total l0) r := by
  revert h
  fun_cases mulStep cfg flags m d arg cost total l0 <;> intro h <;> step_ok_core mulStep h

theorem mulStep_mono {cfg : Cfg} {flags m d : Nat} {arg : Val} {cost : Nat} {total : Int} {l0 : Nat} {x : Except Err _}
    (h : mulStep cfg flags m d arg cost total l0 = x)
    (hne : x ≠ .error .CostExceeded) {m' : Nat} (hle : m ≤ m') : mulStep cfg flags m' d arg cost total l0 = x := by
  revert h
  fun_cases mulStep cfg flags m d arg cost total l0 <;> intro h <;> loop_mono_core mulStep hne hle h

theorem mulLoop_ok {cfg : Cfg} {flags m d : Nat} {l : List Val} {cost : Nat} {total : Int} {l0 : Nat} {r : Nat × Int}
    (h : mulLoop cfg flags m d l cost total l0 = .ok r) :
    LoopOk r.1 cost (fun m' => mulLoop cfg flags m' d l cost total l0) r := by
  induction l generalizing cost total l0 with
  | nil => cases h; exact LoopOk.pure (Nat.le_refl _)
  | cons arg rest ih =>
    rw [mulLoop_cons] at h
    cases hs : mulStep cfg flags m d arg cost total l0 with
    | error e => simp only [hs] at h; cases h
    | ok p =>
      obtain ⟨c2, t'⟩ := p
      simp only [hs] at h
      split at h
      · cases h
      · rename_i hlim
        exact (mulStep_ok hs).bind (ih h)
          (fun m' hm => by simp only [mulLoop_cons, hm, if_neg hlim])
          (fun m' hm => by simp only [mulLoop_cons, hm])

theorem mulLoop_mono {cfg : Cfg} {flags m d : Nat} {l : List Val} {cost : Nat} {total : Int} {l0 : Nat}
    {x : Except Err _} (h : mulLoop cfg flags m d l cost total l0 = x)
    (hne : x ≠ .error .CostExceeded) {m' : Nat} (hle : m ≤ m') : mulLoop cfg flags m' d l cost total l0 = x := by
  induction l generalizing cost total l0 with
  | nil => subst h; rfl
  | cons arg rest ih =>
    rw [mulLoop_cons] at h ⊢
    cases hs : mulStep cfg flags m d arg cost total l0 with
    | error e' =>
      simp only [hs] at h; subst h
      simp only [mulStep_mono hs hne hle]
    | ok p =>
      obtain ⟨c2, t'⟩ := p
      simp only [hs] at h
      simp only [mulStep_mono hs (fun hh => nomatch hh) hle]
      split at h
      · rename_i hlim; simp only [if_pos hlim]; exact h
      · rename_i hlim; simp only [if_neg hlim]; exact ih h

end Clvm.Interp
