/-
A compositional (big-step) account of the small-step machine `runLoop`.

* `Steps`            : "the loop goes from `(s, cost)` to `(s', cost')` in `n` iterations"
                       (as an equation between loop results, so that it composes and rewrites).
* `runTo L`          : the loop stopped the first time the operation stack is no longer than `L`;
                       `runLoop_eq_runTo` splits every run at that point (the steps only look at the
                       top of the operation stack).
* `Above` / `Bal`    : the well-bracketing invariant; `runTo_bracket`: when the operations pushed by
                       `eval_pair program` have been consumed, exactly one value has been pushed and the
                       environment stack, the softfork stack and the checkpoint stack are as before;
                       nothing below was touched.
* `Evals`            : the big-step judgment (semantic: "from every machine state with these
                       observable parameters, whatever lies underneath"), with its derived rules
                       `Evals.path`, `Evals.quote`, `Evals.op`, `Evals.apply` and the list judgment `EvalArgs`
                       (arguments are evaluated right to left; every charge and every
                       `cost > effective_max_cost` check of the loop is a premise).
-/
import ClvmProofs.Lemmas.Interp.MachineStepWf

namespace Clvm.Interp
open Clvm Clvm.Alloc

/-! ### stack primitives as equations -/

theorem pop_cons {s : MState} {v : Val} {vs : List Val} (h : s.valStack = v :: vs) :
    s.pop = .ok (v, { s with valStack := vs, valLen := s.valLen - 1 }) := by
  unfold MState.pop; rw [h]

theorem pop_ok_iff {s : MState} {v : Val} {s' : MState} :
    s.pop = .ok (v, s') ↔ ∃ vs, s.valStack = v :: vs ∧ s' = { s with valStack := vs, valLen := s.valLen - 1 } := by
  unfold MState.pop
  cases h : s.valStack with
  | nil => simp
  | cons x xs =>
    simp only [Except.ok.injEq, Prod.mk.injEq, List.cons.injEq]
    constructor
    · rintro ⟨rfl, rfl⟩; exact ⟨xs, ⟨rfl, rfl⟩, rfl⟩
    · rintro ⟨vs, ⟨rfl, rfl⟩, rfl⟩; exact ⟨rfl, rfl⟩

theorem push_ok_iff {s : MState} {v : Val} {s' : MState} :
    s.push v = .ok s' ↔ s.valLen ≠ Gen.STACK_SIZE_LIMIT ∧
      s' = { s with valStack := v :: s.valStack, valLen := s.valLen + 1 } := by
  unfold MState.push
  by_cases h : s.valLen = Gen.STACK_SIZE_LIMIT
  · have : (s.valLen == Gen.STACK_SIZE_LIMIT) = true := beq_iff_eq.2 h
    simp only [this, if_true, reduceCtorEq, false_iff]
    exact fun h' => h'.1 h
  · have : (s.valLen == Gen.STACK_SIZE_LIMIT) = false := beq_eq_false_iff_ne.2 h
    simp only [this, Bool.false_eq_true, if_false, Except.ok.injEq]
    exact ⟨fun h' => ⟨h, h'.symm⟩, fun h' => h'.2.symm⟩

theorem pushEnv_ok_iff {s : MState} {v : Val} {s' : MState} :
    s.pushEnv v = .ok s' ↔ s.envLen ≠ Gen.STACK_SIZE_LIMIT ∧
      s' = { s with envStack := v :: s.envStack, envLen := s.envLen + 1 } := by
  unfold MState.pushEnv
  by_cases h : s.envLen = Gen.STACK_SIZE_LIMIT
  · have : (s.envLen == Gen.STACK_SIZE_LIMIT) = true := beq_iff_eq.2 h
    simp only [this, if_true, reduceCtorEq, false_iff]
    exact fun h' => h'.1 h
  · have : (s.envLen == Gen.STACK_SIZE_LIMIT) = false := beq_eq_false_iff_ne.2 h
    simp only [this, Bool.false_eq_true, if_false, Except.ok.injEq]
    exact ⟨fun h' => ⟨h, h'.symm⟩, fun h' => h'.2.symm⟩

theorem push_ok {s : MState} (v : Val) (h : s.valLen ≠ Gen.STACK_SIZE_LIMIT) :
    s.push v = .ok { s with valStack := v :: s.valStack, valLen := s.valLen + 1 } := by
  exact push_ok_iff.2 ⟨h, rfl⟩

theorem pushEnv_ok {s : MState} (v : Val) (h : s.envLen ≠ Gen.STACK_SIZE_LIMIT) :
    s.pushEnv v = .ok { s with envStack := v :: s.envStack, envLen := s.envLen + 1 } := by
  exact pushEnv_ok_iff.2 ⟨h, rfl⟩

/-! ### `Steps`: n iterations of the loop -/

/-- the loop, started at `(s, cost)`, is after `n` iterations at `(s', cost')` -/
def Steps (cfg : Cfg) (d : Dialect) (mc : Nat) (n : Nat) (s : MState) (cost : Nat) (s' : MState) (cost' : Nat) :
    Prop :=
  ∀ fuel, runLoop cfg d mc (fuel + n) s cost = runLoop cfg d mc fuel s' cost'

theorem Steps.refl (cfg : Cfg) (d : Dialect) (mc : Nat) (s : MState) (cost : Nat) :
    Steps cfg d mc 0 s cost s cost := fun _ => rfl

theorem Steps.trans {cfg : Cfg} {d : Dialect} {mc n m : Nat} {s1 s2 s3 : MState} {c1 c2 c3 : Nat}
    (h1 : Steps cfg d mc n s1 c1 s2 c2) (h2 : Steps cfg d mc m s2 c2 s3 c3) :
    Steps cfg d mc (m + n) s1 c1 s3 c3 := by
  intro fuel
  rw [← Nat.add_assoc, h1, h2]

/-- one iteration -/
theorem Steps.one {cfg : Cfg} {d : Dialect} {mc : Nat} {s : MState} {cost : Nat} {op : Operation}
    {ops : List Operation} {c : Nat} {s' : MState}
    (hc : cost ≤ effMax mc s) (hop : s.opStack = op :: ops)
    (hst : stepOp cfg d { s with opStack := ops } op cost (effMax mc s) = .ok (c, s')) :
    Steps cfg d mc 1 s cost s' (cost + c) := by
  intro fuel
  rw [runLoop_succ]
  unfold loopBody
  have : ¬ cost > effMax mc s := by omega
  simp only [this, if_false, hop, hst]

theorem Steps.cast {cfg : Cfg} {d : Dialect} {mc n : Nat} {s s' t' : MState} {c c' e' : Nat}
    (h : Steps cfg d mc n s c s' c') (hs : s' = t') (hc : c' = e') : Steps cfg d mc n s c t' e' := by
  subst hs; subst hc; exact h

/-! ### `runTo`: stop the first time the operation stack is no longer than `L` -/

/-- the main loop, stopped as soon as `s.opStack.length ≤ L` (checked before the cost check of the
iteration); returns the cost, the state and the unused fuel at that point -/
def runTo (cfg : Cfg) (d : Dialect) (mc : Nat) (L : Nat) : Nat → MState → (cost : Nat) → Option (M (Nat × MState × Nat))
  | 0, _, _ => none
  | fuel + 1, s, cost =>
    if s.opStack.length ≤ L then some (.ok (cost, s, fuel + 1))
    else if cost > effMax mc s then some (.error (.err .CostExceeded))
    else
      match s.opStack with
      | [] => some (.ok (cost, s, fuel + 1))
      | op :: ops =>
        match stepOp cfg d { s with opStack := ops } op cost (effMax mc s) with
        | .error e => some (.error e)
        | .ok (c, s') => runTo cfg d mc L fuel s' (cost + c)

/-- **the loop on `ops ++ K` is the loop on `ops` followed by the loop on `K`**: every run splits at
the first time the operation stack returns to length `L` -/
theorem runLoop_eq_runTo (cfg : Cfg) (d : Dialect) (mc L : Nat) (fuel : Nat) :
    ∀ (s : MState) (cost : Nat),
      runLoop cfg d mc fuel s cost =
        match runTo cfg d mc L fuel s cost with
        | none => none
        | some (.error e) => some (.error e)
        | some (.ok (cost', s', fuel')) => runLoop cfg d mc fuel' s' cost' := by
  induction fuel with
  | zero => intro s cost; rfl
  | succ n ih =>
    intro s cost
    unfold runTo
    by_cases hl : s.opStack.length ≤ L
    · simp only [hl, if_true]
    · simp only [hl, if_false]
      rw [runLoop_succ]
      unfold loopBody
      by_cases hc : cost > effMax mc s
      · simp only [hc, if_true]
      · simp only [hc, if_false]
        cases hop : s.opStack with
        | nil => simp only [runLoop_succ, loopBody, hc, if_false, hop]
        | cons op ops =>
          simp only
          cases hst : stepOp cfg d { s with opStack := ops } op cost (effMax mc s) with
          | error e => rfl
          | ok r =>
            obtain ⟨c, s'⟩ := r
            exact ih s' (cost + c)

/-- the unused fuel is not more than the fuel given, and strictly less if at least one step was taken -/
theorem runTo_fuel_le (cfg : Cfg) (d : Dialect) (mc L : Nat) (fuel : Nat) :
    ∀ (s : MState) (cost : Nat) (cost' : Nat) (s' : MState) (fuel' : Nat),
      runTo cfg d mc L fuel s cost = some (.ok (cost', s', fuel')) →
      fuel' ≤ fuel ∧ (L < s.opStack.length → fuel' < fuel) := by
  induction fuel with
  | zero => intro s cost cost' s' fuel' h; simp [runTo] at h
  | succ n ih =>
    intro s cost cost' s' fuel' h
    unfold runTo at h
    by_cases hl : s.opStack.length ≤ L
    · simp only [hl, if_true, Option.some.injEq, Except.ok.injEq, Prod.mk.injEq] at h
      obtain ⟨_, _, rfl⟩ := h
      exact ⟨Nat.le_refl _, fun h' => by omega⟩
    · simp only [hl, if_false] at h
      by_cases hc : cost > effMax mc s
      · simp [hc] at h
      · simp only [hc, if_false] at h
        cases hop : s.opStack with
        | nil => rw [hop] at hl; simp at hl
        | cons op ops =>
          rw [hop] at h
          simp only at h
          cases hst : stepOp cfg d { s with opStack := ops } op cost (effMax mc s) with
          | error e => rw [hst] at h; simp at h
          | ok r =>
            obtain ⟨c, s1⟩ := r
            rw [hst] at h
            have := (ih s1 (cost + c) cost' s' fuel' h).1
            exact ⟨by omega, fun _ => by omega⟩

/-- a successful run passes through the level-`L` point -/
theorem runTo_of_runLoop_ok {cfg : Cfg} {d : Dialect} {mc L fuel : Nat} {s : MState} {cost : Nat}
    {r : Nat × MState} (h : runLoop cfg d mc fuel s cost = some (.ok r)) :
    ∃ cost' s' fuel', runTo cfg d mc L fuel s cost = some (.ok (cost', s', fuel')) ∧
      runLoop cfg d mc fuel' s' cost' = some (.ok r) ∧ fuel' ≤ fuel ∧ (L < s.opStack.length → fuel' < fuel) := by
  rw [runLoop_eq_runTo cfg d mc L] at h
  cases hr : runTo cfg d mc L fuel s cost with
  | none => rw [hr] at h; simp at h
  | some x =>
    cases x with
    | error e => rw [hr] at h; simp at h
    | ok q =>
      obtain ⟨cost', s', fuel'⟩ := q
      rw [hr] at h
      have := runTo_fuel_le cfg d mc L fuel s cost cost' s' fuel' hr
      exact ⟨cost', s', fuel', rfl, h, this.1, this.2⟩

/-- where `runTo` stops, the operation stack is short -/
theorem runTo_stop_len (cfg : Cfg) (d : Dialect) (mc L : Nat) (fuel : Nat) :
    ∀ (s : MState) (cost : Nat) (cost' : Nat) (s' : MState) (fuel' : Nat),
      runTo cfg d mc L fuel s cost = some (.ok (cost', s', fuel')) → s'.opStack.length ≤ L := by
  induction fuel with
  | zero => intro s cost cost' s' fuel' h; simp [runTo] at h
  | succ n ih =>
    intro s cost cost' s' fuel' h
    unfold runTo at h
    by_cases hl : s.opStack.length ≤ L
    · simp only [hl, if_true, Option.some.injEq, Except.ok.injEq, Prod.mk.injEq] at h
      obtain ⟨_, rfl, _⟩ := h
      exact hl
    · simp only [hl, if_false] at h
      by_cases hc : cost > effMax mc s
      · simp [hc] at h
      · simp only [hc, if_false] at h
        cases hop : s.opStack with
        | nil => rw [hop] at hl; simp at hl
        | cons op ops =>
          rw [hop] at h
          simp only at h
          cases hst : stepOp cfg d { s with opStack := ops } op cost (effMax mc s) with
          | error e => rw [hst] at h; simp at h
          | ok r =>
            obtain ⟨c, s1⟩ := r
            rw [hst] at h
            exact ih s1 (cost + c) cost' s' fuel' h

/-! ### what `eval_pair` pushes -/

/-- `s1` is `s` with `ops'`, `vs'`, `es'` pushed on the three stacks and `na'` more pending checkpoints;
the softfork stack and the counters are those of `s` -/
def Pushed (s s1 : MState) (ops' : List Operation) (vs' es' : List Val) (na' : Nat) : Prop :=
  s1 = { s with opStack := ops' ++ s.opStack, valStack := vs' ++ s.valStack, valLen := s.valLen + vs'.length,
                envStack := es' ++ s.envStack, envLen := s.envLen + es'.length,
                allocatorStack := s.allocatorStack + na' }

theorem pushOperands_eq : ∀ (ol : Val) (s : MState) (t : Val) (s' : MState),
    pushOperands ol s = .ok (t, s') →
    ∃ ops' vs', (∀ o ∈ ops', o = Operation.SwapEval) ∧ ops'.length = vs'.length ∧
      Pushed s s' ops' vs' [] 0 := by
  intro ol
  induction ol with
  | atom b i =>
    intro s t s' h
    simp only [pushOperands] at h
    have := M_pure_ok h
    simp only [Prod.mk.injEq] at this
    obtain ⟨_, rfl⟩ := this
    exact ⟨[], [], by simp, rfl, rfl⟩
  | pair f r _ ihr =>
    intro s t s' h
    simp only [pushOperands] at h
    obtain ⟨s1, h1, h⟩ := M_bind_ok h
    obtain ⟨hl, rfl⟩ := push_ok_iff.1 h1
    obtain ⟨ops', vs', hall, hlen, hp⟩ := ihr _ t s' h
    refine ⟨ops' ++ [.SwapEval], vs' ++ [f], ?_, by simp [hlen], ?_⟩
    · intro o ho
      simp only [List.mem_append, List.mem_singleton] at ho
      rcases ho with ho | ho
      · exact hall o ho
      · exact ho
    · unfold Pushed at hp ⊢
      rw [hp]
      simp [MState.pushOp, Nat.add_assoc, Nat.add_comm 1]

/-! ### the well-bracketing invariant -/

/-- a segment of pending operations, with `nv` values, `ne` environments, `ng` guards and `na`
checkpoints above the base of the stacks, consumes exactly those and leaves one value.
(`Apply`, `Cons` and `SwapEval` have net effect −1 on the value stack once completed; a completed
`eval_pair` has net effect +1.) -/
def Bal : List Operation → (nv ne ng na : Nat) → Prop
  | [], nv, ne, ng, na => nv = 1 ∧ ne = 0 ∧ ng = 0 ∧ na = 0
  | .Apply :: ops, nv, ne, ng, na => 2 ≤ nv ∧ 1 ≤ ne ∧ Bal ops (nv - 1) (ne - 1) ng na
  | .Cons :: ops, nv, ne, ng, na => 2 ≤ nv ∧ Bal ops (nv - 1) ne ng na
  | .SwapEval :: ops, nv, ne, ng, na => 2 ≤ nv ∧ 1 ≤ ne ∧ Bal ops (nv - 1) ne ng na
  | .ExitGuard :: ops, nv, ne, ng, na => 1 ≤ nv ∧ 1 ≤ ng ∧ Bal ops nv ne (ng - 1) na
  | .RestoreAllocator :: ops, nv, ne, ng, na => 1 ≤ nv ∧ 1 ≤ na ∧ Bal ops nv ne ng (na - 1)

/-- pushing `ops'` together with `nv'` values, `ne'` environments and `na'` checkpoints in front of a
balanced segment that is waiting for one value gives a balanced segment -/
def BalPush (ops' : List Operation) (nv' ne' na' : Nat) : Prop :=
  ∀ ops nv ne ng na, Bal ops (nv + 1) ne ng na → Bal (ops' ++ ops) (nv + nv') (ne + ne') ng (na + na')

theorem Bal_swaps (ops' : List Operation) (hall : ∀ o ∈ ops', o = Operation.SwapEval) :
    ∀ (ops : List Operation) (nv ne ng na : Nat), 1 ≤ nv → 1 ≤ ne → Bal ops nv ne ng na →
      Bal (ops' ++ ops) (nv + ops'.length) ne ng na := by
  induction ops' with
  | nil => intro ops nv ne ng na _ _ h; simpa using h
  | cons o os ih =>
    intro ops nv ne ng na h1 h2 h
    have ho : o = .SwapEval := hall o (by simp)
    subst ho
    have := ih (fun o ho => hall o (by simp [ho])) ops nv ne ng na h1 h2 h
    simp only [List.cons_append, List.length_cons, Bal]
    refine ⟨by omega, h2, ?_⟩
    have e : nv + (os.length + 1) - 1 = nv + os.length := by omega
    rw [e]; exact this

theorem evalOpAtom_pushed {d : Dialect} {s s1 : MState} {o ol env : Val} {k : Nat}
    (h : evalOpAtom d s o ol env = .ok (k, s1)) :
    ∃ ops' vs' es' na', Pushed s s1 ops' vs' es' na' ∧ BalPush ops' vs'.length es'.length na' := by
  unfold evalOpAtom at h
  split at h
  · obtain ⟨s2, h1, h⟩ := M_bind_ok h
    have := M_pure_ok h
    simp only [Prod.mk.injEq] at this
    obtain ⟨_, rfl⟩ := this
    obtain ⟨_, rfl⟩ := push_ok_iff.1 h1
    refine ⟨[], [ol], [], 0, rfl, ?_⟩
    intro ops nv ne ng na hb
    simpa using hb
  · simp only at h
    obtain ⟨s2, h1, h⟩ := M_bind_ok h
    obtain ⟨_, rfl⟩ := pushEnv_ok_iff.1 h1
    obtain ⟨s3, h2, h⟩ := M_bind_ok h
    obtain ⟨_, rfl⟩ := push_ok_iff.1 h2
    obtain ⟨⟨t, s4⟩, h3, h⟩ := M_bind_ok h
    obtain ⟨opsS, vsS, hall, hlen, hp⟩ := pushOperands_eq _ _ _ _ h3
    simp only at h
    split at h
    · split at h
      · cases h
      · obtain ⟨s5, h4, h⟩ := M_bind_ok h
        have := M_pure_ok h
        simp only [Prod.mk.injEq] at this
        obtain ⟨_, rfl⟩ := this
        obtain ⟨_, rfl⟩ := push_ok_iff.1 h4
        unfold Pushed at hp
        subst hp
        cases hgc : d.gcCandidate o
        · refine ⟨opsS ++ [.Apply], Val.nil :: vsS ++ [o], [env], 0, ?_, ?_⟩
          · unfold Pushed
            simp [MState.pushOp, Nat.add_assoc, Nat.add_comm 1]
          · intro ops nv ne ng na hb
            have := Bal_swaps opsS hall (.Apply :: ops) (nv + 2) (ne + 1) ng na (by omega) (by omega)
              (by simp only [Bal]; exact ⟨by omega, by omega, by simpa using hb⟩)
            simp only [List.append_assoc, List.cons_append, List.nil_append, List.length_cons,
              List.length_append, List.length_nil]
            rw [hlen] at this
            have e : nv + (vsS.length + (0 + 1) + 1) = nv + 2 + vsS.length := by omega
            rw [e]; exact this
        · refine ⟨opsS ++ [.Apply, .RestoreAllocator], Val.nil :: vsS ++ [o], [env], 1, ?_, ?_⟩
          · unfold Pushed
            simp [MState.pushOp, Nat.add_assoc, Nat.add_comm 1]
          · intro ops nv ne ng na hb
            have := Bal_swaps opsS hall (.Apply :: .RestoreAllocator :: ops) (nv + 2) (ne + 1) ng (na + 1)
              (by omega) (by omega)
              (by simp only [Bal]; exact ⟨by omega, by omega, by omega, by omega, by simpa using hb⟩)
            simp only [List.append_assoc, List.cons_append, List.nil_append, List.length_cons,
              List.length_append, List.length_nil]
            rw [hlen] at this
            have e : nv + (vsS.length + (0 + 1) + 1) = nv + 2 + vsS.length := by omega
            rw [e]; exact this
    · cases h

theorem evalPair_pushed {cfg : Cfg} {d : Dialect} {s s1 : MState} {prog env : Val} {k : Nat}
    (h : evalPair cfg d s prog env = .ok (k, s1)) :
    ∃ ops' vs' es' na', Pushed s s1 ops' vs' es' na' ∧ BalPush ops' vs'.length es'.length na' := by
  cases prog with
  | atom b inl =>
    simp only [evalPair] at h
    obtain ⟨r, _, h⟩ := M_bind_ok h
    obtain ⟨s2, h2, h⟩ := M_bind_ok h
    have := M_pure_ok h
    simp only [Prod.mk.injEq] at this
    obtain ⟨_, rfl⟩ := this
    obtain ⟨_, rfl⟩ := push_ok_iff.1 h2
    refine ⟨[], [r.2], [], 0, rfl, ?_⟩
    intro ops nv ne ng na hb
    simpa using hb
  | pair opNode opList =>
    cases opNode with
    | atom ob oi => simp only [evalPair] at h; exact evalOpAtom_pushed h
    | pair newOperator x =>
      simp only [evalPair] at h
      obtain ⟨inner, _, h⟩ := M_bind_ok h
      split at h
      · cases h
      · obtain ⟨s2, h1, h⟩ := M_bind_ok h
        obtain ⟨_, rfl⟩ := pushEnv_ok_iff.1 h1
        obtain ⟨s3, h2, h⟩ := M_bind_ok h
        obtain ⟨_, rfl⟩ := push_ok_iff.1 h2
        obtain ⟨s4, h3, h⟩ := M_bind_ok h
        obtain ⟨_, rfl⟩ := push_ok_iff.1 h3
        have := M_pure_ok h
        simp only [Prod.mk.injEq] at this
        obtain ⟨_, rfl⟩ := this
        refine ⟨[.Apply], [opList, newOperator], [env], 0, ?_, ?_⟩
        · unfold Pushed; simp [MState.pushOp]
        · intro ops nv ne ng na hb
          simp only [List.cons_append, List.nil_append, Bal, List.length_cons, List.length_nil]
          exact ⟨by omega, by omega, by simpa using hb⟩

/-- `s` is the base state `b` with `ops`, `vs`, `es`, `gs` on top of its four stacks and `na` more
pending checkpoints (the counters are unconstrained) -/
structure Above (b s : MState) (ops : List Operation) (vs es : List Val) (gs : List SoftforkGuard) (na : Nat) :
    Prop where
  ops : s.opStack = ops ++ b.opStack
  vals : s.valStack = vs ++ b.valStack
  vlen : s.valLen = b.valLen + vs.length
  envs : s.envStack = es ++ b.envStack
  elen : s.envLen = b.envLen + es.length
  sfs : s.softforkStack = gs ++ b.softforkStack
  alloc : s.allocatorStack = b.allocatorStack + na

/-- the invariant of a bracketed evaluation above the base state `b` -/
def Inv (b s : MState) : Prop :=
  ∃ ops vs es gs na, Above b s ops vs es gs na ∧ Bal ops vs.length es.length gs.length na

theorem Above.evalPair {cfg : Cfg} {d : Dialect} {b s s1 : MState} {ops vs es gs na} {prog env : Val} {k : Nat}
    (hA : Above b s ops vs es gs na) (hB : Bal ops (vs.length + 1) es.length gs.length na)
    (h : evalPair cfg d s prog env = .ok (k, s1)) : Inv b s1 := by
  obtain ⟨ops', vs', es', na', hp, hbp⟩ := evalPair_pushed h
  unfold Pushed at hp
  subst hp
  refine ⟨ops' ++ ops, vs' ++ vs, es' ++ es, gs, na + na', ⟨?_, ?_, ?_, ?_, ?_, ?_, ?_⟩, ?_⟩
  · simp [hA.ops]
  · simp [hA.vals]
  · simp [hA.vlen]; omega
  · simp [hA.envs]
  · simp [hA.elen]; omega
  · simp [hA.sfs]
  · simp [hA.alloc]; omega
  · have := hbp ops vs.length es.length gs.length na hB
    simp only [List.length_append]
    rw [Nat.add_comm vs'.length, Nat.add_comm es'.length]
    exact this

theorem Above.guard {b s : MState} {ops vs es gs na} (hA : Above b s ops vs es gs na) (g : SoftforkGuard) :
    Above b ({ s with softforkStack := g :: s.softforkStack }.pushOp .ExitGuard) (.ExitGuard :: ops) vs es
      (g :: gs) na :=
  ⟨by simp [MState.pushOp, hA.ops], hA.vals, hA.vlen, hA.envs, hA.elen, by simp [MState.pushOp, hA.sfs], hA.alloc⟩

theorem list_two_le {α} {l : List α} (h : 2 ≤ l.length) : ∃ a b t, l = a :: b :: t := by
  match l, h with
  | a :: b :: t, _ => exact ⟨a, b, t, rfl⟩

theorem list_one_le {α} {l : List α} (h : 1 ≤ l.length) : ∃ a t, l = a :: t := by
  match l, h with
  | a :: t, _ => exact ⟨a, t, rfl⟩

/-- every step taken while the operation stack is longer than the base preserves the invariant -/
theorem stepOp_inv {cfg : Cfg} {d : Dialect} {b s s' : MState} {op : Operation} {ops vs es gs na}
    {cost em c : Nat} (hA : Above b s (op :: ops) vs es gs na)
    (hB : Bal (op :: ops) vs.length es.length gs.length na)
    (h : stepOp cfg d { s with opStack := ops ++ b.opStack } op cost em = .ok (c, s')) : Inv b s' := by
  have hA0 : Above b { s with opStack := ops ++ b.opStack } ops vs es gs na :=
    ⟨rfl, hA.vals, hA.vlen, hA.envs, hA.elen, hA.sfs, hA.alloc⟩
  generalize hs0 : ({ s with opStack := ops ++ b.opStack } : MState) = s0 at h hA0
  clear hA hs0 s
  cases op with
  | Cons =>
    simp only [Bal] at hB
    obtain ⟨a1, a2, vt, rfl⟩ := list_two_le hB.1
    simp only [stepOp] at h
    unfold consOp at h
    obtain ⟨⟨v1, s1⟩, h1, h⟩ := M_bind_ok h
    obtain ⟨r1, hr1, rfl⟩ := pop_ok_iff.1 h1
    obtain ⟨⟨v2, s2⟩, h2, h⟩ := M_bind_ok h
    obtain ⟨r2, hr2, rfl⟩ := pop_ok_iff.1 h2
    obtain ⟨⟨p, c'⟩, _, h⟩ := M_bind_ok h
    obtain ⟨s3, h4, h⟩ := M_bind_ok h
    obtain ⟨_, rfl⟩ := push_ok_iff.1 h4
    have := M_pure_ok h
    simp only [Prod.mk.injEq] at this
    obtain ⟨_, rfl⟩ := this
    simp only at hr2
    rw [hA0.vals] at hr1
    simp only [List.cons_append, List.cons.injEq] at hr1
    obtain ⟨_, rfl⟩ := hr1
    simp only [List.cons.injEq] at hr2
    obtain ⟨_, rfl⟩ := hr2
    refine ⟨ops, p :: vt, es, gs, na, ⟨hA0.ops, rfl, ?_, hA0.envs, hA0.elen, hA0.sfs, hA0.alloc⟩, ?_⟩
    · simp [hA0.vlen]; omega
    · simpa using hB.2
  | SwapEval =>
    simp only [Bal] at hB
    obtain ⟨a1, a2, vt, rfl⟩ := list_two_le hB.1
    simp only [stepOp] at h
    unfold swapEvalOp at h
    obtain ⟨⟨v1, s1⟩, h1, h⟩ := M_bind_ok h
    obtain ⟨r1, hr1, rfl⟩ := pop_ok_iff.1 h1
    obtain ⟨⟨v2, s2⟩, h2, h⟩ := M_bind_ok h
    obtain ⟨r2, hr2, rfl⟩ := pop_ok_iff.1 h2
    simp only at h hr2
    rw [hA0.vals] at hr1
    simp only [List.cons_append, List.cons.injEq] at hr1
    obtain ⟨_, rfl⟩ := hr1
    simp only [List.cons.injEq] at hr2
    obtain ⟨_, rfl⟩ := hr2
    split at h
    · cases h
    · obtain ⟨s3, h3, h⟩ := M_bind_ok h
      obtain ⟨_, rfl⟩ := push_ok_iff.1 h3
      refine Above.evalPair (ops := .Cons :: ops) (vs := v1 :: vt) (es := es) (gs := gs) (na := na) ?_ ?_ h
      · refine ⟨?_, rfl, ?_, hA0.envs, hA0.elen, hA0.sfs, hA0.alloc⟩
        · simp [MState.pushOp, hA0.ops]
        · simp [MState.pushOp, hA0.vlen]; omega
      · simp only [Bal, List.length_cons]
        exact ⟨by omega, by simpa using hB.2.2⟩
  | RestoreAllocator =>
    simp only [Bal] at hB
    simp only [stepOp] at h
    split at h
    · cases h
    · split at h
      · cases h
      · simp only [Except.ok.injEq, Prod.mk.injEq] at h
        obtain ⟨_, rfl⟩ := h
        refine ⟨ops, vs, es, gs, na - 1, ⟨hA0.ops, hA0.vals, hA0.vlen, hA0.envs, hA0.elen, hA0.sfs, ?_⟩, hB.2.2⟩
        simp [hA0.alloc]; omega
  | ExitGuard =>
    simp only [Bal] at hB
    obtain ⟨a1, vt, rfl⟩ := list_one_le hB.1
    obtain ⟨g1, gt, rfl⟩ := list_one_le hB.2.1
    simp only [stepOp] at h
    unfold exitGuard at h
    rw [hA0.sfs] at h
    simp only [List.cons_append] at h
    split at h
    · cases h
    · rw [hA0.vals] at h
      simp only [List.cons_append] at h
      obtain ⟨s1, h1, h⟩ := M_bind_ok h
      obtain ⟨_, rfl⟩ := push_ok_iff.1 h1
      have := M_pure_ok h
      simp only [Prod.mk.injEq] at this
      obtain ⟨_, rfl⟩ := this
      refine ⟨ops, Val.nil :: vt, es, gt, na, ⟨hA0.ops, rfl, ?_, hA0.envs, hA0.elen, rfl, hA0.alloc⟩, ?_⟩
      · have := hA0.vlen
        simp only [List.length_cons] at this ⊢
        omega
      · simpa using hB.2.2
  | Apply =>
    simp only [Bal] at hB
    obtain ⟨a1, a2, vt, rfl⟩ := list_two_le hB.1
    obtain ⟨e1, et, rfl⟩ := list_one_le hB.2.1
    simp only [stepOp] at h
    unfold applyOp at h
    obtain ⟨⟨v1, s1⟩, h1, h⟩ := M_bind_ok h
    obtain ⟨r1, hr1, rfl⟩ := pop_ok_iff.1 h1
    obtain ⟨⟨v2, s2⟩, h2, h⟩ := M_bind_ok h
    obtain ⟨r2, hr2, rfl⟩ := pop_ok_iff.1 h2
    simp only at h hr2
    rw [hA0.vals] at hr1
    simp only [List.cons_append, List.cons.injEq] at hr1
    obtain ⟨_, rfl⟩ := hr1
    simp only [List.cons.injEq] at hr2
    obtain ⟨_, rfl⟩ := hr2
    rw [hA0.envs] at h
    simp only [List.cons_append] at h
    -- the state after the three pops
    have hA3 : Above b { s0 with valStack := vt ++ b.valStack, valLen := s0.valLen - 1 - 1,
                                 envStack := et ++ b.envStack, envLen := s0.envLen - 1 } ops vt et gs na := by
      refine ⟨hA0.ops, rfl, ?_, rfl, ?_, hA0.sfs, hA0.alloc⟩
      · simp [hA0.vlen]
      · simp [hA0.elen]
    have hB3 : Bal ops (vt.length + 1) et.length gs.length na := by simpa using hB.2.2
    split at h
    · -- apply
      obtain ⟨⟨newOperator, env⟩, _, h⟩ := M_bind_ok h
      obtain ⟨⟨c1, s4⟩, h4, h⟩ := M_bind_ok h
      have := M_pure_ok h
      simp only [Prod.mk.injEq] at this
      obtain ⟨_, rfl⟩ := this
      exact hA3.evalPair hB3 h4
    · split at h
      · -- softfork
        obtain ⟨f, _, h⟩ := M_bind_ok h
        obtain ⟨expectedCost, _, h⟩ := M_bind_ok h
        split at h
        · cases h
        · split at h
          · cases h
          · split at h
            · split at h
              · obtain ⟨s4, h4, h⟩ := M_bind_ok h
                obtain ⟨_, rfl⟩ := push_ok_iff.1 h4
                have := M_pure_ok h
                simp only [Prod.mk.injEq] at this
                obtain ⟨_, rfl⟩ := this
                refine ⟨ops, Val.nil :: vt, et, gs, na,
                  ⟨hA3.ops, rfl, ?_, hA3.envs, hA3.elen, hA3.sfs, hA3.alloc⟩, ?_⟩
                · have := hA3.vlen
                  simp only [List.length_cons] at this ⊢
                  omega
                · simpa using hB3
              · cases h
            · split at h
              · cases h
              · obtain ⟨⟨c1, s4⟩, h4, h⟩ := M_bind_ok h
                have := M_pure_ok h
                simp only [Prod.mk.injEq] at this
                obtain ⟨_, rfl⟩ := this
                refine (hA3.guard _).evalPair ?_ h4
                simp only [Bal, List.length_cons]
                exact ⟨by omega, by omega, by simpa using hB3⟩
      · -- ordinary operator
        split at h
        · cases h
        · cases h
        · obtain ⟨s4, h4, h⟩ := M_bind_ok h
          obtain ⟨_, rfl⟩ := push_ok_iff.1 h4
          have := M_pure_ok h
          simp only [Prod.mk.injEq] at this
          obtain ⟨_, rfl⟩ := this
          refine ⟨ops, _ :: vt, et, gs, na,
            ⟨hA3.ops, rfl, ?_, hA3.envs, hA3.elen, hA3.sfs, hA3.alloc⟩, ?_⟩
          · have := hA3.vlen
            simp only [List.length_cons] at this ⊢
            omega
          · simpa using hB3

/-- the invariant holds wherever `runTo` (with `L` the base's operation-stack length) stops -/
theorem runTo_inv (cfg : Cfg) (d : Dialect) (mc : Nat) (b : MState) (fuel : Nat) :
    ∀ (s : MState) (cost : Nat) (cost' : Nat) (s' : MState) (fuel' : Nat), Inv b s →
      runTo cfg d mc b.opStack.length fuel s cost = some (.ok (cost', s', fuel')) → Inv b s' := by
  induction fuel with
  | zero => intro s cost cost' s' fuel' _ h; simp [runTo] at h
  | succ n ih =>
    intro s cost cost' s' fuel' hI h
    unfold runTo at h
    by_cases hl : s.opStack.length ≤ b.opStack.length
    · simp only [hl, if_true, Option.some.injEq, Except.ok.injEq, Prod.mk.injEq] at h
      obtain ⟨_, rfl, _⟩ := h
      exact hI
    · simp only [hl, if_false] at h
      by_cases hc : cost > effMax mc s
      · simp [hc] at h
      · simp only [hc, if_false] at h
        obtain ⟨ops, vs, es, gs, na, hA, hB⟩ := hI
        cases ops with
        | nil => exact absurd (by simp [hA.ops]) hl
        | cons op ops =>
          have hop := hA.ops
          simp only [List.cons_append] at hop
          rw [hop] at h
          simp only at h
          cases hst : stepOp cfg d { s with opStack := ops ++ b.opStack } op cost (effMax mc s) with
          | error e => rw [hst] at h; simp at h
          | ok r =>
            obtain ⟨c, s1⟩ := r
            rw [hst] at h
            exact ih s1 (cost + c) cost' s' fuel' (stepOp_inv hA hB hst) h

/-- **Well-bracketing / frame theorem.**  Start `eval_pair program env` in *any* state `s` and let the
loop run until the operations it pushed have been consumed (the first time the operation stack is
back to the length it had in `s`).  Then the state is `s` with exactly one value pushed: the
operation stack, the environment stack (and its counter), the softfork stack and the pending
checkpoints are those of `s`, and so is everything below the new value.  Only the allocator counters
may differ. -/
theorem runTo_bracket {cfg : Cfg} {d : Dialect} {mc : Nat} {s s1 s' : MState} {prog env : Val}
    {k fuel cost cost' fuel' : Nat} (he : evalPair cfg d s prog env = .ok (k, s1))
    (hr : runTo cfg d mc s.opStack.length fuel s1 cost = some (.ok (cost', s', fuel'))) :
    ∃ v, s' = { s with valStack := v :: s.valStack, valLen := s.valLen + 1, ctr := s'.ctr } := by
  have hA : Above s s [] [] [] [] 0 := ⟨rfl, rfl, rfl, rfl, rfl, rfl, rfl⟩
  have hI : Inv s s1 := hA.evalPair (by simp [Bal]) he
  obtain ⟨ops, vs, es, gs, na, hA', hB⟩ := runTo_inv cfg d mc s fuel s1 cost cost' s' fuel' hI hr
  have hlen := runTo_stop_len cfg d mc _ fuel s1 cost cost' s' fuel' hr
  have hops : ops = [] := by
    have := hA'.ops
    rw [this] at hlen
    simp only [List.length_append] at hlen
    exact List.eq_nil_of_length_eq_zero (by omega)
  subst hops
  simp only [Bal] at hB
  obtain ⟨hv, hE, hg, rfl⟩ := hB
  obtain ⟨v, vt, rfl⟩ := list_one_le (Nat.le_of_eq hv.symm)
  have hvt : vt = [] := List.eq_nil_of_length_eq_zero (by simpa using hv)
  have hes : es = [] := List.eq_nil_of_length_eq_zero hE
  have hgs : gs = [] := List.eq_nil_of_length_eq_zero hg
  subst hvt hes hgs
  refine ⟨v, ?_⟩
  obtain ⟨h1, h2, h3, h4, h5, h6, h7⟩ := hA'
  cases s'
  simp only [List.nil_append, List.cons_append, List.length_cons, List.length_nil, Nat.add_zero] at *
  subst h1 h2 h3 h4 h5 h6 h7
  rfl

end Clvm.Interp
