/-
A compositional (big-step) account of the small-step machine `runLoop`.

* `Steps`            : "the loop goes from `(s, cost)` to `(s', cost')` in `n` iterations"
                       (as an equation between loop results, so that it composes and rewrites).
* `runTo L`          : the loop stopped the first time the operation stack is no longer than `L`;
                       `runLoop_eq_runTo` splits every run at that point (the steps only look at the
                       top of the operation stack).
* `Above` / `Bal`    : the well-bracketing invariant; `runTo_bracket`: when the operations pushed by
                       `eval_pair program` have been consumed, exactly one value has been pushed and the
                       environment stack, the softfork stack and the checkpoint stack are as before;
                       nothing below was touched.
* `Evals`            : the big-step judgment (semantic: "from every machine state with these
                       observable parameters, whatever lies underneath"), with its derived rules
                       `Evals.path`, `Evals.quote`, `Evals.op`, `Evals.apply` and the list judgment `EvalArgs`
                       (arguments are evaluated right to left; every charge and every
                       `cost > effective_max_cost` check of the loop is a premise).
-/
import ClvmProofs.Lemmas.Interp.MachineStepWf

namespace Clvm.Interp
open Clvm Clvm.Alloc

/-! ### stack primitives as equations -/

theorem bs_pop_cons {s : MState} {v : Val} {vs : List Val} (h : s.valStack = v :: vs) :
    s.pop = .ok (v, { s with valStack := vs, valLen := s.valLen - 1 }) := by
  unfold MState.pop; rw [h]

theorem bs_pop_ok_iff {s : MState} {v : Val} {s' : MState} :
    s.pop = .ok (v, s') ↔ ∃ vs, s.valStack = v :: vs ∧ s' = { s with valStack := vs, valLen := s.valLen - 1 } := by
  unfold MState.pop
  cases h : s.valStack with
  | nil => simp
  | cons x xs =>
    simp only [Except.ok.injEq, Prod.mk.injEq, List.cons.injEq]
    constructor
    · rintro ⟨rfl, rfl⟩; exact ⟨xs, ⟨rfl, rfl⟩, rfl⟩
    · rintro ⟨vs, ⟨rfl, rfl⟩, rfl⟩; exact ⟨rfl, rfl⟩

theorem bs_push_ok_iff {s : MState} {v : Val} {s' : MState} :
    s.push v = .ok s' ↔ s.valLen ≠ Gen.STACK_SIZE_LIMIT ∧
      s' = { s with valStack := v :: s.valStack, valLen := s.valLen + 1 } := by
  unfold MState.push
  by_cases h : s.valLen = Gen.STACK_SIZE_LIMIT
  · have : (s.valLen == Gen.STACK_SIZE_LIMIT) = true := beq_iff_eq.2 h
    simp only [this, if_true, reduceCtorEq, false_iff]
    exact fun h' => h'.1 h
  · have : (s.valLen == Gen.STACK_SIZE_LIMIT) = false := beq_eq_false_iff_ne.2 h
    simp only [this, Bool.false_eq_true, if_false, Except.ok.injEq]
    exact ⟨fun h' => ⟨h, h'.symm⟩, fun h' => h'.2.symm⟩

theorem bs_pushEnv_ok_iff {s : MState} {v : Val} {s' : MState} :
    s.pushEnv v = .ok s' ↔ s.envLen ≠ Gen.STACK_SIZE_LIMIT ∧
      s' = { s with envStack := v :: s.envStack, envLen := s.envLen + 1 } := by
  unfold MState.pushEnv
  by_cases h : s.envLen = Gen.STACK_SIZE_LIMIT
  · have : (s.envLen == Gen.STACK_SIZE_LIMIT) = true := beq_iff_eq.2 h
    simp only [this, if_true, reduceCtorEq, false_iff]
    exact fun h' => h'.1 h
  · have : (s.envLen == Gen.STACK_SIZE_LIMIT) = false := beq_eq_false_iff_ne.2 h
    simp only [this, Bool.false_eq_true, if_false, Except.ok.injEq]
    exact ⟨fun h' => ⟨h, h'.symm⟩, fun h' => h'.2.symm⟩

theorem bs_push_ok {s : MState} (v : Val) (h : s.valLen ≠ Gen.STACK_SIZE_LIMIT) :
    s.push v = .ok { s with valStack := v :: s.valStack, valLen := s.valLen + 1 } := by
  exact bs_push_ok_iff.2 ⟨h, rfl⟩

theorem bs_pushEnv_ok {s : MState} (v : Val) (h : s.envLen ≠ Gen.STACK_SIZE_LIMIT) :
    s.pushEnv v = .ok { s with envStack := v :: s.envStack, envLen := s.envLen + 1 } := by
  exact bs_pushEnv_ok_iff.2 ⟨h, rfl⟩

/-! ### `Steps`: n iterations of the loop -/

/-- the loop, started at `(s, cost)`, is after `n` iterations at `(s', cost')` -/
def Steps (cfg : Cfg) (d : Dialect) (mc : Nat) (n : Nat) (s : MState) (cost : Nat) (s' : MState) (cost' : Nat) :
    Prop :=
  ∀ fuel, runLoop cfg d mc (fuel + n) s cost = runLoop cfg d mc fuel s' cost'

theorem Steps.refl (cfg : Cfg) (d : Dialect) (mc : Nat) (s : MState) (cost : Nat) :
    Steps cfg d mc 0 s cost s cost := fun _ => rfl

theorem Steps.trans {cfg : Cfg} {d : Dialect} {mc n m : Nat} {s1 s2 s3 : MState} {c1 c2 c3 : Nat}
    (h1 : Steps cfg d mc n s1 c1 s2 c2) (h2 : Steps cfg d mc m s2 c2 s3 c3) :
    Steps cfg d mc (m + n) s1 c1 s3 c3 := by
  intro fuel
  rw [← Nat.add_assoc, h1, h2]

/-- one iteration -/
theorem Steps.one {cfg : Cfg} {d : Dialect} {mc : Nat} {s : MState} {cost : Nat} {op : Operation}
    {ops : List Operation} {c : Nat} {s' : MState}
    (hc : cost ≤ effMax mc s) (hop : s.opStack = op :: ops)
    (hst : stepOp cfg d { s with opStack := ops } op cost (effMax mc s) = .ok (c, s')) :
    Steps cfg d mc 1 s cost s' (cost + c) := by
  intro fuel
  rw [runLoop_succ]
  unfold loopBody
  have : ¬ cost > effMax mc s := by omega
  simp only [this, if_false, hop, hst]

theorem Steps.cast {cfg : Cfg} {d : Dialect} {mc n : Nat} {s s' t' : MState} {c c' e' : Nat}
    (h : Steps cfg d mc n s c s' c') (hs : s' = t') (hc : c' = e') : Steps cfg d mc n s c t' e' := by
  subst hs; subst hc; exact h

/-! ### `runTo`: stop the first time the operation stack is no longer than `L` -/

/-- the main loop, stopped as soon as `s.opStack.length ≤ L` (checked before the cost check of the
iteration); returns the cost, the state and the unused fuel at that point -/
def runTo (cfg : Cfg) (d : Dialect) (mc : Nat) (L : Nat) : Nat → MState → (cost : Nat) → Option (M (Nat × MState × Nat))
  | 0, _, _ => none
  | fuel + 1, s, cost =>
    if s.opStack.length ≤ L then some (.ok (cost, s, fuel + 1))
    else if cost > effMax mc s then some (.error (.err .CostExceeded))
    else
      match s.opStack with
      | [] => some (.ok (cost, s, fuel + 1))
      | op :: ops =>
        match stepOp cfg d { s with opStack := ops } op cost (effMax mc s) with
        | .error e => some (.error e)
        | .ok (c, s') => runTo cfg d mc L fuel s' (cost + c)

/-- **the loop on `ops ++ K` is the loop on `ops` followed by the loop on `K`**: every run splits at
the first time the operation stack returns to length `L` -/
theorem runLoop_eq_runTo (cfg : Cfg) (d : Dialect) (mc L : Nat) (fuel : Nat) :
    ∀ (s : MState) (cost : Nat),
      runLoop cfg d mc fuel s cost =
        match runTo cfg d mc L fuel s cost with
        | none => none
        | some (.error e) => some (.error e)
        | some (.ok (cost', s', fuel')) => runLoop cfg d mc fuel' s' cost' := by
  induction fuel with
  | zero => intro s cost; rfl
  | succ n ih =>
    intro s cost
    unfold runTo
    by_cases hl : s.opStack.length ≤ L
    · simp only [hl, if_true]
    · simp only [hl, if_false]
      rw [runLoop_succ]
      unfold loopBody
      by_cases hc : cost > effMax mc s
      · simp only [hc, if_true]
      · simp only [hc, if_false]
        cases hop : s.opStack with
        | nil => simp only [runLoop_succ, loopBody, hc, if_false, hop]
        | cons op ops =>
          simp only
          cases hst : stepOp cfg d { s with opStack := ops } op cost (effMax mc s) with
          | error e => rfl
          | ok r =>
            obtain ⟨c, s'⟩ := r
            exact ih s' (cost + c)

/-- the unused fuel is not more than the fuel given, and strictly less if at least one step was taken -/
theorem runTo_fuel_le (cfg : Cfg) (d : Dialect) (mc L : Nat) (fuel : Nat) :
    ∀ (s : MState) (cost : Nat) (cost' : Nat) (s' : MState) (fuel' : Nat),
      runTo cfg d mc L fuel s cost = some (.ok (cost', s', fuel')) →
      fuel' ≤ fuel ∧ (L < s.opStack.length → fuel' < fuel) := by
  induction fuel with
  | zero => intro s cost cost' s' fuel' h; simp [runTo] at h
  | succ n ih =>
    intro s cost cost' s' fuel' h
    unfold runTo at h
    by_cases hl : s.opStack.length ≤ L
    · simp only [hl, if_true, Option.some.injEq, Except.ok.injEq, Prod.mk.injEq] at h
      obtain ⟨_, _, rfl⟩ := h
      exact ⟨Nat.le_refl _, fun h' => by omega⟩
    · simp only [hl, if_false] at h
      by_cases hc : cost > effMax mc s
      · simp [hc] at h
      · simp only [hc, if_false] at h
        cases hop : s.opStack with
        | nil => rw [hop] at hl; simp at hl
        | cons op ops =>
          rw [hop] at h
          simp only at h
          cases hst : stepOp cfg d { s with opStack := ops } op cost (effMax mc s) with
          | error e => rw [hst] at h; simp at h
          | ok r =>
            obtain ⟨c, s1⟩ := r
            rw [hst] at h
            have := (ih s1 (cost + c) cost' s' fuel' h).1
            exact ⟨by omega, fun _ => by omega⟩

/-- a successful run passes through the level-`L` point -/
theorem runTo_of_runLoop_ok {cfg : Cfg} {d : Dialect} {mc L fuel : Nat} {s : MState} {cost : Nat}
    {r : Nat × MState} (h : runLoop cfg d mc fuel s cost = some (.ok r)) :
    ∃ cost' s' fuel', runTo cfg d mc L fuel s cost = some (.ok (cost', s', fuel')) ∧
      runLoop cfg d mc fuel' s' cost' = some (.ok r) ∧ fuel' ≤ fuel ∧ (L < s.opStack.length → fuel' < fuel) := by
  rw [runLoop_eq_runTo cfg d mc L] at h
  cases hr : runTo cfg d mc L fuel s cost with
  | none => rw [hr] at h; simp at h
  | some x =>
    cases x with
    | error e => rw [hr] at h; simp at h
    | ok q =>
      obtain ⟨cost', s', fuel'⟩ := q
      rw [hr] at h
      have := runTo_fuel_le cfg d mc L fuel s cost cost' s' fuel' hr
      exact ⟨cost', s', fuel', rfl, h, this.1, this.2⟩

/-- where `runTo` stops, the operation stack is short -/
theorem runTo_stop_len (cfg : Cfg) (d : Dialect) (mc L : Nat) (fuel : Nat) :
    ∀ (s : MState) (cost : Nat) (cost' : Nat) (s' : MState) (fuel' : Nat),
      runTo cfg d mc L fuel s cost = some (.ok (cost', s', fuel')) → s'.opStack.length ≤ L := by
  induction fuel with
  | zero => intro s cost cost' s' fuel' h; simp [runTo] at h
  | succ n ih =>
    intro s cost cost' s' fuel' h
    unfold runTo at h
    by_cases hl : s.opStack.length ≤ L
    · simp only [hl, if_true, Option.some.injEq, Except.ok.injEq, Prod.mk.injEq] at h
      obtain ⟨_, rfl, _⟩ := h
      exact hl
    · simp only [hl, if_false] at h
      by_cases hc : cost > effMax mc s
      · simp [hc] at h
      · simp only [hc, if_false] at h
        cases hop : s.opStack with
        | nil => rw [hop] at hl; simp at hl
        | cons op ops =>
          rw [hop] at h
          simp only at h
          cases hst : stepOp cfg d { s with opStack := ops } op cost (effMax mc s) with
          | error e => rw [hst] at h; simp at h
          | ok r =>
            obtain ⟨c, s1⟩ := r
            rw [hst] at h
            exact ih s1 (cost + c) cost' s' fuel' h

/-! ### what `eval_pair` pushes -/

/-- `s1` is `s` with `ops'`, `vs'`, `es'` pushed on the three stacks and `na'` more pending checkpoints;
the softfork stack and the counters are those of `s` -/
def Pushed (s s1 : MState) (ops' : List Operation) (vs' es' : List Val) (na' : Nat) : Prop :=
  s1 = { s with opStack := ops' ++ s.opStack, valStack := vs' ++ s.valStack, valLen := s.valLen + vs'.length,
                envStack := es' ++ s.envStack, envLen := s.envLen + es'.length,
                allocatorStack := s.allocatorStack + na' }

theorem pushOperands_eq : ∀ (ol : Val) (s : MState) (t : Val) (s' : MState),
    pushOperands ol s = .ok (t, s') →
    ∃ ops' vs', (∀ o ∈ ops', o = Operation.SwapEval) ∧ ops'.length = vs'.length ∧
      Pushed s s' ops' vs' [] 0 := by
  intro ol
  induction ol with
  | atom b i =>
    intro s t s' h
    simp only [pushOperands] at h
    have := M_pure_ok h
    simp only [Prod.mk.injEq] at this
    obtain ⟨_, rfl⟩ := this
    exact ⟨[], [], by simp, rfl, rfl⟩
  | pair f r _ ihr =>
    intro s t s' h
    simp only [pushOperands] at h
    obtain ⟨s1, h1, h⟩ := M_bind_ok h
    obtain ⟨hl, rfl⟩ := bs_push_ok_iff.1 h1
    obtain ⟨ops', vs', hall, hlen, hp⟩ := ihr _ t s' h
    refine ⟨ops' ++ [.SwapEval], vs' ++ [f], ?_, by simp [hlen], ?_⟩
    · intro o ho
      simp only [List.mem_append, List.mem_singleton] at ho
      rcases ho with ho | ho
      · exact hall o ho
      · exact ho
    · unfold Pushed at hp ⊢
      rw [hp]
      simp [MState.pushOp, Nat.add_assoc, Nat.add_comm 1]

/-! ### the well-bracketing invariant -/

/-- a segment of pending operations, with `nv` values, `ne` environments, `ng` guards and `na`
checkpoints above the base of the stacks, consumes exactly those and leaves one value.
(`Apply`, `Cons` and `SwapEval` have net effect −1 on the value stack once completed; a completed
`eval_pair` has net effect +1.) -/
def Bal : List Operation → (nv ne ng na : Nat) → Prop
  | [], nv, ne, ng, na => nv = 1 ∧ ne = 0 ∧ ng = 0 ∧ na = 0
  | .Apply :: ops, nv, ne, ng, na => 2 ≤ nv ∧ 1 ≤ ne ∧ Bal ops (nv - 1) (ne - 1) ng na
  | .Cons :: ops, nv, ne, ng, na => 2 ≤ nv ∧ Bal ops (nv - 1) ne ng na
  | .SwapEval :: ops, nv, ne, ng, na => 2 ≤ nv ∧ 1 ≤ ne ∧ Bal ops (nv - 1) ne ng na
  | .ExitGuard :: ops, nv, ne, ng, na => 1 ≤ nv ∧ 1 ≤ ng ∧ Bal ops nv ne (ng - 1) na
  | .RestoreAllocator :: ops, nv, ne, ng, na => 1 ≤ nv ∧ 1 ≤ na ∧ Bal ops nv ne ng (na - 1)

/-- pushing `ops'` together with `nv'` values, `ne'` environments and `na'` checkpoints in front of a
balanced segment that is waiting for one value gives a balanced segment -/
def BalPush (ops' : List Operation) (nv' ne' na' : Nat) : Prop :=
  ∀ ops nv ne ng na, Bal ops (nv + 1) ne ng na → Bal (ops' ++ ops) (nv + nv') (ne + ne') ng (na + na')

theorem Bal_swaps (ops' : List Operation) (hall : ∀ o ∈ ops', o = Operation.SwapEval) :
    ∀ (ops : List Operation) (nv ne ng na : Nat), 1 ≤ nv → 1 ≤ ne → Bal ops nv ne ng na →
      Bal (ops' ++ ops) (nv + ops'.length) ne ng na := by
  induction ops' with
  | nil => intro ops nv ne ng na _ _ h; simpa using h
  | cons o os ih =>
    intro ops nv ne ng na h1 h2 h
    have ho : o = .SwapEval := hall o (by simp)
    subst ho
    have := ih (fun o ho => hall o (by simp [ho])) ops nv ne ng na h1 h2 h
    simp only [List.cons_append, List.length_cons, Bal]
    refine ⟨by omega, h2, ?_⟩
    have e : nv + (os.length + 1) - 1 = nv + os.length := by omega
    rw [e]; exact this

theorem evalOpAtom_pushed {d : Dialect} {s s1 : MState} {o ol env : Val} {k : Nat}
    (h : evalOpAtom d s o ol env = .ok (k, s1)) :
    ∃ ops' vs' es' na', Pushed s s1 ops' vs' es' na' ∧ BalPush ops' vs'.length es'.length na' := by
  unfold evalOpAtom at h
  split at h
  · obtain ⟨s2, h1, h⟩ := M_bind_ok h
    have := M_pure_ok h
    simp only [Prod.mk.injEq] at this
    obtain ⟨_, rfl⟩ := this
    obtain ⟨_, rfl⟩ := bs_push_ok_iff.1 h1
    refine ⟨[], [ol], [], 0, rfl, ?_⟩
    intro ops nv ne ng na hb
    simpa using hb
  · simp only at h
    obtain ⟨s2, h1, h⟩ := M_bind_ok h
    obtain ⟨_, rfl⟩ := bs_pushEnv_ok_iff.1 h1
    obtain ⟨s3, h2, h⟩ := M_bind_ok h
    obtain ⟨_, rfl⟩ := bs_push_ok_iff.1 h2
    obtain ⟨⟨t, s4⟩, h3, h⟩ := M_bind_ok h
    obtain ⟨opsS, vsS, hall, hlen, hp⟩ := pushOperands_eq _ _ _ _ h3
    simp only at h
    split at h
    · split at h
      · cases h
      · obtain ⟨s5, h4, h⟩ := M_bind_ok h
        have := M_pure_ok h
        simp only [Prod.mk.injEq] at this
        obtain ⟨_, rfl⟩ := this
        obtain ⟨_, rfl⟩ := bs_push_ok_iff.1 h4
        unfold Pushed at hp
        subst hp
        cases hgc : d.gcCandidate o
        · refine ⟨opsS ++ [.Apply], Val.nil :: vsS ++ [o], [env], 0, ?_, ?_⟩
          · unfold Pushed
            simp [MState.pushOp, Nat.add_assoc, Nat.add_comm 1]
          · intro ops nv ne ng na hb
            have := Bal_swaps opsS hall (.Apply :: ops) (nv + 2) (ne + 1) ng na (by omega) (by omega)
              (by simp only [Bal]; exact ⟨by omega, by omega, by simpa using hb⟩)
            simp only [List.append_assoc, List.cons_append, List.nil_append, List.length_cons,
              List.length_append, List.length_nil]
            rw [hlen] at this
            have e : nv + (vsS.length + (0 + 1) + 1) = nv + 2 + vsS.length := by omega
            rw [e]; exact this
        · refine ⟨opsS ++ [.Apply, .RestoreAllocator], Val.nil :: vsS ++ [o], [env], 1, ?_, ?_⟩
          · unfold Pushed
            simp [MState.pushOp, Nat.add_assoc, Nat.add_comm 1]
          · intro ops nv ne ng na hb
            have := Bal_swaps opsS hall (.Apply :: .RestoreAllocator :: ops) (nv + 2) (ne + 1) ng (na + 1)
              (by omega) (by omega)
              (by simp only [Bal]; exact ⟨by omega, by omega, by omega, by omega, by simpa using hb⟩)
            simp only [List.append_assoc, List.cons_append, List.nil_append, List.length_cons,
              List.length_append, List.length_nil]
            rw [hlen] at this
            have e : nv + (vsS.length + (0 + 1) + 1) = nv + 2 + vsS.length := by omega
            rw [e]; exact this
    · cases h

theorem evalPair_pushed {cfg : Cfg} {d : Dialect} {s s1 : MState} {prog env : Val} {k : Nat}
    (h : evalPair cfg d s prog env = .ok (k, s1)) :
    ∃ ops' vs' es' na', Pushed s s1 ops' vs' es' na' ∧ BalPush ops' vs'.length es'.length na' := by
  cases prog with
  | atom b inl =>
    simp only [evalPair] at h
    obtain ⟨r, _, h⟩ := M_bind_ok h
    obtain ⟨s2, h2, h⟩ := M_bind_ok h
    have := M_pure_ok h
    simp only [Prod.mk.injEq] at this
    obtain ⟨_, rfl⟩ := this
    obtain ⟨_, rfl⟩ := bs_push_ok_iff.1 h2
    refine ⟨[], [r.2], [], 0, rfl, ?_⟩
    intro ops nv ne ng na hb
    simpa using hb
  | pair opNode opList =>
    cases opNode with
    | atom ob oi => simp only [evalPair] at h; exact evalOpAtom_pushed h
    | pair newOperator x =>
      simp only [evalPair] at h
      obtain ⟨inner, _, h⟩ := M_bind_ok h
      split at h
      · cases h
      · obtain ⟨s2, h1, h⟩ := M_bind_ok h
        obtain ⟨_, rfl⟩ := bs_pushEnv_ok_iff.1 h1
        obtain ⟨s3, h2, h⟩ := M_bind_ok h
        obtain ⟨_, rfl⟩ := bs_push_ok_iff.1 h2
        obtain ⟨s4, h3, h⟩ := M_bind_ok h
        obtain ⟨_, rfl⟩ := bs_push_ok_iff.1 h3
        have := M_pure_ok h
        simp only [Prod.mk.injEq] at this
        obtain ⟨_, rfl⟩ := this
        refine ⟨[.Apply], [opList, newOperator], [env], 0, ?_, ?_⟩
        · unfold Pushed; simp [MState.pushOp]
        · intro ops nv ne ng na hb
          simp only [List.cons_append, List.nil_append, Bal, List.length_cons, List.length_nil]
          exact ⟨by omega, by omega, by simpa using hb⟩

/-- `s` is the base state `b` with `ops`, `vs`, `es`, `gs` on top of its four stacks and `na` more
pending checkpoints (the counters are unconstrained) -/
structure Above (b s : MState) (ops : List Operation) (vs es : List Val) (gs : List SoftforkGuard) (na : Nat) :
    Prop where
  ops : s.opStack = ops ++ b.opStack
  vals : s.valStack = vs ++ b.valStack
  vlen : s.valLen = b.valLen + vs.length
  envs : s.envStack = es ++ b.envStack
  elen : s.envLen = b.envLen + es.length
  sfs : s.softforkStack = gs ++ b.softforkStack
  alloc : s.allocatorStack = b.allocatorStack + na

/-- the invariant of a bracketed evaluation above the base state `b` -/
def BracketInv (b s : MState) : Prop :=
  ∃ ops vs es gs na, Above b s ops vs es gs na ∧ Bal ops vs.length es.length gs.length na

theorem Above.evalPair {cfg : Cfg} {d : Dialect} {b s s1 : MState} {ops vs es gs na} {prog env : Val} {k : Nat}
    (hA : Above b s ops vs es gs na) (hB : Bal ops (vs.length + 1) es.length gs.length na)
    (h : evalPair cfg d s prog env = .ok (k, s1)) : BracketInv b s1 := by
  obtain ⟨ops', vs', es', na', hp, hbp⟩ := evalPair_pushed h
  unfold Pushed at hp
  subst hp
  refine ⟨ops' ++ ops, vs' ++ vs, es' ++ es, gs, na + na', ⟨?_, ?_, ?_, ?_, ?_, ?_, ?_⟩, ?_⟩
  · simp [hA.ops]
  · simp [hA.vals]
  · simp [hA.vlen]; omega
  · simp [hA.envs]
  · simp [hA.elen]; omega
  · simp [hA.sfs]
  · simp [hA.alloc]; omega
  · have := hbp ops vs.length es.length gs.length na hB
    simp only [List.length_append]
    rw [Nat.add_comm vs'.length, Nat.add_comm es'.length]
    exact this

theorem Above.guard {b s : MState} {ops vs es gs na} (hA : Above b s ops vs es gs na) (g : SoftforkGuard) :
    Above b ({ s with softforkStack := g :: s.softforkStack }.pushOp .ExitGuard) (.ExitGuard :: ops) vs es
      (g :: gs) na :=
  ⟨by simp [MState.pushOp, hA.ops], hA.vals, hA.vlen, hA.envs, hA.elen, by simp [MState.pushOp, hA.sfs], hA.alloc⟩

theorem list_two_le {α} {l : List α} (h : 2 ≤ l.length) : ∃ a b t, l = a :: b :: t := by
  match l, h with
  | a :: b :: t, _ => exact ⟨a, b, t, rfl⟩

theorem list_one_le {α} {l : List α} (h : 1 ≤ l.length) : ∃ a t, l = a :: t := by
  match l, h with
  | a :: t, _ => exact ⟨a, t, rfl⟩

/-- every step taken while the operation stack is longer than the base preserves the invariant -/
theorem stepOp_inv {cfg : Cfg} {d : Dialect} {b s s' : MState} {op : Operation} {ops vs es gs na}
    {cost em c : Nat} (hA : Above b s (op :: ops) vs es gs na)
    (hB : Bal (op :: ops) vs.length es.length gs.length na)
    (h : stepOp cfg d { s with opStack := ops ++ b.opStack } op cost em = .ok (c, s')) : BracketInv b s' := by
  have hA0 : Above b { s with opStack := ops ++ b.opStack } ops vs es gs na :=
    ⟨rfl, hA.vals, hA.vlen, hA.envs, hA.elen, hA.sfs, hA.alloc⟩
  generalize hs0 : ({ s with opStack := ops ++ b.opStack } : MState) = s0 at h hA0
  clear hA hs0 s
  cases op with
  | Cons =>
    simp only [Bal] at hB
    obtain ⟨a1, a2, vt, rfl⟩ := list_two_le hB.1
    simp only [stepOp] at h
    unfold consOp at h
    obtain ⟨⟨v1, s1⟩, h1, h⟩ := M_bind_ok h
    obtain ⟨r1, hr1, rfl⟩ := bs_pop_ok_iff.1 h1
    obtain ⟨⟨v2, s2⟩, h2, h⟩ := M_bind_ok h
    obtain ⟨r2, hr2, rfl⟩ := bs_pop_ok_iff.1 h2
    obtain ⟨⟨p, c'⟩, _, h⟩ := M_bind_ok h
    obtain ⟨s3, h4, h⟩ := M_bind_ok h
    obtain ⟨_, rfl⟩ := bs_push_ok_iff.1 h4
    have := M_pure_ok h
    simp only [Prod.mk.injEq] at this
    obtain ⟨_, rfl⟩ := this
    simp only at hr2
    rw [hA0.vals] at hr1
    simp only [List.cons_append, List.cons.injEq] at hr1
    obtain ⟨_, rfl⟩ := hr1
    simp only [List.cons.injEq] at hr2
    obtain ⟨_, rfl⟩ := hr2
    refine ⟨ops, p :: vt, es, gs, na, ⟨hA0.ops, rfl, ?_, hA0.envs, hA0.elen, hA0.sfs, hA0.alloc⟩, ?_⟩
    · simp [hA0.vlen]; omega
    · simpa using hB.2
  | SwapEval =>
    simp only [Bal] at hB
    obtain ⟨a1, a2, vt, rfl⟩ := list_two_le hB.1
    simp only [stepOp] at h
    unfold swapEvalOp at h
    obtain ⟨⟨v1, s1⟩, h1, h⟩ := M_bind_ok h
    obtain ⟨r1, hr1, rfl⟩ := bs_pop_ok_iff.1 h1
    obtain ⟨⟨v2, s2⟩, h2, h⟩ := M_bind_ok h
    obtain ⟨r2, hr2, rfl⟩ := bs_pop_ok_iff.1 h2
    simp only at h hr2
    rw [hA0.vals] at hr1
    simp only [List.cons_append, List.cons.injEq] at hr1
    obtain ⟨_, rfl⟩ := hr1
    simp only [List.cons.injEq] at hr2
    obtain ⟨_, rfl⟩ := hr2
    split at h
    · cases h
    · obtain ⟨s3, h3, h⟩ := M_bind_ok h
      obtain ⟨_, rfl⟩ := bs_push_ok_iff.1 h3
      refine Above.evalPair (ops := .Cons :: ops) (vs := v1 :: vt) (es := es) (gs := gs) (na := na) ?_ ?_ h
      · refine ⟨?_, rfl, ?_, hA0.envs, hA0.elen, hA0.sfs, hA0.alloc⟩
        · simp [MState.pushOp, hA0.ops]
        · simp [MState.pushOp, hA0.vlen]; omega
      · simp only [Bal, List.length_cons]
        exact ⟨by omega, by simpa using hB.2.2⟩
  | RestoreAllocator =>
    simp only [Bal] at hB
    simp only [stepOp] at h
    split at h
    · cases h
    · split at h
      · cases h
      · simp only [Except.ok.injEq, Prod.mk.injEq] at h
        obtain ⟨_, rfl⟩ := h
        refine ⟨ops, vs, es, gs, na - 1, ⟨hA0.ops, hA0.vals, hA0.vlen, hA0.envs, hA0.elen, hA0.sfs, ?_⟩, hB.2.2⟩
        simp [hA0.alloc]; omega
  | ExitGuard =>
    simp only [Bal] at hB
    obtain ⟨a1, vt, rfl⟩ := list_one_le hB.1
    obtain ⟨g1, gt, rfl⟩ := list_one_le hB.2.1
    simp only [stepOp] at h
    unfold exitGuard at h
    rw [hA0.sfs] at h
    simp only [List.cons_append] at h
    split at h
    · cases h
    · rw [hA0.vals] at h
      simp only [List.cons_append] at h
      obtain ⟨s1, h1, h⟩ := M_bind_ok h
      obtain ⟨_, rfl⟩ := bs_push_ok_iff.1 h1
      have := M_pure_ok h
      simp only [Prod.mk.injEq] at this
      obtain ⟨_, rfl⟩ := this
      refine ⟨ops, Val.nil :: vt, es, gt, na, ⟨hA0.ops, rfl, ?_, hA0.envs, hA0.elen, rfl, hA0.alloc⟩, ?_⟩
      · have := hA0.vlen
        simp only [List.length_cons] at this ⊢
        omega
      · simpa using hB.2.2
  | Apply =>
    simp only [Bal] at hB
    obtain ⟨a1, a2, vt, rfl⟩ := list_two_le hB.1
    obtain ⟨e1, et, rfl⟩ := list_one_le hB.2.1
    simp only [stepOp] at h
    unfold applyOp at h
    obtain ⟨⟨v1, s1⟩, h1, h⟩ := M_bind_ok h
    obtain ⟨r1, hr1, rfl⟩ := bs_pop_ok_iff.1 h1
    obtain ⟨⟨v2, s2⟩, h2, h⟩ := M_bind_ok h
    obtain ⟨r2, hr2, rfl⟩ := bs_pop_ok_iff.1 h2
    simp only at h hr2
    rw [hA0.vals] at hr1
    simp only [List.cons_append, List.cons.injEq] at hr1
    obtain ⟨_, rfl⟩ := hr1
    simp only [List.cons.injEq] at hr2
    obtain ⟨_, rfl⟩ := hr2
    rw [hA0.envs] at h
    simp only [List.cons_append] at h
    -- the state after the three pops
    have hA3 : Above b { s0 with valStack := vt ++ b.valStack, valLen := s0.valLen - 1 - 1,
                                 envStack := et ++ b.envStack, envLen := s0.envLen - 1 } ops vt et gs na := by
      refine ⟨hA0.ops, rfl, ?_, rfl, ?_, hA0.sfs, hA0.alloc⟩
      · simp [hA0.vlen]
      · simp [hA0.elen]
    have hB3 : Bal ops (vt.length + 1) et.length gs.length na := by simpa using hB.2.2
    split at h
    · -- apply
      obtain ⟨⟨newOperator, env⟩, _, h⟩ := M_bind_ok h
      obtain ⟨⟨c1, s4⟩, h4, h⟩ := M_bind_ok h
      have := M_pure_ok h
      simp only [Prod.mk.injEq] at this
      obtain ⟨_, rfl⟩ := this
      exact hA3.evalPair hB3 h4
    · split at h
      · -- softfork
        obtain ⟨f, _, h⟩ := M_bind_ok h
        obtain ⟨expectedCost, _, h⟩ := M_bind_ok h
        split at h
        · cases h
        · split at h
          · cases h
          · split at h
            · split at h
              · obtain ⟨s4, h4, h⟩ := M_bind_ok h
                obtain ⟨_, rfl⟩ := bs_push_ok_iff.1 h4
                have := M_pure_ok h
                simp only [Prod.mk.injEq] at this
                obtain ⟨_, rfl⟩ := this
                refine ⟨ops, Val.nil :: vt, et, gs, na,
                  ⟨hA3.ops, rfl, ?_, hA3.envs, hA3.elen, hA3.sfs, hA3.alloc⟩, ?_⟩
                · have := hA3.vlen
                  simp only [List.length_cons] at this ⊢
                  omega
                · simpa using hB3
              · cases h
            · split at h
              · cases h
              · obtain ⟨⟨c1, s4⟩, h4, h⟩ := M_bind_ok h
                have := M_pure_ok h
                simp only [Prod.mk.injEq] at this
                obtain ⟨_, rfl⟩ := this
                refine (hA3.guard _).evalPair ?_ h4
                simp only [Bal, List.length_cons]
                exact ⟨by omega, by omega, by simpa using hB3⟩
      · -- ordinary operator
        split at h
        · cases h
        · cases h
        · obtain ⟨s4, h4, h⟩ := M_bind_ok h
          obtain ⟨_, rfl⟩ := bs_push_ok_iff.1 h4
          have := M_pure_ok h
          simp only [Prod.mk.injEq] at this
          obtain ⟨_, rfl⟩ := this
          refine ⟨ops, _ :: vt, et, gs, na,
            ⟨hA3.ops, rfl, ?_, hA3.envs, hA3.elen, hA3.sfs, hA3.alloc⟩, ?_⟩
          · have := hA3.vlen
            simp only [List.length_cons] at this ⊢
            omega
          · simpa using hB3

/-- the invariant holds wherever `runTo` (with `L` the base's operation-stack length) stops -/
theorem runTo_inv (cfg : Cfg) (d : Dialect) (mc : Nat) (b : MState) (fuel : Nat) :
    ∀ (s : MState) (cost : Nat) (cost' : Nat) (s' : MState) (fuel' : Nat), BracketInv b s →
      runTo cfg d mc b.opStack.length fuel s cost = some (.ok (cost', s', fuel')) → BracketInv b s' := by
  induction fuel with
  | zero => intro s cost cost' s' fuel' _ h; simp [runTo] at h
  | succ n ih =>
    intro s cost cost' s' fuel' hI h
    unfold runTo at h
    by_cases hl : s.opStack.length ≤ b.opStack.length
    · simp only [hl, if_true, Option.some.injEq, Except.ok.injEq, Prod.mk.injEq] at h
      obtain ⟨_, rfl, _⟩ := h
      exact hI
    · simp only [hl, if_false] at h
      by_cases hc : cost > effMax mc s
      · simp [hc] at h
      · simp only [hc, if_false] at h
        obtain ⟨ops, vs, es, gs, na, hA, hB⟩ := hI
        cases ops with
        | nil => exact absurd (by simp [hA.ops]) hl
        | cons op ops =>
          have hop := hA.ops
          simp only [List.cons_append] at hop
          rw [hop] at h
          simp only at h
          cases hst : stepOp cfg d { s with opStack := ops ++ b.opStack } op cost (effMax mc s) with
          | error e => rw [hst] at h; simp at h
          | ok r =>
            obtain ⟨c, s1⟩ := r
            rw [hst] at h
            exact ih s1 (cost + c) cost' s' fuel' (stepOp_inv hA hB hst) h

/-- **Well-bracketing / frame theorem.**  Start `eval_pair program env` in *any* state `s` and let the
loop run until the operations it pushed have been consumed (the first time the operation stack is
back to the length it had in `s`).  Then the state is `s` with exactly one value pushed: the
operation stack, the environment stack (and its counter), the softfork stack and the pending
checkpoints are those of `s`, and so is everything below the new value.  Only the allocator counters
may differ. -/
theorem runTo_bracket {cfg : Cfg} {d : Dialect} {mc : Nat} {s s1 s' : MState} {prog env : Val}
    {k fuel cost cost' fuel' : Nat} (he : evalPair cfg d s prog env = .ok (k, s1))
    (hr : runTo cfg d mc s.opStack.length fuel s1 cost = some (.ok (cost', s', fuel'))) :
    ∃ v, s' = { s with valStack := v :: s.valStack, valLen := s.valLen + 1, ctr := s'.ctr } := by
  have hA : Above s s [] [] [] [] 0 := ⟨rfl, rfl, rfl, rfl, rfl, rfl, rfl⟩
  have hI : BracketInv s s1 := hA.evalPair (by simp [Bal]) he
  obtain ⟨ops, vs, es, gs, na, hA', hB⟩ := runTo_inv cfg d mc s fuel s1 cost cost' s' fuel' hI hr
  have hlen := runTo_stop_len cfg d mc _ fuel s1 cost cost' s' fuel' hr
  have hops : ops = [] := by
    have := hA'.ops
    rw [this] at hlen
    simp only [List.length_append] at hlen
    exact List.eq_nil_of_length_eq_zero (by omega)
  subst hops
  simp only [Bal] at hB
  obtain ⟨hv, hE, hg, rfl⟩ := hB
  obtain ⟨v, vt, rfl⟩ := list_one_le (Nat.le_of_eq hv.symm)
  have hvt : vt = [] := List.eq_nil_of_length_eq_zero (by simpa using hv)
  have hes : es = [] := List.eq_nil_of_length_eq_zero hE
  have hgs : gs = [] := List.eq_nil_of_length_eq_zero hg
  subst hvt hes hgs
  refine ⟨v, ?_⟩
  obtain ⟨h1, h2, h3, h4, h5, h6, h7⟩ := hA'
  cases s'
  simp only [List.nil_append, List.cons_append, List.length_cons, List.length_nil, Nat.add_zero] at *
  subst h1 h2 h3 h4 h5 h6 h7
  rfl

/-! ### the big-step judgment -/

theorem MState.ext8 {a b : MState} (h1 : a.valStack = b.valStack) (h2 : a.valLen = b.valLen)
    (h3 : a.envStack = b.envStack) (h4 : a.envLen = b.envLen) (h5 : a.opStack = b.opStack)
    (h6 : a.softforkStack = b.softforkStack) (h7 : a.allocatorStack = b.allocatorStack) (h8 : a.ctr = b.ctr) :
    a = b := by
  cases a; cases b; simp_all

/-- `s` with the value `v` pushed and the counters `c` -/
def MState.pushed (s : MState) (v : Val) (c : Ctr) : MState :=
  { s with valStack := v :: s.valStack, valLen := s.valLen + 1, ctr := c }

/-- `effective_max_cost` as a function of the softfork stack -/
def sfMax (mc : Nat) : List SoftforkGuard → Nat
  | sf :: _ => sf.expectedCost
  | [] => mc

/-- the operator set in force (`current_extensions`) -/
def sfExt : List SoftforkGuard → OperatorSet
  | sf :: _ => sf.operatorSet
  | [] => .Default

theorem effMax_eq (mc : Nat) (s : MState) : effMax mc s = sfMax mc s.softforkStack := by
  unfold effMax sfMax; cases s.softforkStack <;> rfl

/-- **Big-step judgment.**  `Evals … sfs vl el prog env c0 cost0 v cost1 c1`: from *every* machine
state whose softfork stack is `sfs`, whose value / environment stack counters are `vl` / `el` and
whose allocator counters are `c0` — whatever lies on the stacks — `eval_pair prog env` succeeds and
the loop, continued at accumulated cost `cost0 + (cost returned by eval_pair)`, reaches after
finitely many iterations the same state with `v` pushed, counters `c1`, at accumulated cost `cost1`
(every `cost > effective_max_cost` check on the way passed; the check at `cost1` is the caller's). -/
def Evals (cfg : Cfg) (d : Dialect) (mc : Nat) (sfs : List SoftforkGuard) (vl el : Nat) (prog env : Val)
    (c0 : Ctr) (cost0 : Nat) (v : Val) (cost1 : Nat) (c1 : Ctr) : Prop :=
  ∀ s : MState, s.softforkStack = sfs → s.valLen = vl → s.envLen = el → s.ctr = c0 →
    ∃ k s1 n, evalPair cfg d s prog env = .ok (k, s1) ∧
      Steps cfg d mc n s1 (cost0 + k) (s.pushed v c1) cost1

/-- what `eval_pair` looks up for an atom program -/
def pathLookup (cfg : Cfg) (b : Bytes) (inl : Bool) (env : Val) : Except Err (Nat × Val) :=
  if cfg.fastpath then
    match node (.atom b inl) with
    | .buffer buf => traversePath buf env
    | .u32 val => traversePathFast val env
    | .pair _ _ => .error (.InvalidOpArg "expected atom, got pair")
  else traversePath b env

/-- an atom is an environment look-up -/
theorem Evals.path {cfg : Cfg} {d : Dialect} {mc : Nat} {sfs : List SoftforkGuard} {vl el : Nat}
    {b : Bytes} {inl : Bool} {env : Val} {c0 : Ctr} {cost0 k : Nat} {v : Val}
    (h : pathLookup cfg b inl env = .ok (k, v)) (hvl : vl ≠ Gen.STACK_SIZE_LIMIT) :
    Evals cfg d mc sfs vl el (.atom b inl) env c0 cost0 v (cost0 + k) c0 := by
  intro s _ hv _ hc
  refine ⟨k, s.pushed v c0, 0, ?_, Steps.refl _ _ _ _ _⟩
  show (do let r ← liftE (pathLookup cfg b inl env); let s' ← s.push r.2; pure (r.1, s')) = _
  rw [h]
  simp only [liftE, bind, Except.bind, bs_push_ok v (hv ▸ hvl), pure, Except.pure, MState.pushed, hc]

/-- `(q . x)` -/
theorem Evals.quote {cfg : Cfg} {d : Dialect} {mc : Nat} {sfs : List SoftforkGuard} {vl el : Nat}
    {ob : Bytes} {oi : Bool} {x env : Val} {c0 : Ctr} {cost0 : Nat}
    (hq : smallNumber (.atom ob oi) = some d.quoteKw) (hvl : vl ≠ Gen.STACK_SIZE_LIMIT) :
    Evals cfg d mc sfs vl el (.pair (.atom ob oi) x) env c0 cost0 x (cost0 + Gen.QUOTE_COST) c0 := by
  intro s _ hv _ hc
  refine ⟨Gen.QUOTE_COST, s.pushed x c0, 0, ?_, Steps.refl _ _ _ _ _⟩
  simp only [evalPair, evalOpAtom, hq, beq_self_eq_true, if_true, bind, Except.bind, bs_push_ok x (hv ▸ hvl),
    pure, Except.pure, MState.pushed, hc]

/-! ### forward equations for the operations -/

/-- the terminator of an operand list -/
def argTerm : Val → Val
  | .pair _ r => argTerm r
  | v => v

theorem pushOperands_fwd : ∀ (args : Val) (s : MState),
    s.valLen + (argList args).length ≤ Gen.STACK_SIZE_LIMIT →
    pushOperands args s = .ok (argTerm args,
      { s with opStack := List.replicate (argList args).length .SwapEval ++ s.opStack,
               valStack := (argList args).reverse ++ s.valStack,
               valLen := s.valLen + (argList args).length }) := by
  intro args
  induction args with
  | atom b i => intro s _; rfl
  | pair f r _ ihr =>
    intro s h
    simp only [argList, List.length_cons] at h
    have hl : s.valLen ≠ Gen.STACK_SIZE_LIMIT := by omega
    have hp : (s.pushOp .SwapEval).push f =
        .ok { s with opStack := .SwapEval :: s.opStack, valStack := f :: s.valStack, valLen := s.valLen + 1 } :=
      bs_push_ok (s := s.pushOp .SwapEval) f hl
    simp only [pushOperands, hp, bind, Except.bind]
    rw [ihr _ (by simp only []; omega)]
    simp only [argTerm, argList, List.length_cons, List.reverse_cons, List.append_assoc, List.cons_append,
      List.nil_append, List.replicate_succ', Except.ok.injEq, Prod.mk.injEq, true_and]
    apply MState.ext8 <;> (try rfl)
    simp only []; omega

/-- `eval_op_atom` on a non-quote operator with a nil-terminated operand list -/
theorem evalOpAtom_fwd {d : Dialect} {s : MState} {o args env : Val} {tb : Bool}
    (hq : smallNumber o ≠ some d.quoteKw) (hterm : argTerm args = .atom [] tb)
    (hvl : s.valLen + (argList args).length + 2 ≤ Gen.STACK_SIZE_LIMIT)
    (hel : s.envLen ≠ Gen.STACK_SIZE_LIMIT) :
    evalOpAtom d s o args env = .ok (Gen.OP_COST,
      { s with opStack := List.replicate (argList args).length .SwapEval ++ .Apply ::
                 (if d.gcCandidate o then .RestoreAllocator :: s.opStack else s.opStack),
               valStack := Val.nil :: ((argList args).reverse ++ o :: s.valStack),
               valLen := s.valLen + (argList args).length + 2,
               envStack := env :: s.envStack, envLen := s.envLen + 1,
               allocatorStack := if d.gcCandidate o then s.allocatorStack + 1 else s.allocatorStack }) := by
  unfold evalOpAtom
  have hq' : (smallNumber o == some d.quoteKw) = false := by simpa using hq
  simp only [hq', Bool.false_eq_true, if_false]
  cases hgc : d.gcCandidate o
  all_goals
    simp only [if_true, Bool.false_eq_true, if_false]
    rw [bs_pushEnv_ok env (by simpa [MState.pushOp] using hel)]
    simp only [bind, Except.bind]
    rw [bs_push_ok (s := MState.pushOp _ _) o (by simp only [MState.pushOp]; omega)]
    simp only []
    rw [pushOperands_fwd args _ (by simp only [MState.pushOp]; omega)]
    simp only [hterm, List.length_nil, bne_self_eq_false, Bool.false_eq_true, if_false]
    rw [bs_push_ok Val.nil (by simp only [MState.pushOp]; omega)]
    simp only [pure, Except.pure, Except.ok.injEq, Prod.mk.injEq, true_and]
    apply MState.ext8 <;> (try rfl)
    simp only [MState.pushOp]; omega

theorem swapEvalOp_fwd {cfg : Cfg} {d : Dialect} {s : MState} {acc a : Val} {W : List Val} {env : Val}
    {E : List Val} (hv : s.valStack = acc :: a :: W) (he : s.envStack = env :: E)
    (hl : s.valLen - 1 - 1 ≠ Gen.STACK_SIZE_LIMIT) :
    swapEvalOp cfg d s =
      evalPair cfg d ({ s with valStack := acc :: W, valLen := s.valLen - 1 - 1 + 1 }.pushOp .Cons) a env := by
  unfold swapEvalOp
  rw [bs_pop_cons hv]
  simp only [bind, Except.bind]
  rw [bs_pop_cons (s := { s with valStack := a :: W, valLen := s.valLen - 1 }) rfl]
  have hl' := beq_eq_false_iff_ne.2 hl
  simp only [he, MState.push, hl', Bool.false_eq_true, if_false]

theorem consOp_fwd {s : MState} {v1 v2 : Val} {W : List Val} {c' : Ctr} (hv : s.valStack = v1 :: v2 :: W)
    (hp : s.ctr.newPair = .ok c') (hl : s.valLen - 1 - 1 ≠ Gen.STACK_SIZE_LIMIT) :
    consOp s = .ok (0, { s with valStack := .pair v1 v2 :: W, valLen := s.valLen - 1 - 1 + 1, ctr := c' }) := by
  unfold consOp
  rw [bs_pop_cons hv]
  simp only [bind, Except.bind]
  rw [bs_pop_cons (s := { s with valStack := v2 :: W, valLen := s.valLen - 1 }) rfl]
  have hl' := beq_eq_false_iff_ne.2 hl
  simp only [allocPair, hp, liftE, MState.push, hl', Bool.false_eq_true, if_false]
  rfl

/-- `apply_op` on an ordinary operator -/
theorem applyOp_fwd_op {cfg : Cfg} {d : Dialect} {s : MState} {al o : Val} {W : List Val} {e0 : Val}
    {E : List Val} {cc m oc : Nat} {v : Val} {c' : Ctr}
    (hv : s.valStack = al :: o :: W) (he : s.envStack = e0 :: E)
    (ha : smallNumber o ≠ some d.applyKw) (hs : smallNumber o ≠ some d.softforkKw)
    (hop : d.op o al m (sfExt s.softforkStack) s.ctr = some (.ok (oc, v, c')))
    (hl : s.valLen - 1 - 1 ≠ Gen.STACK_SIZE_LIMIT) :
    applyOp cfg d s cc m = .ok (oc, { s with valStack := v :: W, valLen := s.valLen - 1 - 1 + 1,
                                              envStack := E, envLen := s.envLen - 1, ctr := c' }) := by
  unfold applyOp
  rw [bs_pop_cons hv]
  simp only [bind, Except.bind]
  rw [bs_pop_cons (s := { s with valStack := o :: W, valLen := s.valLen - 1 }) rfl]
  have ha' : (smallNumber o == some d.applyKw) = false := by simpa using ha
  have hs' : (smallNumber o == some d.softforkKw) = false := by simpa using hs
  simp only [he, ha', hs', Bool.false_eq_true, if_false]
  have hl' := beq_eq_false_iff_ne.2 hl
  cases hsf : s.softforkStack with
  | nil =>
    rw [hsf] at hop
    simp only [sfExt] at hop
    simp only [hop, MState.push, hl', Bool.false_eq_true, if_false]
    rfl
  | cons g gs =>
    rw [hsf] at hop
    simp only [sfExt] at hop
    simp only [hop, MState.push, hl', Bool.false_eq_true, if_false]
    rfl

/-- `apply_op` on the apply keyword -/
theorem applyOp_fwd_apply {cfg : Cfg} {d : Dialect} {s : MState} {al o : Val} {W : List Val} {e0 : Val}
    {E : List Val} {cc m : Nat} {p e : Val}
    (hv : s.valStack = al :: o :: W) (he : s.envStack = e0 :: E)
    (ha : smallNumber o = some d.applyKw) (hg : getArgs2 al "apply" = .ok (p, e)) :
    applyOp cfg d s cc m =
      (evalPair cfg d { s with valStack := W, valLen := s.valLen - 1 - 1, envStack := E, envLen := s.envLen - 1 }
        p e >>= fun r => pure (r.1 + Gen.APPLY_COST, r.2)) := by
  unfold applyOp
  rw [bs_pop_cons hv]
  simp only [bind, Except.bind]
  rw [bs_pop_cons (s := { s with valStack := o :: W, valLen := s.valLen - 1 }) rfl]
  simp only [he, ha, beq_self_eq_true, if_true, hg, liftE]

/-! ### operand lists: right-to-left evaluation through `SwapEval` / `Cons` -/

/-- `EvalArgs … el env vl args c cost al cost' c'`: the operand list `args` (programs), evaluated from
the last operand to the first in environment `env`, gives the list of values `al`; `vl` is the value
stack counter below the accumulated list, `el` the environment stack counter (with `env` pushed).
Each operand costs one `SwapEval` iteration (cost check), its own evaluation, and one `Cons`
iteration (cost check, one pair allocated). -/
inductive EvalArgs (cfg : Cfg) (d : Dialect) (mc : Nat) (sfs : List SoftforkGuard) (el : Nat) (env : Val) :
    (vl : Nat) → (args : Val) → Ctr → Nat → Val → Nat → Ctr → Prop
  | nil (vl : Nat) (b : Bytes) (i : Bool) (c : Ctr) (cost : Nat) :
      EvalArgs cfg d mc sfs el env vl (.atom b i) c cost Val.nil cost c
  | cons {vl : Nat} {a rest : Val} {c : Ctr} {cost : Nat} {acc : Val} {cost1 : Nat} {c1 : Ctr} {v : Val}
      {cost2 : Nat} {c2 c3 : Ctr} :
      EvalArgs cfg d mc sfs el env (vl + 1) rest c cost acc cost1 c1 →
      cost1 ≤ sfMax mc sfs →
      vl ≠ Gen.STACK_SIZE_LIMIT →
      Evals cfg d mc sfs (vl + 1) el a env c1 cost1 v cost2 c2 →
      cost2 ≤ sfMax mc sfs →
      c2.newPair = .ok c3 →
      EvalArgs cfg d mc sfs el env vl (.pair a rest) c cost (.pair v acc) cost2 c3

theorem Steps.one' {cfg : Cfg} {d : Dialect} {mc : Nat} {s : MState} {cost em : Nat} {op : Operation}
    {ops : List Operation} {c : Nat} {s' : MState} (hem : effMax mc s = em)
    (hc : cost ≤ em) (hop : s.opStack = op :: ops)
    (hst : stepOp cfg d { s with opStack := ops } op cost em = .ok (c, s')) :
    Steps cfg d mc 1 s cost s' (cost + c) := by
  subst hem; exact Steps.one hc hop hst

theorem evalArgs_steps {cfg : Cfg} {d : Dialect} {mc : Nat} {sfs : List SoftforkGuard} {el : Nat} {env : Val}
    {vl : Nat} {args : Val} {c : Ctr} {cost : Nat} {al : Val} {cost' : Nat} {c' : Ctr}
    (h : EvalArgs cfg d mc sfs el env vl args c cost al cost' c') :
    ∀ (s : MState) (W : List Val) (O : List Operation) (E : List Val),
      s.valStack = Val.nil :: ((argList args).reverse ++ W) →
      s.valLen = vl + (argList args).length + 1 →
      s.opStack = List.replicate (argList args).length .SwapEval ++ O →
      s.envStack = env :: E → s.envLen = el → s.softforkStack = sfs → s.ctr = c →
      ∃ m, Steps cfg d mc m s cost { s with valStack := al :: W, valLen := vl + 1, opStack := O, ctr := c' } cost' := by
  induction h with
  | nil vl b i c cost =>
    intro s W O E hv hvl hop _ _ _ hc
    refine ⟨0, Steps.cast (Steps.refl _ _ _ _ _) ?_ rfl⟩
    simp only [argList, List.reverse_nil, List.nil_append, List.length_nil, List.replicate_zero, Nat.add_zero]
      at hv hvl hop
    apply MState.ext8 <;> (try rfl) <;> assumption
  | @cons vl a rest c cost acc cost1 c1 v cost2 c2 c3 _ hc1 hvl hE hc2 hp ih =>
    intro s W O E hv hlen hop he hel hsf hc
    simp only [argList, List.reverse_cons, List.append_assoc, List.cons_append, List.nil_append,
      List.length_cons, List.replicate_succ'] at hv hlen hop
    obtain ⟨m1, st1⟩ := ih s (a :: W) (.SwapEval :: O) E hv (by omega) hop he hel hsf hc
    -- the SwapEval iteration
    let sa : MState := { s with valStack := acc :: a :: W, valLen := vl + 1 + 1, opStack := .SwapEval :: O, ctr := c1 }
    let t : MState := { sa with opStack := .Cons :: O, valStack := acc :: W, valLen := vl + 1 + 1 - 1 - 1 + 1 }
    obtain ⟨k, t1, n, hev, st3⟩ := hE t hsf (by simp only [t]; omega) hel rfl
    have st2 : Steps cfg d mc 1 sa cost1 t1 (cost1 + k) := by
      refine Steps.one' (ops := O) (by rw [effMax_eq]; exact congrArg _ hsf) hc1 rfl ?_
      simp only [stepOp]
      rw [swapEvalOp_fwd (s := { sa with opStack := O }) (acc := acc) (a := a) (W := W) (env := env) (E := E)
        rfl he (by simp only [sa]; omega)]
      exact hev
    -- the Cons iteration
    have st4 : Steps cfg d mc 1 (t.pushed v c2) cost2
        { s with valStack := .pair v acc :: W, valLen := vl + 1, opStack := O, ctr := c3 } (cost2 + 0) := by
      refine Steps.one' (ops := O) (by rw [effMax_eq]; exact congrArg _ hsf) hc2 rfl ?_
      simp only [stepOp]
      rw [consOp_fwd (s := { t.pushed v c2 with opStack := O }) (v1 := v) (v2 := acc) (W := W) (c' := c3) rfl hp
        (by simp only [MState.pushed, t]; omega)]
      simp only [Except.ok.injEq, Prod.mk.injEq, true_and]
      apply MState.ext8 <;> first | rfl | (simp only [MState.pushed, t]; omega)
    exact ⟨_, ((st1.trans st2).trans st3).trans st4⟩

/-! ### operators and `a` -/

/-- the state after `eval_op_atom` (non-quote operator `o`, operands `args`) -/
def opEntry (d : Dialect) (s : MState) (o args env : Val) : MState :=
  { s with opStack := List.replicate (argList args).length .SwapEval ++ .Apply ::
             (if d.gcCandidate o then .RestoreAllocator :: s.opStack else s.opStack),
           valStack := Val.nil :: ((argList args).reverse ++ o :: s.valStack),
           valLen := s.valLen + (argList args).length + 2,
           envStack := env :: s.envStack, envLen := s.envLen + 1,
           allocatorStack := if d.gcCandidate o then s.allocatorStack + 1 else s.allocatorStack }

/-- the state after the `Apply` operation of a call pushed its value: possibly a checkpoint to pop -/
def opExit (gc : Bool) (s : MState) (v : Val) (c : Ctr) : MState :=
  { s.pushed v c with opStack := if gc then .RestoreAllocator :: s.opStack else s.opStack,
                      allocatorStack := if gc then s.allocatorStack + 1 else s.allocatorStack }

theorem opExit_steps (cfg : Cfg) (d : Dialect) (mc : Nat) (gc : Bool) (s : MState) (v : Val) (c : Ctr) (cost : Nat)
    (hc : cost ≤ sfMax mc s.softforkStack) :
    ∃ n, Steps cfg d mc n (opExit gc s v c) cost (s.pushed v c) cost := by
  cases gc
  · exact ⟨0, Steps.cast (Steps.refl _ _ _ _ _) rfl rfl⟩
  · refine ⟨1, Steps.cast (Steps.one' (ops := s.opStack) (em := sfMax mc s.softforkStack) (effMax_eq _ _) hc rfl
      (c := 0) (s' := s.pushed v c) ?_) rfl rfl⟩
    simp only [stepOp, opExit, MState.pushed, if_true, Nat.add_one_ne_zero, beq_iff_eq, if_false,
      List.isEmpty_cons, Bool.false_eq_true, Nat.add_sub_cancel]

/-- the state in which the `Apply` operation of a call runs: the operand values `al` and the operator on
the value stack -/
def applyReady (gc : Bool) (s : MState) (o al env : Val) (c1 : Ctr) : MState :=
  { opExit gc s al c1 with
      opStack := .Apply :: (opExit gc s al c1).opStack,
      valStack := al :: o :: s.valStack, valLen := s.valLen + 1 + 1,
      envStack := env :: s.envStack, envLen := s.envLen + 1 }

/-- the operands of a call, then the machine is about to run `Apply` -/
theorem opEntry_steps {cfg : Cfg} {d : Dialect} {mc : Nat} {sfs : List SoftforkGuard} {env : Val}
    {args : Val} {c0 : Ctr} {cost : Nat} {al : Val} {cost1 : Nat} {c1 : Ctr} (s : MState) (o : Val)
    (hargs : EvalArgs cfg d mc sfs (s.envLen + 1) env (s.valLen + 1) args c0 cost al cost1 c1)
    (hsf : s.softforkStack = sfs) (hc : s.ctr = c0) :
    ∃ m, Steps cfg d mc m (opEntry d s o args env) cost (applyReady (d.gcCandidate o) s o al env c1) cost1 := by
  obtain ⟨m1, st1⟩ := evalArgs_steps hargs (opEntry d s o args env) (o :: s.valStack)
    (.Apply :: (if d.gcCandidate o then .RestoreAllocator :: s.opStack else s.opStack))
    s.envStack rfl (by simp only [opEntry]; omega) rfl rfl rfl hsf hc
  exact ⟨m1, Steps.cast st1 (by apply MState.ext8 <;> rfl) rfl⟩

/-- **An operator call** `(o a₁ … aₙ)`: `OP_COST`, the operands right to left, then (cost check) the
operator with the remaining budget; if the operator is a GC candidate one more iteration (cost check)
pops the checkpoint. -/
theorem Evals.op {cfg : Cfg} {d : Dialect} {mc : Nat} {sfs : List SoftforkGuard} {vl el : Nat}
    {ob : Bytes} {oi : Bool} {args env : Val} {c0 : Ctr} {cost0 : Nat} {al : Val} {cost1 : Nat} {c1 : Ctr}
    {oc : Nat} {v : Val} {c2 : Ctr} {tb : Bool}
    (hq : smallNumber (.atom ob oi) ≠ some d.quoteKw)
    (ha : smallNumber (.atom ob oi) ≠ some d.applyKw)
    (hs : smallNumber (.atom ob oi) ≠ some d.softforkKw)
    (hterm : argTerm args = .atom [] tb)
    (hvl : vl + (argList args).length + 2 ≤ Gen.STACK_SIZE_LIMIT)
    (hel : el ≠ Gen.STACK_SIZE_LIMIT)
    (hargs : EvalArgs cfg d mc sfs (el + 1) env (vl + 1) args c0 (cost0 + Gen.OP_COST) al cost1 c1)
    (hc1 : cost1 ≤ sfMax mc sfs)
    (hop : d.op (.atom ob oi) al (sfMax mc sfs - cost1) (sfExt sfs) c1 = some (.ok (oc, v, c2)))
    (hc2 : cost1 + oc ≤ sfMax mc sfs) :
    Evals cfg d mc sfs vl el (.pair (.atom ob oi) args) env c0 cost0 v (cost1 + oc) c2 := by
  intro s hsf hv he hc
  subst hv he
  have hev : evalPair cfg d s (.pair (.atom ob oi) args) env = .ok (Gen.OP_COST, opEntry d s (.atom ob oi) args env) := by
    simp only [evalPair]; exact evalOpAtom_fwd hq hterm hvl hel
  obtain ⟨m1, st1⟩ := opEntry_steps s (.atom ob oi) hargs hsf hc
  have st2 : Steps cfg d mc 1 (applyReady (d.gcCandidate (.atom ob oi)) s (.atom ob oi) al env c1) cost1
      (opExit (d.gcCandidate (.atom ob oi)) s v c2) (cost1 + oc) := by
    refine Steps.one' (ops := (opExit (d.gcCandidate (.atom ob oi)) s al c1).opStack)
      (by rw [effMax_eq]; exact congrArg _ hsf) hc1 rfl ?_
    simp only [stepOp]
    rw [applyOp_fwd_op (al := al) (o := .atom ob oi) (W := s.valStack) (e0 := env) (E := s.envStack)
      (oc := oc) (v := v) (c' := c2) rfl rfl ha hs
      (by simp only [applyReady, opExit, MState.pushed, hsf]; exact hop)
      (by simp only [applyReady]; omega)]
    simp only [Except.ok.injEq, Prod.mk.injEq, true_and]
    apply MState.ext8 <;> first | rfl | (simp only [applyReady, opExit, MState.pushed]; omega)
  obtain ⟨m3, st3⟩ := opExit_steps cfg d mc (d.gcCandidate (.atom ob oi)) s v c2 (cost1 + oc) (hsf ▸ hc2)
  exact ⟨_, _, _, hev, (st1.trans st2).trans st3⟩

/-- **`(a P E)`**: `OP_COST`, the two operands, then (cost check) `APPLY_COST` and the evaluation of the
value of `P` in the environment the value of `E` (and a final cost check if `a` is a GC candidate). -/
theorem Evals.apply {cfg : Cfg} {d : Dialect} {mc : Nat} {sfs : List SoftforkGuard} {vl el : Nat}
    {ob : Bytes} {oi : Bool} {args env : Val} {c0 : Ctr} {cost0 : Nat} {al : Val} {cost1 : Nat} {c1 : Ctr}
    {p e v : Val} {cost2 : Nat} {c2 : Ctr} {tb : Bool}
    (hq : smallNumber (.atom ob oi) ≠ some d.quoteKw)
    (ha : smallNumber (.atom ob oi) = some d.applyKw)
    (hterm : argTerm args = .atom [] tb)
    (hvl : vl + (argList args).length + 2 ≤ Gen.STACK_SIZE_LIMIT)
    (hel : el ≠ Gen.STACK_SIZE_LIMIT)
    (hargs : EvalArgs cfg d mc sfs (el + 1) env (vl + 1) args c0 (cost0 + Gen.OP_COST) al cost1 c1)
    (hc1 : cost1 ≤ sfMax mc sfs)
    (hg : getArgs2 al "apply" = .ok (p, e))
    (hbody : Evals cfg d mc sfs vl el p e c1 (cost1 + Gen.APPLY_COST) v cost2 c2)
    (hc2 : cost2 ≤ sfMax mc sfs) :
    Evals cfg d mc sfs vl el (.pair (.atom ob oi) args) env c0 cost0 v cost2 c2 := by
  intro s hsf hv he hc
  subst hv he
  have hev : evalPair cfg d s (.pair (.atom ob oi) args) env = .ok (Gen.OP_COST, opEntry d s (.atom ob oi) args env) := by
    simp only [evalPair]; exact evalOpAtom_fwd hq hterm hvl hel
  obtain ⟨m1, st1⟩ := opEntry_steps s (.atom ob oi) hargs hsf hc
  -- the state in which the body is evaluated: `s` with possibly a checkpoint to pop afterwards
  let gc := d.gcCandidate (.atom ob oi)
  let S3 : MState := { s with opStack := if gc then .RestoreAllocator :: s.opStack else s.opStack,
                              allocatorStack := if gc then s.allocatorStack + 1 else s.allocatorStack, ctr := c1 }
  obtain ⟨k, t1, n, hev2, st3⟩ := hbody S3 hsf rfl rfl rfl
  have st2 : Steps cfg d mc 1 (applyReady gc s (.atom ob oi) al env c1) cost1 t1 (cost1 + (k + Gen.APPLY_COST)) := by
    refine Steps.one' (ops := (opExit gc s al c1).opStack)
      (by rw [effMax_eq]; exact congrArg _ hsf) hc1 rfl ?_
    simp only [stepOp]
    rw [applyOp_fwd_apply (al := al) (o := .atom ob oi) (W := s.valStack) (e0 := env) (E := s.envStack)
      (p := p) (e := e) rfl rfl ha hg]
    refine (congrArg (fun st => (evalPair cfg d st p e >>= fun r => pure (r.1 + Gen.APPLY_COST, r.2)))
      (?_ : _ = S3)).trans ?_
    · apply MState.ext8 <;> first | rfl | (simp only [S3, applyReady]; omega)
    · simp only [hev2, bind, Except.bind, pure, Except.pure]
  have hS' : S3.pushed v c2 = opExit gc s v c2 := by
    apply MState.ext8 <;> rfl
  rw [hS'] at st3
  have e1 : cost1 + (k + Gen.APPLY_COST) = cost1 + Gen.APPLY_COST + k := by omega
  rw [e1] at st2
  obtain ⟨m4, st4⟩ := opExit_steps cfg d mc gc s v c2 cost2 (hsf ▸ hc2)
  exact ⟨_, _, _, hev, ((st1.trans st2).trans st3).trans st4⟩

/-! ### whole runs -/

/-- a big-step evaluation from the initial state is a successful `run_program` (with enough fuel) -/
theorem runProgram_of_Evals {cfg : Cfg} {d : Dialect} {c0 c : Ctr} {prog env : Val} {mc0 : Nat} {v : Val}
    {cost1 : Nat} {c1 : Ctr} (hg : c0.addGhostAtom 1 = .ok c)
    (h : Evals cfg d (if mc0 == 0 then U64_MAX else mc0) [] 0 0 prog env c 0 v cost1 c1)
    (hc : cost1 ≤ (if mc0 == 0 then U64_MAX else mc0)) :
    ∃ fuel0, ∀ fuel, fuel0 ≤ fuel → runProgram cfg d fuel c0 prog env mc0 = some (.ok (cost1, v, c1)) := by
  obtain ⟨k, s1, n, hev, hst⟩ := h { ctr := c } rfl rfl rfl rfl
  refine ⟨n + 1, fun fuel hf => ?_⟩
  obtain ⟨f, rfl⟩ : ∃ f, fuel = (f + 1) + n := ⟨fuel - n - 1, by omega⟩
  unfold runProgram
  simp only [hg, hev]
  rw [Nat.zero_add] at hst
  rw [hst (f + 1), runLoop_succ]
  unfold loopBody
  have : ¬ cost1 > effMax (if mc0 == 0 then U64_MAX else mc0) (MState.pushed { ctr := c } v c1) := by
    simp only [effMax, MState.pushed]; omega
  rw [if_neg this]
  rfl

end Clvm.Interp
