/-
Generic congruence for the main loop: two machine configurations that take the same step on
every state satisfying an invariant give the same answer from any such state.
-/
import ClvmProofs.Lemmas.Interp.MachineBase

namespace Clvm.Interp
open Clvm Clvm.Alloc

theorem runLoop_congr (cfg1 cfg2 : Cfg) (d1 d2 : Dialect) (mc : Nat) (Inv : MState → Prop)
    (hstep : ∀ (s : MState) (op : Operation) (cost em : Nat), Inv s →
      stepOp cfg1 d1 s op cost em = stepOp cfg2 d2 s op cost em)
    (hinv : ∀ (s : MState) (op : Operation) (cost em c : Nat) (s' : MState), Inv s →
      stepOp cfg1 d1 s op cost em = .ok (c, s') → Inv s')
    (hpop : ∀ (s : MState) (ops : List Operation), Inv s → Inv { s with opStack := ops }) :
    ∀ (fuel : Nat) (s : MState) (cost : Nat), Inv s →
      runLoop cfg1 d1 mc fuel s cost = runLoop cfg2 d2 mc fuel s cost := by
  intro fuel
  induction fuel with
  | zero => intro s cost _; rfl
  | succ n ih =>
    intro s cost hs
    rw [runLoop_succ, runLoop_succ]
    unfold loopBody
    by_cases hc : cost > effMax mc s
    · simp only [hc, if_true]
    · simp only [hc, if_false]
      cases hop : s.opStack with
      | nil => rfl
      | cons op ops =>
        simp only
        have hs' := hpop s ops hs
        rw [← hstep _ op cost (effMax mc s) hs']
        cases hst : stepOp cfg1 d1 { s with opStack := ops } op cost (effMax mc s) with
        | error e => rfl
        | ok r =>
          obtain ⟨c, s1⟩ := r
          simp only
          exact ih s1 (cost + c) (hinv _ op cost _ c s1 hs' hst)

end Clvm.Interp
