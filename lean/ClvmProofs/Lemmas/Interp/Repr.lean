/-
C03 (representation independence), operator level: `OpRepr true f` for every operator of
`coreOpByName cfg` except `op_substr`, `OpRepr false opSubstr` with the exact defect region of its
heap accounting (DESIGN §6-C), and `opUnknown`.
-/
import ClvmProofs.Lemmas.Interp.ReprAux

namespace Clvm.Interp
open Clvm Clvm.Alloc

/-! ### core_ops.rs -/

theorem opIf_repr : OpRepr true opIf := opRepr_of_req fun flags m a a' c h => by
  unfold opIf
  rcases (getArgs3_req h "i").cases' with ⟨e, h1, h2⟩ | ⟨⟨x, y, z⟩, ⟨x', y', z'⟩, h1, h2, hx, hy, hz⟩
  · rw [h1, h2]; exact .err _ e
  · rw [h1, h2]
    simp only [nilp_req hx]
    have hv : Req (if x'.nilp = true then z else y) (if x'.nilp = true then z' else y') := by
      split
      · exact hz
      · exact hy
    exact .ok_req _ _ _ hv

theorem opCons_repr : OpRepr true opCons := opRepr_of_req fun flags m a a' c h => by
  unfold opCons
  rcases (getArgs2_req h "c").cases' with ⟨e, h1, h2⟩ | ⟨⟨x, y⟩, ⟨x', y'⟩, h1, h2, hx, hy⟩
  · rw [h1, h2]; exact .err _ e
  · rw [h1, h2]
    simp only [allocPair]
    cases c.newPair with
    | error e => exact .err _ e
    | ok c' => exact .ok_req _ _ _ (hx.pair hy)

theorem opFirst_repr : OpRepr true opFirst := opRepr_of_req fun flags m a a' c h => by
  unfold opFirst
  rcases (getArgs1_req h "f").cases' with ⟨e, h1, h2⟩ | ⟨x, x', h1, h2, hx⟩
  · rw [h1, h2]; exact .err _ e
  · rw [h1, h2]
    rcases (first_req hx).cases' with ⟨e, h1, h2⟩ | ⟨y, y', h1, h2, hy⟩
    · simp only [h1, h2]; exact .err _ e
    · simp only [h1, h2]; exact .ok_req _ _ _ hy

theorem opRest_repr : OpRepr true opRest := opRepr_of_req fun flags m a a' c h => by
  unfold opRest
  rcases (getArgs1_req h "r").cases' with ⟨e, h1, h2⟩ | ⟨x, x', h1, h2, hx⟩
  · rw [h1, h2]; exact .err _ e
  · rw [h1, h2]
    rcases (rest_req hx).cases' with ⟨e, h1, h2⟩ | ⟨y, y', h1, h2, hy⟩
    · simp only [h1, h2]; exact .err _ e
    · simp only [h1, h2]; exact .ok_req _ _ _ hy

theorem opListp_repr : OpRepr true opListp := opRepr_of_eq fun flags m a a' c h => by
  unfold opListp
  rcases (getArgs1_req h "l").cases' with ⟨e, h1, h2⟩ | ⟨x, x', h1, h2, hx⟩
  · rw [h1, h2]
  · rw [h1, h2]; simp only [isPair_req hx]

theorem opRaise_repr : OpRepr true opRaise := opRepr_of_eq fun _ _ _ _ _ _ => rfl

theorem opEq_repr : OpRepr true opEq := opRepr_of_eq fun flags m a a' c h => by
  unfold opEq
  rcases (getArgs2_req h "=").cases' with ⟨e, h1, h2⟩ | ⟨⟨x, y⟩, ⟨x', y'⟩, h1, h2, hx, hy⟩
  · rw [h1, h2]
  · rw [h1, h2]
    cases hx.cases <;> cases hy.cases <;> rfl

/-! ### more_ops.rs: simple readers -/

theorem opNot_repr : OpRepr true opNot := opRepr_of_eq fun flags m a a' c h => by
  unfold opNot
  rcases (getArgs1_req h "not").cases' with ⟨e, h1, h2⟩ | ⟨x, x', h1, h2, hx⟩
  · rw [h1, h2]
  · rw [h1, h2]; simp only [nilp_req hx]

theorem boolLoop_req (maxCost : Nat) (isAny : Bool) {l l' : List Val} (h : ListReq l l') (cost : Nat) (acc : Bool) :
    boolLoop maxCost isAny l cost acc = boolLoop maxCost isAny l' cost acc := by
  induction h generalizing cost acc with
  | nil => rfl
  | cons hx _ ih =>
    simp only [boolLoop, nilp_req hx]
    split
    · rfl
    · exact ih _ _

theorem opAny_repr : OpRepr true opAny := opRepr_of_eq fun flags m a a' c h => by
  unfold opAny; rw [boolLoop_req _ _ (argList_req h)]

theorem opAll_repr : OpRepr true opAll := opRepr_of_eq fun flags m a a' c h => by
  unfold opAll; rw [boolLoop_req _ _ (argList_req h)]

theorem opGrBytes_repr : OpRepr true opGrBytes := opRepr_of_eq fun flags m a a' c h => by
  unfold opGrBytes
  rcases (getArgs2_req h ">s").cases' with ⟨e, h1, h2⟩ | ⟨⟨x, y⟩, ⟨x', y'⟩, h1, h2, hx, hy⟩
  · rw [h1, h2]
  · rw [h1, h2]; simp only [atomBytes_req hx, atomBytes_req hy]

theorem opStrlen_repr : OpRepr true opStrlen := opRepr_of_eq fun flags m a a' c h => by
  unfold opStrlen
  rcases (getArgs1_req h "strlen").cases' with ⟨e, h1, h2⟩ | ⟨x, x', h1, h2, hx⟩
  · rw [h1, h2]
  · rw [h1, h2]; simp only [atomLen_req hx]

theorem opLognot_repr : OpRepr true opLognot := opRepr_of_eq fun flags m a a' c h => by
  unfold opLognot
  rcases (getArgs1_req h "lognot").cases' with ⟨e, h1, h2⟩ | ⟨x, x', h1, h2, hx⟩
  · rw [h1, h2]
  · rw [h1, h2]; simp only [intAtom_req hx]

theorem opAsh_repr : OpRepr true opAsh := opRepr_of_eq fun flags m a a' c h => by
  unfold opAsh
  rcases (getArgs2_req h "ash").cases' with ⟨e, h1, h2⟩ | ⟨⟨x, y⟩, ⟨x', y'⟩, h1, h2, hx, hy⟩
  · rw [h1, h2]
  · rw [h1, h2]; simp only [intAtom_req hx, i32Atom_req hy]

theorem opLsh_repr : OpRepr true opLsh := opRepr_of_eq fun flags m a a' c h => by
  unfold opLsh
  rcases (getArgs2_req h "lsh").cases' with ⟨e, h1, h2⟩ | ⟨⟨x, y⟩, ⟨x', y'⟩, h1, h2, hx, hy⟩
  · rw [h1, h2]
  · rw [h1, h2]; simp only [atomBytes_req hx, i32Atom_req hy]

theorem binopLoop_req (opName : String) (nm : Bool) (f : Int → Int → Int) (maxCost : Nat)
    {l l' : List Val} (h : ListReq l l') (cost : Nat) (p n : Int) :
    binopLoop opName nm f maxCost l cost p n = binopLoop opName nm f maxCost l' cost p n := by
  induction h generalizing cost p n with
  | nil => rfl
  | cons hx _ ih =>
    simp only [binopLoop, intAtom_req hx]
    split
    · rfl
    · split
      · rfl
      · exact ih _ _ _

theorem binopReduction_repr (opName : String) (init : Int) (f : Int → Int → Int) :
    OpRepr true (binopReduction opName init f) := opRepr_of_eq fun flags m a a' c h => by
  unfold binopReduction; rw [binopLoop_req _ _ _ _ (argList_req h)]

theorem opLogand_repr : OpRepr true opLogand := binopReduction_repr _ _ _
theorem opLogior_repr : OpRepr true opLogior := binopReduction_repr _ _ _
theorem opLogxor_repr : OpRepr true opLogxor := binopReduction_repr _ _ _

/-! ### div, divmod, mod, modpow -/

theorem divPrologue_req (name errName : String) (oldBase oldPerByte : Nat) (flags : Flags) (maxCost : Nat)
    {a a' : Val} (h : Req a a') :
    divPrologue intAtom name errName oldBase oldPerByte flags maxCost a =
      divPrologue intAtom name errName oldBase oldPerByte flags maxCost a' := by
  unfold divPrologue
  rcases (getArgs2_req h name).cases' with ⟨e, h1, h2⟩ | ⟨⟨x, y⟩, ⟨x', y'⟩, h1, h2, hx, hy⟩
  · rw [h1, h2]
  · rw [h1, h2]; simp only [intAtom_req hx, intAtom_req hy]

theorem malachiteIntAtom_eq_intAtom' : malachiteIntAtom = intAtom := by
  funext v n; exact malachiteIntAtom_eq_intAtom v n

theorem opDiv_repr : OpRepr true opDiv := opRepr_of_eq fun flags m a a' c h => by
  simp only [opDiv, opDivWith, malachiteIntAtom_eq_intAtom', ite_self, divPrologue_req _ _ _ _ _ _ h]

theorem opDivmod_repr : OpRepr true opDivmod := opRepr_of_eq fun flags m a a' c h => by
  simp only [opDivmod, opDivmodWith, malachiteIntAtom_eq_intAtom', ite_self, divPrologue_req _ _ _ _ _ _ h]

theorem opMod_repr : OpRepr true opMod := opRepr_of_eq fun flags m a a' c h => by
  simp only [opMod, opModWith, malachiteIntAtom_eq_intAtom', ite_self, divPrologue_req _ _ _ _ _ _ h]

theorem opModpow_repr : OpRepr true opModpow := opRepr_of_eq fun flags m a a' c h => by
  simp only [opModpow, malachiteIntAtom_eq_intAtom', ite_self]
  unfold opModpowWith
  rcases (getArgs3_req h "modpow").cases' with ⟨e, h1, h2⟩ | ⟨⟨x, y, z⟩, ⟨x', y', z'⟩, h1, h2, hx, hy, hz⟩
  · rw [h1, h2]
  · rw [h1, h2]; simp only [intAtom_req hx, intAtom_req hy, intAtom_req hz]

end Clvm.Interp
