/-
C03 (representation independence), operator level: `OpRepr true f` for every operator of
`coreOpByName cfg` except `op_substr`, `OpRepr false opSubstr` with the exact defect region of its
heap accounting (DESIGN §6-C), and `opUnknown`.
-/
import ClvmProofs.Lemmas.Interp.ReprAux
import ClvmProofs.Lemmas.Interp.Fastpath

namespace Clvm.Interp
open Clvm Clvm.Alloc

/-! ### core_ops.rs -/

theorem opIf_repr : OpRepr true opIf := opRepr_of_req fun flags m a a' c h => by
  unfold opIf
  rcases (getArgs3_req h "i").cases' with ⟨e, h1, h2⟩ | ⟨⟨x, y, z⟩, ⟨x', y', z'⟩, h1, h2, hx, hy, hz⟩
  · rw [h1, h2]; exact .err _ e
  · rw [h1, h2]
    simp only [nilp_req hx]
    have hv : Req (if x'.nilp = true then z else y) (if x'.nilp = true then z' else y') := by
      split
      · exact hz
      · exact hy
    exact .ok_req _ _ _ hv

theorem opCons_repr : OpRepr true opCons := opRepr_of_req fun flags m a a' c h => by
  unfold opCons
  rcases (getArgs2_req h "c").cases' with ⟨e, h1, h2⟩ | ⟨⟨x, y⟩, ⟨x', y'⟩, h1, h2, hx, hy⟩
  · rw [h1, h2]; exact .err _ e
  · rw [h1, h2]
    simp only [allocPair]
    cases c.newPair with
    | error e => exact .err _ e
    | ok c' => exact .ok_req _ _ _ (hx.pair hy)

theorem opFirst_repr : OpRepr true opFirst := opRepr_of_req fun flags m a a' c h => by
  unfold opFirst
  rcases (getArgs1_req h "f").cases' with ⟨e, h1, h2⟩ | ⟨x, x', h1, h2, hx⟩
  · rw [h1, h2]; exact .err _ e
  · rw [h1, h2]
    rcases (first_req hx).cases' with ⟨e, h1, h2⟩ | ⟨y, y', h1, h2, hy⟩
    · simp only [h1, h2]; exact .err _ e
    · simp only [h1, h2]; exact .ok_req _ _ _ hy

theorem opRest_repr : OpRepr true opRest := opRepr_of_req fun flags m a a' c h => by
  unfold opRest
  rcases (getArgs1_req h "r").cases' with ⟨e, h1, h2⟩ | ⟨x, x', h1, h2, hx⟩
  · rw [h1, h2]; exact .err _ e
  · rw [h1, h2]
    rcases (rest_req hx).cases' with ⟨e, h1, h2⟩ | ⟨y, y', h1, h2, hy⟩
    · simp only [h1, h2]; exact .err _ e
    · simp only [h1, h2]; exact .ok_req _ _ _ hy

theorem opListp_repr : OpRepr true opListp := opRepr_of_eq fun flags m a a' c h => by
  unfold opListp
  rcases (getArgs1_req h "l").cases' with ⟨e, h1, h2⟩ | ⟨x, x', h1, h2, hx⟩
  · rw [h1, h2]
  · rw [h1, h2]; simp only [isPair_req hx]

theorem opRaise_repr : OpRepr true opRaise := opRepr_of_eq fun _ _ _ _ _ _ => rfl

theorem opEq_repr : OpRepr true opEq := opRepr_of_eq fun flags m a a' c h => by
  unfold opEq
  rcases (getArgs2_req h "=").cases' with ⟨e, h1, h2⟩ | ⟨⟨x, y⟩, ⟨x', y'⟩, h1, h2, hx, hy⟩
  · rw [h1, h2]
  · rw [h1, h2]
    cases hx.cases <;> cases hy.cases <;> rfl

/-! ### more_ops.rs: simple readers -/

theorem opNot_repr : OpRepr true opNot := opRepr_of_eq fun flags m a a' c h => by
  unfold opNot
  rcases (getArgs1_req h "not").cases' with ⟨e, h1, h2⟩ | ⟨x, x', h1, h2, hx⟩
  · rw [h1, h2]
  · rw [h1, h2]; simp only [nilp_req hx]

theorem boolLoop_req (maxCost : Nat) (isAny : Bool) {l l' : List Val} (h : ListReq l l') (cost : Nat) (acc : Bool) :
    boolLoop maxCost isAny l cost acc = boolLoop maxCost isAny l' cost acc := by
  induction h generalizing cost acc with
  | nil => rfl
  | cons hx _ ih =>
    simp only [boolLoop, nilp_req hx]
    split
    · rfl
    · exact ih _ _

theorem opAny_repr : OpRepr true opAny := opRepr_of_eq fun flags m a a' c h => by
  unfold opAny; rw [boolLoop_req _ _ (argList_req h)]

theorem opAll_repr : OpRepr true opAll := opRepr_of_eq fun flags m a a' c h => by
  unfold opAll; rw [boolLoop_req _ _ (argList_req h)]

theorem opGrBytes_repr : OpRepr true opGrBytes := opRepr_of_eq fun flags m a a' c h => by
  unfold opGrBytes
  rcases (getArgs2_req h ">s").cases' with ⟨e, h1, h2⟩ | ⟨⟨x, y⟩, ⟨x', y'⟩, h1, h2, hx, hy⟩
  · rw [h1, h2]
  · rw [h1, h2]; simp only [atomBytes_req hx, atomBytes_req hy]

theorem opStrlen_repr : OpRepr true opStrlen := opRepr_of_eq fun flags m a a' c h => by
  unfold opStrlen
  rcases (getArgs1_req h "strlen").cases' with ⟨e, h1, h2⟩ | ⟨x, x', h1, h2, hx⟩
  · rw [h1, h2]
  · rw [h1, h2]; simp only [atomLen_req hx]

theorem opLognot_repr : OpRepr true opLognot := opRepr_of_eq fun flags m a a' c h => by
  unfold opLognot
  rcases (getArgs1_req h "lognot").cases' with ⟨e, h1, h2⟩ | ⟨x, x', h1, h2, hx⟩
  · rw [h1, h2]
  · rw [h1, h2]; simp only [intAtom_req hx]

theorem opAsh_repr : OpRepr true opAsh := opRepr_of_eq fun flags m a a' c h => by
  unfold opAsh
  rcases (getArgs2_req h "ash").cases' with ⟨e, h1, h2⟩ | ⟨⟨x, y⟩, ⟨x', y'⟩, h1, h2, hx, hy⟩
  · rw [h1, h2]
  · rw [h1, h2]; simp only [intAtom_req hx, i32Atom_req hy]

theorem opLsh_repr : OpRepr true opLsh := opRepr_of_eq fun flags m a a' c h => by
  unfold opLsh
  rcases (getArgs2_req h "lsh").cases' with ⟨e, h1, h2⟩ | ⟨⟨x, y⟩, ⟨x', y'⟩, h1, h2, hx, hy⟩
  · rw [h1, h2]
  · rw [h1, h2]; simp only [atomBytes_req hx, i32Atom_req hy]

theorem binopLoop_req (opName : String) (nm : Bool) (f : Int → Int → Int) (maxCost : Nat)
    {l l' : List Val} (h : ListReq l l') (cost : Nat) (p n : Int) :
    binopLoop opName nm f maxCost l cost p n = binopLoop opName nm f maxCost l' cost p n := by
  induction h generalizing cost p n with
  | nil => rfl
  | cons hx _ ih =>
    simp only [binopLoop, intAtom_req hx]
    split
    · rfl
    · split
      · rfl
      · exact ih _ _ _

theorem binopReduction_repr (opName : String) (init : Int) (f : Int → Int → Int) :
    OpRepr true (binopReduction opName init f) := opRepr_of_eq fun flags m a a' c h => by
  unfold binopReduction; rw [binopLoop_req _ _ _ _ (argList_req h)]

theorem opLogand_repr : OpRepr true opLogand := binopReduction_repr _ _ _
theorem opLogior_repr : OpRepr true opLogior := binopReduction_repr _ _ _
theorem opLogxor_repr : OpRepr true opLogxor := binopReduction_repr _ _ _

/-! ### div, divmod, mod, modpow -/

theorem divPrologue_req (name errName : String) (oldBase oldPerByte : Nat) (flags : Flags) (maxCost : Nat)
    {a a' : Val} (h : Req a a') :
    divPrologue intAtom name errName oldBase oldPerByte flags maxCost a =
      divPrologue intAtom name errName oldBase oldPerByte flags maxCost a' := by
  unfold divPrologue
  rcases (getArgs2_req h name).cases' with ⟨e, h1, h2⟩ | ⟨⟨x, y⟩, ⟨x', y'⟩, h1, h2, hx, hy⟩
  · rw [h1, h2]
  · rw [h1, h2]; simp only [intAtom_req hx, intAtom_req hy]

theorem malachiteIntAtom_eq_intAtom' : malachiteIntAtom = intAtom := by
  funext v n; exact malachiteIntAtom_eq_intAtom v n

theorem opDiv_repr : OpRepr true opDiv := opRepr_of_eq fun flags m a a' c h => by
  simp only [opDiv, opDivWith, malachiteIntAtom_eq_intAtom', ite_self, divPrologue_req _ _ _ _ _ _ h]

theorem opDivmod_repr : OpRepr true opDivmod := opRepr_of_eq fun flags m a a' c h => by
  simp only [opDivmod, opDivmodWith, malachiteIntAtom_eq_intAtom', ite_self, divPrologue_req _ _ _ _ _ _ h]

theorem opMod_repr : OpRepr true opMod := opRepr_of_eq fun flags m a a' c h => by
  simp only [opMod, opModWith, malachiteIntAtom_eq_intAtom', ite_self, divPrologue_req _ _ _ _ _ _ h]

theorem opModpow_repr : OpRepr true opModpow := opRepr_of_eq fun flags m a a' c h => by
  simp only [opModpow, malachiteIntAtom_eq_intAtom', ite_self]
  unfold opModpowWith
  rcases (getArgs3_req h "modpow").cases' with ⟨e, h1, h2⟩ | ⟨⟨x, y, z⟩, ⟨x', y', z'⟩, h1, h2, hx, hy, hz⟩
  · rw [h1, h2]
  · rw [h1, h2]; simp only [intAtom_req hx, intAtom_req hy, intAtom_req hz]

/-! ### unknown operators -/

theorem unknownArith_req (nm : Bool) (maxCost : Nat) {l l' : List Val} (h : ListReq l l') (cost accSize : Nat) :
    unknownArith nm maxCost l cost accSize = unknownArith nm maxCost l' cost accSize := by
  induction h generalizing cost accSize with
  | nil => rfl
  | cons hx _ ih => simp only [unknownArith, atomLen_req hx, ih]

set_option maxRecDepth 8000 in
/-- unfolding equation (the generated one exceeds the default recursion depth) -/
theorem unknownMul_cons (nm : Bool) (maxCost : Nat) (sqDiv : Nat) (arg : Val) (rest : List Val)
    (cost l0 : Nat) (firstIter : Bool) :
    unknownMul nm maxCost sqDiv (arg :: rest) cost l0 firstIter =
    match atomLen arg "unknown op" with
    | .error e => .error e
    | .ok len =>
      if firstIter then
        if nm then
          match ckMul len Gen.MUL_LINEAR_COST_PER_BYTE with
          | .error e => .error e
          | .ok m =>
            match ckAdd cost m with
            | .error e => .error e
            | .ok cost1 =>
              match checkCost cost1 maxCost with
              | .error e => .error e
              | .ok () => unknownMul nm maxCost sqDiv rest cost1 len false
        else unknownMul nm maxCost sqDiv rest cost len false
      else if nm then
        match ckAdd cost Gen.MUL_COST_PER_OP with
        | .error e => .error e
        | .ok cost1 =>
          match ckAdd l0 len with
          | .error e => .error e
          | .ok s =>
            match ckMul s Gen.MUL_LINEAR_COST_PER_BYTE with
            | .error e => .error e
            | .ok lin =>
              match ckAdd cost1 lin with
              | .error e => .error e
              | .ok cost2 =>
                match ckMul l0 len with
                | .error e => .error e
                | .ok sq =>
                  match ckAdd cost2 (sq / sqDiv) with
                  | .error e => .error e
                  | .ok cost3 =>
                    match checkCost cost3 maxCost with
                    | .error e => .error e
                    | .ok () => unknownMul nm maxCost sqDiv rest cost3 (l0 + len) false
      else
        let cost3 := cost + Gen.MUL_COST_PER_OP + (l0 + len) * Gen.MUL_LINEAR_COST_PER_BYTE + (l0 * len) / sqDiv
        match checkCost cost3 maxCost with
        | .error e => .error e
        | .ok () => unknownMul nm maxCost sqDiv rest cost3 (l0 + len) false := rfl

theorem unknownMul_req (nm : Bool) (maxCost sqDiv : Nat) {l l' : List Val} (h : ListReq l l') (cost l0 : Nat)
    (fi : Bool) :
    unknownMul nm maxCost sqDiv l cost l0 fi = unknownMul nm maxCost sqDiv l' cost l0 fi := by
  induction h generalizing cost l0 fi with
  | nil => rfl
  | cons hx _ ih => simp only [unknownMul_cons, atomLen_req hx, ih]

theorem unknownConcat_req (maxCost : Nat) {l l' : List Val} (h : ListReq l l') (cost : Nat) :
    unknownConcat maxCost l cost = unknownConcat maxCost l' cost := by
  induction h generalizing cost with
  | nil => rfl
  | cons hx _ ih => simp only [unknownConcat, atomLen_req hx, ih]

theorem opUnknown_repr (op : Bytes) : OpRepr true (opUnknown op) := opRepr_of_eq fun flags m a a' c h => by
  have hl := argList_req h
  simp only [opUnknown, unknownArith_req _ _ hl, unknownMul_req _ _ _ hl, unknownConcat_req _ hl]

/-! ### sha256 -/

theorem sha256Loop_req (cpa cpb maxCost : Nat) {l l' : List Val} (h : ListReq l l') (cost : Nat) (acc : Bytes) :
    sha256Loop cpa cpb maxCost l cost acc = sha256Loop cpa cpb maxCost l' cost acc := by
  induction h generalizing cost acc with
  | nil => rfl
  | cons hx _ ih => simp only [sha256Loop, atomBytes_req hx, ih]

/-- on an atom argument list (no arguments) the `input == NIL` shortcut, the fast path and the
loop all give the hash of the empty string at the base cost -/
theorem opSha256_atom (cfg : Cfg) (flags m : Nat) (b : Bytes) (t : Bool) (c : Ctr) :
    opSha256 cfg flags m (.atom b t) c = opSha256 cfg flags m (.atom b false) c := by
  obtain ⟨fp⟩ := cfg
  cases fp <;> cases t <;> cases b <;> rfl

theorem matchArgs_req {a a' : Val} (h : Req a a') (n : Nat) :
    (matchArgs n a = none ∧ matchArgs n a' = none) ∨
    (∃ l l', matchArgs n a = some l ∧ matchArgs n a' = some l' ∧ ListReq l l') := by
  have hl := argList_req h
  have hlen := hl.length_eq
  unfold matchArgs
  simp only [hlen]
  by_cases hn : ((argList a').length == n) = true
  · simp only [hn, if_true]; exact .inr ⟨_, _, rfl, rfl, hl⟩
  · simp only [hn]; exact .inl ⟨rfl, rfl⟩

theorem opSha256_repr (cfg : Cfg) : OpRepr true (opSha256 cfg) := opRepr_of_eq fun flags m a a' c h => by
  cases h.cases with
  | atom b t t' _ _ => rw [opSha256_atom, opSha256_atom cfg flags m b t']
  | pair l r l' r' hl hr =>
    have hargs := argList_req h
    unfold opSha256
    simp only [Val.isNilPtr, Bool.false_eq_true, if_false, sha256Loop_req _ _ _ hargs]
    rcases matchArgs_req h 2 with ⟨h1, h2⟩ | ⟨l1, l2, h1, h2, hl12⟩
    · rw [h1, h2]
    · rw [h1, h2]
      match l1, l2, hl12 with
      | [], [], _ => rfl
      | [_], [_], .cons _ .nil => rfl
      | [x, y], [x', y'], .cons hx (.cons hy .nil) => simp only [smallNumber_req hx, smallNumber_req hy]
      | _ :: _ :: _ :: _, _ :: _ :: _ :: _, .cons _ (.cons _ (.cons _ _)) => rfl

/-! ### comparison -/

theorem opGr_repr (cfg : Cfg) : OpRepr true (opGr cfg) := opRepr_of_eq fun flags m a a' c h => by
  unfold opGr
  rcases (getArgs2_req h ">").cases' with ⟨e, h1, h2⟩ | ⟨⟨x, y⟩, ⟨x', y'⟩, h1, h2, hx, hy⟩
  · rw [h1, h2]
  · rw [h1, h2]; simp only [smallNumber_req hx, smallNumber_req hy, intAtom_req hx, intAtom_req hy]

/-! ### concat -/

theorem concatLoop_req (maxCost : Nat) {l l' : List Val} (h : ListReq l l') (cost totalSize : Nat)
    {terms terms' : List Val} (ht : ListReq terms terms') :
    ArgsRel (fun r r' => r.1 = r'.1 ∧ r.2.1 = r'.2.1 ∧ ListReq r.2.2 r'.2.2)
      (concatLoop maxCost l cost totalSize terms) (concatLoop maxCost l' cost totalSize terms') := by
  induction h generalizing cost totalSize terms terms' with
  | nil =>
    simp only [concatLoop]
    refine .ok _ _ ⟨rfl, rfl, ?_⟩
    exact ListReq.reverse ht
  | cons hx _ ih =>
    cases hx.cases with
    | pair _ _ _ _ _ _ => simp only [concatLoop]; exact .err _
    | atom b t t' _ _ =>
      simp only [concatLoop]
      split
      · exact .err _
      · split
        · exact ih _ _ (.cons hx ht)
        · exact ih _ _ ht

/-- a fold that does not look at tags (the byte-gathering fold of `new_concat`) -/
theorem foldl_req {β : Type} (f : β → Val → β)
    (hatom : ∀ acc b, f acc (.atom b true) = f acc (.atom b false))
    (hpair : ∀ acc l r l' r', f acc (.pair l r) = f acc (.pair l' r'))
    {l l' : List Val} (h : ListReq l l') (acc : β) :
    l.foldl f acc = l'.foldl f acc := by
  induction h generalizing acc with
  | nil => rfl
  | cons hx _ ih =>
    simp only [List.foldl_cons]
    have : f acc _ = f acc _ :=
      req_of_tag (f acc) (fun b _ => hatom acc b) (fun l r l' r' _ _ => hpair acc l r l' r') hx
    rw [this, ih]

theorem newConcat_req (c : Ctr) (newSize : Nat) {l l' : List Val} (h : ListReq l l') :
    ArgsRel (fun r r' => Req r.1 r'.1 ∧ r.2 = r'.2) (newConcat c newSize l) (newConcat c newSize l') := by
  unfold newConcat
  cases c.checkAtomLimit with
  | error e => exact .err e
  | ok u =>
    simp only []
    split
    · exact .err _
    · match l, l', h with
      | [], [], _ =>
        simp only []
        split
        · exact .err _
        · exact .ok _ _ ⟨Req.nil, rfl⟩
      | [x], [x'], .cons hx .nil =>
        cases hx.cases with
        | pair _ _ _ _ _ _ => exact .err _
        | atom b t t' _ _ =>
          simp only []
          split
          · exact .err _
          · exact .ok _ _ ⟨hx, rfl⟩
      | x :: y :: l, x' :: y' :: l', h =>
        simp only []
        rw [foldl_req _ _ _ h]
        rotate_left
        · intro acc b; cases acc <;> rfl
        · intro acc _ _ _ _; cases acc <;> rfl
        split
        · exact .err _
        · split
          · exact .err _
          · exact .ok _ _ ⟨Req.refl (by rfl), rfl⟩

theorem opConcat_repr : OpRepr true opConcat := opRepr_of_req fun flags m a a' c h => by
  unfold opConcat
  rcases (concatLoop_req m (argList_req h) Gen.CONCAT_BASE_COST 0 .nil).cases' with
    ⟨e, h1, h2⟩ | ⟨⟨k, sz, ts⟩, ⟨k', sz', ts'⟩, h1, h2, hk, hsz, hts⟩
  · rw [h1, h2]; exact .err _ e
  · rw [h1, h2]
    simp only at hk hsz hts
    subst hk; subst hsz
    rcases (newConcat_req c sz hts).cases' with ⟨e, h1, h2⟩ | ⟨⟨v, c1⟩, ⟨v', c1'⟩, h1, h2, hv, hc⟩
    · simp only [h1, h2]; exact .err _ e
    · simp only [h1, h2]
      simp only at hc; subst hc
      exact .ok_req _ _ _ hv

/-! ### multiply -/

theorem mulLoop_req (cfg : Cfg) (flags : Flags) (maxCost sqDiv : Nat) {l l' : List Val} (h : ListReq l l')
    (cost : Nat) (total : Int) (l0 : Nat) :
    mulLoop cfg flags maxCost sqDiv l cost total l0 = mulLoop cfg flags maxCost sqDiv l' cost total l0 := by
  induction h generalizing cost total l0 with
  | nil => rfl
  | @cons x x' l l' hx _ ih =>
    have e1 : mulLoop cfg flags maxCost sqDiv (x :: l) cost total l0 =
        mulLoop cfg flags maxCost sqDiv (x :: l') cost total l0 := by
      simp only [mulLoop, ih]
    rw [e1]
    refine req_of_tag (fun v => mulLoop cfg flags maxCost sqDiv (v :: l') cost total l0) ?_ ?_ hx
    · intro b hb
      have h256 : ¬ b.length > 256 := by have := hb.len4; omega
      obtain ⟨fp⟩ := cfg
      cases fp <;>
        simp only [mulLoop, node, intAtom, hb.dec, hb.len, h256, decide_false, Bool.and_false,
          Bool.false_eq_true, if_false, if_true]
    · intro l r l' r' _ _
      obtain ⟨fp⟩ := cfg
      cases fp <;> simp only [mulLoop, node, intAtom]

theorem opMultiply_repr (cfg : Cfg) : OpRepr true (opMultiply cfg) := opRepr_of_eq fun flags m a a' c h => by
  unfold opMultiply
  have hl := argList_req h
  generalize argList a = l at hl
  generalize argList a' = l' at hl
  cases hl with
  | nil => rfl
  | cons hx ht => simp only [intAtom_req hx, mulLoop_req _ _ _ _ ht]

/-! ### add, subtract -/

/-- invariant relating the two accumulators of the generic loops in two runs -/
def AccRel (nm : Bool) (acc small acc' small' : Int) : Prop :=
  if nm then small = small' else acc + small = acc' + small'

theorem addGeneric_acc (nm : Bool) (cpa cpb maxCost : Nat) (l : List Val) (cost : Nat)
    (acc small acc' small' : Int) (hacc : AccRel nm acc small acc' small') :
    addGeneric nm cpa cpb maxCost l cost acc small = addGeneric nm cpa cpb maxCost l cost acc' small' := by
  induction l generalizing cost acc small acc' small' with
  | nil =>
    cases nm
    · simp only [AccRel, Bool.false_eq_true, if_false] at hacc; simp [addGeneric, hacc]
    · simp only [AccRel, if_true] at hacc; simp [addGeneric, hacc]
  | cons x l ih =>
    cases x with
    | pair _ _ => rfl
    | atom b t =>
      cases t <;> cases nm <;> simp only [AccRel, Bool.false_eq_true, if_false, if_true] at hacc <;>
        simp only [addGeneric, node, Bool.false_eq_true, if_false, if_true] <;>
        (try subst hacc) <;> split <;> (try rfl) <;> apply ih <;>
        simp only [AccRel, Bool.false_eq_true, if_false, if_true] <;> omega

theorem addGeneric_req (nm : Bool) (cpa cpb maxCost : Nat) {l l' : List Val} (h : ListReq l l') (cost : Nat)
    (acc small : Int) :
    addGeneric nm cpa cpb maxCost l cost acc small = addGeneric nm cpa cpb maxCost l' cost acc small := by
  induction h generalizing cost acc small with
  | nil => rfl
  | @cons x x' l l' hx _ ih =>
    have e1 : addGeneric nm cpa cpb maxCost (x :: l) cost acc small =
        addGeneric nm cpa cpb maxCost (x :: l') cost acc small := by
      simp only [addGeneric, ih]
    rw [e1]
    refine req_of_tag (fun v => addGeneric nm cpa cpb maxCost (v :: l') cost acc small) ?_ ?_ hx
    · intro b hb
      cases nm
      · simp only [addGeneric, node, hb.dec, hb.len, Bool.false_eq_true, if_false, Nat.mul_comm cpb]
        split
        · rfl
        · apply addGeneric_acc; simp only [AccRel, Bool.false_eq_true, if_false]; omega
      · simp only [addGeneric, node, hb.dec, hb.len, if_true]
    · intro l r l' r' _ _; rfl

theorem subGeneric_acc (nm : Bool) (cpa cpb maxCost : Nat) (l : List Val) (cost : Nat)
    (acc small acc' small' : Int) (isFirst : Bool) (hacc : AccRel nm acc small acc' small') :
    subGeneric nm cpa cpb maxCost l cost acc small isFirst =
      subGeneric nm cpa cpb maxCost l cost acc' small' isFirst := by
  induction l generalizing cost acc small acc' small' isFirst with
  | nil =>
    cases nm
    · simp only [AccRel, Bool.false_eq_true, if_false] at hacc; simp [subGeneric, hacc]
    · simp only [AccRel, if_true] at hacc; simp [subGeneric, hacc]
  | cons x l ih =>
    cases x with
    | pair _ _ => rfl
    | atom b t =>
      cases t <;> cases nm <;> simp only [AccRel, Bool.false_eq_true, if_false, if_true] at hacc <;>
        simp only [subGeneric, node, Bool.false_eq_true, if_false, if_true] <;>
        (try subst hacc) <;> split <;> (try rfl) <;> split <;> (try rfl) <;> apply ih <;>
        simp only [AccRel, Bool.false_eq_true, if_false, if_true] <;> omega

theorem subGeneric_req (nm : Bool) (cpa cpb maxCost : Nat) {l l' : List Val} (h : ListReq l l') (cost : Nat)
    (acc small : Int) (isFirst : Bool) :
    subGeneric nm cpa cpb maxCost l cost acc small isFirst =
      subGeneric nm cpa cpb maxCost l' cost acc small isFirst := by
  induction h generalizing cost acc small isFirst with
  | nil => rfl
  | @cons x x' l l' hx _ ih =>
    have e1 : subGeneric nm cpa cpb maxCost (x :: l) cost acc small isFirst =
        subGeneric nm cpa cpb maxCost (x :: l') cost acc small isFirst := by
      simp only [subGeneric, ih]
    rw [e1]
    refine req_of_tag (fun v => subGeneric nm cpa cpb maxCost (v :: l') cost acc small isFirst) ?_ ?_ hx
    · intro b hb
      cases nm
      · simp only [subGeneric, node, hb.dec, hb.len, Bool.false_eq_true, if_false]
        split
        · rfl
        · split
          · rfl
          · apply subGeneric_acc; simp only [AccRel, Bool.false_eq_true, if_false]; omega
      · simp only [subGeneric, node, hb.dec, hb.len, if_true]
    · intro l r l' r' _ _; rfl


theorem opAdd_repr (cfg : Cfg) : OpRepr true (opAdd cfg) := opRepr_of_eq fun flags m a a' c h => by
  have key : opAdd { fastpath := false } flags m a c = opAdd { fastpath := false } flags m a' c := by
    simp only [opAdd, Bool.false_eq_true, if_false, addGeneric_req _ _ _ _ (argList_req h)]
  obtain ⟨fp⟩ := cfg
  cases fp
  · exact key
  · rw [opAdd_fastpath flags m a c h.1, opAdd_fastpath flags m a' c h.2.1]; exact key

theorem opSubtract_repr (cfg : Cfg) : OpRepr true (opSubtract cfg) := opRepr_of_eq fun flags m a a' c h => by
  have key : opSubtract { fastpath := false } flags m a c = opSubtract { fastpath := false } flags m a' c := by
    simp only [opSubtract, Bool.false_eq_true, if_false, subGeneric_req _ _ _ _ (argList_req h)]
  obtain ⟨fp⟩ := cfg
  cases fp
  · exact key
  · rw [opSubtract_fastpath flags m a c h.1, opSubtract_fastpath flags m a' c h.2.1]; exact key

end Clvm.Interp
