/-
C03 (representation independence), operator level: `OpRepr true f` for every operator of
`coreOpByName cfg` except `op_substr`, `OpRepr false opSubstr` with the exact defect region of its
heap accounting (DESIGN §6-C), and `opUnknown`.
-/
import ClvmProofs.Lemmas.Interp.ReprAux
import ClvmProofs.Lemmas.Interp.Fastpath

namespace Clvm.Interp
open Clvm Clvm.Alloc

/-! ### core_ops.rs -/

theorem opIf_repr : OpRepr true opIf := opRepr_of_req fun flags m a a' c h => by
  unfold opIf
  rcases (getArgs3_req h "i").cases' with ⟨e, h1, h2⟩ | ⟨⟨x, y, z⟩, ⟨x', y', z'⟩, h1, h2, hx, hy, hz⟩
  · rw [h1, h2]; exact .err _ e
  · rw [h1, h2]
    simp only [nilp_req hx]
    have hv : Req (if x'.nilp = true then z else y) (if x'.nilp = true then z' else y') := by
      split
      · exact hz
      · exact hy
    exact .ok_req _ _ _ hv

theorem opCons_repr : OpRepr true opCons := opRepr_of_req fun flags m a a' c h => by
  unfold opCons
  rcases (getArgs2_req h "c").cases' with ⟨e, h1, h2⟩ | ⟨⟨x, y⟩, ⟨x', y'⟩, h1, h2, hx, hy⟩
  · rw [h1, h2]; exact .err _ e
  · rw [h1, h2]
    simp only [allocPair]
    cases c.newPair with
    | error e => exact .err _ e
    | ok c' => exact .ok_req _ _ _ (hx.pair hy)

theorem opFirst_repr : OpRepr true opFirst := opRepr_of_req fun flags m a a' c h => by
  unfold opFirst
  rcases (getArgs1_req h "f").cases' with ⟨e, h1, h2⟩ | ⟨x, x', h1, h2, hx⟩
  · rw [h1, h2]; exact .err _ e
  · rw [h1, h2]
    rcases (first_req hx).cases' with ⟨e, h1, h2⟩ | ⟨y, y', h1, h2, hy⟩
    · simp only [h1, h2]; exact .err _ e
    · simp only [h1, h2]; exact .ok_req _ _ _ hy

theorem opRest_repr : OpRepr true opRest := opRepr_of_req fun flags m a a' c h => by
  unfold opRest
  rcases (getArgs1_req h "r").cases' with ⟨e, h1, h2⟩ | ⟨x, x', h1, h2, hx⟩
  · rw [h1, h2]; exact .err _ e
  · rw [h1, h2]
    rcases (rest_req hx).cases' with ⟨e, h1, h2⟩ | ⟨y, y', h1, h2, hy⟩
    · simp only [h1, h2]; exact .err _ e
    · simp only [h1, h2]; exact .ok_req _ _ _ hy

theorem opListp_repr : OpRepr true opListp := opRepr_of_eq fun flags m a a' c h => by
  unfold opListp
  rcases (getArgs1_req h "l").cases' with ⟨e, h1, h2⟩ | ⟨x, x', h1, h2, hx⟩
  · rw [h1, h2]
  · rw [h1, h2]; simp only [isPair_req hx]

theorem opRaise_repr : OpRepr true opRaise := opRepr_of_eq fun _ _ _ _ _ _ => rfl

theorem opEq_repr : OpRepr true opEq := opRepr_of_eq fun flags m a a' c h => by
  unfold opEq
  rcases (getArgs2_req h "=").cases' with ⟨e, h1, h2⟩ | ⟨⟨x, y⟩, ⟨x', y'⟩, h1, h2, hx, hy⟩
  · rw [h1, h2]
  · rw [h1, h2]
    cases hx.cases <;> cases hy.cases <;> rfl

/-! ### more_ops.rs: simple readers -/

theorem opNot_repr : OpRepr true opNot := opRepr_of_eq fun flags m a a' c h => by
  unfold opNot
  rcases (getArgs1_req h "not").cases' with ⟨e, h1, h2⟩ | ⟨x, x', h1, h2, hx⟩
  · rw [h1, h2]
  · rw [h1, h2]; simp only [nilp_req hx]

theorem boolLoop_req (maxCost : Nat) (isAny : Bool) {l l' : List Val} (h : ListReq l l') (cost : Nat) (acc : Bool) :
    boolLoop maxCost isAny l cost acc = boolLoop maxCost isAny l' cost acc := by
  induction h generalizing cost acc with
  | nil => rfl
  | cons hx _ ih =>
    simp only [boolLoop, nilp_req hx]
    split
    · rfl
    · exact ih _ _

theorem opAny_repr : OpRepr true opAny := opRepr_of_eq fun flags m a a' c h => by
  unfold opAny; rw [boolLoop_req _ _ (argList_req h)]

theorem opAll_repr : OpRepr true opAll := opRepr_of_eq fun flags m a a' c h => by
  unfold opAll; rw [boolLoop_req _ _ (argList_req h)]

theorem opGrBytes_repr : OpRepr true opGrBytes := opRepr_of_eq fun flags m a a' c h => by
  unfold opGrBytes
  rcases (getArgs2_req h ">s").cases' with ⟨e, h1, h2⟩ | ⟨⟨x, y⟩, ⟨x', y'⟩, h1, h2, hx, hy⟩
  · rw [h1, h2]
  · rw [h1, h2]; simp only [atomBytes_req hx, atomBytes_req hy]

theorem opStrlen_repr : OpRepr true opStrlen := opRepr_of_eq fun flags m a a' c h => by
  unfold opStrlen
  rcases (getArgs1_req h "strlen").cases' with ⟨e, h1, h2⟩ | ⟨x, x', h1, h2, hx⟩
  · rw [h1, h2]
  · rw [h1, h2]; simp only [atomLen_req hx]

theorem opLognot_repr : OpRepr true opLognot := opRepr_of_eq fun flags m a a' c h => by
  unfold opLognot
  rcases (getArgs1_req h "lognot").cases' with ⟨e, h1, h2⟩ | ⟨x, x', h1, h2, hx⟩
  · rw [h1, h2]
  · rw [h1, h2]; simp only [intAtom_req hx]

theorem opAsh_repr : OpRepr true opAsh := opRepr_of_eq fun flags m a a' c h => by
  unfold opAsh
  rcases (getArgs2_req h "ash").cases' with ⟨e, h1, h2⟩ | ⟨⟨x, y⟩, ⟨x', y'⟩, h1, h2, hx, hy⟩
  · rw [h1, h2]
  · rw [h1, h2]; simp only [intAtom_req hx, i32Atom_req hy]

theorem opLsh_repr : OpRepr true opLsh := opRepr_of_eq fun flags m a a' c h => by
  unfold opLsh
  rcases (getArgs2_req h "lsh").cases' with ⟨e, h1, h2⟩ | ⟨⟨x, y⟩, ⟨x', y'⟩, h1, h2, hx, hy⟩
  · rw [h1, h2]
  · rw [h1, h2]; simp only [atomBytes_req hx, i32Atom_req hy]

theorem binopLoop_req (opName : String) (nm : Bool) (f : Int → Int → Int) (maxCost : Nat)
    {l l' : List Val} (h : ListReq l l') (cost : Nat) (p n : Int) :
    binopLoop opName nm f maxCost l cost p n = binopLoop opName nm f maxCost l' cost p n := by
  induction h generalizing cost p n with
  | nil => rfl
  | cons hx _ ih =>
    simp only [binopLoop, intAtom_req hx]
    split
    · rfl
    · split
      · rfl
      · exact ih _ _ _

theorem binopReduction_repr (opName : String) (init : Int) (f : Int → Int → Int) :
    OpRepr true (binopReduction opName init f) := opRepr_of_eq fun flags m a a' c h => by
  unfold binopReduction; rw [binopLoop_req _ _ _ _ (argList_req h)]

theorem opLogand_repr : OpRepr true opLogand := binopReduction_repr _ _ _
theorem opLogior_repr : OpRepr true opLogior := binopReduction_repr _ _ _
theorem opLogxor_repr : OpRepr true opLogxor := binopReduction_repr _ _ _

/-! ### div, divmod, mod, modpow -/

theorem divPrologue_req (name errName : String) (oldBase oldPerByte : Nat) (flags : Flags) (maxCost : Nat)
    {a a' : Val} (h : Req a a') :
    divPrologue intAtom name errName oldBase oldPerByte flags maxCost a =
      divPrologue intAtom name errName oldBase oldPerByte flags maxCost a' := by
  unfold divPrologue
  rcases (getArgs2_req h name).cases' with ⟨e, h1, h2⟩ | ⟨⟨x, y⟩, ⟨x', y'⟩, h1, h2, hx, hy⟩
  · rw [h1, h2]
  · rw [h1, h2]; simp only [intAtom_req hx, intAtom_req hy]

theorem malachiteIntAtom_eq_intAtom' : malachiteIntAtom = intAtom := by
  funext v n; exact malachiteIntAtom_eq_intAtom v n

theorem opDiv_repr : OpRepr true opDiv := opRepr_of_eq fun flags m a a' c h => by
  simp only [opDiv, opDivWith, malachiteIntAtom_eq_intAtom', ite_self, divPrologue_req _ _ _ _ _ _ h]

theorem opDivmod_repr : OpRepr true opDivmod := opRepr_of_eq fun flags m a a' c h => by
  simp only [opDivmod, opDivmodWith, malachiteIntAtom_eq_intAtom', ite_self, divPrologue_req _ _ _ _ _ _ h]

theorem opMod_repr : OpRepr true opMod := opRepr_of_eq fun flags m a a' c h => by
  simp only [opMod, opModWith, malachiteIntAtom_eq_intAtom', ite_self, divPrologue_req _ _ _ _ _ _ h]

theorem opModpow_repr : OpRepr true opModpow := opRepr_of_eq fun flags m a a' c h => by
  simp only [opModpow, malachiteIntAtom_eq_intAtom', ite_self]
  unfold opModpowWith
  rcases (getArgs3_req h "modpow").cases' with ⟨e, h1, h2⟩ | ⟨⟨x, y, z⟩, ⟨x', y', z'⟩, h1, h2, hx, hy, hz⟩
  · rw [h1, h2]
  · rw [h1, h2]; simp only [intAtom_req hx, intAtom_req hy, intAtom_req hz]

/-! ### unknown operators -/

theorem unknownArith_req (nm : Bool) (maxCost : Nat) {l l' : List Val} (h : ListReq l l') (cost accSize : Nat) :
    unknownArith nm maxCost l cost accSize = unknownArith nm maxCost l' cost accSize := by
  induction h generalizing cost accSize with
  | nil => rfl
  | cons hx _ ih => simp only [unknownArith, atomLen_req hx, ih]

set_option maxRecDepth 8000 in
/-- unfolding equation (the generated one exceeds the default recursion depth) -/
theorem unknownMul_cons (nm : Bool) (maxCost : Nat) (sqDiv : Nat) (arg : Val) (rest : List Val)
    (cost l0 : Nat) (firstIter : Bool) :
    unknownMul nm maxCost sqDiv (arg :: rest) cost l0 firstIter =
    match atomLen arg "unknown op" with
    | .error e => .error e
    | .ok len =>
      if firstIter then
        if nm then
          match ckMul len Gen.MUL_LINEAR_COST_PER_BYTE with
          | .error e => .error e
          | .ok m =>
            match ckAdd cost m with
            | .error e => .error e
            | .ok cost1 =>
              match checkCost cost1 maxCost with
              | .error e => .error e
              | .ok () => unknownMul nm maxCost sqDiv rest cost1 len false
        else unknownMul nm maxCost sqDiv rest cost len false
      else if nm then
        match ckAdd cost Gen.MUL_COST_PER_OP with
        | .error e => .error e
        | .ok cost1 =>
          match ckAdd l0 len with
          | .error e => .error e
          | .ok s =>
            match ckMul s Gen.MUL_LINEAR_COST_PER_BYTE with
            | .error e => .error e
            | .ok lin =>
              match ckAdd cost1 lin with
              | .error e => .error e
              | .ok cost2 =>
                match ckMul l0 len with
                | .error e => .error e
                | .ok sq =>
                  match ckAdd cost2 (sq / sqDiv) with
                  | .error e => .error e
                  | .ok cost3 =>
                    match checkCost cost3 maxCost with
                    | .error e => .error e
                    | .ok () => unknownMul nm maxCost sqDiv rest cost3 (l0 + len) false
      else
        let cost3 := cost + Gen.MUL_COST_PER_OP + (l0 + len) * Gen.MUL_LINEAR_COST_PER_BYTE + (l0 * len) / sqDiv
        match checkCost cost3 maxCost with
        | .error e => .error e
        | .ok () => unknownMul nm maxCost sqDiv rest cost3 (l0 + len) false := rfl

theorem unknownMul_req (nm : Bool) (maxCost sqDiv : Nat) {l l' : List Val} (h : ListReq l l') (cost l0 : Nat)
    (fi : Bool) :
    unknownMul nm maxCost sqDiv l cost l0 fi = unknownMul nm maxCost sqDiv l' cost l0 fi := by
  induction h generalizing cost l0 fi with
  | nil => rfl
  | cons hx _ ih => simp only [unknownMul_cons, atomLen_req hx, ih]

theorem unknownConcat_req (maxCost : Nat) {l l' : List Val} (h : ListReq l l') (cost : Nat) :
    unknownConcat maxCost l cost = unknownConcat maxCost l' cost := by
  induction h generalizing cost with
  | nil => rfl
  | cons hx _ ih => simp only [unknownConcat, atomLen_req hx, ih]

theorem opUnknown_repr (op : Bytes) : OpRepr true (opUnknown op) := opRepr_of_eq fun flags m a a' c h => by
  have hl := argList_req h
  simp only [opUnknown, unknownArith_req _ _ hl, unknownMul_req _ _ _ hl, unknownConcat_req _ hl]

/-! ### sha256 -/

theorem sha256Loop_req (cpa cpb maxCost : Nat) {l l' : List Val} (h : ListReq l l') (cost : Nat) (acc : Bytes) :
    sha256Loop cpa cpb maxCost l cost acc = sha256Loop cpa cpb maxCost l' cost acc := by
  induction h generalizing cost acc with
  | nil => rfl
  | cons hx _ ih => simp only [sha256Loop, atomBytes_req hx, ih]

/-- on an atom argument list (no arguments) the `input == NIL` shortcut, the fast path and the
loop all give the hash of the empty string at the base cost -/
theorem opSha256_atom (cfg : Cfg) (flags m : Nat) (b : Bytes) (t : Bool) (c : Ctr) :
    opSha256 cfg flags m (.atom b t) c = opSha256 cfg flags m (.atom b false) c := by
  obtain ⟨fp⟩ := cfg
  cases fp <;> cases t <;> cases b <;> rfl

theorem matchArgs_req {a a' : Val} (h : Req a a') (n : Nat) :
    (matchArgs n a = none ∧ matchArgs n a' = none) ∨
    (∃ l l', matchArgs n a = some l ∧ matchArgs n a' = some l' ∧ ListReq l l') := by
  have hl := argList_req h
  have hlen := hl.length_eq
  unfold matchArgs
  simp only [hlen]
  by_cases hn : ((argList a').length == n) = true
  · simp only [hn, if_true]; exact .inr ⟨_, _, rfl, rfl, hl⟩
  · simp only [hn]; exact .inl ⟨rfl, rfl⟩

theorem opSha256_repr (cfg : Cfg) : OpRepr true (opSha256 cfg) := opRepr_of_eq fun flags m a a' c h => by
  cases h.cases with
  | atom b t t' _ _ => rw [opSha256_atom, opSha256_atom cfg flags m b t']
  | pair l r l' r' hl hr =>
    have hargs := argList_req h
    unfold opSha256
    simp only [Val.isNilPtr, Bool.false_eq_true, if_false, sha256Loop_req _ _ _ hargs]
    rcases matchArgs_req h 2 with ⟨h1, h2⟩ | ⟨l1, l2, h1, h2, hl12⟩
    · rw [h1, h2]
    · rw [h1, h2]
      match l1, l2, hl12 with
      | [], [], _ => rfl
      | [_], [_], .cons _ .nil => rfl
      | [x, y], [x', y'], .cons hx (.cons hy .nil) => simp only [smallNumber_req hx, smallNumber_req hy]
      | _ :: _ :: _ :: _, _ :: _ :: _ :: _, .cons _ (.cons _ (.cons _ _)) => rfl

/-! ### comparison -/

theorem opGr_repr (cfg : Cfg) : OpRepr true (opGr cfg) := opRepr_of_eq fun flags m a a' c h => by
  unfold opGr
  rcases (getArgs2_req h ">").cases' with ⟨e, h1, h2⟩ | ⟨⟨x, y⟩, ⟨x', y'⟩, h1, h2, hx, hy⟩
  · rw [h1, h2]
  · rw [h1, h2]; simp only [smallNumber_req hx, smallNumber_req hy, intAtom_req hx, intAtom_req hy]

/-! ### concat -/

theorem concatLoop_req (maxCost : Nat) {l l' : List Val} (h : ListReq l l') (cost totalSize : Nat)
    {terms terms' : List Val} (ht : ListReq terms terms') :
    ArgsRel (fun r r' => r.1 = r'.1 ∧ r.2.1 = r'.2.1 ∧ ListReq r.2.2 r'.2.2)
      (concatLoop maxCost l cost totalSize terms) (concatLoop maxCost l' cost totalSize terms') := by
  induction h generalizing cost totalSize terms terms' with
  | nil =>
    simp only [concatLoop]
    refine .ok _ _ ⟨rfl, rfl, ?_⟩
    exact ListReq.reverse ht
  | cons hx _ ih =>
    cases hx.cases with
    | pair _ _ _ _ _ _ => simp only [concatLoop]; exact .err _
    | atom b t t' _ _ =>
      simp only [concatLoop]
      split
      · exact .err _
      · split
        · exact ih _ _ (.cons hx ht)
        · exact ih _ _ ht

/-- a fold that does not look at tags (the byte-gathering fold of `new_concat`) -/
theorem foldl_req {β : Type} (f : β → Val → β)
    (hatom : ∀ acc b, f acc (.atom b true) = f acc (.atom b false))
    (hpair : ∀ acc l r l' r', f acc (.pair l r) = f acc (.pair l' r'))
    {l l' : List Val} (h : ListReq l l') (acc : β) :
    l.foldl f acc = l'.foldl f acc := by
  induction h generalizing acc with
  | nil => rfl
  | cons hx _ ih =>
    simp only [List.foldl_cons]
    have : f acc _ = f acc _ :=
      req_of_tag (f acc) (fun b _ => hatom acc b) (fun l r l' r' _ _ => hpair acc l r l' r') hx
    rw [this, ih]

theorem newConcat_req (c : Ctr) (newSize : Nat) {l l' : List Val} (h : ListReq l l') :
    ArgsRel (fun r r' => Req r.1 r'.1 ∧ r.2 = r'.2) (newConcat c newSize l) (newConcat c newSize l') := by
  unfold newConcat
  cases c.checkAtomLimit with
  | error e => exact .err e
  | ok u =>
    simp only []
    split
    · exact .err _
    · match l, l', h with
      | [], [], _ =>
        simp only []
        split
        · exact .err _
        · exact .ok _ _ ⟨Req.nil, rfl⟩
      | [x], [x'], .cons hx .nil =>
        cases hx.cases with
        | pair _ _ _ _ _ _ => exact .err _
        | atom b t t' _ _ =>
          simp only []
          split
          · exact .err _
          · exact .ok _ _ ⟨hx, rfl⟩
      | x :: y :: l, x' :: y' :: l', h =>
        simp only []
        rw [foldl_req _ _ _ h]
        rotate_left
        · intro acc b; cases acc <;> rfl
        · intro acc _ _ _ _; cases acc <;> rfl
        split
        · exact .err _
        · split
          · exact .err _
          · exact .ok _ _ ⟨Req.refl (by rfl), rfl⟩

theorem opConcat_repr : OpRepr true opConcat := opRepr_of_req fun flags m a a' c h => by
  unfold opConcat
  rcases (concatLoop_req m (argList_req h) Gen.CONCAT_BASE_COST 0 .nil).cases' with
    ⟨e, h1, h2⟩ | ⟨⟨k, sz, ts⟩, ⟨k', sz', ts'⟩, h1, h2, hk, hsz, hts⟩
  · rw [h1, h2]; exact .err _ e
  · rw [h1, h2]
    simp only at hk hsz hts
    subst hk; subst hsz
    rcases (newConcat_req c sz hts).cases' with ⟨e, h1, h2⟩ | ⟨⟨v, c1⟩, ⟨v', c1'⟩, h1, h2, hv, hc⟩
    · simp only [h1, h2]; exact .err _ e
    · simp only [h1, h2]
      simp only at hc; subst hc
      exact .ok_req _ _ _ hv

/-! ### multiply -/

theorem mulLoop_req (cfg : Cfg) (flags : Flags) (maxCost sqDiv : Nat) {l l' : List Val} (h : ListReq l l')
    (cost : Nat) (total : Int) (l0 : Nat) :
    mulLoop cfg flags maxCost sqDiv l cost total l0 = mulLoop cfg flags maxCost sqDiv l' cost total l0 := by
  induction h generalizing cost total l0 with
  | nil => rfl
  | @cons x x' l l' hx _ ih =>
    have e1 : mulLoop cfg flags maxCost sqDiv (x :: l) cost total l0 =
        mulLoop cfg flags maxCost sqDiv (x :: l') cost total l0 := by
      simp only [mulLoop, ih]
    rw [e1]
    refine req_of_tag (fun v => mulLoop cfg flags maxCost sqDiv (v :: l') cost total l0) ?_ ?_ hx
    · intro b hb
      have h256 : ¬ b.length > 256 := by have := hb.len4; omega
      obtain ⟨fp⟩ := cfg
      cases fp <;>
        simp only [mulLoop, node, intAtom, hb.dec, hb.len, h256, decide_false, Bool.and_false,
          Bool.false_eq_true, if_false, if_true]
    · intro l r l' r' _ _
      obtain ⟨fp⟩ := cfg
      cases fp <;> simp only [mulLoop, node, intAtom]

theorem opMultiply_repr (cfg : Cfg) : OpRepr true (opMultiply cfg) := opRepr_of_eq fun flags m a a' c h => by
  unfold opMultiply
  have hl := argList_req h
  generalize argList a = l at hl
  generalize argList a' = l' at hl
  cases hl with
  | nil => rfl
  | cons hx ht => simp only [intAtom_req hx, mulLoop_req _ _ _ _ ht]

/-! ### add, subtract -/

/-- invariant relating the two accumulators of the generic loops in two runs -/
def AccRel (nm : Bool) (acc small acc' small' : Int) : Prop :=
  if nm then small = small' else acc + small = acc' + small'

theorem addGeneric_acc (nm : Bool) (cpa cpb maxCost : Nat) (l : List Val) (cost : Nat)
    (acc small acc' small' : Int) (hacc : AccRel nm acc small acc' small') :
    addGeneric nm cpa cpb maxCost l cost acc small = addGeneric nm cpa cpb maxCost l cost acc' small' := by
  induction l generalizing cost acc small acc' small' with
  | nil =>
    cases nm
    · simp only [AccRel, Bool.false_eq_true, if_false] at hacc; simp [addGeneric, hacc]
    · simp only [AccRel, if_true] at hacc; simp [addGeneric, hacc]
  | cons x l ih =>
    cases x with
    | pair _ _ => rfl
    | atom b t =>
      cases t <;> cases nm <;> simp only [AccRel, Bool.false_eq_true, if_false, if_true] at hacc <;>
        simp only [addGeneric, node, Bool.false_eq_true, if_false, if_true] <;>
        (try subst hacc) <;> split <;> (try rfl) <;> apply ih <;>
        simp only [AccRel, Bool.false_eq_true, if_false, if_true] <;> omega

theorem addGeneric_req (nm : Bool) (cpa cpb maxCost : Nat) {l l' : List Val} (h : ListReq l l') (cost : Nat)
    (acc small : Int) :
    addGeneric nm cpa cpb maxCost l cost acc small = addGeneric nm cpa cpb maxCost l' cost acc small := by
  induction h generalizing cost acc small with
  | nil => rfl
  | @cons x x' l l' hx _ ih =>
    have e1 : addGeneric nm cpa cpb maxCost (x :: l) cost acc small =
        addGeneric nm cpa cpb maxCost (x :: l') cost acc small := by
      simp only [addGeneric, ih]
    rw [e1]
    refine req_of_tag (fun v => addGeneric nm cpa cpb maxCost (v :: l') cost acc small) ?_ ?_ hx
    · intro b hb
      cases nm
      · simp only [addGeneric, node, hb.dec, hb.len, Bool.false_eq_true, if_false, Nat.mul_comm cpb]
        split
        · rfl
        · apply addGeneric_acc; simp only [AccRel, Bool.false_eq_true, if_false]; omega
      · simp only [addGeneric, node, hb.dec, hb.len, if_true]
    · intro l r l' r' _ _; rfl

theorem subGeneric_acc (nm : Bool) (cpa cpb maxCost : Nat) (l : List Val) (cost : Nat)
    (acc small acc' small' : Int) (isFirst : Bool) (hacc : AccRel nm acc small acc' small') :
    subGeneric nm cpa cpb maxCost l cost acc small isFirst =
      subGeneric nm cpa cpb maxCost l cost acc' small' isFirst := by
  induction l generalizing cost acc small acc' small' isFirst with
  | nil =>
    cases nm
    · simp only [AccRel, Bool.false_eq_true, if_false] at hacc; simp [subGeneric, hacc]
    · simp only [AccRel, if_true] at hacc; simp [subGeneric, hacc]
  | cons x l ih =>
    cases x with
    | pair _ _ => rfl
    | atom b t =>
      cases t <;> cases nm <;> simp only [AccRel, Bool.false_eq_true, if_false, if_true] at hacc <;>
        simp only [subGeneric, node, Bool.false_eq_true, if_false, if_true] <;>
        (try subst hacc) <;> split <;> (try rfl) <;> split <;> (try rfl) <;> apply ih <;>
        simp only [AccRel, Bool.false_eq_true, if_false, if_true] <;> omega

theorem subGeneric_req (nm : Bool) (cpa cpb maxCost : Nat) {l l' : List Val} (h : ListReq l l') (cost : Nat)
    (acc small : Int) (isFirst : Bool) :
    subGeneric nm cpa cpb maxCost l cost acc small isFirst =
      subGeneric nm cpa cpb maxCost l' cost acc small isFirst := by
  induction h generalizing cost acc small isFirst with
  | nil => rfl
  | @cons x x' l l' hx _ ih =>
    have e1 : subGeneric nm cpa cpb maxCost (x :: l) cost acc small isFirst =
        subGeneric nm cpa cpb maxCost (x :: l') cost acc small isFirst := by
      simp only [subGeneric, ih]
    rw [e1]
    refine req_of_tag (fun v => subGeneric nm cpa cpb maxCost (v :: l') cost acc small isFirst) ?_ ?_ hx
    · intro b hb
      cases nm
      · simp only [subGeneric, node, hb.dec, hb.len, Bool.false_eq_true, if_false]
        split
        · rfl
        · split
          · rfl
          · apply subGeneric_acc; simp only [AccRel, Bool.false_eq_true, if_false]; omega
      · simp only [subGeneric, node, hb.dec, hb.len, if_true]
    · intro l r l' r' _ _; rfl


theorem opAdd_repr (cfg : Cfg) : OpRepr true (opAdd cfg) := opRepr_of_eq fun flags m a a' c h => by
  have key : opAdd { fastpath := false } flags m a c = opAdd { fastpath := false } flags m a' c := by
    simp only [opAdd, Bool.false_eq_true, if_false, addGeneric_req _ _ _ _ (argList_req h)]
  obtain ⟨fp⟩ := cfg
  cases fp
  · exact key
  · rw [opAdd_fastpath flags m a c h.1, opAdd_fastpath flags m a' c h.2.1]; exact key

theorem opSubtract_repr (cfg : Cfg) : OpRepr true (opSubtract cfg) := opRepr_of_eq fun flags m a a' c h => by
  have key : opSubtract { fastpath := false } flags m a c = opSubtract { fastpath := false } flags m a' c := by
    simp only [opSubtract, Bool.false_eq_true, if_false, subGeneric_req _ _ _ _ (argList_req h)]
  obtain ⟨fp⟩ := cfg
  cases fp
  · exact key
  · rw [opSubtract_fastpath flags m a c h.1, opSubtract_fastpath flags m a' c h.2.1]; exact key

/-! ### substr -/

/-- argument decoding and index validation of `op_substr` (everything before `new_substr`) -/
def substrParse (input : Val) : Except Err (Val × Nat × Nat) :=
  match getVarargs 3 input "substr" with
  | .error e => .error e
  | .ok l =>
    let argc := l.length
    if argc < 2 ∨ argc > 3 then .error (.InvalidOpArg s!"Substring takes exactly 2 or 3 arguments, got {argc}")
    else
      let a0 := l.getD 0 Val.nil
      let startN := l.getD 1 Val.nil
      let endN := l.getD 2 Val.nil
      match atomLen a0 "substr" with
      | .error e => .error e
      | .ok size =>
        match i32Atom startN "substr" with
        | .error e => .error e
        | .ok start =>
          let endR : Except Err Int := if argc == 3 then i32Atom endN "substr" else .ok (size : Int)
          match endR with
          | .error e => .error e
          | .ok end_ =>
            if end_ < 0 ∨ start < 0 ∨ end_.toNat > size ∨ end_ < start then
              .error (.InvalidOpArg "Invalid Indices for Substring")
            else .ok (a0, start.toNat, end_.toNat)

theorem opSubstr_eq (flags m : Nat) (input : Val) (c : Ctr) :
    opSubstr flags m input c =
      match substrParse input with
      | .error e => .error e
      | .ok (a0, s, e) =>
        match newSubstr c a0 s e with
        | .error e => .error e
        | .ok (r, c') => .ok (if newModel flags then Gen.NEW_SUBSTR_COST else 1, r, c') := by
  unfold opSubstr substrParse
  cases getVarargs 3 input "substr" with
  | error e => rfl
  | ok l =>
    simp only []
    split
    · rfl
    · cases atomLen (l.getD 0 Val.nil) "substr" with
      | error e => rfl
      | ok size =>
        simp only []
        cases i32Atom (l.getD 1 Val.nil) "substr" with
        | error e => rfl
        | ok start =>
          simp only []
          cases (if (l.length == 3) = true then i32Atom (l.getD 2 Val.nil) "substr" else Except.ok (size : Int)) with
          | error e => rfl
          | ok end_ =>
            simp only []
            split <;> rfl

theorem ListReq.getD {l l' : List Val} (h : ListReq l l') (i : Nat) : Req (l.getD i Val.nil) (l'.getD i Val.nil) := by
  induction h generalizing i with
  | nil => exact Req.nil
  | cons hx _ ih =>
    cases i with
    | zero => exact hx
    | succ i => simpa using ih i

/-- a successful parse selects an atom and valid bounds -/
theorem substrParse_ok {input a0 : Val} {s e : Nat} (h : substrParse input = .ok (a0, s, e)) :
    ∃ b t, a0 = .atom b t ∧ s ≤ e ∧ e ≤ b.length := by
  unfold substrParse at h
  cases hg : getVarargs 3 input "substr" with
  | error e => rw [hg] at h; cases h
  | ok l =>
    rw [hg] at h
    simp only [] at h
    split at h
    · cases h
    · cases ha : l.getD 0 Val.nil with
      | pair _ _ => rw [ha] at h; simp [atomLen] at h
      | atom b t =>
        rw [ha] at h
        simp only [atomLen] at h
        cases hs : i32Atom (l.getD 1 Val.nil) "substr" with
        | error e => rw [hs] at h; cases h
        | ok start =>
          rw [hs] at h
          simp only [] at h
          cases he : (if (l.length == 3) = true then i32Atom (l.getD 2 Val.nil) "substr"
              else Except.ok (b.length : Int)) with
          | error e => rw [he] at h; cases h
          | ok end_ =>
            rw [he] at h
            simp only [] at h
            split at h
            · cases h
            · rename_i hb
              simp only [Except.ok.injEq, Prod.mk.injEq] at h
              obtain ⟨h1, h2, h3⟩ := h
              subst h1; subst h2; subst h3
              exact ⟨b, t, rfl, by omega, by omega⟩

theorem substrParse_req {a a' : Val} (h : Req a a') :
    ArgsRel (fun p p' => Req p.1 p'.1 ∧ p.2 = p'.2) (substrParse a) (substrParse a') := by
  unfold substrParse
  rcases (getVarargs_req h 3 "substr").cases' with ⟨e, h1, h2⟩ | ⟨l, l', h1, h2, hl⟩
  · rw [h1, h2]; exact .err e
  · rw [h1, h2]
    simp only [hl.length_eq, atomLen_req (hl.getD 0), i32Atom_req (hl.getD 1), i32Atom_req (hl.getD 2)]
    split
    · exact .err _
    · cases atomLen (l'.getD 0 Val.nil) "substr" with
      | error e => exact .err e
      | ok size =>
        simp only []
        cases i32Atom (l'.getD 1 Val.nil) "substr" with
        | error e => exact .err e
        | ok start =>
          simp only []
          cases (if (l'.length == 3) = true then i32Atom (l'.getD 2 Val.nil) "substr" else Except.ok (size : Int)) with
          | error e => exact .err e
          | ok end_ =>
            simp only []
            split
            · exact .err _
            · exact .ok _ _ ⟨hl.getD 0, rfl⟩

/-- the defect region of DESIGN §6-C, as a decidable predicate of the two argument lists: the
source atom is inline in exactly one of the two runs and the selected sub-string is not a
canonical small integer (so the inline run appends it to the heap and the other one does not) -/
def substrDefect (a a' : Val) : Bool :=
  match substrParse a, substrParse a' with
  | .ok (.atom b t, s, e), .ok (.atom _ t', _, _) =>
    (t != t') && (fitsInSmallAtom ((b.drop s).take (e - s))).isNone
  | _, _ => false

/-- `new_substr` on the two representations of the same (well-formed) atom -/
theorem newSubstr_tag (c : Ctr) (b : Bytes) (hb : SmallFacts b) (s e : Nat) :
    newSubstr c (.atom b true) s e =
      match newSubstr c (.atom b false) s e with
      | .error err => .error err
      | .ok (_, c') =>
        let sub := (b.drop s).take (e - s)
        match fitsInSmallAtom sub with
        | some _ => .ok (.atom sub true, c')
        | none => .ok (.atom sub false, { c' with heap := c'.heap + sub.length }) := by
  unfold newSubstr
  cases c.checkAtomLimit with
  | error err => rfl
  | ok u =>
    simp only [hb.len]
    split
    · rfl
    · split
      · rfl
      · split
        · rfl
        · simp only []
          generalize fitsInSmallAtom _ = f
          cases f <;> rfl

theorem opSubstr_repr : OpRepr false opSubstr := opRepr_of_req fun flags m a a' c h => by
  rw [opSubstr_eq, opSubstr_eq]
  rcases (substrParse_req h).cases' with ⟨e, h1, h2⟩ | ⟨⟨a0, s, e⟩, ⟨a0', s', e'⟩, h1, h2, ha0, hse⟩
  · rw [h1, h2]; exact .err _ e
  · rw [h1, h2]
    simp only at ha0 hse
    obtain ⟨hs, he⟩ := Prod.mk.inj hse
    subst hs; subst he
    obtain ⟨b, t, rfl, _, _⟩ := substrParse_ok h1
    cases ha0.cases with
    | atom _ _ t' ht ht' =>
      have key : ∀ (hb : SmallFacts b),
          ResEraseEq false
            (match newSubstr c (.atom b true) s e with
              | .error e => .error e
              | .ok (r, c') => .ok (if newModel flags then Gen.NEW_SUBSTR_COST else 1, r, c'))
            (match newSubstr c (.atom b false) s e with
              | .error e => .error e
              | .ok (r, c') => .ok (if newModel flags then Gen.NEW_SUBSTR_COST else 1, r, c')) := by
        intro hb
        rw [newSubstr_tag c b hb]
        cases hn : newSubstr c (.atom b false) s e with
        | error err => exact .err _ err
        | ok p =>
          obtain ⟨r, c'⟩ := p
          have hr : r = .atom ((b.drop s).take (e - s)) false := by
            unfold newSubstr at hn
            cases hcl : c.checkAtomLimit with
            | error err => rw [hcl] at hn; cases hn
            | ok u =>
              rw [hcl] at hn
              simp only [] at hn
              split at hn
              · cases hn
              · split at hn
                · cases hn
                · split at hn
                  · cases hn
                  · cases hn; rfl
          subst hr
          simp only []
          cases fitsInSmallAtom ((b.drop s).take (e - s)) with
          | some v => exact ⟨rfl, rfl, rfl, rfl, rfl, fun hh => by cases hh⟩
          | none => exact ⟨rfl, rfl, rfl, rfl, rfl, fun hh => by cases hh⟩
      cases t <;> cases t'
      · exact ResEraseEq.refl_wf _ _
      · exact (ResEraseEq.symm (key (ht' rfl)))
      · exact key (ht rfl)
      · exact ResEraseEq.refl_wf _ _

/-- heap accounting of `new_substr`: only an inline source whose sub-string is not a canonical
small integer grows the heap -/
theorem newSubstr_heap {c c' : Ctr} {b : Bytes} {t : Bool} {s e : Nat} {r : Val}
    (h : newSubstr c (.atom b t) s e = .ok (r, c')) :
    c'.heap = c.heap + (if t && (fitsInSmallAtom ((b.drop s).take (e - s))).isNone
      then ((b.drop s).take (e - s)).length else 0) := by
  unfold newSubstr at h
  cases hcl : c.checkAtomLimit with
  | error err => rw [hcl] at h; cases h
  | ok u =>
    rw [hcl] at h
    cases t with
    | false =>
      simp only [] at h
      split at h
      · cases h
      · split at h
        · cases h
        · split at h
          · cases h
          · cases h; first | rfl | simp
    | true =>
      simp only [] at h
      split at h
      · cases h
      · split at h
        · cases h
        · split at h
          · cases h
          · cases hf : fitsInSmallAtom ((b.drop s).take (e - s)) with
            | some v => rw [hf] at h; cases h; simp
            | none => rw [hf] at h; cases h; simp

theorem opSubstr_heap {flags m : Nat} {a : Val} {c : Ctr} {x : Nat × Val × Ctr} {b : Bytes} {t : Bool} {s e : Nat}
    (hp : substrParse a = .ok (.atom b t, s, e)) (h : opSubstr flags m a c = .ok x) :
    x.2.2.heap = c.heap + (if t && (fitsInSmallAtom ((b.drop s).take (e - s))).isNone
      then ((b.drop s).take (e - s)).length else 0) := by
  rw [opSubstr_eq, hp] at h
  simp only [] at h
  cases hn : newSubstr c (.atom b t) s e with
  | error err => rw [hn] at h; cases h
  | ok p =>
    obtain ⟨r, c'⟩ := p
    rw [hn] at h
    cases h
    exact newSubstr_heap hn

theorem fits_none_length_pos {b : Bytes} (h : (fitsInSmallAtom b).isNone = true) : 0 < b.length := by
  cases b with
  | nil => simp [fitsInSmallAtom, fitsInSmallAtomE] at h
  | cons _ _ => simp

/-- the two argument lists parse to the same atom bytes and bounds -/
theorem substrParse_req_atom {a a' : Val} (h : Req a a') {b : Bytes} {t : Bool} {s e : Nat}
    (hp : substrParse a = .ok (.atom b t, s, e)) : ∃ t', substrParse a' = .ok (.atom b t', s, e) := by
  rcases (substrParse_req h).cases' with ⟨e, h1, h2⟩ | ⟨⟨a0, s1, e1⟩, ⟨a0', s', e'⟩, h1, h2, ha0, hse⟩
  · rw [hp] at h1; cases h1
  · rw [hp] at h1
    cases h1
    simp only at ha0 hse
    obtain ⟨hs, he⟩ := Prod.mk.inj hse
    subst hs; subst he
    cases ha0.cases with
    | atom _ _ t' _ _ => exact ⟨t', h2⟩

/-- **C03 for `op_substr`, heap included, outside the defect region** -/
theorem opSubstr_repr_heap_partial (flags m : Nat) (a a' : Val) (c : Ctr)
    (hw : a.wf = true) (hw' : a'.wf = true) (he : a.erase = a'.erase) (hd : substrDefect a a' = false) :
    ResEraseEq true (opSubstr flags m a c) (opSubstr flags m a' c) := by
  have h : Req a a' := ⟨hw, hw', he⟩
  refine (opSubstr_repr flags m a a' c hw hw' he).strengthen ?_
  intro x x' hx hx'
  cases hp : substrParse a with
  | error err => rw [opSubstr_eq, hp] at hx; cases hx
  | ok p =>
    obtain ⟨a0, s, e⟩ := p
    obtain ⟨b, t, rfl, _, _⟩ := substrParse_ok hp
    obtain ⟨t', hp'⟩ := substrParse_req_atom h hp
    rw [opSubstr_heap hp hx, opSubstr_heap hp' hx']
    simp only [substrDefect, hp, hp'] at hd
    cases t <;> cases t' <;> simp_all <;> (intro hn; rw [hn] at hd; cases hd)

/-- the region is exact: inside it two successful runs end with different heap sizes -/
theorem opSubstr_repr_defect (flags m : Nat) (a a' : Val) (c : Ctr) (x x' : Nat × Val × Ctr)
    (hw : a.wf = true) (hw' : a'.wf = true) (he : a.erase = a'.erase) (hd : substrDefect a a' = true)
    (hx : opSubstr flags m a c = .ok x) (hx' : opSubstr flags m a' c = .ok x') :
    x.2.2.heap ≠ x'.2.2.heap := by
  have h : Req a a' := ⟨hw, hw', he⟩
  cases hp : substrParse a with
  | error err => rw [opSubstr_eq, hp] at hx; cases hx
  | ok p =>
    obtain ⟨a0, s, e⟩ := p
    obtain ⟨b, t, rfl, _, _⟩ := substrParse_ok hp
    obtain ⟨t', hp'⟩ := substrParse_req_atom h hp
    rw [opSubstr_heap hp hx, opSubstr_heap hp' hx']
    simp only [substrDefect, hp, hp', Bool.and_eq_true] at hd
    have hpos := fits_none_length_pos hd.2
    cases t <;> cases t' <;> simp_all <;> omega

/-- the full statement for `op_substr` (false of the current code: `opSubstr_repr_witness`) -/
def OpSubstrReprStatement : Prop := OpRepr true opSubstr

def substrWitnessArgs (inl : Bool) : Val :=
  .pair (.atom [0x00, 0x80] inl) (.pair (.atom [] true) (.pair (.atom [0x01] true) Val.nil))

/-- DESIGN §6-C: `(substr 0x0080 0 1)` on the inline atom 128 appends the non-canonical byte `00`
to the heap; on a heap atom with the same bytes it is a view -/
theorem opSubstr_repr_witness :
    (substrWitnessArgs true).wf = true ∧ (substrWitnessArgs false).wf = true ∧
    (substrWitnessArgs true).erase = (substrWitnessArgs false).erase ∧
    opSubstr 0 0 (substrWitnessArgs true) (Ctr.new 1000) =
      .ok (1, .atom [0x00] false, { Ctr.new 1000 with atoms := (Ctr.new 1000).atoms + 1, heap := (Ctr.new 1000).heap + 1 }) ∧
    opSubstr 0 0 (substrWitnessArgs false) (Ctr.new 1000) =
      .ok (1, .atom [0x00] false, { Ctr.new 1000 with atoms := (Ctr.new 1000).atoms + 1 }) :=
  ⟨by decide, by decide, by decide, by rfl, by rfl⟩

theorem opSubstr_statement_false : ¬ OpSubstrReprStatement := by
  intro h
  have := h 0 0 (substrWitnessArgs true) (substrWitnessArgs false) (Ctr.new 1000) (by decide) (by decide) (by decide)
  rw [opSubstr_repr_witness.2.2.2.1, opSubstr_repr_witness.2.2.2.2] at this
  exact absurd (this.2.2.2.2.2 rfl) (by decide)

/-! ### aggregates -/

/-- **C03, operator level**: every operator of the core table except `op_substr` is independent of
the representation of its arguments, heap size included -/
theorem coreOps_repr (cfg : Cfg) (name : String) (f : OpFn) :
    coreOpByName cfg name = some f → name ≠ "op_substr" → OpRepr true f := by
  intro h hne
  unfold coreOpByName at h
  split at h <;> first
    | (cases h; first
        | exact opIf_repr | exact opCons_repr | exact opFirst_repr | exact opRest_repr | exact opListp_repr
        | exact opRaise_repr | exact opEq_repr | exact opGrBytes_repr | exact opSha256_repr cfg
        | exact opStrlen_repr | exact opConcat_repr | exact opAdd_repr cfg | exact opSubtract_repr cfg
        | exact opMultiply_repr cfg | exact opDiv_repr | exact opDivmod_repr | exact opGr_repr cfg
        | exact opAsh_repr | exact opLsh_repr | exact opLogand_repr | exact opLogior_repr
        | exact opLogxor_repr | exact opLognot_repr | exact opNot_repr | exact opAny_repr | exact opAll_repr
        | exact opModpow_repr | exact opMod_repr
        | exact absurd rfl hne)
    | cases h

/-- all operators of the core table, heap size not compared -/
theorem coreOps_repr_noheap (cfg : Cfg) (name : String) (f : OpFn) (h : coreOpByName cfg name = some f) :
    OpRepr false f := by
  by_cases hn : name = "op_substr"
  · subst hn
    have : f = opSubstr := by simp [coreOpByName] at h; exact h.symm
    subst this; exact opSubstr_repr
  · exact (coreOps_repr cfg name f h hn).weaken

end Clvm.Interp
