/-
C10 / finding G: the region in which the formulas of docs/cost-model.md (`Spec.CostDoc`) and the
formulas the code follows (`Spec.Cost`, new cost model) coincide.
-/
import ClvmModel.Spec.CostDoc

namespace Clvm.Spec.CostDoc
open Clvm Clvm.Alloc Clvm.Interp Clvm.Spec.Cost

/-- "no padding": the atom is exactly as long as the magnitude of its value (no redundant leading
zero / sign-extension byte, no sign byte) -/
def Tight (a : Val) : Prop := len a = mag a

theorem sumMax_eq_mag (args : List Val) (h : ∀ a ∈ args, Tight a) (accs : List Int) :
    sumMax args accs = sumMaxMag args accs := by
  induction args generalizing accs with
  | nil => simp [sumMax, sumMaxMag]
  | cons a t ih =>
    cases accs with
    | nil => simp [sumMax, sumMaxMag]
    | cons p ps =>
      have ha : len a = mag a := h a (by simp)
      have := ih (fun x hx => h x (by simp [hx])) ps
      simp only [sumMax, sumMaxMag, List.zip_cons_cons, List.map_cons, Cost.sum, List.foldr_cons] at this ⊢
      rw [this, ha, Nat.max_comm]

theorem mulSteps_eq (rest : List Val) (h : ∀ a ∈ rest, Tight a) (total : Int) :
    Cost.mulSteps NEW_MUL_SQUARE_DIVIDER (limbs total) total rest = CostDoc.mulSteps total rest := by
  induction rest generalizing total with
  | nil => rfl
  | cons a t ih =>
    have ha : len a = mag a := h a (by simp)
    simp only [Cost.mulSteps, CostDoc.mulSteps, ha, ih (fun x hx => h x (by simp [hx]))]

theorem logEffective_eq (l : List (Val × Int)) (h : ∀ p ∈ l, limbs p.2 ≤ len p.1) (isFirst : Bool) :
    Cost.sum (l.map (fun p => max (len p.1) (limbs p.2))) = logEffective isFirst l := by
  induction l generalizing isFirst with
  | nil => rfl
  | cons p t ih =>
    obtain ⟨a, acc⟩ := p
    have hp : limbs acc ≤ len a := h (a, acc) (by simp)
    have hm : max (len a) (limbs acc) = len a := Nat.max_eq_left hp
    simp only [List.map_cons, Cost.sum, List.foldr_cons, logEffective, hm, ite_self] at ih ⊢
    rw [ih (fun x hx => h x (by simp [hx])) false]

end Clvm.Spec.CostDoc
