/-
The whole-run theorems of C02, C05, C07, C11, C25 for the dialect the driver actually runs,
`chiaDialect cfg cryptoExtra F`: the generic theorems (`LiftChia.lean`, `LiftRestrict.lean`,
`LiftModel.lean`, `Props/C05.lean`) are stated for an arbitrary table `extra` of operators outside
the core table, under per-operator hypotheses; `CryptoShapes.lean` discharges those hypotheses for
`extra = cryptoExtra`.  Nothing is assumed about the operators any more.
-/
import ClvmProofs.Lemmas.Interp.CryptoShapes
import ClvmProofs.Lemmas.Interp.LiftChia
import ClvmProofs.Lemmas.Interp.LiftRestrict
import ClvmProofs.Lemmas.Interp.LiftModel
import ClvmProofs.Lemmas.Interp.MachineAgree
import ClvmProofs.Props.C05

namespace Clvm.Interp
open Clvm Clvm.Alloc

/-! ### C02 -/

/-- **upward closed**, every flag set, both cost models, all operators -/
theorem crypto_run_upward (cfg : Cfg) (F : Nat) {fuel : Nat} {c0 : Ctr} {p e : Val}
    {M M' : Nat} {r : Nat × Val × Ctr}
    (h : runProgram cfg (chiaDialect cfg cryptoExtra F) fuel c0 p e M = some (.ok r))
    (hM : effBudget M ≤ effBudget M') :
    runProgram cfg (chiaDialect cfg cryptoExtra F) fuel c0 p e M' = some (.ok r) :=
  chia_run_upward cfg cryptoExtra cryptoExtra_budget F h hM

/-- **dichotomy**, every flag set, both cost models, all operators -/
theorem crypto_run_dichotomy (cfg : Cfg) (F : Nat) {fuel : Nat} {c0 : Ctr} {p e : Val}
    {M : Nat} {r : Nat × Val × Ctr}
    (h : runProgram cfg (chiaDialect cfg cryptoExtra F) fuel c0 p e M = some (.ok r)) (M' : Nat) :
    runProgram cfg (chiaDialect cfg cryptoExtra F) fuel c0 p e M' = some (.ok r) ∨
    runProgram cfg (chiaDialect cfg cryptoExtra F) fuel c0 p e M' = some (.error .CostExceeded) :=
  chia_run_dichotomy cfg cryptoExtra cryptoExtra_budget F h M'

/-- **tight** (old cost model, unknown operators rejected); see `chia_run_tight_partial` for what is
missing and why -/
theorem crypto_run_tight_partial (cfg : Cfg) (F : Nat)
    (hS : hasFlag F Gen.FLAG_NO_UNKNOWN_OPS = true) (hN : hasFlag F Gen.FLAG_NEW_COST_MODEL = false)
    {fuel : Nat} {c0 : Ctr} {p e : Val} {M C : Nat} {v : Val} {c : Ctr}
    (h : runProgram cfg (chiaDialect cfg cryptoExtra F) fuel c0 p e M = some (.ok (C, v, c))) (M' : Nat) :
    (C ≤ effBudget M' → runProgram cfg (chiaDialect cfg cryptoExtra F) fuel c0 p e M' = some (.ok (C, v, c))) ∧
    (effBudget M' < C →
      runProgram cfg (chiaDialect cfg cryptoExtra F) fuel c0 p e M' = some (.error .CostExceeded)) :=
  chia_run_tight_partial cfg cryptoExtra cryptoExtra_budget F hS hN h M'

/-! ### C25 -/

/-- `run_program` with `ChiaDialect::new(F)` and all operators never ends in `InternalError`, a panic
or an abort on a well-formed program and environment -/
theorem crypto_machine_no_internal (cfg : Cfg) (F fuel : Nat) (c0 : Ctr) (p env : Val) (M : Nat)
    (hp : p.wf = true) (he : env.wf = true) (e : Err)
    (h : runProgram cfg (chiaDialect cfg cryptoExtra F) fuel c0 p env M = some (.error e)) :
    Err.isInternal e = false :=
  chia_machine_no_internal cfg cryptoExtra cryptoExtra_clean cryptoExtra_wf F fuel c0 p env M hp he e h

/-! ### C07 -/

/-- restriction flags only remove successes (outside the region of finding K, see
`eval_restrict_partial`) -/
theorem crypto_eval_restrict_partial (cfg : Cfg) (F R : Nat) (hR : R &&& restrictionBits = R)
    (hK : hasFlag R Gen.FLAG_CANONICAL_INTS = false ∨ hasFlag (F ||| R) Gen.FLAG_NO_UNKNOWN_OPS = true)
    (fuel : Nat) (c0 : Ctr) (prog env : Val) (m : Nat) (r : Nat × Val × Ctr)
    (h : runProgram cfg (chiaDialect cfg cryptoExtra (F ||| R)) fuel c0 prog env m = some (.ok r)) :
    runProgram cfg (chiaDialect cfg cryptoExtra F) fuel c0 prog env m = some (.ok r) :=
  eval_restrict_partial cfg cryptoExtra cryptoExtra_restrict F R hR hK fuel c0 prog env m r h

/-- whatever succeeds in mempool mode succeeds identically under the consensus flags -/
theorem crypto_mempool_implies_consensus (cfg : Cfg) (F : Nat)
    (fuel : Nat) (c0 : Ctr) (prog env : Val) (m : Nat) (r : Nat × Val × Ctr)
    (h : runProgram cfg (chiaDialect cfg cryptoExtra (F ||| Gen.MEMPOOL_MODE)) fuel c0 prog env m = some (.ok r)) :
    runProgram cfg (chiaDialect cfg cryptoExtra F) fuel c0 prog env m = some (.ok r) :=
  mempool_implies_consensus cfg cryptoExtra cryptoExtra_restrict F fuel c0 prog env m r h

/-- RELAXED_BLS never turns a success into a failure nor changes it -/
theorem crypto_eval_relaxed (cfg : Cfg) (F : Nat)
    (fuel : Nat) (c0 : Ctr) (prog env : Val) (m : Nat) (r : Nat × Val × Ctr)
    (h : runProgram cfg (chiaDialect cfg cryptoExtra F) fuel c0 prog env m = some (.ok r)) :
    runProgram cfg (chiaDialect cfg cryptoExtra (F ||| Gen.FLAG_RELAXED_BLS)) fuel c0 prog env m = some (.ok r) :=
  eval_relaxed cfg cryptoExtra cryptoExtra_relax F fuel c0 prog env m r h

/-! ### C11 -/

/-- values do not depend on the cost model (with ENABLE_KECCAK_OPS_OUTSIDE_GUARD; see
`eval_value_model_partial` for what is missing) -/
theorem crypto_eval_value_model_partial (cfg : Cfg)
    (F : Nat) (hF : hasFlag F Gen.FLAG_NEW_COST_MODEL = false)
    (hKec : hasFlag F Gen.FLAG_ENABLE_KECCAK_OPS_OUTSIDE_GUARD = true)
    {fuel1 fuel2 : Nat} {c0 : Ctr} {p e : Val} {M1 M2 : Nat} {r1 r2 : Nat × Val × Ctr}
    (h1 : runProgram cfg (chiaDialect cfg cryptoExtra F) fuel1 c0 p e M1 = some (.ok r1))
    (h2 : runProgram cfg (chiaDialect cfg cryptoExtra (F ||| Gen.FLAG_NEW_COST_MODEL)) fuel2 c0 p e M2 =
      some (.ok r2)) :
    r1.2 = r2.2 :=
  eval_value_model_partial cfg cryptoExtra cryptoExtra_modelIndep cryptoExtra_restrict F hF hKec h1 h2

/-! ### C05 -/

/-- the default build and the `no-fastpath` build give the same result for every run, all operators -/
theorem crypto_run_fastpath_irrelevant (F fuel : Nat) (c0 : Ctr) (p env : Val) (mc : Nat)
    (hp : p.wf = true) (he : env.wf = true) :
    runProgram { fastpath := true } (chiaDialect { fastpath := true } cryptoExtra F) fuel c0 p env mc =
    runProgram { fastpath := false } (chiaDialect { fastpath := false } cryptoExtra F) fuel c0 p env mc :=
  Clvm.Props.C05.run_fastpath_irrelevant' cryptoExtra cryptoExtra_clean cryptoExtra_wf F fuel c0 p env mc hp he

end Clvm.Interp
