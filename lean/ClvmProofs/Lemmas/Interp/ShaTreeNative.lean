/-
C23, native side: `(sha256tree (q . T))` evaluated on the machine model under `chiaDialect` with the
model's operator table (`cryptoExtra`) and `ENABLE_SHA256_TREE`: value = tree hash, cost =
`OP_COST + QUOTE_COST +` the operator's cost (`TreeHash.costSpec`, C22), one pair and one 32-byte atom.
-/
import ClvmProofs.Lemmas.Interp.ShaTreeProg
import ClvmModel.Interp.CryptoOps

namespace Clvm.Interp
open Clvm Clvm.Alloc

namespace ShaTree

/-- `(sha256tree (q . T))` -/
def nativeV (T : Val) : Val := .pair (vN 63) (.pair (qV T) Val.nil)

theorem sha_toNTree_valid {v : Val} (h : v.wf = true) : (toNTree v).Valid := by
  induction v with
  | atom b t =>
    cases t
    · trivial
    · have := wfInl_lt h
      show beNat b < 2 ^ 31
      omega
  | pair l r ihl ihr =>
    simp only [Val.wf, Bool.and_eq_true] at h
    exact ⟨ihl h.1, ihr h.2⟩

theorem sha_toNTree_erase {v : Val} (h : v.wf = true) : (toNTree v).erase = v.erase := by
  induction v with
  | atom b t =>
    cases t
    · rfl
    · show Tree.atom (smallBytes (beNat b)) = Tree.atom b
      rw [smallBytes_enc _ (by have := wfInl_lt h; omega), ← wfInl_enc h]
  | pair l r ihl ihr =>
    simp only [Val.wf, Bool.and_eq_true] at h
    simp only [toNTree, TreeHash.NTree.erase, Val.erase, ihl h.1, ihr h.2]

/-- `op_sha256_tree` on the one-element list `(T)` -/
theorem opSha256Tree_one (fl m : Nat) (T : Val) (hw : T.wf = true) (c : Ctr)
    (hm : TreeHash.costSpec (newModel fl) T.erase ≤ m)
    (hh : c.heap + 32 ≤ c.heapLimit) (ha : c.atoms < Gen.maxNumAtoms) :
    opSha256Tree fl m (.pair T Val.nil) c =
      .ok (TreeHash.costSpec (newModel fl) T.erase, Val.mkAtom (TreeHash.treeHash T.erase), c.bump 1 0 32) := by
  unfold opSha256Tree
  have e : toNTree (.pair T Val.nil) = .pair 0 (toNTree T) (.u32 0 0) := rfl
  rw [e, TreeHash.opSha256Tree_eq _ _ _ _ _ (by intro k l r h; cases h),
    TreeHash.treeHashCosted_eq _ _ _ (sha_toNTree_valid hw), sha_toNTree_erase hw, if_pos hm]
  simp only
  rw [allocAtom_bump c _ (by rw [treeHash_len32]; exact hh) ha, treeHash_len32]

/-- dispatch of opcode 63 under `ENABLE_SHA256_TREE` -/
theorem chiaOp_shatree (cfg : Cfg) (fl : Nat) (hfl : hasFlag fl Gen.FLAG_ENABLE_SHA256_TREE = true)
    (al : Val) (m : Nat) (c : Ctr) :
    chiaOp cfg cryptoExtra fl (vN 63) al m .Default c = some (opSha256Tree (fl ||| 0) m al c) := by
  have h1 : smallNumber (vN 63) = some 63 := rfl
  have h2 : lookupOp Gen.chiaOpTable 63 = some ("op_sha256_tree", Gen.FLAG_ENABLE_SHA256_TREE) := by decide
  have h3 : coreOpByName cfg "op_sha256_tree" = none := rfl
  have h4 : cryptoExtra "op_sha256_tree" = some opSha256Tree := rfl
  have hfl' : hasFlag (fl ||| 0) Gen.FLAG_ENABLE_SHA256_TREE = true := by rw [Nat.or_zero]; exact hfl
  unfold chiaOp vN
  simp only [List.length_cons, List.length_nil]
  have e4 : ((0 + 1 : Nat) == 4) = false := by decide
  have e1 : ((0 + 1 : Nat) != 1) = false := by decide
  simp only [e4, e1, Bool.false_eq_true, if_false]
  rw [show smallNumber (Val.atom [63] true) = some 63 from rfl]
  simp only [h2, hfl', h3, h4]
  have e5 : (Gen.FLAG_ENABLE_SHA256_TREE != 0 && !true) = false := by decide
  have e6 : ("op_sha256_tree" == "op_modpow") = false := by decide
  simp only [e5, e6, Bool.false_eq_true, if_false, Bool.false_and]

section
variable {cfg : Cfg} {F mc vl el : Nat} {env : Val}

local notation "D" => chiaDialect cfg cryptoExtra F

/-- **the native call** -/
theorem native_le (hS : hasFlag F Gen.FLAG_ENABLE_SHA256_TREE = true) (T : Val) (hw : T.wf = true)
    (c0 : Ctr) (cost0 : Nat)
    (hvl : vl + 3 ≤ Gen.STACK_SIZE_LIMIT) (hel : el + 1 ≤ Gen.STACK_SIZE_LIMIT)
    (hp : c0.pairs + 1 ≤ Gen.maxNumPairs) (ha : c0.atoms + 1 ≤ Gen.maxNumAtoms)
    (hh : c0.heap + 32 ≤ c0.heapLimit)
    (hc : cost0 + 21 + TreeHash.costSpec (newModel F) T.erase ≤ mc) :
    EvalsLe cfg (D) mc [] vl el (nativeV T) env c0 cost0 (Val.mkAtom (TreeHash.treeHash T.erase))
      (cost0 + 21 + TreeHash.costSpec (newModel F) T.erase) (c0.bump 1 1 32) := by
  have hfl : hasFlag (normFlags F) Gen.FLAG_ENABLE_SHA256_TREE = true := by
    rw [show Gen.FLAG_ENABLE_SHA256_TREE = 2 ^ 10 from by decide, hasFlag_normFlags F 10 (by decide),
      ← show Gen.FLAG_ENABLE_SHA256_TREE = 2 ^ 10 from by decide]
    exact hS
  have hop : (D).op (vN 63) (.pair T Val.nil) (mc - (cost0 + 1 + 20)) .Default (c0.bump 0 1 0) =
      some (.ok (TreeHash.costSpec (newModel F) T.erase, Val.mkAtom (TreeHash.treeHash T.erase),
        (c0.bump 0 1 0).bump 1 0 32)) := by
    show chiaOp cfg cryptoExtra (normFlags F) (vN 63) _ _ .Default _ = _
    rw [chiaOp_shatree cfg (normFlags F) hfl]
    have := opSha256Tree_one (normFlags F ||| 0) (mc - (cost0 + 1 + 20)) T hw (c0.bump 0 1 0)
      (by rw [newModel_norm]; omega) (by simp only [Ctr.bump]; omega) (by simp only [Ctr.bump]; omega)
    rw [newModel_norm] at this
    rw [this]
  exact (op1_le (ob := [63]) (oi := true) (tb := true) (show _ ≠ some 1 by decide) (show _ ≠ some 2 by decide)
    (show _ ≠ some 36 by decide) hvl hel (qV_le (by omega)) (newPair_bump _ (by omega)) hop
    (by show _ ≤ mc; first | omega | (simp only [Gen.OP_COST]; omega))).cast
    (by first | omega | (simp only [Gen.OP_COST] <;> omega)) (by simp [bump_bump])

/-- … as a run of `run_program` (any environment) -/
theorem native_runs (hS : hasFlag F Gen.FLAG_ENABLE_SHA256_TREE = true) (T : Val) (hw : T.wf = true)
    (c0 : Ctr) (mc0 : Nat)
    (hp : c0.pairs + 1 ≤ Gen.maxNumPairs) (ha : c0.atoms + 2 ≤ Gen.maxNumAtoms)
    (hh : c0.heap + 32 ≤ c0.heapLimit)
    (hc : 21 + TreeHash.costSpec (newModel F) T.erase ≤ (if mc0 == 0 then U64_MAX else mc0)) :
    ∃ fuel0, ∀ fuel, fuel0 ≤ fuel →
      runProgram cfg (D) fuel c0 (nativeV T) env mc0 =
        some (.ok (21 + TreeHash.costSpec (newModel F) T.erase, Val.mkAtom (TreeHash.treeHash T.erase),
          c0.bump 2 1 32)) := by
  have hg : c0.addGhostAtom 1 = .ok (c0.bump 1 0 0) := by
    unfold Ctr.addGhostAtom Ctr.bump
    have : ¬ Gen.maxNumAtoms - c0.atoms < 1 := by omega
    simp only [this, if_false, Nat.add_zero]
  have h := (native_le (cfg := cfg) (F := F) (mc := if mc0 == 0 then U64_MAX else mc0) (vl := 0) (el := 0)
    (env := env) hS T hw (c0.bump 1 0 0) 0 (by decide) (by decide) (by simp only [Ctr.bump]; omega)
    (by simp only [Ctr.bump]; omega) (by simp only [Ctr.bump]; omega) (by omega)).1
  rw [bump_bump] at h
  have e : (0 : Nat) + 21 + TreeHash.costSpec (newModel F) T.erase = 21 + TreeHash.costSpec (newModel F) T.erase := by
    omega
  rw [e] at h
  exact runProgram_of_Evals hg h hc

end

end ShaTree

end Clvm.Interp
