/-
C04, machine level, for `ChiaDialect`: nothing in the machine or in any operator reads the
ENABLE_GC bit; the only thing that changes is `gc_candidate`.  Hence `gc_unobservable_model` applies.
-/
import ClvmProofs.Lemmas.Interp.GcStutter
import ClvmProofs.Lemmas.Interp.LiftRestrict
import ClvmProofs.Lemmas.Interp.FlagsDispatch
import ClvmProofs.Lemmas.Interp.CryptoShapes

namespace Clvm.Interp
open Clvm Clvm.Alloc

/-! ### the ENABLE_GC bit -/

theorem hasFlag_or_gc (F b : Nat) (h : hasFlag Gen.FLAG_ENABLE_GC b = false) :
    hasFlag (F ||| Gen.FLAG_ENABLE_GC) b = hasFlag F b := hasFlag_or_disjoint F _ b h

theorem newModel_or_gc (F : Nat) : newModel (F ||| Gen.FLAG_ENABLE_GC) = newModel F :=
  hasFlag_or_gc F _ (by decide)

theorem sameView_gc (F : Nat) : SameView (F ||| Gen.FLAG_ENABLE_GC) F :=
  ⟨newModel_or_gc F, hasFlag_or_gc F _ (by decide), hasFlag_or_gc F _ (by decide)⟩

theorem normFlags_gc (F : Nat) : normFlags (F ||| Gen.FLAG_ENABLE_GC) = normFlags F ||| Gen.FLAG_ENABLE_GC := by
  have h5 : Gen.FLAG_ENABLE_GC = 2 ^ 5 := by decide
  rw [h5]
  apply Nat.eq_of_testBit_eq
  intro j
  rw [testBit_normFlags, Nat.testBit_or, Nat.testBit_or, Nat.testBit_or, testBit_normFlags, Nat.testBit_two_pow]
  have e13 : (2 ^ 5 : Nat).testBit 13 = false := by decide
  rw [e13]
  by_cases hj : 5 = j
  · subst hj; simp
  · simp [hj]

theorem chiaOpTable_req_gc : ∀ e ∈ Gen.chiaOpTable, hasFlag Gen.FLAG_ENABLE_GC e.2.2 = false := by decide

theorem lookupOp_req_gc {op : Nat} {name : String} {req : Nat}
    (h : lookupOp Gen.chiaOpTable op = some (name, req)) : hasFlag Gen.FLAG_ENABLE_GC req = false := by
  unfold lookupOp at h
  cases hf : Gen.chiaOpTable.find? (fun e => e.1 == op) with
  | none => simp [hf] at h
  | some e =>
    simp only [hf, Option.map_some, Option.some.injEq] at h
    have := chiaOpTable_req_gc e (List.mem_of_find?_eq_some hf)
    rw [h] at this
    exact this

/-- the dispatch does not read the ENABLE_GC bit (given that the extra operators do not) -/
theorem chiaOp_gc (cfg : Cfg) (extra : String → Option OpFn)
    (hextra : ∀ name f G, extra name = some f → f (G ||| Gen.FLAG_ENABLE_GC) = f G)
    (F : Nat) (o args : Val) (m : Nat) (ext : OperatorSet) (c : Ctr) :
    chiaOp cfg extra F o args m ext c = chiaOp cfg extra (F ||| Gen.FLAG_ENABLE_GC) o args m ext c := by
  have hunk : ∀ G ob, unknownOperator ob args (G ||| Gen.FLAG_ENABLE_GC) m c = unknownOperator ob args G m c := by
    intro G ob
    simp only [unknownOperator, hasFlag_or_gc G _ (by decide : hasFlag Gen.FLAG_ENABLE_GC Gen.FLAG_NO_UNKNOWN_OPS = false),
      opUnknown_nm (newModel_or_gc G)]
  have hcall : ∀ G name,
      (match coreOpByName cfg name with
        | some f => some (f (G ||| Gen.FLAG_ENABLE_GC) m args c)
        | none => match extra name with
          | some f => some (f (G ||| Gen.FLAG_ENABLE_GC) m args c)
          | none => none) =
      (match coreOpByName cfg name with
        | some f => some (f G m args c)
        | none => match extra name with
          | some f => some (f G m args c)
          | none => none) := by
    intro G name
    cases h1 : coreOpByName cfg name with
    | some f => simp only [coreOps_sameView h1 (sameView_gc G)]
    | none =>
      simp only []
      cases h2 : extra name with
      | some f => simp only [hextra name f G h2]
      | none => rfl
  symm
  simp only [chiaOp]
  cases o with
  | pair l r => rfl
  | atom ob inl =>
    have hcomm : ∀ E, F ||| Gen.FLAG_ENABLE_GC ||| E = F ||| E ||| Gen.FLAG_ENABLE_GC := by
      intro E; rw [Nat.or_assoc, Nat.or_comm Gen.FLAG_ENABLE_GC E, ← Nat.or_assoc]
    simp only [hcomm]
    generalize (F ||| match ext with
      | .Default => 0 | .Bls => 0 | .Keccak => Gen.FLAG_ENABLE_KECCAK_OPS_OUTSIDE_GUARD
      | .PreHardFork => Gen.FLAG_ENABLE_KECCAK_OPS_OUTSIDE_GUARD) = G
    simp only [hunk, newModel_or_gc,
      hasFlag_or_gc G _ (by decide : hasFlag Gen.FLAG_ENABLE_GC Gen.FLAG_DISABLE_OP = false)]
    split
    · cases List.find? (fun e => e.1 == beNat ob) Gen.chiaOp4Table with
      | none => rfl
      | some e => exact hcall G e.2
    · split
      · rfl
      · cases smallNumber (Val.atom ob inl) with
        | none => rfl
        | some op =>
          simp only []
          cases hl : lookupOp Gen.chiaOpTable op with
          | none => rfl
          | some e =>
            obtain ⟨name, req⟩ := e
            simp only [hasFlag_or_gc G req (lookupOp_req_gc hl)]
            split
            · rfl
            · split
              · rfl
              · exact hcall G name

/-- **`ChiaDialect` with and without ENABLE_GC differ only in `gc_candidate`** -/
theorem chia_gcPair (cfg : Cfg) (extra : String → Option OpFn)
    (hextra : ∀ name f G, extra name = some f → f (G ||| Gen.FLAG_ENABLE_GC) = f G)
    (F : Nat) (hF : hasFlag F Gen.FLAG_ENABLE_GC = false) :
    GcPair (chiaDialect cfg extra F) (chiaDialect cfg extra (F ||| Gen.FLAG_ENABLE_GC)) := by
  have hfl : (chiaDialect cfg extra (F ||| Gen.FLAG_ENABLE_GC)).flags = normFlags F ||| Gen.FLAG_ENABLE_GC := by
    rw [chiaDialect_flags, normFlags_gc]
  have hfl0 : (chiaDialect cfg extra F).flags = normFlags F := chiaDialect_flags cfg extra F
  have hflag : ∀ b, hasFlag Gen.FLAG_ENABLE_GC b = false →
      hasFlag (chiaDialect cfg extra F).flags b = hasFlag (chiaDialect cfg extra (F ||| Gen.FLAG_ENABLE_GC)).flags b := by
    intro b hb; rw [hfl, hfl0, hasFlag_or_gc _ _ hb]
  refine ⟨rfl, rfl, rfl, ?_, ?_, hflag _ (by decide), hflag _ (by decide), hflag _ (by decide), ?_, ?_⟩
  · funext e
    show (if hasFlag (chiaDialect cfg extra F).flags Gen.FLAG_NEW_COST_MODEL then _ else _) =
      (if hasFlag (chiaDialect cfg extra (F ||| Gen.FLAG_ENABLE_GC)).flags Gen.FLAG_NEW_COST_MODEL then _ else _)
    rw [hflag _ (by decide)]
  · show (!hasFlag (chiaDialect cfg extra F).flags Gen.FLAG_NO_UNKNOWN_OPS) =
      (!hasFlag (chiaDialect cfg extra (F ||| Gen.FLAG_ENABLE_GC)).flags Gen.FLAG_NO_UNKNOWN_OPS)
    rw [hflag _ (by decide)]
  · intro o args m ext c
    show chiaOp cfg extra (chiaDialect cfg extra F).flags o args m ext c =
      chiaOp cfg extra (chiaDialect cfg extra (F ||| Gen.FLAG_ENABLE_GC)).flags o args m ext c
    rw [hfl, hfl0]
    exact chiaOp_gc cfg extra hextra _ o args m ext c
  · intro o
    show (if !hasFlag (chiaDialect cfg extra F).flags Gen.FLAG_ENABLE_GC then false else _) = false
    have h5 : Gen.FLAG_ENABLE_GC = 2 ^ 5 := by decide
    rw [hfl0, h5, hasFlag_normFlags F 5 (by decide), ← h5, hF]
    rfl

/-! ### the cryptographic operators do not read the bit either -/

namespace GcCrypto
open Clvm.Crypto Clvm.Crypto.Ops

theorem cNm_gc (F : Nat) : Crypto.Ops.newCostModel (F ||| Gen.FLAG_ENABLE_GC) = Crypto.Ops.newCostModel F := by
  rw [cNewCostModel_eq, cNewCostModel_eq]; exact hasFlag_or_gc F _ (by decide)

theorem cRelaxed_gc (F : Nat) : Crypto.Ops.hasFlag (F ||| Gen.FLAG_ENABLE_GC) Gen.Crypto.flagRelaxedBls =
    Crypto.Ops.hasFlag F Gen.Crypto.flagRelaxedBls := by
  rw [cRelaxed_eq, cRelaxed_eq]; exact hasFlag_or_gc F _ (by decide)

theorem cLimits_gc (F : Nat) : Crypto.Ops.hasFlag (F ||| Gen.FLAG_ENABLE_GC) Gen.Crypto.flagLimits =
    Crypto.Ops.hasFlag F Gen.Crypto.flagLimits := by
  rw [cLimits_eq, cLimits_eq]; exact hasFlag_or_gc F _ (by decide)

/-- a tree-level operator that does not read ENABLE_GC -/
def TGc (g : Crypto.OpFn) : Prop := ∀ F, g (F ||| Gen.FLAG_ENABLE_GC) = g F

theorem NmOnly.tgc {g : Crypto.OpFn} (h : NmOnly g) : TGc g := fun F => h _ _ (cNm_gc F)

theorem opByNameWith_gc (P : Primitives) {name : String} {g : Crypto.OpFn}
    (h : opByNameWith P name = some g) : TGc g := by
  unfold opByNameWith at h
  split at h <;> first
    | (cases h; done)
    | (cases h; first
        | exact NmOnly.tgc opSha256_nmOnly | exact NmOnly.tgc opKeccak256_nmOnly | exact NmOnly.tgc opCoinid_nmOnly
        | exact NmOnly.tgc opPointAdd_noFlags.nmOnly | exact NmOnly.tgc opPubkeyForExp_noFlags.nmOnly
        | exact NmOnly.tgc opBlsG1Subtract_noFlags.nmOnly
        | exact fun F => opBlsG1Multiply_view (cNm_gc F) (cLimits_gc F)
        | exact fun F => opBlsG1Negate_rel (cRelaxed_gc F)
        | exact NmOnly.tgc opBlsG2Add_noFlags.nmOnly | exact NmOnly.tgc opBlsG2Subtract_noFlags.nmOnly
        | exact fun F => opBlsG2Multiply_view (cNm_gc F) (cLimits_gc F)
        | exact fun F => opBlsG2Negate_rel (cRelaxed_gc F)
        | exact NmOnly.tgc (opBlsMapToG1_nmOnly _) | exact NmOnly.tgc (opBlsMapToG2_nmOnly _)
        | exact NmOnly.tgc (opBlsPairingIdentity_nmOnly _) | exact NmOnly.tgc (opBlsVerify_nmOnly _)
        | exact NmOnly.tgc opSecp256k1Verify_noFlags.nmOnly | exact NmOnly.tgc opSecp256r1Verify_noFlags.nmOnly)

end GcCrypto

theorem cryptoExtra_gc (name : String) (f : OpFn) (G : Nat) (h : cryptoExtra name = some f) :
    f (G ||| Gen.FLAG_ENABLE_GC) = f G := by
  rcases cryptoExtra_cases h with rfl | ⟨g, hg, rfl⟩
  · exact opSha256Tree_flags (newModel_or_gc G)
  · funext m args c
    simp only [liftCrypto, GcCrypto.opByNameWith_gc _ hg G]

/-! ### the theorem for `ChiaDialect` -/

/-- **C04 (machine model), any extra operators that do not read the bit.**  For a flag set `F`
without ENABLE_GC: a run of `ChiaDialect(F)` terminates with outcome `r` (value, cost or error, and
the three counters) iff a run of `ChiaDialect(F | ENABLE_GC)` does — with some other amount of fuel. -/
theorem chia_gc_unobservable_extra (cfg : Cfg) (extra : String → Option OpFn)
    (hextra : ∀ name f G, extra name = some f → f (G ||| Gen.FLAG_ENABLE_GC) = f G)
    (F : Nat) (hF : hasFlag F Gen.FLAG_ENABLE_GC = false) (c0 : Ctr) (p env : Val) (mc : Nat) (r : OpRes) :
    (∀ fuel, runProgram cfg (chiaDialect cfg extra F) fuel c0 p env mc = some r →
      ∃ fuel', runProgram cfg (chiaDialect cfg extra (F ||| Gen.FLAG_ENABLE_GC)) fuel' c0 p env mc = some r) ∧
    (∀ fuel', runProgram cfg (chiaDialect cfg extra (F ||| Gen.FLAG_ENABLE_GC)) fuel' c0 p env mc = some r →
      ∃ fuel, runProgram cfg (chiaDialect cfg extra F) fuel c0 p env mc = some r) :=
  gc_unobservable_model cfg (chia_gcPair cfg extra hextra F hF) c0 p env mc r

/-- **C04 (machine model) for `ChiaDialect` with every operator**: no operator hypotheses -/
theorem chia_gc_unobservable (cfg : Cfg) (F : Nat) (hF : hasFlag F Gen.FLAG_ENABLE_GC = false)
    (c0 : Ctr) (p env : Val) (mc : Nat) (r : OpRes) :
    (∀ fuel, runProgram cfg (chiaDialect cfg cryptoExtra F) fuel c0 p env mc = some r →
      ∃ fuel', runProgram cfg (chiaDialect cfg cryptoExtra (F ||| Gen.FLAG_ENABLE_GC)) fuel' c0 p env mc = some r) ∧
    (∀ fuel', runProgram cfg (chiaDialect cfg cryptoExtra (F ||| Gen.FLAG_ENABLE_GC)) fuel' c0 p env mc = some r →
      ∃ fuel, runProgram cfg (chiaDialect cfg cryptoExtra F) fuel c0 p env mc = some r) :=
  chia_gc_unobservable_extra cfg cryptoExtra (fun name f G h => cryptoExtra_gc name f G h) F hF c0 p env mc r

end Clvm.Interp
