/-
Decoders of the classic format on the output of the specification `serSpec`:
`node_from_stream`, `serialized_length_from_bytes_trusted`, `is_canonical_serialization`.
-/
import ClvmProofs.Lemmas.ClassicHdr
set_option linter.unusedSimpArgs false
namespace Clvm.Serde.Classic

/-- the three shapes of an atom's encoding, phrased as what a decoder sees -/
theorem atomEnc_shape (a : Bytes) (ha : a.length < 2 ^ 34) :
    (∃ x, a = [x] ∧ x.toNat ≤ 0x7f ∧ atomEnc a = [x]) ∨
    (a = [] ∧ atomEnc a = [0x80]) ∨
    (∃ f tl, atomEnc a = f :: (tl ++ a) ∧ 0x80 < f.toNat ∧ f.toNat < 0xFC ∧
      tl.length = width a.length - 1 ∧ 1 ≤ a.length ∧
      (∀ x, a = [x] → 0x80 ≤ x.toNat) ∧
      ∀ rest, decodeSizeWithOffset (tl ++ rest) f.toNat = .ok (width a.length, a.length)) := by
  by_cases h0 : a = []
  · subst h0; right; left; simp [atomEnc, atomPrefix, width, hdrW]
  by_cases hs : ∃ x, a = [x] ∧ x.toNat < 0x80
  · obtain ⟨x, rfl, hx⟩ := hs
    left; exact ⟨x, rfl, by omega, by simp [atomEnc, atomPrefix, hx]⟩
  right; right
  have hlen : 1 ≤ a.length := by cases a <;> simp_all
  have hr := width_range a.length
  have hc := width_cap _ ha
  have hp : atomPrefix a = hdrW (width a.length) a.length := by
    match a, hs with
    | [], _ => rfl
    | [x], hs =>
      have : ¬ x.toNat < 0x80 := fun h => hs ⟨x, rfl, h⟩
      simp [atomPrefix, this]; rfl
    | x :: y :: t, _ => rfl
  obtain ⟨f, tl, h1, h2, h3, h4, h5, h6, _⟩ := decode_hdrW _ _ hr.1 hr.2 hc.1 ha []
  refine ⟨f, tl, ?_, h5 hlen, h6 hc.2, h2, hlen, ?_, ?_⟩
  · simp [atomEnc, hp, h1]
  · intro x hx
    subst hx
    have : ¬ x.toNat < 0x80 := fun h => hs ⟨x, rfl, h⟩
    omega
  · intro rest
    obtain ⟨f', tl', h1', _, _, _, _, _, h5'⟩ := decode_hdrW _ _ hr.1 hr.2 hc.1 ha rest
    rw [h1] at h1'; simp at h1'; obtain ⟨rfl, rfl⟩ := h1'
    exact h5'


theorem nodeFromStream_atom (a : Bytes) (ha : a.length < 2 ^ 34) (rest : Bytes) (ops : List ParseOp)
    (vals : List Tree) :
    nodeFromStream (atomEnc a ++ rest) (.sexp :: ops) vals = nodeFromStream rest ops (.atom a :: vals) := by
  rcases atomEnc_shape a ha with ⟨x, rfl, hx, he⟩ | ⟨rfl, he⟩ | ⟨f, tl, he, h1, h2, h3, h4, h5, h6⟩
  · rw [he, List.cons_append, List.nil_append, nodeFromStream]
    have h1 : ¬ x.toNat = 0xff := by omega
    simp only [CONS_BOX_MARKER, beq_iff_eq, h1, if_false, parseAtom, parseAtomPtr, MAX_SINGLE_BYTE]
    by_cases h01 : x.toNat = 1
    · have : x = 1 := UInt8.toNat_inj.mp h01
      simp [h01, this]
    · have h80 : ¬ x.toNat = 0x80 := by omega
      simp [h01, h80, hx]
  · rw [he, List.cons_append, List.nil_append, nodeFromStream]
    simp [CONS_BOX_MARKER, parseAtom]
  · rw [he, List.cons_append, nodeFromStream]
    have hff : ¬ f.toNat = 0xff := by omega
    have h01 : ¬ f.toNat = 1 := by omega
    have h80 : ¬ f.toNat = 0x80 := by omega
    have h7f : ¬ f.toNat ≤ 0x7f := by omega
    simp only [CONS_BOX_MARKER, beq_iff_eq, hff, if_false, parseAtom, parseAtomPtr, MAX_SINGLE_BYTE,
      h01, h80, h7f, decodeSize, List.append_assoc, h6]
    have hl : ¬ (a.length + rest.length < a.length) := by omega
    have hd : List.drop (width a.length - 1 + a.length) (tl ++ (a ++ rest)) = rest := by
      rw [← h3, ← List.append_assoc, show tl.length + a.length = (tl ++ a).length by simp,
        List.drop_left]
    simp [h3, hl, hd]


theorem nodeFromStream_ser (t : Tree) (ht : t.atomsBelow (2 ^ 34)) (rest : Bytes) (ops : List ParseOp)
    (vals : List Tree) :
    nodeFromStream (serSpec t ++ rest) (.sexp :: ops) vals = nodeFromStream rest ops (t :: vals) := by
  induction t generalizing rest ops vals with
  | atom a => exact nodeFromStream_atom a ht rest ops vals
  | pair l r ihl ihr =>
    simp only [serSpec, List.cons_append, List.append_assoc]
    rw [nodeFromStream]
    simp only [CONS_BOX_MARKER, show (255 : UInt8).toNat = 255 by decide, beq_self_eq_true, if_true]
    rw [ihl ht.1, ihr ht.2, nodeFromStream]

theorem drop_of_eq_append {buf A B : Bytes} {pos : Nat} (h : buf.drop pos = A ++ B) :
    buf.drop (pos + A.length) = B := by
  rw [← List.drop_drop, h, List.drop_left]

theorem length_of_drop_eq {buf A : Bytes} {pos : Nat} (h : buf.drop pos = A) (hne : A ≠ []) :
    buf.length = pos + A.length := by
  have : (buf.drop pos).length = A.length := by rw [h]
  rw [List.length_drop] at this
  have : A.length ≠ 0 := by simpa using hne
  omega

theorem tree_size_pair (l r : Tree) : (Tree.pair l r).size = l.size + r.size + 1 := by
  simp [Tree.size, Tree.pairs, Tree.atoms]; omega

theorem lenTrusted_atom (a : Bytes) (ha : a.length < 2 ^ 34) (buf : Bytes) (pos c fuel : Nat) (rest : Bytes)
    (hb : buf.drop pos = atomEnc a ++ rest) :
    lenTrusted buf pos (c + 1) (fuel + 1) = lenTrusted buf (pos + (atomEnc a).length) c fuel := by
  rw [lenTrusted]
  simp only [show (c + 1 == 0) = false by simp, Bool.false_eq_true, if_false, Nat.add_sub_cancel, hb]
  rcases atomEnc_shape a ha with ⟨x, rfl, hx, he⟩ | ⟨rfl, he⟩ | ⟨f, tl, he, h1, h2, h3, h4, h5, h6⟩
  · rw [he]
    have h1 : ¬ x.toNat = 0xff := by omega
    have h2 : ¬ x.toNat = 0xfe := by omega
    simp [CONS_BOX_MARKER, BACK_REFERENCE, MAX_SINGLE_BYTE, h1, h2, hx]
  · rw [he]
    simp [CONS_BOX_MARKER, BACK_REFERENCE, MAX_SINGLE_BYTE]
  · have hlen := length_of_drop_eq hb (by rw [he]; simp)
    rw [he] at hlen ⊢
    have hff : ¬ f.toNat = 0xff := by omega
    have hfe : ¬ f.toNat = 0xfe := by omega
    have h80 : ¬ f.toNat = 0x80 := by omega
    have h7f : ¬ f.toNat ≤ 0x7f := by omega
    simp only [List.cons_append, CONS_BOX_MARKER, BACK_REFERENCE, MAX_SINGLE_BYTE, beq_iff_eq, hff, hfe,
      h80, h7f, if_false, Bool.or_self, Bool.false_eq_true, decide_false, decodeSize,
      List.append_assoc, h6]
    simp only [List.length_cons, List.length_append] at hlen ⊢
    have hw := width_range a.length
    have : ¬ (buf.length < pos + 1 + (width a.length - 1) + a.length) := by omega
    have h80' : (f.toNat == 128 || false) = false := by simp [h80]
    simp only [this, if_false, h80', Bool.false_eq_true]
    congr 1; omega

theorem lenTrusted_ser (t : Tree) (ht : t.atomsBelow (2 ^ 34)) (buf : Bytes) (pos c fuel : Nat)
    (rest : Bytes) (hb : buf.drop pos = serSpec t ++ rest) :
    lenTrusted buf pos (c + 1) (fuel + t.size) = lenTrusted buf (pos + (serSpec t).length) c fuel := by
  induction t generalizing pos c fuel rest with
  | atom a => exact lenTrusted_atom a ht buf pos c fuel rest hb
  | pair l r ihl ihr =>
    rw [tree_size_pair, show fuel + (l.size + r.size + 1) = (fuel + r.size + l.size) + 1 by omega,
      lenTrusted]
    simp only [show (c + 1 == 0) = false by simp, Bool.false_eq_true, if_false, Nat.add_sub_cancel, hb,
      serSpec, List.cons_append, CONS_BOX_MARKER, show (255 : UInt8).toNat = 255 by decide,
      beq_self_eq_true, if_true]
    have hb1 : buf.drop (pos + 1) = serSpec l ++ (serSpec r ++ rest) := by
      have := drop_of_eq_append (A := [0xff]) (B := serSpec l ++ (serSpec r ++ rest)) (by simpa [serSpec] using hb)
      simpa using this
    rw [ihl ht.1 (pos + 1) (c + 1) (fuel + r.size) _ hb1]
    have hb2 := drop_of_eq_append hb1
    rw [ihr ht.2 _ c fuel _ hb2]
    simp only [List.length_cons, List.length_append]
    congr 1; omega


theorem isCanonicalAtom_enc (a : Bytes) (ha : a.length < 2 ^ 34) (buf : Bytes) (pos : Nat) (rest : Bytes)
    (f : UInt8) (tl : Bytes) (he : atomEnc a = f :: tl)
    (hb : buf.drop pos = atomEnc a ++ rest) :
    isCanonicalAtom buf (pos + 1) f.toNat = .ok (some (pos + (atomEnc a).length)) := by
  have hb1 : buf.drop (pos + 1) = tl ++ rest := by
    have := drop_of_eq_append (A := [f]) (B := tl ++ rest) (by simpa [he] using hb)
    simpa using this
  unfold isCanonicalAtom
  rcases atomEnc_shape a ha with ⟨x, rfl, hx, he'⟩ | ⟨rfl, he'⟩ | ⟨f', tl', he', h1, h2, h3, h4, h5, h6⟩
  · rw [he'] at he ⊢; simp at he; obtain ⟨rfl, rfl⟩ := he
    simp [MAX_SINGLE_BYTE, hx]
  · rw [he'] at he ⊢; simp at he; obtain ⟨rfl, rfl⟩ := he
    simp
  · rw [he'] at he ⊢; simp at he; obtain ⟨rfl, rfl⟩ := he
    have h80 : ¬ f'.toNat = 0x80 := by omega
    have h7f : ¬ f'.toNat ≤ 0x7f := by omega
    simp only [MAX_SINGLE_BYTE, beq_iff_eq, h80, h7f, decide_false, Bool.or_self, Bool.false_eq_true,
      if_false, hb1, List.append_assoc, h6]
    have hw := width_range a.length
    have hc := width_cap a.length ha
    have hmin := (width_eq_iff (width a.length) a.length hw.1 hw.2 hc.1 ha (fun _ => h4)).mp rfl
    have hnot : ¬ (width a.length < 1 ∨ width a.length > 6) := by omega
    simp only [hnot, if_false, hmin, if_true]
    have hb2 : buf.drop (pos + 1 + (width a.length - 1)) = a ++ rest := by
      have := drop_of_eq_append (A := tl') (B := a ++ rest) (by simpa using hb1)
      rw [h3] at this; exact this
    by_cases h1l : a.length = 1
    · match a, h1l, h5 with
      | [x], _, h5 =>
        have := h5 x rfl
        simp only [List.length_singleton] at hb2 h3
        simp [h80, hb2, show ¬ x.toNat < 128 by omega]
        omega
    · simp [h1l, h80]
      omega


theorem atomEnc_ne_nil (a : Bytes) : atomEnc a ≠ [] := by
  match a with
  | [] => simp [atomEnc, atomPrefix, width, hdrW]
  | x :: t => simp [atomEnc]

theorem isCanonicalGo_atom (a : Bytes) (ha : a.length < 2 ^ 34) (buf : Bytes) (pos c fuel : Nat) (rest : Bytes)
    (hb : buf.drop pos = atomEnc a ++ rest) :
    isCanonicalGo buf pos (c + 1) (fuel + 1) = isCanonicalGo buf (pos + (atomEnc a).length) c fuel := by
  obtain ⟨f, tl, he⟩ : ∃ f tl, atomEnc a = f :: tl := by
    have := atomEnc_ne_nil a
    cases h : atomEnc a with
    | nil => exact absurd h this
    | cons f tl => exact ⟨f, tl, rfl⟩
  have hca := isCanonicalAtom_enc a ha buf pos rest f tl he hb
  have hlen := length_of_drop_eq hb (by simp [atomEnc_ne_nil])
  have hf : f.toNat < 0xFC := by
    rcases atomEnc_shape a ha with ⟨x, rfl, hx, he'⟩ | ⟨rfl, he'⟩ | ⟨f', tl', he', h1, h2, _⟩
    · rw [he'] at he; simp at he; rw [← he.1]; omega
    · rw [he'] at he; simp at he; rw [← he.1]; decide
    · rw [he'] at he; simp at he; rw [← he.1]; omega
  rw [isCanonicalGo]
  simp only [show (c + 1 == 0) = false by simp, Bool.false_eq_true, if_false, Nat.add_sub_cancel, hb, he,
    List.cons_append, CONS_BOX_MARKER, BACK_REFERENCE, beq_iff_eq,
    show ¬ f.toNat = 255 by omega, show ¬ f.toNat = 254 by omega, hca]
  have : ¬ buf.length < pos + (atomEnc a).length := by
    rw [hlen]; simp
  rw [he] at this
  simp only [this, if_false]

theorem isCanonicalGo_ser (t : Tree) (ht : t.atomsBelow (2 ^ 34)) (buf : Bytes) (pos c fuel : Nat)
    (rest : Bytes) (hb : buf.drop pos = serSpec t ++ rest) :
    isCanonicalGo buf pos (c + 1) (fuel + t.size) = isCanonicalGo buf (pos + (serSpec t).length) c fuel := by
  induction t generalizing pos c fuel rest with
  | atom a => exact isCanonicalGo_atom a ht buf pos c fuel rest hb
  | pair l r ihl ihr =>
    have hlen := length_of_drop_eq hb (by simp [serSpec])
    simp only [serSpec, List.cons_append, List.length_cons] at hlen
    rw [tree_size_pair, show fuel + (l.size + r.size + 1) = (fuel + r.size + l.size) + 1 by omega,
      isCanonicalGo]
    have : ¬ buf.length < pos + 1 := by omega
    simp only [show (c + 1 == 0) = false by simp, Bool.false_eq_true, if_false, Nat.add_sub_cancel, hb,
      serSpec, List.cons_append, CONS_BOX_MARKER, show (255 : UInt8).toNat = 255 by decide,
      beq_self_eq_true, if_true, this]
    have hb1 : buf.drop (pos + 1) = serSpec l ++ (serSpec r ++ rest) := by
      have := drop_of_eq_append (A := [0xff]) (B := serSpec l ++ (serSpec r ++ rest)) (by simpa [serSpec] using hb)
      simpa using this
    rw [ihl ht.1 (pos + 1) (c + 1) (fuel + r.size) _ hb1]
    have hb2 := drop_of_eq_append hb1
    rw [ihr ht.2 _ c fuel _ hb2]
    simp only [List.length_cons, List.length_append]
    congr 1; omega

theorem serSpec_size_le (t : Tree) : t.size ≤ (serSpec t).length := by
  induction t with
  | atom a =>
    have := atomEnc_ne_nil a
    have : (atomEnc a).length ≠ 0 := by simpa using this
    simp [Tree.size, Tree.pairs, Tree.atoms, serSpec]; omega
  | pair l r ihl ihr =>
    rw [tree_size_pair]; simp [serSpec]; omega


theorem hdrW_length (k n : Nat) (h1 : 1 ≤ k) (h6 : k ≤ 6) : (hdrW k n).length = k := by
  have hk : k = 1 ∨ k = 2 ∨ k = 3 ∨ k = 4 ∨ k = 5 ∨ k = 6 := by omega
  rcases hk with rfl | rfl | rfl | rfl | rfl | rfl <;> rfl

theorem atomEnc_length (b : Bytes) :
    (atomEnc b).length =
      match b with
      | [x] => if x.toNat < 0x80 then 1 else 2
      | _ => width b.length + b.length := by
  have hw := width_range b.length
  match b with
  | [] => simp [atomEnc, atomPrefix, width, hdrW]
  | [x] =>
    by_cases hx : x.toNat < 0x80
    · simp [atomEnc, atomPrefix, hx]
    · simp [atomEnc, atomPrefix, hx, hdrW]
  | x :: y :: t =>
    simp only [List.length_cons] at hw
    simp [atomEnc, atomPrefix, hdrW_length _ _ hw.1 hw.2]

theorem serializedLengthAtom_eq (b : Bytes) (hb : b.length < 2 ^ 32) :
    serializedLengthAtom b = (atomEnc b).length := by
  rw [atomEnc_length]
  unfold serializedLengthAtom
  simp only [Gen.serLenAtomThresholds, thr, List.getD_cons_zero, List.getD_cons_succ]
  match b, hb with
  | [], _ => simp [width]
  | [x], _ =>
    by_cases hx : x.toNat < 0x80
    · simp [hx]
    · simp [hx]
  | x :: y :: t, hb =>
    simp only [List.length_cons] at hb ⊢
    unfold width
    simp
    repeat' split
    all_goals omega

theorem cacheSerializedLength_eq (t : Tree) (ht : t.atomsBelow (2 ^ 32)) (hl : (serSpec t).length < 2 ^ 64) :
    cacheSerializedLength t = (serSpec t).length := by
  induction t with
  | atom a => exact serializedLengthAtom_eq a ht
  | pair l r ihl ihr =>
    simp only [serSpec, List.length_cons, List.length_append] at hl ⊢
    simp only [cacheSerializedLength, ihl ht.1 (by omega), ihr ht.2 (by omega), satAdd]
    omega

end Clvm.Serde.Classic
