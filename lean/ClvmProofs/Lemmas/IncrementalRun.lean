/-
C19, part 3 — the invariant of a serializer state relative to the retained additions (`Good`), its
preservation by `add` under a valid policy, the bookkeeping of a caller (`Run`: undo states and trees of
the retained additions) and the decoding of a completed state by both decoders.
-/
import ClvmProofs.Lemmas.IncrementalDecode

namespace Clvm.Incremental
open Clvm Clvm.Serde Clvm.Serde.Backref Clvm.Serde.Incremental Clvm.Serde.TraversePath Clvm.Backref

/-- the structural part of the invariant: nothing added yet ⇒ the initial stacks; otherwise the tree
`A` assembled from the retained additions is what the pending stacks will build, with the next
addition going to its leftmost sentinel — or, after completion, `A` is alone on the parse stack -/
def Pure (sent : Option Bytes) (s : Ser) : List Tree → Bool → Prop
  | [], done => s.readOpStack = [.parse] ∧ s.writeStack = [] ∧ s.cache.root = Tree.nil ∧ done = false
  | t :: ts, done => ∃ A, assembleFrom sent t ts = some A ∧
      (if done then s.readOpStack = [] ∧ s.writeStack = [] ∧ s.cache.root = Tree.pair A Tree.nil
       else ∃ m, sent = some m ∧ HeadNotCons s.readOpStack ∧
         finalRoot s.readOpStack (.atom m :: s.writeStack) s.cache.root = some (Tree.pair A Tree.nil))

structure Good (sent : Option Bytes) (s : Ser) (trees : List Tree) (done : Bool) : Prop where
  cur : CurOk s.output
  sen : s.cache.sentinel = sent
  clean : StackClean sent s.cache.root
  sim : PrefixSim s.output.buf s.readOpStack s.cache.root
  pure : Pure sent s trees done

theorem good_new (sent : Option Bytes) : Good sent (Ser.new sent) [] false where
  cur := rfl
  sen := rfl
  clean := trivial
  sim := fun _ _ hc => Steps.refl hc
  pure := ⟨rfl, rfl, rfl, rfl⟩

theorem add_good {sent : Option Bytes} {fp : FindPath} {s s' : Ser} {t : Tree} {d : Bool} {u : UndoState}
    {trees : List Tree} {done : Bool} (hg : Good sent s trees done) (hv : Valid fp)
    (h : s.add fp t = .ok (s', d, u)) : done = false ∧ Good sent s' (trees ++ [t]) d := by
  obtain ⟨_, hcur', hsen', _⟩ := add_appends h hg.cur
  unfold Ser.add at h
  split at h
  · cases h
  · rename_i hne
    cases hl : addLoop fp (t :: s.writeStack) s.readOpStack s.cache s.output with
    | error e => simp [hl] at h
    | ok r =>
      obtain ⟨s1, d1⟩ := r
      simp only [hl, Except.ok.injEq, Prod.mk.injEq] at h
      obtain ⟨rfl, rfl, rfl⟩ := h
      -- the tree the stacks will build once `t` is put in place
      have key : done = false ∧ ∃ A', (match trees ++ [t] with
            | [] => False
            | t0 :: ts => assembleFrom sent t0 ts = some A') ∧ HeadNotCons s.readOpStack ∧
          finalRoot s.readOpStack (t :: s.writeStack) s.cache.root = some (Tree.pair A' Tree.nil) := by
        have hp := hg.pure
        cases trees with
        | nil =>
          obtain ⟨h1, h2, h3, h4⟩ := hp
          refine ⟨h4, t, by simp [assembleFrom], by rw [h1]; trivial, ?_⟩
          rw [h1, h2, h3]; simp [finalRoot]
        | cons t0 ts =>
          obtain ⟨A, hA, hrest⟩ := hp
          cases done with
          | true =>
            rw [if_pos rfl] at hrest
            rw [hrest.1] at hne
            exact absurd rfl hne
          | false =>
            rw [if_neg (by simp)] at hrest
            obtain ⟨m, hm, hhead, hfr⟩ := hrest
            have hcl := hg.clean
            rw [hm] at hcl
            obtain ⟨A', hsub, hfr'⟩ := finalRoot_subst (t := t) hcl hhead hfr
            refine ⟨rfl, A', ?_, hhead, hfr'⟩
            show assembleFrom sent t0 (ts ++ [t]) = some A'
            rw [hm, assembleFrom_snoc, ← hm, hA]
            exact hsub
      obtain ⟨hdone, A', hasm, hhead, hfr⟩ := key
      obtain ⟨p1, p2, p3⟩ := addLoop_sim fp hv sent _ _ rfl _ _ _ _ _ _ hl hg.cur hg.sen hg.clean hhead hg.sim hfr
      refine ⟨hdone, ⟨hcur', by rw [hsen', hg.sen], p1, p2, ?_⟩⟩
      cases htr : trees ++ [t] with
      | nil => simp at htr
      | cons t0 ts =>
        rw [htr] at hasm
        exact ⟨A', hasm, p3⟩

/-! ### a completed state decodes -/

theorem deBrOld_done (A : Tree) (rest : Bytes) (c : Ctr) :
    deBrOld rest [] (Tree.pair A Tree.nil) c = .ok (A, rest, c) := by
  rw [deBrOld]

/-- what the legacy decoder returns, the current decoder returns (C18's simulation) -/
theorem new_of_old (b : Bytes) (c : Ctr) (hc : PairInv c) (t : Tree) (rest : Bytes)
    (hold : (∃ e, deBrOld b [.sexp] Tree.nil c = .error e ∧ limitErr e) ∨
      ∃ c', deBrOld b [.sexp] Tree.nil c = .ok (t, rest, c')) :
    (∃ e, deBrNew b [.sexp] [] c = .error e ∧ limitErr e) ∨ ∃ c', deBrNew b [.sexp] [] c = .ok (t, rest, c') := by
  have hrel : Clvm.Backref.Rel [] c Tree.nil c := ⟨rfl, trivial, Nat.zero_le _, hc, SameTotals.refl c⟩
  have hs := deBr_sim _ b rfl [.sexp] [] c Tree.nil c hrel
  revert hs
  generalize deBrNew b [.sexp] [] c = X
  intro hs
  rcases hold with ⟨e, he, hl⟩ | ⟨c', he⟩
  · rw [he] at hs
    left
    cases hs with
    | err hn =>
      rename_i e1
      refine ⟨e1, rfl, ?_⟩
      cases e <;> cases e1 <;> simp_all [normErr, limitErr]
  · rw [he] at hs
    right
    cases hs with
    | ok hr =>
      rename_i r
      obtain ⟨t', rest', c1⟩ := r
      obtain ⟨h1, h2, _⟩ := hr
      simp only at h1 h2
      subst h1; subst h2
      exact ⟨c1, rfl⟩

theorem good_done_decodes {sent : Option Bytes} {s : Ser} {trees : List Tree} (hg : Good sent s trees true) :
    ∃ A, assemble sent trees = some A ∧ noSentinel sent A = true ∧ s.readOpStack = [] ∧ s.writeStack = [] ∧
      ∀ (rest : Bytes) (c : Ctr), c.pairs + c.ghostPairs ≤ Gen.maxNumPairs →
        ((∃ e, deBrOld (s.output.buf ++ rest) [.sexp] Tree.nil c = .error e ∧ limitErr e) ∨
          ∃ c', deBrOld (s.output.buf ++ rest) [.sexp] Tree.nil c = .ok (A, rest, c')) ∧
        ((∃ e, deBrNew (s.output.buf ++ rest) [.sexp] [] c = .error e ∧ limitErr e) ∨
          ∃ c', deBrNew (s.output.buf ++ rest) [.sexp] [] c = .ok (A, rest, c')) := by
  have hp := hg.pure
  cases trees with
  | nil => exact absurd hp.2.2.2 (by simp)
  | cons t ts =>
    obtain ⟨A, hA, hrest⟩ := hp
    rw [if_pos rfl] at hrest
    obtain ⟨h1, h2, h3⟩ := hrest
    have hcl := hg.clean
    rw [h3] at hcl
    refine ⟨A, hA, hcl.1, h1, h2, fun rest c hc => ?_⟩
    have hold : (∃ e, deBrOld (s.output.buf ++ rest) [.sexp] Tree.nil c = .error e ∧ limitErr e) ∨
        ∃ c', deBrOld (s.output.buf ++ rest) [.sexp] Tree.nil c = .ok (A, rest, c') := by
      rcases hg.sim rest c hc with ⟨e, he, hl⟩ | ⟨c', _, he⟩
      · exact .inl ⟨e, he, hl⟩
      · right
        refine ⟨c', ?_⟩
        rw [he, h1, h3]
        exact deBrOld_done A rest c'
    exact ⟨hold, new_of_old _ c hc A rest hold⟩

/-! ### the caller's bookkeeping -/

def StepValid : Step → Prop
  | .add fp _ => Valid fp
  | .undo _ => True

/-- `bs` are the states at which the kept undo states were taken: the i-th one is `Good` for the first
`i` retained trees, the current state was reached from it, and they were reached one from the other -/
structure RunInv (sent : Option Bytes) (r : Run) : Prop where
  good : Good sent r.s r.trees r.done
  bases : ∃ bs : List Ser, r.undos = bs.map Ser.undoState ∧
    (bs.length = r.trees.length ∨ bs.length = r.trees.length + 1) ∧
    (∀ (i : Nat) (b : Ser), bs[i]? = some b → Good sent b (r.trees.take i) false ∧ Ext b r.s) ∧
    (∀ (i j : Nat) (bi bj : Ser), i < j → bs[i]? = some bi → bs[j]? = some bj → Ext bi bj)

theorem runInv_new (sent : Option Bytes) : RunInv sent (Run.new sent) where
  good := good_new sent
  bases := ⟨[], rfl, .inl rfl, by simp, by simp⟩

theorem step_inv {sent : Option Bytes} {r r' : Run} {st : Step} (hi : RunInv sent r) (hv : StepValid st)
    (h : r.step st = .ok r') : RunInv sent r' := by
  obtain ⟨hgood, bs, hund, hlen, hb, hpair⟩ := hi
  cases st with
  | add fp t =>
    simp only [Run.step] at h
    cases ha : r.s.add fp t with
    | error e => simp [ha] at h
    | ok x =>
      obtain ⟨s', d, u⟩ := x
      simp only [ha, Except.ok.injEq] at h
      subst h
      obtain ⟨hdone, hg'⟩ := add_good hgood hv ha
      obtain ⟨hu, _⟩ := add_appends ha hgood.cur
      refine ⟨hg', bs.take r.trees.length ++ [r.s], ?_, ?_, ?_, ?_⟩
      · simp only [hund, List.map_append, List.map_take, List.map_cons, List.map_nil, hu]
      · left
        simp only [List.length_append, List.length_take, List.length_cons, List.length_nil]
        omega
      · intro i b hib
        have hl : (bs.take r.trees.length).length = r.trees.length := by
          simp only [List.length_take]; omega
        rw [List.getElem?_append] at hib
        by_cases hlt : i < r.trees.length
        · rw [if_pos (by omega)] at hib
          rw [List.getElem?_take] at hib
          rw [if_pos hlt] at hib
          obtain ⟨g1, g2⟩ := hb i b hib
          refine ⟨?_, Ext.add g2 ha⟩
          show Good sent b ((r.trees ++ [t]).take i) false
          rw [List.take_append_of_le_length (by omega)]
          exact g1
        · rw [if_neg (by omega), hl] at hib
          have hi0 : i - r.trees.length = 0 ∨ i - r.trees.length ≥ 1 := by omega
          rcases hi0 with h0 | h1
          · rw [h0] at hib
            simp only [List.getElem?_cons_zero, Option.some.injEq] at hib
            subst hib
            have hie : i = r.trees.length := by omega
            refine ⟨?_, Ext.add (Ext.refl _) ha⟩
            show Good sent r.s ((r.trees ++ [t]).take i) false
            rw [hie, List.take_left']
            · rw [← hdone]; exact hgood
            · rfl
          · have : ([r.s] : List Ser)[i - r.trees.length]? = none := by
              apply List.getElem?_eq_none; simp; omega
            rw [this] at hib; cases hib
      · intro i j bi bj hij hbi hbj
        have hl : (bs.take r.trees.length).length = r.trees.length := by
          simp only [List.length_take]; omega
        rw [List.getElem?_append] at hbi hbj
        by_cases hjlt : j < r.trees.length
        · rw [if_pos (by omega), List.getElem?_take, if_pos hjlt] at hbj
          rw [if_pos (by omega), List.getElem?_take, if_pos (by omega)] at hbi
          exact hpair i j bi bj hij hbi hbj
        · rw [if_neg (by omega), hl] at hbj
          have hj0 : j - r.trees.length = 0 ∨ j - r.trees.length ≥ 1 := by omega
          rcases hj0 with h0 | h1
          · rw [h0] at hbj
            simp only [List.getElem?_cons_zero, Option.some.injEq] at hbj
            subst hbj
            rw [if_pos (by omega), List.getElem?_take, if_pos (by omega)] at hbi
            exact (hb i bi hbi).2
          · have : ([r.s] : List Ser)[j - r.trees.length]? = none := by
              apply List.getElem?_eq_none; simp; omega
            rw [this] at hbj; cases hbj
  | undo k =>
    simp only [Run.step] at h
    split at h
    · cases h
    · rename_i hk
      cases hu : r.undos[k - 1]? with
      | none => simp [hu] at h
      | some u =>
        simp only [hu, Except.ok.injEq] at h
        subst h
        rw [hund, List.getElem?_map] at hu
        cases hbk : bs[k - 1]? with
        | none => simp [hbk] at hu
        | some b =>
          simp only [hbk, Option.map_some, Option.some.injEq] at hu
          subst hu
          obtain ⟨gb, eb⟩ := hb (k - 1) b hbk
          have hklt : k - 1 < bs.length := by
            have := List.getElem?_eq_some_iff.mp hbk
            exact this.1
          have hrest : r.s.restore b.undoState = b := restore_exact gb.cur eb
          refine ⟨?_, bs.take k, ?_, ?_, ?_, ?_⟩
          · show Good sent (r.s.restore b.undoState) (r.trees.take (k - 1)) false
            rw [hrest]; exact gb
          · show r.undos.take k = (bs.take k).map Ser.undoState
            rw [hund, List.map_take]
          · right
            show (bs.take k).length = (r.trees.take (k - 1)).length + 1
            simp only [List.length_take]
            omega
          · intro i bi hbi
            rw [List.getElem?_take] at hbi
            by_cases hik : i < k
            · rw [if_pos hik] at hbi
              obtain ⟨g1, _⟩ := hb i bi hbi
              refine ⟨?_, ?_⟩
              · show Good sent bi ((r.trees.take (k - 1)).take i) false
                rw [List.take_take, Nat.min_eq_left (by omega)]
                exact g1
              · show Ext bi (r.s.restore b.undoState)
                rw [hrest]
                by_cases hik1 : i = k - 1
                · subst hik1
                  rw [hbk] at hbi
                  simp only [Option.some.injEq] at hbi
                  subst hbi
                  exact Ext.refl _
                · exact hpair i (k - 1) bi b (by omega) hbi hbk
            · rw [if_neg hik] at hbi; cases hbi
          · intro i j bi bj hij hbi hbj
            rw [List.getElem?_take] at hbi hbj
            by_cases hjk : j < k
            · rw [if_pos hjk] at hbj
              rw [if_pos (by omega)] at hbi
              exact hpair i j bi bj hij hbi hbj
            · rw [if_neg hjk] at hbj; cases hbj

theorem steps_inv {sent : Option Bytes} : ∀ (steps : List Step) (r r' : Run), RunInv sent r →
    (∀ st ∈ steps, StepValid st) → r.steps steps = .ok r' → RunInv sent r' := by
  intro steps
  induction steps with
  | nil =>
    intro r r' hi _ h
    simp only [Run.steps, Except.ok.injEq] at h
    subst h; exact hi
  | cons st rest ih =>
    intro r r' hi hv h
    simp only [Run.steps] at h
    cases hs : r.step st with
    | error e => simp [hs] at h
    | ok r1 =>
      simp only [hs] at h
      exact ih r1 r' (step_inv hi (hv st (by simp)) hs) (fun s hm => hv s (by simp [hm])) h

end Clvm.Incremental
