/- helper lemmas for Props/C28.lean: the pure-Python serializer produces `serSpec` -/
import ClvmModel.Py.Ser
import ClvmProofs.Lemmas.ClassicSer
set_option linter.unusedSimpArgs false

namespace Clvm.Py.SerLemmas
open Clvm Clvm.Py Clvm.Py.Ser Clvm.Serde.Classic

theorem mkByte_ok (x : Nat) (h : x < 256) : mkByte x = .ok (UInt8.ofNat x) := by
  simp [mkByte, h]

theorem mod_lt256 (x : Nat) : x % 256 < 256 := Nat.mod_lt _ (by decide)

/-- `size_blob_for_blob` writes the minimal header of the documented format -/
theorem sizeBlob_spec (n : Nat) (hn : n < 2 ^ 34) : sizeBlobForBlob n = .ok (hdrW (width n) n) := by
  unfold sizeBlobForBlob width
  simp only [Ser.thr, Gen.pySizeThresholds, List.getD_cons_zero, List.getD_cons_succ,
    Nat.shiftRight_eq_div_pow, and_ff, Nat.pow_zero, Nat.div_one]
  by_cases c1 : n < 2 ^ 6
  · have e := or_hdr 0x80 2 6 n (by decide) c1
    have b : 128 + n < 256 := by omega
    have c1' : n < 64 := c1
    simp [c1', hdrW, e, mkBytes, mkByte, b]
  by_cases c2 : n < 2 ^ 13
  · have e := or_hdr 0xc0 3 6 (n / 2 ^ 8) (by decide) (by omega)
    have b : 192 + n / 2 ^ 8 < 256 := by omega
    have c1' : ¬ n < 64 := c1
    have c2' : n < 8192 := c2
    simp [c1', c2', c1, c2, hdrW, e, mkBytes, mkByte, b, mod_lt256]
  by_cases c3 : n < 2 ^ 20
  · have e := or_hdr 0xe0 7 5 (n / 2 ^ 16) (by decide) (by omega)
    have b : 224 + n / 2 ^ 16 < 256 := by omega
    have c1' : ¬ n < 64 := c1
    have c2' : ¬ n < 8192 := c2
    have c3' : n < 1048576 := c3
    simp [c1', c2', c3', c1, c2, c3, hdrW, e, mkBytes, mkByte, b, mod_lt256]
  by_cases c4 : n < 2 ^ 27
  · have e := or_hdr 0xf0 15 4 (n / 2 ^ 24) (by decide) (by omega)
    have b : 240 + n / 2 ^ 24 < 256 := by omega
    have c1' : ¬ n < 64 := c1
    have c2' : ¬ n < 8192 := c2
    have c3' : ¬ n < 1048576 := c3
    have c4' : n < 134217728 := c4
    simp [c1', c2', c3', c4', c1, c2, c3, c4, hdrW, e, mkBytes, mkByte, b, mod_lt256]
  · have e := or_hdr 0xf8 31 3 (n / 2 ^ 32) (by decide) (by omega)
    have b : 248 + n / 2 ^ 32 < 256 := by omega
    have c1' : ¬ n < 64 := c1
    have c2' : ¬ n < 8192 := c2
    have c3' : ¬ n < 1048576 := c3
    have c4' : ¬ n < 134217728 := c4
    have c5' : n < 17179869184 := hn
    simp [c1', c2', c3', c4', c5', c1, c2, c3, c4, hn, hdrW, e, mkBytes, mkByte, b, mod_lt256]

theorem sizeBlob_too_long (n : Nat) (hn : 2 ^ 34 ≤ n) :
    sizeBlobForBlob n = .error (.valueError "blob too long") := by
  unfold sizeBlobForBlob
  simp only [Ser.thr, Gen.pySizeThresholds, List.getD_cons_zero, List.getD_cons_succ]
  have c1 : ¬ n < 64 := by omega
  have c2 : ¬ n < 8192 := by omega
  have c3 : ¬ n < 1048576 := by omega
  have c4 : ¬ n < 134217728 := by omega
  have c5 : ¬ n < 17179869184 := by omega
  simp [c1, c2, c3, c4, c5]

/-- `atom_to_byte_iterator` yields the documented encoding of the atom -/
theorem atomToBytes_spec (a : Bytes) (h : a.length < 2 ^ 34) : atomToBytes a = .ok (atomEnc a) := by
  unfold atomToBytes atomEnc atomPrefix
  match a with
  | [] => simp [width, hdrW]
  | [x] =>
    by_cases hx : x.toNat < 0x80
    · have : x.toNat ≤ Gen.pyMaxSingleByte := by simp [Gen.pyMaxSingleByte]; omega
      simp [hx, this]
    · have : ¬ x.toNat ≤ Gen.pyMaxSingleByte := by simp [Gen.pyMaxSingleByte]; omega
      simp [hx, this, sizeBlob_spec 1 (by decide), width]
  | x :: y :: t =>
    simp only [List.length_cons] at h ⊢
    rw [sizeBlob_spec _ h]
    simp

theorem atomToBytes_too_long (a : Bytes) (h : 2 ^ 34 ≤ a.length) :
    atomToBytes a = .error (.valueError "blob too long") := by
  unfold atomToBytes
  match a with
  | [] => simp at h
  | [x] => simp at h
  | x :: y :: t =>
    simp only [List.length_cons] at h ⊢
    rw [sizeBlob_too_long _ h]
    simp

theorem marker_ok : mkByte Gen.pyConsBoxMarker = .ok 0xff := by
  simp [mkByte, Gen.pyConsBoxMarker]

/-- the loop appends the serialization of its whole work stack -/
theorem iterator_spec : ∀ (n : Nat) (todo : List Tree) (acc : Bytes), Ser.stackSize todo = n →
    (∀ t ∈ todo, t.atomsBelow (2 ^ 34)) → sexpToByteIterator todo acc = .ok (acc ++ serList todo) := by
  intro n
  induction n using Nat.strongRecOn with
  | ind n ih =>
    intro todo acc hn hb
    match todo with
    | [] => simp [sexpToByteIterator, serList]
    | .atom a :: st =>
      rw [sexpToByteIterator, atomToBytes_spec a (hb _ List.mem_cons_self)]
      simp only
      rw [ih (Ser.stackSize st) (by
        subst hn; simp [Ser.stackSize, Tree.size, Tree.pairs, Tree.atoms]) st _ rfl
        (fun t ht => hb t (List.mem_cons_of_mem _ ht))]
      simp [serList, serSpec]
    | .pair l r :: st =>
      rw [sexpToByteIterator, marker_ok]
      simp only
      have hp := hb _ List.mem_cons_self
      rw [ih (Ser.stackSize (l :: r :: st)) (by
        subst hn; simp [Ser.stackSize, Tree.size, Tree.pairs, Tree.atoms]; omega) (l :: r :: st) _ rfl
        (by
          intro t ht
          rcases List.mem_cons.1 ht with e | ht
          · subst e; exact hp.1
          rcases List.mem_cons.1 ht with e | ht
          · subst e; exact hp.2
          · exact hb t (List.mem_cons_of_mem _ ht))]
      simp [serList, serSpec]

/-- a work stack containing an atom of 2^34 bytes or more makes the call raise -/
theorem iterator_too_long : ∀ (n : Nat) (todo : List Tree) (acc : Bytes), Ser.stackSize todo = n →
    (∃ t ∈ todo, ¬ t.atomsBelow (2 ^ 34)) → ∃ e, sexpToByteIterator todo acc = .error e := by
  intro n
  induction n using Nat.strongRecOn with
  | ind n ih =>
    intro todo acc hn hb
    match todo with
    | [] => obtain ⟨t, ht, _⟩ := hb; cases ht
    | .atom a :: st =>
      rw [sexpToByteIterator]
      by_cases ha : a.length < 2 ^ 34
      · rw [atomToBytes_spec a ha]
        simp only
        apply ih (Ser.stackSize st) (by subst hn; simp [Ser.stackSize, Tree.size, Tree.pairs, Tree.atoms]) st _ rfl
        obtain ⟨t, ht, hbad⟩ := hb
        rcases List.mem_cons.1 ht with e | ht
        · subst e; exact absurd ha hbad
        · exact ⟨t, ht, hbad⟩
      · rw [atomToBytes_too_long a (by omega)]
        exact ⟨_, rfl⟩
    | .pair l r :: st =>
      rw [sexpToByteIterator, marker_ok]
      simp only
      apply ih (Ser.stackSize (l :: r :: st)) (by
        subst hn; simp [Ser.stackSize, Tree.size, Tree.pairs, Tree.atoms]; omega) (l :: r :: st) _ rfl
      obtain ⟨t, ht, hbad⟩ := hb
      rcases List.mem_cons.1 ht with e | ht
      · subst e
        by_cases hl : l.atomsBelow (2 ^ 34)
        · exact ⟨r, List.mem_cons_of_mem _ List.mem_cons_self, fun hr => hbad ⟨hl, hr⟩⟩
        · exact ⟨l, List.mem_cons_self, hl⟩
      · exact ⟨t, List.mem_cons_of_mem _ (List.mem_cons_of_mem _ ht), hbad⟩

end Clvm.Py.SerLemmas
