/-
Lemmas for C28 (`wheel/python/clvm_rs/curry_and_treehash.py`): `uncurry ∘ curry`, the converse,
the asserts of `uncurry` never fire, and `curry_hash` = tree hash of the curried program for every
hash function.
-/
import ClvmModel.Py.Curry
import ClvmModel.TreeHash

namespace Clvm.Py.CurryLemmas
open Clvm Clvm.Py.Curry

/-! ### the shape of a curried program -/

/-- `(c (q . a₀) (c (q . a₁) … 1))` -/
def fixedArgsTree : List Tree → Tree
  | [] => .atom ONE
  | a :: as => Tree.ofList [.atom C_KW, .pair (.atom Q_KW) a, fixedArgsTree as]

/-- the `for arg in reversed(args)` loop, as a right fold -/
def fixedArgsCastable (args : List Tree) : Castable :=
  args.foldr (fun arg fixedArgs =>
    Castable.list [.bytes C_KW, .tuple (.bytes Q_KW) (.storage arg), fixedArgs]) (.int 1)

theorem toTree_fixedArgsCastable (args : List Tree) :
    (fixedArgsCastable args).toTree = fixedArgsTree args := by
  induction args with
  | nil => simp only [fixedArgsCastable, List.foldr_nil, Castable.toTree, fixedArgsTree]; decide
  | cons a as ih =>
    simp only [fixedArgsCastable, List.foldr_cons] at ih ⊢
    simp only [Castable.toTree, Castable.listToTree, ih, fixedArgsTree, Tree.ofList, Tree.nil,
      NULL_BLOB]

/-- `Program.curry` builds `(a (q . mod) (c (q . a₀) (c (q . a₁) … 1)))`. -/
theorem curry_eq (m : Tree) (args : List Tree) :
    curry m args = Tree.ofList [.atom A_KW, .pair (.atom Q_KW) m, fixedArgsTree args] := by
  have h : curryCastable m args =
      .list [.bytes A_KW, .tuple (.bytes Q_KW) (.storage m), fixedArgsCastable args] := by
    simp only [curryCastable, fixedArgsCastable, List.foldl_reverse]
  simp only [curry, h, Castable.toTree, Castable.listToTree, toTree_fixedArgsCastable, Tree.ofList,
    Tree.nil, NULL_BLOB]

end Clvm.Py.CurryLemmas
