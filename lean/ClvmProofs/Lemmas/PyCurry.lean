/-
Lemmas for C28 (`wheel/python/clvm_rs/curry_and_treehash.py`): `uncurry ∘ curry`, the converse,
the asserts of `uncurry` never fire, and `curry_hash` = tree hash of the curried program for every
hash function.
-/
import ClvmModel.Py.Curry
import ClvmModel.TreeHash

namespace Clvm.Py.CurryLemmas
open Clvm Clvm.Py.Curry

/-! ### the shape of a curried program -/

/-- `(c (q . a₀) (c (q . a₁) … 1))` -/
def fixedArgsTree : List Tree → Tree
  | [] => .atom ONE
  | a :: as => Tree.ofList [.atom C_KW, .pair (.atom Q_KW) a, fixedArgsTree as]

/-- the `for arg in reversed(args)` loop, as a right fold -/
def fixedArgsCastable (args : List Tree) : Castable :=
  args.foldr (fun arg fixedArgs =>
    Castable.list [.bytes C_KW, .tuple (.bytes Q_KW) (.storage arg), fixedArgs]) (.int 1)

theorem toTree_fixedArgsCastable (args : List Tree) :
    (fixedArgsCastable args).toTree = fixedArgsTree args := by
  induction args with
  | nil => simp only [fixedArgsCastable, List.foldr_nil, Castable.toTree, fixedArgsTree]; decide
  | cons a as ih =>
    simp only [fixedArgsCastable, List.foldr_cons] at ih ⊢
    simp only [Castable.toTree, Castable.listToTree, ih, fixedArgsTree, Tree.ofList, Tree.nil,
      NULL_BLOB]

/-- `Program.curry` builds `(a (q . mod) (c (q . a₀) (c (q . a₁) … 1)))`. -/
theorem curry_eq (m : Tree) (args : List Tree) :
    curry m args = Tree.ofList [.atom A_KW, .pair (.atom Q_KW) m, fixedArgsTree args] := by
  have h : curryCastable m args =
      .list [.bytes A_KW, .tuple (.bytes Q_KW) (.storage m), fixedArgsCastable args] := by
    simp only [curryCastable, fixedArgsCastable, List.foldl_reverse]
  simp only [curry, h, Castable.toTree, Castable.listToTree, toTree_fixedArgsCastable, Tree.ofList,
    Tree.nil, NULL_BLOB]


/-! ### `==` / `!=` and `at` -/

theorem progNe_eq_false (x : Option Tree) (kw : Bytes) :
    progNe x kw = false ↔ x = some (.atom kw) := by
  cases x with
  | none => simp [progNe]
  | some t => simp [progNe, progEq]

theorem progNe_some_atom (kw : Bytes) : progNe (some (.atom kw)) kw = false :=
  (progNe_eq_false _ _).mpr rfl

theorem progNe_pair (l r : Tree) (kw : Bytes) : progNe (some (.pair l r)) kw = true := by
  simp [progNe, progEq]

theorem size_pair (l r : Tree) : (Tree.pair l r).size = l.size + r.size + 1 := by
  simp only [Tree.size, Tree.pairs, Tree.atoms]; omega

theorem size_pos (t : Tree) : 0 < t.size := by
  cases t <;> simp only [Tree.size, Tree.pairs, Tree.atoms] <;> omega

/-- the three checks of `uncurry` (outer and inner) pin the shape `(kw (q . y) w)` -/
theorem shape_of_checks (c : Tree) (kw : Bytes)
    (h1 : progNe (atPos c [.f]) kw = false)
    (h2 : progNe (atPos c [.r, .f, .f]) Q_KW = false)
    (h3 : progNe (atPos c [.r, .r, .r]) NULL = false) :
    ∃ y w, c = .pair (.atom kw) (.pair (.pair (.atom Q_KW) y) (.pair w (.atom NULL))) := by
  rw [progNe_eq_false] at h1 h2 h3
  rcases c with _ | ⟨x, _ | ⟨_ | ⟨q, y⟩, _ | ⟨w, n⟩⟩⟩ <;> simp [atPos] at h1 h2 h3
  subst h1 h2 h3
  exact ⟨y, w, rfl⟩

theorem checks_of_shape (kw : Bytes) (y w : Tree) :
    let c := Tree.pair (.atom kw) (.pair (.pair (.atom Q_KW) y) (.pair w (.atom NULL)))
    progNe (atPos c [.f]) kw = false ∧ progNe (atPos c [.r, .f, .f]) Q_KW = false ∧
      progNe (atPos c [.r, .r, .r]) NULL = false ∧ atPos c [.r, .f, .r] = some y ∧
      atPos c [.r, .r, .f] = some w := by
  simp [atPos, progNe_some_atom]

/-! ### the loop -/

/-- one iteration on a well-shaped `core` -/
theorem loop_step (sexp fn y w : Tree) (fuel : Nat) (items : List Tree) :
    uncurryLoop sexp fn (fuel + 1)
      (some (.pair (.atom C_KW) (.pair (.pair (.atom Q_KW) y) (.pair w (.atom NULL))))) items =
    uncurryLoop sexp fn fuel (some w) (items ++ [y]) := by
  obtain ⟨h1, h2, h3, h4, h5⟩ := checks_of_shape C_KW y w
  rw [uncurryLoop]
  simp only [progNe_pair, if_true, h1, h2, h3, h4, h5, Bool.or_self, Bool.false_eq_true, if_false]

theorem loop_exit (sexp fn : Tree) (fuel : Nat) (items : List Tree) :
    uncurryLoop sexp fn (fuel + 1) (some (.atom ONE)) items = .ok (fn, some items) := by
  rw [uncurryLoop]
  simp only [progNe_some_atom, Bool.false_eq_true, if_false]

theorem loop_fixedArgs (sexp fn : Tree) (args : List Tree) :
    ∀ (fuel : Nat) (items : List Tree), (fixedArgsTree args).size ≤ fuel →
      uncurryLoop sexp fn fuel (some (fixedArgsTree args)) items = .ok (fn, some (items ++ args)) := by
  induction args with
  | nil =>
    intro fuel items h
    have := size_pos (fixedArgsTree [])
    obtain ⟨k, rfl⟩ : ∃ k, fuel = k + 1 := ⟨fuel - 1, by omega⟩
    simp only [fixedArgsTree, loop_exit, List.append_nil]
  | cons a as ih =>
    intro fuel items h
    simp only [fixedArgsTree, Tree.ofList, Tree.nil] at h ⊢
    obtain ⟨k, rfl⟩ : ∃ k, fuel = k + 1 := ⟨fuel - 1, by simp only [size_pair] at h; omega⟩
    have hN : ([] : Bytes) = NULL := by decide
    rw [hN, loop_step, ih k _ (by simp only [size_pair] at h; omega)]
    simp

/-- (d) `uncurry` inverts `curry` (literal version: no assert fires, no fuel runs out). -/
theorem uncurryE_curry (m : Tree) (args : List Tree) :
    uncurryE (curry m args) = .ok (m, some args) := by
  rw [curry_eq]
  have hN : ([] : Bytes) = NULL := by decide
  simp only [Tree.ofList, Tree.nil, hN]
  obtain ⟨h1, h2, h3, h4, h5⟩ := checks_of_shape A_KW m (fixedArgsTree args)
  unfold uncurryE
  simp only [h1, h2, h3, h4, h5, Bool.or_self, Bool.false_eq_true, if_false]
  rw [loop_fixedArgs _ _ _ _ _ (by simp only [size_pair]; omega)]
  simp

/-- (d) `uncurry (curry m args) = (m, some args)` -/
theorem uncurry_curry (m : Tree) (args : List Tree) : uncurry (curry m args) = (m, some args) := by
  simp only [uncurry, uncurryE_curry]

/-! ### the asserts of `uncurry` are unreachable -/

theorem loop_ok (sexp fn : Tree) :
    ∀ (fuel : Nat) (c : Tree) (items : List Tree), c.size ≤ fuel →
      ∃ r, uncurryLoop sexp fn fuel (some c) items = .ok r := by
  intro fuel
  induction fuel with
  | zero => intro c _ h; have := size_pos c; omega
  | succ k ih =>
    intro c items h
    rw [uncurryLoop]
    by_cases hne : progNe (some c) ONE = true
    · simp only [hne, if_true]
      by_cases h1 : progNe (atPos c [.f]) C_KW = true
      · simp only [h1, Bool.true_or, if_true]; exact ⟨_, rfl⟩
      by_cases h2 : progNe (atPos c [.r, .f, .f]) Q_KW = true
      · simp only [h2, Bool.true_or, Bool.or_true, if_true]; exact ⟨_, rfl⟩
      by_cases h3 : progNe (atPos c [.r, .r, .r]) NULL = true
      · simp only [h3, Bool.or_true, if_true]; exact ⟨_, rfl⟩
      simp only [Bool.not_eq_true] at h1 h2 h3
      obtain ⟨y, w, rfl⟩ := shape_of_checks c C_KW h1 h2 h3
      obtain ⟨-, -, -, h4, h5⟩ := checks_of_shape C_KW y w
      simp only [h1, h2, h3, h4, h5, Bool.or_self, Bool.false_eq_true, if_false]
      exact ih w _ (by simp only [size_pair] at h; omega)
    · simp only [hne]; exact ⟨_, rfl⟩

theorem uncurryE_ok (p : Tree) : ∃ r, uncurryE p = .ok r := by
  unfold uncurryE
  by_cases h1 : progNe (atPos p [.f]) A_KW = true
  · simp only [h1, Bool.true_or, if_true]; exact ⟨_, rfl⟩
  by_cases h2 : progNe (atPos p [.r, .f, .f]) Q_KW = true
  · simp only [h2, Bool.true_or, Bool.or_true, if_true]; exact ⟨_, rfl⟩
  by_cases h3 : progNe (atPos p [.r, .r, .r]) NULL = true
  · simp only [h3, Bool.or_true, if_true]; exact ⟨_, rfl⟩
  simp only [Bool.not_eq_true] at h1 h2 h3
  obtain ⟨y, w, rfl⟩ := shape_of_checks p A_KW h1 h2 h3
  obtain ⟨-, -, -, h4, h5⟩ := checks_of_shape A_KW y w
  simp only [h1, h2, h3, h4, h5, Bool.or_self, Bool.false_eq_true, if_false]
  exact loop_ok _ _ _ w _ (by simp only [size_pair]; omega)

/-- No `assert` of `CurryTreehasher.uncurry` can fire and the loop terminates within the fuel:
the literal transcription always returns normally, with the value of the total `uncurry`. -/
theorem uncurry_no_assert (p : Tree) : uncurryE p = .ok (uncurry p) := by
  obtain ⟨r, hr⟩ := uncurryE_ok p
  simp only [uncurry, hr]


/-! ### converse: only curried programs uncurry -/

theorem loop_some (sexp fn : Tree) :
    ∀ (fuel : Nat) (c : Tree) (items : List Tree) (m : Tree) (args : List Tree),
      uncurryLoop sexp fn fuel (some c) items = .ok (m, some args) →
      m = fn ∧ ∃ rest, args = items ++ rest ∧ c = fixedArgsTree rest := by
  intro fuel
  induction fuel with
  | zero => intro c items m args h; simp [uncurryLoop] at h
  | succ k ih =>
    intro c items m args h
    rw [uncurryLoop] at h
    by_cases hne : progNe (some c) ONE = true
    · simp only [hne, if_true] at h
      by_cases h1 : progNe (atPos c [.f]) C_KW = true
      · simp [h1] at h
      by_cases h2 : progNe (atPos c [.r, .f, .f]) Q_KW = true
      · simp [h2] at h
      by_cases h3 : progNe (atPos c [.r, .r, .r]) NULL = true
      · simp [h3] at h
      simp only [Bool.not_eq_true] at h1 h2 h3
      obtain ⟨y, w, rfl⟩ := shape_of_checks c C_KW h1 h2 h3
      obtain ⟨-, -, -, h4, h5⟩ := checks_of_shape C_KW y w
      simp only [h1, h2, h3, h4, h5, Bool.or_self, Bool.false_eq_true, if_false] at h
      obtain ⟨hm, rest, hargs, hw⟩ := ih w _ m args h
      refine ⟨hm, y :: rest, by simp [hargs], ?_⟩
      have hN : NULL = ([] : Bytes) := by decide
      simp only [fixedArgsTree, Tree.ofList, Tree.nil, hw, hN]
    · simp only [hne] at h
      simp only [Bool.not_eq_true] at hne
      have hc := (progNe_eq_false _ _).mp hne
      simp only [Option.some.injEq] at hc
      simp only [Bool.false_eq_true, if_false, Except.ok.injEq, Prod.mk.injEq,
        Option.some.injEq] at h
      exact ⟨h.1.symm, [], by simp [h.2], by simp [hc, fixedArgsTree]⟩

/-- (e) If `uncurry` reports a curried program then the input *is* `curry m args`
(structural `==`). -/
theorem uncurry_spec (p m : Tree) (args : List Tree) (h : uncurry p = (m, some args)) :
    p = curry m args := by
  have hE := uncurry_no_assert p
  rw [h] at hE
  unfold uncurryE at hE
  by_cases h1 : progNe (atPos p [.f]) A_KW = true
  · simp [h1] at hE
  by_cases h2 : progNe (atPos p [.r, .f, .f]) Q_KW = true
  · simp [h2] at hE
  by_cases h3 : progNe (atPos p [.r, .r, .r]) NULL = true
  · simp [h3] at hE
  simp only [Bool.not_eq_true] at h1 h2 h3
  obtain ⟨y, w, rfl⟩ := shape_of_checks p A_KW h1 h2 h3
  obtain ⟨-, -, -, h4, h5⟩ := checks_of_shape A_KW y w
  simp only [h1, h2, h3, h4, h5, Bool.or_self, Bool.false_eq_true, if_false] at hE
  obtain ⟨hm, rest, hargs, hw⟩ := loop_some _ _ _ _ _ _ _ hE
  simp only [List.nil_append] at hargs
  have hN : NULL = ([] : Bytes) := by decide
  rw [curry_eq, hm, hargs, hw]
  simp only [Tree.ofList, Tree.nil, hN]

/-- `uncurry` recognises exactly the curried programs. -/
theorem uncurry_eq_some_iff (p m : Tree) (args : List Tree) :
    uncurry p = (m, some args) ↔ p = curry m args :=
  ⟨uncurry_spec p m args, fun h => h ▸ uncurry_curry m args⟩

/-- inside the loop a failure returns `(sexp, None)` -/
theorem loop_none (sexp fn : Tree) :
    ∀ (fuel : Nat) (c : Option Tree) (items : List Tree) (m : Tree),
      uncurryLoop sexp fn fuel c items = .ok (m, none) → m = sexp := by
  intro fuel
  induction fuel with
  | zero => intro c items m h; simp [uncurryLoop] at h
  | succ k ih =>
    intro c items m h
    rw [uncurryLoop.eq_def] at h
    simp only [] at h
    split at h
    · split at h
      · simp at h
      · split at h
        · simp only [Except.ok.injEq, Prod.mk.injEq, and_true] at h; exact h.symm
        · split at h
          · simp at h
          · exact ih _ _ _ h
    · simp at h

/-- … and returns its input unchanged otherwise. -/
theorem uncurry_none (p m : Tree) (h : uncurry p = (m, none)) : m = p := by
  have hE := uncurry_no_assert p
  rw [h] at hE
  unfold uncurryE at hE
  split at hE
  · simp only [Except.ok.injEq, Prod.mk.injEq, and_true] at hE
    exact hE.symm
  · split at hE
    · simp at hE
    · exact loop_none _ _ _ _ _ _ hE

/-! ### `curry_hash` = tree hash of the curried program, for every hash function -/

section
variable (shaAtom : Bytes → Bytes) (shaPair : Bytes → Bytes → Bytes)

theorem treeHashWith_fixedArgs (args : List Tree) :
    treeHashWith shaAtom shaPair (fixedArgsTree args) =
      curriedValuesTreeHash shaAtom shaPair (args.map (treeHashWith shaAtom shaPair)) := by
  induction args with
  | nil => rfl
  | cons a as ih =>
    have hN : ([] : Bytes) = NULL := by decide
    simp only [fixedArgsTree, Tree.ofList, Tree.nil, treeHashWith, List.map_cons,
      curriedValuesTreeHash, ih, cKwTreehash, qKwTreehash, nullTreehash, hN]

theorem checkHashedArguments_ok (hs : List Bytes) (h : ∀ x ∈ hs, x.length = 32) :
    checkHashedArguments hs = .ok () := by
  induction hs with
  | nil => rfl
  | cons x xs ih =>
    have hx := h x (by simp)
    simp only [checkHashedArguments, hx, bne_self_eq_false, Bool.false_eq_true, if_false]
    exact ih (fun y hy => h y (by simp [hy]))

theorem checkHashedArguments_error (hs : List Bytes) (h : ∃ x ∈ hs, x.length ≠ 32) :
    checkHashedArguments hs = .error .ValueError := by
  induction hs with
  | nil => simp at h
  | cons x xs ih =>
    by_cases hx : x.length = 32
    · simp only [checkHashedArguments, hx, bne_self_eq_false, Bool.false_eq_true, if_false]
      apply ih
      obtain ⟨y, hy, hy32⟩ := h
      rcases List.mem_cons.mp hy with rfl | hy
      · exact absurd hx hy32
      · exact ⟨y, hy, hy32⟩
    · simp [checkHashedArguments, hx]

/-- `curry_and_treehash` on the hash of `(q . mod)` and the hashes of the arguments is the tree
hash of the curried program. -/
theorem curryAndTreehash_eq (m : Tree) (args : List Tree)
    (h32 : ∀ a ∈ args, (treeHashWith shaAtom shaPair a).length = 32) :
    curryAndTreehash shaAtom shaPair
        (treeHashWith shaAtom shaPair (.pair (.atom Q_KW) m))
        (args.map (treeHashWith shaAtom shaPair)) =
      .ok (treeHashWith shaAtom shaPair (curry m args)) := by
  have hchk := checkHashedArguments_ok (args.map (treeHashWith shaAtom shaPair))
    (by intro x hx; obtain ⟨a, ha, rfl⟩ := List.mem_map.mp hx; exact h32 a ha)
  have hN : ([] : Bytes) = NULL := by decide
  simp only [curryAndTreehash, hchk, curry_eq, Tree.ofList, Tree.nil, treeHashWith,
    treeHashWith_fixedArgs, aKwTreehash, nullTreehash, hN]

/-- (f) `Program.curry_hash(*[a.tree_hash() for a in args])` is
`Program.curry(*args).tree_hash()` — for EVERY pair of hash functions
`shatree_atom` / `shatree_pair` (whose outputs on the arguments are 32 bytes long: the
`len(arg) != 32` check). -/
theorem curryHash_eq_treeHash (m : Tree) (args : List Tree)
    (h32 : ∀ a ∈ args, (treeHashWith shaAtom shaPair a).length = 32) :
    curryHash shaAtom shaPair m (args.map (treeHashWith shaAtom shaPair)) =
      .ok (treeHashWith shaAtom shaPair (curry m args)) := by
  have := curryAndTreehash_eq shaAtom shaPair m args h32
  simpa only [curryHash, calculateHashOfQuotedModHash, qKwTreehash, treeHashWith] using this

/-- the `ValueError` branch: some argument hash is not 32 bytes long -/
theorem curryHash_valueError (m : Tree) (hs : List Bytes) (h : ∃ x ∈ hs, x.length ≠ 32) :
    curryHash shaAtom shaPair m hs = .error .ValueError := by
  simp only [curryHash, curryAndTreehash, checkHashedArguments_error hs h]

end

/-! ### the real hash -/

theorem sha256_length (msg : Bytes) : (Clvm.Hash.sha256 msg).length = 32 := by
  simp [Clvm.Hash.sha256, Clvm.Hash.Sha256.digest, Clvm.Hash.Sha256.be32]

theorem treeHash_length (t : Tree) : (TreeHash.treeHash t).length = 32 := by
  cases t <;> simp only [TreeHash.treeHash, sha256_length]

/-- the Python `shatree_atom` / `shatree_pair` are the Rust `tree_hash_atom` / `tree_hash_pair` -/
theorem shatree_eq : TreeHash.shatreeAtom = TreeHash.treeHashAtom ∧
    TreeHash.shatreePair = TreeHash.treeHashPair := ⟨rfl, rfl⟩

/-- the generic tree hash instantiated with the real functions is the specification `treeHash` -/
theorem treeHashWith_real :
    treeHashWith TreeHash.treeHashAtom TreeHash.treeHashPair = TreeHash.treeHash := by
  funext t
  induction t with
  | atom b => simp [treeHashWith, TreeHash.treeHash, TreeHash.treeHashAtom]
  | pair l r ihl ihr =>
    simp [treeHashWith, TreeHash.treeHash, TreeHash.treeHashPair, ihl, ihr]

theorem treeHashWith_py :
    treeHashWith TreeHash.shatreeAtom TreeHash.shatreePair = TreeHash.treeHash :=
  treeHashWith_real

/-- (f), real hash, no hypothesis: `m.curry_hash(*[a.tree_hash() for a in args])
== m.curry(*args).tree_hash()`. -/
theorem curryHash_real (m : Tree) (args : List Tree) :
    curryHash TreeHash.treeHashAtom TreeHash.treeHashPair m (args.map TreeHash.treeHash) =
      .ok (TreeHash.treeHash (curry m args)) := by
  have := curryHash_eq_treeHash TreeHash.treeHashAtom TreeHash.treeHashPair m args
    (by intro a _; rw [treeHashWith_real]; exact treeHash_length a)
  rwa [treeHashWith_real] at this

theorem curryHash_py (m : Tree) (args : List Tree) :
    curryHash TreeHash.shatreeAtom TreeHash.shatreePair m (args.map TreeHash.treeHash) =
      .ok (TreeHash.treeHash (curry m args)) :=
  curryHash_real m args

/-! ### the definitions compute -/

example : A_KW = [2] ∧ Q_KW = [1] ∧ C_KW = [4] ∧ ONE = [1] ∧ NULL = [] := by decide

/-- `(a (q . 0x63) (c (q . 0x0a) (c (q . (0x0b . 0x0c)) 1)))` -/
example : curry (.atom [0x63]) [.atom [0x0a], .pair (.atom [0x0b]) (.atom [0x0c])] =
    Tree.ofList [.atom [2], .pair (.atom [1]) (.atom [0x63]),
      Tree.ofList [.atom [4], .pair (.atom [1]) (.atom [0x0a]),
        Tree.ofList [.atom [4], .pair (.atom [1]) (.pair (.atom [0x0b]) (.atom [0x0c])),
          .atom [1]]]] := by decide

example : curry (.atom [0x63]) [] =
    Tree.ofList [.atom [2], .pair (.atom [1]) (.atom [0x63]), .atom [1]] := by decide

example : uncurry (curry (.atom [0x63]) [.atom [0x0a], .pair (.atom [0x0b]) (.atom [0x0c])]) =
    (.atom [0x63], some [.atom [0x0a], .pair (.atom [0x0b]) (.atom [0x0c])]) := by decide

/-- not curried: an atom, a plain list, and a curry whose tail is not `1` -/
example : uncurry (.atom [0x63]) = (.atom [0x63], none) := by decide
example : uncurry (Tree.ofList [.atom [2], .atom [3], .atom [4]]) =
    (Tree.ofList [.atom [2], .atom [3], .atom [4]], none) := by decide
example : uncurry (Tree.ofList [.atom [2], .pair (.atom [1]) (.atom [0x63]), .atom [5]]) =
    (Tree.ofList [.atom [2], .pair (.atom [1]) (.atom [0x63]), .atom [5]], none) := by decide
/-- a curry of zero arguments is `(mod, [])`, not `None` -/
example : uncurry (Tree.ofList [.atom [2], .pair (.atom [1]) (.atom [0x63]), .atom [1]]) =
    (.atom [0x63], some []) := by decide

example : atPos (Tree.ofList [.atom [10], .atom [20]]) [.r, .f] = some (.atom [20]) := by decide
example : atPos (.atom [10]) [.r, .r] = none := by decide
example : atPos (.atom [10]) [] = some (.atom [10]) := by decide

end Clvm.Py.CurryLemmas
