/-
Lemmas for C28 (`wheel/python/clvm_rs/casts.py`): Python's `int_to_bytes` is the canonical
(minimal two's complement) integer encoding of the Rust allocator (`Clvm.Alloc.encodeInt`) and
`int_from_bytes` is `number_from_u8` (`Clvm.Alloc.decodeInt`).

Route: `decodeInt (intToBytes v) = v` (the `to_bytes` call fits, the stripping loop preserves the
value) and `canonical (intToBytes v)` (what the stripping loop leaves), then
`Clvm.Alloc.encodeInt_decodeInt` (a canonical string is the encoding of its value).
-/
import ClvmModel.Py.Casts
import ClvmProofs.Lemmas.AllocInt

namespace Clvm.Py.CastsLemmas
open Clvm Clvm.Alloc Clvm.Py.Casts

/-! ### `int_from_bytes` -/

theorem fromBytesUnsigned_eq_beNat (b : Bytes) : fromBytesUnsigned b = beNat b := rfl

theorem topBit (x : UInt8) : (x.toNat &&& 0x80 != 0) = decide (128 ≤ x.toNat) := by
  have h := and128 x
  by_cases hx : x.toNat < 128
  · simp [h, hx]
  · simp [h, hx]; omega

theorem two_pow_8 (n : Nat) : (2 : Int) ^ (8 * n) = (256 : Int) ^ n := by
  rw [Int.pow_mul]; rfl

theorem fromBytesSigned_eq_decodeInt (b : Bytes) : fromBytesSigned b = decodeInt b := by
  cases b with
  | nil => rfl
  | cons x t =>
    simp only [fromBytesSigned, decodeInt, topBit, two_pow_8, fromBytesUnsigned_eq_beNat,
      decide_eq_true_eq]

/-- (c) Python's `int_from_bytes` is the allocator's `number_from_u8`. -/
theorem intFromBytes_eq_decodeInt (b : Bytes) : intFromBytes b = decodeInt b := by
  cases b with
  | nil => rfl
  | cons x t =>
    have : intFromBytes (x :: t) = fromBytesSigned (x :: t) := by
      simp [intFromBytes]
    rw [this, fromBytesSigned_eq_decodeInt]

/-! ### `bit_length`, `to_bytes` -/

theorem natAbs_lt_two_pow_bitLength (v : Int) : v.natAbs < 2 ^ bitLength v := by
  unfold bitLength
  split
  · omega
  · exact Nat.lt_log2_self

/-- `bit_length` is the least such exponent (not needed below; recorded as a sanity check of the
definition). -/
theorem two_pow_bitLength_le (v : Int) (hv : v ≠ 0) : 2 ^ (bitLength v - 1) ≤ v.natAbs := by
  unfold bitLength
  have : v.natAbs ≠ 0 := by omega
  simp only [this, if_false, Nat.add_sub_cancel]
  exact Nat.log2_self_le this

theorem pow256_eq (n : Nat) : 256 ^ n = 2 ^ (8 * n) := by
  rw [Nat.pow_mul]

theorem fits_byteCount (v : Int) : FitsIn (byteCount v) v := by
  have h1 := natAbs_lt_two_pow_bitLength v
  have h2 : bitLength v + 1 ≤ 8 * byteCount v := by unfold byteCount; omega
  have h3 : 2 ^ (bitLength v + 1) ≤ 2 ^ (8 * byteCount v) := Nat.pow_le_pow_right (by omega) h2
  rw [Nat.pow_succ, ← pow256_eq] at h3
  have hc := ipow_cast (byteCount v)
  unfold FitsIn
  generalize (256 : Int) ^ byteCount v = Q at *
  generalize 256 ^ byteCount v = P at *
  omega

/-- The `to_bytes` call inside `int_to_bytes` never raises `OverflowError`. -/
theorem intToBytes_no_overflow (v : Int) : fitsSigned (byteCount v) v = true := by
  have := fits_byteCount v
  unfold FitsIn at this
  simp [fitsSigned, this]

theorem toBytesUnsigned_eq_toBE (k m : Nat) : toBytesUnsigned k m = toBE k m := by
  induction k with
  | zero => rfl
  | succ k ih => simp [toBytesUnsigned, toBE, ih]

theorem toBytesSigned_length (n : Nat) (v : Int) : (toBytesSigned n v).length = n := by
  simp [toBytesSigned, toBytesUnsigned_eq_toBE, toBE_length]

/-- `to_bytes(n, "big", signed=True)` followed by `from_bytes(…, signed=True)` is the identity on
values that fit. -/
theorem decodeInt_toBytesSigned (n : Nat) (v : Int) (h : FitsIn n v) :
    decodeInt (toBytesSigned n v) = v := by
  unfold toBytesSigned
  rw [toBytesUnsigned_eq_toBE]
  apply decodeInt_toBE _ _ _ _ h
  have hp := ipow_pos n
  have : ((v % (256 : Int) ^ n).toNat : Int) = v % (256 : Int) ^ n :=
    Int.toNat_of_nonneg (Int.emod_nonneg _ (by omega))
  rw [this, Int.emod_emod_of_dvd _ (Int.dvd_refl _)]

/-! ### the stripping loop -/

theorem decodeInt_strip_step (x y : UInt8) (t : Bytes)
    (h : x.toNat = if 128 ≤ y.toNat then 255 else 0) :
    decodeInt (x :: y :: t) = decodeInt (y :: t) := by
  have hB : beNat (x :: y :: t) = x.toNat * 256 ^ (y :: t).length + beNat (y :: t) :=
    beNat_cons x (y :: t)
  have hQ : (256 : Int) ^ (x :: y :: t).length = 256 * (256 : Int) ^ (y :: t).length := by
    rw [List.length_cons, Int.pow_succ]; omega
  have hc := ipow_cast (y :: t).length
  unfold decodeInt
  simp only []
  rw [hQ, hB, ← hc]
  generalize beNat (y :: t) = B
  generalize 256 ^ (y :: t).length = P
  by_cases hy : 128 ≤ y.toNat
  · simp only [hy, if_true] at h ⊢
    rw [h]
    rw [if_pos (by decide : 128 ≤ 255)]
    omega
  · simp only [hy, if_false] at h ⊢
    rw [h]
    rw [if_neg (by decide : ¬ 128 ≤ 0)]
    omega

theorem stripCond (x y : UInt8) :
    (x.toNat == (if y.toNat &&& 0x80 != 0 then 0xFF else 0)) = true ↔
      x.toNat = if 128 ≤ y.toNat then 255 else 0 := by
  rw [topBit]
  by_cases hy : 128 ≤ y.toNat <;> simp [hy]

/-- the loop does not change the value -/
theorem decodeInt_stripLoop (r : Bytes) : decodeInt (stripLoop r) = decodeInt r := by
  fun_induction stripLoop r with
  | case1 x y t h ih => rw [ih, decodeInt_strip_step x y t ((stripCond x y).mp h)]
  | case2 x y t h => rfl
  | case3 r _ => rfl

theorem stripLoop_ne_nil (r : Bytes) (h : r ≠ []) : stripLoop r ≠ [] := by
  fun_induction stripLoop r with
  | case1 x y t _ ih => exact ih (by simp)
  | case2 x y t _ => simp
  | case3 r _ => exact h

/-- what the loop leaves is canonical, unless it is the single byte `00` (value 0) -/
theorem canonical_stripLoop (r : Bytes) (h0 : decodeInt r ≠ 0) : canonical (stripLoop r) = true := by
  fun_induction stripLoop r with
  | case1 x y t h ih =>
    exact ih (by rwa [decodeInt_strip_step x y t ((stripCond x y).mp h)] at h0)
  | case2 x y t h =>
    have hc : ¬ (x.toNat = if 128 ≤ y.toNat then 255 else 0) :=
      fun hh => h ((stripCond x y).mpr hh)
    have hx := u8_lt x
    simp only [canonical]
    by_cases hy : 128 ≤ y.toNat
    · simp only [hy, if_true] at hc
      clear h0
      simp
      omega
    · simp only [hy, if_false] at hc
      clear h0
      simp
      omega
  | case3 r hr =>
    match r, hr with
    | [], _ => rfl
    | [x], _ =>
      simp only [canonical]
      simp only [decodeInt, beNat, List.foldl_cons, List.foldl_nil, List.length_singleton] at h0
      have hx := u8_lt x
      simp
      intro hx0
      rw [hx0] at h0
      simp at h0
    | x :: y :: t, hr => exact absurd rfl (hr x y t)

/-! ### main theorems -/

theorem decodeInt_intToBytes (v : Int) : decodeInt (intToBytes v) = v := by
  unfold intToBytes
  by_cases hv : v = 0
  · subst hv; rfl
  · simp only [beq_iff_eq, hv, if_false]
    rw [decodeInt_stripLoop, decodeInt_toBytesSigned _ _ (fits_byteCount v)]

theorem canonical_intToBytes (v : Int) : canonical (intToBytes v) = true := by
  unfold intToBytes
  by_cases hv : v = 0
  · subst hv; rfl
  · simp only [beq_iff_eq, hv, if_false]
    apply canonical_stripLoop
    rwa [decodeInt_toBytesSigned _ _ (fits_byteCount v)]

/-- (a) Python's `int_to_bytes` is the Rust allocator's canonical (minimal two's complement,
big-endian, `0 ↦ ""`) integer encoding. -/
theorem intToBytes_eq_encodeInt (v : Int) : intToBytes v = encodeInt v := by
  have h := encodeInt_decodeInt (intToBytes v) (canonical_intToBytes v)
  rw [decodeInt_intToBytes] at h
  exact h.symm

/-- (b) round trip -/
theorem intFromBytes_intToBytes (v : Int) : intFromBytes (intToBytes v) = v := by
  rw [intFromBytes_eq_decodeInt, decodeInt_intToBytes]

/-- the other round trip holds exactly on canonical strings -/
theorem intToBytes_intFromBytes (b : Bytes) (h : canonical b = true) :
    intToBytes (intFromBytes b) = b := by
  rw [intToBytes_eq_encodeInt, intFromBytes_eq_decodeInt, encodeInt_decodeInt b h]

/-- `int_to_bytes` never returns a longer string than the one a value was read from -/
theorem intToBytes_minimal (b : Bytes) : (intToBytes (intFromBytes b)).length ≤ b.length := by
  rw [intToBytes_eq_encodeInt, intFromBytes_eq_decodeInt]; exact encodeInt_minimal b

/-! ### the definitions compute -/

example : intToBytes 0 = [] := by decide
example : intToBytes 127 = [0x7f] := by decide
example : intToBytes 128 = [0, 0x80] := by decide
example : intToBytes (-128) = [0x80] := by decide
example : intToBytes (-129) = [0xff, 0x7f] := by decide
example : intToBytes 255 = [0, 0xff] := by decide
example : intToBytes 256 = [1, 0] := by decide
example : intToBytes (-1) = [0xff] := by decide
example : intToBytes (-256) = [0xff, 0] := by decide
example : intToBytes 32768 = [0, 0x80, 0] := by decide
example : intFromBytes [] = 0 := by decide
example : intFromBytes [0xff] = -1 := by decide
example : intFromBytes [0, 0x80] = 128 := by decide
example : intFromBytes [0xff, 0x7f] = -129 := by decide
example : intFromBytes [0, 0, 0x80] = 128 := by decide
example : bitLength 0 = 0 ∧ bitLength 1 = 1 ∧ bitLength (-1) = 1 ∧ bitLength 255 = 8 ∧
    bitLength 256 = 9 ∧ bitLength (-256) = 9 := by decide
example : fitsSigned 1 127 = true ∧ fitsSigned 1 128 = false ∧ fitsSigned 1 (-128) = true ∧
    fitsSigned 1 (-129) = false ∧ fitsSigned 0 0 = true ∧ fitsSigned 0 1 = false := by decide

end Clvm.Py.CastsLemmas
