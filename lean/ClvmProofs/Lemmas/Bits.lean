/-
Bit-operation ↔ arithmetic conversions used by all codec proofs.
-/
import ClvmModel.Basic

namespace Clvm

theorem or_eq_add (a b i : Nat) (h : b < 2 ^ i) : (a * 2 ^ i ||| b) = a * 2 ^ i + b := by
  rw [← Nat.shiftLeft_eq, ← Nat.shiftLeft_add_eq_or_of_lt h]

theorem shl8_or (u b : Nat) (hb : b < 256) : (u <<< 8 ||| b) = u * 256 + b := by
  rw [Nat.shiftLeft_eq]; exact or_eq_add u b 8 (by simpa using hb)

theorem toNat_ofNat_lt (n : Nat) (h : n < 256) : (UInt8.ofNat n).toNat = n := by
  simp; omega

theorem u8_lt (b : UInt8) : b.toNat < 256 := UInt8.toNat_lt b

theorem u8_eq_of_toNat (n : Nat) (b : UInt8) (h : n = b.toNat) : UInt8.ofNat n = b := by
  subst h; simp

end Clvm

theorem Clvm.int_pow_mono (a b : Nat) (h : a ≤ b) : (2:Int)^a ≤ (2:Int)^b := by
  have := Nat.pow_le_pow_right (show 0 < 2 by omega) h
  exact_mod_cast this
