/-
serde_2026: `serialize_2026` is total on well-formed sources.

Whenever `intern_tree` returns a table, every later stage of the serializer succeeds: no slice index,
`HashMap` index or `write_varint` panic, and the work loop of `emit_instructions` ends within the
model's fuel.  So `serialize_2026` returns a blob, or one of `intern_tree`'s allocator-limit errors.
-/
import ClvmProofs.Lemmas.Serde2026LenSer

namespace Clvm.Serde2026
open Clvm Clvm.Intern Clvm.Varint

/-! ### `SerializerState::new` -/

theorem nodeToIndex_valid {t : InternedTree} {n : INode} (h : n.Valid t.atoms.length t.pairs.length) :
    nodeToIndex t n = .ok (ix n) := by
  unfold nodeToIndex
  cases n with
  | atom k => have hk : k < t.atoms.length := h; simp only [hk, if_true]; rfl
  | pair k => have hk : k < t.pairs.length := h; simp only [hk, if_true]; rfl

theorem bump_ok {counts : List Nat} {i : Nat} (h : i < counts.length) :
    ∃ c', bump counts i = .ok c' ∧ c'.length = counts.length := by
  unfold bump
  rw [if_pos h]
  exact ⟨_, rfl, by simp⟩

theorem countChildren_ok {t : InternedTree} : ∀ (nodes : List INode) (counts : List Nat),
    (∀ n ∈ nodes, n.Valid t.atoms.length t.pairs.length) → counts.length = t.atoms.length →
    ∃ c', countChildren t nodes counts = .ok c' ∧ c'.length = t.atoms.length := by
  intro nodes
  induction nodes with
  | nil => intro counts _ hl; exact ⟨counts, rfl, hl⟩
  | cons n tl ih =>
    intro counts hv hl
    have hn := hv n (by simp)
    have htl : ∀ n ∈ tl, n.Valid t.atoms.length t.pairs.length := fun n hn => hv n (by simp [hn])
    rw [countChildren, nodeToIndex_valid hn]
    simp only
    cases n with
    | atom k =>
      have hk : k < t.atoms.length := hn
      have h0 : ix (.atom k) ≥ 0 := by simp [ix]
      have e : (ix (.atom k)).toNat = k := by simp [ix]
      rw [if_pos h0, e]
      obtain ⟨c', hc, hcl⟩ := bump_ok (counts := counts) (i := k) (by omega)
      rw [hc]
      simp only
      exact ih c' htl (by omega)
    | pair k =>
      have h0 : ¬ ix (.pair k) ≥ 0 := by simp only [ix]; omega
      rw [if_neg h0]
      exact ih counts htl hl

theorem countPairs_ok {t : InternedTree} : ∀ (ps : List (INode × INode)) (counts : List Nat),
    (∀ p ∈ ps, p.1.Valid t.atoms.length t.pairs.length ∧ p.2.Valid t.atoms.length t.pairs.length) →
    counts.length = t.atoms.length →
    ∃ c', countPairs t ps counts = .ok c' ∧ c'.length = t.atoms.length := by
  intro ps
  induction ps with
  | nil => intro counts _ hl; exact ⟨counts, rfl, hl⟩
  | cons p tl ih =>
    intro counts hv hl
    obtain ⟨l, r⟩ := p
    obtain ⟨h1, h2⟩ := hv (l, r) (by simp)
    rw [countPairs]
    obtain ⟨c', hc, hcl⟩ := countChildren_ok (t := t) [l, r] counts
      (by intro n hn; simp at hn; rcases hn with rfl | rfl; exact h1; exact h2) hl
    rw [hc]
    simp only
    exact ih c' (fun p hp => hv p (by simp [hp])) hcl

theorem atomRefCounts_ok {t : InternedTree}
    (hroot : t.root.Valid t.atoms.length t.pairs.length)
    (hp : ∀ p ∈ t.pairs, p.1.Valid t.atoms.length t.pairs.length ∧ p.2.Valid t.atoms.length t.pairs.length) :
    ∃ rc, atomRefCounts t (ix t.root) = .ok rc ∧ rc.length = t.atoms.length := by
  unfold atomRefCounts
  simp only
  cases hr : t.root with
  | atom k =>
    rw [hr] at hroot
    have hk : k < t.atoms.length := hroot
    have h0 : ix (.atom k) ≥ 0 := by simp [ix]
    have e : (ix (.atom k)).toNat = k := by simp [ix]
    rw [if_pos h0, e]
    obtain ⟨c', hc, hcl⟩ := bump_ok (counts := List.replicate t.atoms.length 0) (i := k) (by simp; exact hk)
    rw [hc]
    simp only
    exact countPairs_ok t.pairs c' hp (by rw [hcl]; simp)
  | pair k =>
    have h0 : ¬ ix (.pair k) ≥ 0 := by simp only [ix]; omega
    rw [if_neg h0]
    simp only
    exact countPairs_ok t.pairs _ hp (by simp)

theorem sortAtoms_ok {t : InternedTree} {rc : List Nat} (h : rc.length = t.atoms.length) :
    ∃ r, sortAtoms t rc = .ok r := by
  unfold sortAtoms sortKeys
  rw [if_neg (by omega)]
  exact ⟨_, rfl⟩

theorem pairIndices_total {t : InternedTree} : ∀ (ps : List (INode × INode)),
    (∀ p ∈ ps, p.1.Valid t.atoms.length t.pairs.length ∧ p.2.Valid t.atoms.length t.pairs.length) →
    ∃ res, pairIndices t ps = .ok res := by
  intro ps
  induction ps with
  | nil => intro _; exact ⟨[], rfl⟩
  | cons p tl ih =>
    intro hv
    obtain ⟨l, r⟩ := p
    obtain ⟨h1, h2⟩ := hv (l, r) (by simp)
    obtain ⟨res, hres⟩ := ih (fun p hp => hv p (by simp [hp]))
    rw [pairIndices, nodeToIndex_valid h1]
    simp only
    rw [nodeToIndex_valid h2]
    simp only
    rw [hres]
    exact ⟨_, rfl⟩

theorem ofInterned_total {it : InternedTree}
    (ha : it.atoms.length ≤ maxIndex) (hpl : it.pairs.length ≤ maxIndex)
    (hroot : it.root.Valid it.atoms.length it.pairs.length)
    (hp : ∀ p ∈ it.pairs, p.1.Valid it.atoms.length it.pairs.length ∧ p.2.Valid it.atoms.length it.pairs.length) :
    ∃ st, SerializerState.ofInterned it = .ok st := by
  unfold SerializerState.ofInterned
  have hc : (decide (it.atoms.length > maxIndex) || decide (it.pairs.length > maxIndex)) = false := by
    simp; omega
  rw [hc]
  simp only [Bool.false_eq_true, if_false]
  rw [nodeToIndex_valid hroot]
  simp only
  obtain ⟨rc, hrc, hrcl⟩ := atomRefCounts_ok hroot hp
  rw [hrc]
  simp only
  obtain ⟨⟨a, b, c⟩, hs⟩ := sortAtoms_ok (t := it) hrcl
  rw [hs]
  simp only
  obtain ⟨ps, hps⟩ := pairIndices_total (t := it) it.pairs hp
  rw [hps]
  exact ⟨_, rfl⟩

/-! ### `write_atom_table` -/

theorem groupAtoms_ok (A : List Bytes) : ∀ (idxs : List Nat) (acc : List (Nat × List Bytes)),
    (∀ k ∈ idxs, k < A.length) → ∃ res, groupAtoms A idxs acc = .ok res := by
  intro idxs
  induction idxs with
  | nil => intro acc _; exact ⟨acc, rfl⟩
  | cons k tl ih =>
    intro acc h
    have hk := h k (by simp)
    have htl : ∀ k ∈ tl, k < A.length := fun k hk => h k (by simp [hk])
    rw [groupAtoms, List.getElem?_eq_getElem hk]
    simp only
    cases acc with
    | nil => exact ih _ htl
    | cons g gs =>
      obtain ⟨lastLen, as⟩ := g
      simp only
      split
      · exact ih _ htl
      · exact ih _ htl

theorem wv_ok {v : Int} (h1 : -(2 : Int) ^ 55 ≤ v) (h2 : v < (2 : Int) ^ 55) : ∃ b, wv v = .ok b := by
  obtain ⟨b, hb⟩ := (Props.C21.write_total_iff v).2 ⟨h1, h2⟩
  unfold wv
  rw [hb]
  exact ⟨b, rfl⟩

theorem writeGroups_ok : ∀ (groups : List (Nat × List Bytes)),
    (∀ g ∈ groups, g.1 < 2 ^ 54 ∧ g.2.length < 2 ^ 54) → ∃ tbl, writeGroups groups = .ok tbl := by
  intro groups
  induction groups with
  | nil => intro _; exact ⟨[], rfl⟩
  | cons g tl ih =>
    intro h
    obtain ⟨length, as⟩ := g
    obtain ⟨h1, h2⟩ := h (length, as) (by simp)
    simp only at h1 h2
    obtain ⟨t, ht⟩ := ih (fun g hg => h g (by simp [hg]))
    obtain ⟨b, hb⟩ := wv_ok (v := (length : Int)) (by omega) (by omega)
    obtain ⟨b1, hb1⟩ := wv_ok (v := -(length : Int)) (by omega) (by omega)
    obtain ⟨b2, hb2⟩ := wv_ok (v := (as.length : Int)) (by omega) (by omega)
    cases as with
    | nil =>
      rw [writeGroups]
      case x_2 => intro _ hh; cases hh
      rw [hb1]; simp only
      rw [hb2]; simp only
      rw [ht]
      exact ⟨_, rfl⟩
    | cons a as' =>
      cases as' with
      | nil =>
        rw [writeGroups, hb]; simp only
        rw [ht]
        exact ⟨_, rfl⟩
      | cons a2 as'' =>
        rw [writeGroups]
        case x_2 => intro _ hh; cases hh
        rw [hb1]; simp only
        rw [hb2]; simp only
        rw [ht]
        exact ⟨_, rfl⟩

theorem mem_le_groupAtomCount : ∀ (groups : List (Nat × List Bytes)) (g : Nat × List Bytes), g ∈ groups →
    g.2.length ≤ groupAtomCount groups := by
  intro groups
  induction groups with
  | nil => intro g hg; cases hg
  | cons x tl ih =>
    intro g hg
    rw [groupAtomCount_cons]
    rcases List.mem_cons.1 hg with rfl | hg'
    · omega
    · have := ih g hg'; omega

theorem length_le_groupAtomCount : ∀ (groups : List (Nat × List Bytes)), (∀ g ∈ groups, g.2 ≠ []) →
    groups.length ≤ groupAtomCount groups := by
  intro groups
  induction groups with
  | nil => intro _; simp
  | cons x tl ih =>
    intro h
    rw [groupAtomCount_cons, List.length_cons]
    have := ih (fun g hg => h g (by simp [hg]))
    have : 1 ≤ x.2.length := by
      rcases Nat.eq_zero_or_pos x.2.length with h0 | h0
      · exact absurd (List.length_eq_zero_iff.1 h0) (h x (by simp))
      · exact h0
    omega

theorem writeAtomTable_ok {t : InternedTree} {sNN : List Nat}
    (hidx : ∀ k ∈ sNN, ∃ b, t.atoms[k]? = some b ∧ 1 ≤ b.length ∧ b.length ≤ 2 ^ 32)
    (hcount : sNN.length < 2 ^ 32) : ∃ table, writeAtomTable t sNN = .ok table := by
  unfold writeAtomTable
  obtain ⟨groupsRev, hg⟩ := groupAtoms_ok t.atoms sNN []
    (by intro k hk; obtain ⟨b, hb, _⟩ := hidx k hk; exact getElem?_lt hb)
  rw [hg]
  simp only
  obtain ⟨r1, r2⟩ := groupAtoms_spec t.atoms (2 ^ 32) sNN [] groupsRev hidx (by simp) hg
  have hok := groupOK_unrev r1
  have hunrev : (groupsRev.map fun (x : Nat × List Bytes) => (x.1, x.2.reverse)).reverse = unrev groupsRev := rfl
  have hgc : groupAtomCount (unrev groupsRev) = sNN.length := by
    rw [(groupBytes_flat _ hok).2, r2]; simp [unrev]
  have hlen := length_le_groupAtomCount (unrev groupsRev) (fun g hg => (hok g hg).1)
  obtain ⟨cg, hcg⟩ := wv_ok (v := ((unrev groupsRev).length : Int)) (by omega) (by omega)
  obtain ⟨tbl, htbl⟩ := writeGroups_ok (unrev groupsRev) (by
    intro g hg
    obtain ⟨_, _, _, g4⟩ := hok g hg
    have := mem_le_groupAtomCount _ g hg
    constructor <;> omega)
  rw [show (List.map (fun x => match x with | (l, as) => (l, as.reverse)) groupsRev).reverse = unrev groupsRev from rfl,
    hcg]
  simp only
  rw [htbl]
  exact ⟨_, rfl⟩

/-! ### `emit_instructions` -/

/-- every iteration appends at most one instruction -/
theorem emitLoop_length (st : SerializerState) : ∀ (fuel : Nat) (ws : List Op) (co : List (Int × Int))
    (ins res : List Int), emitLoop st fuel ws co ins = .ok res → res.length ≤ ins.length + fuel := by
  intro fuel
  induction fuel with
  | zero => intro ws co ins res h; rw [emitLoop] at h; cases h
  | succ fuel ih =>
    intro ws co ins res h
    cases ws with
    | nil => rw [emitLoop] at h; cases h; omega
    | cons op ws =>
      cases op with
      | cons pi dir =>
        rw [emitLoop] at h
        have := ih _ _ _ _ h
        simp only [List.length_append, List.length_cons, List.length_nil] at this
        omega
      | build idx =>
        rw [emitLoop] at h
        simp only at h
        split at h
        · split at h
          · cases h
          · have := ih _ _ _ _ h
            simp only [List.length_append, List.length_cons, List.length_nil] at this
            omega
        · split at h
          · have := ih _ _ _ _ h
            simp only [List.length_append, List.length_cons, List.length_nil] at this
            omega
          · split at h
            · cases h
            · simp only [leftFirstDecide] at h
              have := ih _ _ _ _ h
              omega

theorem emitInstructions_length {st : SerializerState} {is : List Int} (h : emitInstructions st = .ok is) :
    is.length ≤ 3 * st.pairs.length + 2 := by
  unfold emitInstructions at h
  split at h
  · split at h
    · cases h
    · cases h; simp
  · have := emitLoop_length st _ _ _ _ _ h
    unfold emitFuel at this
    simpa using this

theorem emitInstructions_total {A : List Bytes} {P : List (INode × INode)} {st : SerializerState}
    {atoms' : List Bytes} (cx : EmitCtx A P st atoms') (hP : st.tree.pairs = P) {root : INode}
    (hr : st.rootIndex = ix root) (hv : root.Valid A.length P.length)
    (hroom : Gen.initGhostPairs + P.length ≤ Gen.maxNumPairs) : ∃ is, emitInstructions st = .ok is := by
  unfold emitInstructions
  rw [hP, hr]
  split
  · rename_i hemp
    have hP0 : P = [] := List.isEmpty_iff.1 hemp
    cases root with
    | pair k => rw [hP0] at hv; simp [INode.Valid] at hv
    | atom k =>
      have hk : k < A.length := hv
      obtain ⟨inst, hi, _⟩ := cx.atom k _ (List.getElem?_eq_getElem hk)
      have hix : ix (.atom k) = (k : Int) := rfl
      rw [hix, hi]
      exact ⟨_, rfl⟩
  · have inv0 : CoInv A P [] { ctr := Counters.new, pairs := [], stack := [] } :=
      ⟨rfl, by intro j ci hj; simp [List.lookup] at hj, Nat.zero_le _, by rw [unbuilt_nil]; exact hroom⟩
    obtain ⟨t, c, co', is', s', _, hrun, _, _, _, hf, _, _⟩ :=
      emit_build cx root.rank root (Nat.le_refl _) hv [] [] [] _ inv0
    have hlen : st.pairs.length = P.length := by rw [cx.pairs, List.length_map]
    rw [unbuilt_nil] at hf
    have hfuel : emitFuel st = (3 * P.length + 1 - c) + 1 + c := by
      unfold emitFuel; rw [hlen]; omega
    rw [hfuel, hrun, emitLoop]
    exact ⟨_, rfl⟩

/-! ### the written instructions are 56-bit values -/

theorem execInst_small {atoms : List Bytes} {s s' : DState} {i : Int} (h : execInst atoms s i = .ok s')
    (h1 : s.pairs.length ≤ s.ctr.pairs) (h2 : s.ctr.pairs ≤ Gen.maxNumPairs) :
    (-((Gen.maxNumPairs : Int) + 2) < i ∧ i < (atoms.length : Int) + 2) ∧
      s'.pairs.length ≤ s'.ctr.pairs ∧ s'.ctr.pairs ≤ Gen.maxNumPairs := by
  unfold execInst at h
  split at h
  · rename_i h0
    cases h
    have := beq_iff_eq.1 h0
    exact ⟨⟨by omega, by omega⟩, h1, h2⟩
  · split at h
    · rename_i _ h0
      have hi := beq_iff_eq.1 h0
      split at h
      · cases h
      · split at h
        · split at h
          · cases h
          · rename_i ctr hnp
            cases h
            obtain ⟨rfl, hlt⟩ := newPair_ok hnp
            refine ⟨⟨by omega, by omega⟩, ?_, ?_⟩
            · simp only [List.length_append, List.length_cons, List.length_nil]; omega
            · show s.ctr.pairs + 1 ≤ Gen.maxNumPairs; omega
        · cases h
    · split at h
      · rename_i _ _ h0
        have hi := beq_iff_eq.1 h0
        split at h
        · cases h
        · split at h
          · split at h
            · cases h
            · rename_i ctr hnp
              cases h
              obtain ⟨rfl, hlt⟩ := newPair_ok hnp
              refine ⟨⟨by omega, by omega⟩, ?_, ?_⟩
              · simp only [List.length_append, List.length_cons, List.length_nil]; omega
              · show s.ctr.pairs + 1 ≤ Gen.maxNumPairs; omega
          · cases h
      · split at h
        · rename_i hge
          simp only at h
          split at h
          · cases h
          · rename_i b hb
            cases h
            have := getElem?_lt hb
            exact ⟨⟨by omega, by omega⟩, h1, h2⟩
        · rename_i hlt
          split at h
          · cases h
          · split at h
            · cases h
            · simp only at h
              split at h
              · cases h
              · rename_i p hp
                cases h
                have := getElem?_lt hp
                exact ⟨⟨by omega, by omega⟩, h1, h2⟩

theorem execList_small {atoms : List Bytes} : ∀ (is : List Int) (s s' : DState),
    execList atoms is s = .ok s' → s.pairs.length ≤ s.ctr.pairs → s.ctr.pairs ≤ Gen.maxNumPairs →
    ∀ i ∈ is, -((Gen.maxNumPairs : Int) + 2) < i ∧ i < (atoms.length : Int) + 2 := by
  intro is
  induction is with
  | nil => intro s s' _ _ _ i hi; cases hi
  | cons a tl ih =>
    intro s s' h h1 h2 i hi
    rw [execList] at h
    cases he : execInst atoms s a with
    | error e => rw [he] at h; cases h
    | ok s1 =>
      rw [he] at h
      obtain ⟨hr, h1', h2'⟩ := execInst_small he h1 h2
      rcases List.mem_cons.1 hi with rfl | hi'
      · exact hr
      · exact ih s1 s' h h1' h2' i hi'

theorem writeInstructions_ok : ∀ (is : List Int), (∀ i ∈ is, -(2 : Int) ^ 55 ≤ i ∧ i < (2 : Int) ^ 55) →
    ∃ ib, writeInstructions is = .ok ib := by
  intro is
  induction is with
  | nil => intro _; exact ⟨[], rfl⟩
  | cons a tl ih =>
    intro h
    obtain ⟨b, hb⟩ := wv_ok (h a (by simp)).1 (h a (by simp)).2
    obtain ⟨t, ht⟩ := ih (fun i hi => h i (by simp [hi]))
    rw [writeInstructions, hb]
    simp only
    rw [ht]
    exact ⟨_, rfl⟩

/-! ### `serialize_2026` -/

theorem maxNumAtoms_le_maxIndex : Gen.maxNumAtoms ≤ maxIndex ∧ Gen.maxNumPairs ≤ maxIndex ∧
    Gen.maxNumAtoms < 2 ^ 32 ∧ Gen.maxNumPairs < 2 ^ 32 := by decide

/-- **after a successful `intern_tree` the serializer cannot fail** -/
theorem serialize2026_of_interned {d : Dag} (wf : d.WF) {root : Nat} (hroot : root < d.size) (level : Nat)
    {it : InternedTree} (hit : internTree d root = .ok it) : ∃ blob, serialize2026 d root level = .ok blob := by
  obtain ⟨s0, inv, _, ha, hp, hr⟩ := internTree_ok wf hroot hit
  obtain ⟨cb, ca, cp⟩ := internTree_counters hit
  obtain ⟨m1, m2, m3, m4⟩ := maxNumAtoms_le_maxIndex
  have hnd := Props.C24.atoms_distinct wf hroot hit
  have hrv : it.root.Valid it.atoms.length it.pairs.length := by
    rw [ha, hp]; exact (inv.memo root it.root hr).2.1
  have hpv : ∀ p ∈ it.pairs, p.1.Valid it.atoms.length it.pairs.length ∧
      p.2.Valid it.atoms.length it.pairs.length := by
    intro p hpm
    obtain ⟨k, hk⟩ := List.mem_iff_getElem?.1 hpm
    rw [hp] at hk
    obtain ⟨_, _, v1, v2⟩ := inv.pairWF k p.1 p.2 hk
    rw [ha, hp]; exact ⟨v1, v2⟩
  obtain ⟨st, hst⟩ := ofInterned_total (it := it) (by omega) (by omega) hrv hpv
  obtain ⟨htree, hrix, _, hpairs, sp⟩ := ofInterned_ok hst
  -- the atom table
  have hsmall : ∀ (l : List Bytes) (b : Bytes), b ∈ l → b.length ≤ (l.map List.length).sum := by
    intro l
    induction l with
    | nil => intro b h; cases h
    | cons a tl ih =>
      intro b h
      rw [List.map_cons, List.sum_cons]
      rcases List.mem_cons.1 h with rfl | h'
      · omega
      · have := ih b h'; omega
  have hidx : ∀ k ∈ st.sortedNoNil, ∃ b, st.tree.atoms[k]? = some b ∧ 1 ≤ b.length ∧ b.length ≤ 2 ^ 32 := by
    intro k hk
    rw [htree]
    obtain ⟨hklt, hknil⟩ := (sp.mem k).1 hk
    have hb : it.atoms[k]? = some it.atoms[k] := List.getElem?_eq_getElem hklt
    refine ⟨_, hb, nonnil_atom sp hnd k _ hb hknil, ?_⟩
    have := hsmall it.atoms _ (List.mem_iff_getElem?.2 ⟨k, hb⟩)
    omega
  have hcnt := sp.count
  obtain ⟨table, htab⟩ := writeAtomTable_ok hidx (by omega)
  obtain ⟨groups, cg, tbl, htable, hcg, htbl, hgok, hflat⟩ := writeAtomTable_spec hidx htab
  rw [htree] at hflat
  -- the instruction stream
  have cx : EmitCtx it.atoms it.pairs st (groups.flatMap (·.2)) := by
    refine ⟨?_, hpairs, ?_⟩
    · intro k l r hk
      rw [hp] at hk
      rw [ha, hp]
      exact inv.pairWF k l r hk
    · intro k b hb
      rw [hflat]
      exact atomInstruction_spec sp k b hb
  obtain ⟨is, hem⟩ := emitInstructions_total cx (by rw [htree]) hrix hrv cp
  obtain ⟨t, s, _, hex, _, _⟩ := emitInstructions_spec cx (by rw [htree]) hrix hrv hem Counters.new cp
  have hislen := emitInstructions_length hem
  have hplen : st.pairs.length = it.pairs.length := by rw [hpairs, List.length_map]
  obtain ⟨ci, hci⟩ := wv_ok (v := (is.length : Int)) (by omega) (by omega)
  have hflen : (groups.flatMap (·.2)).length ≤ it.atoms.length := by
    rw [hflat, List.length_map]; exact hcnt
  obtain ⟨ib, hib⟩ := writeInstructions_ok is (by
    intro i hi
    have := execList_small is _ s hex (Nat.zero_le _)
      (by show Gen.initGhostPairs ≤ Gen.maxNumPairs; omega) i hi
    constructor <;> omega)
  refine ⟨magic ++ (table ++ ci ++ ib), ?_⟩
  unfold serialize2026 serializeWithCompression compressionForLevel SerializerState.new
  rw [hit]
  simp only
  rw [hst]
  simp only
  unfold serializeWithStrategy
  rw [htab]
  simp only
  rw [hem]
  simp only
  rw [hci]
  simp only
  rw [hib]

/-- **`serialize_2026` is total on well-formed sources**: a blob, or an allocator limit of `intern_tree`
(4 GiB heap, `MAX_NUM_ATOMS`, `MAX_NUM_PAIRS`); never a panic, the loops terminate. -/
theorem serialize2026_total {d : Dag} (wf : d.WF) {root : Nat} (hroot : root < d.size) (level : Nat) :
    (∃ blob, serialize2026 d root level = .ok blob) ∨
    (∃ e, (e = .OutOfMemory ∨ e = .TooManyAtoms ∨ e = .TooManyPairs) ∧ serialize2026 d root level = .error e) := by
  rcases internTree_total wf hroot with ⟨it, hit⟩ | ⟨e, he, hit⟩
  · left; exact serialize2026_of_interned wf hroot level hit
  · right
    refine ⟨e, he, ?_⟩
    unfold serialize2026 serializeWithCompression SerializerState.new
    rw [hit]

end Clvm.Serde2026
