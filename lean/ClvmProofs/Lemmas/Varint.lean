/-
Helper lemmas for C21 (varints).  Property theorems live in `Props/C21.lean`.
-/
import ClvmModel.Varint
import ClvmProofs.Lemmas.Bits
open Clvm Clvm.Varint
namespace Clvm.Varint

theorem foldBytes_cons (u : Nat) (b : UInt8) (bs : Bytes) :
    foldBytes u (b :: bs) = foldBytes (u * 256 + b.toNat) bs := by
  simp [foldBytes, shl8_or u b.toNat (u8_lt b)]

theorem tailBytes_length (u k : Nat) : (tailBytes u k).length = k := by
  induction k with
  | zero => rfl
  | succ i ih => simp [tailBytes, ih]

theorem foldBytes_tailBytes (a u k : Nat) :
    foldBytes a (tailBytes u k) = a * 256 ^ k + u % 256 ^ k := by
  induction k generalizing a with
  | zero => simp [tailBytes, foldBytes, Nat.mod_one]
  | succ i ih =>
    have h8 : (2:Nat) ^ (i * 8) = 256 ^ i := by rw [Nat.mul_comm, Nat.pow_mul]
    rw [tailBytes, foldBytes_cons, ih, toNat_ofNat_lt _ (Nat.mod_lt _ (by omega)),
      Nat.shiftRight_eq_div_pow, h8, Nat.pow_succ, Nat.mod_mul]
    generalize 256 ^ i = P
    generalize u / P % 256 = q
    generalize u % P = r
    rw [Nat.add_mul, Nat.mul_assoc, Nat.mul_comm 256 P, Nat.mul_comm q P]
    omega

end Clvm.Varint

namespace Clvm.Varint

theorem firstByte_facts (k h : Nat) (hk : k ≤ 7) (hh : h < 2 ^ (7 - k)) :
    (prefixByte k ||| h) = prefixByte k + h ∧ prefixByte k + h < 256 ∧
    leadingOnes (prefixByte k + h) = k ∧ ((prefixByte k + h) &&& ((1 <<< (7 - k)) - 1)) = h := by
  have hor : (prefixByte k ||| h) = prefixByte k + h := by
    have e : prefixByte k = (if k > 0 then 2 ^ k - 1 else 0) * 2 ^ (8 - k) := by
      unfold prefixByte; split <;> simp [Nat.shiftLeft_eq]
    rw [e]; apply or_eq_add
    exact Nat.lt_of_lt_of_le hh (Nat.pow_le_pow_right (by omega) (by omega))
  refine ⟨hor, ?_⟩
  have hk' : k = 0 ∨ k = 1 ∨ k = 2 ∨ k = 3 ∨ k = 4 ∨ k = 5 ∨ k = 6 ∨ k = 7 := by omega
  rcases hk' with rfl | rfl | rfl | rfl | rfl | rfl | rfl | rfl
  all_goals
    simp only [Nat.shiftLeft_eq, Nat.one_mul, Nat.and_two_pow_sub_one_eq_mod]
    simp [prefixByte, Nat.shiftLeft_eq] at *
    refine ⟨by omega, ?_, by omega⟩
    unfold leadingOnes
    repeat' split
    all_goals omega
end Clvm.Varint

namespace Clvm.Varint

theorem pow_split (k : Nat) : (2:Nat) ^ totalBits k = 2 ^ (7 - k) * 256 ^ k ∨ 7 < k := by
  by_cases h : 7 < k
  · exact Or.inr h
  · left
    have : (256:Nat) ^ k = 2 ^ (8 * k) := by rw [Nat.pow_mul]
    rw [this, ← Nat.pow_add, totalBits]; congr 1; omega

theorem readRaw_encodeRaw (k u : Nat) (rest : Bytes) (hk : k ≤ 7) (hu : u < 2 ^ totalBits k) :
    readRaw (encodeRaw k u ++ rest) = .ok (k, u, rest) := by
  have h8 : (2:Nat) ^ (k * 8) = 256 ^ k := by rw [Nat.mul_comm, Nat.pow_mul]
  have hsplit := (pow_split k).resolve_right (by omega)
  have hP : 0 < 256 ^ k := Nat.pow_pos (by omega)
  have hh : u / 256 ^ k < 2 ^ (7 - k) := by
    rw [Nat.div_lt_iff_lt_mul hP]; rw [hsplit] at hu; exact hu
  have hh256 : u / 256 ^ k < 256 :=
    Nat.lt_of_lt_of_le hh (by
      have : (256:Nat) = 2 ^ 8 := by decide
      rw [this]; exact Nat.pow_le_pow_right (by omega) (by omega))
  obtain ⟨f1, f2, f3, f4⟩ := firstByte_facts k (u / 256 ^ k) hk hh
  unfold encodeRaw
  simp only [Nat.shiftRight_eq_div_pow, h8, Nat.mod_eq_of_lt hh256, f1, Nat.mod_eq_of_lt f2]
  unfold readRaw
  simp only [List.cons_append, toNat_ofNat_lt _ f2, f3]
  have hnot : ¬ (k ≥ 8) := by omega
  have hlen : ¬ ((tailBytes u k ++ rest).length < k) := by
    simp [tailBytes_length]
  simp only [hnot, hlen, if_false, f4]
  have ht : List.take k (tailBytes u k ++ rest) = tailBytes u k := by
    rw [List.take_append_of_le_length (by simp [tailBytes_length])]
    exact List.take_of_length_le (by simp [tailBytes_length])
  have hd : List.drop k (tailBytes u k ++ rest) = rest := by
    rw [List.drop_append_of_le_length (by simp [tailBytes_length])]
    simp [List.drop_of_length_le, tailBytes_length]
  rw [ht, hd, foldBytes_tailBytes, Nat.div_add_mod']

end Clvm.Varint

namespace Clvm.Varint

/-! ### the converse direction: what was read is what `encodeRaw` writes -/

theorem foldBytes_split (a : Nat) (bs : Bytes) :
    foldBytes a bs = a * 256 ^ bs.length + foldBytes 0 bs ∧ foldBytes 0 bs < 256 ^ bs.length := by
  induction bs generalizing a with
  | nil => simp [foldBytes]
  | cons b t ih =>
    have hb := u8_lt b
    rw [foldBytes_cons, foldBytes_cons]
    obtain ⟨e1, _⟩ := ih (a * 256 + b.toNat)
    obtain ⟨e2, l2⟩ := ih (0 * 256 + b.toNat)
    rw [e1, e2]
    simp only [List.length_cons, Nat.pow_succ]
    generalize 256 ^ t.length = P at *
    generalize foldBytes 0 t = r at *
    have : (a * 256 + b.toNat) * P = a * (P * 256) + b.toNat * P := by
      rw [Nat.add_mul, Nat.mul_assoc, Nat.mul_comm 256 P]
    refine ⟨by rw [this]; simp; omega, ?_⟩
    simp only [Nat.zero_mul, Nat.zero_add]
    have h1 : b.toNat * P ≤ 255 * P := Nat.mul_le_mul_right P (by omega)
    omega

theorem tailBytes_foldBytes (a : Nat) (bs : Bytes) :
    tailBytes (foldBytes a bs) bs.length = bs := by
  induction bs generalizing a with
  | nil => rfl
  | cons b t ih =>
    have hb := u8_lt b
    simp only [List.length_cons, tailBytes, foldBytes_cons]
    rw [ih]
    congr 1
    obtain ⟨e, l⟩ := foldBytes_split (a * 256 + b.toNat) t
    have h8 : (2:Nat) ^ (t.length * 8) = 256 ^ t.length := by rw [Nat.mul_comm, Nat.pow_mul]
    rw [Nat.shiftRight_eq_div_pow, h8, e]
    have hP : 0 < 256 ^ t.length := Nat.pow_pos (by omega)
    apply u8_eq_of_toNat
    rw [Nat.mul_comm, Nat.mul_add_div hP, Nat.div_eq_of_lt l]
    omega

theorem firstByte_conv (f k : Nat) (hf : f < 256) (hk : leadingOnes f = k) (hk7 : k ≤ 7) :
    f = prefixByte k + f % 2 ^ (7 - k) := by
  have hk' : k = 0 ∨ k = 1 ∨ k = 2 ∨ k = 3 ∨ k = 4 ∨ k = 5 ∨ k = 6 ∨ k = 7 := by omega
  unfold leadingOnes at hk
  rcases hk' with rfl | rfl | rfl | rfl | rfl | rfl | rfl | rfl
  all_goals
    simp [prefixByte, Nat.shiftLeft_eq]
    repeat' split at hk
    all_goals omega

theorem readRaw_inv (inp : Bytes) (k u : Nat) (rest : Bytes)
    (h : readRaw inp = .ok (k, u, rest)) :
    k ≤ 7 ∧ u < 2 ^ totalBits k ∧ inp = encodeRaw k u ++ rest := by
  cases inp with
  | nil => simp [readRaw] at h
  | cons first tl =>
    simp only [readRaw] at h
    split at h
    · cases h
    · split at h
      · cases h
      · rename_i hk8 hlen
        simp only [Except.ok.injEq, Prod.mk.injEq] at h
        obtain ⟨rfl, rfl, rfl⟩ := h
        generalize hk : leadingOnes first.toNat = k at *
        have hk7 : k ≤ 7 := by omega
        have hf := u8_lt first
        have hlt : (List.take k tl).length = k := by
          rw [List.length_take]; omega
        simp only [Nat.shiftLeft_eq, Nat.one_mul, Nat.and_two_pow_sub_one_eq_mod]
        obtain ⟨e, l⟩ := foldBytes_split (first.toNat % 2 ^ (7 - k)) (List.take k tl)
        rw [hlt] at e l
        have hsplit := (pow_split k).resolve_right (by omega)
        have hP : 0 < 256 ^ k := Nat.pow_pos (by omega)
        have hm : first.toNat % 2 ^ (7 - k) < 2 ^ (7 - k) := Nat.mod_lt _ (Nat.pow_pos (by omega))
        refine ⟨hk7, ?_, ?_⟩
        · rw [e, hsplit]
          have : (first.toNat % 2 ^ (7 - k) + 1) * 256 ^ k ≤ 2 ^ (7 - k) * 256 ^ k :=
            Nat.mul_le_mul_right _ hm
          rw [Nat.add_mul] at this
          omega
        · have hdiv : foldBytes (first.toNat % 2 ^ (7 - k)) (List.take k tl) / 256 ^ k
              = first.toNat % 2 ^ (7 - k) := by
            rw [e, Nat.mul_comm, Nat.mul_add_div hP, Nat.div_eq_of_lt l]; omega
          have h8 : (2:Nat) ^ (k * 8) = 256 ^ k := by rw [Nat.mul_comm, Nat.pow_mul]
          have hh256 : first.toNat % 2 ^ (7 - k) < 256 := Nat.lt_of_le_of_lt (Nat.mod_le _ _) hf
          obtain ⟨f1, f2, _, _⟩ := firstByte_facts k (first.toNat % 2 ^ (7 - k)) hk7 hm
          unfold encodeRaw
          simp only [Nat.shiftRight_eq_div_pow, h8, hdiv, Nat.mod_eq_of_lt hh256, f1,
            Nat.mod_eq_of_lt f2]
          rw [← firstByte_conv first.toNat k hf hk hk7]
          have := tailBytes_foldBytes (first.toNat % 2 ^ (7 - k)) (List.take k tl)
          rw [hlt] at this
          rw [this]
          simp [List.take_append_drop]

/-! ### the signed layer -/

theorem pow_tb (k : Nat) : (2:Int) ^ totalBits k = 2 * (2:Int) ^ (totalBits k - 1) := by
  have : totalBits k = (totalBits k - 1) + 1 := by unfold totalBits; omega
  rw [this, Int.pow_succ]; simp; omega

theorem pow_tb_nat (k : Nat) : (2:Nat) ^ totalBits k = 2 * (2:Nat) ^ (totalBits k - 1) := by
  have : totalBits k = (totalBits k - 1) + 1 := by unfold totalBits; omega
  rw [this, Nat.pow_succ]; simp; omega

theorem fits_iff (k : Nat) (v : Int) :
    fits k v = true ↔ (-(2:Int) ^ (totalBits k - 1) ≤ v ∧ v ≤ (2:Int) ^ (totalBits k - 1) - 1) := by
  simp [fits]

theorem toUnsigned_lt (k : Nat) (v : Int) (h : fits k v = true) :
    toUnsigned k v < 2 ^ totalBits k := by
  rw [fits_iff] at h
  have hp := pow_tb k
  have hpn := pow_tb_nat k
  have hc : ((2:Nat) ^ (totalBits k - 1) : Nat) = ((2:Int) ^ (totalBits k - 1)) := by simp
  unfold toUnsigned
  generalize (2:Int) ^ (totalBits k - 1) = Q at *
  generalize (2:Int) ^ totalBits k = P at *
  generalize (2:Nat) ^ (totalBits k - 1) = q at *
  generalize (2:Nat) ^ totalBits k = p at *
  split <;> omega

theorem from_toUnsigned (k : Nat) (v : Int) (h : fits k v = true) :
    fromUnsigned k (toUnsigned k v) = v := by
  rw [fits_iff] at h
  have hp := pow_tb k
  have hc : ((2:Nat) ^ (totalBits k - 1) : Nat) = ((2:Int) ^ (totalBits k - 1)) := by simp
  unfold fromUnsigned toUnsigned
  simp only [Nat.shiftLeft_eq, Nat.one_mul]
  generalize (2:Int) ^ (totalBits k - 1) = Q at *
  generalize (2:Int) ^ totalBits k = P at *
  generalize (2:Nat) ^ (totalBits k - 1) = q at *
  split <;> split <;> omega

theorem to_fromUnsigned (k u : Nat) (h : u < 2 ^ totalBits k) :
    fits k (fromUnsigned k u) = true ∧ toUnsigned k (fromUnsigned k u) = u := by
  rw [fits_iff]
  have hp := pow_tb k
  have hpn := pow_tb_nat k
  have hc : ((2:Nat) ^ (totalBits k - 1) : Nat) = ((2:Int) ^ (totalBits k - 1)) := by simp
  unfold fromUnsigned toUnsigned
  simp only [Nat.shiftLeft_eq, Nat.one_mul]
  generalize (2:Int) ^ (totalBits k - 1) = Q at *
  generalize (2:Int) ^ totalBits k = P at *
  generalize (2:Nat) ^ (totalBits k - 1) = q at *
  generalize (2:Nat) ^ totalBits k = p at *
  split <;> (refine ⟨by omega, ?_⟩; split <;> omega)

/-! ### the size-selection loop -/

theorem firstFitFrom_spec (v : Int) (s n k : Nat) (h : firstFitFrom v s n = some k) :
    s ≤ k ∧ k < s + n ∧ fits k v = true ∧ ∀ j, s ≤ j → j < k → fits j v = false := by
  induction n generalizing s with
  | zero => simp [firstFitFrom] at h
  | succ n ih =>
    simp only [firstFitFrom] at h
    split at h
    · cases h; exact ⟨Nat.le_refl _, by omega, by assumption, fun j h1 h2 => by omega⟩
    · rename_i hs
      obtain ⟨a, b, c, d⟩ := ih (s + 1) h
      refine ⟨by omega, by omega, c, fun j h1 h2 => ?_⟩
      by_cases hj : j = s
      · subst hj; simpa using hs
      · exact d j (by omega) h2

theorem firstFitFrom_complete (v : Int) (s n j : Nat) (hs : s ≤ j) (hj : j < s + n)
    (hf : fits j v = true) : ∃ k, firstFitFrom v s n = some k := by
  induction n generalizing s with
  | zero => omega
  | succ n ih =>
    simp only [firstFitFrom]
    split
    · exact ⟨s, rfl⟩
    · rename_i hns
      have : s ≠ j := by intro e; subst e; exact hns hf
      exact ih (s + 1) (by omega) (by omega)

theorem firstFit_spec (v : Int) (k : Nat) (h : firstFit v = some k) :
    k ≤ 7 ∧ fits k v = true ∧ ∀ j, j < k → fits j v = false := by
  obtain ⟨_, b, c, d⟩ := firstFitFrom_spec v 0 8 k h
  exact ⟨by omega, c, fun j hj => d j (Nat.zero_le _) hj⟩

theorem firstFit_of_min (v : Int) (k : Nat) (hk : k ≤ 7) (hf : fits k v = true)
    (hmin : ∀ j, j < k → fits j v = false) : firstFit v = some k := by
  obtain ⟨k', hk'⟩ := firstFitFrom_complete v 0 8 k (Nat.zero_le _) (by omega) hf
  obtain ⟨a, b, c⟩ := firstFit_spec v k' hk'
  unfold firstFit; rw [hk']; congr 1
  by_cases h1 : k' < k
  · have := hmin k' h1; rw [this] at b; cases b
  · by_cases h2 : k < k'
    · have := c k h2; rw [this] at hf; cases hf
    · omega

end Clvm.Varint
