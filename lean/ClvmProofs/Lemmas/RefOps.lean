/-
C01, layer 1: per-operator agreement between the interpreter model (`Clvm.Interp.opX`, default
flags, any budget) and the reference (`Clvm.Ref.opX`).  Every lemma has the shape
`OpAgree m (Interp.opX … 0 m a c) (Ref.opX a.erase)` for an arbitrary well-formed value `a`
(any representation tags) — see `OpAgree` in `RefBase.lean`.  Operators whose reference version
iterates with `as_iter` additionally need the argument list to be a proper list (`Proper`), which
holds for every evaluated operand list; `list_len`-based operators do not.
-/
import ClvmProofs.Lemmas.RefBase
import ClvmProofs.Lemmas.Interp.ReprAux

namespace Clvm.Ref
open Clvm Clvm.Interp Clvm.Alloc

/-- the argument list ends in nil (always true of an evaluated operand list) -/
def Proper (a : Val) : Prop := valTerminator a = []

theorem newModel0 : newModel 0 = false := by decide


theorem getArgs1_cases (a : Val) (name : String) :
    (∃ x b i, a = .pair x (.atom b i) ∧ getArgs1 a name = .ok x) ∨
    (listLen a.erase ≠ 1 ∧ ∃ msg, getArgs1 a name = .error (.InvalidOpArg msg)) := by
  unfold getArgs1
  by_cases h : listLen a.erase = 1
  · left
    rw [getArgs_of_len name h]
    have hl := argList_length a
    rw [h] at hl
    match hal : argList a, hl with
    | [x], _ =>
      obtain ⟨r, rfl, hr⟩ := argList_cons hal
      obtain ⟨b, i, rfl⟩ := argList_nil hr
      exact ⟨x, b, i, rfl, rfl⟩
  · right
    obtain ⟨msg, hm⟩ := getArgs_of_ne name h
    exact ⟨h, msg, by rw [hm]⟩

theorem getArgs2_cases (a : Val) (name : String) :
    (∃ x y b i, a = .pair x (.pair y (.atom b i)) ∧ getArgs2 a name = .ok (x, y)) ∨
    (listLen a.erase ≠ 2 ∧ ∃ msg, getArgs2 a name = .error (.InvalidOpArg msg)) := by
  unfold getArgs2
  by_cases h : listLen a.erase = 2
  · left
    rw [getArgs_of_len name h]
    have hl := argList_length a
    rw [h] at hl
    match hal : argList a, hl with
    | [x, y], _ =>
      obtain ⟨r, rfl, hr⟩ := argList_cons hal
      obtain ⟨r2, rfl, hr2⟩ := argList_cons hr
      obtain ⟨b, i, rfl⟩ := argList_nil hr2
      exact ⟨x, y, b, i, rfl, rfl⟩
  · right
    obtain ⟨msg, hm⟩ := getArgs_of_ne name h
    exact ⟨h, msg, by rw [hm]⟩

theorem getArgs3_cases (a : Val) (name : String) :
    (∃ x y z b i, a = .pair x (.pair y (.pair z (.atom b i))) ∧ getArgs3 a name = .ok (x, y, z)) ∨
    (listLen a.erase ≠ 3 ∧ ∃ msg, getArgs3 a name = .error (.InvalidOpArg msg)) := by
  unfold getArgs3
  by_cases h : listLen a.erase = 3
  · left
    rw [getArgs_of_len name h]
    have hl := argList_length a
    rw [h] at hl
    match hal : argList a, hl with
    | [x, y, z], _ =>
      obtain ⟨r, rfl, hr⟩ := argList_cons hal
      obtain ⟨r2, rfl, hr2⟩ := argList_cons hr
      obtain ⟨r3, rfl, hr3⟩ := argList_cons hr2
      obtain ⟨b, i, rfl⟩ := argList_nil hr3
      exact ⟨x, y, z, b, i, rfl, rfl⟩
  · right
    obtain ⟨msg, hm⟩ := getArgs_of_ne name h
    exact ⟨h, msg, by rw [hm]⟩

/-- the common tail `allocate the number, charge malloc_cost` -/
theorem allocNumber_agree (m cost : Nat) (c : Ctr) (v : Int) :
    OpAgree m
      (match allocNumber c v with
       | .error e => .error e
       | .ok (r, c') => .ok (Interp.mallocCost cost r, r, c'))
      (Ref.mallocCost cost (ofInt v)) := by
  unfold allocNumber
  simp only [Ref.mallocCost, ofInt, intToBytes_eq]
  rcases allocAtom_cases c (encodeInt v) with ⟨c', h⟩ | ⟨e, h, hl⟩
  · rw [h]
    simp only [Interp.mallocCost, Val.mkAtom]
    exact OpAgree.ok rfl (mkAtom_wf _)
  · rw [h]; exact Or.inr (Or.inr ⟨e, rfl, hl⟩)

/-! ### core operators -/

theorem opIf_agree (m : Nat) (a : Val) (c : Ctr) (hw : a.wf = true) :
    OpAgree m (Interp.opIf 0 m a c) (Ref.opIf a.erase) := by
  unfold Interp.opIf
  rcases getArgs3_cases a "i" with ⟨x, y, z, b, i, rfl, hg⟩ | ⟨hn, msg, hg⟩
  · rw [hg]
    simp only [Val.wf, Bool.and_eq_true] at hw
    simp only [Ref.opIf, Val.erase, listLen, newModel0]
    rw [nilp_erase]
    cases hx : x.nilp
    · exact OpAgree.ok rfl hw.2.1
    · exact OpAgree.ok rfl hw.2.2.1
  · rw [hg]
    simp only [Ref.opIf]
    rw [if_pos (by simpa using hn)]
    exact OpAgree.err rfl

theorem opCons_agree (m : Nat) (a : Val) (c : Ctr) (hw : a.wf = true) :
    OpAgree m (Interp.opCons 0 m a c) (Ref.opCons a.erase) := by
  unfold Interp.opCons
  rcases getArgs2_cases a "c" with ⟨x, y, b, i, rfl, hg⟩ | ⟨hn, msg, hg⟩
  · rw [hg]
    simp only [Val.wf, Bool.and_eq_true] at hw
    simp only [Ref.opCons, Val.erase, listLen]
    rcases allocPair_cases c x y with ⟨c', h⟩ | ⟨e, h, hl⟩
    · rw [h]; exact OpAgree.ok rfl (by simp [Val.wf, hw.1, hw.2.1])
    · rw [h]; exact Or.inr (Or.inr ⟨e, rfl, hl⟩)
  · rw [hg]
    simp only [Ref.opCons]
    rw [if_pos (by simpa using hn)]
    exact OpAgree.err rfl

theorem opFirst_agree (m : Nat) (a : Val) (c : Ctr) (hw : a.wf = true) :
    OpAgree m (Interp.opFirst 0 m a c) (Ref.opFirst a.erase) := by
  unfold Interp.opFirst
  rcases getArgs1_cases a "f" with ⟨x, b, i, rfl, hg⟩ | ⟨hn, msg, hg⟩
  · rw [hg]
    simp only [Val.wf, Bool.and_eq_true] at hw
    simp only [Ref.opFirst, Val.erase, listLen]
    cases x with
    | atom xb xi => exact OpAgree.err rfl
    | pair l r =>
      simp only [Val.wf, Bool.and_eq_true] at hw
      exact OpAgree.ok rfl hw.1.1
  · rw [hg]
    simp only [Ref.opFirst]
    rw [if_pos (by simpa using hn)]
    exact OpAgree.err rfl

theorem opRest_agree (m : Nat) (a : Val) (c : Ctr) (hw : a.wf = true) :
    OpAgree m (Interp.opRest 0 m a c) (Ref.opRest a.erase) := by
  unfold Interp.opRest
  rcases getArgs1_cases a "r" with ⟨x, b, i, rfl, hg⟩ | ⟨hn, msg, hg⟩
  · rw [hg]
    simp only [Val.wf, Bool.and_eq_true] at hw
    simp only [Ref.opRest, Val.erase, listLen]
    cases x with
    | atom xb xi => exact OpAgree.err rfl
    | pair l r =>
      simp only [Val.wf, Bool.and_eq_true] at hw
      exact OpAgree.ok rfl hw.1.2
  · rw [hg]
    simp only [Ref.opRest]
    rw [if_pos (by simpa using hn)]
    exact OpAgree.err rfl

theorem opListp_agree (m : Nat) (a : Val) (c : Ctr) (_hw : a.wf = true) :
    OpAgree m (Interp.opListp 0 m a c) (Ref.opListp a.erase) := by
  unfold Interp.opListp
  rcases getArgs1_cases a "l" with ⟨x, b, i, rfl, hg⟩ | ⟨hn, msg, hg⟩
  · rw [hg]
    simp only [Ref.opListp, Val.erase, listLen, newModel0]
    rw [isPair_erase]
    cases x.isPair
    · exact OpAgree.ok rfl nil_wf
    · exact OpAgree.ok rfl one_wf
  · rw [hg]
    simp only [Ref.opListp]
    rw [if_pos (by simpa using hn)]
    exact OpAgree.err rfl

theorem opRaise_agree (m : Nat) (a : Val) (c : Ctr) :
    OpAgree m (Interp.opRaise 0 m a c) (Ref.opRaise a.erase) := OpAgree.err rfl

theorem opEq_agree (m : Nat) (a : Val) (c : Ctr) (_hw : a.wf = true) :
    OpAgree m (Interp.opEq 0 m a c) (Ref.opEq a.erase) := by
  unfold Interp.opEq
  rcases getArgs2_cases a "=" with ⟨x, y, b, i, rfl, hg⟩ | ⟨hn, msg, hg⟩
  · rw [hg]
    simp only [Ref.opEq, Val.erase, listLen]
    cases x with
    | pair l r => exact OpAgree.err rfl
    | atom b0 i0 =>
      cases y with
      | pair l r => exact OpAgree.err rfl
      | atom b1 i1 =>
        simp only [Val.erase]
        cases b0 == b1
        · exact OpAgree.ok rfl nil_wf
        · exact OpAgree.ok rfl one_wf
  · rw [hg]
    simp only [Ref.opEq]
    rw [if_pos (by simpa using hn)]
    exact OpAgree.err rfl

/-! ### integers: `limbs`, `i32_atom` -/


theorem natBE_succ (n : Nat) (h : n ≠ 0) : natBE n = natBE (n / 256) ++ [UInt8.ofNat (n % 256)] := by
  rw [natBE]; simp [h]

theorem natBE_bounds : ∀ (n : Nat), n ≠ 0 →
    1 ≤ (natBE n).length ∧ 256 ^ ((natBE n).length - 1) ≤ n ∧ n < 256 ^ (natBE n).length := by
  intro n
  induction n using Nat.strongRecOn with
  | _ n ih =>
    intro h
    rw [natBE_succ n h]
    by_cases hs : n / 256 = 0
    · have : natBE (n / 256) = [] := by rw [hs, natBE]; simp
      rw [this]
      simp only [List.nil_append, List.length_singleton]
      omega
    · obtain ⟨h1, h2, h3⟩ := ih (n / 256) (by omega) hs
      simp only [List.length_append, List.length_singleton, Nat.add_sub_cancel]
      generalize (natBE (n / 256)).length = L at h1 h2 h3
      obtain ⟨k, rfl⟩ : ∃ k, L = k + 1 := ⟨L - 1, by omega⟩
      simp only [Nat.add_sub_cancel] at h2
      refine ⟨by omega, ?_, ?_⟩
      · rw [Nat.pow_succ]; omega
      · rw [Nat.pow_succ]; omega

theorem limbs_eq (v : Int) : limbs v = limbsForInt v := by
  unfold limbs limbsForInt bitLength Py.Casts.bitLength
  by_cases h0 : v.natAbs = 0
  · simp [h0, natBE]
  · simp only [h0, if_false]
    obtain ⟨h1, h2, h3⟩ := natBE_bounds v.natAbs h0
    generalize (natBE v.natAbs).length = L at h1 h2 h3
    generalize hn : v.natAbs = n at *
    have hb1 : 2 ^ n.log2 ≤ n := Nat.log2_self_le h0
    have hb2 : n < 2 ^ (n.log2 + 1) := Nat.lt_log2_self
    have e1 : 256 ^ (L - 1) = 2 ^ (8 * (L - 1)) := by rw [show (256 : Nat) = 2 ^ 8 from rfl, ← Nat.pow_mul]
    have e2 : 256 ^ L = 2 ^ (8 * L) := by rw [show (256 : Nat) = 2 ^ 8 from rfl, ← Nat.pow_mul]
    rw [e1] at h2; rw [e2] at h3
    have c1 : n.log2 < 8 * L := (Nat.pow_lt_pow_iff_right (by omega : 1 < 2)).1 (Nat.lt_of_le_of_lt hb1 h3)
    have c2 : 8 * (L - 1) < n.log2 + 1 := (Nat.pow_lt_pow_iff_right (by omega : 1 < 2)).1 (Nat.lt_of_le_of_lt h2 hb2)
    rw [Nat.shiftRight_eq_div_pow]
    omega


theorem i32FromU8_eq (b : Bytes) (h : b.length ≤ 4) : i32FromU8 b = some (decodeInt b) := by
  cases b with
  | nil => rfl
  | cons x t =>
    have hx : x.toNat < 256 := x.toNat_lt
    have hc := beNat_cons x t
    have hlt := beNat_lt t
    simp only [List.length_cons] at h
    have hu : u32FromU8Impl (x :: t) true =
        some (if 128 ≤ x.toNat then 2 ^ 32 - 256 ^ (t.length + 1) + beNat (x :: t) else beNat (x :: t)) := by
      unfold u32FromU8Impl
      simp only [List.length_cons, show ¬ (t.length + 1 > 4) by omega, if_false, Bool.true_and,
        Py.CastsLemmas.topBit]
      by_cases hs : 128 ≤ x.toNat <;> simp [hs]
    unfold i32FromU8
    rw [hu]
    simp only [bind, Option.bind, pure, Option.map_some]
    simp only [decodeInt, List.length_cons]
    generalize hL : t.length = L at *
    generalize beNat (x :: t) = N at *
    generalize beNat t = T at *
    have hL4 : L = 0 ∨ L = 1 ∨ L = 2 ∨ L = 3 := by omega
    congr 1
    by_cases hs : 128 ≤ x.toNat
    · simp only [hs, if_true]
      rcases hL4 with rfl | rfl | rfl | rfl <;> simp only [Nat.reducePow, Nat.reduceAdd, Int.reducePow] at * <;> (split <;> omega)
    · simp only [hs, if_false]
      rcases hL4 with rfl | rfl | rfl | rfl <;> simp only [Nat.reducePow, Nat.reduceAdd, Int.reducePow] at * <;> (split <;> omega)

theorem i32Atom_wf {b : Bytes} {i : Bool} (h : (Val.atom b i).wf = true) (name : String) :
    (b.length ≤ 4 ∧ i32Atom (.atom b i) name = .ok (decodeInt b)) ∨
    (4 < b.length ∧ ∃ msg, i32Atom (.atom b i) name = .error (.InvalidOpArg msg)) := by
  cases i with
  | true =>
    left
    have hf := wf_inline h
    refine ⟨hf.len4, ?_⟩
    simp only [i32Atom, node]
    rw [wfInl_decode h]
  | false =>
    simp only [i32Atom, node]
    by_cases hl : b.length ≤ 4
    · left; refine ⟨hl, ?_⟩; rw [i32FromU8_eq b hl]
    · right
      refine ⟨by omega, ?_⟩
      have : i32FromU8 b = none := by
        cases b with
        | nil => simp at hl
        | cons x t =>
          unfold i32FromU8 u32FromU8Impl
          simp only [List.length_cons] at hl
          simp [show t.length + 1 > 4 by omega]
      rw [this]; exact ⟨_, rfl⟩

/-! ### `as_iter` on a proper list -/

theorem asIter_proper {a : Val} (hp : Proper a) : asIter a.erase = .ok (spine a.erase) := by
  rw [asIter_eq, valTerminator_erase, hp]; rfl

theorem atomsOf_length : ∀ (l : List Tree) (bs : List Bytes), atomsOf l = .ok bs → bs.length = l.length := by
  intro l
  induction l with
  | nil => intro bs h; simp [atomsOf] at h; subst h; rfl
  | cons x t ih =>
    intro bs h
    cases x with
    | pair _ _ => simp [atomsOf] at h
    | atom b =>
      simp only [atomsOf] at h
      cases ht : atomsOf t with
      | error e => rw [ht] at h; simp at h
      | ok r =>
        rw [ht] at h
        simp only [Except.ok.injEq] at h
        subst h
        simp [ih r ht]

theorem atomsOf_err : ∀ (l : List Tree) (e : RefErr), atomsOf l = .error e → e = .arg := by
  intro l
  induction l with
  | nil => intro e h; simp [atomsOf] at h
  | cons x t ih =>
    intro e h
    cases x with
    | pair _ _ => simp [atomsOf] at h; exact h.symm
    | atom b =>
      simp only [atomsOf] at h
      cases ht : atomsOf t with
      | error e' => rw [ht] at h; simp at h; subst h; exact ih e' ht
      | ok r => rw [ht] at h; simp at h

theorem argsAsIntList_len {a : Val} (hp : Proper a) {n : Nat} (h : listLen a.erase ≠ n) :
    argsAsIntList a.erase n = .error .arg := by
  unfold argsAsIntList argsAsInts
  rw [asIter_proper hp]
  dsimp only
  cases ha : atomsOf (spine a.erase) with
  | error e => simp only; rw [atomsOf_err _ _ ha]
  | ok bs =>
    have := atomsOf_length _ _ ha
    rw [← listLen_eq] at this
    simp only [List.length_map]
    rw [if_pos (by simp; omega)]

/-! ### fixed-arity operators of `more_ops` -/

theorem opNot_agree (m : Nat) (a : Val) (c : Ctr) (_hw : a.wf = true) (hp : Proper a) :
    OpAgree m (Interp.opNot 0 m a c) (Ref.opNot a.erase) := by
  unfold Interp.opNot
  rcases getArgs1_cases a "not" with ⟨x, b, i, rfl, hg⟩ | ⟨hn, msg, hg⟩
  · rw [hg]
    dsimp only
    simp only [Proper, valTerminator] at hp
    subst hp
    simp only [Ref.opNot, argsAsBoolList, argsAsBools, asIter, Val.erase, List.isEmpty_nil, if_true,
      List.map, List.length_cons, List.length_nil]
    rw [nilp_erase]
    cases x.nilp
    · exact OpAgree.ok rfl nil_wf
    · exact OpAgree.ok rfl one_wf
  · rw [hg]
    simp only [Ref.opNot, argsAsBoolList, argsAsBools]
    rw [asIter_proper hp]
    simp only [List.length_map]
    rw [← listLen_eq, if_pos (by simpa using hn)]
    exact OpAgree.err rfl

theorem opStrlen_agree (m : Nat) (a : Val) (c : Ctr) (_hw : a.wf = true) :
    OpAgree m (Interp.opStrlen 0 m a c) (Ref.opStrlen a.erase) := by
  unfold Interp.opStrlen
  rcases getArgs1_cases a "strlen" with ⟨x, b, i, rfl, hg⟩ | ⟨hn, msg, hg⟩
  · rw [hg]
    simp only [Ref.opStrlen, Val.erase, listLen]
    cases x with
    | pair l r => exact OpAgree.err rfl
    | atom xb xi =>
      simp only [atomLen, Val.erase]
      exact allocNumber_agree m _ c _
  · rw [hg]
    simp only [Ref.opStrlen]
    rw [if_pos (by simpa using hn)]
    exact OpAgree.err rfl

theorem opLognot_agree (m : Nat) (a : Val) (c : Ctr) (hw : a.wf = true) (hp : Proper a) :
    OpAgree m (Interp.opLognot 0 m a c) (Ref.opLognot a.erase) := by
  unfold Interp.opLognot
  rcases getArgs1_cases a "lognot" with ⟨x, b, i, rfl, hg⟩ | ⟨hn, msg, hg⟩
  · rw [hg]
    dsimp only
    simp only [Proper, valTerminator] at hp
    subst hp
    simp only [Val.wf, Bool.and_eq_true] at hw
    cases x with
    | pair l r =>
      simp only [Ref.opLognot, argsAsIntList, argsAsInts, asIter, Val.erase, List.isEmpty_nil, if_true, atomsOf, intAtom]
      exact OpAgree.err rfl
    | atom xb xi =>
      rw [intAtom_wf hw.1]
      simp only [Ref.opLognot, argsAsIntList, argsAsInts, asIter, Val.erase, List.isEmpty_nil, if_true, atomsOf,
        List.map, List.length_cons, List.length_nil, asInt, intFromBytes_eq]
      exact allocNumber_agree m _ c _
  · rw [hg]
    simp only [Ref.opLognot]
    rw [argsAsIntList_len hp hn]
    exact OpAgree.err rfl

theorem bytesGt_eq : ∀ (x y : Bytes), Interp.bytesGt x y = Ref.bytesGt x y := by
  intro x
  induction x with
  | nil => intro y; rfl
  | cons a t ih =>
    intro y
    cases y with
    | nil => rfl
    | cons b u =>
      simp only [Interp.bytesGt, Ref.bytesGt, ih u]
      by_cases h1 : a.toNat > b.toNat
      · have : ¬ a.toNat = b.toNat := by omega
        simp [h1, this]
      · by_cases h2 : a.toNat < b.toNat
        · have : ¬ a.toNat = b.toNat := by omega
          simp [h1, h2, this]
        · have : a.toNat = b.toNat := by omega
          simp [this]

theorem opGrBytes_agree (m : Nat) (a : Val) (c : Ctr) (_hw : a.wf = true) (hp : Proper a) :
    OpAgree m (Interp.opGrBytes 0 m a c) (Ref.opGrBytes a.erase) := by
  unfold Interp.opGrBytes
  rcases getArgs2_cases a ">s" with ⟨x, y, b, i, rfl, hg⟩ | ⟨hn, msg, hg⟩
  · rw [hg]
    dsimp only
    simp only [Proper, valTerminator] at hp
    subst hp
    simp only [Ref.opGrBytes, asIter, Val.erase, List.isEmpty_nil, if_true]
    cases x with
    | pair l r => exact OpAgree.err rfl
    | atom b0 i0 =>
      cases y with
      | pair l r => exact OpAgree.err rfl
      | atom b1 i1 =>
        simp only [atomBytes, Val.erase, bytesGt_eq]
        cases Ref.bytesGt b0 b1
        · exact OpAgree.ok rfl nil_wf
        · exact OpAgree.ok rfl one_wf
  · rw [hg]
    simp only [Ref.opGrBytes]
    rw [asIter_proper hp]
    have hl := listLen_eq a.erase
    match hs : spine a.erase, hl with
    | [], _ => exact OpAgree.err rfl
    | [_], _ => exact OpAgree.err rfl
    | [_, _], hl => exact absurd hl hn
    | _ :: _ :: _ :: _, _ => exact OpAgree.err rfl

theorem opGr_agree (m : Nat) (a : Val) (c : Ctr) (hw : a.wf = true) (hp : Proper a) :
    OpAgree m (Interp.opGr {} 0 m a c) (Ref.opGr a.erase) := by
  rw [show ({} : Cfg) = { fastpath := true } from rfl, opGr_fastpath 0 m a c hw]
  unfold Interp.opGr
  rcases getArgs2_cases a ">" with ⟨x, y, b, i, rfl, hg⟩ | ⟨hn, msg, hg⟩
  · rw [hg]
    dsimp only
    simp only [Proper, valTerminator] at hp
    subst hp
    simp only [Val.wf, Bool.and_eq_true] at hw
    simp only [newModel0, Bool.false_eq_true, if_false]
    cases x with
    | pair l r =>
      simp only [Ref.opGr, argsAsIntList, argsAsInts, asIter, Val.erase, List.isEmpty_nil, if_true, atomsOf, intAtom]
      exact OpAgree.err rfl
    | atom b0 i0 =>
      rw [intAtom_wf hw.1]
      cases y with
      | pair l r =>
        simp only [Ref.opGr, argsAsIntList, argsAsInts, asIter, Val.erase, List.isEmpty_nil, if_true, atomsOf, intAtom]
        exact OpAgree.err rfl
      | atom b1 i1 =>
        rw [intAtom_wf hw.2.1]
        simp only [Ref.opGr, argsAsIntList, argsAsInts, asIter, Val.erase, List.isEmpty_nil, if_true, atomsOf,
          List.map, List.length_cons, List.length_nil, asInt, intFromBytes_eq, Nat.reduceAdd, bne_self_eq_false,
          Bool.false_eq_true, if_false]
        by_cases hgt : decodeInt b0 > decodeInt b1
        · rw [if_pos hgt, if_pos hgt]; exact OpAgree.ok rfl one_wf
        · rw [if_neg hgt, if_neg hgt]; exact OpAgree.ok rfl nil_wf
  · rw [hg]
    simp only [Ref.opGr]
    rw [argsAsIntList_len hp hn]
    exact OpAgree.err rfl

/-! ### `/` (through `Adapter.floorDiv`) and `divmod` -/

theorem hasFlag0 (bit : Nat) : hasFlag 0 bit = false := by simp [hasFlag]

/-- `divPrologue` on two integer atoms under default flags -/
theorem divPrologue_atoms (name errName : String) (ob opb m : Nat) {b0 b1 bt : Bytes} {i0 i1 it : Bool}
    (h0 : (Val.atom b0 i0).wf = true) (h1 : (Val.atom b1 i1).wf = true)
    (hg : getArgs2 ((Val.atom b0 i0).pair ((Val.atom b1 i1).pair (Val.atom bt it))) name =
      .ok (Val.atom b0 i0, Val.atom b1 i1)) :
    divPrologue intAtom name errName ob opb 0 m ((Val.atom b0 i0).pair ((Val.atom b1 i1).pair (Val.atom bt it))) =
      if ob + (b0.length + b1.length) * opb > m then .error .CostExceeded
      else if decodeInt b1 = 0 then .error .DivisionByZero
      else .ok (decodeInt b0, decodeInt b1, ob + (b0.length + b1.length) * opb) := by
  unfold divPrologue
  rw [hg]
  simp only [intAtom_wf h0, intAtom_wf h1, newModel0, hasFlag0, Bool.false_and, Bool.false_eq_true, if_false,
    checkCost]
  by_cases hc : ob + (b0.length + b1.length) * opb > m
  · simp only [hc, if_true]
  · simp only [hc, if_false]
    by_cases hz : decodeInt b1 = 0
    · simp [hz]
    · simp [hz]

theorem divPrologue_pair (name errName : String) (ob opb m : Nat) (x y t : Val)
    (hg : getArgs2 (x.pair (y.pair t)) name = .ok (x, y)) (hp : x.isPair = true ∨ (x.isPair = false ∧ y.isPair = true))
    (hx : x.wf = true) :
    ∃ msg, divPrologue intAtom name errName ob opb 0 m (x.pair (y.pair t)) = .error (.InvalidOpArg msg) := by
  unfold divPrologue
  rw [hg]
  rcases hp with hp | ⟨hp1, hp2⟩
  · cases x with
    | atom _ _ => simp [Val.isPair] at hp
    | pair l r => exact ⟨_, rfl⟩
  · cases x with
    | pair _ _ => simp [Val.isPair] at hp1
    | atom b0 i0 =>
      cases y with
      | atom _ _ => simp [Val.isPair] at hp2
      | pair l r => simp only [intAtom_wf hx]; exact ⟨_, rfl⟩

theorem opDiv_agree (m : Nat) (a : Val) (c : Ctr) (hw : a.wf = true) (hp : Proper a) :
    OpAgree m (Interp.opDiv 0 m a c) (Adapter.floorDiv a.erase) := by
  unfold Interp.opDiv
  rw [hasFlag0]
  simp only [Bool.false_eq_true, if_false]
  unfold opDivWith
  rcases getArgs2_cases a "/" with ⟨x, y, b, i, rfl, hg⟩ | ⟨hn, msg, hg⟩
  · simp only [Proper, valTerminator] at hp
    subst hp
    simp only [Val.wf, Bool.and_eq_true] at hw
    cases x with
    | pair l r =>
      obtain ⟨msg, hm⟩ := divPrologue_pair "/" "div" Gen.DIV_BASE_COST Gen.DIV_COST_PER_BYTE m _ y _ hg (Or.inl rfl) hw.1
      rw [hm]
      simp only [Adapter.floorDiv, argsAsIntList, argsAsInts, asIter, Val.erase, List.isEmpty_nil, if_true, atomsOf]
      exact OpAgree.err rfl
    | atom b0 i0 =>
      cases y with
      | pair l r =>
        obtain ⟨msg, hm⟩ := divPrologue_pair "/" "div" Gen.DIV_BASE_COST Gen.DIV_COST_PER_BYTE m _ _ _ hg
          (Or.inr ⟨rfl, rfl⟩) hw.1
        rw [hm]
        simp only [Adapter.floorDiv, argsAsIntList, argsAsInts, asIter, Val.erase, List.isEmpty_nil, if_true, atomsOf]
        exact OpAgree.err rfl
      | atom b1 i1 =>
        rw [divPrologue_atoms "/" "div" _ _ m hw.1 hw.2.1 hg]
        simp only [Adapter.floorDiv, argsAsIntList, argsAsInts, asIter, Val.erase, List.isEmpty_nil, if_true, atomsOf,
          List.map, List.length_cons, List.length_nil, asInt, intFromBytes_eq, Nat.reduceAdd, bne_self_eq_false,
          Bool.false_eq_true, if_false, pyDivmod]
        have hcst : Gen.DIV_BASE_COST + (b0.length + b1.length) * Gen.DIV_COST_PER_BYTE =
            DIV_BASE_COST + (b0.length + b1.length) * DIV_COST_PER_BYTE := rfl
        by_cases hz : decodeInt b1 = 0
        · simp only [hz, if_true]
          by_cases hc : Gen.DIV_BASE_COST + (b0.length + b1.length) * Gen.DIV_COST_PER_BYTE > m
          · simp only [hc, if_true]; exact ⟨_, rfl, Or.inr (Or.inl rfl)⟩
          · simp only [hc, if_false]; exact OpAgree.err rfl
        · simp only [hz, if_false]
          by_cases hc : Gen.DIV_BASE_COST + (b0.length + b1.length) * Gen.DIV_COST_PER_BYTE > m
          · simp only [hc, if_true]
            simp only [Ref.mallocCost, ofInt]
            exact Or.inr (Or.inl ⟨by rw [← hcst]; omega, rfl⟩)
          · simp only [hc, if_false]
            rw [hcst]
            exact allocNumber_agree m _ c _
  · have : ∃ msg, divPrologue intAtom "/" "div" Gen.DIV_BASE_COST Gen.DIV_COST_PER_BYTE 0 m a = .error (.InvalidOpArg msg) := by
      unfold divPrologue; rw [hg]; exact ⟨_, rfl⟩
    obtain ⟨msg', hm⟩ := this
    rw [hm]
    simp only [Adapter.floorDiv]
    rw [argsAsIntList_len hp hn]
    exact OpAgree.err rfl
theorem opDivmod_agree (m : Nat) (a : Val) (c : Ctr) (hw : a.wf = true) (hp : Proper a) :
    OpAgree m (Interp.opDivmod 0 m a c) (Ref.opDivmod a.erase) := by
  unfold Interp.opDivmod
  rw [hasFlag0]
  simp only [Bool.false_eq_true, if_false]
  unfold opDivmodWith
  rcases getArgs2_cases a "divmod" with ⟨x, y, b, i, rfl, hg⟩ | ⟨hn, msg, hg⟩
  · simp only [Proper, valTerminator] at hp
    subst hp
    simp only [Val.wf, Bool.and_eq_true] at hw
    cases x with
    | pair l r =>
      obtain ⟨msg, hm⟩ := divPrologue_pair "divmod" "divmod" Gen.DIVMOD_BASE_COST Gen.DIVMOD_COST_PER_BYTE m _ y _ hg (Or.inl rfl) hw.1
      rw [hm]
      simp only [Ref.opDivmod, argsAsIntList, argsAsInts, asIter, Val.erase, List.isEmpty_nil, if_true, atomsOf]
      exact OpAgree.err rfl
    | atom b0 i0 =>
      cases y with
      | pair l r =>
        obtain ⟨msg, hm⟩ := divPrologue_pair "divmod" "divmod" Gen.DIVMOD_BASE_COST Gen.DIVMOD_COST_PER_BYTE m _ _ _ hg
          (Or.inr ⟨rfl, rfl⟩) hw.1
        rw [hm]
        simp only [Ref.opDivmod, argsAsIntList, argsAsInts, asIter, Val.erase, List.isEmpty_nil, if_true, atomsOf]
        exact OpAgree.err rfl
      | atom b1 i1 =>
        rw [divPrologue_atoms "divmod" "divmod" _ _ m hw.1 hw.2.1 hg]
        simp only [Ref.opDivmod, argsAsIntList, argsAsInts, asIter, Val.erase, List.isEmpty_nil, if_true, atomsOf,
          List.map, List.length_cons, List.length_nil, asInt, intFromBytes_eq, Nat.reduceAdd, bne_self_eq_false,
          Bool.false_eq_true, if_false, pyDivmod, intToBytes_eq]
        have hcst : Gen.DIVMOD_BASE_COST + (b0.length + b1.length) * Gen.DIVMOD_COST_PER_BYTE =
            DIVMOD_BASE_COST + (b0.length + b1.length) * DIVMOD_COST_PER_BYTE := rfl
        by_cases hz : decodeInt b1 = 0
        · simp only [hz, if_true]
          by_cases hc : Gen.DIVMOD_BASE_COST + (b0.length + b1.length) * Gen.DIVMOD_COST_PER_BYTE > m
          · simp only [hc, if_true]; exact ⟨_, rfl, Or.inr (Or.inl rfl)⟩
          · simp only [hc, if_false]; exact OpAgree.err rfl
        · simp only [hz, if_false]
          by_cases hc : Gen.DIVMOD_BASE_COST + (b0.length + b1.length) * Gen.DIVMOD_COST_PER_BYTE > m
          · simp only [hc, if_true]
            exact Or.inr (Or.inl ⟨by rw [← hcst]; omega, rfl⟩)
          · simp only [hc, if_false]
            unfold allocNumber
            rcases allocAtom_cases c (encodeInt (Int.fdiv (decodeInt b0) (decodeInt b1))) with ⟨c1, h1⟩ | ⟨e, h1, hl⟩
            · rw [h1]
              dsimp only
              rcases allocAtom_cases c1 (encodeInt (Int.fmod (decodeInt b0) (decodeInt b1))) with ⟨c2, h2⟩ | ⟨e, h2, hl⟩
              · rw [h2]
                dsimp only
                rcases allocPair_cases c2 (Val.mkAtom (encodeInt (Int.fdiv (decodeInt b0) (decodeInt b1))))
                    (Val.mkAtom (encodeInt (Int.fmod (decodeInt b0) (decodeInt b1)))) with ⟨c3, h3⟩ | ⟨e, h3, hl⟩
                · rw [h3]
                  dsimp only
                  refine Or.inl ⟨(Val.mkAtom (encodeInt (Int.fdiv (decodeInt b0) (decodeInt b1)))).pair
                    (Val.mkAtom (encodeInt (Int.fmod (decodeInt b0) (decodeInt b1)))), c3, ?_, rfl, ?_⟩
                  · simp only [Interp.mallocCost, Val.mkAtom, hcst]
                    have : Gen.MALLOC_COST_PER_BYTE = MALLOC_COST_PER_BYTE := rfl
                    rw [this]
                    congr 2
                    generalize (encodeInt (Int.fdiv (decodeInt b0) (decodeInt b1))).length = A
                    generalize (encodeInt (Int.fmod (decodeInt b0) (decodeInt b1))).length = B
                    simp only [MALLOC_COST_PER_BYTE]; omega
                  · simp [Val.wf, mkAtom_wf]
                · rw [h3]; exact Or.inr (Or.inr ⟨e, rfl, hl⟩)
              · rw [h2]; exact Or.inr (Or.inr ⟨e, rfl, hl⟩)
            · rw [h1]; exact Or.inr (Or.inr ⟨e, rfl, hl⟩)
  · have : ∃ msg, divPrologue intAtom "divmod" "divmod" Gen.DIVMOD_BASE_COST Gen.DIVMOD_COST_PER_BYTE 0 m a = .error (.InvalidOpArg msg) := by
      unfold divPrologue; rw [hg]; exact ⟨_, rfl⟩
    obtain ⟨msg', hm⟩ := this
    rw [hm]
    simp only [Ref.opDivmod]
    rw [argsAsIntList_len hp hn]
    exact OpAgree.err rfl

/-! ### `any`, `all` -/

def boolStep (isAny : Bool) (acc : Bool) (a : Val) : Bool := if isAny then acc || !a.nilp else acc && !a.nilp

theorem boolLoop_closed (m : Nat) (isAny : Bool) : ∀ (l : List Val) (cost : Nat) (acc : Bool),
    boolLoop m isAny l cost acc =
      if l ≠ [] ∧ cost + l.length * Gen.BOOL_COST_PER_ARG > m then .error .CostExceeded
      else .ok (cost + l.length * Gen.BOOL_COST_PER_ARG, l.foldl (boolStep isAny) acc) := by
  intro l
  induction l with
  | nil => intro cost acc; simp [boolLoop]
  | cons a t ih =>
    intro cost acc
    simp only [boolLoop, checkCost]
    by_cases hc : cost + Gen.BOOL_COST_PER_ARG > m
    · simp only [hc, if_true]
      rw [if_pos ⟨by simp, by simp only [List.length_cons, Nat.add_mul]; omega⟩]
    · simp only [hc, if_false]
      rw [ih]
      simp only [List.length_cons, List.foldl_cons, boolStep]
      have e : cost + Gen.BOOL_COST_PER_ARG + t.length * Gen.BOOL_COST_PER_ARG =
          cost + (t.length + 1) * Gen.BOOL_COST_PER_ARG := by rw [Nat.add_mul]; omega
      rw [e]
      by_cases ht : t = []
      · subst ht
        simp only [List.length_nil, Nat.zero_add, Nat.one_mul, ne_eq, not_true_eq_false, false_and, if_false,
          List.cons_ne_nil, not_false_eq_true, true_and, hc]
      · simp only [ne_eq, ht, not_false_eq_true, true_and, List.cons_ne_nil]

theorem foldl_any (l : List Val) (acc : Bool) :
    l.foldl (boolStep true) acc = (acc || (l.map (fun a => !nullp a.erase)).any id) := by
  induction l generalizing acc with
  | nil => simp
  | cons a t ih => simp [List.foldl_cons, ih, boolStep, nilp_erase, Bool.or_assoc]

theorem foldl_all (l : List Val) (acc : Bool) :
    l.foldl (boolStep false) acc = (acc && (l.map (fun a => !nullp a.erase)).all id) := by
  induction l generalizing acc with
  | nil => simp
  | cons a t ih => simp [List.foldl_cons, ih, boolStep, nilp_erase, Bool.and_assoc]

theorem argsAsBools_proper {a : Val} (hp : Proper a) :
    argsAsBools a.erase = .ok ((argList a).map (fun x => !nullp x.erase)) := by
  unfold argsAsBools
  rw [asIter_proper hp, ← argList_erase]
  simp [List.map_map, Function.comp_def]

theorem opAny_agree (m : Nat) (a : Val) (c : Ctr) (_hw : a.wf = true) (hp : Proper a) :
    OpAgree m (Interp.opAny 0 m a c) (Ref.opAny a.erase) := by
  unfold Interp.opAny Ref.opAny
  rw [argsAsBools_proper hp, boolLoop_closed]
  simp only [List.length_map]
  have hk : Gen.BOOL_BASE_COST + (argList a).length * Gen.BOOL_COST_PER_ARG =
      BOOL_BASE_COST + (argList a).length * BOOL_COST_PER_ARG := rfl
  by_cases hc : argList a ≠ [] ∧ Gen.BOOL_BASE_COST + (argList a).length * Gen.BOOL_COST_PER_ARG > m
  · rw [if_pos hc]
    exact Or.inr (Or.inl ⟨by rw [← hk]; exact hc.2, rfl⟩)
  · rw [if_neg hc]
    simp only [foldl_any, Bool.false_or, hk]
    cases ((argList a).map (fun x => !nullp x.erase)).any id
    · exact OpAgree.ok rfl nil_wf
    · exact OpAgree.ok rfl one_wf

theorem opAll_agree (m : Nat) (a : Val) (c : Ctr) (_hw : a.wf = true) (hp : Proper a) :
    OpAgree m (Interp.opAll 0 m a c) (Ref.opAll a.erase) := by
  unfold Interp.opAll Ref.opAll
  rw [argsAsBools_proper hp, boolLoop_closed]
  simp only [List.length_map]
  have hk : Gen.BOOL_BASE_COST + (argList a).length * Gen.BOOL_COST_PER_ARG =
      BOOL_BASE_COST + (argList a).length * BOOL_COST_PER_ARG := rfl
  by_cases hc : argList a ≠ [] ∧ Gen.BOOL_BASE_COST + (argList a).length * Gen.BOOL_COST_PER_ARG > m
  · rw [if_pos hc]
    exact Or.inr (Or.inl ⟨by rw [← hk]; exact hc.2, rfl⟩)
  · rw [if_neg hc]
    simp only [foldl_all, Bool.true_and, hk]
    cases ((argList a).map (fun x => !nullp x.erase)).all id
    · exact OpAgree.ok rfl nil_wf
    · exact OpAgree.ok rfl one_wf

/-! ### `substr` -/

/-- `new_substr` with validated bounds: the sub-string, or a limit -/
theorem newSubstr_cases (c : Ctr) {b : Bytes} {i : Bool} (hw : (Val.atom b i).wf = true) (s e : Nat)
    (hse : s ≤ e) (he : e ≤ b.length) :
    (∃ v c', newSubstr c (.atom b i) s e = .ok (v, c') ∧ v.erase = .atom ((b.drop s).take (e - s)) ∧ v.wf = true) ∨
    (∃ err, newSubstr c (.atom b i) s e = .error err ∧ isLimit err = true) := by
  unfold newSubstr Ctr.checkAtomLimit
  by_cases hlim : (c.atoms == Gen.maxNumAtoms) = true
  · right; exact ⟨.TooManyAtoms, by simp [hlim], rfl⟩
  · left
    simp only [hlim, Bool.false_eq_true, if_false]
    cases i with
    | false =>
      simp only [show ¬ s > b.length by omega, show ¬ e > b.length by omega, show ¬ e < s by omega, if_false]
      exact ⟨_, _, rfl, rfl, rfl⟩
    | true =>
      simp only [wfInl_len hw, show ¬ s > b.length by omega, show ¬ e > b.length by omega, show ¬ e < s by omega, if_false]
      cases hf : fitsInSmallAtom ((b.drop s).take (e - s)) with
      | some v => exact ⟨_, _, rfl, rfl, by simp [Val.wf, hf]⟩
      | none => exact ⟨_, _, rfl, rfl, rfl⟩

/-- the index test of both sides -/
theorem substr_idx (size : Nat) (i1 i2 : Int) :
    (i2 < 0 ∨ i1 < 0 ∨ i2.toNat > size ∨ i2 < i1) ↔ (i2 > (size : Int) ∨ i2 < i1 ∨ i2 < 0 ∨ i1 < 0) := by
  omega

theorem opSubstr_agree (m : Nat) (a : Val) (c : Ctr) (hw : a.wf = true) (hp : Proper a) :
    OpAgree m (Interp.opSubstr 0 m a c) (Ref.opSubstr a.erase) := by
  unfold Interp.opSubstr getVarargs
  have hlen := argList_length a
  by_cases h2 : listLen a.erase = 2
  · -- two arguments
    have hl2 : (argList a).length = 2 := by omega
    match hal : argList a, hl2 with
    | [x, y], _ =>
      obtain ⟨r1, rfl, hr1⟩ := argList_cons hal
      obtain ⟨r2, rfl, hr2⟩ := argList_cons hr1
      obtain ⟨bt, it, rfl⟩ := argList_nil hr2
      simp only [Proper, valTerminator] at hp
      subst hp
      simp only [Val.wf, Bool.and_eq_true] at hw
      simp only [argList, List.length_cons, List.length_nil, show ¬ (0 + 1 + 1 > 3) by omega, if_false,
        show ¬ (0 + 1 + 1 < 2 ∨ 0 + 1 + 1 > 3) by omega, List.getD_cons_zero, List.getD_cons_succ]
      simp only [Ref.opSubstr, Val.erase, listLen]
      cases x with
      | pair l r => exact OpAgree.err rfl
      | atom b0 i0 =>
        simp only [atomLen, Val.erase]
        cases y with
        | pair l r =>
          simp only [i32Atom, node, argsAsInt32, asIter, List.isEmpty_nil, if_true, atomsOf, Val.erase]
          exact OpAgree.err rfl
        | atom b1 i1 =>
          rcases i32Atom_wf hw.2.1 "substr" with ⟨hl4, hi⟩ | ⟨hl4, msg, hi⟩
          · rw [hi]
            have hany : ([b1].any fun b => decide (b.length > 4)) = false := by simp; omega
            simp only [argsAsInt32, asIter, List.isEmpty_nil, if_true, atomsOf, Val.erase, hany, Bool.false_eq_true,
              if_false, List.map, asInt, intFromBytes_eq, show ((0 + 1 + 1 : Nat) == 3) = false by decide,
              show ((0 + 1 + 1 : Nat) == 2) = true by decide, show ((0 + 1 + 1 : Nat) != 2) = false by decide,
              false_and, Bool.false_eq_true, if_false, if_true]
            by_cases hidx : ((b0.length : Int) < 0 ∨ decodeInt b1 < 0 ∨ (b0.length : Int).toNat > b0.length ∨
                (b0.length : Int) < decodeInt b1)
            · rw [if_pos hidx, if_pos ((substr_idx _ _ _).1 hidx)]
              exact OpAgree.err rfl
            · rw [if_neg hidx, if_neg (fun h => hidx ((substr_idx _ _ _).2 h))]
              have hs : (decodeInt b1).toNat ≤ ((b0.length : Int)).toNat := by omega
              rcases newSubstr_cases c hw.1 (decodeInt b1).toNat ((b0.length : Int)).toNat hs (by omega) with
                ⟨v, c', hn, hv, hwf⟩ | ⟨err, hn, hl⟩
              · rw [hn]; exact OpAgree.ok hv hwf
              · rw [hn]; exact Or.inr (Or.inr ⟨err, rfl, hl⟩)
          · rw [hi]
            have hany : ([b1].any fun b => decide (b.length > 4)) = true := by simp; omega
            simp only [argsAsInt32, asIter, List.isEmpty_nil, if_true, atomsOf, Val.erase, hany,
              show ((0 + 1 + 1 : Nat) != 2) = false by decide, false_and, Bool.false_eq_true, if_false]
            exact OpAgree.err rfl
  · by_cases h3 : listLen a.erase = 3
    · have hl3 : (argList a).length = 3 := by omega
      match hal : argList a, hl3 with
      | [x, y, z], _ =>
        obtain ⟨r1, rfl, hr1⟩ := argList_cons hal
        obtain ⟨r2, rfl, hr2⟩ := argList_cons hr1
        obtain ⟨r3, rfl, hr3⟩ := argList_cons hr2
        obtain ⟨bt, it, rfl⟩ := argList_nil hr3
        simp only [Proper, valTerminator] at hp
        subst hp
        simp only [Val.wf, Bool.and_eq_true] at hw
        simp only [argList, List.length_cons, List.length_nil, show ¬ (0 + 1 + 1 + 1 > 3) by omega, if_false,
          show ¬ (0 + 1 + 1 + 1 < 2 ∨ 0 + 1 + 1 + 1 > 3) by omega, List.getD_cons_zero, List.getD_cons_succ]
        simp only [show ¬ ((0 : Nat) + 1 + 1 + 1 < 2) by omega, or_self, if_false]
        simp only [Ref.opSubstr, Val.erase, listLen]
        cases x with
        | pair l r => exact OpAgree.err rfl
        | atom b0 i0 =>
          simp only [atomLen, Val.erase]
          cases y with
          | pair l r =>
            simp only [i32Atom, node, argsAsInt32, asIter, List.isEmpty_nil, if_true, atomsOf, Val.erase]
            exact OpAgree.err rfl
          | atom b1 i1 =>
            cases z with
            | pair l r =>
              rcases i32Atom_wf hw.2.1 "substr" with ⟨_, hi⟩ | ⟨_, msg, hi⟩
              · rw [hi]
                simp only [show ((0 + 1 + 1 + 1 : Nat) == 3) = true by decide, if_true, i32Atom, node]
                simp only [argsAsInt32, asIter, List.isEmpty_nil, if_true, atomsOf, Val.erase,
                  show ((0 + 1 + 1 + 1 : Nat) != 3) = false by decide, and_false, Bool.false_eq_true, if_false]
                exact OpAgree.err rfl
              · rw [hi]
                simp only [argsAsInt32, asIter, List.isEmpty_nil, if_true, atomsOf, Val.erase,
                  show ((0 + 1 + 1 + 1 : Nat) != 3) = false by decide, and_false, Bool.false_eq_true, if_false]
                exact OpAgree.err rfl
            | atom b2 i2 =>
              rcases i32Atom_wf hw.2.1 "substr" with ⟨hl4, hi⟩ | ⟨hl4, msg, hi⟩
              · rw [hi]
                rcases i32Atom_wf hw.2.2.1 "substr" with ⟨hl4', hi'⟩ | ⟨hl4', msg', hi'⟩
                · have hany : ([b1, b2].any fun b => decide (b.length > 4)) = false := by simp; omega
                  simp only [show ((0 + 1 + 1 + 1 : Nat) == 3) = true by decide, if_true, hi']
                  simp only [argsAsInt32, asIter, List.isEmpty_nil, if_true, atomsOf, Val.erase, hany, Bool.false_eq_true,
                    if_false, List.map, asInt, intFromBytes_eq,
                    show ((0 + 1 + 1 + 1 : Nat) == 2) = false by decide, show ((0 + 1 + 1 + 1 : Nat) != 2) = true by decide,
                    show ((0 + 1 + 1 + 1 : Nat) != 3) = false by decide, and_false, Bool.false_eq_true, if_false]
                  by_cases hidx : (decodeInt b2 < 0 ∨ decodeInt b1 < 0 ∨ (decodeInt b2).toNat > b0.length ∨
                      decodeInt b2 < decodeInt b1)
                  · rw [if_pos hidx, if_pos ((substr_idx _ _ _).1 hidx)]
                    exact OpAgree.err rfl
                  · rw [if_neg hidx, if_neg (fun h => hidx ((substr_idx _ _ _).2 h))]
                    rcases newSubstr_cases c hw.1 (decodeInt b1).toNat (decodeInt b2).toNat (by omega) (by omega) with
                      ⟨v, c', hn, hv, hwf⟩ | ⟨err, hn, hl⟩
                    · rw [hn]; exact OpAgree.ok hv hwf
                    · rw [hn]; exact Or.inr (Or.inr ⟨err, rfl, hl⟩)
                · have hany : ([b1, b2].any fun b => decide (b.length > 4)) = true := by simp; omega
                  simp only [show ((0 + 1 + 1 + 1 : Nat) == 3) = true by decide, if_true, hi']
                  simp only [argsAsInt32, asIter, List.isEmpty_nil, if_true, atomsOf, Val.erase, hany,
                    show ((0 + 1 + 1 + 1 : Nat) != 2) = true by decide,
                    show ((0 + 1 + 1 + 1 : Nat) != 3) = false by decide, and_false, Bool.false_eq_true, if_false]
                  exact OpAgree.err rfl
              · rw [hi]
                have hany : ([b1, b2].any fun b => decide (b.length > 4)) = true := by simp; omega
                simp only [argsAsInt32, asIter, List.isEmpty_nil, if_true, atomsOf, Val.erase, hany,
                  show ((0 + 1 + 1 + 1 : Nat) != 2) = true by decide,
                  show ((0 + 1 + 1 + 1 : Nat) != 3) = false by decide, and_false, Bool.false_eq_true, if_false]
                exact OpAgree.err rfl
    · -- wrong number of arguments
      have href : Ref.opSubstr a.erase = .error .arg := by
        unfold Ref.opSubstr
        have : (listLen a.erase != 2 ∧ listLen a.erase != 3) := by simp [h2, h3]
        simp only [this, and_self, if_true]
      rw [href]
      by_cases hgt : (argList a).length > 3
      · simp only [hgt, if_true]; exact OpAgree.err rfl
      · simp only [hgt, if_false]
        rw [if_pos (by omega)]
        exact OpAgree.err rfl

/-! ### `ash`, `lsh` -/

theorem shift_eq (i0 a1 : Int) : shiftInt i0 a1 = pyShift i0 a1 := by
  unfold shiftInt pyShift
  by_cases h : a1 > 0
  · simp only [h, if_true, show a1 ≥ 0 by omega]
  · simp only [h, if_false]
    by_cases h0 : a1 = 0
    · subst h0; simp [Int.fdiv_eq_ediv_of_nonneg]
    · have hn : ¬ a1 ≥ 0 := by omega
      simp only [hn, if_false]
      rw [Int.shiftRight_eq_div_pow, Int.fdiv_eq_ediv_of_nonneg _ (Int.le_of_lt (Int.pow_pos (by omega)))]
      simp
theorem shift_range (a1 : Int) : (a1 < -65535 ∨ a1 > 65535) ↔ a1.natAbs > 65535 := by omega

theorem opAsh_agree (m : Nat) (a : Val) (c : Ctr) (hw : a.wf = true) (hp : Proper a) :
    OpAgree m (Interp.opAsh 0 m a c) (Ref.opAsh a.erase) := by
  unfold Interp.opAsh
  rcases getArgs2_cases a "ash" with ⟨x, y, b, i, rfl, hg⟩ | ⟨hn, msg, hg⟩
  · rw [hg]
    dsimp only
    simp only [Proper, valTerminator] at hp
    subst hp
    simp only [Val.wf, Bool.and_eq_true] at hw
    cases x with
    | pair l r =>
      simp only [Ref.opAsh, argsAsIntList, argsAsInts, asIter, Val.erase, List.isEmpty_nil, if_true, atomsOf, intAtom]
      exact OpAgree.err rfl
    | atom b0 i0 =>
      rw [intAtom_wf hw.1]
      dsimp only
      cases y with
      | pair l r =>
        simp only [Ref.opAsh, argsAsIntList, argsAsInts, asIter, Val.erase, List.isEmpty_nil, if_true, atomsOf,
          i32Atom, node]
        exact OpAgree.err rfl
      | atom b1 i1 =>
        simp only [Ref.opAsh, argsAsIntList, argsAsInts, asIter, Val.erase, List.isEmpty_nil, if_true, atomsOf,
          List.map, List.length_cons, List.length_nil, asInt, intFromBytes_eq, Nat.reduceAdd, bne_self_eq_false,
          Bool.false_eq_true, if_false]
        rcases i32Atom_wf hw.2.1 "ash" with ⟨hl4, hi⟩ | ⟨hl4, msg, hi⟩
        · rw [hi]
          dsimp only
          rw [if_neg (by omega : ¬ b1.length > 4)]
          by_cases hs : (decodeInt b1 < -65535 ∨ decodeInt b1 > 65535)
          · rw [if_pos hs, if_pos ((shift_range _).1 hs)]
            exact OpAgree.err rfl
          · rw [if_neg hs, if_neg (fun h => hs ((shift_range _).2 h))]
            rw [shift_eq, limbs_eq]
            exact allocNumber_agree m _ c _
        · rw [hi]
          rw [if_pos hl4]
          exact OpAgree.err rfl
  · rw [hg]
    simp only [Ref.opAsh]
    rw [argsAsIntList_len hp hn]
    exact OpAgree.err rfl

theorem opLsh_agree (m : Nat) (a : Val) (c : Ctr) (hw : a.wf = true) (hp : Proper a) :
    OpAgree m (Interp.opLsh 0 m a c) (Ref.opLsh a.erase) := by
  unfold Interp.opLsh
  rcases getArgs2_cases a "lsh" with ⟨x, y, b, i, rfl, hg⟩ | ⟨hn, msg, hg⟩
  · rw [hg]
    dsimp only
    simp only [Proper, valTerminator] at hp
    subst hp
    simp only [Val.wf, Bool.and_eq_true] at hw
    cases x with
    | pair l r =>
      simp only [Ref.opLsh, argsAsIntList, argsAsInts, asIter, Val.erase, List.isEmpty_nil, if_true, atomsOf, atomBytes]
      exact OpAgree.err rfl
    | atom b0 i0 =>
      simp only [atomBytes]
      cases y with
      | pair l r =>
        simp only [Ref.opLsh, argsAsIntList, argsAsInts, asIter, Val.erase, List.isEmpty_nil, if_true, atomsOf,
          i32Atom, node]
        exact OpAgree.err rfl
      | atom b1 i1 =>
        simp only [Ref.opLsh, argsAsIntList, argsAsInts, asIter, Val.erase, List.isEmpty_nil, if_true, atomsOf,
          List.map, List.length_cons, List.length_nil, asInt, intFromBytes_eq, Nat.reduceAdd, bne_self_eq_false,
          Bool.false_eq_true, if_false]
        rcases i32Atom_wf hw.2.1 "lsh" with ⟨hl4, hi⟩ | ⟨hl4, msg, hi⟩
        · rw [hi]
          dsimp only
          rw [if_neg (by omega : ¬ b1.length > 4)]
          by_cases hs : (decodeInt b1 < -65535 ∨ decodeInt b1 > 65535)
          · rw [if_pos hs, if_pos ((shift_range _).1 hs)]
            exact OpAgree.err rfl
          · rw [if_neg hs, if_neg (fun h => hs ((shift_range _).2 h))]
            rw [shift_eq, limbs_eq]
            exact allocNumber_agree m _ c _
        · rw [hi]
          rw [if_pos hl4]
          exact OpAgree.err rfl
  · rw [hg]
    simp only [Ref.opLsh]
    rw [argsAsIntList_len hp hn]
    exact OpAgree.err rfl


end Clvm.Ref
