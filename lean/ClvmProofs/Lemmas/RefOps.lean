/-
C01, layer 1: per-operator agreement between the interpreter model (`Clvm.Interp.opX`, default
flags, any budget) and the reference (`Clvm.Ref.opX`).  Every lemma has the shape
`OpAgree m (Interp.opX … 0 m a c) (Ref.opX a.erase)` for an arbitrary well-formed value `a`
(any representation tags) — see `OpAgree` in `RefBase.lean`.  Operators whose reference version
iterates with `as_iter` additionally need the argument list to be a proper list (`Proper`), which
holds for every evaluated operand list; `list_len`-based operators do not.
-/
import ClvmProofs.Lemmas.RefBase
import ClvmProofs.Lemmas.Interp.ReprAux

namespace Clvm.Ref
open Clvm Clvm.Interp Clvm.Alloc

/-- the argument list ends in nil (always true of an evaluated operand list) -/
def Proper (a : Val) : Prop := valTerminator a = []

theorem newModel0 : newModel 0 = false := by decide


theorem getArgs1_cases (a : Val) (name : String) :
    (∃ x b i, a = .pair x (.atom b i) ∧ getArgs1 a name = .ok x) ∨
    (listLen a.erase ≠ 1 ∧ ∃ msg, getArgs1 a name = .error (.InvalidOpArg msg)) := by
  unfold getArgs1
  by_cases h : listLen a.erase = 1
  · left
    rw [getArgs_of_len name h]
    have hl := argList_length a
    rw [h] at hl
    match hal : argList a, hl with
    | [x], _ =>
      obtain ⟨r, rfl, hr⟩ := argList_cons hal
      obtain ⟨b, i, rfl⟩ := argList_nil hr
      exact ⟨x, b, i, rfl, rfl⟩
  · right
    obtain ⟨msg, hm⟩ := getArgs_of_ne name h
    exact ⟨h, msg, by rw [hm]⟩

theorem getArgs2_cases (a : Val) (name : String) :
    (∃ x y b i, a = .pair x (.pair y (.atom b i)) ∧ getArgs2 a name = .ok (x, y)) ∨
    (listLen a.erase ≠ 2 ∧ ∃ msg, getArgs2 a name = .error (.InvalidOpArg msg)) := by
  unfold getArgs2
  by_cases h : listLen a.erase = 2
  · left
    rw [getArgs_of_len name h]
    have hl := argList_length a
    rw [h] at hl
    match hal : argList a, hl with
    | [x, y], _ =>
      obtain ⟨r, rfl, hr⟩ := argList_cons hal
      obtain ⟨r2, rfl, hr2⟩ := argList_cons hr
      obtain ⟨b, i, rfl⟩ := argList_nil hr2
      exact ⟨x, y, b, i, rfl, rfl⟩
  · right
    obtain ⟨msg, hm⟩ := getArgs_of_ne name h
    exact ⟨h, msg, by rw [hm]⟩

theorem getArgs3_cases (a : Val) (name : String) :
    (∃ x y z b i, a = .pair x (.pair y (.pair z (.atom b i))) ∧ getArgs3 a name = .ok (x, y, z)) ∨
    (listLen a.erase ≠ 3 ∧ ∃ msg, getArgs3 a name = .error (.InvalidOpArg msg)) := by
  unfold getArgs3
  by_cases h : listLen a.erase = 3
  · left
    rw [getArgs_of_len name h]
    have hl := argList_length a
    rw [h] at hl
    match hal : argList a, hl with
    | [x, y, z], _ =>
      obtain ⟨r, rfl, hr⟩ := argList_cons hal
      obtain ⟨r2, rfl, hr2⟩ := argList_cons hr
      obtain ⟨r3, rfl, hr3⟩ := argList_cons hr2
      obtain ⟨b, i, rfl⟩ := argList_nil hr3
      exact ⟨x, y, z, b, i, rfl, rfl⟩
  · right
    obtain ⟨msg, hm⟩ := getArgs_of_ne name h
    exact ⟨h, msg, by rw [hm]⟩

/-- the common tail `allocate the number, charge malloc_cost` -/
theorem allocNumber_agree (m cost : Nat) (c : Ctr) (v : Int) :
    OpAgree m
      (match allocNumber c v with
       | .error e => .error e
       | .ok (r, c') => .ok (Interp.mallocCost cost r, r, c'))
      (Ref.mallocCost cost (ofInt v)) := by
  unfold allocNumber
  simp only [Ref.mallocCost, ofInt, intToBytes_eq]
  rcases allocAtom_cases c (encodeInt v) with ⟨c', h⟩ | ⟨e, h, hl⟩
  · rw [h]
    simp only [Interp.mallocCost, Val.mkAtom]
    exact OpAgree.ok rfl (mkAtom_wf _)
  · rw [h]; exact Or.inr (Or.inr ⟨e, rfl, hl⟩)

/-! ### core operators -/

theorem opIf_agree (m : Nat) (a : Val) (c : Ctr) (hw : a.wf = true) :
    OpAgree m (Interp.opIf 0 m a c) (Ref.opIf a.erase) := by
  unfold Interp.opIf
  rcases getArgs3_cases a "i" with ⟨x, y, z, b, i, rfl, hg⟩ | ⟨hn, msg, hg⟩
  · rw [hg]
    simp only [Val.wf, Bool.and_eq_true] at hw
    simp only [Ref.opIf, Val.erase, listLen, newModel0]
    rw [nilp_erase]
    cases hx : x.nilp
    · exact OpAgree.ok rfl hw.2.1
    · exact OpAgree.ok rfl hw.2.2.1
  · rw [hg]
    simp only [Ref.opIf]
    rw [if_pos (by simpa using hn)]
    exact OpAgree.err rfl

theorem opCons_agree (m : Nat) (a : Val) (c : Ctr) (hw : a.wf = true) :
    OpAgree m (Interp.opCons 0 m a c) (Ref.opCons a.erase) := by
  unfold Interp.opCons
  rcases getArgs2_cases a "c" with ⟨x, y, b, i, rfl, hg⟩ | ⟨hn, msg, hg⟩
  · rw [hg]
    simp only [Val.wf, Bool.and_eq_true] at hw
    simp only [Ref.opCons, Val.erase, listLen]
    rcases allocPair_cases c x y with ⟨c', h⟩ | ⟨e, h, hl⟩
    · rw [h]; exact OpAgree.ok rfl (by simp [Val.wf, hw.1, hw.2.1])
    · rw [h]; exact Or.inr (Or.inr ⟨e, rfl, hl⟩)
  · rw [hg]
    simp only [Ref.opCons]
    rw [if_pos (by simpa using hn)]
    exact OpAgree.err rfl

theorem opFirst_agree (m : Nat) (a : Val) (c : Ctr) (hw : a.wf = true) :
    OpAgree m (Interp.opFirst 0 m a c) (Ref.opFirst a.erase) := by
  unfold Interp.opFirst
  rcases getArgs1_cases a "f" with ⟨x, b, i, rfl, hg⟩ | ⟨hn, msg, hg⟩
  · rw [hg]
    simp only [Val.wf, Bool.and_eq_true] at hw
    simp only [Ref.opFirst, Val.erase, listLen]
    cases x with
    | atom xb xi => exact OpAgree.err rfl
    | pair l r =>
      simp only [Val.wf, Bool.and_eq_true] at hw
      exact OpAgree.ok rfl hw.1.1
  · rw [hg]
    simp only [Ref.opFirst]
    rw [if_pos (by simpa using hn)]
    exact OpAgree.err rfl

theorem opRest_agree (m : Nat) (a : Val) (c : Ctr) (hw : a.wf = true) :
    OpAgree m (Interp.opRest 0 m a c) (Ref.opRest a.erase) := by
  unfold Interp.opRest
  rcases getArgs1_cases a "r" with ⟨x, b, i, rfl, hg⟩ | ⟨hn, msg, hg⟩
  · rw [hg]
    simp only [Val.wf, Bool.and_eq_true] at hw
    simp only [Ref.opRest, Val.erase, listLen]
    cases x with
    | atom xb xi => exact OpAgree.err rfl
    | pair l r =>
      simp only [Val.wf, Bool.and_eq_true] at hw
      exact OpAgree.ok rfl hw.1.2
  · rw [hg]
    simp only [Ref.opRest]
    rw [if_pos (by simpa using hn)]
    exact OpAgree.err rfl

theorem opListp_agree (m : Nat) (a : Val) (c : Ctr) (_hw : a.wf = true) :
    OpAgree m (Interp.opListp 0 m a c) (Ref.opListp a.erase) := by
  unfold Interp.opListp
  rcases getArgs1_cases a "l" with ⟨x, b, i, rfl, hg⟩ | ⟨hn, msg, hg⟩
  · rw [hg]
    simp only [Ref.opListp, Val.erase, listLen, newModel0]
    rw [isPair_erase]
    cases x.isPair
    · exact OpAgree.ok rfl nil_wf
    · exact OpAgree.ok rfl one_wf
  · rw [hg]
    simp only [Ref.opListp]
    rw [if_pos (by simpa using hn)]
    exact OpAgree.err rfl

theorem opRaise_agree (m : Nat) (a : Val) (c : Ctr) :
    OpAgree m (Interp.opRaise 0 m a c) (Ref.opRaise a.erase) := OpAgree.err rfl

theorem opEq_agree (m : Nat) (a : Val) (c : Ctr) (_hw : a.wf = true) :
    OpAgree m (Interp.opEq 0 m a c) (Ref.opEq a.erase) := by
  unfold Interp.opEq
  rcases getArgs2_cases a "=" with ⟨x, y, b, i, rfl, hg⟩ | ⟨hn, msg, hg⟩
  · rw [hg]
    simp only [Ref.opEq, Val.erase, listLen]
    cases x with
    | pair l r => exact OpAgree.err rfl
    | atom b0 i0 =>
      cases y with
      | pair l r => exact OpAgree.err rfl
      | atom b1 i1 =>
        simp only [Val.erase]
        cases b0 == b1
        · exact OpAgree.ok rfl nil_wf
        · exact OpAgree.ok rfl one_wf
  · rw [hg]
    simp only [Ref.opEq]
    rw [if_pos (by simpa using hn)]
    exact OpAgree.err rfl

/-! ### integers: `limbs`, `i32_atom` -/


theorem natBE_succ (n : Nat) (h : n ≠ 0) : natBE n = natBE (n / 256) ++ [UInt8.ofNat (n % 256)] := by
  rw [natBE]; simp [h]

theorem natBE_bounds : ∀ (n : Nat), n ≠ 0 →
    1 ≤ (natBE n).length ∧ 256 ^ ((natBE n).length - 1) ≤ n ∧ n < 256 ^ (natBE n).length := by
  intro n
  induction n using Nat.strongRecOn with
  | _ n ih =>
    intro h
    rw [natBE_succ n h]
    by_cases hs : n / 256 = 0
    · have : natBE (n / 256) = [] := by rw [hs, natBE]; simp
      rw [this]
      simp only [List.nil_append, List.length_singleton]
      omega
    · obtain ⟨h1, h2, h3⟩ := ih (n / 256) (by omega) hs
      simp only [List.length_append, List.length_singleton, Nat.add_sub_cancel]
      generalize (natBE (n / 256)).length = L at h1 h2 h3
      obtain ⟨k, rfl⟩ : ∃ k, L = k + 1 := ⟨L - 1, by omega⟩
      simp only [Nat.add_sub_cancel] at h2
      refine ⟨by omega, ?_, ?_⟩
      · rw [Nat.pow_succ]; omega
      · rw [Nat.pow_succ]; omega

theorem limbs_eq (v : Int) : limbs v = limbsForInt v := by
  unfold limbs limbsForInt bitLength Py.Casts.bitLength
  by_cases h0 : v.natAbs = 0
  · simp [h0, natBE]
  · simp only [h0, if_false]
    obtain ⟨h1, h2, h3⟩ := natBE_bounds v.natAbs h0
    generalize (natBE v.natAbs).length = L at h1 h2 h3
    generalize hn : v.natAbs = n at *
    have hb1 : 2 ^ n.log2 ≤ n := Nat.log2_self_le h0
    have hb2 : n < 2 ^ (n.log2 + 1) := Nat.lt_log2_self
    have e1 : 256 ^ (L - 1) = 2 ^ (8 * (L - 1)) := by rw [show (256 : Nat) = 2 ^ 8 from rfl, ← Nat.pow_mul]
    have e2 : 256 ^ L = 2 ^ (8 * L) := by rw [show (256 : Nat) = 2 ^ 8 from rfl, ← Nat.pow_mul]
    rw [e1] at h2; rw [e2] at h3
    have c1 : n.log2 < 8 * L := (Nat.pow_lt_pow_iff_right (by omega : 1 < 2)).1 (Nat.lt_of_le_of_lt hb1 h3)
    have c2 : 8 * (L - 1) < n.log2 + 1 := (Nat.pow_lt_pow_iff_right (by omega : 1 < 2)).1 (Nat.lt_of_le_of_lt h2 hb2)
    rw [Nat.shiftRight_eq_div_pow]
    omega


theorem i32FromU8_eq (b : Bytes) (h : b.length ≤ 4) : i32FromU8 b = some (decodeInt b) := by
  cases b with
  | nil => rfl
  | cons x t =>
    have hx : x.toNat < 256 := x.toNat_lt
    have hc := beNat_cons x t
    have hlt := beNat_lt t
    simp only [List.length_cons] at h
    have hu : u32FromU8Impl (x :: t) true =
        some (if 128 ≤ x.toNat then 2 ^ 32 - 256 ^ (t.length + 1) + beNat (x :: t) else beNat (x :: t)) := by
      unfold u32FromU8Impl
      simp only [List.length_cons, show ¬ (t.length + 1 > 4) by omega, if_false, Bool.true_and,
        Py.CastsLemmas.topBit]
      by_cases hs : 128 ≤ x.toNat <;> simp [hs]
    unfold i32FromU8
    rw [hu]
    simp only [bind, Option.bind, pure, Option.map_some]
    simp only [decodeInt, List.length_cons]
    generalize hL : t.length = L at *
    generalize beNat (x :: t) = N at *
    generalize beNat t = T at *
    have hL4 : L = 0 ∨ L = 1 ∨ L = 2 ∨ L = 3 := by omega
    congr 1
    by_cases hs : 128 ≤ x.toNat
    · simp only [hs, if_true]
      rcases hL4 with rfl | rfl | rfl | rfl <;> simp only [Nat.reducePow, Nat.reduceAdd, Int.reducePow] at * <;> (split <;> omega)
    · simp only [hs, if_false]
      rcases hL4 with rfl | rfl | rfl | rfl <;> simp only [Nat.reducePow, Nat.reduceAdd, Int.reducePow] at * <;> (split <;> omega)

theorem i32Atom_wf {b : Bytes} {i : Bool} (h : (Val.atom b i).wf = true) (name : String) :
    (b.length ≤ 4 ∧ i32Atom (.atom b i) name = .ok (decodeInt b)) ∨
    (4 < b.length ∧ ∃ msg, i32Atom (.atom b i) name = .error (.InvalidOpArg msg)) := by
  cases i with
  | true =>
    left
    have hf := wf_inline h
    refine ⟨hf.len4, ?_⟩
    simp only [i32Atom, node]
    rw [wfInl_decode h]
  | false =>
    simp only [i32Atom, node]
    by_cases hl : b.length ≤ 4
    · left; refine ⟨hl, ?_⟩; rw [i32FromU8_eq b hl]
    · right
      refine ⟨by omega, ?_⟩
      have : i32FromU8 b = none := by
        cases b with
        | nil => simp at hl
        | cons x t =>
          unfold i32FromU8 u32FromU8Impl
          simp only [List.length_cons] at hl
          simp [show t.length + 1 > 4 by omega]
      rw [this]; exact ⟨_, rfl⟩

/-! ### `as_iter` on a proper list -/

theorem asIter_proper {a : Val} (hp : Proper a) : asIter a.erase = .ok (spine a.erase) := by
  rw [asIter_eq, valTerminator_erase, hp]; rfl

theorem atomsOf_length : ∀ (l : List Tree) (bs : List Bytes), atomsOf l = .ok bs → bs.length = l.length := by
  intro l
  induction l with
  | nil => intro bs h; simp [atomsOf] at h; subst h; rfl
  | cons x t ih =>
    intro bs h
    cases x with
    | pair _ _ => simp [atomsOf] at h
    | atom b =>
      simp only [atomsOf] at h
      cases ht : atomsOf t with
      | error e => rw [ht] at h; simp at h
      | ok r =>
        rw [ht] at h
        simp only [Except.ok.injEq] at h
        subst h
        simp [ih r ht]

theorem atomsOf_err : ∀ (l : List Tree) (e : RefErr), atomsOf l = .error e → e = .arg := by
  intro l
  induction l with
  | nil => intro e h; simp [atomsOf] at h
  | cons x t ih =>
    intro e h
    cases x with
    | pair _ _ => simp [atomsOf] at h; exact h.symm
    | atom b =>
      simp only [atomsOf] at h
      cases ht : atomsOf t with
      | error e' => rw [ht] at h; simp at h; subst h; exact ih e' ht
      | ok r => rw [ht] at h; simp at h

theorem argsAsIntList_len {a : Val} (hp : Proper a) {n : Nat} (h : listLen a.erase ≠ n) :
    argsAsIntList a.erase n = .error .arg := by
  unfold argsAsIntList argsAsInts
  rw [asIter_proper hp]
  dsimp only
  cases ha : atomsOf (spine a.erase) with
  | error e => simp only; rw [atomsOf_err _ _ ha]
  | ok bs =>
    have := atomsOf_length _ _ ha
    rw [← listLen_eq] at this
    simp only [List.length_map]
    rw [if_pos (by simp; omega)]

/-! ### fixed-arity operators of `more_ops` -/

theorem opNot_agree (m : Nat) (a : Val) (c : Ctr) (_hw : a.wf = true) (hp : Proper a) :
    OpAgree m (Interp.opNot 0 m a c) (Ref.opNot a.erase) := by
  unfold Interp.opNot
  rcases getArgs1_cases a "not" with ⟨x, b, i, rfl, hg⟩ | ⟨hn, msg, hg⟩
  · rw [hg]
    dsimp only
    simp only [Proper, valTerminator] at hp
    subst hp
    simp only [Ref.opNot, argsAsBoolList, argsAsBools, asIter, Val.erase, List.isEmpty_nil, if_true,
      List.map, List.length_cons, List.length_nil]
    rw [nilp_erase]
    cases x.nilp
    · exact OpAgree.ok rfl nil_wf
    · exact OpAgree.ok rfl one_wf
  · rw [hg]
    simp only [Ref.opNot, argsAsBoolList, argsAsBools]
    rw [asIter_proper hp]
    simp only [List.length_map]
    rw [← listLen_eq, if_pos (by simpa using hn)]
    exact OpAgree.err rfl

theorem opStrlen_agree (m : Nat) (a : Val) (c : Ctr) (_hw : a.wf = true) :
    OpAgree m (Interp.opStrlen 0 m a c) (Ref.opStrlen a.erase) := by
  unfold Interp.opStrlen
  rcases getArgs1_cases a "strlen" with ⟨x, b, i, rfl, hg⟩ | ⟨hn, msg, hg⟩
  · rw [hg]
    simp only [Ref.opStrlen, Val.erase, listLen]
    cases x with
    | pair l r => exact OpAgree.err rfl
    | atom xb xi =>
      simp only [atomLen, Val.erase]
      exact allocNumber_agree m _ c _
  · rw [hg]
    simp only [Ref.opStrlen]
    rw [if_pos (by simpa using hn)]
    exact OpAgree.err rfl

theorem opLognot_agree (m : Nat) (a : Val) (c : Ctr) (hw : a.wf = true) (hp : Proper a) :
    OpAgree m (Interp.opLognot 0 m a c) (Ref.opLognot a.erase) := by
  unfold Interp.opLognot
  rcases getArgs1_cases a "lognot" with ⟨x, b, i, rfl, hg⟩ | ⟨hn, msg, hg⟩
  · rw [hg]
    dsimp only
    simp only [Proper, valTerminator] at hp
    subst hp
    simp only [Val.wf, Bool.and_eq_true] at hw
    cases x with
    | pair l r =>
      simp only [Ref.opLognot, argsAsIntList, argsAsInts, asIter, Val.erase, List.isEmpty_nil, if_true, atomsOf, intAtom]
      exact OpAgree.err rfl
    | atom xb xi =>
      rw [intAtom_wf hw.1]
      simp only [Ref.opLognot, argsAsIntList, argsAsInts, asIter, Val.erase, List.isEmpty_nil, if_true, atomsOf,
        List.map, List.length_cons, List.length_nil, asInt, intFromBytes_eq]
      exact allocNumber_agree m _ c _
  · rw [hg]
    simp only [Ref.opLognot]
    rw [argsAsIntList_len hp hn]
    exact OpAgree.err rfl

theorem bytesGt_eq : ∀ (x y : Bytes), Interp.bytesGt x y = Ref.bytesGt x y := by
  intro x
  induction x with
  | nil => intro y; rfl
  | cons a t ih =>
    intro y
    cases y with
    | nil => rfl
    | cons b u =>
      simp only [Interp.bytesGt, Ref.bytesGt, ih u]
      by_cases h1 : a.toNat > b.toNat
      · have : ¬ a.toNat = b.toNat := by omega
        simp [h1, this]
      · by_cases h2 : a.toNat < b.toNat
        · have : ¬ a.toNat = b.toNat := by omega
          simp [h1, h2, this]
        · have : a.toNat = b.toNat := by omega
          simp [this]

theorem opGrBytes_agree (m : Nat) (a : Val) (c : Ctr) (_hw : a.wf = true) (hp : Proper a) :
    OpAgree m (Interp.opGrBytes 0 m a c) (Ref.opGrBytes a.erase) := by
  unfold Interp.opGrBytes
  rcases getArgs2_cases a ">s" with ⟨x, y, b, i, rfl, hg⟩ | ⟨hn, msg, hg⟩
  · rw [hg]
    dsimp only
    simp only [Proper, valTerminator] at hp
    subst hp
    simp only [Ref.opGrBytes, asIter, Val.erase, List.isEmpty_nil, if_true]
    cases x with
    | pair l r => exact OpAgree.err rfl
    | atom b0 i0 =>
      cases y with
      | pair l r => exact OpAgree.err rfl
      | atom b1 i1 =>
        simp only [atomBytes, Val.erase, bytesGt_eq]
        cases Ref.bytesGt b0 b1
        · exact OpAgree.ok rfl nil_wf
        · exact OpAgree.ok rfl one_wf
  · rw [hg]
    simp only [Ref.opGrBytes]
    rw [asIter_proper hp]
    have hl := listLen_eq a.erase
    match hs : spine a.erase, hl with
    | [], _ => exact OpAgree.err rfl
    | [_], _ => exact OpAgree.err rfl
    | [_, _], hl => exact absurd hl hn
    | _ :: _ :: _ :: _, _ => exact OpAgree.err rfl

theorem opGr_agree (m : Nat) (a : Val) (c : Ctr) (hw : a.wf = true) (hp : Proper a) :
    OpAgree m (Interp.opGr {} 0 m a c) (Ref.opGr a.erase) := by
  rw [show ({} : Cfg) = { fastpath := true } from rfl, opGr_fastpath 0 m a c hw]
  unfold Interp.opGr
  rcases getArgs2_cases a ">" with ⟨x, y, b, i, rfl, hg⟩ | ⟨hn, msg, hg⟩
  · rw [hg]
    dsimp only
    simp only [Proper, valTerminator] at hp
    subst hp
    simp only [Val.wf, Bool.and_eq_true] at hw
    simp only [newModel0, Bool.false_eq_true, if_false]
    cases x with
    | pair l r =>
      simp only [Ref.opGr, argsAsIntList, argsAsInts, asIter, Val.erase, List.isEmpty_nil, if_true, atomsOf, intAtom]
      exact OpAgree.err rfl
    | atom b0 i0 =>
      rw [intAtom_wf hw.1]
      cases y with
      | pair l r =>
        simp only [Ref.opGr, argsAsIntList, argsAsInts, asIter, Val.erase, List.isEmpty_nil, if_true, atomsOf, intAtom]
        exact OpAgree.err rfl
      | atom b1 i1 =>
        rw [intAtom_wf hw.2.1]
        simp only [Ref.opGr, argsAsIntList, argsAsInts, asIter, Val.erase, List.isEmpty_nil, if_true, atomsOf,
          List.map, List.length_cons, List.length_nil, asInt, intFromBytes_eq, Nat.reduceAdd, bne_self_eq_false,
          Bool.false_eq_true, if_false]
        by_cases hgt : decodeInt b0 > decodeInt b1
        · rw [if_pos hgt, if_pos hgt]; exact OpAgree.ok rfl one_wf
        · rw [if_neg hgt, if_neg hgt]; exact OpAgree.ok rfl nil_wf
  · rw [hg]
    simp only [Ref.opGr]
    rw [argsAsIntList_len hp hn]
    exact OpAgree.err rfl

end Clvm.Ref
