/-
C19 — the recorded runs of the real serializer that witness the known findings L, M, N
(KNOWN_FINDINGS.jsonl), as data for the protocol model's validator.  The bytes are what
`clvmr::serde::Serializer` produced on the unchanged tree (harness corpus lines c9, c10, c12 of the
`incremental` stream; reproduce with `h gen incremental 1 20 | grep -E '^INC c(9|10|12) ' | h run`).
The theorems about them are in `Props/C19.lean`.
-/
import ClvmProofs.Lemmas.IncrementalValidate

namespace Clvm.Incremental.Witness
open Clvm Clvm.Serde Clvm.Serde.Incremental Clvm.Serde.Backref

/-- the marker atom `SENTINEL` -/
def M : Bytes := [0x53, 0x45, 0x4e, 0x54, 0x49, 0x4e, 0x45, 0x4c]
def S : Tree := .atom M
def A : Tree := .atom [0x61, 0x61, 0x61, 0x61, 0x61, 0x61]
def B : Tree := .atom [0x62, 0x62, 0x62, 0x62, 0x62, 0x62]
def X : Tree := .atom [0x78, 0x78, 0x78, 0x78, 0x78, 0x78]
def Y : Tree := .atom [0x79, 0x79, 0x79, 0x79, 0x79, 0x79]

def hx (s : String) : Bytes := (bytesOfHex s).getD []

def verdict (r : Except String Run) : String :=
  match r with
  | .ok _ => "ok"
  | .error e => e

/-- what the current decoder makes of a byte string (default allocator) -/
def decoded (b : Bytes) : Option Tree :=
  match deBrNew b [.sexp] [] Ctr.default with
  | .ok (t, [], _) => some t
  | _ => none

/-! L — an addition with the sentinel twice: `((a . S) . ((a . S) . x))`, then `x`, then `y` -/
def treesL : List Tree := [.pair (.pair A S) (.pair (.pair A S) X), X, Y]
def outL : Bytes := hx "ffff8661616161616186787878787878fffffe0486797979797979fe06"
def histL : List (Req × Rec) :=
  [(.add (.pair (.pair A S) (.pair (.pair A S) X)), .added false (hx "ffff86616161616161")),
   (.add X, .added false (hx "ffff8661616161616186787878787878fffffe04")),
   (.add Y, .added true outL)]

/-! M — `(x . (b . ((a . S) . x)))`, add `x`, undo it, add `y` -/
def t1M : Tree := .pair X (.pair B (.pair (.pair A S) X))
def treesM : List Tree := [t1M, Y]
def outM : Bytes := hx "ff86787878787878ff86626262626262ffff8661616161616186797979797979fe06"
def histM : List (Req × Rec) :=
  [(.add t1M, .added false (hx "ff86787878787878ff86626262626262ffff86616161616161")),
   (.add X, .added true (hx "ff86787878787878ff86626262626262ffff86616161616161fe0bfe06")),
   (.undo 2, .undone (hx "ff86787878787878ff86626262626262ffff86616161616161")),
   (.add Y, .added true outM)]

/-! N — the node `(S . a4)` built once and used in the first and in the third addition -/
def A4 : Tree := .atom [0x20, 0x13, 0xd4]
def B4 : Tree := .atom [0xd9, 0x31, 0xac]
def t3N : Tree := .pair (.pair A4 (.pair S A4)) (.pair B4 (.pair (.atom [3]) B4))
def treesN : List Tree := [.pair S A4, S, t3N, B4]
def outN : Bytes := hx "ffffff832013d4ff83d931acfe05fffe2aff03fe05fe08"
def histN : List (Req × Rec) :=
  [(.add (.pair S A4), .added false (hx "ff")),
   (.add S, .added false (hx "ff")),
   (.add t3N, .added false (hx "ffffff832013d4ff")),
   (.add B4, .added true outN)]

end Clvm.Incremental.Witness
