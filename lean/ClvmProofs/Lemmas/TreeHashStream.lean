/-
Lemmas for C22, part 3: the stream variants (`tree_hash_from_stream`, `parse_triples`) against the
classic decoder `Clvm.Serde.Classic.nodeFromStream` (the model of `node_from_stream`).

`parseTree` is a recursive-descent reader (reference only, not a model of any Rust function).  Each
iterative decoder is shown to be "parse one object with `parseTree`, then continue with the rest of the
work-list": an equation, so it covers failures too.
-/
import ClvmProofs.Lemmas.TreeHash

namespace Clvm.TreeHash
open Clvm.Hash Clvm.Serde.Classic

/-- recursive descent over the classic format; atoms are read by the shared `parseAtom` -/
def parseTree : Nat → Bytes → Except Err (Tree × Bytes)
  | 0, _ => .error .SerializationError
  | _ + 1, [] => .error .SerializationError
  | f + 1, b :: rest =>
    if b.toNat == CONS_BOX_MARKER then
      match parseTree f rest with
      | .error e => .error e
      | .ok (l, r1) =>
        match parseTree f r1 with
        | .error e => .error e
        | .ok (r, r2) => .ok (.pair l r, r2)
    else
      match parseAtom rest b with
      | .error e => .error e
      | .ok (n, t) => .ok (t, rest.drop n)

theorem parseTree_length : ∀ (f : Nat) (inp : Bytes) (t : Tree) (rest : Bytes),
    parseTree f inp = .ok (t, rest) → rest.length < inp.length := by
  intro f
  induction f with
  | zero => intro inp t rest h; simp [parseTree] at h
  | succ f ih =>
    intro inp t rest h
    cases inp with
    | nil => simp [parseTree] at h
    | cons b tl =>
      rw [parseTree] at h
      split at h
      · split at h
        · cases h
        · rename_i l r1 h1
          split at h
          · cases h
          · rename_i r r2 h2
            cases h
            have := ih _ _ _ h1
            have := ih _ _ _ h2
            simp only [List.length_cons]; omega
      · split at h
        · cases h
        · cases h
          simp only [List.length_cons, List.length_drop]; omega

/-- `node_from_stream`: parse one object, then continue -/
theorem nodeFromStream_sexp : ∀ (f : Nat) (inp : Bytes) (ops : List Serde.Classic.ParseOp) (vals : List Tree),
    inp.length < f →
    nodeFromStream inp (.sexp :: ops) vals =
      match parseTree f inp with
      | .ok (t, rest) => nodeFromStream rest ops (t :: vals)
      | .error e => .error e := by
  intro f
  induction f with
  | zero => intro inp ops vals h; omega
  | succ f ih =>
    intro inp ops vals hlen
    cases inp with
    | nil => rw [nodeFromStream]; simp [parseTree]
    | cons b tl =>
      simp only [List.length_cons] at hlen
      rw [nodeFromStream, parseTree]
      by_cases hb : (b.toNat == CONS_BOX_MARKER) = true
      · simp only [hb, if_true]
        rw [ih tl _ _ (by omega)]
        cases h1 : parseTree f tl with
        | error e => rfl
        | ok p1 =>
          obtain ⟨l, r1⟩ := p1
          have hl1 := parseTree_length _ _ _ _ h1
          simp only []
          rw [ih r1 _ _ (by omega)]
          cases h2 : parseTree f r1 with
          | error e => rfl
          | ok p2 =>
            obtain ⟨r, r2⟩ := p2
            simp only []
            rw [nodeFromStream]
      · simp only [hb]
        cases parseAtom tl b with
        | error e => rfl
        | ok p => rfl

/-- `node_from_stream(f)` is recursive descent -/
theorem nodeFromStream_eq_parseTree (inp : Bytes) :
    nodeFromStream inp [.sexp] [] = parseTree (inp.length + 1) inp := by
  rw [nodeFromStream_sexp (inp.length + 1) inp [] [] (by omega)]
  cases parseTree (inp.length + 1) inp with
  | error e => rfl
  | ok p => obtain ⟨t, rest⟩ := p; simp only []; rw [nodeFromStream]

/-! ### `tree_hash_from_stream` -/

theorem uint8_eq_of_toNat {b : UInt8} {n : Nat} (hn : n < 256) (h : (b.toNat == n) = true) :
    b = UInt8.ofNat n := by
  have : b.toNat = n := by simpa using h
  apply UInt8.toNat_inj.mp
  simp [this, Nat.mod_eq_of_lt hn]

/-- the inline atom branches of `tree_hash_from_stream` read what `parse_atom` reads -/
theorem fromStream_atom (b : UInt8) (rest : Bytes) (ops : List ParseOp) (vals : List Bytes)
    (hb : ¬ (b.toNat == 0xff) = true) :
    fromStreamLoop (b :: rest) (.sexp :: ops) vals =
      match parseAtom rest b with
      | .ok (n, t) => fromStreamLoop (rest.drop n) ops (treeHash t :: vals)
      | .error e => .error e := by
  rw [fromStreamLoop]
  simp only [hb]
  unfold parseAtom
  by_cases h1 : (b.toNat == 0x01) = true
  · have hb1 : b = 1 := uint8_eq_of_toNat (n := 1) (by decide) h1
    subst hb1
    simp [hashAtom, treeHash]
  · by_cases h80 : (b.toNat == 0x80) = true
    · simp [h1, h80, hashAtom, treeHash]
    · simp only [h1, h80]
      unfold parseAtomPtr
      by_cases h7f : b.toNat ≤ 0x7f
      · simp [h7f, MAX_SINGLE_BYTE, hashAtom, treeHash]
      · simp only [h7f, MAX_SINGLE_BYTE, if_false]
        cases hd : decodeSize rest b.toNat with
        | error e => rfl
        | ok p =>
          obtain ⟨off, size⟩ := p
          simp only []
          by_cases hl : rest.length - (off - 1) < size
          · simp [hl]
          · simp [hl, hashAtom, treeHash, List.drop_drop, Nat.add_comm]

/-- `tree_hash_from_stream`: parse one object, then continue with its hash on the value stack -/
theorem fromStreamLoop_sexp : ∀ (f : Nat) (inp : Bytes) (ops : List ParseOp) (vals : List Bytes),
    inp.length < f →
    fromStreamLoop inp (.sexp :: ops) vals =
      match parseTree f inp with
      | .ok (t, rest) => fromStreamLoop rest ops (treeHash t :: vals)
      | .error e => .error e := by
  intro f
  induction f with
  | zero => intro inp ops vals h; omega
  | succ f ih =>
    intro inp ops vals hlen
    cases inp with
    | nil => rw [fromStreamLoop]; simp [parseTree]
    | cons b tl =>
      simp only [List.length_cons] at hlen
      by_cases hb : (b.toNat == 0xff) = true
      · rw [fromStreamLoop, parseTree]
        simp only [hb, CONS_BOX_MARKER, if_true]
        rw [ih tl _ _ (by omega)]
        cases h1 : parseTree f tl with
        | error e => rfl
        | ok p1 =>
          obtain ⟨l, r1⟩ := p1
          have hl1 := parseTree_length _ _ _ _ h1
          simp only []
          rw [ih r1 _ _ (by omega)]
          cases h2 : parseTree f r1 with
          | error e => rfl
          | ok p2 =>
            obtain ⟨r, r2⟩ := p2
            simp only []
            rw [fromStreamLoop]
            simp [hashPair, treeHash]
      · rw [fromStream_atom b tl ops vals hb, parseTree]
        simp only [hb, CONS_BOX_MARKER]
        cases parseAtom tl b with
        | error e => rfl
        | ok p => rfl

/-- `tree_hash_from_stream(f)` = hash of what `node_from_stream(f)` decodes, same remainder, same error -/
theorem treeHashFromStream_eq (inp : Bytes) :
    treeHashFromStream inp =
      match nodeFromStream inp [.sexp] [] with
      | .ok (t, rest) => .ok (treeHash t, rest)
      | .error e => .error e := by
  rw [nodeFromStream_eq_parseTree, treeHashFromStream,
    fromStreamLoop_sexp (inp.length + 1) inp [] [] (by omega)]
  cases parseTree (inp.length + 1) inp with
  | error e => rfl
  | ok p => obtain ⟨t, rest⟩ := p; simp only []; rw [fromStreamLoop]

end Clvm.TreeHash
