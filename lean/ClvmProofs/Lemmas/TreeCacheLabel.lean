/-
C19, faithful model: the nodes the harness builds for `add:` steps (`labelFresh`: every pair a `NodePtr`
of its own) have contents determined by their keys (`KOk`), like the `adds:` nodes (`kOk_labelShared`).
-/
import ClvmProofs.Lemmas.TreeCacheSer

namespace Clvm.TreeCacheProofs
open Clvm Clvm.Serde Clvm.Serde.TreeCache

/-- content of a key, looked up among the sub-nodes of `root` -/
def KFind (root : Node) (k : Key) : Tree :=
  match (subs root).find? (fun s => s.key = k) with
  | some s => s.tree
  | none => Tree.nil

/-- equal keys, equal contents -/
def Uniq (root : Node) : Prop := ∀ s1 s2, s1 ∈ subs root → s2 ∈ subs root → s1.key = s2.key → s1.tree = s2.tree

theorem kOk_of_uniq (root : Node) (h : Uniq root) : KOk (KFind root) root := by
  intro s hs
  unfold KFind
  cases hf : (subs root).find? (fun s' => s'.key = s.key) with
  | none =>
    have := List.find?_eq_none.mp hf s hs
    simp at this
  | some s' =>
    have h1 := List.find?_some hf
    have h2 := List.mem_of_find?_eq_some hf
    simp only [decide_eq_true_eq] at h1
    exact h s' s h2 hs h1

/-- the pair ids of the labelled node lie in `[n, next)` -/
theorem labelFresh_ids : ∀ (t : Tree) (n : Nat), n ≤ (labelFresh t n).2 ∧
    ∀ s, s ∈ subs (labelFresh t n).1 → ∀ id l r, s = Node.pair id l r → ∃ m, id = some m ∧ n ≤ m ∧ m < (labelFresh t n).2 := by
  intro t
  induction t with
  | atom b =>
    intro n
    refine ⟨Nat.le_refl _, ?_⟩
    intro s hs id l r he
    simp only [labelFresh, subs, List.mem_singleton] at hs
    rw [hs] at he; cases he
  | pair l r ihl ihr =>
    intro n
    obtain ⟨l1, l2⟩ := ihl n
    obtain ⟨r1, r2⟩ := ihr (labelFresh l n).2
    simp only [labelFresh]
    refine ⟨by omega, ?_⟩
    intro s hs id l' r' he
    simp only [subs, List.mem_cons, List.mem_append] at hs
    rcases hs with hs | hs | hs
    · rw [hs] at he
      simp only [Node.pair.injEq] at he
      exact ⟨_, he.1.symm, by omega, by omega⟩
    · obtain ⟨m, e1, e2, e3⟩ := l2 s hs id l' r' he
      exact ⟨m, e1, e2, by omega⟩
    · obtain ⟨m, e1, e2, e3⟩ := r2 s hs id l' r' he
      exact ⟨m, e1, by omega, by omega⟩

theorem key_cases (s : Node) : (∃ b, s = .atom b ∧ s.key = .atom b) ∨
    (∃ id l r, s = .pair id l r) := by
  cases s with
  | atom b => exact .inl ⟨b, rfl, rfl⟩
  | pair id l r => exact .inr ⟨id, l, r, rfl⟩

theorem labelFresh_uniq : ∀ (t : Tree) (n : Nat), Uniq (labelFresh t n).1 := by
  intro t
  induction t with
  | atom b =>
    intro n s1 s2 h1 h2 _
    simp only [labelFresh, subs, List.mem_singleton] at h1 h2
    rw [h1, h2]
  | pair l r ihl ihr =>
    intro n
    obtain ⟨l1, l2⟩ := labelFresh_ids l n
    obtain ⟨r1, r2⟩ := labelFresh_ids r (labelFresh l n).2
    have hul := ihl n
    have hur := ihr (labelFresh l n).2
    -- keys of the three regions
    have keyOf : ∀ s, s ∈ subs (labelFresh l n).1 ∨ s ∈ subs (labelFresh r (labelFresh l n).2).1 →
        (∃ b, s = .atom b) ∨ ∃ m, s.key = .fresh m ∧ n ≤ m ∧ m < (labelFresh r (labelFresh l n).2).2 ∧
          (s ∈ subs (labelFresh l n).1 → m < (labelFresh l n).2) ∧
          (s ∈ subs (labelFresh r (labelFresh l n).2).1 → (labelFresh l n).2 ≤ m) := by
      intro s hs
      rcases key_cases s with ⟨b, hb, _⟩ | ⟨id, l', r', he⟩
      · exact .inl ⟨b, hb⟩
      · right
        rcases hs with hs | hs
        · obtain ⟨m, e1, e2, e3⟩ := l2 s hs id l' r' he
          subst e1
          refine ⟨m, by rw [he]; rfl, e2, by omega, fun _ => e3, fun hs' => ?_⟩
          obtain ⟨m', e1', e2', _⟩ := r2 s hs' (some m) l' r' he
          simp only [Option.some.injEq] at e1'
          omega
        · obtain ⟨m, e1, e2, e3⟩ := r2 s hs id l' r' he
          subst e1
          refine ⟨m, by rw [he]; rfl, by omega, e3, fun hs' => ?_, fun _ => e2⟩
          obtain ⟨m', e1', _, e3'⟩ := l2 s hs' (some m) l' r' he
          simp only [Option.some.injEq] at e1'
          omega
    intro s1 s2 h1 h2 hkey
    simp only [labelFresh, subs, List.mem_cons, List.mem_append] at h1 h2
    -- the root against a sub-node: its id is larger than all others
    have rootVs : ∀ s, s ∈ subs (labelFresh l n).1 ∨ s ∈ subs (labelFresh r (labelFresh l n).2).1 →
        s.key ≠ Key.fresh (labelFresh r (labelFresh l n).2).2 := by
      intro s hs he
      rcases keyOf s hs with ⟨b, hb⟩ | ⟨m, hm, _, hlt, _, _⟩
      · rw [hb] at he; cases he
      · rw [hm] at he
        simp only [Key.fresh.injEq] at he
        omega
    rcases h1 with h1 | h1 | h1 <;> rcases h2 with h2 | h2 | h2
    · rw [h1, h2]
    · rw [h1] at hkey; exact absurd hkey.symm (rootVs s2 (.inl h2))
    · rw [h1] at hkey; exact absurd hkey.symm (rootVs s2 (.inr h2))
    · rw [h2] at hkey; exact absurd hkey (rootVs s1 (.inl h1))
    · exact hul s1 s2 h1 h2 hkey
    · rcases keyOf s1 (.inl h1) with ⟨b, hb⟩ | ⟨m, hm, _, _, hA, _⟩
      · rcases keyOf s2 (.inr h2) with ⟨b', hb'⟩ | ⟨m', hm', _, _, _, _⟩
        · rw [hb, hb'] at hkey ⊢
          simp only [Node.key, Key.atom.injEq] at hkey
          rw [hkey]
        · rw [hb, hm'] at hkey; cases hkey
      · rcases keyOf s2 (.inr h2) with ⟨b', hb'⟩ | ⟨m', hm', _, _, _, hB⟩
        · rw [hm, hb'] at hkey; cases hkey
        · rw [hm, hm'] at hkey
          simp only [Key.fresh.injEq] at hkey
          have := hA h1; have := hB h2; omega
    · rw [h2] at hkey; exact absurd hkey (rootVs s1 (.inr h1))
    · rcases keyOf s1 (.inr h1) with ⟨b, hb⟩ | ⟨m, hm, _, _, _, hB⟩
      · rcases keyOf s2 (.inl h2) with ⟨b', hb'⟩ | ⟨m', hm', _, _, _, _⟩
        · rw [hb, hb'] at hkey ⊢
          simp only [Node.key, Key.atom.injEq] at hkey
          rw [hkey]
        · rw [hb, hm'] at hkey; cases hkey
      · rcases keyOf s2 (.inl h2) with ⟨b', hb'⟩ | ⟨m', hm', _, _, hA, _⟩
        · rw [hm, hb'] at hkey; cases hkey
        · rw [hm, hm'] at hkey
          simp only [Key.fresh.injEq] at hkey
          have := hA h2; have := hB h1; omega
    · exact hur s1 s2 h1 h2 hkey

theorem kOk_labelFresh (t : Tree) (n : Nat) : KOk (KFind (labelFresh t n).1) (labelFresh t n).1 :=
  kOk_of_uniq _ (labelFresh_uniq t n)

theorem labelFresh_tree : ∀ (t : Tree) (n : Nat), (labelFresh t n).1.tree = t := by
  intro t
  induction t with
  | atom b => intro n; rfl
  | pair l r ihl ihr => intro n; simp [labelFresh, Node.tree, ihl, ihr]

end Clvm.TreeCacheProofs
