/-
C17: invariants of `ReadCacheLookup` on the content-identity model (`parent_sound`, `stack_mirror`)
and soundness of `find_path` (every returned byte string encodes a walk from the tracked root to the
requested node, and is short enough).
-/
import ClvmProofs.Lemmas.BackrefProbe
import ClvmModel.Serde.SerBr

namespace Clvm.Backref
open Clvm Clvm.Serde Clvm.Serde.ReadCache Clvm.Serde.SerBr

/-- the child of a pair in a direction (`false` = first/left, `true` = rest/right) -/
def child : Tree → Bool → Option Tree
  | .pair l _, false => some l
  | .pair _ r, true => some r
  | .atom _, _ => none

/-- walk a list of directions, first direction first -/
def follow : List Bool → Tree → Option Tree
  | [], t => some t
  | d :: ds, t =>
    match child t d with
    | some c => follow ds c
    | none => none

/-! ### association maps -/

theorem TMap.get?_upd {V : Type} (m : TMap V) (k k' : Tree) (d : V) (f : V → V) :
    (m.upd k d f).get? k' = if k = k' then some (f ((m.get? k).getD d)) else m.get? k' := by
  induction m with
  | nil =>
    by_cases h : k = k' <;> simp [TMap.upd, TMap.get?, h]
  | cons x m ih =>
    obtain ⟨k0, v⟩ := x
    by_cases h0 : k0 = k
    · subst h0
      by_cases h : k0 = k' <;> simp [TMap.upd, TMap.get?, h]
    · by_cases h : k = k'
      · subst h
        simp [TMap.upd, TMap.get?, h0, ih]
      · by_cases h1 : k0 = k'
        · subst h1; simp [TMap.upd, TMap.get?, h0, h]
        · simp [TMap.upd, TMap.get?, h0, h1, ih, h]

/-! ### `parent_sound`, `stack_mirror` -/

/-- **parent_sound**: every recorded parent link is a true child relation -/
def ParentSound (pl : TMap (List (Tree × Bool))) : Prop :=
  ∀ X items, pl.get? X = some items → ∀ P d, (P, d) ∈ items → child P d = some X

/-- **stack_mirror** (internal form): the tracked root is the read stack folded into a CLVM list -/
def StackOk : Tree → List (Tree × Tree) → Prop
  | root, [] => root = Tree.nil
  | root, (id, prev) :: rest => root = Tree.pair id prev ∧ StackOk prev rest

structure RInv (s : RCL) : Prop where
  parents : ParentSound s.parentLookup
  stack : StackOk s.root s.readStack

theorem parentSound_upd (pl : TMap (List (Tree × Bool))) (X P : Tree) (d : Bool)
    (h : ParentSound pl) (hc : child P d = some X) :
    ParentSound (pl.upd X [] (· ++ [(P, d)])) := by
  intro Y items hget P' d' hmem
  rw [TMap.get?_upd] at hget
  by_cases hxy : X = Y
  · subst hxy
    simp only [if_true, Option.some.injEq] at hget
    subst hget
    rcases List.mem_append.1 hmem with hm | hm
    · cases hg : pl.get? X with
      | none => simp [hg] at hm
      | some its => simp only [hg, Option.getD_some] at hm; exact h X its hg P' d' hm
    · simp only [List.mem_singleton, Prod.mk.injEq] at hm
      obtain ⟨rfl, rfl⟩ := hm
      exact hc
  · simp only [hxy, if_false] at hget
    exact h Y items hget P' d' hmem

theorem RInv.new : RInv RCL.new :=
  ⟨by intro X items h; simp [RCL.new, TMap.get?] at h, rfl⟩

theorem RInv.push {s : RCL} (h : RInv s) (id : Tree) : RInv (s.push id) ∧ (s.push id).root = Tree.pair id s.root := by
  refine ⟨⟨?_, ?_⟩, rfl⟩
  · exact parentSound_upd _ _ _ _ (parentSound_upd _ _ _ _ h.parents rfl) rfl
  · exact ⟨rfl, h.stack⟩

theorem pop_spec {s s' : RCL} {item : Tree × Tree} (h : RInv s) (hp : s.pop = .ok (item, s')) :
    RInv s' ∧ s.root = Tree.pair item.1 s'.root ∧ s'.parentLookup = s.parentLookup := by
  unfold RCL.pop at hp
  cases hrs : s.readStack with
  | nil => simp [hrs] at hp
  | cons it rest =>
    simp only [hrs] at hp
    cases h1 : decCount s.count it.1 with
    | error e => simp [h1] at hp
    | ok c1 =>
      simp only [h1] at hp
      cases h2 : decCount c1 s.root with
      | error e => simp [h2] at hp
      | ok c2 =>
        simp only [h2, Except.ok.injEq, Prod.mk.injEq] at hp
        obtain ⟨rfl, rfl⟩ := hp
        have hst := h.stack
        rw [hrs] at hst
        obtain ⟨id, prev⟩ := it
        exact ⟨⟨h.parents, hst.2⟩, hst.1, rfl⟩

theorem pop2AndCons_spec {s s' : RCL} (h : RInv s) (hp : s.pop2AndCons = .ok s') :
    RInv s' ∧ ∃ l r rest, s.root = Tree.pair r (Tree.pair l rest) ∧ s'.root = Tree.pair (Tree.pair l r) rest := by
  unfold RCL.pop2AndCons at hp
  cases h1 : s.pop with
  | error e => simp [h1] at hp
  | ok r1 =>
    obtain ⟨right, s1⟩ := r1
    simp only [h1] at hp
    cases h2 : s1.pop with
    | error e => simp [h2] at hp
    | ok r2 =>
      obtain ⟨left, s2⟩ := r2
      simp only [h2, Except.ok.injEq] at hp
      obtain ⟨i1, e1, p1⟩ := pop_spec h h1
      obtain ⟨i2, e2, p2⟩ := pop_spec i1 h2
      subst hp
      let s3 : RCL := { s2 with
        count := (s2.count.upd left.1 0 (· + 1)).upd right.1 0 (· + 1),
        parentLookup := (s2.parentLookup.upd left.1 [] (· ++ [(Tree.pair left.1 right.1, false)])).upd right.1 []
          (· ++ [(Tree.pair left.1 right.1, true)]) }
      have i3 : RInv s3 :=
        ⟨parentSound_upd _ _ _ _ (parentSound_upd _ _ _ _ i2.parents rfl) rfl, i2.stack⟩
      obtain ⟨i4, e4⟩ := i3.push (Tree.pair left.1 right.1)
      refine ⟨i4, left.1, right.1, s2.root, ?_, e4⟩
      rw [e1, e2]

/-! ### soundness of the breadth-first search -/

/-- a partial path `(node, path)` climbs from `id` to `node`: walking `path` backwards from `node`
reaches `id` -/
def Good (id : Tree) (p : Partial) : Prop := follow p.2.reverse p.1 = some id

/-- what `find_path` promises about a returned byte string -/
def Found (s : RCL) (id : Tree) (maxBytes : Nat) (b : Bytes) : Prop :=
  ∃ path, reversedPathToVecU8 path = .ok b ∧ follow path.reverse s.root = some id ∧
    ∃ pl, atomLengthBits (path.length + 1) = .ok (some pl) ∧ pl ≤ maxBytes

theorem itemsLoop_good (s : RCL) (id node : Tree) (mpl : Nat) (path : List Bool) (hg : Good id (node, path)) :
    ∀ (items : List (Tree × Bool)) (np : List Partial) (seen : List Tree),
      (∀ P d, (P, d) ∈ items → child P d = some node) → (∀ q, q ∈ np → Good id q) →
      ∀ np' seen', itemsLoop s mpl path items np seen = some (np', seen') → ∀ q, q ∈ np' → Good id q := by
  intro items
  induction items with
  | nil =>
    intro np seen _ hnp np' seen' h
    simp only [itemsLoop, Option.some.injEq, Prod.mk.injEq] at h
    obtain ⟨rfl, _⟩ := h
    exact hnp
  | cons it items ih =>
    intro np seen hit hnp np' seen' h
    obtain ⟨parent, dir⟩ := it
    unfold itemsLoop at h
    have hit' : ∀ P d, (P, d) ∈ items → child P d = some node := fun P d hm => hit P d (List.mem_cons_of_mem _ hm)
    split at h
    · split at h
      · cases h
      · refine ih _ _ hit' ?_ _ _ h
        intro q hq
        split at hq
        · rcases List.mem_append.1 hq with hq | hq
          · exact hnp q hq
          · simp only [List.mem_singleton] at hq
            subst hq
            unfold Good
            simp only [List.reverse_append, List.reverse_cons, List.reverse_nil, List.nil_append,
              List.singleton_append, follow]
            rw [hit parent dir (List.mem_cons_self)]
            exact hg
        · exact hnp q hq
    · exact ih _ _ hit' hnp _ _ h

theorem partialLoop_sound (s : RCL) (hs : RInv s) (id : Tree) (maxBytes mpl : Nat) :
    ∀ (pp : List Partial) (possible : List Bytes) (np : List Partial) (seen : List Tree),
      (∀ q, q ∈ pp → Good id q) → (∀ b, b ∈ possible → Found s id maxBytes b) → (∀ q, q ∈ np → Good id q) →
      ∀ r, partialLoop s maxBytes mpl pp possible np seen = .ok r →
        match r with
        | .ret possible' => ∀ b, b ∈ possible' → Found s id maxBytes b
        | .cont possible' np' _ => (∀ b, b ∈ possible' → Found s id maxBytes b) ∧ (∀ q, q ∈ np' → Good id q) := by
  intro pp
  induction pp with
  | nil =>
    intro possible np seen _ hpos hnp r h
    simp only [partialLoop, Except.ok.injEq] at h
    subst h
    exact ⟨hpos, hnp⟩
  | cons p pp ih =>
    intro possible np seen hpp hpos hnp r h
    obtain ⟨node, path⟩ := p
    have hg : Good id (node, path) := hpp _ List.mem_cons_self
    have hpp' : ∀ q, q ∈ pp → Good id q := fun q hq => hpp q (List.mem_cons_of_mem _ hq)
    unfold partialLoop at h
    split at h
    · rename_i hroot
      split at h
      · cases h
      · rename_i pathLen halb
        split at h
        · rename_i hle
          split at h
          · cases h
          · rename_i p hrp
            refine ih _ _ _ hpp' ?_ hnp r h
            intro b hb
            rcases List.mem_append.1 hb with hb | hb
            · exact hpos b hb
            · simp only [List.mem_singleton] at hb
              subst hb
              refine ⟨path, hrp, ?_, pathLen, halb, hle⟩
              have := hg
              unfold Good at this
              simp only at this
              rw [hroot] at this
              exact this
        · exact ih _ _ _ hpp' hpos hnp r h
      · exact ih _ _ _ hpp' hpos hnp r h
    · split at h
      · exact ih _ _ _ hpp' hpos hnp r h
      · rename_i items hget
        split at h
        · simp only [Except.ok.injEq] at h
          subst h
          exact hpos
        · rename_i np2 seen2 hil
          refine ih _ _ _ hpp' hpos ?_ r h
          exact itemsLoop_good s id node mpl path hg items np seen
            (fun P d hm => hs.parents node items hget P d hm) hnp np2 seen2 hil

theorem bfs_sound (s : RCL) (hs : RInv s) (id : Tree) (maxBytes mpl : Nat) :
    ∀ (fuel : Nat) (pp : List Partial) (seen : List Tree), (∀ q, q ∈ pp → Good id q) →
      ∀ res, bfs s maxBytes mpl fuel pp seen = .ok res → ∀ b, b ∈ res → Found s id maxBytes b := by
  intro fuel
  induction fuel with
  | zero => intro pp seen _ res h; simp [bfs] at h
  | succ fuel ih =>
    intro pp seen hpp res h
    unfold bfs at h
    split at h
    · simp only [Except.ok.injEq] at h; subst h; intro b hb; cases hb
    · split at h
      · cases h
      · rename_i possible hpl
        simp only [Except.ok.injEq] at h; subst h
        exact partialLoop_sound s hs id maxBytes mpl pp [] [] seen hpp (fun _ hb => by cases hb)
          (fun _ hq => by cases hq) _ hpl
      · rename_i possible np seen' hpl
        have := partialLoop_sound s hs id maxBytes mpl pp [] [] seen hpp (fun _ hb => by cases hb)
          (fun _ hq => by cases hq) _ hpl
        split at h
        · simp only [Except.ok.injEq] at h; subst h; exact this.1
        · exact ih np seen' this.2 res h

theorem minBytes_mem : ∀ (l : List Bytes) (x : Bytes), minBytes l = some x → x ∈ l := by
  intro l
  induction l with
  | nil => intro x h; cases h
  | cons p ps ih =>
    intro x h
    unfold minBytes at h
    split at h
    · simp only [Option.some.injEq] at h; subst h; exact List.mem_cons_self
    · rename_i q hq
      simp only [Option.some.injEq] at h
      split at h
      · subst h; exact List.mem_cons_of_mem _ (ih q hq)
      · subst h; exact List.mem_cons_self

/-- **find_path_sound**: a returned path encodes a walk from the tracked root to `id` whose
serialized atom is at most `serialized_length - 1` bytes long -/
theorem findPath_sound (s : RCL) (hs : RInv s) (id : Tree) (sl : Nat) (b : Bytes)
    (h : s.findPath id sl = .ok (some b)) : Found s id (sl - 1) b := by
  unfold RCL.findPath at h
  cases hfp : s.findPaths id sl with
  | error e => simp [hfp] at h
  | ok paths =>
    simp only [hfp, Except.ok.injEq] at h
    have hmem := minBytes_mem paths b h
    unfold RCL.findPaths at hfp
    split at hfp
    · simp only [Except.ok.injEq] at hfp; subst hfp; cases hmem
    · exact bfs_sound s hs id (sl - 1) _ _ [(id, [])] [id]
        (fun q hq => by
          simp only [List.mem_singleton] at hq; subst hq; rfl) paths hfp b hmem

end Clvm.Backref
