/-
C17: invariants of `ReadCacheLookup` on the content-identity model and soundness of `find_path`.
-/
import ClvmProofs.Lemmas.BackrefProbe
import ClvmModel.Serde.SerBr

namespace Clvm.Backref
open Clvm Clvm.Serde Clvm.Serde.ReadCache Clvm.Serde.SerBr

end Clvm.Backref
