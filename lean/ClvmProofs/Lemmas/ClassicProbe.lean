/-
The untrusted, back-reference aware length probe `serialized_length_from_bytes`
(model: `ClvmModel/Serde/Backref.lean`, owned by C18) on classic serializations.
-/
import ClvmProofs.Lemmas.ClassicDe
import ClvmModel.Serde.Backref
set_option linter.unusedSimpArgs false
namespace Clvm.Serde.Classic
open Clvm.Serde.Backref (lenLoop Ctr serializedLengthFromBytes)

/-- pairs the untrusted length probe allocates in its private allocator for a tree: one per atom
(the shadow stack entry), two per pair (`pop` twice, `cons`, push) -/
def probeCost : Tree → Nat
  | .atom _ => 1
  | .pair l r => probeCost l + probeCost r + 2

/-- the shape the probe keeps on its shadow stack -/
def shapeOf : Tree → Tree
  | .atom _ => Tree.nil
  | .pair l r => .pair (shapeOf l) (shapeOf r)

theorem newPair_ok (c : Ctr) (h : c.pairs + c.ghostPairs < Gen.maxNumPairs) :
    c.newPair = .ok { c with pairs := c.pairs + 1 } := by
  unfold Ctr.newPair
  have h1 : ¬ Gen.maxNumPairs < c.ghostPairs := by omega
  have h2 : ¬ c.pairs ≥ Gen.maxNumPairs - c.ghostPairs := by omega
  simp [h1, h2]

theorem lenLoop_atom (a : Bytes) (ha : a.length < 2 ^ 34) (rest : Bytes) (ops : List Backref.ParseOp)
    (values : Tree) (c : Ctr) (hc : c.pairs + c.ghostPairs < Gen.maxNumPairs) :
    lenLoop (atomEnc a ++ rest) (.sexp :: ops) values c =
      lenLoop rest ops (.pair Tree.nil values) { c with pairs := c.pairs + 1 } := by
  have hnp := newPair_ok c hc
  rcases atomEnc_shape a ha with ⟨x, rfl, hx, he⟩ | ⟨rfl, he⟩ | ⟨f, tl, he, h1, h2, h3, h4, h5, h6⟩
  · rw [he, List.cons_append, List.nil_append, lenLoop]
    have h1 : ¬ x.toNat = 0xff := by omega
    have h2 : ¬ x.toNat = 0xfe := by omega
    simp [Gen.toolsConsBoxMarker, Gen.toolsBackReference, Gen.toolsMaxSingleByte, h1, h2, hx, hnp]
  · rw [he, List.cons_append, List.nil_append, lenLoop]
    simp [Gen.toolsConsBoxMarker, Gen.toolsBackReference, Gen.toolsMaxSingleByte, hnp]
  · rw [he, List.cons_append, lenLoop]
    have hff : ¬ f.toNat = 0xff := by omega
    have hfe : ¬ f.toNat = 0xfe := by omega
    have h80 : ¬ f.toNat = 0x80 := by omega
    have h7f : ¬ f.toNat ≤ 0x7f := by omega
    have hl : ¬ (a.length + rest.length < a.length) := by omega
    have hd : List.drop (width a.length - 1 + a.length) (tl ++ (a ++ rest)) = rest := by
      rw [← h3, ← List.append_assoc, show tl.length + a.length = (tl ++ a).length by simp,
        List.drop_left]
    have hd1 : List.drop (width a.length - 1) (tl ++ (a ++ rest)) = a ++ rest := by
      rw [← h3, List.drop_left]
    simp [Gen.toolsConsBoxMarker, Gen.toolsBackReference, Gen.toolsMaxSingleByte, hff, hfe, h80, h7f,
      decodeSize, h6, hnp, hl, hd1]

theorem lenLoop_ser (t : Tree) (ht : t.atomsBelow (2 ^ 34)) (rest : Bytes) (ops : List Backref.ParseOp)
    (values : Tree) (c : Ctr) (hc : c.pairs + c.ghostPairs + probeCost t ≤ Gen.maxNumPairs) :
    lenLoop (serSpec t ++ rest) (.sexp :: ops) values c =
      lenLoop rest ops (.pair (shapeOf t) values) { c with pairs := c.pairs + probeCost t } := by
  induction t generalizing rest ops values c with
  | atom a => exact lenLoop_atom a ht rest ops values c (by simp [probeCost] at hc; omega)
  | pair l r ihl ihr =>
    simp only [probeCost] at hc
    simp only [serSpec, List.cons_append, List.append_assoc]
    rw [lenLoop]
    simp only [Gen.toolsConsBoxMarker, show (255 : UInt8).toNat = 255 by decide, beq_self_eq_true, if_true]
    rw [ihl ht.1 _ _ _ _ (by omega), ihr ht.2 _ _ _ _ (by simp only; omega), lenLoop]
    simp only
    rw [newPair_ok _ (by simp only; omega)]
    simp only
    rw [newPair_ok _ (by simp only; omega)]
    simp only [shapeOf, probeCost]
    have : c.pairs + probeCost l + probeCost r + 1 + 1 = c.pairs + (probeCost l + probeCost r + 2) := by
      omega
    rw [this]

/-- `serialized_length_from_bytes` (the untrusted, back-reference aware probe) on a classic
serialization followed by anything: the length of the serialization, provided the probe's
private allocator does not run out of pairs -/
theorem serializedLengthFromBytes_ser (t : Tree) (ht : t.atomsBelow (2 ^ 34)) (rest : Bytes)
    (hc : Gen.initGhostPairs + probeCost t ≤ Gen.maxNumPairs) :
    serializedLengthFromBytes (serSpec t ++ rest) = .ok (serSpec t).length := by
  unfold serializedLengthFromBytes
  rw [lenLoop_ser t ht rest [] _ _ (by simpa [Ctr.default, Ctr.fresh] using hc), lenLoop]
  simp


theorem probeCost_le (t : Tree) : probeCost t ≤ 2 * (serSpec t).length := by
  induction t with
  | atom a =>
    have := atomEnc_ne_nil a
    have : (atomEnc a).length ≠ 0 := by simpa using this
    simp only [probeCost, serSpec]; omega
  | pair l r ihl ihr =>
    simp only [probeCost, serSpec, List.length_cons, List.length_append]; omega

end Clvm.Serde.Classic
