/-
The length header of the classic format: `decode_size_with_offset` inverts `hdrW` (both
directions), never panics on a first byte ≥ 0x80, and the minimal-width header is characterised
by the `min_value` table of `is_canonical_atom`.
-/
import ClvmProofs.Lemmas.ClassicSpec
set_option linter.unusedSimpArgs false
namespace Clvm.Serde.Classic

theorem leadingOnes_cases (x : Nat) (hx : x < 256) :
    (leadingOnes x = 0 ∧ x < 0x80) ∨ (leadingOnes x = 1 ∧ 0x80 ≤ x ∧ x < 0xC0) ∨
    (leadingOnes x = 2 ∧ 0xC0 ≤ x ∧ x < 0xE0) ∨ (leadingOnes x = 3 ∧ 0xE0 ≤ x ∧ x < 0xF0) ∨
    (leadingOnes x = 4 ∧ 0xF0 ≤ x ∧ x < 0xF8) ∨ (leadingOnes x = 5 ∧ 0xF8 ≤ x ∧ x < 0xFC) ∨
    (leadingOnes x = 6 ∧ 0xFC ≤ x ∧ x < 0xFE) ∨ (leadingOnes x = 7 ∧ x = 0xFE) ∨
    (leadingOnes x = 8 ∧ x = 0xFF) := by
  unfold leadingOnes; repeat' split
  all_goals omega

theorem ite_err_eq_ok {ε α : Type} {c : Prop} [Decidable c] {e : ε} {x : Except ε α} {y : α} :
    ((if c then .error e else x) = Except.ok y) ↔ (¬ c ∧ x = .ok y) := by
  by_cases h : c <;> simp [h]

theorem decode_inv (inp : Bytes) (f : UInt8) (k n : Nat)
    (h : decodeSizeWithOffset inp f.toNat = .ok (k, n)) :
    1 ≤ k ∧ k ≤ 6 ∧ n < 2 ^ (7 * k - 1) ∧ n < 2 ^ 34 ∧ k - 1 ≤ inp.length ∧
      f :: inp.take (k - 1) = hdrW k n := by
  have hf := u8_lt f
  unfold decodeSizeWithOffset at h
  rw [and_80_eq_zero _ hf] at h
  simp only [Gen.decodeSizeMaxPrefix, Gen.decodeSizeMax] at h
  rcases leadingOnes_cases f.toNat hf with ⟨lo, hr⟩ | ⟨lo, hr⟩ | ⟨lo, hr⟩ | ⟨lo, hr⟩ | ⟨lo, hr⟩ |
    ⟨lo, hr⟩ | ⟨lo, hr⟩ | ⟨lo, hr⟩ | ⟨lo, hr⟩
  · simp [hr] at h
  · simp [lo, show ¬ f.toNat < 128 by omega, and_7f, beFold_cons,
      show (0xff >>> 1) = 0x7f by decide, ite_err_eq_ok] at h
    obtain ⟨_, rfl, rfl⟩ := h
    refine ⟨by omega, by omega, by omega, by omega, by omega, ?_⟩
    simp only [hdrW, Nat.sub_self, List.take, List.cons.injEq, and_true]
    refine (u8_eq_of_toNat _ _ ?_).symm
    omega
  · simp only [lo] at h
    rcases inp with _ | ⟨b1, r⟩
    · simp [show ¬ f.toNat < 128 by omega] at h
    have := u8_lt b1
    simp [show ¬ f.toNat < 128 by omega, and_3f, beFold_cons,
      show (0xff >>> 2) = 0x3f by decide, ite_err_eq_ok] at h
    obtain ⟨_, rfl, rfl⟩ := h
    refine ⟨by omega, by omega, by omega, by omega, by simp, ?_⟩
    simp only [hdrW, Nat.add_one_sub_one, List.take, List.cons.injEq, and_true]
    refine ⟨?_, ?_⟩
    all_goals
      refine (u8_eq_of_toNat _ _ ?_).symm
      omega
  · simp only [lo] at h
    rcases inp with _ | ⟨b1, _ | ⟨b2, r⟩⟩
    · simp [show ¬ f.toNat < 128 by omega] at h
    · simp [show ¬ f.toNat < 128 by omega] at h
    have := u8_lt b1
    have := u8_lt b2
    simp [show ¬ f.toNat < 128 by omega, and_1f, beFold_cons,
      show (0xff >>> 3) = 0x1f by decide, ite_err_eq_ok] at h
    obtain ⟨_, rfl, rfl⟩ := h
    refine ⟨by omega, by omega, by omega, by omega, by simp, ?_⟩
    simp only [hdrW, Nat.add_one_sub_one, List.take, List.cons.injEq, and_true]
    refine ⟨?_, ?_, ?_⟩
    all_goals
      refine (u8_eq_of_toNat _ _ ?_).symm
      omega
  · simp only [lo] at h
    rcases inp with _ | ⟨b1, _ | ⟨b2, _ | ⟨b3, r⟩⟩⟩
    · simp [show ¬ f.toNat < 128 by omega] at h
    · simp [show ¬ f.toNat < 128 by omega] at h
    · simp [show ¬ f.toNat < 128 by omega] at h
    have := u8_lt b1
    have := u8_lt b2
    have := u8_lt b3
    simp [show ¬ f.toNat < 128 by omega, and_0f, beFold_cons,
      show (0xff >>> 4) = 0x0f by decide, ite_err_eq_ok] at h
    obtain ⟨_, rfl, rfl⟩ := h
    refine ⟨by omega, by omega, by omega, by omega, by simp, ?_⟩
    simp only [hdrW, Nat.add_one_sub_one, List.take, List.cons.injEq, and_true]
    refine ⟨?_, ?_, ?_, ?_⟩
    all_goals
      refine (u8_eq_of_toNat _ _ ?_).symm
      omega
  · simp only [lo] at h
    rcases inp with _ | ⟨b1, _ | ⟨b2, _ | ⟨b3, _ | ⟨b4, r⟩⟩⟩⟩
    · simp [show ¬ f.toNat < 128 by omega] at h
    · simp [show ¬ f.toNat < 128 by omega] at h
    · simp [show ¬ f.toNat < 128 by omega] at h
    · simp [show ¬ f.toNat < 128 by omega] at h
    have := u8_lt b1
    have := u8_lt b2
    have := u8_lt b3
    have := u8_lt b4
    simp [show ¬ f.toNat < 128 by omega, and_07, beFold_cons,
      show (0xff >>> 5) = 0x07 by decide, ite_err_eq_ok] at h
    obtain ⟨_, rfl, rfl⟩ := h
    refine ⟨by omega, by omega, by omega, by omega, by simp, ?_⟩
    simp only [hdrW, Nat.add_one_sub_one, List.take, List.cons.injEq, and_true]
    refine ⟨?_, ?_, ?_, ?_, ?_⟩
    all_goals
      refine (u8_eq_of_toNat _ _ ?_).symm
      omega
  · simp only [lo] at h
    rcases inp with _ | ⟨b1, _ | ⟨b2, _ | ⟨b3, _ | ⟨b4, _ | ⟨b5, r⟩⟩⟩⟩⟩
    · simp [show ¬ f.toNat < 128 by omega] at h
    · simp [show ¬ f.toNat < 128 by omega] at h
    · simp [show ¬ f.toNat < 128 by omega] at h
    · simp [show ¬ f.toNat < 128 by omega] at h
    · simp [show ¬ f.toNat < 128 by omega] at h
    have := u8_lt b1
    have := u8_lt b2
    have := u8_lt b3
    have := u8_lt b4
    have := u8_lt b5
    simp [show ¬ f.toNat < 128 by omega, and_03, beFold_cons,
      show (0xff >>> 6) = 0x03 by decide, ite_err_eq_ok] at h
    obtain ⟨_, rfl, rfl⟩ := h
    refine ⟨by omega, by omega, by omega, by omega, by simp, ?_⟩
    simp only [hdrW, Nat.add_one_sub_one, List.take, List.cons.injEq, and_true]
    refine ⟨?_, ?_, ?_, ?_, ?_, ?_⟩
    all_goals
      refine (u8_eq_of_toNat _ _ ?_).symm
      omega
  · simp only [lo] at h
    simp [show ¬ f.toNat < 128 by omega, ite_err_eq_ok] at h
    omega
  · simp [lo, show ¬ f.toNat < 128 by omega] at h


/-- the decoder never panics on a first byte with the top bit set -/
theorem decode_nopanic (inp : Bytes) (f : Nat) (h1 : 0x80 ≤ f) (h2 : f < 256) (m : String) :
    decodeSizeWithOffset inp f ≠ .error (.Panic m) := by
  unfold decodeSizeWithOffset
  rw [and_80_eq_zero _ h2]
  simp only [show ¬ f < 128 by omega, decide_false, Bool.false_eq_true, if_false]
  repeat' split
  all_goals simp

theorem decode_hdrW1 (n : Nat) (hcap : n < 2 ^ 6) (rest : Bytes) :
    ∃ f tl, hdrW 1 n = f :: tl ∧ tl.length = 0 ∧ 0x80 ≤ f.toNat ∧ f.toNat ≠ 0xff ∧
      (1 ≤ n → 0x80 < f.toNat) ∧ (1 ≤ 5 → f.toNat < 0xFC) ∧
      decodeSizeWithOffset (tl ++ rest) f.toNat = .ok (1, n) := by
  have hf : (UInt8.ofNat (0x80 + n)).toNat = 0x80 + n := toNat_ofNat_lt _ (by omega)
  refine ⟨_, _, rfl, rfl, by rw [hf]; omega, by rw [hf]; omega, by rw [hf]; omega, by rw [hf]; omega, ?_⟩
  unfold decodeSizeWithOffset
  rw [and_80_eq_zero _ (u8_lt _), hf]
  have lo : leadingOnes (0x80 + n) = 1 := by
    unfold leadingOnes; repeat' split
    all_goals omega
  simp only [lo]
  have hm : (0xff >>> 1) = 0x7f := by decide
  simp only [hm, and_7f, Gen.decodeSizeMaxPrefix, Gen.decodeSizeMax]
  simp [beFold_cons]
  repeat' split
  all_goals first | omega | (simp only [Except.ok.injEq, Prod.mk.injEq, true_and]; omega)

theorem decode_hdrW2 (n : Nat) (hcap : n < 2 ^ 13) (rest : Bytes) :
    ∃ f tl, hdrW 2 n = f :: tl ∧ tl.length = 1 ∧ 0x80 ≤ f.toNat ∧ f.toNat ≠ 0xff ∧
      (1 ≤ n → 0x80 < f.toNat) ∧ (2 ≤ 5 → f.toNat < 0xFC) ∧
      decodeSizeWithOffset (tl ++ rest) f.toNat = .ok (2, n) := by
  have hf : (UInt8.ofNat (0xC0 + n / 2 ^ 8)).toNat = 0xC0 + n / 2 ^ 8 := toNat_ofNat_lt _ (by omega)
  refine ⟨_, _, rfl, rfl, by rw [hf]; omega, by rw [hf]; omega, by rw [hf]; omega, by rw [hf]; omega, ?_⟩
  unfold decodeSizeWithOffset
  rw [and_80_eq_zero _ (u8_lt _), hf]
  have lo : leadingOnes (0xC0 + n / 2 ^ 8) = 2 := by
    unfold leadingOnes; repeat' split
    all_goals omega
  simp only [lo]
  have hm : (0xff >>> 2) = 0x3f := by decide
  simp only [hm, and_3f, Gen.decodeSizeMaxPrefix, Gen.decodeSizeMax]
  simp [beFold_cons]
  repeat' split
  all_goals first | omega | (simp only [Except.ok.injEq, Prod.mk.injEq, true_and]; omega)

theorem decode_hdrW3 (n : Nat) (hcap : n < 2 ^ 20) (rest : Bytes) :
    ∃ f tl, hdrW 3 n = f :: tl ∧ tl.length = 2 ∧ 0x80 ≤ f.toNat ∧ f.toNat ≠ 0xff ∧
      (1 ≤ n → 0x80 < f.toNat) ∧ (3 ≤ 5 → f.toNat < 0xFC) ∧
      decodeSizeWithOffset (tl ++ rest) f.toNat = .ok (3, n) := by
  have hf : (UInt8.ofNat (0xE0 + n / 2 ^ 16)).toNat = 0xE0 + n / 2 ^ 16 := toNat_ofNat_lt _ (by omega)
  refine ⟨_, _, rfl, rfl, by rw [hf]; omega, by rw [hf]; omega, by rw [hf]; omega, by rw [hf]; omega, ?_⟩
  unfold decodeSizeWithOffset
  rw [and_80_eq_zero _ (u8_lt _), hf]
  have lo : leadingOnes (0xE0 + n / 2 ^ 16) = 3 := by
    unfold leadingOnes; repeat' split
    all_goals omega
  simp only [lo]
  have hm : (0xff >>> 3) = 0x1f := by decide
  simp only [hm, and_1f, Gen.decodeSizeMaxPrefix, Gen.decodeSizeMax]
  simp [beFold_cons]
  repeat' split
  all_goals first | omega | (simp only [Except.ok.injEq, Prod.mk.injEq, true_and]; omega)

theorem decode_hdrW4 (n : Nat) (hcap : n < 2 ^ 27) (rest : Bytes) :
    ∃ f tl, hdrW 4 n = f :: tl ∧ tl.length = 3 ∧ 0x80 ≤ f.toNat ∧ f.toNat ≠ 0xff ∧
      (1 ≤ n → 0x80 < f.toNat) ∧ (4 ≤ 5 → f.toNat < 0xFC) ∧
      decodeSizeWithOffset (tl ++ rest) f.toNat = .ok (4, n) := by
  have hf : (UInt8.ofNat (0xF0 + n / 2 ^ 24)).toNat = 0xF0 + n / 2 ^ 24 := toNat_ofNat_lt _ (by omega)
  refine ⟨_, _, rfl, rfl, by rw [hf]; omega, by rw [hf]; omega, by rw [hf]; omega, by rw [hf]; omega, ?_⟩
  unfold decodeSizeWithOffset
  rw [and_80_eq_zero _ (u8_lt _), hf]
  have lo : leadingOnes (0xF0 + n / 2 ^ 24) = 4 := by
    unfold leadingOnes; repeat' split
    all_goals omega
  simp only [lo]
  have hm : (0xff >>> 4) = 0x0f := by decide
  simp only [hm, and_0f, Gen.decodeSizeMaxPrefix, Gen.decodeSizeMax]
  simp [beFold_cons]
  repeat' split
  all_goals first | omega | (simp only [Except.ok.injEq, Prod.mk.injEq, true_and]; omega)

theorem decode_hdrW5 (n : Nat) (hcap : n < 2 ^ 34) (rest : Bytes) :
    ∃ f tl, hdrW 5 n = f :: tl ∧ tl.length = 4 ∧ 0x80 ≤ f.toNat ∧ f.toNat ≠ 0xff ∧
      (1 ≤ n → 0x80 < f.toNat) ∧ (5 ≤ 5 → f.toNat < 0xFC) ∧
      decodeSizeWithOffset (tl ++ rest) f.toNat = .ok (5, n) := by
  have hf : (UInt8.ofNat (0xF8 + n / 2 ^ 32)).toNat = 0xF8 + n / 2 ^ 32 := toNat_ofNat_lt _ (by omega)
  refine ⟨_, _, rfl, rfl, by rw [hf]; omega, by rw [hf]; omega, by rw [hf]; omega, by rw [hf]; omega, ?_⟩
  unfold decodeSizeWithOffset
  rw [and_80_eq_zero _ (u8_lt _), hf]
  have lo : leadingOnes (0xF8 + n / 2 ^ 32) = 5 := by
    unfold leadingOnes; repeat' split
    all_goals omega
  simp only [lo]
  have hm : (0xff >>> 5) = 0x07 := by decide
  simp only [hm, and_07, Gen.decodeSizeMaxPrefix, Gen.decodeSizeMax]
  simp [beFold_cons]
  repeat' split
  all_goals first | omega | (simp only [Except.ok.injEq, Prod.mk.injEq, true_and]; omega)

theorem decode_hdrW6 (n : Nat) (hcap : n < 2 ^ 41) (hn : n < 2 ^ 34) (rest : Bytes) :
    ∃ f tl, hdrW 6 n = f :: tl ∧ tl.length = 5 ∧ 0x80 ≤ f.toNat ∧ f.toNat ≠ 0xff ∧
      (1 ≤ n → 0x80 < f.toNat) ∧ (6 ≤ 5 → f.toNat < 0xFC) ∧
      decodeSizeWithOffset (tl ++ rest) f.toNat = .ok (6, n) := by
  have hf : (UInt8.ofNat (0xFC + n / 2 ^ 40)).toNat = 0xFC + n / 2 ^ 40 := toNat_ofNat_lt _ (by omega)
  refine ⟨_, _, rfl, rfl, by rw [hf]; omega, by rw [hf]; omega, by rw [hf]; omega, by rw [hf]; omega, ?_⟩
  unfold decodeSizeWithOffset
  rw [and_80_eq_zero _ (u8_lt _), hf]
  have lo : leadingOnes (0xFC + n / 2 ^ 40) = 6 := by
    unfold leadingOnes; repeat' split
    all_goals omega
  simp only [lo]
  have hm : (0xff >>> 6) = 0x03 := by decide
  simp only [hm, and_03, Gen.decodeSizeMaxPrefix, Gen.decodeSizeMax]
  simp [beFold_cons]
  repeat' split
  all_goals first | omega | (simp only [Except.ok.injEq, Prod.mk.injEq, true_and]; omega)

/-- `decode_size_with_offset` inverts every header `hdrW k n` that can carry `n` -/
theorem decode_hdrW (k n : Nat) (hk1 : 1 ≤ k) (hk6 : k ≤ 6) (hcap : n < 2 ^ (7 * k - 1))
    (hn : n < 2 ^ 34) (rest : Bytes) :
    ∃ f tl, hdrW k n = f :: tl ∧ tl.length = k - 1 ∧ 0x80 ≤ f.toNat ∧ f.toNat ≠ 0xff ∧
      (1 ≤ n → 0x80 < f.toNat) ∧ (k ≤ 5 → f.toNat < 0xFC) ∧
      decodeSizeWithOffset (tl ++ rest) f.toNat = .ok (k, n) := by
  have hk : k = 1 ∨ k = 2 ∨ k = 3 ∨ k = 4 ∨ k = 5 ∨ k = 6 := by omega
  rcases hk with rfl | rfl | rfl | rfl | rfl | rfl
  · exact decode_hdrW1 n hcap rest
  · exact decode_hdrW2 n hcap rest
  · exact decode_hdrW3 n hcap rest
  · exact decode_hdrW4 n hcap rest
  · exact decode_hdrW5 n hcap rest
  · exact decode_hdrW6 n hcap hn rest

theorem width_range (n : Nat) : 1 ≤ width n ∧ width n ≤ 6 := by
  unfold width; repeat' split
  all_goals omega

theorem width_cap (n : Nat) (hn : n < 2 ^ 34) : n < 2 ^ (7 * width n - 1) ∧ width n ≤ 5 := by
  unfold width; repeat' split
  all_goals omega

/-- the header is the minimal one iff the value reaches the `min_value` of `is_canonical_atom`
for that header length (a six-byte header is never minimal below 2^34) -/
theorem width_eq_iff (k n : Nat) (hk1 : 1 ≤ k) (hk6 : k ≤ 6) (hcap : n < 2 ^ (7 * k - 1))
    (hn : n < 2 ^ 34) (h1 : k = 1 → 1 ≤ n) :
    width n = k ↔ n ≥ thr Gen.canonMinValue (k - 1) := by
  have hk : k = 1 ∨ k = 2 ∨ k = 3 ∨ k = 4 ∨ k = 5 ∨ k = 6 := by omega
  unfold width
  rcases hk with rfl | rfl | rfl | rfl | rfl | rfl
  all_goals
    simp [Gen.canonMinValue, thr] at *
    repeat' split
    all_goals omega

end Clvm.Serde.Classic
