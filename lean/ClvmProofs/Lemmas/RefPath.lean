/-
C01: `traverse_path`.  The reference walks the path atom with a byte cursor and a bit mask
(`Ref.pathLoop`); the implementation model tests a precomputed list of bits (`Interp.pathBits`,
`Interp.walk`).  `path_agree`: for every byte string and every environment they return the same
cost and the same sub-tree, and fail together ("path into atom").
-/
import ClvmProofs.Lemmas.RefBase

namespace Clvm.Ref
open Clvm Clvm.Interp Clvm.Alloc

/-- `Interp.walk` on plain trees, with the reference's constant -/
def walkT : List Bool → Tree → Nat → Res
  | [], t, cost => .ok (cost, t)
  | bit :: bits, t, cost =>
    match t with
    | .atom _ => .error .path
    | .pair l r => walkT bits (if bit then r else l) (cost + PATH_LOOKUP_COST_PER_LEG)

theorem walkT_append (a b : List Bool) : ∀ (t : Tree) (cost : Nat),
    walkT (a ++ b) t cost =
      match walkT a t cost with
      | .error e => .error e
      | .ok (c, t') => walkT b t' c := by
  induction a with
  | nil => intro t cost; rfl
  | cons x a ih =>
    intro t cost
    cases t with
    | atom _ => rfl
    | pair l r => simp only [List.cons_append, walkT]; exact ih _ _

/-- outcome of the model's walk against the reference's -/
def PathAgree (mo : Except Err (Nat × Val)) (ro : Res) : Prop :=
  match mo, ro with
  | .ok (c, v), .ok (c', t) => c = c' ∧ v.erase = t
  | .error e, .error e' => e = .PathIntoAtom ∧ e' = .path
  | _, _ => False

theorem walk_walkT (bits : List Bool) : ∀ (v : Val) (cost : Nat),
    PathAgree (walk bits v cost) (walkT bits v.erase cost) := by
  induction bits with
  | nil => intro v cost; exact ⟨rfl, rfl⟩
  | cons x bits ih =>
    intro v cost
    cases v with
    | atom b i => exact ⟨rfl, rfl⟩
    | pair l r =>
      simp only [walk, walkT, Val.erase]
      have := ih (if x then r else l) (cost + Gen.TRAVERSE_COST_PER_BIT)
      rw [show PATH_LOOKUP_COST_PER_LEG = Gen.TRAVERSE_COST_PER_BIT from rfl]
      cases x <;> simpa using this

/-! ### one iteration of the reference's loop -/

theorem j_cases {j : Nat} (h : j < 8) : j = 0 ∨ j = 1 ∨ j = 2 ∨ j = 3 ∨ j = 4 ∨ j = 5 ∨ j = 6 ∨ j = 7 := by omega

theorem pathLoop_step (b : Bytes) (ebc em fuel k j : Nat) (y : UInt8) (hy : b[k]? = some y)
    (hcond : k > ebc ∨ 2 ^ j < em) (hj : j < 8) (env : Tree) (cost : Nat) :
    pathLoop b ebc em (fuel + 1) k (2 ^ j) env cost =
      match env with
      | .atom _ => .error .path
      | .pair l r =>
        if j = 7 then pathLoop b ebc em fuel (k - 1) 1 (if y.toNat &&& 2 ^ j != 0 then r else l)
            (cost + PATH_LOOKUP_COST_PER_LEG)
        else pathLoop b ebc em fuel k (2 ^ (j + 1)) (if y.toNat &&& 2 ^ j != 0 then r else l)
            (cost + PATH_LOOKUP_COST_PER_LEG) := by
  simp only [pathLoop]
  rw [if_pos hcond]
  cases env with
  | atom _ => rfl
  | pair l r =>
    simp only [hy]
    rcases j_cases hj with rfl | rfl | rfl | rfl | rfl | rfl | rfl | rfl <;> simp

theorem pathLoop_stop (b : Bytes) (ebc em fuel k m : Nat) (h : ¬ (k > ebc ∨ m < em)) (env : Tree) (cost : Nat) :
    pathLoop b ebc em (fuel + 1) k m env cost = .ok (cost, env) := by
  simp only [pathLoop]
  rw [if_neg h]

/-- bits `j … 7` of a byte, least significant first -/
def bitsFrom (y j d : Nat) : List Bool := (List.range' j d).map (fun i => y &&& 2 ^ i != 0)

/-- a whole byte above the first non-zero one: eight iterations, then the cursor moves down -/
theorem pathLoop_byte (b : Bytes) (ebc em k : Nat) (y : UInt8) (hy : b[k]? = some y) (hk : k > ebc) :
    ∀ (d j fuel : Nat) (env : Tree) (cost : Nat), j + d + 1 = 8 →
      pathLoop b ebc em (fuel + d + 1) k (2 ^ j) env cost =
        match walkT (bitsFrom y.toNat j (d + 1)) env cost with
        | .error e => .error e
        | .ok (c, t) => pathLoop b ebc em fuel (k - 1) 1 t c := by
  intro d
  induction d with
  | zero =>
    intro j fuel env cost hj
    have : j = 7 := by omega
    subst this
    rw [pathLoop_step b ebc em fuel k 7 y hy (Or.inl hk) (by omega)]
    cases env with
    | atom _ => rfl
    | pair l r => simp [bitsFrom, List.range', walkT]
  | succ d ih =>
    intro j fuel env cost hj
    rw [show fuel + (d + 1) + 1 = (fuel + d + 1) + 1 by omega]
    rw [pathLoop_step b ebc em _ k j y hy (Or.inl hk) (by omega)]
    cases env with
    | atom _ => simp [bitsFrom, List.range', walkT]
    | pair l r =>
      have hj7 : ¬ j = 7 := by omega
      simp only [hj7, if_false]
      rw [ih (j + 1) fuel _ _ (by omega)]
      simp [bitsFrom, List.range', walkT]

/-- the first non-zero byte: iterate while the mask is below the most significant set bit -/
theorem pathLoop_last (b : Bytes) (ebc em : Nat) (x : UInt8) (hx : b[ebc]? = some x) (hem : em ≤ 128) :
    ∀ (d j fuel : Nat) (env : Tree) (cost : Nat), j + d = 8 →
      pathLoop b ebc em (fuel + d + 1) ebc (2 ^ j) env cost =
        walkT ((List.range' j d).filterMap (fun i => if 2 ^ i < em then some (x.toNat &&& 2 ^ i != 0) else none))
          env cost := by
  intro d
  induction d with
  | zero =>
    intro j fuel env cost hj
    have : j = 8 := by omega
    subst this
    rw [pathLoop_stop _ _ _ _ _ _ (by omega)]
    rfl
  | succ d ih =>
    intro j fuel env cost hj
    by_cases hlt : 2 ^ j < em
    · have hj7 : j < 7 := by
        have : 2 ^ j < 2 ^ 7 := by omega
        exact (Nat.pow_lt_pow_iff_right (by omega)).1 this
      rw [show fuel + (d + 1) + 1 = (fuel + d + 1) + 1 by omega]
      rw [pathLoop_step b ebc em _ ebc j x hx (Or.inr hlt) (by omega)]
      simp only [List.range'_succ, List.filterMap_cons, hlt, if_true]
      cases env with
      | atom _ => rfl
      | pair l r =>
        have hne : ¬ j = 7 := by omega
        simp only [hne, if_false, walkT]
        exact ih (j + 1) fuel _ _ (by omega)
    · rw [pathLoop_stop _ _ _ _ _ _ (by omega)]
      have hnil : (List.range' j (d + 1)).filterMap
          (fun i => if 2 ^ i < em then some (x.toNat &&& 2 ^ i != 0) else none) = [] := by
        rw [List.filterMap_eq_nil_iff]
        intro i hi
        rw [List.mem_range'_1] at hi
        have : 2 ^ j ≤ 2 ^ i := Nat.pow_le_pow_right (by omega) hi.1
        rw [if_neg (by omega)]
      rw [hnil]; rfl

theorem msbMask_eq : ∀ n, n < 256 → Ref.msbMask n = Interp.msbMask n := by decide +kernel
theorem msbMask_le : ∀ n, n < 256 → Ref.msbMask n ≤ 128 := by decide +kernel

theorem bits8_eq_bitsFrom (y : Nat) : bits8 y = bitsFrom y 0 8 := by
  simp [bits8, bitsFrom, List.range_eq_range']

theorem bitsBelow_eq (x em : Nat) :
    bitsBelow x em =
      (List.range' 0 8).filterMap (fun i => if 2 ^ i < em then some (x &&& 2 ^ i != 0) else none) := by
  simp [bitsBelow, List.range_eq_range']

/-- the loop started at byte `ebc + n` with mask 1 walks the bits of bytes `ebc … ebc + n` -/
theorem pathLoop_prefix (b : Bytes) (ebc : Nat) (x : UInt8) (rest : Bytes) (hd : b.drop ebc = x :: rest) :
    ∀ (n : Nat), n < (x :: rest).length → ∀ (fuel : Nat) (env : Tree) (cost : Nat), 8 * (n + 1) < fuel →
      pathLoop b ebc (Ref.msbMask x.toNat) fuel (ebc + n) 1 env cost =
        walkT (pathBitsNZ ((x :: rest).take (n + 1))) env cost := by
  have hget : ∀ i, b[ebc + i]? = (x :: rest)[i]? := by
    intro i; rw [← hd, List.getElem?_drop]
  have hx : b[ebc]? = some x := by simpa using hget 0
  have hxl : x.toNat < 256 := x.toNat_lt
  intro n
  induction n with
  | zero =>
    intro _ fuel env cost hf
    obtain ⟨f, rfl⟩ : ∃ f, fuel = f + 8 + 1 := ⟨fuel - 9, by omega⟩
    have := pathLoop_last b ebc (Ref.msbMask x.toNat) x hx (msbMask_le _ hxl) 8 0 f env cost (by omega)
    simp only [Nat.pow_zero, Nat.add_zero] at this ⊢
    rw [this]
    simp only [List.take, pathBitsNZ, List.reverse_nil, List.flatMap_nil, List.nil_append]
    rw [bitsBelow_eq, msbMask_eq _ hxl]
  | succ n ih =>
    intro hn fuel env cost hf
    have hn' : n < (x :: rest).length := by omega
    obtain ⟨y, hy⟩ : ∃ y, (x :: rest)[n + 1]? = some y := ⟨(x :: rest)[n + 1], by simp⟩
    have hby : b[ebc + (n + 1)]? = some y := by rw [hget, hy]
    obtain ⟨f, rfl⟩ : ∃ f, fuel = f + 7 + 1 := ⟨fuel - 8, by omega⟩
    have hb := pathLoop_byte b ebc (Ref.msbMask x.toNat) (ebc + (n + 1)) y hby (by omega) 7 0 f env cost (by omega)
    simp only [Nat.pow_zero] at hb
    rw [hb]
    have htake : (x :: rest).take (n + 1 + 1) = (x :: rest).take (n + 1) ++ [y] := by
      rw [List.take_add_one, hy]; rfl
    rw [htake, pathBitsNZ_snoc _ _ (by simp), walkT_append, bits8_eq_bitsFrom]
    cases hw : walkT (bitsFrom y.toNat 0 (7 + 1)) env cost with
    | error e => rfl
    | ok r =>
      obtain ⟨c, t⟩ := r
      simp only
      rw [show ebc + (n + 1) - 1 = ebc + n by omega]
      exact ih hn' f t c (by omega)

theorem cost_eq (k : Nat) :
    Gen.TRAVERSE_BASE_COST + k * Gen.TRAVERSE_COST_PER_ZERO_BYTE + Gen.TRAVERSE_COST_PER_BIT
      = PATH_LOOKUP_BASE_COST + PATH_LOOKUP_COST_PER_LEG + k * PATH_LOOKUP_COST_PER_ZERO_BYTE := by
  simp only [Gen.TRAVERSE_BASE_COST, Gen.TRAVERSE_COST_PER_ZERO_BYTE, Gen.TRAVERSE_COST_PER_BIT,
    PATH_LOOKUP_BASE_COST, PATH_LOOKUP_COST_PER_LEG, PATH_LOOKUP_COST_PER_ZERO_BYTE]
  omega

theorem endByteCursor_eq (b : Bytes) : endByteCursor b = firstNonZero b := by
  induction b with
  | nil => rfl
  | cons x t ih => simp only [endByteCursor, firstNonZero, ih]; split <;> omega

theorem firstNonZero_le (b : Bytes) : firstNonZero b ≤ b.length := by
  induction b with
  | nil => simp [firstNonZero]
  | cons x t ih => simp only [firstNonZero, List.length_cons]; split <;> omega

/-- **`path_eq`**: `traverse_path` of the implementation model and of the reference agree on every
path atom and every environment: same cost (base, leading zero bytes, one leg per bit), same
sub-tree, and "path into atom" together. -/
theorem path_agree (b : Bytes) (env : Val) :
    PathAgree (Interp.traversePath b env) (Ref.traversePath b env.erase) := by
  unfold Interp.traversePath Ref.traversePath
  simp only [endByteCursor_eq]
  have hle := firstNonZero_le b
  by_cases hk : firstNonZero b ≥ b.length
  · rw [if_pos hk]
    cases b with
    | nil => exact ⟨rfl, rfl⟩
    | cons x t =>
      have heq : firstNonZero (x :: t) = (x :: t).length := by omega
      have he : (firstNonZero (x :: t) == (x :: t).length) = true := by rw [heq]; simp
      simp only [List.isEmpty_cons, Bool.false_eq_true, if_false, he, if_true]
      exact ⟨cost_eq _, rfl⟩
  · rw [if_neg hk]
    have hne : b.isEmpty = false := by cases b <;> simp_all
    have he : (firstNonZero b == b.length) = false := by simp; omega
    simp only [hne, Bool.false_eq_true, if_false, he]
    have hdl : (b.drop (firstNonZero b)).length = b.length - firstNonZero b := List.length_drop
    match hd : b.drop (firstNonZero b) with
    | [] => rw [hd] at hdl; simp at hdl; omega
    | x :: rest =>
      rw [hd] at hdl
      have hx : b[firstNonZero b]? = some x := by
        have := List.getElem?_drop (xs := b) (i := firstNonZero b) (j := 0)
        rw [hd] at this; simpa using this.symm
      rw [hx]
      simp only
      have hp := pathLoop_prefix b (firstNonZero b) x rest hd rest.length (by simp)
        (8 * b.length + 1) env.erase
        (PATH_LOOKUP_BASE_COST + PATH_LOOKUP_COST_PER_LEG + firstNonZero b * PATH_LOOKUP_COST_PER_ZERO_BYTE)
        (by simp only [List.length_cons] at hdl; omega)
      rw [show firstNonZero b + rest.length = b.length - 1 by simp only [List.length_cons] at hdl; omega] at hp
      rw [hp, List.take_of_length_le (by simp), pathBits_eq, hd]
      rw [cost_eq]
      exact walk_walkT _ _ _

end Clvm.Ref
