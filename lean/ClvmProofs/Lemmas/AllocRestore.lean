/-
`maybe_restore_with_node` (allocator level of C04): under the invariant it never fails, leaves
the three counts unchanged, and the surviving / replacement node denotes the same tree.
-/
import ClvmProofs.Lemmas.AllocOps

namespace Clvm.Alloc
open Clvm

/-- `treeOf` reads only the three vectors -/
theorem treeAux_fields (a b : Alloc) (h1 : b.u8 = a.u8) (h2 : b.atoms = a.atoms) (h3 : b.pairs = a.pairs) :
    ∀ n p, treeAux b n p = treeAux a n p := by
  intro n
  induction n with
  | zero =>
    intro p
    cases p <;> simp [treeAux, atomBytes, h1, h2]
  | succ n ih =>
    intro p
    cases p with
    | small v => rfl
    | bytes i => simp [treeAux, atomBytes, h1, h2]
    | pair i =>
      simp only [treeAux, h3]
      cases a.pairs[i]? with
      | none => rfl
      | some lr => simp only [ih]

theorem treeOf_fields (a b : Alloc) (h1 : b.u8 = a.u8) (h2 : b.atoms = a.atoms) (h3 : b.pairs = a.pairs) (p : Ptr) :
    treeOf b p = treeOf a p := treeAux_fields a b h1 h2 h3 _ p

theorem tcpValid_fields (a b : Alloc) (h1 : b.u8 = a.u8) (h2 : b.atoms = a.atoms) (h3 : b.pairs = a.pairs)
    {c : TCheckpoint} (h : TCpValid a c) : TCpValid b c := by
  refine ⟨by rw [h1]; exact h.u8s, by rw [h2]; exact h.atoms, by rw [h3]; exact h.pairs, ?_, ?_⟩
  · rw [h2, h3]; exact h.closed
  · rw [h2]; exact h.noStraddle

/-- what a performed value-preserving restore guarantees: `q` (the old node or its replacement)
denotes what `ret` denoted, nothing else changed observably -/
structure RestoredWith (a : Alloc) (cp : TCheckpoint) (ret : Ptr) (a' : Alloc) (q : Ptr) : Prop where
  inv : Inv a'
  heapOk : HeapOk a → HeapOk a'
  counts : abs a' = abs a
  valid : Valid a' q
  tree : treeOf a' q = treeOf a ret
  older : ∀ p, ValidAt cp p → Valid a' p ∧ treeOf a' p = treeOf a p
  cps : ∀ c, TCpValid a c → c.le cp → TCpValid a' c

theorem abs_eq_of_counts {a b : Alloc} (h1 : atomCount b = atomCount a) (h2 : pairCount b = pairCount a)
    (h3 : heapSize b = heapSize a) (h4 : b.heapLimit = a.heapLimit) : abs b = abs a := by
  unfold abs; rw [h1, h2, h3, h4]

theorem restoredT_restoredWith (a : Alloc) (cp : TCheckpoint) (ret : Ptr) (hI : Inv a)
    (hv : TCpValid a cp) (hr : ValidAt cp ret) : RestoredWith a cp ret (restoredT a cp) ret := by
  have ⟨c1, c2, c3⟩ := restoredT_counts a cp hv
  refine ⟨restoredT_inv a cp hI hv, ?_, abs_eq_of_counts c1 c2 c3 rfl, restoredT_valid a cp hv hr,
    restoredT_treeOf a cp hv hr, fun p hp => ⟨restoredT_valid a cp hv hp, restoredT_treeOf a cp hv hp⟩,
    fun c hc hle => restoredT_tcpValid a cp c hv hc hle⟩
  intro hH
  unfold HeapOk at *
  unfold heapSize at c3
  show (restoredT a cp).u8.length + (restoredT a cp).ghostHeap ≤ a.heapLimit
  omega

/-- the `AfterNewBytes` branch: the surviving atom is re-created as a heap atom after the restore -/
theorem restoredWith_newBytes (a : Alloc) (cp : TCheckpoint) (i s e : Nat) (hI : Inv a) (hv : TCpValid a cp)
    (hget : a.atoms[i]? = some (s, e)) (hse : s ≤ e) (heu : e ≤ a.u8.length)
    (hi : ¬ i < cp.atoms) (hs : ¬ s < cp.u8s) :
    RestoredWith a cp (.bytes i)
      { restoredT a cp with
          u8 := (restoredT a cp).u8 ++ (a.u8.drop s).take (e - s),
          atoms := (restoredT a cp).atoms ++
            [((restoredT a cp).u8.length, ((restoredT a cp).u8 ++ (a.u8.drop s).take (e - s)).length)],
          ghostAtoms := (restoredT a cp).ghostAtoms - 1,
          ghostHeap := (restoredT a cp).ghostHeap - ((a.u8.drop s).take (e - s)).length }
      (.bytes (restoredT a cp).atoms.length) := by
  have h1 := hv.u8s; have h2 := hv.atoms; have h3 := hv.pairs
  have ⟨l1, l2, l3⟩ := restoredT_lengths a cp hv
  have ⟨c1, c2, c3⟩ := restoredT_counts a cp hv
  have hlt : i < a.atoms.length := by
    rcases Nat.lt_or_ge i a.atoms.length with h | h
    · exact h
    · rw [List.getElem?_eq_none h] at hget; cases hget
  have hga : (restoredT a cp).ghostAtoms = a.ghostAtoms + (a.atoms.length - cp.atoms) := rfl
  have hgh : (restoredT a cp).ghostHeap = a.ghostHeap + (a.u8.length - cp.u8s) := rfl
  have hI1 := restoredT_inv a cp hI hv
  have hca := hI.atomCap
  unfold atomCount at c1
  unfold heapSize at c3
  unfold pairCount at c2
  have hbuf : ((a.u8.drop s).take (e - s)).length = e - s := length_drop_take _ _ _ hse heu
  generalize hb : (a.u8.drop s).take (e - s) = buf at *
  -- the allocator just before the atom is re-created
  generalize ha3 : ({ restoredT a cp with
      ghostAtoms := (restoredT a cp).ghostAtoms - 1,
      ghostHeap := (restoredT a cp).ghostHeap - buf.length } : Alloc) = a3
  have f1 : a3.u8 = (restoredT a cp).u8 := by rw [← ha3]
  have f2 : a3.atoms = (restoredT a cp).atoms := by rw [← ha3]
  have f3 : a3.pairs = (restoredT a cp).pairs := by rw [← ha3]
  have f4 : a3.ghostAtoms = (restoredT a cp).ghostAtoms - 1 := by rw [← ha3]
  have f5 : a3.ghostHeap = (restoredT a cp).ghostHeap - buf.length := by rw [← ha3]
  have f6 : a3.ghostPairs = (restoredT a cp).ghostPairs := by rw [← ha3]
  have f7 : a3.heapLimit = a.heapLimit := by rw [← ha3]; rfl
  have hI3 : Inv a3 := ⟨by rw [f1, f2, f3]; exact hI1.closed, by rw [f2, f4, l2, hga]; omega,
    by rw [f3, f6]; exact hI1.pairCap, by rw [f7]; exact hI.limit⟩
  have hc3 : atomCount a3 + 1 = atomCount a := by
    unfold atomCount; rw [f2, f4, l2, hga]; omega
  have hh3 : heapSize a3 + buf.length = heapSize a := by
    unfold heapSize; rw [f1, f5, l1, hgh, hbuf]; omega
  have hp3 : pairCount a3 = pairCount a := by
    unfold pairCount; rw [f3, f6]; exact c2
  generalize ha4 : ({ restoredT a cp with
          u8 := (restoredT a cp).u8 ++ buf,
          atoms := (restoredT a cp).atoms ++
            [((restoredT a cp).u8.length, ((restoredT a cp).u8 ++ buf).length)],
          ghostAtoms := (restoredT a cp).ghostAtoms - 1,
          ghostHeap := (restoredT a cp).ghostHeap - buf.length } : Alloc) = a4
  rw [← f2]
  have g1 : a4.u8 = a3.u8 ++ buf := by rw [← ha4, f1]
  have g2 : a4.atoms = a3.atoms ++ [(a3.u8.length, (a3.u8 ++ buf).length)] := by rw [← ha4, f1, f2]
  have g3 : a4.pairs = a3.pairs := by rw [← ha4, f3]
  have g4 : a4.ghostAtoms = a3.ghostAtoms := by rw [← ha4, f4]
  have g5 : a4.ghostHeap = a3.ghostHeap := by rw [← ha4, f5]
  have g6 : a4.ghostPairs = a3.ghostPairs := by rw [← ha4, f6]
  have g7 : a4.heapLimit = a3.heapLimit := by rw [← ha4, f7]; rfl
  have hE : Ext a3 a4 := Ext.mk' buf [(a3.u8.length, (a3.u8 ++ buf).length)] [] g1 g2 (by rw [g3]; simp) g7
    (fun s' e' h => by simp at h; left; omega)
  have hI4 : Inv a4 := by
    refine ⟨?_, ?_, ?_, ?_⟩
    · rw [g1, g2, g3]
      exact (hI3.closed.mono_u8 (by simp)).push_atom (by simp) (Nat.le_refl _)
    · rw [g2, g4]; simp only [List.length_append, List.length_singleton]
      unfold atomCount at hc3; omega
    · rw [g3, g6]; exact hI3.pairCap
    · rw [g7]; exact hI3.limit
  have hT3 : ∀ c, TCpValid (restoredT a cp) c → TCpValid a3 c :=
    fun c hc => tcpValid_fields (restoredT a cp) a3 f1 f2 f3 hc
  have hget4 : a4.atoms[a3.atoms.length]? = some (a3.u8.length, (a3.u8 ++ buf).length) := by
    rw [g2]; simp
  refine ⟨hI4, ?_, ?_, ?_, ?_, ?_, ?_⟩
  · intro hH
    unfold HeapOk at *
    unfold heapSize at hh3
    rw [g1, g5, g7, f7, List.length_append]; omega
  · apply abs_eq_of_counts
    · unfold atomCount at *; rw [g2, g4]; simp only [List.length_append, List.length_singleton]; omega
    · unfold pairCount at *; rw [g3, g6]; exact hp3
    · unfold heapSize at *; rw [g1, g5, List.length_append]; omega
    · rw [g7, f7]
  · show a3.atoms.length < a4.atoms.length; rw [g2]; simp
  · rw [treeOf_bytes, treeOf_bytes, atomBytes_of_getElem? hget, hb, atomBytes_of_getElem? hget4, g1]
    rw [List.drop_left, List.length_append, Nat.add_sub_cancel_left, List.take_length]
  · intro p hp
    have hvp : Valid a3 p := by
      have := restoredT_valid a cp hv hp
      unfold Valid at *; rw [f2, f3]; exact this
    refine ⟨hE.valid hvp, ?_⟩
    rw [hE.treeOf hI3 hvp, treeOf_fields (restoredT a cp) a3 f1 f2 f3, restoredT_treeOf a cp hv hp]
  · intro c hc hle
    exact hE.tcpValid (hT3 c (restoredT_tcpValid a cp c hv hc hle))


inductive MrOutcome (a : Alloc) (cp : TCheckpoint) (ret : Ptr) : MaybeRestore → Alloc → Prop where
  | aborted : MrOutcome a cp ret .aborted a
  | noReplace (a' : Alloc) : RestoredWith a cp ret a' ret → MrOutcome a cp ret .noReplace a'
  /-- the replacement of a heap atom is again a heap atom (representation preserved) -/
  | replace (a' : Alloc) (q : Ptr) : (∃ i j, ret = .bytes i ∧ q = .bytes j) → RestoredWith a cp ret a' q →
      MrOutcome a cp ret (.replace q) a'

/-- **`maybe_restore_with_node` under the invariant**: never `InternalError` / `OutOfMemory` /
`TooManyAtoms` / panic; `Aborted` changes nothing; otherwise counts are unchanged and the surviving
or replacement node denotes the same tree, as does every node older than the checkpoint. -/
theorem maybeRestore_ok (a : Alloc) (cp : TCheckpoint) (ret : Ptr) (hI : Inv a)
    (hv : TCpValid a cp) (hr : Valid a ret) :
    ∃ r a', maybeRestoreWithNode a cp ret = (.ok r, a') ∧ MrOutcome a cp ret r a' := by
  have h1 := hv.u8s; have h2 := hv.atoms; have h3 := hv.pairs
  unfold maybeRestoreWithNode
  rw [if_neg (by omega), if_neg (by omega), if_neg (by omega)]
  simp only []
  split
  · exact ⟨_, _, rfl, .aborted⟩
  · rw [restoreTransparent_eq a cp hv]
    have ⟨l1, l2, l3⟩ := restoredT_lengths a cp hv
    have ⟨c1, c2, c3⟩ := restoredT_counts a cp hv
    cases ret with
    | small v =>
      simp only [checkpointNodeStatus]
      exact ⟨_, _, rfl, .noReplace _ (restoredT_restoredWith a cp _ hI hv hr)⟩
    | pair i =>
      simp only [checkpointNodeStatus]
      by_cases hi : i < cp.pairs
      · rw [if_pos hi]
        exact ⟨_, _, rfl, .noReplace _ (restoredT_restoredWith a cp _ hI hv hi)⟩
      · rw [if_neg hi]
        have hlt : i < a.pairs.length := hr
        have hget : a.pairs[i]? = some a.pairs[i] := List.getElem?_eq_getElem hlt
        simp only [node, pairAt, hget]
        exact ⟨_, _, rfl, .aborted⟩
    | bytes i =>
      simp only [checkpointNodeStatus]
      by_cases hi : i < cp.atoms
      · rw [if_pos hi]
        exact ⟨_, _, rfl, .noReplace _ (restoredT_restoredWith a cp _ hI hv hi)⟩
      · rw [if_neg hi]
        obtain ⟨s, e, hget, hse, heu⟩ := valid_bytes_get a hI i hr
        have hlt : i < a.atoms.length := hr
        have hab : atomBuf a i = .ok (s, e) := by unfold atomBuf; rw [hget]
        simp only [hab]
        have hga : (restoredT a cp).ghostAtoms = a.ghostAtoms + (a.atoms.length - cp.atoms) := rfl
        have hgh : (restoredT a cp).ghostHeap = a.ghostHeap + (a.u8.length - cp.u8s) := rfl
        have hI1 := restoredT_inv a cp hI hv
        have hca := hI.atomCap
        unfold atomCount at c1
        unfold heapSize at c3
        unfold pairCount at c2
        by_cases hs : s < cp.u8s
        · -- AfterOldBytes
          rw [if_pos hs]
          simp only []
          have hne : ((restoredT a cp).ghostAtoms == 0) = false := by rw [hga]; simp; omega
          rw [if_neg (by rw [hne]; simp)]
          have hecp := hv.noStraddle i s e hget hs
          have hrange : (decide (e < s) || decide (e > (restoredT a cp).u8.length)) = false := by
            rw [l1]; simp; omega
          rw [if_neg (by rw [hrange]; simp)]
          refine ⟨_, _, rfl, .replace _ _ ⟨_, _, rfl, rfl⟩ ?_⟩
          have hcl := (hI1.closed).push_atom (s := s) (e := e) hse (by rw [l1]; exact hecp)
          refine ⟨⟨hcl, ?_, hI1.pairCap, hI.limit⟩, ?_, ?_, ?_, ?_, ?_, ?_⟩
          · simp only [List.length_append, List.length_singleton]; rw [l2, hga]; omega
          · intro hH
            unfold HeapOk at *
            show (restoredT a cp).u8.length + (restoredT a cp).ghostHeap ≤ a.heapLimit
            omega
          · apply abs_eq_of_counts
            · simp only [atomCount, List.length_append, List.length_singleton]; rw [l2, hga]; omega
            · exact c2
            · exact c3
            · rfl
          · simp [Valid, PtrOk]
          · rw [treeOf_bytes, treeOf_bytes, atomBytes_of_getElem? hget]
            rw [atomBytes_of_getElem? (s := s) (e := e) (by simp [l2])]
            exact congrArg Tree.atom (drop_take_take _ _ _ _ hecp)
          · intro p hp
            have hvp := restoredT_valid a cp hv hp
            refine ⟨hvp.mono (by simp) (Nat.le_refl _), ?_⟩
            rw [← restoredT_treeOf a cp hv hp]
            apply treeOf_congr (restoredT a cp) _ (restoredT a cp).atoms.length (restoredT a cp).pairs.length
            · intro j hj
              unfold atomBytes
              simp only [List.getElem?_append_left hj]
            · intro j _; rfl
            · intro j l r _ hx; exact hI1.closed.pairs_ok j l r hx
            · exact hvp
          · intro c hc hle
            have hc1 := restoredT_tcpValid a cp c hv hc hle
            obtain ⟨e1, e2, e3⟩ := hle
            refine ⟨hc1.u8s, by simp; rw [l2]; omega, hc1.pairs, ?_, ?_⟩
            · show Closed c.u8s (((restoredT a cp).atoms ++ [(s, e)]).take c.atoms) _
              rw [List.take_append_of_le_length (by rw [l2]; omega)]
              exact hc1.closed
            · intro j s' e' hj hs'
              rcases getElem?_append_singleton _ _ _ _ hj with hj1 | ⟨_, hj2⟩
              · exact hc1.noStraddle j s' e' hj1 hs'
              · cases hj2; exact hc.noStraddle i s e hget hs'
        · -- AfterNewBytes
          rw [if_neg hs]
          simp only [node, hab, slice_eq hse heu]
          have hbuf : ((a.u8.drop s).take (e - s)).length = e - s := length_drop_take _ _ _ hse heu
          by_cases hbig : ((a.u8.drop s).take (e - s)).length > Gen.cloneAtomLimit
          · rw [if_pos hbig]; exact ⟨_, _, rfl, .aborted⟩
          · rw [if_neg hbig]
            have hne : ((restoredT a cp).ghostAtoms == 0) = false := by rw [hga]; simp; omega
            rw [if_neg (by rw [hne]; simp)]
            rw [if_neg (by rw [hgh, hbuf]; omega)]
            refine ⟨_, _, rfl, .replace _ _ ⟨_, _, rfl, rfl⟩ ?_⟩
            exact restoredWith_newBytes a cp i s e hI hv hget hse heu hi hs

end Clvm.Alloc
