/-
Lemmas for C22, part 5: `InternedTree::tree_hash` after `intern_tree`, unconditionally, by composition
with C24 (`ClvmModel/Intern.lean`, `Lemmas/Intern*.lean`).

C24 describes the interned tree by its tables (`atoms[k]`, `pairs[k] = (l, r)`, `root`).
`nodeOf` is the node of the *new allocator* behind an interned `NodePtr`, as `Allocator::node` shows
it to `ObjectCache`/`treehash`: `new_atom(bytes)` made it an inline atom (identified by its value)
when `fits_in_small_atom`, a heap atom (identified by its index) otherwise; `new_pair` made a pair
identified by its index.  Its identities are consistent by construction, it denotes what C24's
`treeOf` denotes, hence (C24 `intern_preserves`) the source tree.
-/
import ClvmModel.TreeHashIntern
import ClvmProofs.Lemmas.TreeHashCache
import ClvmProofs.Lemmas.InternFinal
import ClvmProofs.Lemmas.AllocOps

namespace Clvm.TreeHash
open Clvm.Hash Clvm.Intern

theorem nodeOf_atom (A : List Bytes) (P : List (INode × INode)) (k : Nat) :
    nodeOf A P (.atom k) = (A[k]?).map (newAtomNode k) := by
  rw [nodeOf]

theorem nodeOf_pair (A : List Bytes) (P : List (INode × INode)) (k : Nat) (l r : INode)
    (hk : P[k]? = some (l, r)) (hl : l.rank ≤ k) (hr : r.rank ≤ k) :
    nodeOf A P (.pair k) =
      match nodeOf A P l, nodeOf A P r with
      | some a, some b => some (.pair (pairId k) a b)
      | _, _ => none := by
  rw [nodeOf, hk]
  simp only
  rw [dif_pos (by omega)]
  try rfl

/-- what a successful `treeOf` / `nodeOf` on a pair tells about the table -/
theorem treeOf_pair_inv (A : List Bytes) (P : List (INode × INode)) (k : Nat) (t : Tree)
    (h : treeOf A P (.pair k) = some t) :
    ∃ l r a b, P[k]? = some (l, r) ∧ l.rank ≤ k ∧ r.rank ≤ k ∧ treeOf A P l = some a ∧
      treeOf A P r = some b ∧ t = .pair a b := by
  rw [treeOf] at h
  split at h
  · cases h
  · rename_i l r hk
    split at h
    · rename_i hlr
      split at h
      · rename_i a b ha hb
        cases h
        exact ⟨l, r, a, b, hk, by omega, by omega, ha, hb, rfl⟩
      · cases h
    · cases h

theorem nodeOf_pair_inv (A : List Bytes) (P : List (INode × INode)) (k : Nat) (s : NTree)
    (h : nodeOf A P (.pair k) = some s) :
    ∃ l r a b, P[k]? = some (l, r) ∧ l.rank ≤ k ∧ r.rank ≤ k ∧ nodeOf A P l = some a ∧
      nodeOf A P r = some b ∧ s = .pair (pairId k) a b := by
  rw [nodeOf] at h
  split at h
  · cases h
  · rename_i l r hk
    split at h
    · rename_i hlr
      split at h
      · rename_i a b ha hb
        cases h
        exact ⟨l, r, a, b, hk, by omega, by omega, ha, hb, rfl⟩
      · cases h
    · cases h

theorem newAtomNode_erase (k : Nat) (b : Bytes) : (newAtomNode k b).erase = .atom b := by
  unfold newAtomNode
  split
  · rename_i v hv
    simp [NTree.erase, (Alloc.small_valid_of_fits hv).2]
  · rfl

theorem newAtomNode_valid (k : Nat) (b : Bytes) : (newAtomNode k b).Valid := by
  unfold newAtomNode
  split
  · rename_i v hv
    have := (Alloc.small_valid_of_fits hv).1
    rw [Alloc.idxMask_eq] at this
    show v < 2 ^ 31
    omega
  · trivial

/-- `nodeOf` succeeds wherever `treeOf` does, denotes the same tree, and is valid -/
theorem nodeOf_of_treeOf (A : List Bytes) (P : List (INode × INode)) :
    ∀ (m : Nat) (n : INode), n.rank ≤ m → ∀ t, treeOf A P n = some t →
      ∃ s, nodeOf A P n = some s ∧ s.erase = t ∧ s.Valid := by
  intro m
  induction m with
  | zero =>
    intro n hn t ht
    cases n with
    | pair k => simp [INode.rank] at hn
    | atom k =>
      rw [treeOf_atom] at ht
      cases hb : A[k]? with
      | none => simp [hb] at ht
      | some b =>
        simp [hb] at ht
        subst ht
        exact ⟨newAtomNode k b, by simp [nodeOf_atom, hb], newAtomNode_erase k b, newAtomNode_valid k b⟩
  | succ m ih =>
    intro n hn t ht
    cases n with
    | atom k =>
      rw [treeOf_atom] at ht
      cases hb : A[k]? with
      | none => simp [hb] at ht
      | some b =>
        simp [hb] at ht
        subst ht
        exact ⟨newAtomNode k b, by simp [nodeOf_atom, hb], newAtomNode_erase k b, newAtomNode_valid k b⟩
    | pair k =>
      simp only [INode.rank] at hn
      obtain ⟨l, r, a, b, hk, hl, hr, ha, hb, rfl⟩ := treeOf_pair_inv A P k t ht
      obtain ⟨sa, e1, e2, e3⟩ := ih l (by omega) a ha
      obtain ⟨sb, f1, f2, f3⟩ := ih r (by omega) b hb
      refine ⟨.pair (pairId k) sa sb, ?_, by simp [NTree.erase, e2, f2], ⟨e3, f3⟩⟩
      rw [nodeOf_pair A P k l r hk hl hr, e1, f1]

/-- every sub-tree of a node of the new allocator is a node of the new allocator -/
theorem nodeOf_subtrees (A : List Bytes) (P : List (INode × INode)) :
    ∀ (m : Nat) (n : INode), n.rank ≤ m → ∀ s, nodeOf A P n = some s →
      ∀ s' ∈ s.subtrees, ∃ n', nodeOf A P n' = some s' := by
  intro m
  induction m with
  | zero =>
    intro n hn s hs s' hs'
    cases n with
    | pair k => simp [INode.rank] at hn
    | atom k =>
      rw [nodeOf_atom] at hs
      cases hb : A[k]? with
      | none => simp [hb] at hs
      | some b =>
        simp [hb] at hs
        subst hs
        have : s' = newAtomNode k b := by
          unfold newAtomNode at hs' ⊢
          split at hs' <;> simpa [NTree.subtrees] using hs'
        exact ⟨.atom k, by simp [nodeOf_atom, hb, this]⟩
  | succ m ih =>
    intro n hn s hs s' hs'
    cases n with
    | atom k =>
      rw [nodeOf_atom] at hs
      cases hb : A[k]? with
      | none => simp [hb] at hs
      | some b =>
        simp [hb] at hs
        subst hs
        have : s' = newAtomNode k b := by
          unfold newAtomNode at hs' ⊢
          split at hs' <;> simpa [NTree.subtrees] using hs'
        exact ⟨.atom k, by simp [nodeOf_atom, hb, this]⟩
    | pair k =>
      simp only [INode.rank] at hn
      obtain ⟨l, r, a, b, hk, hl, hr, ha, hb, rfl⟩ := nodeOf_pair_inv A P k s hs
      simp only [NTree.subtrees, List.mem_cons, List.mem_append] at hs'
      rcases hs' with rfl | h | h
      · exact ⟨.pair k, hs⟩
      · exact ih l (by omega) a ha s' h
      · exact ih r (by omega) b hb s' h

/-- equal identities in the new allocator denote equal values -/
theorem nodeOf_id_inj (A : List Bytes) (P : List (INode × INode)) (n1 n2 : INode) (s1 s2 : NTree)
    (h1 : nodeOf A P n1 = some s1) (h2 : nodeOf A P n2 = some s2) (hid : s1.id = s2.id) :
    s1.erase = s2.erase := by
  have atomShape : ∀ k s, nodeOf A P (.atom k) = some s →
      ∃ b, A[k]? = some b ∧ ((∃ v, s = .u32 (smallId v) v) ∨ s = .buffer (bytesId k) b) := by
    intro k s h
    rw [nodeOf_atom] at h
    cases hb : A[k]? with
    | none => simp [hb] at h
    | some b =>
      simp [hb] at h
      subst h
      refine ⟨b, rfl, ?_⟩
      unfold newAtomNode
      split
      · rename_i v _; exact Or.inl ⟨v, rfl⟩
      · exact Or.inr rfl
  cases n1 with
  | atom k1 =>
    obtain ⟨b1, hb1, hs1⟩ := atomShape k1 s1 h1
    cases n2 with
    | atom k2 =>
      obtain ⟨b2, hb2, hs2⟩ := atomShape k2 s2 h2
      rcases hs1 with ⟨v1, rfl⟩ | rfl <;> rcases hs2 with ⟨v2, rfl⟩ | rfl
      · simp only [NTree.id, smallId] at hid
        have : v1 = v2 := by omega
        subst this; rfl
      · simp only [NTree.id, smallId, bytesId] at hid; omega
      · simp only [NTree.id, smallId, bytesId] at hid; omega
      · simp only [NTree.id, bytesId] at hid
        have : k1 = k2 := by omega
        subst this
        rw [hb1] at hb2; cases hb2; rfl
    | pair k2 =>
      obtain ⟨_, _, a, b, _, _, _, _, _, rfl⟩ := nodeOf_pair_inv A P k2 s2 h2
      rcases hs1 with ⟨v1, rfl⟩ | rfl
      · simp only [NTree.id, smallId, pairId] at hid; omega
      · simp only [NTree.id, bytesId, pairId] at hid; omega
  | pair k1 =>
    obtain ⟨_, _, a1, c1, _, _, _, _, _, e1⟩ := nodeOf_pair_inv A P k1 s1 h1
    cases n2 with
    | atom k2 =>
      obtain ⟨b2, hb2, hs2⟩ := atomShape k2 s2 h2
      subst e1
      rcases hs2 with ⟨v2, rfl⟩ | rfl
      · simp only [NTree.id, smallId, pairId] at hid; omega
      · simp only [NTree.id, bytesId, pairId] at hid; omega
    | pair k2 =>
      obtain ⟨_, _, a2, c2, _, _, _, _, _, e2⟩ := nodeOf_pair_inv A P k2 s2 h2
      have : k1 = k2 := by
        subst e1; subst e2
        simp only [NTree.id, pairId] at hid; omega
      subst this
      rw [h1] at h2; cases h2; rfl

theorem nodeOf_consistent (A : List Bytes) (P : List (INode × INode)) (n : INode) (s : NTree)
    (h : nodeOf A P n = some s) : Consistent s := by
  intro s1 hs1 s2 hs2 hid
  obtain ⟨n1, e1⟩ := nodeOf_subtrees A P n.rank n (Nat.le_refl _) s h s1 hs1
  obtain ⟨n2, e2⟩ := nodeOf_subtrees A P n.rank n (Nat.le_refl _) s h s2 hs2
  exact nodeOf_id_inj A P n1 n2 s1 s2 e1 e2 hid

/-- for every well-formed source DAG: if interning succeeds, the root of the interned tree is a node
of the new allocator that denotes the source tree, with consistent identities and valid inline atoms -/
theorem interned_root_node {d : Dag} (wf : d.WF) {root : Nat} (hroot : root < d.size) {it : InternedTree}
    (h : Intern.internTree d root = .ok it) :
    ∃ n, nodeOf it.atoms it.pairs it.root = some n ∧ n.erase = denote d root ∧ n.Valid ∧ Consistent n := by
  obtain ⟨s, inv, _, ha, hp, hr⟩ := internTree_ok wf hroot h
  have ht : treeOf it.atoms it.pairs it.root = some (denote d root) := by
    rw [ha, hp]; exact (inv.memo root it.root hr).2.2.1
  obtain ⟨n, e1, e2, e3⟩ := nodeOf_of_treeOf it.atoms it.pairs it.root.rank it.root (Nat.le_refl _) _ ht
  exact ⟨n, e1, e2, e3, nodeOf_consistent _ _ _ _ e1⟩

end Clvm.TreeHash
