/-
C01, layer 2: whole runs.  The statement of the property at machine level (`Statement`), the
comparison of run outcomes, and the concrete programs on which the crate and the reference part
(finding `C01-lenient-lists`).
-/
import ClvmProofs.Lemmas.RefOps
import ClvmModel.Proto.Ref
import ClvmProofs.Lemmas.RefPath
import ClvmProofs.Lemmas.Interp.MachineBase

namespace Clvm.Ref
open Clvm Clvm.Interp Clvm.Alloc

/-- the implementation model under default flags, default build, default allocator:
`run_program(a, &ChiaDialect::new(ClvmFlags::empty()), prog, env, budget)` on trees built with
`new_atom` -/
def modelRun (fuel : Nat) (prog env : Tree) (budget : Nat) : Option (Except Err (Nat × Val × Ctr)) :=
  Interp.runProgram {} (chiaDialect {} Proto.noExtra 0) fuel (Ctr.new (2 ^ 32 - 1))
    (Val.ofTree prog) (Val.ofTree env) budget

/-- the reference with all consensus adapters (`lenient = false`: operand lists as the Python
reads them) at the same `u64` budget -/
def adaptedRun (lenient : Bool) (fuel : Nat) (prog env : Tree) (budget : Nat) : Option Res :=
  Ref.runWith (Proto.c01Adapters lenient) fuel prog env (Adapter.u64Budget budget)

/-- same outcome: both succeed with the same cost and the same tree, or both fail -/
def SameOutcome (mo : Except Err (Nat × Val × Ctr)) (ro : Res) : Prop :=
  match mo, ro with
  | .ok (c, v, _), .ok (c', t) => c = c' ∧ v.erase = t
  | .error _, .error _ => True
  | _, _ => False

/-- **C01 at machine level** for a given reading of operand lists: whenever both machines
terminate (enough fuel), the reference stays inside the classic operator set and the model does
not hit an allocator limit, the outcomes are the same. -/
def StatementFor (lenient : Bool) : Prop :=
  ∀ (prog env : Tree) (budget fuel fuel' : Nat) (mo : Except Err (Nat × Val × Ctr)) (ro : Res),
    modelRun fuel prog env budget = some mo →
    adaptedRun lenient fuel' prog env budget = some ro →
    ro ≠ .error .outOfDomain →
    (∀ e, mo = .error e → isLimit e = false) →
    SameOutcome mo ro

/-- the property as stated: the adapted reference reads operand lists like the Python -/
def Statement : Prop := StatementFor false

/-- `((16 . 5))`: `((+ . 5))` — the inner list of the `((X) …)` form does not end in nil -/
def witness1 : Tree := .pair (.pair (.atom [16]) (.atom [5])) (.atom [])
/-- `((16) 1 2 . 3)`: the unevaluated operand list ends in the atom 3 -/
def witness2 : Tree :=
  .pair (.pair (.atom [16]) (.atom [])) (.pair (.atom [1]) (.pair (.atom [2]) (.atom [3])))

theorem witness1_python : Ref.run 100 witness1 (.atom []) none = some (.error .arg) := by rfl
theorem witness1_adapted : adaptedRun false 100 witness1 (.atom []) 0 = some (.error .arg) := by rfl
theorem witness1_model :
    (modelRun 100 witness1 (.atom []) 0).map (fun r => r.map (fun x => (x.1, x.2.1.erase))) =
      some (.ok (189, .atom [])) := by rfl
theorem witness2_python : Ref.run 100 witness2 (.atom []) none = some (.error .arg) := by rfl
theorem witness2_adapted : adaptedRun false 100 witness2 (.atom []) 0 = some (.error .arg) := by rfl
theorem witness2_model :
    (modelRun 100 witness2 (.atom []) 0).map (fun r => r.map (fun x => (x.1, x.2.1.erase))) =
      some (.ok (845, .atom [3])) := by rfl

theorem not_statement : ¬ Statement := by
  intro h
  cases hm : modelRun 100 witness1 (.atom []) 0 with
  | none => have := witness1_model; rw [hm] at this; cases this
  | some mo =>
    have hs := h witness1 (.atom []) 0 100 100 mo (.error .arg) hm witness1_adapted (by intro hc; cases hc)
    have hw := witness1_model
    rw [hm] at hw
    cases mo with
    | error e => simp [Option.map, Except.map] at hw
    | ok r =>
      obtain ⟨c, v, ctr⟩ := r
      exact hs (by intro e he; cases he)

/-! ### `Adapter.floorDiv`: where it changes the reference -/

/-- the adapter changes `op_div` exactly on operand pairs whose floor quotient is `-1` with a
non-zero remainder (e.g. `-1 / 10`, `1 / -10`); everywhere else the reference's `op_div` already
is floor division -/
theorem floorDiv_region (args : Tree) :
    Adapter.floorDiv args = Ref.opDiv args ∨
    ∃ i0 l0 i1 l1, argsAsIntList args 2 = .ok [(i0, l0), (i1, l1)] ∧ i1 ≠ 0 ∧
      Int.fdiv i0 i1 = -1 ∧ Int.fmod i0 i1 ≠ 0 := by
  unfold Adapter.floorDiv Ref.opDiv
  cases h : argsAsIntList args 2 with
  | error e => left; rfl
  | ok l =>
    match l with
    | [] => left; rfl
    | [_] => left; rfl
    | _ :: _ :: _ :: _ => left; rfl
    | [(i0, l0), (i1, l1)] =>
      by_cases hz : i1 = 0
      · left; simp [hz]
      · by_cases hq : Int.fdiv i0 i1 = -1 ∧ Int.fmod i0 i1 ≠ 0
        · right; exact ⟨i0, l0, i1, l1, rfl, hz, hq.1, hq.2⟩
        · left
          simp only [hz, if_false]
          have hq' : ¬ ((pyDivmod i0 i1).1 = -1 ∧ (pyDivmod i0 i1).2 ≠ 0) := hq
          simp only [hq', if_false]

/-! ### runs that consist of a single `eval` step: paths and quotations -/

/-- the budget both machines work with -/
def effBudget (budget : Nat) : Nat := if budget == 0 then U64_MAX else budget

theorem effBudget_pos (budget : Nat) : effBudget budget ≠ 0 := by
  unfold effBudget U64_MAX; split <;> simp_all

theorem ghost_ok : ∃ c, (Ctr.new (2 ^ 32 - 1)).addGhostAtom 1 = .ok c := by
  refine ⟨{ Ctr.new (2 ^ 32 - 1) with atoms := (Ctr.new (2 ^ 32 - 1)).atoms + 1 }, ?_⟩
  unfold Ctr.addGhostAtom
  rw [if_neg (by decide)]

theorem model_quote (x env : Tree) (budget fuel : Nat) :
    ∃ ctr, modelRun (fuel + 1) (.pair (.atom [1]) x) env budget =
      some (if Gen.QUOTE_COST > effBudget budget then .error .CostExceeded
            else .ok (Gen.QUOTE_COST, Val.ofTree x, ctr)) := by
  obtain ⟨c, hc⟩ := ghost_ok
  refine ⟨c, ?_⟩
  unfold modelRun runProgram
  rw [hc]
  have hq : smallNumber (Val.mkAtom [1]) = some (chiaDialect {} Proto.noExtra 0).quoteKw := by decide
  have hm1 : Val.mkAtom [1] = .atom [1] true := by decide
  simp only [Val.ofTree, evalPair, evalOpAtom, hq, beq_self_eq_true, if_true, MState.push]
  simp only [hm1]
  have h0 : ((0 : Nat) == Gen.STACK_SIZE_LIMIT) = false := by decide
  simp only [h0, Bool.false_eq_true, if_false, bind, Except.bind, pure, Except.pure]
  rw [runLoop_succ]
  unfold loopBody
  simp only [effMax, effBudget]
  by_cases hgt : Gen.QUOTE_COST > (if (budget == 0) = true then U64_MAX else budget)
  · simp only [hgt, ↓reduceIte]
  · simp only [hgt, ↓reduceIte, MState.pop]

theorem runWith_budget (ad : Adapters) (fuel : Nat) (p e : Tree) (budget : Nat) :
    Ref.runWith ad fuel p e (Adapter.u64Budget budget) =
      Ref.runLoop ad (some (effBudget budget)) fuel { opStack := [.eval], valueStack := [.pair p e], depth := 1 } 0 := by
  unfold Ref.runWith Adapter.u64Budget effBudget U64_MAX
  by_cases hb : budget = 0
  · subst hb; rfl
  · have : (budget == 0) = false := by simp [hb]
    simp only [this, Bool.false_eq_true, if_false]
    cases budget with
    | zero => exact absurd rfl hb
    | succ n => rfl

theorem c01_stackLimit (l : Bool) : (Proto.c01Adapters l).stackLimit = some Gen.STACK_SIZE_LIMIT := rfl

theorem ref_quote (lenient : Bool) (x env : Tree) (budget fuel : Nat) :
    adaptedRun lenient (fuel + 2) (.pair (.atom [1]) x) env budget =
      some (if QUOTE_COST > effBudget budget then .error .cost else .ok (QUOTE_COST, x)) := by
  unfold adaptedRun
  rw [runWith_budget]
  simp only [Ref.runLoop, evalOp, St.push, c01_stackLimit, effectiveMax]
  have h0 : ¬ (0 ≥ Gen.STACK_SIZE_LIMIT) := by decide
  simp only [List.map, show ((1 : UInt8).toNat) = 1 from rfl, beq_self_eq_true, if_true, h0, if_false, Nat.zero_add]
  by_cases hgt : QUOTE_COST > effBudget budget
  · simp only [hgt, ↓reduceIte]
  · simp only [hgt, ↓reduceIte]

theorem evalPair_atom (b : Bytes) (s : MState) (env : Val) :
    evalPair {} (chiaDialect {} Proto.noExtra 0) s (Val.mkAtom b) env =
      (do let r ← liftE (Interp.traversePath b env)
          let s ← s.push r.2
          pure (r.1, s)) := by
  have hw := mkAtom_wf b
  unfold Val.mkAtom at hw ⊢
  cases ht : Val.newAtomTag b with
  | false => simp only [evalPair, node, if_true]
  | true =>
    rw [ht] at hw
    simp only [evalPair, node, if_true]
    rw [traverse_fast_wf b hw env]

theorem model_path (b : Bytes) (env : Tree) (budget fuel : Nat) :
    ∃ ctr, modelRun (fuel + 1) (.atom b) env budget =
      some (match Interp.traversePath b (Val.ofTree env) with
            | .error e => .error e
            | .ok (c, v) => if c > effBudget budget then .error .CostExceeded else .ok (c, v, ctr)) := by
  obtain ⟨c, hc⟩ := ghost_ok
  refine ⟨c, ?_⟩
  unfold modelRun runProgram
  rw [hc]
  simp only [Val.ofTree, evalPair_atom]
  cases htp : Interp.traversePath b (Val.ofTree env) with
  | error e => simp only [liftE, bind, Except.bind]
  | ok r =>
    obtain ⟨k, v⟩ := r
    have h0 : ((0 : Nat) == Gen.STACK_SIZE_LIMIT) = false := by decide
    simp only [liftE, bind, Except.bind, MState.push, h0, Bool.false_eq_true, if_false, pure, Except.pure]
    rw [runLoop_succ]
    unfold loopBody
    simp only [effMax, effBudget]
    by_cases hgt : k > (if (budget == 0) = true then U64_MAX else budget)
    · simp only [hgt, ↓reduceIte]
    · simp only [hgt, ↓reduceIte, MState.pop]

theorem ref_path (lenient : Bool) (b : Bytes) (env : Tree) (budget fuel : Nat) :
    adaptedRun lenient (fuel + 2) (.atom b) env budget =
      some (match Ref.traversePath b env with
            | .error e => .error e
            | .ok (c, t) => if c > effBudget budget then .error .cost else .ok (c, t)) := by
  unfold adaptedRun
  rw [runWith_budget]
  simp only [Ref.runLoop, evalOp]
  cases htp : Ref.traversePath b env with
  | error e => rfl
  | ok r =>
    obtain ⟨k, t⟩ := r
    have h0 : ¬ (0 ≥ Gen.STACK_SIZE_LIMIT) := by decide
    simp only [St.push, c01_stackLimit, effectiveMax, h0, if_false, Nat.zero_add]
    by_cases hgt : k > effBudget budget
    · simp only [hgt, ↓reduceIte]
    · simp only [hgt, ↓reduceIte]

/-- programs evaluated by a single `eval` step: an environment path (any atom) or a quotation -/
def OneStep : Tree → Prop
  | .atom _ => True
  | .pair op _ => op = .atom [1]

theorem one_step_agree (lenient : Bool) (prog env : Tree) (h1 : OneStep prog) (budget fuel fuel' : Nat)
    (mo : Except Err (Nat × Val × Ctr)) (ro : Res)
    (hm : modelRun (fuel + 1) prog env budget = some mo)
    (hr : adaptedRun lenient (fuel' + 2) prog env budget = some ro) : SameOutcome mo ro := by
  cases prog with
  | atom b =>
    obtain ⟨ctr, hmp⟩ := model_path b env budget fuel
    rw [hmp] at hm
    rw [ref_path] at hr
    simp only [Option.some.injEq] at hm hr
    subst hm; subst hr
    have hpa := path_agree b (Val.ofTree env)
    rw [ofTree_erase] at hpa
    cases h1m : Interp.traversePath b (Val.ofTree env) with
    | error e =>
      cases h1r : Ref.traversePath b env with
      | error e' => trivial
      | ok r => rw [h1m, h1r] at hpa; exact hpa.elim
    | ok r =>
      obtain ⟨k, v⟩ := r
      cases h1r : Ref.traversePath b env with
      | error e' => rw [h1m, h1r] at hpa; exact hpa.elim
      | ok r' =>
        obtain ⟨k', t⟩ := r'
        rw [h1m, h1r] at hpa
        obtain ⟨rfl, hv⟩ := hpa
        simp only
        by_cases hgt : k > effBudget budget
        · simp only [hgt, ↓reduceIte]; trivial
        · simp only [hgt, ↓reduceIte]; exact ⟨rfl, hv⟩
  | pair op x =>
    simp only [OneStep] at h1
    subst h1
    obtain ⟨ctr, hmq⟩ := model_quote x env budget fuel
    rw [hmq] at hm
    rw [ref_quote] at hr
    simp only [Option.some.injEq] at hm hr
    subst hm; subst hr
    have hq : Gen.QUOTE_COST = QUOTE_COST := rfl
    rw [hq]
    by_cases hgt : QUOTE_COST > effBudget budget
    · simp only [hgt, ↓reduceIte]; trivial
    · simp only [hgt, ↓reduceIte]; exact ⟨rfl, ofTree_erase x⟩


end Clvm.Ref
