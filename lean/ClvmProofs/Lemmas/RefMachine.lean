/-
C01, layer 2: whole runs.  The statement of the property at machine level (`Statement`), the
comparison of run outcomes, and the concrete programs on which the crate and the reference part
(finding `C01-lenient-lists`).
-/
import ClvmProofs.Lemmas.RefOps
import ClvmModel.Proto.Ref

namespace Clvm.Ref
open Clvm Clvm.Interp Clvm.Alloc

/-- the implementation model under default flags, default build, default allocator:
`run_program(a, &ChiaDialect::new(ClvmFlags::empty()), prog, env, budget)` on trees built with
`new_atom` -/
def modelRun (fuel : Nat) (prog env : Tree) (budget : Nat) : Option (Except Err (Nat × Val × Ctr)) :=
  Interp.runProgram {} (chiaDialect {} Proto.noExtra 0) fuel (Ctr.new (2 ^ 32 - 1))
    (Val.ofTree prog) (Val.ofTree env) budget

/-- the reference with all consensus adapters (`lenient = false`: operand lists as the Python
reads them) at the same `u64` budget -/
def adaptedRun (lenient : Bool) (fuel : Nat) (prog env : Tree) (budget : Nat) : Option Res :=
  Ref.runWith (Proto.c01Adapters lenient) fuel prog env (Adapter.u64Budget budget)

/-- same outcome: both succeed with the same cost and the same tree, or both fail -/
def SameOutcome (mo : Except Err (Nat × Val × Ctr)) (ro : Res) : Prop :=
  match mo, ro with
  | .ok (c, v, _), .ok (c', t) => c = c' ∧ v.erase = t
  | .error _, .error _ => True
  | _, _ => False

/-- **C01 at machine level** for a given reading of operand lists: whenever both machines
terminate (enough fuel), the reference stays inside the classic operator set and the model does
not hit an allocator limit, the outcomes are the same. -/
def StatementFor (lenient : Bool) : Prop :=
  ∀ (prog env : Tree) (budget fuel fuel' : Nat) (mo : Except Err (Nat × Val × Ctr)) (ro : Res),
    modelRun fuel prog env budget = some mo →
    adaptedRun lenient fuel' prog env budget = some ro →
    ro ≠ .error .outOfDomain →
    (∀ e, mo = .error e → isLimit e = false) →
    SameOutcome mo ro

/-- the property as stated: the adapted reference reads operand lists like the Python -/
def Statement : Prop := StatementFor false

/-- `((16 . 5))`: `((+ . 5))` — the inner list of the `((X) …)` form does not end in nil -/
def witness1 : Tree := .pair (.pair (.atom [16]) (.atom [5])) (.atom [])
/-- `((16) 1 2 . 3)`: the unevaluated operand list ends in the atom 3 -/
def witness2 : Tree :=
  .pair (.pair (.atom [16]) (.atom [])) (.pair (.atom [1]) (.pair (.atom [2]) (.atom [3])))

theorem witness1_python : Ref.run 100 witness1 (.atom []) none = some (.error .arg) := by rfl
theorem witness1_adapted : adaptedRun false 100 witness1 (.atom []) 0 = some (.error .arg) := by rfl
theorem witness1_model :
    (modelRun 100 witness1 (.atom []) 0).map (fun r => r.map (fun x => (x.1, x.2.1.erase))) =
      some (.ok (189, .atom [])) := by rfl
theorem witness2_python : Ref.run 100 witness2 (.atom []) none = some (.error .arg) := by rfl
theorem witness2_adapted : adaptedRun false 100 witness2 (.atom []) 0 = some (.error .arg) := by rfl
theorem witness2_model :
    (modelRun 100 witness2 (.atom []) 0).map (fun r => r.map (fun x => (x.1, x.2.1.erase))) =
      some (.ok (845, .atom [3])) := by rfl

theorem not_statement : ¬ Statement := by
  intro h
  cases hm : modelRun 100 witness1 (.atom []) 0 with
  | none => have := witness1_model; rw [hm] at this; cases this
  | some mo =>
    have hs := h witness1 (.atom []) 0 100 100 mo (.error .arg) hm witness1_adapted (by intro hc; cases hc)
    have hw := witness1_model
    rw [hm] at hw
    cases mo with
    | error e => simp [Option.map, Except.map] at hw
    | ok r =>
      obtain ⟨c, v, ctr⟩ := r
      exact hs (by intro e he; cases he)

/-! ### `Adapter.floorDiv`: where it changes the reference -/

/-- the adapter changes `op_div` exactly on operand pairs whose floor quotient is `-1` with a
non-zero remainder (e.g. `-1 / 10`, `1 / -10`); everywhere else the reference's `op_div` already
is floor division -/
theorem floorDiv_region (args : Tree) :
    Adapter.floorDiv args = Ref.opDiv args ∨
    ∃ i0 l0 i1 l1, argsAsIntList args 2 = .ok [(i0, l0), (i1, l1)] ∧ i1 ≠ 0 ∧
      Int.fdiv i0 i1 = -1 ∧ Int.fmod i0 i1 ≠ 0 := by
  unfold Adapter.floorDiv Ref.opDiv
  cases h : argsAsIntList args 2 with
  | error e => left; rfl
  | ok l =>
    match l with
    | [] => left; rfl
    | [_] => left; rfl
    | _ :: _ :: _ :: _ => left; rfl
    | [(i0, l0), (i1, l1)] =>
      by_cases hz : i1 = 0
      · left; simp [hz]
      · by_cases hq : Int.fdiv i0 i1 = -1 ∧ Int.fmod i0 i1 ≠ 0
        · right; exact ⟨i0, l0, i1, l1, rfl, hz, hq.1, hq.2⟩
        · left
          simp only [hz, if_false]
          have hq' : ¬ ((pyDivmod i0 i1).1 = -1 ∧ (pyDivmod i0 i1).2 ≠ 0) := hq
          simp only [hq', if_false]

end Clvm.Ref
