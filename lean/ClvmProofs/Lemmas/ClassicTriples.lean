/-
`parse_triples` (de_tree.rs; model `Clvm.TreeHash.triplesLoop`): the offsets stored in the triples
describe the decoded tree.  Strengthens the lock-step lemma `triples_node` of
`Lemmas/TreeHashTriples.lean` (C22), whose single-step lemmas are reused.
-/
import ClvmProofs.Lemmas.ClassicTotal
import ClvmProofs.Lemmas.TreeHashTriples
set_option linter.unusedSimpArgs false
namespace Clvm.TreeHash
open Clvm.Hash Clvm.Serde.Classic

/-- the triples `ts` (stored from index `base` of the triple list) describe the tree `t` laid out
in `buf[s, e)`: an atom's bytes are `buf[s + atom_offset, e)`; a pair starts with `0xff`, its first
child is the next triple and starts at `s + 1`, its second child is the triple `right_index` and
starts where the first ends, and ends at `e` -/
def Describes (buf : Bytes) : Nat → List Triple → Tree → Nat → Nat → Prop
  | _, ts, .atom a, s, e =>
    ∃ off, ts = [.atom s e off] ∧ s + off ≤ e ∧ e ≤ buf.length ∧ (buf.drop (s + off)).take (e - (s + off)) = a
  | base, ts, .pair l r, s, e =>
    ∃ tl tr m, ts = .pair s e (base + 1 + tl.length) :: (tl ++ tr) ∧ buf[s]? = some 0xff ∧
      Describes buf (base + 1) tl l (s + 1) m ∧ Describes buf (base + 1 + tl.length) tr r m e

theorem drop_pre {pre inp : Bytes} (k : Nat) : (pre ++ inp).drop (pre.length + k) = inp.drop k := by
  rw [← List.drop_drop, List.drop_left]

/-- an atom: one triple describing it, one hash, the cursor advances by what was read -/
theorem triples_atom_desc (buf pre : Bytes) (b : UInt8) (rest : Bytes) (ops : List ParseOpRef) (st : TriplesSt)
    (hbuf : buf = pre ++ b :: rest) (hcur : st.cursor = pre.length)
    (hb : ¬ (b.toNat == 0xff) = true) (n : Nat) (t : Tree) (hp : parseAtom rest b = .ok (n, t)) :
    ∃ tr, Describes buf st.r.length [tr] t st.cursor (st.cursor + 1 + n) ∧ n ≤ rest.length ∧
      triplesLoop true (b :: rest) (.parseObj :: ops) st
      = triplesLoop true (rest.drop n) ops
          { r := st.r ++ [tr], treeHashes := st.treeHashes ++ [treeHash t], cursor := st.cursor + 1 + n } := by
  have hlenb : buf.length = pre.length + 1 + rest.length := by rw [hbuf]; simp; omega
  rw [triplesLoop]
  simp only [hb, Bool.false_eq_true, ↓reduceIte]
  unfold parseAtom at hp
  by_cases h7f : b.toNat ≤ 0x7f
  · have h80 : ¬ (b.toNat == 0x80) = true := by simp; omega
    have hnt : n = 0 ∧ t = .atom [b] := by
      by_cases h1 : (b.toNat == 0x01) = true
      · have hb1 : b = 1 := uint8_eq_of_toNat (n := 1) (by decide) h1
        subst hb1
        simp at hp
        exact ⟨hp.1.symm, hp.2.symm⟩
      · simp [h1, h80, parseAtomPtr, MAX_SINGLE_BYTE, h7f] at hp
        exact ⟨hp.1.symm, hp.2.symm⟩
    obtain ⟨rfl, rfl⟩ := hnt
    refine ⟨.atom st.cursor (st.cursor + 1) 0, ?_, by omega, ?_⟩
    · refine ⟨0, rfl, by omega, by omega, ?_⟩
      rw [hcur, hbuf]
      have := drop_pre (pre := pre) (inp := b :: rest) 0
      simp at this ⊢
    · simp [h7f, treeHashForByte, shaBlobs, treeHash]
  · have h1 : ¬ (b.toNat == 0x01) = true := by simp; omega
    simp only [h7f, if_false]
    by_cases h80 : (b.toNat == 0x80) = true
    · have hb80 : b.toNat = 0x80 := by simpa using h80
      simp [h1, h80] at hp
      obtain ⟨rfl, rfl⟩ := hp
      refine ⟨.atom st.cursor (st.cursor + 1 + 0) 1, ?_, by omega, ?_⟩
      · refine ⟨1, rfl, by omega, by omega, ?_⟩
        simp
      · rw [hb80, decode80]
        simp [skipOrShaBytes, treeHash]
    · simp only [h1, h80, if_false, parseAtomPtr, MAX_SINGLE_BYTE, h7f, decodeSize] at hp
      cases hd : decodeSizeWithOffset rest b.toNat with
      | error e => simp [hd] at hp
      | ok p =>
        obtain ⟨off, size⟩ := p
        obtain ⟨hk1, hk6, _, _, hklen, _⟩ := decode_inv _ _ _ _ hd
        simp only [hd] at hp
        simp only [List.length_drop] at hp
        by_cases hl : rest.length - (off - 1) < size
        · simp [hl] at hp
        · simp only [hl, if_false] at hp
          simp at hp
          obtain ⟨rfl, rfl⟩ := hp
          refine ⟨.atom st.cursor (st.cursor + off + size) off, ?_, by omega, ?_⟩
          · have he : st.cursor + 1 + (off - 1 + size) = st.cursor + off + size := by omega
            rw [he]
            refine ⟨off, rfl, by omega, by omega, ?_⟩
            rw [hcur, hbuf, drop_pre]
            have : off = (off - 1) + 1 := by omega
            rw [this, List.drop_succ_cons]
            congr 1
            omega
          · have he : st.cursor + 1 + (off - 1 + size) = st.cursor + off + size := by omega
            rw [he]
            simp [skipOrShaBytes, hl, treeHash, List.drop_drop, Nat.add_comm]


theorem parseTree_suffix : ∀ (f : Nat) (inp : Bytes) (t : Tree) (rest : Bytes),
    parseTree f inp = .ok (t, rest) → ∃ mid, inp = mid ++ rest := by
  intro f
  induction f with
  | zero => intro inp t rest h; simp [parseTree] at h
  | succ f ih =>
    intro inp t rest h
    cases inp with
    | nil => simp [parseTree] at h
    | cons b tl =>
      rw [parseTree] at h
      split at h
      · split at h
        · cases h
        · rename_i l r1 h1
          split at h
          · cases h
          · rename_i r r2 h2
            cases h
            obtain ⟨m1, e1⟩ := ih _ _ _ h1
            obtain ⟨m2, e2⟩ := ih _ _ _ h2
            exact ⟨b :: (m1 ++ m2), by rw [e1, e2]; simp⟩
      · split at h
        · cases h
        · cases h
          rename_i n' _
          exact ⟨b :: tl.take n', by simp⟩

/-- one object: the triples appended describe the decoded tree -/
theorem triples_node_desc (buf : Bytes) : ∀ (f : Nat) (inp : Bytes) (t : Tree) (rest : Bytes),
    inp.length < f → parseTree f inp = .ok (t, rest) →
    ∀ (ops : List ParseOpRef) (st : TriplesSt) (pre : Bytes), buf = pre ++ inp → st.cursor = pre.length →
      st.treeHashes.length = st.r.length →
      ∃ ts, ts.length = nodes t ∧
        Describes buf st.r.length ts t st.cursor (st.cursor + (inp.length - rest.length)) ∧
        triplesLoop true inp (.parseObj :: ops) st
          = triplesLoop true rest ops
              { r := st.r ++ ts, treeHashes := st.treeHashes ++ hashList t,
                cursor := st.cursor + (inp.length - rest.length) } := by
  intro f
  induction f with
  | zero => intro inp t rest h; omega
  | succ f ih =>
    intro inp t rest hlen hp ops st pre hbuf hcur hst
    cases inp with
    | nil => simp [parseTree] at hp
    | cons b tl =>
      simp only [List.length_cons] at hlen
      rw [parseTree] at hp
      by_cases hb : (b.toNat == 0xff) = true
      · simp only [hb, CONS_BOX_MARKER, if_true] at hp
        have hb' : b = 0xff := uint8_eq_of_toNat (n := 0xff) (by decide) hb
        cases h1 : parseTree f tl with
        | error e => simp [h1] at hp
        | ok p1 =>
          obtain ⟨l, r1⟩ := p1
          have hl1 := parseTree_length _ _ _ _ h1
          obtain ⟨m1, hm1⟩ := parseTree_suffix _ _ _ _ h1
          simp only [h1] at hp
          cases h2 : parseTree f r1 with
          | error e => simp [h2] at hp
          | ok p2 =>
            obtain ⟨r, r2⟩ := p2
            have hl2 := parseTree_length _ _ _ _ h2
            simp only [h2] at hp
            simp at hp
            obtain ⟨rfl, rfl⟩ := hp
            have hstep : triplesLoop true (b :: tl) (.parseObj :: ops) st
                = triplesLoop true tl
                    (.parseObj :: .saveRightIndex st.r.length :: .parseObj :: .saveEnd st.r.length :: ops)
                    { r := st.r ++ [.pair st.cursor 0 0], treeHashes := st.treeHashes ++ [zero32],
                      cursor := st.cursor + 1 } := by
              rw [triplesLoop]; simp [hb]
            obtain ⟨tsl, hlenl, hdl, el⟩ := ih tl l r1 (by omega) h1
              (.saveRightIndex st.r.length :: .parseObj :: .saveEnd st.r.length :: ops)
              { r := st.r ++ [.pair st.cursor 0 0], treeHashes := st.treeHashes ++ [zero32],
                cursor := st.cursor + 1 } (pre ++ [b]) (by rw [hbuf]; simp) (by simp [hcur]) (by simp [hst])
            simp only [List.append_assoc, List.cons_append, List.nil_append, List.length_append,
              List.length_cons, List.length_nil] at el hdl
            have e2 := step_saveRightIndex r1 (.parseObj :: .saveEnd st.r.length :: ops) st.r st.cursor 0 0 tsl
              (st.treeHashes ++ zero32 :: hashList l) (st.cursor + 1 + (tl.length - r1.length))
            obtain ⟨tsr, hlenr, hdr, er⟩ := ih r1 r r2 (by omega) h2 (.saveEnd st.r.length :: ops)
              { r := st.r ++ .pair st.cursor 0 (st.r.length + 1 + tsl.length) :: tsl,
                treeHashes := st.treeHashes ++ zero32 :: hashList l,
                cursor := st.cursor + 1 + (tl.length - r1.length) } (pre ++ b :: m1)
              (by rw [hbuf, hm1]; simp)
              (by
                have : tl.length = m1.length + r1.length := by rw [hm1]; simp
                simp [hcur]; omega)
              (by simp [hst, hashList_length, hlenl])
            simp only [List.append_assoc, List.cons_append, List.length_append, List.length_cons] at er hdr
            obtain ⟨tll, htl⟩ := hashList_head l
            obtain ⟨trl, htr⟩ := hashList_head r
            have hend : st.cursor + 1 + (tl.length - r1.length) + (r1.length - r2.length)
                = st.cursor + ((b :: tl).length - r2.length) := by
              simp only [List.length_cons]; omega
            have e4 := step_saveEnd r2 ops st.r st.cursor 0 (st.r.length + 1 + tsl.length) (tsl ++ tsr)
              st.treeHashes zero32 (treeHash l) (treeHash r) (hashList l ++ hashList r)
              (st.cursor + ((b :: tl).length - r2.length)) hst
              (by rw [htl]; simp) (by omega)
              (by
                have : st.r.length + 1 + tsl.length - st.r.length - 1 = (hashList l).length := by
                  rw [hashList_length, hlenl]; omega
                rw [this, List.getElem?_append_right (Nat.le_refl _), htr]; simp)
            refine ⟨.pair st.cursor (st.cursor + ((b :: tl).length - r2.length)) (st.r.length + 1 + tsl.length)
              :: (tsl ++ tsr), ?_, ?_, ?_⟩
            · simp [nodes, hlenl, hlenr]; omega
            · refine ⟨tsl, tsr, st.cursor + 1 + (tl.length - r1.length), rfl, ?_, hdl, ?_⟩
              · rw [hbuf, hcur, hb']; simp
              · rw [hend] at hdr
                have : st.r.length + (tsl.length + 1) = st.r.length + 1 + tsl.length := by omega
                rw [this] at hdr
                exact hdr
            · rw [hend] at er
              rw [hstep, el, e2, er, e4]
              simp [hashList, shaBlobs, treeHash]
      · simp only [hb, CONS_BOX_MARKER] at hp
        cases ha : parseAtom tl b with
        | error e => simp [ha] at hp
        | ok p =>
          obtain ⟨n, t'⟩ := p
          simp only [ha] at hp
          simp at hp
          obtain ⟨rfl, rfl⟩ := hp
          obtain ⟨tr, hd, hn, e⟩ := triples_atom_desc buf pre b tl ops st hbuf hcur hb n t' ha
          have hcons : (b :: tl).length - (tl.drop n).length = 1 + n := by
            simp only [List.length_cons, List.length_drop]; omega
          refine ⟨[tr], ?_, ?_, ?_⟩
          · cases t' <;> simp [nodes]
            · unfold parseAtom parseAtomPtr at ha
              repeat' split at ha
              all_goals simp at ha
          · rw [hcons, ← Nat.add_assoc]; exact hd
          · rw [e, hcons, ← Nat.add_assoc]
            cases t' with
            | atom bs => simp [hashList]
            | pair l r =>
              unfold parseAtom parseAtomPtr at ha
              repeat' split at ha
              all_goals simp at ha


/-- `parse_triples(f, true)` on any input that `node_from_stream` decodes: the triples describe the
decoded tree laid out in the consumed bytes, the hashes are those of all sub-trees in pre-order,
the remainder is the same -/
theorem parseTriples_describes (inp : Bytes) (t : Tree) (rest : Bytes)
    (h : nodeFromStream inp [.sexp] [] = .ok (t, rest)) :
    ∃ ts, ts.length = nodes t ∧ Describes inp 0 ts t 0 (inp.length - rest.length) ∧
      parseTriples inp true = .ok (ts, some (hashList t), rest) := by
  rw [nodeFromStream_eq_parseTree] at h
  obtain ⟨ts, hl, hd, e⟩ := triples_node_desc inp (inp.length + 1) inp t rest (by omega) h [] {} [] rfl rfl rfl
  refine ⟨ts, hl, by simpa using hd, ?_⟩
  unfold parseTriples
  rw [e, triplesLoop]
  simp

end Clvm.TreeHash
