/-
Termination of the interning loop: the fuel `5·|d| + 2` supplied by `internTreeLimited` is never
exhausted on a well-formed DAG, and the only errors are the new allocator's limits.
-/
import ClvmProofs.Lemmas.InternInv

namespace Clvm.Intern

abbrev Memo := List (Nat × INode)

def mem (m : Memo) (i : Nat) : Bool := (m.lookup i).isSome

/-- number of source nodes `< N` not yet interned -/
def Um (N : Nat) (m : Memo) : Nat := (List.range N).countP (fun i => !mem m i)

def AllocErr (e : Err) : Prop := e = .OutOfMemory ∨ e = .TooManyAtoms ∨ e = .TooManyPairs

def cont (d : Dag) (f : Nat) : Except Err State → Except Err State
  | .error e => .error e
  | .ok s => loop d f s

theorem not_isSome_of_mem {m : Memo} {i : Nat} (h : mem m i = false) : ¬ ((List.lookup i m).isSome = true) := by
  unfold mem at h; rw [h]; simp

theorem mem_cons (m : Memo) (c : Nat) (n : INode) (j : Nat) :
    mem ((c, n) :: m) j = (j == c || mem m j) := by
  unfold mem
  by_cases h : j = c
  · subst h; simp
  · rw [lookup_cons_ne _ _ _ _ h]; simp [h]

theorem Um_cons (m : Memo) (c : Nat) (n : INode) (hc : mem m c = false) (N : Nat) :
    (c < N → Um N ((c, n) :: m) + 1 = Um N m) ∧ (N ≤ c → Um N ((c, n) :: m) = Um N m) := by
  induction N with
  | zero => simp [Um]
  | succ N ih =>
    unfold Um at ih ⊢
    rw [List.range_succ, List.countP_append, List.countP_append]
    simp only [List.countP_cons, List.countP_nil, Nat.zero_add]
    constructor
    · intro hlt
      by_cases hN : c = N
      · subst hN
        have := ih.2 (Nat.le_refl _)
        rw [this, mem_cons, hc]; simp
      · have := ih.1 (by omega)
        have hm : mem ((c, n) :: m) N = mem m N := by
          rw [mem_cons]; have : (N == c) = false := by simpa using (fun h : N = c => hN h.symm)
          simp [this]
        rw [hm]; omega
    · intro hge
      have := ih.2 (by omega)
      have hm : mem ((c, n) :: m) N = mem m N := by
        rw [mem_cons]; have : (N == c) = false := by simp; omega
        simp [this]
      rw [hm, this]

theorem Um_pos (m : Memo) (c N : Nat) (hc : mem m c = false) (hN : c < N) : 1 ≤ Um N m := by
  unfold Um
  apply List.countP_pos_iff.2
  exact ⟨c, List.mem_range.2 hN, by simp [hc]⟩

theorem Um_nil (N : Nat) : Um N [] = N := by
  unfold Um mem
  simp [List.lookup]

theorem Um_le (N : Nat) (m : Memo) : Um N m ≤ N := by
  unfold Um
  have := List.countP_le_length (p := fun i => !mem m i) (l := List.range N)
  simpa using this

theorem loop_succ (d : Dag) (f : Nat) (s : State) (cur : Nat) (rest : List Nat) (h : s.stack = cur :: rest) :
    loop d (f + 1) s = match step d s cur rest with
      | .error e => .error e
      | .ok s' => loop d f s' := by
  rw [loop, h]
  rfl

theorem loop_done (d : Dag) (f : Nat) (s : State) (h : s.stack = []) : loop d (f + 1) s = .ok s := by
  rw [loop, h]

theorem newAtom_err {c : Counters} {n : Nat} {e : Err} (h : c.newAtom n = .error e) : AllocErr e := by
  unfold Counters.newAtom at h
  split at h
  · cases h; left; rfl
  · split at h
    · cases h; right; left; rfl
    · cases h

theorem newPair_err {c : Counters} {e : Err} (h : c.newPair = .error e) : AllocErr e := by
  unfold Counters.newPair at h
  split at h
  · cases h; right; right; rfl
  · cases h

theorem step_err {d : Dag} {s : State} {cur : Nat} {rest : List Nat} {e : Err} (hc : cur < d.size)
    (h : step d s cur rest = .error e) : AllocErr e := by
  unfold step at h
  split at h
  · cases h
  · split at h
    · rename_i hd
      rw [Array.getElem?_eq_getElem hc] at hd; cases hd
    · split at h
      · cases h
      · split at h
        · rename_i e' he; cases h; exact newAtom_err he
        · cases h
    · dsimp only at h
      split at h
      · split at h
        · cases h
        · split at h
          · rename_i e' he; cases h; exact newPair_err he
          · cases h
      · cases h

/-- what one iteration does to the stack and the memo -/
theorem step_cases {d : Dag} {s s' : State} {cur : Nat} {rest : List Nat} (h : step d s cur rest = .ok s') :
    (mem s.nodeToInterned cur = true ∧ s'.stack = rest ∧ s'.nodeToInterned = s.nodeToInterned) ∨
    (mem s.nodeToInterned cur = false ∧ s'.stack = rest ∧ ∃ n, s'.nodeToInterned = (cur, n) :: s.nodeToInterned) ∨
    (mem s.nodeToInterned cur = false ∧ ∃ l r, d[cur]? = some (SNode.pair l r) ∧
      s'.nodeToInterned = s.nodeToInterned ∧
      ¬(mem s.nodeToInterned l = true ∧ mem s.nodeToInterned r = true) ∧
      s'.stack = (if mem s.nodeToInterned l then [] else [l]) ++ (if mem s.nodeToInterned r then [] else [r]) ++ cur :: rest) := by
  unfold step at h
  split at h
  · rename_i hs; cases h; left; exact ⟨hs, rfl, rfl⟩
  · rename_i hnone
    have hnone' : mem s.nodeToInterned cur = false := by
      unfold mem
      cases hc : List.lookup cur s.nodeToInterned with
      | none => rfl
      | some v => rw [hc] at hnone; simp at hnone
    right
    split at h
    · cases h
    · split at h
      · cases h; left; exact ⟨hnone', rfl, _, rfl⟩
      · split at h
        · cases h
        · cases h; left; exact ⟨hnone', rfl, _, rfl⟩
    · rename_i left right hd
      dsimp only at h
      split at h
      · split at h
        · cases h; left; exact ⟨hnone', rfl, _, rfl⟩
        · split at h
          · cases h
          · cases h; left; exact ⟨hnone', rfl, _, rfl⟩
      · rename_i hnot
        cases h
        right
        refine ⟨hnone', left, right, hd, rfl, ?_, ?_⟩
        · intro ⟨h1, h2⟩
          unfold mem at h1 h2
          cases hl : List.lookup left s.nodeToInterned with
          | none => rw [hl] at h1; simp at h1
          | some l =>
            cases hr : List.lookup right s.nodeToInterned with
            | none => rw [hr] at h2; simp at h2
            | some r => exact hnot l r hl hr
        · simp only [mem, ← Option.not_isSome]
          by_cases h1 : (List.lookup left s.nodeToInterned).isSome = true <;>
            by_cases h2 : (List.lookup right s.nodeToInterned).isSome = true <;> simp [h1, h2]

/-- the specification of "handle the node on top of the stack" -/
def Handled (d : Dag) (s : State) (i : Nat) (rest : List Nat) (k : Nat) : Except Err State → Prop
  | .error e => AllocErr e ∧ k ≤ 3 * Um d.size s.nodeToInterned + 1 + 2 * i
  | .ok s' => s'.stack = rest ∧ mem s'.nodeToInterned i = true ∧
      (∀ j, mem s.nodeToInterned j = true → mem s'.nodeToInterned j = true) ∧
      (∀ j, i < j → mem s'.nodeToInterned j = mem s.nodeToInterned j) ∧
      k + 3 * Um d.size s'.nodeToInterned ≤ 3 * Um d.size s.nodeToInterned + 1

/-- one step that finishes `cur` (it was interned already, or gets interned now) -/
theorem handle_one {d : Dag} {s : State} {cur : Nat} {rest : List Nat} (hst : s.stack = cur :: rest)
    (hc : cur < d.size)
    (hfin : ∀ s', step d s cur rest = .ok s' →
      (mem s.nodeToInterned cur = true ∧ s'.stack = rest ∧ s'.nodeToInterned = s.nodeToInterned) ∨
      (mem s.nodeToInterned cur = false ∧ s'.stack = rest ∧ ∃ n, s'.nodeToInterned = (cur, n) :: s.nodeToInterned)) :
    ∃ o, (∀ f, loop d (1 + f) s = cont d f o) ∧ Handled d s cur rest 1 o ∧
      (∀ s', o = .ok s' → mem s.nodeToInterned cur = false →
        Um d.size s'.nodeToInterned + 1 = Um d.size s.nodeToInterned) := by
  cases hstep : step d s cur rest with
  | error e =>
    refine ⟨.error e, ?_, ⟨step_err hc hstep, by omega⟩, fun s' h => by cases h⟩
    intro f; rw [Nat.add_comm, loop_succ d f s cur rest hst, hstep]; rfl
  | ok s' =>
    refine ⟨.ok s', ?_, ?_, ?_⟩
    · intro f; rw [Nat.add_comm, loop_succ d f s cur rest hst, hstep]; rfl
    rotate_left
    · intro s'' h hm
      cases h
      rcases hfin s' hstep with ⟨hm', _, _⟩ | ⟨_, _, n, hn⟩
      · rw [hm] at hm'; cases hm'
      · rw [hn]; exact (Um_cons s.nodeToInterned cur n hm d.size).1 hc
    · rcases hfin s' hstep with ⟨hm, hs, hn⟩ | ⟨hm, hs, n, hn⟩
      · refine ⟨hs, by rw [hn]; exact hm, ?_, ?_, ?_⟩
        · intro j hj; rw [hn]; exact hj
        · intro j _; rw [hn]
        · rw [hn]; omega
      · refine ⟨hs, by rw [hn, mem_cons]; simp, ?_, ?_, ?_⟩
        · intro j hj; rw [hn, mem_cons, hj]; simp
        · intro j hj; rw [hn, mem_cons]
          have : (j == cur) = false := by simp; omega
          simp [this]
        · have := (Um_cons s.nodeToInterned cur n hm d.size).1 hc
          rw [hn]; omega

/-- **handling the top of the stack terminates**, within the stated number of iterations -/
theorem handle {d : Dag} (wf : d.WF) : ∀ (i : Nat) (s : State) (rest : List Nat), s.stack = i :: rest → i < d.size →
    ∃ k o, 1 ≤ k ∧ (∀ f, loop d (k + f) s = cont d f o) ∧ Handled d s i rest k o := by
  intro i
  induction i using Nat.strongRecOn with
  | ind i ih =>
    intro s rest hst hi
    -- is this the expansion case?
    by_cases hexp : mem s.nodeToInterned i = false ∧ ∃ l r, d[i]? = some (SNode.pair l r) ∧
        ¬(mem s.nodeToInterned l = true ∧ mem s.nodeToInterned r = true)
    · obtain ⟨hmi, l, r, hd, hnot⟩ := hexp
      obtain ⟨hl, hr⟩ := wf i l r hd
      -- the expanding step
      have hstep1 : ∃ s1, step d s i rest = .ok s1 ∧ s1.nodeToInterned = s.nodeToInterned ∧
          s1.stack = (if mem s.nodeToInterned l then [] else [l]) ++ (if mem s.nodeToInterned r then [] else [r]) ++ i :: rest := by
        cases hs : step d s i rest with
        | error e =>
          exfalso
          unfold step at hs
          have : ¬ ((List.lookup i s.nodeToInterned).isSome = true) := not_isSome_of_mem hmi
          rw [if_neg this, hd] at hs
          dsimp only at hs
          split at hs
          · rename_i l' r' hl' hr'
            exact hnot ⟨by simp [mem, hl'], by simp [mem, hr']⟩
          · cases hs
        | ok s1 =>
          rcases step_cases hs with ⟨hm, _, _⟩ | ⟨_, hs1, n, hn⟩ | ⟨_, l', r', hd', hn, _, hs1⟩
          · rw [hmi] at hm; cases hm
          · exfalso
            -- a finishing step needs both children interned
            unfold step at hs
            have : ¬ ((List.lookup i s.nodeToInterned).isSome = true) := not_isSome_of_mem hmi
            rw [if_neg this, hd] at hs
            dsimp only at hs
            split at hs
            · rename_i l' r' hl' hr'
              exact hnot ⟨by simp [mem, hl'], by simp [mem, hr']⟩
            · cases hs
              have := congrArg List.length hs1
              simp at this
              split at this <;> split at this <;> simp at this <;> omega
          · rw [hd] at hd'; cases hd'
            exact ⟨s1, rfl, hn, hs1⟩
      obtain ⟨s1, hs1, hm1, hst1⟩ := hstep1
      -- optional handling of the left child
      have hleft : ∃ k2 o2, (∀ f, loop d (k2 + f) s1 = cont d f o2) ∧
          match o2 with
          | .error e => AllocErr e ∧ k2 ≤ 3 * Um d.size s.nodeToInterned + 1 + 2 * l
          | .ok s2 => s2.stack = (if mem s.nodeToInterned r then [] else [r]) ++ i :: rest ∧
              mem s2.nodeToInterned l = true ∧
              (∀ j, mem s.nodeToInterned j = true → mem s2.nodeToInterned j = true) ∧
              (∀ j, l < j → mem s2.nodeToInterned j = mem s.nodeToInterned j) ∧
              k2 + 3 * Um d.size s2.nodeToInterned ≤ 3 * Um d.size s.nodeToInterned + 1 := by
        by_cases hml : mem s.nodeToInterned l = true
        · refine ⟨0, .ok s1, fun f => by simp [cont], ?_⟩
          simp only
          rw [hm1]
          refine ⟨by rw [hst1, hml]; simp, hml, fun j hj => hj, fun j _ => rfl, by omega⟩
        · have hml' : mem s.nodeToInterned l = false := by simpa using hml
          obtain ⟨k2, o2, _, hrun, hh⟩ := ih l hl s1
            ((if mem s.nodeToInterned r then [] else [r]) ++ i :: rest) (by rw [hst1, hml']; simp) (by omega)
          refine ⟨k2, o2, hrun, ?_⟩
          cases o2 with
          | error e => simp only [Handled, hm1] at hh ⊢; exact hh
          | ok s2 => simp only [Handled, hm1] at hh ⊢; exact hh
      obtain ⟨k2, o2, hrun2, hh2⟩ := hleft
      cases o2 with
      | error e =>
        simp only at hh2
        refine ⟨1 + k2, .error e, by omega, ?_, hh2.1, by omega⟩
        intro f
        have : 1 + k2 + f = (k2 + f) + 1 := by omega
        rw [this, loop_succ d _ s i rest hst, hs1]
        simp only
        rw [hrun2 f]
      | ok s2 =>
        simp only at hh2
        obtain ⟨hst2, hml2, hmono2, hframe2, hpot2⟩ := hh2
        -- optional handling of the right child
        have hright : ∃ k3 o3, (∀ f, loop d (k3 + f) s2 = cont d f o3) ∧
            match o3 with
            | .error e => AllocErr e ∧ k3 ≤ 3 * Um d.size s2.nodeToInterned + 1 + 2 * r
            | .ok s3 => s3.stack = i :: rest ∧
                mem s3.nodeToInterned r = true ∧
                (∀ j, mem s2.nodeToInterned j = true → mem s3.nodeToInterned j = true) ∧
                (∀ j, r < j → mem s3.nodeToInterned j = mem s2.nodeToInterned j) ∧
                k3 + 3 * Um d.size s3.nodeToInterned ≤ 3 * Um d.size s2.nodeToInterned + 1 := by
          by_cases hmr : mem s.nodeToInterned r = true
          · refine ⟨0, .ok s2, fun f => by simp [cont], ?_⟩
            exact ⟨by rw [hst2, hmr]; simp, hmono2 r hmr, fun j hj => hj, fun j _ => rfl, by omega⟩
          · have hmr' : mem s.nodeToInterned r = false := by simpa using hmr
            obtain ⟨k3, o3, _, hrun, hh⟩ := ih r hr s2 (i :: rest) (by rw [hst2, hmr']; simp) (by omega)
            exact ⟨k3, o3, hrun, by cases o3 <;> simpa [Handled] using hh⟩
        obtain ⟨k3, o3, hrun3, hh3⟩ := hright
        cases o3 with
        | error e =>
          simp only at hh3
          refine ⟨1 + k2 + k3, .error e, by omega, ?_, hh3.1, by omega⟩
          intro f
          have : 1 + k2 + k3 + f = (k2 + (k3 + f)) + 1 := by omega
          rw [this, loop_succ d _ s i rest hst, hs1]
          simp only
          rw [hrun2 (k3 + f)]
          simp only [cont]
          rw [hrun3 f]
          rfl
        | ok s3 =>
          simp only at hh3
          obtain ⟨hst3, hmr3, hmono3, hframe3, hpot3⟩ := hh3
          -- the finishing step on `i`
          have hmi3 : mem s3.nodeToInterned i = false := by
            rw [hframe3 i hr, hframe2 i hl]; exact hmi
          have hml3 : mem s3.nodeToInterned l = true := hmono3 l hml2
          have hfin : ∀ s', step d s3 i rest = .ok s' →
              (mem s3.nodeToInterned i = true ∧ s'.stack = rest ∧ s'.nodeToInterned = s3.nodeToInterned) ∨
              (mem s3.nodeToInterned i = false ∧ s'.stack = rest ∧ ∃ n, s'.nodeToInterned = (i, n) :: s3.nodeToInterned) := by
            intro s' hs'
            rcases step_cases hs' with h1 | h1 | ⟨_, l', r', hd', _, hnot', _⟩
            · left; exact h1
            · right; exact h1
            · rw [hd] at hd'; cases hd'
              exact absurd ⟨hml3, hmr3⟩ hnot'
          obtain ⟨o4, hrun4, hh4, hdec4⟩ := handle_one hst3 hi hfin
          have hu3 : 1 ≤ Um d.size s3.nodeToInterned := Um_pos _ i _ hmi3 hi
          refine ⟨1 + k2 + k3 + 1, o4, by omega, ?_, ?_⟩
          · intro f
            have : 1 + k2 + k3 + 1 + f = (k2 + (k3 + (1 + f))) + 1 := by omega
            rw [this, loop_succ d _ s i rest hst, hs1]
            simp only
            rw [hrun2 (k3 + (1 + f))]
            simp only [cont]
            rw [hrun3 (1 + f)]
            simp only [cont]
            rw [hrun4 f]
            cases o4 <;> rfl
          · cases o4 with
            | error e =>
              simp only [Handled] at hh4 ⊢
              exact ⟨hh4.1, by omega⟩
            | ok s4 =>
              simp only [Handled] at hh4 ⊢
              obtain ⟨h1, h2, h3, h4, h5⟩ := hh4
              have hdec := hdec4 s4 rfl hmi3
              refine ⟨h1, h2, ?_, ?_, by omega⟩
              · intro j hj; exact h3 j (hmono3 j (hmono2 j hj))
              · intro j hj
                rw [h4 j hj, hframe3 j (by omega), hframe2 j (by omega)]
    · -- a single finishing step
      have hfin : ∀ s', step d s i rest = .ok s' →
          (mem s.nodeToInterned i = true ∧ s'.stack = rest ∧ s'.nodeToInterned = s.nodeToInterned) ∨
          (mem s.nodeToInterned i = false ∧ s'.stack = rest ∧ ∃ n, s'.nodeToInterned = (i, n) :: s.nodeToInterned) := by
        intro s' hs'
        rcases step_cases hs' with h1 | h1 | ⟨hm, l', r', hd', _, hnot', _⟩
        · left; exact h1
        · right; exact h1
        · exact absurd ⟨hm, l', r', hd', hnot'⟩ hexp
      obtain ⟨o, hrun, hh, _⟩ := handle_one hst hi hfin
      refine ⟨1, o, Nat.le_refl _, hrun, ?_⟩
      cases o with
      | error e => simp only [Handled] at hh ⊢; exact ⟨hh.1, by omega⟩
      | ok s' => exact hh

/-- the loop started by `internTreeLimited` ends with an empty stack or an allocator-limit error -/
theorem loop_terminates {d : Dag} (wf : d.WF) (root : Nat) (hroot : root < d.size) (s0 : State)
    (hst : s0.stack = [root]) :
    (∃ e, AllocErr e ∧ loop d (fuelFor d) s0 = .error e) ∨
    (∃ s', loop d (fuelFor d) s0 = .ok s' ∧ s'.stack = []) := by
  obtain ⟨k, o, hk, hrun, hh⟩ := handle wf root s0 [] hst hroot
  have hU : Um d.size s0.nodeToInterned ≤ d.size := Um_le _ _
  cases o with
  | error e =>
    simp only [Handled] at hh
    left
    refine ⟨e, hh.1, ?_⟩
    have : fuelFor d = k + (fuelFor d - k) := by unfold fuelFor; omega
    rw [this, hrun]; rfl
  | ok s' =>
    simp only [Handled] at hh
    right
    refine ⟨s', ?_, hh.1⟩
    have : fuelFor d = k + ((fuelFor d - k - 1) + 1) := by unfold fuelFor; omega
    rw [this, hrun]
    simp only [cont]
    exact loop_done d _ s' hh.1

/-- the invariant holds at the end of a successful run -/
theorem loop_inv {d : Dag} (wf : d.WF) {root : Nat} : ∀ (f : Nat) (s s' : State), Inv d root s →
    loop d f s = .ok s' → Inv d root s' ∧ s'.stack = [] := by
  intro f
  induction f with
  | zero => intro s s' _ h; rw [loop] at h; cases h
  | succ f ih =>
    intro s s' inv h
    cases hst : s.stack with
    | nil => rw [loop_done d f s hst] at h; cases h; exact ⟨inv, hst⟩
    | cons cur rest =>
      rw [loop_succ d f s cur rest hst] at h
      cases hs : step d s cur rest with
      | error e => rw [hs] at h; cases h
      | ok s1 =>
        rw [hs] at h
        exact ih s1 s' (inv.step wf hst hs) h

end Clvm.Intern
