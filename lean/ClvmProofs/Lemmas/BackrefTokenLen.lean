/-
C17, step (a) of *never grows*: the number `atom_length_bits(|path| + 1)` that `find_path` compares
with `serialized_length(node) - 1` is exactly the number of bytes `write_atom` emits for the bytes
`reversed_path_to_vec_u8(path)`, i.e. the length of the back-reference token without its `0xfe`
marker.  Together with the last conjunct of `find_path_sound` this gives: a back-reference token
(marker + path atom) is never longer than the classic serialization of the node it replaces.
-/
import ClvmProofs.Lemmas.BackrefCodec

namespace Clvm.Backref
open Clvm Clvm.Serde Clvm.Serde.ReadCache Clvm.Serde.TraversePath

theorem lt128_of_bit7 : ∀ x, x < 256 → (x &&& 2 ^ 7 != 0) = false → x < 128 := by decide +kernel

theorem ge128_of_bit7 : ∀ x, x < 256 → (x &&& 2 ^ 7 != 0) = true → 128 ≤ x := by decide +kernel

/-- the bytes `reversed_path_to_vec_u8(path)` returns: `|path| / 8 + 1` bytes whose bits (counted
from the least significant bit of the last byte) are the directions, last step first, below a
terminator bit at position `|path|`, and zero above it. -/
theorem reversedPath_bytes (path : List Bool) (b : Bytes) (hrp : reversedPathToVecU8 path = .ok b) :
    b.length = path.length / 8 + 1 ∧
    ∀ p, p < 8 * (path.length / 8 + 1) →
      bitAt b p = (path.reverse.getD p false || decide (p = path.length)) := by
  unfold reversedPathToVecU8 at hrp
  simp only [Nat.shiftRight_eq_div_pow] at hrp
  have hbc : (path.length + 1 + 7) / 2 ^ 3 = path.length / 8 + 1 := by omega
  rw [hbc] at hrp
  have hne : (path.length / 8 + 1 == 0) = false := by simp
  simp only [hne, Bool.false_eq_true, if_false, Nat.add_sub_cancel] at hrp
  have hlen0 : (List.replicate (path.length / 8 + 1) (0 : UInt8)).length = path.length / 8 + 1 := by simp
  obtain ⟨v', index', k', h1, h2, h3, h4, h5, h6⟩ :=
    rptLoop_spec path.reverse (List.replicate (path.length / 8 + 1) 0) (path.length / 8) 0
      (by rw [hlen0]; omega) (by omega) (by rw [hlen0, List.length_reverse]; omega)
  rw [hlen0, List.length_reverse] at h5
  rw [hlen0] at h2 h3 h6
  have hone : (1 : Nat) = 2 ^ 0 := rfl
  rw [hone, h1] at hrp
  simp only [] at hrp
  obtain ⟨b', hb1, hb2, hb3⟩ := orAt_spec v' index' k' (by omega) h4
  rw [hb1, Except.ok.injEq] at hrp
  subst hrp
  rw [h2] at hb2 hb3
  have hidx : index' = 0 ∧ k' = path.length % 8 := by omega
  obtain ⟨rfl, rfl⟩ := hidx
  refine ⟨hb2, ?_⟩
  intro p hp
  have e1 : 8 * (path.length / 8 + 1 - 1 - path.length / 8) + 0 = 0 := by omega
  have e2 : 8 * (path.length / 8 + 1 - 1 - 0) + path.length % 8 = path.length := by omega
  rw [hb3 p hp, h6 p hp, bitAt_zeros, e1, e2]
  simp

/-- **token length**: `atom_length_bits(|path| + 1)` is the length of `write_atom`'s output for the
path bytes (`Classic.atomEnc`, which `writeAtom_spec` shows is what `write_atom` appends). -/
theorem path_token_length (path : List Bool) (b : Bytes) (pl : Nat)
    (hrp : reversedPathToVecU8 path = .ok b)
    (hl : atomLengthBits (path.length + 1) = .ok (some pl)) :
    (Classic.atomEnc b).length = pl := by
  obtain ⟨hlen, hbits⟩ := reversedPath_bytes path b hrp
  rw [Classic.atomEnc_length]
  unfold atomLengthBits at hl
  simp only [Gen.atomLengthBitsSmall, Gen.atomLengthBitsThresholds, ReadCache.thr,
    List.getD_cons_zero, List.getD_cons_succ] at hl
  by_cases hs : path.length < 7
  · -- one byte below 0x80
    have h8 : path.length + 1 < 8 := by omega
    simp only [h8, if_true, Except.ok.injEq, Option.some.injEq] at hl
    subst hl
    match b, hlen, hbits with
    | [x], _, hbits =>
      have h7 := hbits 7 (by omega)
      have e : (7 : Nat) = 8 * ([] : Bytes).length + 7 := by simp
      rw [e, bitAt_head x [] 7 (by omega)] at h7
      have hge : path.reverse.length ≤ 8 * ([] : Bytes).length + 7 := by
        rw [List.length_reverse]; simp; omega
      have hne : ¬ (8 * ([] : Bytes).length + 7 = path.length) := by simp; omega
      simp only [List.getD_eq_getElem?_getD, List.getElem?_eq_none hge, hne, Option.getD_none,
        decide_false, Bool.or_false] at h7
      have := lt128_of_bit7 _ (UInt8.toNat_lt x) h7
      simp [this]
    | [], hlen, _ => simp at hlen
    | _ :: _ :: _, hlen, _ => simp at hlen; omega
  · have h8 : ¬ path.length + 1 < 8 := by omega
    simp only [h8, if_false] at hl
    have hnb : (path.length + 1 + 7) / 8 = path.length / 8 + 1 := by omega
    rw [hnb] at hl
    by_cases h7 : path.length = 7
    · -- one byte from 0x80: two bytes
      have hq : path.length / 8 + 1 = 1 := by omega
      rw [hq] at hl hlen
      simp at hl
      subst hl
      match b, hlen, hbits with
      | [x], _, hbits =>
        have hb7 := hbits 7 (by omega)
        have e : (7 : Nat) = 8 * ([] : Bytes).length + 7 := by simp
        rw [e, bitAt_head x [] 7 (by omega)] at hb7
        have : (8 * ([] : Bytes).length + 7 = path.length) := by simp; omega
        simp only [this, decide_true, Bool.or_true] at hb7
        have := ge128_of_bit7 _ (UInt8.toNat_lt x) hb7
        have hx : ¬ x.toNat < 128 := by omega
        simp [hx]
      | [], hlen, _ => simp at hlen
      | _ :: _ :: _, hlen, _ => simp at hlen
    · -- at least two bytes: the width ladder
      have h2 : 2 ≤ b.length := by omega
      match b, h2, hlen with
      | x :: y :: t, _, hlen =>
        simp only []
        rw [hlen]
        generalize hn : path.length / 8 + 1 = n at hl ⊢
        have hn1 : 1 ≤ n := by omega
        unfold Classic.width
        by_cases c1 : n < 64
        · have : 1 ≤ n ∧ n < 64 := by omega
          simp only [this, and_self, if_true, Except.ok.injEq, Option.some.injEq] at hl
          have c1' : n < 2 ^ 6 := by omega
          simp only [c1', if_true]; omega
        by_cases c2 : n < 8192
        · have a1 : ¬ (1 ≤ n ∧ n < 64) := by omega
          have a2 : 64 ≤ n ∧ n < 8192 := by omega
          simp only [a1, a2, and_self, if_true, if_false, Except.ok.injEq, Option.some.injEq] at hl
          have d1 : ¬ n < 2 ^ 6 := by omega
          have d2 : n < 2 ^ 13 := by omega
          simp only [d1, d2, if_true, if_false]; omega
        by_cases c3 : n < 1048576
        · have a1 : ¬ (1 ≤ n ∧ n < 64) := by omega
          have a2 : ¬ (64 ≤ n ∧ n < 8192) := by omega
          have a3 : 8192 ≤ n ∧ n < 1048576 := by omega
          simp only [a1, a2, a3, and_self, if_true, if_false, Except.ok.injEq, Option.some.injEq] at hl
          have d1 : ¬ n < 2 ^ 6 := by omega
          have d2 : ¬ n < 2 ^ 13 := by omega
          have d3 : n < 2 ^ 20 := by omega
          simp only [d1, d2, d3, if_true, if_false]; omega
        by_cases c4 : n < 134217728
        · have a1 : ¬ (1 ≤ n ∧ n < 64) := by omega
          have a2 : ¬ (64 ≤ n ∧ n < 8192) := by omega
          have a3 : ¬ (8192 ≤ n ∧ n < 1048576) := by omega
          have a4 : 1048576 ≤ n ∧ n < 134217728 := by omega
          simp only [a1, a2, a3, a4, and_self, if_true, if_false, Except.ok.injEq,
            Option.some.injEq] at hl
          have d1 : ¬ n < 2 ^ 6 := by omega
          have d2 : ¬ n < 2 ^ 13 := by omega
          have d3 : ¬ n < 2 ^ 20 := by omega
          have d4 : n < 2 ^ 27 := by omega
          simp only [d1, d2, d3, d4, if_true, if_false]; omega
        by_cases c5 : n < 17179869184
        · have a1 : ¬ (1 ≤ n ∧ n < 64) := by omega
          have a2 : ¬ (64 ≤ n ∧ n < 8192) := by omega
          have a3 : ¬ (8192 ≤ n ∧ n < 1048576) := by omega
          have a4 : ¬ (1048576 ≤ n ∧ n < 134217728) := by omega
          have a5 : 134217728 ≤ n ∧ n < 17179869184 := by omega
          simp only [a1, a2, a3, a4, a5, and_self, if_true, if_false, Except.ok.injEq,
            Option.some.injEq] at hl
          have d1 : ¬ n < 2 ^ 6 := by omega
          have d2 : ¬ n < 2 ^ 13 := by omega
          have d3 : ¬ n < 2 ^ 20 := by omega
          have d4 : ¬ n < 2 ^ 27 := by omega
          have d5 : n < 2 ^ 34 := by omega
          simp only [d1, d2, d3, d4, d5, if_true, if_false]; omega
        · have a1 : ¬ (1 ≤ n ∧ n < 64) := by omega
          have a2 : ¬ (64 ≤ n ∧ n < 8192) := by omega
          have a3 : ¬ (8192 ≤ n ∧ n < 1048576) := by omega
          have a4 : ¬ (1048576 ≤ n ∧ n < 134217728) := by omega
          have a5 : ¬ (134217728 ≤ n ∧ n < 17179869184) := by omega
          simp only [a1, a2, a3, a4, a5, if_false] at hl
          split at hl <;> simp at hl

end Clvm.Backref
