/-
C01: the unknown-operator rule.  `op_unknown` of the implementation model (default flags, i.e. the
pre-hard-fork cost model) against the reference's `default_unknown_op`, through the documented rule
`Spec.unknownRule` (`ClvmModel/Spec/Unknown.lean`) and the closed forms of property C09
(`Lemmas/Interp/CostUnknown*.lean`): the model's base computation is the documented walk over the
argument sizes; the walk fails on cost exactly when the final base exceeds the budget (bases only
grow); the reference's `unknownBaseCost` is the documented base.  Everything is stated outside the
region where the product `base · (multiplier + 1)` reaches `2^64` (finding B: the old model wraps).
-/
import ClvmProofs.Lemmas.RefLoops
import ClvmProofs.Lemmas.Interp.CostUnknownRule

namespace Clvm.Ref
open Clvm Clvm.Interp Clvm.Alloc Clvm.Spec Clvm.Spec.Unknown

theorem base_le_snoc (cf : Nat) (seen : List Nat) (s : Nat) : base cf false seen ≤ base cf false (seen ++ [s]) := by
  unfold base
  split
  · rw [addBase_old_snoc]; omega
  · cases seen with
    | nil => simp [mulBase, mulSteps]
    | cons s0 r =>
      rw [List.cons_append, mulBase_snoc_cons]
      exact Nat.le_trans (Nat.le_trans (Nat.le_add_right _ _) (Nat.le_add_right _ _)) (Nat.le_add_right _ _)
  · rw [concatBase_snoc]; omega
  · exact Nat.le_refl _

theorem base_le_append (cf : Nat) (seen : List Nat) : ∀ (r : List Nat), base cf false seen ≤ base cf false (seen ++ r) := by
  intro r
  induction r generalizing seen with
  | nil => simp
  | cons s t ih =>
    have := ih (seen ++ [s])
    rw [List.append_assoc] at this
    exact Nat.le_trans (base_le_snoc cf seen s) this

/-- the walk over atom sizes only: all sizes, or `CostExceeded` with the final base above the budget -/
theorem walk_atoms (cf B : Nat) : ∀ (ss seen : List Nat),
    (Unknown.walk cf false B seen (ss.map some) = .ok (seen ++ ss)) ∨
    (Unknown.walk cf false B seen (ss.map some) = .error .CostExceeded ∧ base cf false (seen ++ ss) > B) := by
  intro ss
  induction ss with
  | nil => intro seen; left; simp [Unknown.walk]
  | cons s t ih =>
    intro seen
    simp only [List.map, Unknown.walk]
    by_cases hc : (checkedAfter cf false (seen ++ [s]) && decide (base cf false (seen ++ [s]) > B)) = true
    · right
      rw [if_pos (by simpa using hc)]
      refine ⟨rfl, ?_⟩
      have h1 : base cf false (seen ++ [s]) > B := by
        simp only [Bool.and_eq_true, decide_eq_true_eq] at hc; exact hc.2
      have h2 := base_le_append cf (seen ++ [s]) t
      rw [List.append_assoc] at h2
      exact Nat.lt_of_lt_of_le h1 h2
    · rw [if_neg (by simpa using hc)]
      have := ih (seen ++ [s])
      rw [List.append_assoc] at this
      exact this

/-- the walk over a list with a pair in it fails -/
theorem walk_pair (cf B : Nat) : ∀ (ss : List (Option Nat)) (seen : List Nat), none ∈ ss →
    ∃ e, Unknown.walk cf false B seen ss = .error e ∧ (errClass e = .arg ∨ e = .CostExceeded) := by
  intro ss
  induction ss with
  | nil => intro seen h; simp at h
  | cons x t ih =>
    intro seen h
    cases x with
    | none => exact ⟨_, rfl, Or.inl rfl⟩
    | some s =>
      simp only [Unknown.walk]
      split
      · exact ⟨_, rfl, Or.inr rfl⟩
      · exact ih _ (by simpa using h)
/-! ### the reference's base costs are the documented ones -/

theorem foldl_add_sum (l : List Nat) (k : Nat) : l.foldl (· + ·) k = k + Unknown.sum l := by
  induction l generalizing k with
  | nil => simp [Unknown.sum]
  | cons a t ih => simp only [List.foldl_cons, ih, sum_cons]; omega

theorem pyMul_eq : ∀ (r : List Nat) (cost vs : Nat), unknownMulLoop r cost vs = cost + mulSteps 128 vs r := by
  intro r
  induction r with
  | nil => intro cost vs; simp [unknownMulLoop, mulSteps]
  | cons s t ih =>
    intro cost vs
    simp only [unknownMulLoop, mulSteps, ih, MUL_COST_PER_OP, MUL_LINEAR_COST_PER_BYTE, MUL_SQUARE_COST_PER_BYTE_DIVIDER]
    rw [Nat.add_comm s vs, Nat.mul_comm s vs]
    omega

/-- `unknownBaseCost` on an argument list of atoms with lengths `lens` -/
theorem pyBase_eq (cf : Nat) (hcf : cf < 4) (args : Tree) (lens : List Nat) (h : argsLen args = .ok lens) :
    unknownBaseCost cf args = .ok (base cf false lens) := by
  have : cf = 0 ∨ cf = 1 ∨ cf = 2 ∨ cf = 3 := by omega
  rcases this with rfl | rfl | rfl | rfl
  · rfl
  · simp only [unknownBaseCost, h, base, addBase, foldl_const, foldl_add_sum, ARITH_BASE_COST, ARITH_COST_PER_ARG,
      ARITH_COST_PER_BYTE]
    simp; omega
  · cases lens with
    | nil => simp [unknownBaseCost, h, base, mulBase, MUL_BASE_COST]
    | cons vs r => simp [unknownBaseCost, h, base, mulBase, pyMul_eq, MUL_BASE_COST]
  · simp only [unknownBaseCost, h, base, concatBase, foldl_const, foldl_add_sum, CONCAT_BASE_COST, CONCAT_COST_PER_ARG,
      CONCAT_COST_PER_BYTE]
    simp; omega

theorem pyBase_err (cf : Nat) (hcf : cf ≠ 0) (args : Tree) (e : RefErr) (h : argsLen args = .error e) :
    unknownBaseCost cf args = .error e := by
  unfold unknownBaseCost
  have : (cf == 0) = false := by simpa using hcf
  simp only [this, Bool.false_eq_true, if_false, h]
  split <;> (try rfl)
  split <;> rfl

theorem argsLen_proper {a : Val} (hp : Proper a) :
    argsLen a.erase = match atomBytesOf (argList a) with
      | some bs => .ok (bs.map List.length)
      | none => .error .arg := by
  unfold argsLen
  rw [atomsOf_proper hp]
  dsimp only
  rw [atomsOf_map_erase]
  cases atomBytesOf (argList a) <;> rfl

theorem sizesOf_atoms : ∀ (l : List Val) (bs : List Bytes), atomBytesOf l = some bs →
    sizesOf l = (bs.map List.length).map some := by
  intro l
  induction l with
  | nil => intro bs h; simp only [atomBytesOf, Option.some.injEq] at h; subst h; rfl
  | cons a t ih =>
    intro bs h
    cases a with
    | pair _ _ => simp [atomBytesOf] at h
    | atom b i =>
      simp only [atomBytesOf] at h
      cases ht : atomBytesOf t with
      | none => rw [ht] at h; simp at h
      | some bt =>
        rw [ht] at h
        simp only [Option.map_some, Option.some.injEq] at h
        subst h
        have := ih bt ht
        simp only [sizesOf] at this ⊢
        simp [this, Interp.sizeOf]

theorem sizesOf_pair : ∀ (l : List Val), atomBytesOf l = none → none ∈ sizesOf l := by
  intro l
  induction l with
  | nil => intro h; simp [atomBytesOf] at h
  | cons a t ih =>
    intro h
    cases a with
    | pair _ _ => simp [sizesOf, Interp.sizeOf]
    | atom b i =>
      simp only [atomBytesOf] at h
      cases ht : atomBytesOf t with
      | some bt => rw [ht] at h; simp at h
      | none =>
        have := ih ht
        simp only [sizesOf] at this ⊢
        simp [this, Interp.sizeOf]

theorem reserved_eq (op : Bytes) :
    (op.length == 0 || (op.take 2).map UInt8.toNat == [0xff, 0xff]) = reserved op := by
  match op with
  | [] => rfl
  | [x] => simp [reserved]
  | x :: y :: t =>
    simp only [reserved, List.length_cons, List.take, List.map]
    by_cases hx : x.toNat = 0xff <;> by_cases hy : y.toNat = 0xff <;> simp [hx, hy]

theorem cf_eq (op : Bytes) : unknownCostFunction op = costFunction op := by
  unfold unknownCostFunction costFunction
  apply cf_nat
  cases op.getLast? with
  | none => simp
  | some x => simpa using x.toNat_lt

theorem mult_eq (op : Bytes) : unknownCostMultiplier op = multiplier op + 1 := by
  unfold unknownCostMultiplier multiplier
  rw [← List.dropLast_eq_take]
  rfl
/-- the tail of `op_unknown` (old cost model) when the product does not wrap -/
theorem implTail_old (mult B b : Nat) (c : Ctr) (hb : 0 < b) (hprod : b * (mult + 1) < 2 ^ 64) :
    implTail false mult B b c =
      if b > B then .error .CostExceeded
      else if b * (mult + 1) > 2 ^ 32 - 1 then .error .Invalid
      else .ok (b * (mult + 1), Val.nil, c) := by
  unfold implTail checkCost
  have hb0 : (b == 0) = false := by simp; omega
  simp only [hb0, Bool.false_eq_true, if_false]
  by_cases h1 : b > B
  · simp [h1]
  · simp only [h1, if_false, Nat.mod_eq_of_lt hprod]

/-- **the unknown-operator rule**: `op_unknown` under default flags against `default_unknown_op`,
outside the region where the pre-hard-fork product wraps (finding B) -/
theorem unknown_agree (ob : Bytes) (m : Nat) (al : Val) (c : Ctr) (hp : Proper al) (hm : m < 2 ^ 64)
    (hnw : ∀ cost, unknownBaseCost (unknownCostFunction ob) al.erase = .ok cost →
      cost * unknownCostMultiplier ob < 2 ^ 64) :
    OpAgree m (unknownOperator ob al 0 m c) (defaultUnknownOp ob al.erase) := by
  have hs : hasFlag 0 Gen.FLAG_NO_UNKNOWN_OPS = false := by simp [hasFlag]
  unfold unknownOperator
  simp only [hs, Bool.false_eq_true, if_false]
  rw [opUnknown_eq]
  unfold defaultUnknownOp
  rw [reserved_eq]
  by_cases hr : reserved ob = true
  · simp only [hr, if_true]; exact OpAgree.err rfl
  · simp only [hr, Bool.false_eq_true, if_false]
    by_cases h5 : ob.length > 5
    · simp only [h5, if_true]; exact OpAgree.err rfl
    · simp only [h5, if_false]
      have hm' : m ≤ U64_MAX := by simp only [U64_MAX]; omega
      have hnm : newModel 0 = false := by decide
      rw [hnm, implBase_exact (costFunction ob) (costFunction_lt ob) false m hm' (argList al) (by intro h; cases h)]
      rw [cf_eq, mult_eq] at *
      have hal := argsLen_proper hp
      unfold specSizes
      by_cases hcf : costFunction ob = 0
      · -- constant cost: the arguments are not looked at
        have hb : unknownBaseCost (costFunction ob) al.erase = .ok 1 := by rw [hcf]; rfl
        rw [hb]
        have hnw1 := hnw 1 hb
        simp only [hcf, beq_self_eq_true, if_true, Except.map]
        have hbase : base 0 false [] = 1 := rfl
        rw [hbase, implTail_old _ _ _ _ (by omega) hnw1]
        by_cases h1 : 1 > m
        · simp only [h1, if_true]
          by_cases h2 : 1 * (multiplier ob + 1) ≥ 2 ^ 32
          · simp only [h2, if_true]; exact ⟨_, rfl, Or.inr (Or.inl rfl)⟩
          · simp only [h2, if_false]; exact Or.inr (Or.inl ⟨by omega, rfl⟩)
        · simp only [h1, if_false]
          by_cases h2 : 1 * (multiplier ob + 1) ≥ 2 ^ 32
          · rw [if_pos h2, if_pos (by omega)]; exact OpAgree.err rfl
          · rw [if_neg h2, if_neg (by omega)]; exact OpAgree.ok rfl nil_wf
      · have hcf' : (costFunction ob == 0) = false := by simpa using hcf
        simp only [hcf', Bool.false_eq_true, if_false]
        cases hab : atomBytesOf (argList al) with
        | none =>
          rw [hab] at hal
          rw [pyBase_err _ hcf _ _ hal]
          obtain ⟨e, he, hc⟩ := walk_pair (costFunction ob) m _ [] (sizesOf_pair _ hab)
          rw [he]
          simp only [Except.map]
          rcases hc with hc | hc
          · exact OpAgree.err hc
          · subst hc; exact ⟨_, rfl, Or.inr (Or.inl rfl)⟩
        | some bs =>
          rw [hab] at hal
          have hb := pyBase_eq (costFunction ob) (costFunction_lt ob) al.erase _ hal
          rw [hb]
          have hnwb := hnw _ hb
          have hpos := base_pos (costFunction ob) false (bs.map List.length)
          rw [sizesOf_atoms _ _ hab]
          dsimp only
          rcases walk_atoms (costFunction ob) m (bs.map List.length) [] with hw | ⟨hw, hgt⟩
          · rw [hw]
            simp only [List.nil_append, Except.map]
            rw [implTail_old _ _ _ _ hpos hnwb]
            generalize base (costFunction ob) false (bs.map List.length) = b at *
            by_cases h1 : b > m
            · simp only [h1, if_true]
              by_cases h2 : b * (multiplier ob + 1) ≥ 2 ^ 32
              · simp only [h2, if_true]; exact ⟨_, rfl, Or.inr (Or.inl rfl)⟩
              · simp only [h2, if_false]
                refine Or.inr (Or.inl ⟨?_, rfl⟩)
                have : b ≤ b * (multiplier ob + 1) := Nat.le_mul_of_pos_right _ (by omega)
                omega
            · simp only [h1, if_false]
              by_cases h2 : b * (multiplier ob + 1) ≥ 2 ^ 32
              · rw [if_pos h2, if_pos (by omega)]; exact OpAgree.err rfl
              · rw [if_neg h2, if_neg (by omega)]; exact OpAgree.ok rfl nil_wf
          · rw [hw]
            simp only [List.nil_append] at hgt
            simp only [Except.map]
            generalize base (costFunction ob) false (bs.map List.length) = b at *
            by_cases h2 : b * (multiplier ob + 1) ≥ 2 ^ 32
            · simp only [h2, if_true]; exact ⟨_, rfl, Or.inr (Or.inl rfl)⟩
            · simp only [h2, if_false]
              refine Or.inr (Or.inl ⟨?_, rfl⟩)
              have : b ≤ b * (multiplier ob + 1) := Nat.le_mul_of_pos_right _ (by omega)
              omega

end Clvm.Ref
