/-
C19: the protocol model of the incremental serializer (`ClvmModel/Serde/Incremental.lean`).
Part 1 — the output cursor, `add` only appends, `restore` is exact (`Ext`, `restore_exact`).
-/
import ClvmProofs.Lemmas.BackrefRoundTrip
import ClvmModel.Serde.Incremental

namespace Clvm.Incremental
open Clvm Clvm.Serde Clvm.Serde.Backref Clvm.Serde.Incremental Clvm.Serde.TraversePath Clvm.Backref
open Clvm.Serde.Classic (atomEnc)

/-! ### the cursor -/

/-- the cursor stands at the end of its vector (true of `Serializer::new` and preserved by every call) -/
def CurOk (c : Cursor) : Prop := c.pos = c.buf.length

theorem write_ok {c : Cursor} (h : CurOk c) (bs : Bytes) :
    (c.write bs).buf = c.buf ++ bs ∧ CurOk (c.write bs) := by
  unfold CurOk at h
  unfold Cursor.write CurOk
  by_cases hb : bs.isEmpty = true
  · have : bs = [] := by simpa using hb
    subst this
    simp [h]
  · have hlt : ¬ c.buf.length < c.pos := by omega
    simp only [hb, hlt, if_false, Bool.false_eq_true]
    rw [h]
    simp

theorem writeAtomCur_ok {c c' : Cursor} {a : Bytes} (h : CurOk c) (hw : writeAtomCur c a = .ok c') :
    a.length < 2 ^ 34 ∧ c'.buf = c.buf ++ atomEnc a ∧ CurOk c' := by
  unfold writeAtomCur at hw
  cases hx : Classic.writeAtom { out := [], limit := none } a with
  | error e => simp [hx] at hw
  | ok w =>
    simp only [hx, Except.ok.injEq] at hw
    subst hw
    obtain ⟨hl, ho⟩ := writeAtom_out hx
    obtain ⟨h1, h2⟩ := write_ok h w.out
    refine ⟨hl, ?_, h2⟩
    rw [h1, ho]; simp

/-! ### `add` only appends -/

/-- `popConses` does not touch the sentinel -/
theorem popConses_sentinel : ∀ (ops : List ReadOp) (c : Cache) (ops' : List ReadOp) (c' : Cache),
    popConses ops c = .ok (ops', c') → c'.sentinel = c.sentinel := by
  intro ops
  induction ops with
  | nil =>
    intro c ops' c' h
    simp only [popConses, Except.ok.injEq, Prod.mk.injEq] at h
    rw [← h.2]
  | cons op ops ih =>
    intro c ops' c' h
    cases op with
    | parse =>
      simp only [popConses, Except.ok.injEq, Prod.mk.injEq] at h
      rw [← h.2]
    | cons node =>
      unfold popConses at h
      cases hp : c.pop2AndCons node with
      | error e => simp [hp] at h
      | ok c1 =>
        simp only [hp] at h
        rw [ih c1 ops' c' h]
        unfold Cache.pop2AndCons Cache.pop at hp
        cases hr : c.root with
        | atom b => simp [hr] at hp
        | pair top rest =>
          simp only [hr] at hp
          cases hr2 : rest with
          | atom b => simp [hr2] at hp
          | pair l rest2 =>
            simp only [hr2, Except.ok.injEq] at hp
            subst hp
            rfl

/-- whatever the policy answers, the loop of `add` appends to the output, keeps the cursor at the end
and keeps the sentinel -/
theorem addLoop_appends (fp : FindPath) : ∀ (n : Nat) (ws : List Tree), Classic.stackSize ws = n →
    ∀ (ops : List ReadOp) (cache : Cache) (out : Cursor) (s' : Ser) (d : Bool),
    addLoop fp ws ops cache out = .ok (s', d) → CurOk out →
    CurOk s'.output ∧ s'.cache.sentinel = cache.sentinel ∧ ∃ suffix, s'.output.buf = out.buf ++ suffix := by
  intro n
  induction n using Nat.strongRecOn with
  | _ n ihn =>
    intro ws hsz ops cache out s' d h hc
    unfold addLoop at h
    cases ws with
    | nil =>
      simp only [Except.ok.injEq, Prod.mk.injEq] at h
      obtain ⟨rfl, _⟩ := h
      exact ⟨hc, rfl, [], by simp⟩
    | cons node ws' =>
      simp only [] at h
      by_cases hsen : isSentinel cache.sentinel node = true
      · simp only [hsen, if_true, Except.ok.injEq, Prod.mk.injEq] at h
        obtain ⟨rfl, _⟩ := h
        exact ⟨hc, rfl, [], by simp⟩
      · simp only [hsen, Bool.false_eq_true, if_false] at h
        have hsz' : Classic.stackSize ws' < n := by
          rw [← hsz]; simp only [Classic.stackSize, List.map_cons, List.sum_cons]
          have := Classic.Tree.size_pos node; omega
        cases ops with
        | nil => cases h
        | cons op ops =>
          cases op with
          | cons _ => cases h
          | parse =>
            simp only [] at h
            -- after a token that pushes a node: pop the pending conses, then the rest
            have hafter : ∀ (pushed : Tree) (out2 : Cursor), CurOk out2 →
                (match popConses ops (cache.push pushed) with
                  | .error e => (Except.error e : Except Err (Ser × Bool))
                  | .ok (ops', cache') => addLoop fp ws' ops' cache' out2) = .ok (s', d) →
                CurOk s'.output ∧ s'.cache.sentinel = cache.sentinel ∧
                  ∃ suffix, s'.output.buf = out2.buf ++ suffix := by
              intro pushed out2 hc2 h2
              cases hpc : popConses ops (cache.push pushed) with
              | error e => simp [hpc] at h2
              | ok r =>
                obtain ⟨ops', cache'⟩ := r
                simp only [hpc] at h2
                obtain ⟨i1, i2, i3⟩ := ihn _ hsz' ws' rfl ops' cache' out2 s' d h2 hc2
                refine ⟨i1, ?_, i3⟩
                rw [i2, popConses_sentinel _ _ _ _ hpc]; rfl
            cases hfp : findPath fp { readOpStack := ops, writeStack := ws', cache := cache, output := out } node with
            | some path =>
              simp only [hfp] at h
              obtain ⟨hb1, hc1⟩ := write_ok hc [Classic.u8 Gen.incBackReference]
              cases hw : writeAtomCur (out.write [Classic.u8 Gen.incBackReference]) path with
              | error e => simp [hw] at h
              | ok out2 =>
                simp only [hw] at h
                obtain ⟨_, hb2, hc2⟩ := writeAtomCur_ok hc1 hw
                obtain ⟨j1, j2, sfx, j3⟩ := hafter node out2 hc2 h
                exact ⟨j1, j2, [Classic.u8 Gen.incBackReference] ++ atomEnc path ++ sfx, by rw [j3, hb2, hb1]; simp⟩
            | none =>
              simp only [hfp] at h
              cases node with
              | pair l r =>
                simp only [] at h
                obtain ⟨hb1, hc1⟩ := write_ok hc [Classic.u8 Gen.incConsBoxMarker]
                have hsz2 : Classic.stackSize (l :: r :: ws') < n := by
                  rw [← hsz]
                  simp only [Classic.stackSize, List.map_cons, List.sum_cons, Tree.size, Tree.pairs, Tree.atoms]
                  omega
                obtain ⟨j1, j2, sfx, j3⟩ := ihn _ hsz2 _ rfl _ cache _ s' d h hc1
                exact ⟨j1, j2, [Classic.u8 Gen.incConsBoxMarker] ++ sfx, by rw [j3, hb1]; simp⟩
              | atom a =>
                simp only [] at h
                cases hw : writeAtomCur out a with
                | error e => simp [hw] at h
                | ok out1 =>
                  simp only [hw] at h
                  obtain ⟨_, hb1, hc1⟩ := writeAtomCur_ok hc hw
                  obtain ⟨j1, j2, sfx, j3⟩ := hafter (.atom a) out1 hc1 h
                  exact ⟨j1, j2, atomEnc a ++ sfx, by rw [j3, hb1]; simp⟩

/-- `add` appends -/
theorem add_appends {fp : FindPath} {s s' : Ser} {t : Tree} {d : Bool} {u : UndoState}
    (h : s.add fp t = .ok (s', d, u)) (hc : CurOk s.output) :
    u = s.undoState ∧ CurOk s'.output ∧ s'.cache.sentinel = s.cache.sentinel ∧
      ∃ suffix, s'.output.buf = s.output.buf ++ suffix := by
  unfold Ser.add at h
  split at h
  · cases h
  · cases hl : addLoop fp (t :: s.writeStack) s.readOpStack s.cache s.output with
    | error e => simp [hl] at h
    | ok r =>
      obtain ⟨s1, d1⟩ := r
      simp only [hl, Except.ok.injEq, Prod.mk.injEq] at h
      obtain ⟨rfl, rfl, rfl⟩ := h
      obtain ⟨a, b, c⟩ := addLoop_appends fp _ _ rfl _ _ _ _ _ hl hc
      exact ⟨rfl, a, b, c⟩

/-! ### `restore` is exact -/

/-- `Ext base s`: `s` is reached from `base` by calls of `add` (any policy, any tree) and by `restore`s
of undo states that were taken at or after `base` and are still valid (taken at a state from which the
current one was reached in the same way).  This is the usage the `UndoState` API supports. -/
inductive Ext : Ser → Ser → Prop where
  | refl (b : Ser) : Ext b b
  | add {b s s' : Ser} {fp : FindPath} {t : Tree} {d : Bool} {u : UndoState} :
      Ext b s → s.add fp t = .ok (s', d, u) → Ext b s'
  | restore {b s1 s2 : Ser} : Ext b s1 → Ext s1 s2 → Ext b (s2.restore s1.undoState)

theorem restore_eq {b s : Ser} (hc : CurOk b.output) (hsen : s.cache.sentinel = b.cache.sentinel)
    (hpre : ∃ suffix, s.output.buf = b.output.buf ++ suffix) : s.restore b.undoState = b := by
  obtain ⟨sfx, hp⟩ := hpre
  unfold CurOk at hc
  obtain ⟨ro, ws, ⟨sen, root⟩, ⟨buf, pos⟩⟩ := b
  simp only [Ser.restore, Ser.undoState, Cache.restore] at *
  subst hc
  rw [hp]
  simp [hsen]

/-- everything reachable keeps the cursor at the end, keeps the sentinel, extends the output of the
base state — and restoring the base state's undo state gives the base state back, whole -/
theorem ext_spec {b s : Ser} (h : Ext b s) : CurOk b.output →
    CurOk s.output ∧ s.cache.sentinel = b.cache.sentinel ∧ (∃ suffix, s.output.buf = b.output.buf ++ suffix) := by
  induction h with
  | refl b => intro hc; exact ⟨hc, rfl, [], by simp⟩
  | add _ hadd ih =>
    intro hc
    obtain ⟨i1, i2, sfx, i3⟩ := ih hc
    obtain ⟨_, j1, j2, sfx2, j3⟩ := add_appends hadd i1
    exact ⟨j1, by rw [j2, i2], sfx ++ sfx2, by rw [j3, i3]; simp⟩
  | restore _ _ ih1 ih2 =>
    intro hc
    obtain ⟨i1, i2, i3⟩ := ih1 hc
    obtain ⟨j1, j2, j3⟩ := ih2 i1
    rw [restore_eq i1 j2 j3]
    exact ⟨i1, i2, i3⟩

theorem restore_exact {b s : Ser} (hc : CurOk b.output) (h : Ext b s) : s.restore b.undoState = b := by
  obtain ⟨_, j2, j3⟩ := ext_spec h hc
  exact restore_eq hc j2 j3

theorem Ext.trans {a b c : Ser} (h1 : Ext a b) (h2 : Ext b c) : Ext a c := by
  induction h2 with
  | refl _ => exact h1
  | add _ hadd ih => exact Ext.add (ih h1) hadd
  | restore _ h22 ih1 _ => exact Ext.restore (ih1 h1) h22

end Clvm.Incremental
