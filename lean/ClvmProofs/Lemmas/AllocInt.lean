/-
Helper lemmas and main theorems for C14 (allocator layer 0: byte strings ↔ integers).

The transcriptions of `fits_in_small_atom`, `len_for_value`, the ladders of `new_u64` / `new_i64`
and of num-bigint's `to_signed_bytes_be` + the stripping loop of `new_number`
(`ClvmModel/Alloc/IntEnc.lean`) agree with the specification `decodeInt` / `encodeInt`.

Central tool: `FitsIn n v` ("`v` is representable in `n` bytes of two's complement") with
`canonical_iff` (a non-empty `b` is canonical iff its value does not fit in `b.length - 1` bytes),
`decodeInt_inj` (same length + same value ⇒ same bytes) and `toBE_enc`.
-/
import ClvmModel.Alloc.IntEnc
import ClvmProofs.Lemmas.Bits
namespace Clvm.Alloc
open Clvm

/-! ### 1. `fits_in_small_atom` never panics -/

theorem fitsInSmallAtomE_eq (v : Bytes) : fitsInSmallAtomE v = .ok (fitsInSmallAtom v) := by
  have h : ∃ r, fitsInSmallAtomE v = .ok r := by
    match v with
    | [] => exact ⟨_, rfl⟩
    | [x] =>
      unfold fitsInSmallAtomE
      by_cases hx : x.toNat = 0
      · simp [hx]
      · simp [hx]
        split <;> exact ⟨_, rfl⟩
    | x :: y :: rest =>
      unfold fitsInSmallAtomE
      simp only []
      repeat' split
      all_goals first | exact ⟨_, rfl⟩ | (rename_i heq; split at heq <;> cases heq)
  obtain ⟨r, hr⟩ := h
  simp [fitsInSmallAtom, hr]

/-! ### basic arithmetic of `beNat` / `decodeInt` -/

theorem beNat_nil : beNat [] = 0 := rfl

theorem beNat_append (b : Bytes) (x : UInt8) : beNat (b ++ [x]) = beNat b * 256 + x.toNat := by
  simp [beNat, List.foldl_append]

theorem foldl_be (a : Nat) (b : Bytes) :
    b.foldl (fun a x => a * 256 + x.toNat) a = a * 256 ^ b.length + beNat b := by
  induction b generalizing a with
  | nil => simp [beNat]
  | cons x t ih =>
    simp only [List.foldl_cons, beNat, List.length_cons]
    rw [ih, ih (0 * 256 + x.toNat), Nat.pow_succ]
    generalize 256 ^ t.length = P
    simp only [Nat.zero_mul, Nat.zero_add, Nat.add_mul, Nat.mul_assoc, Nat.mul_comm P 256]
    omega

theorem beNat_cons (x : UInt8) (b : Bytes) :
    beNat (x :: b) = x.toNat * 256 ^ b.length + beNat b := by
  have := foldl_be (0 * 256 + x.toNat) b
  simpa [beNat] using this

theorem beNat_lt (b : Bytes) : beNat b < 256 ^ b.length := by
  induction b with
  | nil => simp [beNat]
  | cons x t ih =>
    rw [beNat_cons, List.length_cons, Nat.pow_succ]
    have hx := u8_lt x
    have : x.toNat * 256 ^ t.length ≤ 255 * 256 ^ t.length := Nat.mul_le_mul_right _ (by omega)
    omega


theorem ipow_cast (n : Nat) : ((256 ^ n : Nat) : Int) = (256 : Int) ^ n := by simp

theorem ipow_pos (n : Nat) : 0 < (256 : Int) ^ n := by
  rw [← ipow_cast]; exact_mod_cast Nat.pow_pos (by omega)

theorem ipow_mono (a b : Nat) (h : a ≤ b) : (256 : Int) ^ a ≤ (256 : Int) ^ b := by
  rw [← ipow_cast, ← ipow_cast]; exact_mod_cast Nat.pow_le_pow_right (by omega) h

/-- `v` is representable in `n` bytes of two's complement -/
def FitsIn (n : Nat) (v : Int) : Prop := -(256 : Int) ^ n ≤ 2 * v ∧ 2 * v < (256 : Int) ^ n

theorem FitsIn.mono {a b : Nat} {v : Int} (h : a ≤ b) (hf : FitsIn a v) : FitsIn b v := by
  have := ipow_mono a b h
  unfold FitsIn at *; omega

/-- head-free description of `decodeInt` -/
theorem decodeInt_eq (b : Bytes) :
    decodeInt b = if 256 ^ b.length ≤ 2 * beNat b then (beNat b : Int) - (256 : Int) ^ b.length
      else (beNat b : Int) := by
  cases b with
  | nil => simp [decodeInt, beNat]
  | cons x t =>
    have hx := u8_lt x
    have hl := beNat_lt t
    have hc := beNat_cons x t
    simp only [decodeInt, List.length_cons]
    rw [Nat.pow_succ]
    by_cases h : 128 ≤ x.toNat
    · have hm : 128 * 256 ^ t.length ≤ x.toNat * 256 ^ t.length := Nat.mul_le_mul_right _ h
      have : 256 ^ t.length * 256 ≤ 2 * beNat (x :: t) := by omega
      simp only [h, this, if_true]
    · have hm : x.toNat * 256 ^ t.length ≤ 127 * 256 ^ t.length :=
        Nat.mul_le_mul_right _ (by omega)
      have : ¬ 256 ^ t.length * 256 ≤ 2 * beNat (x :: t) := by omega
      simp only [h, this, if_false]

theorem decodeInt_range (b : Bytes) : FitsIn b.length (decodeInt b) := by
  have hl := beNat_lt b
  have hc := ipow_cast b.length
  rw [decodeInt_eq]
  unfold FitsIn
  generalize (256 : Int) ^ b.length = Q at *
  generalize 256 ^ b.length = P at *
  split <;> omega

theorem decodeInt_append (b : Bytes) (x : UInt8) (h : b ≠ []) :
    decodeInt (b ++ [x]) = decodeInt b * 256 + x.toNat := by
  cases b with
  | nil => exact absurd rfl h
  | cons y t =>
    have ha := beNat_append (y :: t) x
    have hl : ((y :: t) ++ [x]).length = (y :: t).length + 1 := by simp
    rw [List.cons_append] at *
    unfold decodeInt
    simp only []
    rw [ha, hl, Int.pow_succ]
    generalize (256 : Int) ^ (y :: t).length = Q
    generalize beNat (y :: t) = B
    split <;> omega

/-! ### `encodeNE` -/

theorem encodeNE_small (v : Int) (h : -128 ≤ v ∧ v < 128) :
    encodeNE v = [UInt8.ofNat (v % 256).toNat] := by
  rw [encodeNE]; simp [h]

theorem encodeNE_big (v : Int) (h : ¬ (-128 ≤ v ∧ v < 128)) :
    encodeNE v = encodeNE (v / 256) ++ [UInt8.ofNat (v % 256).toNat] := by
  rw [encodeNE]; simp [h]

theorem encodeNE_ne_nil (v : Int) : encodeNE v ≠ [] := by
  by_cases h : -128 ≤ v ∧ v < 128
  · rw [encodeNE_small v h]; simp
  · rw [encodeNE_big v h]; simp

theorem lastByte_toNat (v : Int) : ((UInt8.ofNat (v % 256).toNat).toNat : Int) = v % 256 := by
  rw [toNat_ofNat_lt _ (by omega)]; omega

theorem decodeInt_encodeNE (v : Int) : decodeInt (encodeNE v) = v := by
  fun_induction encodeNE v with
  | case1 v h =>
    have := lastByte_toNat v
    simp only [decodeInt, beNat, List.foldl_cons, List.foldl_nil, List.length_singleton]
    split <;> omega
  | case2 v h ih =>
    rw [decodeInt_append _ _ (encodeNE_ne_nil _), ih, lastByte_toNat]; omega

theorem decodeInt_encodeInt (v : Int) : decodeInt (encodeInt v) = v := by
  unfold encodeInt
  split
  · subst_vars; rfl
  · exact decodeInt_encodeNE v


/-! ### canonicity, arithmetically -/

theorem mul_bounds (a lo hi P : Nat) (h1 : lo ≤ a) (h2 : a ≤ hi) :
    lo * P ≤ a * P ∧ a * P ≤ hi * P :=
  ⟨Nat.mul_le_mul_right _ h1, Nat.mul_le_mul_right _ h2⟩

theorem canonical_iff (b : Bytes) :
    canonical b = true ↔ (b = [] ∨ ¬ FitsIn (b.length - 1) (decodeInt b)) := by
  match b with
  | [] => simp [canonical]
  | [x] =>
    have hx := u8_lt x
    simp only [canonical, decodeInt, beNat, FitsIn, List.foldl_cons, List.foldl_nil,
      List.length_singleton]
    simp
    split <;> omega
  | x :: y :: t =>
    have hx := u8_lt x
    have hy := u8_lt y
    have hr := beNat_lt t
    have hB : beNat (x :: y :: t) = 256 * (x.toNat * 256 ^ t.length) + y.toNat * 256 ^ t.length
        + beNat t := by
      rw [beNat_cons, beNat_cons, List.length_cons, Nat.pow_succ]
      generalize 256 ^ t.length = P
      rw [← Nat.mul_assoc, Nat.mul_comm 256, Nat.mul_assoc x.toNat, Nat.mul_comm P 256]
      omega
    have hQ2 : (256 : Int) ^ (x :: y :: t).length = 65536 * ((256 ^ t.length : Nat) : Int) := by
      rw [ipow_cast]; simp only [List.length_cons, Int.pow_succ]; omega
    have hQ1 : (256 : Int) ^ ((x :: y :: t).length - 1) = 256 * ((256 ^ t.length : Nat) : Int) := by
      rw [ipow_cast]; simp only [List.length_cons, Nat.add_sub_cancel, Int.pow_succ]; omega
    unfold FitsIn
    rw [hQ1]
    unfold decodeInt
    simp only []
    rw [hQ2, hB]
    simp only [canonical]
    generalize 256 ^ t.length = P at *
    generalize beNat t = r at *
    have hxc : x.toNat = 0 ∨ (1 ≤ x.toNat ∧ x.toNat ≤ 127) ∨ (128 ≤ x.toNat ∧ x.toNat ≤ 254) ∨
      x.toNat = 255 := by omega
    have hyc : y.toNat ≤ 127 ∨ 128 ≤ y.toNat := by omega
    have hxb : ∃ lo hi, lo ≤ x.toNat ∧ x.toNat ≤ hi ∧
        ((lo = 0 ∧ hi = 0) ∨ (lo = 1 ∧ hi = 127) ∨ (lo = 128 ∧ hi = 254) ∨ (lo = 255 ∧ hi = 255)) := by
      rcases hxc with h | h | h | h
      · exact ⟨0, 0, by omega, by omega, by omega⟩
      · exact ⟨1, 127, by omega, by omega, by omega⟩
      · exact ⟨128, 254, by omega, by omega, by omega⟩
      · exact ⟨255, 255, by omega, by omega, by omega⟩
    have hyb : ∃ lo hi, lo ≤ y.toNat ∧ y.toNat ≤ hi ∧
        ((lo = 0 ∧ hi = 127) ∨ (lo = 128 ∧ hi = 255)) := by
      rcases hyc with h | h
      · exact ⟨0, 127, by omega, by omega, by omega⟩
      · exact ⟨128, 255, by omega, by omega, by omega⟩
    obtain ⟨xl, xh, hx1, hx2, hxx⟩ := hxb
    obtain ⟨yl, yh, hy1, hy2, hyy⟩ := hyb
    have hxm := mul_bounds x.toNat xl xh P hx1 hx2
    have hym := mul_bounds y.toNat yl yh P hy1 hy2
    generalize x.toNat * P = xP at *
    generalize y.toNat * P = yP at *
    simp only [Bool.and_eq_true, Bool.not_eq_true', Bool.and_eq_false_iff,
      decide_eq_false_iff_not, beq_eq_false_iff_ne, ne_eq, reduceCtorEq, false_or]
    rcases hxx with ⟨rfl, rfl⟩ | ⟨rfl, rfl⟩ | ⟨rfl, rfl⟩ | ⟨rfl, rfl⟩ <;>
    rcases hyy with ⟨rfl, rfl⟩ | ⟨rfl, rfl⟩ <;>
    (split <;> omega)


theorem encodeNE_length_pos (v : Int) : 0 < (encodeNE v).length :=
  List.length_pos_iff.mpr (encodeNE_ne_nil v)

theorem encodeNE_minimal (v : Int) (hv : v ≠ 0) : ¬ FitsIn ((encodeNE v).length - 1) v := by
  fun_induction encodeNE v with
  | case1 v h => simp [FitsIn]; omega
  | case2 v h ih =>
    simp only [List.length_append, List.length_singleton, Nat.add_sub_cancel]
    by_cases hs : -128 ≤ v / 256 ∧ v / 256 < 128
    · rw [encodeNE_small _ hs]; simp [FitsIn]; omega
    · have ih := ih (by omega)
      rw [encodeNE_big _ hs] at ih ⊢
      simp only [List.length_append, List.length_singleton, Nat.add_sub_cancel] at ih ⊢
      have hp := encodeNE_length_pos (v / 256 / 256)
      generalize (encodeNE (v / 256 / 256)).length = m at *
      obtain ⟨k, rfl⟩ : ∃ k, m = k + 1 := ⟨m - 1, by omega⟩
      have hR := ipow_pos k
      unfold FitsIn at *
      simp only [Int.pow_succ] at *
      generalize (256 : Int) ^ k = R at *
      omega

theorem canonical_encodeInt (v : Int) : canonical (encodeInt v) = true := by
  rw [canonical_iff]
  unfold encodeInt
  split
  · exact Or.inl rfl
  · rename_i hv
    right
    rw [decodeInt_encodeNE]
    exact encodeNE_minimal v hv


/-! ### uniqueness -/

theorem beNat_inj (b1 b2 : Bytes) (hl : b1.length = b2.length) (h : beNat b1 = beNat b2) :
    b1 = b2 := by
  induction b1 generalizing b2 with
  | nil => cases b2 with
    | nil => rfl
    | cons _ _ => simp at hl
  | cons x t ih =>
    cases b2 with
    | nil => simp at hl
    | cons y u =>
      simp only [List.length_cons, Nat.add_right_cancel_iff] at hl
      rw [beNat_cons, beNat_cons, hl] at h
      have h1 := beNat_lt t
      have h2 := beNat_lt u
      rw [hl] at h1
      have hxy : x.toNat = y.toNat := by
        rcases Nat.lt_trichotomy x.toNat y.toNat with hlt | heq | hgt
        · have := Nat.mul_le_mul_right (256 ^ u.length) (show x.toNat + 1 ≤ y.toNat from hlt)
          rw [Nat.add_mul] at this; omega
        · exact heq
        · have := Nat.mul_le_mul_right (256 ^ u.length) (show y.toNat + 1 ≤ x.toNat from hgt)
          rw [Nat.add_mul] at this; omega
      rw [hxy] at h
      have hx : x = y := UInt8.toNat_inj.mp hxy
      rw [hx, ih u hl (by omega)]

theorem decodeInt_inj (b1 b2 : Bytes) (hl : b1.length = b2.length)
    (h : decodeInt b1 = decodeInt b2) : b1 = b2 := by
  apply beNat_inj b1 b2 hl
  have h1 := beNat_lt b1
  have h2 := beNat_lt b2
  have hc := ipow_cast b2.length
  rw [decodeInt_eq, decodeInt_eq, hl] at h
  rw [hl] at h1
  generalize (256 : Int) ^ b2.length = Q at *
  generalize 256 ^ b2.length = P at *
  split at h <;> split at h <;> omega

theorem encodeInt_eq_nil (v : Int) : encodeInt v = [] ↔ v = 0 := by
  unfold encodeInt
  split
  · simp [*]
  · simp [*, encodeNE_ne_nil]

/-- the length of a canonical string is determined by its value -/
theorem canonical_length (b1 b2 : Bytes) (h1 : canonical b1 = true)
    (h : decodeInt b1 = decodeInt b2) : b1.length ≤ b2.length := by
  rw [canonical_iff] at h1
  rcases h1 with rfl | h1
  · simp
  · apply Decidable.byContradiction
    intro hlt
    apply h1
    rw [h]
    exact (decodeInt_range b2).mono (by omega)

theorem encodeInt_decodeInt (b : Bytes) (h : canonical b = true) :
    encodeInt (decodeInt b) = b := by
  have hc := canonical_encodeInt (decodeInt b)
  have hd := decodeInt_encodeInt (decodeInt b)
  apply decodeInt_inj _ _ _ hd
  exact Nat.le_antisymm (canonical_length _ _ hc hd) (canonical_length _ _ h hd.symm)

theorem encodeInt_minimal (b : Bytes) : (encodeInt (decodeInt b)).length ≤ b.length := by
  have hc := canonical_encodeInt (decodeInt b)
  have hd := decodeInt_encodeInt (decodeInt b)
  rw [canonical_iff] at hc
  rcases hc with hc | hc
  · rw [hc]; simp
  · apply Decidable.byContradiction
    intro hlt
    apply hc
    rw [hd]
    exact (decodeInt_range b).mono (by omega)


/-! ### `to_be_bytes` slices -/

theorem toBE_length (k n : Nat) : (toBE k n).length = k := by
  induction k with
  | zero => rfl
  | succ k ih => simp [toBE, ih]

theorem beNat_toBE (k n : Nat) : beNat (toBE k n) = n % 256 ^ k := by
  induction k with
  | zero => simp [toBE, beNat, Nat.mod_one]
  | succ k ih =>
    rw [toBE, beNat_cons, ih, toBE_length, toNat_ofNat_lt _ (Nat.mod_lt _ (by omega)),
      Nat.mod_pow_succ, Nat.mul_comm]
    omega

theorem toBE_drop (k j n : Nat) : (toBE k n).drop j = toBE (k - j) n := by
  induction k generalizing j with
  | zero => simp [toBE]
  | succ k ih =>
    cases j with
    | zero => rfl
    | succ j => rw [toBE, List.drop_succ_cons, ih, Nat.add_sub_add_right]

theorem emod_of_fits (Q w : Int) (h1 : -Q ≤ 2 * w) (h2 : 2 * w < Q) :
    w % Q = if 0 ≤ w then w else w + Q := by
  split
  · exact Int.emod_eq_of_lt (by omega) (by omega)
  · rw [← Int.add_emod_right]
    exact Int.emod_eq_of_lt (by omega) (by omega)

theorem decodeInt_toBE (k n : Nat) (w : Int) (hcong : (n : Int) % (256 : Int) ^ k = w % (256 : Int) ^ k)
    (hfit : FitsIn k w) : decodeInt (toBE k n) = w := by
  have hc := ipow_cast k
  have hB : ((n % 256 ^ k : Nat) : Int) = (n : Int) % (256 : Int) ^ k := by
    rw [← hc]; exact Int.natCast_emod n (256 ^ k)
  unfold FitsIn at hfit
  rw [decodeInt_eq, toBE_length, beNat_toBE]
  rw [hcong, emod_of_fits _ _ hfit.1 hfit.2] at hB
  generalize (256 : Int) ^ k = Q at *
  generalize n % 256 ^ k = B at *
  generalize 256 ^ k = P at *
  split at hB <;> split <;> omega

/-- a `k`-byte big-endian slice is the minimal encoding of `w` as soon as `w` fits in `k` bytes
and not in `k - 1` -/
theorem toBE_enc (k n : Nat) (w : Int)
    (hcong : (n : Int) % (256 : Int) ^ k = w % (256 : Int) ^ k)
    (hfit : FitsIn k w) (hmin : ¬ FitsIn (k - 1) w) : toBE k n = encodeInt w := by
  have hd := decodeInt_toBE k n w hcong hfit
  have hcan : canonical (toBE k n) = true := by
    rw [canonical_iff, toBE_length, hd]; exact Or.inr hmin
  rw [← encodeInt_decodeInt _ hcan, hd]


/-! ### 3./4. the ladders -/

theorem lenForValue_toBE (v : Nat) (h : v < 2 ^ 31) :
    toBE (lenForValue v) v = encodeInt (v : Int) ∧ lenForValue v ≤ 4 := by
  by_cases h0 : v = 0
  · subst h0; simp [lenForValue, toBE, encodeInt]
  by_cases h1 : v < 128
  · have e : lenForValue v = 1 := by
      simp [lenForValue, ladderUp, Gen.lenForValueThresholds, h0, h1]
    rw [e]
    exact ⟨toBE_enc _ _ _ rfl (by unfold FitsIn; omega) (by unfold FitsIn; omega), by omega⟩
  by_cases h2 : v < 32768
  · have e : lenForValue v = 2 := by
      simp [lenForValue, ladderUp, Gen.lenForValueThresholds, h0, h1, h2]
    rw [e]
    exact ⟨toBE_enc _ _ _ rfl (by unfold FitsIn; omega) (by unfold FitsIn; omega), by omega⟩
  by_cases h3 : v < 8388608
  · have e : lenForValue v = 3 := by
      simp [lenForValue, ladderUp, Gen.lenForValueThresholds, h0, h1, h2, h3]
    rw [e]
    exact ⟨toBE_enc _ _ _ rfl (by unfold FitsIn; omega) (by unfold FitsIn; omega), by omega⟩
  have h4 : v < 2147483648 := by omega
  have e : lenForValue v = 4 := by
    simp [lenForValue, ladderUp, Gen.lenForValueThresholds, h0, h1, h2, h3, h4]
  rw [e]
  exact ⟨toBE_enc _ _ _ rfl (by unfold FitsIn; omega) (by unfold FitsIn; omega), by omega⟩

theorem smallBytes_eq (v : Nat) : smallBytes v = toBE (4 - (4 - lenForValue v)) v := by
  unfold smallBytes; rw [toBE_drop]

theorem lenForValue_le4 (v : Nat) (h : v < 2 ^ 31) : lenForValue v ≤ 4 :=
  (lenForValue_toBE v h).2

theorem smallBytes_enc (v : Nat) (h : v < 2 ^ 31) : smallBytes v = encodeInt (v : Int) := by
  have := lenForValue_toBE v h
  rw [smallBytes_eq, ← this.1]
  congr 1; omega

theorem lenForValue_enc (v : Nat) (h : v < 2 ^ 31) :
    lenForValue v = (encodeInt (v : Int)).length := by
  rw [← (lenForValue_toBE v h).1, toBE_length]

theorem smallBytes_length (v : Nat) (h : v < 2 ^ 31) :
    (smallBytes v).length = lenForValue v := by
  rw [smallBytes_enc v h, ← lenForValue_enc v h]

theorem u64Bytes_eq (v : Nat) (h : v < 2 ^ 64) : u64Bytes v = toBE (9 - u64Start v) v := by
  have : (0 : UInt8) :: toBE 8 v = toBE 9 v := by
    have : v / 256 ^ 8 % 256 = 0 := by omega
    conv => rhs; rw [toBE, this]
    rfl
  unfold u64Bytes; rw [this, toBE_drop]

theorem u64Bytes_enc (v : Nat) (h : v < 2 ^ 64) : u64Bytes v = encodeInt (v : Int) := by
  rw [u64Bytes_eq v h]
  by_cases h0 : v = 0
  · subst h0; simp [u64Start, toBE, encodeInt]
  by_cases h1 : v < 128
  · have e : u64Start v = 8 := by
      simp [u64Start, ladderDown, Gen.newU64Thresholds, h0, h1]
    rw [e]
    exact toBE_enc _ _ _ rfl (by unfold FitsIn; omega) (by unfold FitsIn; omega)
  by_cases h2 : v < 32768
  · have e : u64Start v = 7 := by
      simp [u64Start, ladderDown, Gen.newU64Thresholds, h0, h1, h2]
    rw [e]
    exact toBE_enc _ _ _ rfl (by unfold FitsIn; omega) (by unfold FitsIn; omega)
  by_cases h3 : v < 8388608
  · have e : u64Start v = 6 := by
      simp [u64Start, ladderDown, Gen.newU64Thresholds, h0, h1, h2, h3]
    rw [e]
    exact toBE_enc _ _ _ rfl (by unfold FitsIn; omega) (by unfold FitsIn; omega)
  by_cases h4 : v < 2147483648
  · have e : u64Start v = 5 := by
      simp [u64Start, ladderDown, Gen.newU64Thresholds, h0, h1, h2, h3, h4]
    rw [e]
    exact toBE_enc _ _ _ rfl (by unfold FitsIn; omega) (by unfold FitsIn; omega)
  by_cases h5 : v < 549755813888
  · have e : u64Start v = 4 := by
      simp [u64Start, ladderDown, Gen.newU64Thresholds, h0, h1, h2, h3, h4, h5]
    rw [e]
    exact toBE_enc _ _ _ rfl (by unfold FitsIn; omega) (by unfold FitsIn; omega)
  by_cases h6 : v < 140737488355328
  · have e : u64Start v = 3 := by
      simp [u64Start, ladderDown, Gen.newU64Thresholds, h0, h1, h2, h3, h4, h5, h6]
    rw [e]
    exact toBE_enc _ _ _ rfl (by unfold FitsIn; omega) (by unfold FitsIn; omega)
  by_cases h7 : v < 36028797018963968
  · have e : u64Start v = 2 := by
      simp [u64Start, ladderDown, Gen.newU64Thresholds, h0, h1, h2, h3, h4, h5, h6, h7]
    rw [e]
    exact toBE_enc _ _ _ rfl (by unfold FitsIn; omega) (by unfold FitsIn; omega)
  by_cases h8 : v < 9223372036854775808
  · have e : u64Start v = 1 := by
      simp [u64Start, ladderDown, Gen.newU64Thresholds, h0, h1, h2, h3, h4, h5, h6, h7, h8]
    rw [e]
    exact toBE_enc _ _ _ rfl (by unfold FitsIn; omega) (by unfold FitsIn; omega)
  have e : u64Start v = 0 := by
    simp [u64Start, ladderDown, Gen.newU64Thresholds, h0, h1, h2, h3, h4, h5, h6, h7, h8]
  rw [e]
  exact toBE_enc _ _ _ rfl (by unfold FitsIn; omega) (by unfold FitsIn; omega)

theorem i64NegBytes_enc (v : Int) (h1 : -(2 : Int) ^ 63 ≤ v) (h2 : v < 0) :
    i64NegBytes v = encodeInt v := by
  have hn : (((v + (2 : Int) ^ 64).toNat : Nat) : Int) = v + (2 : Int) ^ 64 :=
    Int.toNat_of_nonneg (by omega)
  unfold i64NegBytes
  rw [toBE_drop]
  by_cases g1 : v ≥ -128
  · have e : i64Start v = 7 := by
      simp [i64Start, ladderDownNeg, Gen.newI64Thresholds, g1]
    rw [e]
    exact toBE_enc _ _ _ (by rw [hn]; omega) (by unfold FitsIn; omega) (by unfold FitsIn; omega)
  by_cases g2 : v ≥ -32768
  · have e : i64Start v = 6 := by
      simp [i64Start, ladderDownNeg, Gen.newI64Thresholds, g1, g2]
    rw [e]
    exact toBE_enc _ _ _ (by rw [hn]; omega) (by unfold FitsIn; omega) (by unfold FitsIn; omega)
  by_cases g3 : v ≥ -8388608
  · have e : i64Start v = 5 := by
      simp [i64Start, ladderDownNeg, Gen.newI64Thresholds, g1, g2, g3]
    rw [e]
    exact toBE_enc _ _ _ (by rw [hn]; omega) (by unfold FitsIn; omega) (by unfold FitsIn; omega)
  by_cases g4 : v ≥ -2147483648
  · have e : i64Start v = 4 := by
      simp [i64Start, ladderDownNeg, Gen.newI64Thresholds, g1, g2, g3, g4]
    rw [e]
    exact toBE_enc _ _ _ (by rw [hn]; omega) (by unfold FitsIn; omega) (by unfold FitsIn; omega)
  by_cases g5 : v ≥ -549755813888
  · have e : i64Start v = 3 := by
      simp [i64Start, ladderDownNeg, Gen.newI64Thresholds, g1, g2, g3, g4, g5]
    rw [e]
    exact toBE_enc _ _ _ (by rw [hn]; omega) (by unfold FitsIn; omega) (by unfold FitsIn; omega)
  by_cases g6 : v ≥ -140737488355328
  · have e : i64Start v = 2 := by
      simp [i64Start, ladderDownNeg, Gen.newI64Thresholds, g1, g2, g3, g4, g5, g6]
    rw [e]
    exact toBE_enc _ _ _ (by rw [hn]; omega) (by unfold FitsIn; omega) (by unfold FitsIn; omega)
  by_cases g7 : v ≥ -36028797018963968
  · have e : i64Start v = 1 := by
      simp [i64Start, ladderDownNeg, Gen.newI64Thresholds, g1, g2, g3, g4, g5, g6, g7]
    rw [e]
    exact toBE_enc _ _ _ (by rw [hn]; omega) (by unfold FitsIn; omega) (by unfold FitsIn; omega)
  have e : i64Start v = 0 := by
    simp [i64Start, ladderDownNeg, Gen.newI64Thresholds, g1, g2, g3, g4, g5, g6, g7]
  rw [e]
  exact toBE_enc _ _ _ (by rw [hn]; omega) (by unfold FitsIn; omega) (by unfold FitsIn; omega)


/-! ### 3. `fits_in_small_atom` -/

theorem and128_nat : ∀ n, n < 256 → n &&& 128 = if n < 128 then 0 else 128 := by decide +kernel

theorem and128 (x : UInt8) : x.toNat &&& 128 = if x.toNat < 128 then 0 else 128 :=
  and128_nat _ (u8_lt x)

theorem shiftOrFold_eq (b : Bytes) : shiftOrFold b = beNat b := by
  unfold shiftOrFold beNat
  generalize 0 = a
  induction b generalizing a with
  | nil => rfl
  | cons x t ih => simp only [List.foldl_cons, shl8_or a x.toNat (u8_lt x), ih]

theorem fitsInSmallAtom_core (b : Bytes) (v : Nat) :
    fitsInSmallAtom b = some v ↔
      (canonical b = true ∧ decodeInt b = (v : Int) ∧ v < 2 ^ 26 ∧ b.length ≤ 4) := by
  match b with
  | [] =>
    simp [fitsInSmallAtom, fitsInSmallAtomE, shiftOrFold, canonical, decodeInt]
    omega
  | [a] =>
    have ha := u8_lt a
    simp only [fitsInSmallAtom, fitsInSmallAtomE, shiftOrFold_eq, canonical, decodeInt, beNat, and128,
      List.foldl_cons, List.foldl_nil, List.length_cons, List.length_nil]
    by_cases h0 : a.toNat = 0 <;> by_cases h1 : a.toNat < 128 <;> simp [h0, h1] <;> omega
  | [a, c] =>
    have ha := u8_lt a
    have hc := u8_lt c
    simp only [fitsInSmallAtom, fitsInSmallAtomE, shiftOrFold_eq, canonical, decodeInt, beNat, and128,
      List.foldl_cons, List.foldl_nil, List.length_cons, List.length_nil]
    by_cases h0 : a.toNat = 0 <;> by_cases h1 : a.toNat < 128 <;> by_cases h2 : c.toNat < 128 <;>
      simp [h0, h1, h2] <;> omega
  | [a, c, d] =>
    have ha := u8_lt a
    have hc := u8_lt c
    have hd := u8_lt d
    simp only [fitsInSmallAtom, fitsInSmallAtomE, shiftOrFold_eq, canonical, decodeInt, beNat, and128,
      List.foldl_cons, List.foldl_nil, List.length_cons, List.length_nil]
    by_cases h0 : a.toNat = 0 <;> by_cases h1 : a.toNat < 128 <;> by_cases h2 : c.toNat < 128 <;>
      simp [h0, h1, h2] <;> omega
  | [a, c, d, e] =>
    have ha := u8_lt a
    have hc := u8_lt c
    have hd := u8_lt d
    have he := u8_lt e
    have e128 : (128 ≤ a.toNat) ↔ ¬ a.toNat < 128 := by omega
    simp only [fitsInSmallAtom, fitsInSmallAtomE, shiftOrFold_eq, canonical, decodeInt, beNat, and128,
      List.foldl_cons, List.foldl_nil, List.length_cons, List.length_nil, e128]
    by_cases h0 : a.toNat = 0 <;> by_cases h1 : a.toNat < 128 <;> by_cases h2 : c.toNat < 128 <;>
      by_cases h3 : 3 < a.toNat <;> simp [h0, h1, h2, h3] <;> omega
  | a :: c :: d :: e :: f :: t =>
    simp [fitsInSmallAtom, fitsInSmallAtomE]

theorem fitsInSmallAtom_iff (b : Bytes) (v : Nat) :
    fitsInSmallAtom b = some v ↔ (b = encodeInt (v : Int) ∧ v < 2 ^ 26) := by
  rw [fitsInSmallAtom_core]
  constructor
  · rintro ⟨hc, hd, hv, _⟩
    exact ⟨by rw [← hd, encodeInt_decodeInt b hc], hv⟩
  · rintro ⟨rfl, hv⟩
    refine ⟨canonical_encodeInt _, decodeInt_encodeInt _, hv, ?_⟩
    have hc := canonical_encodeInt (v : Int)
    rw [canonical_iff, decodeInt_encodeInt] at hc
    rcases hc with hc | hc
    · rw [hc]; simp
    · apply Decidable.byContradiction
      intro hlt
      apply hc
      exact FitsIn.mono (a := 4) (by omega) (by unfold FitsIn; omega)


/-! ### 5. `to_signed_bytes_be` + stripping -/

theorem beNat_natBE (n : Nat) : beNat (natBE n) = n := by
  fun_induction natBE n with
  | case1 => rfl
  | case2 n h ih =>
    rw [beNat_append, ih, toNat_ofNat_lt _ (Nat.mod_lt _ (by omega))]; omega

theorem natBE_head (n : Nat) (h : 0 < n) : ∃ x t, natBE n = x :: t ∧ x.toNat ≠ 0 := by
  fun_induction natBE n with
  | case1 => omega
  | case2 n hn ih =>
    by_cases h0 : n / 256 = 0
    · refine ⟨UInt8.ofNat (n % 256), [], ?_, ?_⟩
      · rw [h0, natBE]; simp
      · rw [toNat_ofNat_lt _ (Nat.mod_lt _ (by omega))]; omega
    · obtain ⟨x, t, e, hx⟩ := ih (by omega)
      exact ⟨x, t ++ [UInt8.ofNat (n % 256)], by rw [e]; rfl, hx⟩

theorem allZero_iff (t : Bytes) : t.all (fun x => x.toNat == 0) = true ↔ beNat t = 0 := by
  induction t with
  | nil => simp [beNat]
  | cons x t ih =>
    have hP : 0 < 256 ^ t.length := Nat.pow_pos (by omega)
    rw [List.all_cons, Bool.and_eq_true, ih, beNat_cons, Nat.add_eq_zero_iff, Nat.mul_eq_zero]
    simp only [beq_iff_eq]
    constructor
    · rintro ⟨a, b⟩; exact ⟨Or.inl a, b⟩
    · rintro ⟨a | a, b⟩
      · exact ⟨a, b⟩
      · omega

theorem tc_length (ds : Bytes) (c : Bool) : (twosComplementLE ds c).length = ds.length := by
  induction ds generalizing c with
  | nil => rfl
  | cons d ds ih =>
    unfold twosComplementLE
    split <;> simp [ih]

theorem tc_false (ds : Bytes) :
    beNat (twosComplementLE ds false).reverse + beNat ds.reverse + 1 = 256 ^ ds.length := by
  induction ds with
  | nil => rfl
  | cons d ds ih =>
    have hd := u8_lt d
    simp only [twosComplementLE, List.reverse_cons, beNat_append, List.length_cons, Nat.pow_succ,
      Bool.false_eq_true, if_false]
    rw [toNat_ofNat_lt _ (by omega)]
    omega

theorem tc_true (ds : Bytes) :
    (beNat ds.reverse = 0 → beNat (twosComplementLE ds true).reverse = 0) ∧
    (beNat ds.reverse ≠ 0 →
      beNat (twosComplementLE ds true).reverse + beNat ds.reverse = 256 ^ ds.length) := by
  induction ds with
  | nil => simp [twosComplementLE, beNat]
  | cons d ds ih =>
    have hd := u8_lt d
    have hf := tc_false ds
    simp only [twosComplementLE, List.reverse_cons, beNat_append, List.length_cons, Nat.pow_succ,
      if_true]
    rw [toNat_ofNat_lt _ (Nat.mod_lt _ (by omega))]
    by_cases h0 : d.toNat = 0
    · have : ((255 - d.toNat + 1) % 256 == 0) = true := by simp [h0]
      rw [this]
      omega
    · have : ((255 - d.toNat + 1) % 256 == 0) = false := by
        simp only [beq_eq_false_iff_ne, ne_eq]; omega
      rw [this]
      omega

theorem tcBE_spec (b : Bytes) (h : beNat b ≠ 0) :
    (twosComplementBE b).length = b.length ∧
    beNat (twosComplementBE b) + beNat b = 256 ^ b.length := by
  have := (tc_true b.reverse).2
  rw [List.reverse_reverse, List.length_reverse] at this
  unfold twosComplementBE
  exact ⟨by rw [List.length_reverse, tc_length, List.length_reverse], this h⟩


theorem strip_neg (b : Bytes) (h : decodeInt b < 0) : stripLeadingZeros b = b := by
  cases b with
  | nil => simp [decodeInt] at h
  | cons x t =>
    unfold decodeInt at h
    simp only [] at h
    split at h
    · unfold stripLeadingZeros
      have : (x.toNat == 0) = false := by simp only [beq_eq_false_iff_ne, ne_eq]; omega
      simp [this]
    · omega

/-- the negative case, abstractly: the two's complement of an `n`-byte magnitude `m` with
`256^(n-1) < 2m ≤ 256^n` is already the minimal encoding of `-m` -/
theorem neg_case (bytes : Bytes) (m : Nat) (hm : beNat bytes = m) (hpos : 0 < m)
    (hfit : 2 * m ≤ 256 ^ bytes.length) (hmin : 256 ^ (bytes.length - 1) < 2 * m) :
    stripLeadingZeros (twosComplementBE bytes) = encodeInt (-(m : Int)) := by
  obtain ⟨hl, hs⟩ := tcBE_spec bytes (by omega)
  have hd : decodeInt (twosComplementBE bytes) = -(m : Int) := by
    have hc := ipow_cast bytes.length
    rw [decodeInt_eq, hl]
    generalize (256 : Int) ^ bytes.length = Q at *
    generalize 256 ^ bytes.length = P at *
    split <;> omega
  have hcan : canonical (twosComplementBE bytes) = true := by
    rw [canonical_iff, hd, hl]
    right
    have hc := ipow_cast (bytes.length - 1)
    unfold FitsIn
    generalize (256 : Int) ^ (bytes.length - 1) = Q at *
    generalize 256 ^ (bytes.length - 1) = P at *
    omega
  rw [strip_neg _ (by omega), ← hd, encodeInt_decodeInt _ hcan]

theorem toSigned_zero : stripLeadingZeros (toSignedBytesBE 0) = encodeInt 0 := by
  simp [toSignedBytesBE, bigUintToBytesBE, stripLeadingZeros, encodeInt]

theorem toSigned_pos (v : Int) (hv : 0 < v) (x : UInt8) (t : Bytes)
    (hn : natBE v.natAbs = x :: t) :
    toSignedBytesBE v = if x.toNat > 0x7f then (0 : UInt8) :: x :: t else x :: t := by
  have h1 : v.natAbs ≠ 0 := by omega
  have h2 : ¬ v < 0 := by omega
  simp [toSignedBytesBE, bigUintToBytesBE, h1, h2, hn]

theorem toSigned_neg (v : Int) (hv : v < 0) (x : UInt8) (t : Bytes)
    (hn : natBE v.natAbs = x :: t) :
    toSignedBytesBE v = twosComplementBE
      (if x.toNat > 0x7f ∧ ¬ (x.toNat = 0x80 ∧ beNat t = 0) then (0 : UInt8) :: x :: t
       else x :: t) := by
  have h1 : v.natAbs ≠ 0 := by omega
  have ha := allZero_iff t
  simp only [toSignedBytesBE, bigUintToBytesBE, h1, hv, hn, if_false, decide_true, if_true,
    List.drop_succ_cons, List.drop_zero]
  generalize (List.all t fun x => x.toNat == 0) = A at *
  by_cases hb : beNat t = 0
  · have : A = true := ha.mpr hb
    subst this; simp [hb]
  · have : A = false := by
      cases A with
      | false => rfl
      | true => exact absurd (ha.mp rfl) hb
    subst this; simp [hb]


theorem strip_toSigned_nonneg (v : Int) (h : 0 ≤ v) :
    stripLeadingZeros (toSignedBytesBE v) = encodeInt v := by
  by_cases h0 : v = 0
  · subst h0; exact toSigned_zero
  have hv : 0 < v := by omega
  obtain ⟨x, t, hn, hx⟩ := natBE_head v.natAbs (by omega)
  have hb : beNat (x :: t) = v.natAbs := by rw [← hn, beNat_natBE]
  have hxl := u8_lt x
  rw [toSigned_pos v hv x t hn]
  by_cases h127 : x.toNat > 0x7f
  · rw [if_pos h127]
    have hs : stripLeadingZeros ((0 : UInt8) :: x :: t) = (0 : UInt8) :: x :: t := by
      have : ¬ x.toNat < 128 := by omega
      simp [stripLeadingZeros, and128, this]
    have hcan : canonical ((0 : UInt8) :: x :: t) = true := by
      simp [canonical]; omega
    have hd : decodeInt ((0 : UInt8) :: x :: t) = v := by
      have : beNat ((0 : UInt8) :: x :: t) = beNat (x :: t) := by
        rw [beNat_cons]; simp
      simp only [decodeInt, this, hb]
      simp; omega
    rw [hs, ← hd, encodeInt_decodeInt _ hcan]
  · rw [if_neg h127]
    have hs : stripLeadingZeros (x :: t) = x :: t := by
      unfold stripLeadingZeros
      have : (x.toNat == 0) = false := by simp only [beq_eq_false_iff_ne, ne_eq]; exact hx
      simp [this]
    have hcan : canonical (x :: t) = true := by
      cases t with
      | nil => simp [canonical]; exact hx
      | cons y u => simp [canonical]; omega
    have hd : decodeInt (x :: t) = v := by
      have : ¬ 128 ≤ x.toNat := by omega
      simp only [decodeInt, this, if_false, hb]
      omega
    rw [hs, ← hd, encodeInt_decodeInt _ hcan]

theorem strip_toSigned (v : Int) : stripLeadingZeros (toSignedBytesBE v) = encodeInt v := by
  by_cases h : 0 ≤ v
  · exact strip_toSigned_nonneg v h
  have hv : v < 0 := by omega
  obtain ⟨x, t, hn, hx⟩ := natBE_head v.natAbs (by omega)
  have hb : beNat (x :: t) = v.natAbs := by rw [← hn, beNat_natBE]
  have hxl := u8_lt x
  have hr := beNat_lt t
  have hvm : v = -((v.natAbs : Nat) : Int) := by omega
  rw [beNat_cons] at hb
  rw [toSigned_neg v hv x t hn, hvm]
  generalize v.natAbs = m at *
  have hxP : x.toNat * 256 ^ t.length ≤ 255 * 256 ^ t.length := Nat.mul_le_mul_right _ (by omega)
  have hxP1 : 1 * 256 ^ t.length ≤ x.toNat * 256 ^ t.length := Nat.mul_le_mul_right _ (by omega)
  by_cases hc : x.toNat > 0x7f ∧ ¬ (x.toNat = 0x80 ∧ beNat t = 0)
  · rw [if_pos hc]
    apply neg_case
    · rw [beNat_cons]; simp only [List.length_cons]; rw [beNat_cons]; simp; omega
    · omega
    · simp only [List.length_cons, Nat.pow_succ]
      omega
    · simp only [List.length_cons, Nat.add_sub_cancel, Nat.pow_succ]
      by_cases h128 : x.toNat = 128
      · rw [h128] at hb; omega
      · have := Nat.mul_le_mul_right (256 ^ t.length) (show 129 ≤ x.toNat by omega)
        omega
  · rw [if_neg hc]
    apply neg_case
    · rw [beNat_cons]; omega
    · omega
    · simp only [List.length_cons, Nat.pow_succ]
      by_cases h128 : x.toNat = 128
      · rw [h128] at hb; omega
      · have := Nat.mul_le_mul_right (256 ^ t.length) (show x.toNat ≤ 127 by omega)
        omega
    · simp only [List.length_cons, Nat.add_sub_cancel]
      omega

end Clvm.Alloc
