/-
C19, faithful model, part 4: `update`, `push`, `pop`, `pop2_and_cons` keep the invariant; the loop of
`Serializer::add` on the faithful cache and the legacy decoder in lock step; a single `add` on a
serializer without sentinel (the incremental serializer used as a one-shot serializer) decodes.
-/
import ClvmProofs.Lemmas.TreeCacheUpdate
import ClvmProofs.Lemmas.IncrementalRun

namespace Clvm.TreeCacheProofs
open Clvm Clvm.Serde Clvm.Serde.Backref Clvm.Serde.TraversePath Clvm.Serde.TreeCache Clvm.Backref
open Clvm.Serde.Incremental (Cursor writeAtomCur)
open Clvm.Incremental (CurOk write_ok writeAtomCur_ok deBrOld_backref_token' deBrOld_cons_token new_of_old deBrOld_done)
open Clvm.Serde.Classic (atomEnc)

/-! ### entries change, parents do not grow -/

theorem UInv.shrink {K C} {tc : TC} (h : UInv K C tc) (es : Array NodeEntry) (hsz : es.size = tc.entries.size)
    (hsub : ∀ (X : Nat) (e' : NodeEntry), es[X]? = some e' → ∃ e : NodeEntry, tc.entries[X]? = some e ∧ ∀ x, x ∈ e'.parents → x ∈ e.parents) :
    UInv K C { tc with entries := es } where
  sentinel := h.sentinel
  parents := by
    intro X e' he' P d hm
    obtain ⟨e, he, hs⟩ := hsub X e' he'
    simp only [hsz]
    exact h.parents X e he P d (hs _ hm)
  nodeMap := by intro k i hk; simp only [hsz]; exact h.nodeMap k i hk
  atoms := by intro b i hk; simp only [hsz]; exact h.atoms b i hk
  pairs := by intro l r i hk; simp only [hsz]; exact h.pairs l r i hk

theorem set_sameParents {es : Array NodeEntry} {i : Nat} {e e1 : NodeEntry} (he : es[i]? = some e)
    (hp : ∀ x, x ∈ e1.parents → x ∈ e.parents) :
    (es.set! i e1).size = es.size ∧
    ∀ (X : Nat) (e' : NodeEntry), (es.set! i e1)[X]? = some e' → ∃ e0 : NodeEntry, es[X]? = some e0 ∧ ∀ x, x ∈ e'.parents → x ∈ e0.parents := by
  refine ⟨by simp [Array.set!], ?_⟩
  intro X e' hX
  rw [Array.set!, Array.getElem?_setIfInBounds] at hX
  by_cases hix : i = X
  · subst hix
    rw [if_pos rfl] at hX
    split at hX
    · simp only [Option.some.injEq] at hX; subst hX
      exact ⟨e, he, hp⟩
    · cases hX
  · rw [if_neg hix] at hX
    exact ⟨e', hX, fun _ hx => hx⟩

theorem modEntry_sub {es es' : Array NodeEntry} {i : Nat} {f : NodeEntry → Except Err NodeEntry}
    (hm : modEntry es i f = .ok es')
    (hf : ∀ (e e' : NodeEntry), f e = .ok e' → ∀ x, x ∈ e'.parents → x ∈ e.parents) :
    es'.size = es.size ∧
    ∀ (X : Nat) (e' : NodeEntry), es'[X]? = some e' → ∃ e0 : NodeEntry, es[X]? = some e0 ∧ ∀ x, x ∈ e'.parents → x ∈ e0.parents := by
  unfold modEntry at hm
  cases he : es[i]? with
  | none => simp [he] at hm
  | some e =>
    simp only [he] at hm
    cases hfe : f e with
    | error er => simp [hfe] at hm
    | ok e1 =>
      simp only [hfe, Except.ok.injEq] at hm
      subst hm
      exact set_sameParents he (hf e e1 hfe)

/-! ### `update` without sentinel -/

theorem update_spec {K C} {tc tc' : TC} (h : UInv K C tc) (root : Node) (hk : KOk K root)
    (hu : tc.update root = .ok tc') :
    ∃ C', UInv K C' tc' ∧ (∀ j, j < tc.entries.size → C' j = C j) ∧ tc'.stack = tc.stack := by
  unfold TC.update at hu
  have hsk : tc.sentinelKey = none := by simp [TC.sentinelKey, h.sentinel]
  simp only [hsk] at hu
  cases hl : updateLoop (updateFuel root) [.traverse root] [] tc with
  | error e => simp [hl] at hu
  | ok res =>
    obtain ⟨stack, tc1⟩ := res
    simp only [hl] at hu
    obtain ⟨f', i, tc2, C', h2, st⟩ := updateLoop_traverse K root hk _ _ _ _ _ C h hl
    cases f' with
    | zero => simp [updateLoop] at h2
    | succ f' =>
      simp only [updateLoop, Except.ok.injEq, Prod.mk.injEq] at h2
      obtain ⟨rfl, rfl⟩ := h2
      simp only [List.length_cons, List.length_nil, Nat.zero_add, bne_self_eq_false, Bool.false_eq_true, if_false] at hu
      cases hg : alGet tc2.nodeMap root.key with
      | none => simp [hg] at hu
      | some ri =>
        simp only [hg] at hu
        split at hu
        · cases hu
        · split at hu
          · cases hu
          · rename_i es hm
            cases hx : tc2.serializedNodes.extend es.size with
            | error e => simp [hx] at hu
            | ok sn =>
              simp only [hx, Except.ok.injEq] at hu
              subst hu
              refine ⟨C', ?_, st.same, st.stack⟩
              obtain ⟨s1, s2⟩ := modEntry_sub hm (by
                intro e e' hf x hx
                simp only [Except.ok.injEq] at hf
                subst hf
                simp only [List.append_nil] at hx
                split at hx
                · exact List.mem_of_mem_drop hx
                · exact hx)
              have := st.inv.shrink _ s1 s2
              exact ⟨this.sentinel, this.parents, this.nodeMap, this.atoms, this.pairs⟩

/-! ### `push`, `pop`, `pop2_and_cons` -/

theorem push_spec {K C} {tc tc' : TC} (h : UInv K C tc) (node : Node) (hp : tc.push node = .ok tc') :
    ∃ idx, alGet tc.nodeMap node.key = some idx ∧ tc'.stack.reverse = idx :: tc.stack.reverse ∧ UInv K C tc' := by
  unfold TC.push at hp
  cases hg : alGet tc.nodeMap node.key with
  | none => simp [hg] at hp
  | some idx =>
    simp only [hg] at hp
    cases he : tc.entries[idx]? with
    | none => simp [he] at hp
    | some e =>
      simp only [he] at hp
      obtain ⟨s1, s2⟩ := set_sameParents (e1 := { e with onStack := e.onStack + 1 }) he (fun _ hx => hx)
      have hinv := h.shrink _ s1 s2
      cases hv : visitIf tc.serializedNodes (decide (e.serializedLength ≥ Gen.treeCacheMinSerializedLength)) idx with
      | error er => simp [hv] at hp
      | ok sn =>
        simp only [hv, Except.ok.injEq] at hp
        subst hp
        exact ⟨idx, rfl, by simp, ⟨hinv.sentinel, hinv.parents, hinv.nodeMap, hinv.atoms, hinv.pairs⟩⟩

theorem pop_spec {K C} {tc tc' : TC} (h : UInv K C tc) (hp : tc.pop = .ok tc') :
    ∃ idx, tc.stack.reverse = idx :: tc'.stack.reverse ∧ tc'.nodeMap = tc.nodeMap ∧ UInv K C tc' := by
  unfold TC.pop at hp
  cases hl : tc.stack.getLast? with
  | none => simp [hl] at hp
  | some idx =>
    simp only [hl] at hp
    cases he : tc.entries[idx]? with
    | none => simp [he] at hp
    | some e =>
      simp only [he] at hp
      split at hp
      · cases hp
      · simp only [Except.ok.injEq] at hp
        subst hp
        obtain ⟨s1, s2⟩ := set_sameParents (e1 := { e with onStack := e.onStack - 1 }) he (fun _ hx => hx)
        have hinv := h.shrink _ s1 s2
        refine ⟨idx, ?_, rfl, ⟨hinv.sentinel, hinv.parents, hinv.nodeMap, hinv.atoms, hinv.pairs⟩⟩
        obtain ⟨ys, hys⟩ := List.getLast?_eq_some_iff.mp hl
        show tc.stack.reverse = idx :: tc.stack.dropLast.reverse
        rw [hys]
        simp

/-! ### the serializer loop and the decoder in lock step -/

def opsOfF : List FReadOp → List ParseOp
  | [] => []
  | .parse :: r => .sexp :: opsOfF r
  | .cons _ :: r => .cons :: opsOfF r

/-- what the pending operations will leave on the decoder's value stack; every `Cons(node)` finds the
contents of `node`'s children on top -/
def finalRootF : List FReadOp → List Tree → Tree → Option Tree
  | [], [], root => some root
  | [], _ :: _, _ => none
  | .parse :: ops, t :: ws, root => finalRootF ops ws (Tree.pair t root)
  | .parse :: _, [], _ => none
  | .cons n :: ops, ws, .pair r (.pair l rest) =>
    if Tree.pair l r = n.tree then finalRootF ops ws (Tree.pair (Tree.pair l r) rest) else none
  | .cons _ :: _, _, _ => none

def HeadNotConsF : List FReadOp → Prop
  | .cons _ :: _ => False
  | _ => True

def OpsOk (K : Key → Tree) (ops : List FReadOp) : Prop := ∀ n, FReadOp.cons n ∈ ops → KOk K n

/-- the prefix invariant: the decoder, fed with the bytes written so far, stands at (`pops`, `root`) -/
def PSim (buf : Bytes) (pops : List ParseOp) (root : Tree) : Prop :=
  ∀ rest c, PairInv c → Steps (deBrOld (buf ++ rest) [.sexp] Tree.nil c) (fun c' => deBrOld rest pops root c')

theorem PSim.step {buf tok : Bytes} {pops pops2 : List ParseOp} {root root2 : Tree} (h : PSim buf pops root)
    (ht : ∀ rest c, PairInv c → Steps (deBrOld (tok ++ rest) pops root c) (fun c' => deBrOld rest pops2 root2 c')) :
    PSim (buf ++ tok) pops2 root2 := by
  intro rest c hc
  have := h (tok ++ rest) c hc
  rw [← List.append_assoc] at this
  exact this.trans (fun c1 hc1 => ht rest c1 hc1)

/-- the mirror of the parse stack -/
def M (C : Nat → Tree) (tc : TC) : Tree := mirror C tc.stack.reverse

theorem fPopConses_sim (K : Key → Tree) (C : Nat → Tree) : ∀ (fuel : Nat) (ops : List FReadOp) (tc : TC)
    (ops' : List FReadOp) (tc' : TC) (ws : List Tree) (R : Tree),
    fPopConses fuel ops tc = .ok (ops', tc') → UInv K C tc → OpsOk K ops → finalRootF ops ws (M C tc) = some R →
    UInv K C tc' ∧ OpsOk K ops' ∧ HeadNotConsF ops' ∧ finalRootF ops' ws (M C tc') = some R ∧
    ∀ inp ctr, PairInv ctr →
      Steps (deBrOld inp (opsOfF ops) (M C tc) ctr) (fun c2 => deBrOld inp (opsOfF ops') (M C tc') c2) := by
  intro fuel
  induction fuel with
  | zero => intro ops tc ops' tc' ws R h; simp [fPopConses] at h
  | succ fuel ih =>
    intro ops tc ops' tc' ws R h hinv hok hfr
    cases ops with
    | nil =>
      simp only [fPopConses, Except.ok.injEq, Prod.mk.injEq] at h
      obtain ⟨rfl, rfl⟩ := h
      exact ⟨hinv, hok, trivial, hfr, fun _ _ hc => Steps.refl hc⟩
    | cons op ops =>
      cases op with
      | parse =>
        simp only [fPopConses, Except.ok.injEq, Prod.mk.injEq] at h
        obtain ⟨rfl, rfl⟩ := h
        exact ⟨hinv, hok, trivial, hfr, fun _ _ hc => Steps.refl hc⟩
      | cons node =>
        simp only [fPopConses] at h
        cases hp : tc.pop2AndCons node with
        | error e => simp [hp] at h
        | ok tc3 =>
          simp only [hp] at h
          unfold TC.pop2AndCons at hp
          cases hp1 : tc.pop with
          | error e => simp [hp1] at hp
          | ok tc1 =>
            simp only [hp1] at hp
            cases hp2 : tc1.pop with
            | error e => simp [hp2] at hp
            | ok tc2 =>
              simp only [hp2] at hp
              obtain ⟨ir, e1, n1, i1⟩ := pop_spec hinv hp1
              obtain ⟨il, e2, n2, i2⟩ := pop_spec i1 hp2
              obtain ⟨idx, g3, e3, i3⟩ := push_spec i2 node hp
              have hkn : KOk K node := hok node List.mem_cons_self
              have hci : C idx = node.tree := by
                rw [(i2.nodeMap _ _ g3).2]; exact hkn node (self_mem_subs node)
              have hM : M C tc = Tree.pair (C ir) (Tree.pair (C il) (M C tc2)) := by
                unfold M; rw [e1, e2]; rfl
              have hM3 : M C tc3 = Tree.pair (C idx) (M C tc2) := by
                unfold M; rw [e3]; rfl
              rw [hM] at hfr
              simp only [finalRootF] at hfr
              split at hfr
              · rename_i hchk
                have hfr3 : finalRootF ops ws (M C tc3) = some R := by rw [hM3, hci, ← hchk]; exact hfr
                obtain ⟨j1, j2, j3, j4, j5⟩ := ih ops tc3 ops' tc' ws R h i3
                  (fun n hn => hok n (List.mem_cons_of_mem _ hn)) hfr3
                refine ⟨j1, j2, j3, j4, ?_⟩
                intro inp ctr hc
                rw [hM]
                show Steps (deBrOld inp (.cons :: opsOfF ops) _ ctr) _
                conv => arg 1; unfold deBrOld
                simp only []
                refine (steps_newPair ctr hc _).trans ?_
                intro ca hca
                refine (steps_newPair ca hca _).trans ?_
                intro cb hcb
                have := j5 inp cb hcb
                rw [hM3, hci, ← hchk] at this
                exact this
              · cases hfr

theorem isSentinel_none {tc : TC} (h : tc.sentinel = none) (n : Node) : tc.isSentinel n = false := by
  cases n <;> simp [TC.isSentinel, h]

/-- **the loop of `add`** on a cache without sentinel: it runs to completion, the parse stack then holds
exactly what the pending stacks promised, and the decoder has followed -/
theorem fAddLoop_sim (K : Key → Tree) (C : Nat → Tree) : ∀ (fuel : Nat) (s s' : FSer) (d : Bool) (R : Tree),
    fAddLoop fuel s = .ok (s', d) → UInv K C s.tc → CurOk s.output → (∀ n, n ∈ s.writeStack → KOk K n) →
    OpsOk K s.readOpStack → HeadNotConsF s.readOpStack → PSim s.output.buf (opsOfF s.readOpStack) (M C s.tc) →
    finalRootF s.readOpStack (s.writeStack.map Node.tree) (M C s.tc) = some R →
    d = true ∧ s'.readOpStack = [] ∧ M C s'.tc = R ∧ PSim s'.output.buf [] R ∧ CurOk s'.output := by
  intro fuel
  induction fuel with
  | zero => intro s s' d R h; simp [fAddLoop] at h
  | succ fuel ih =>
    intro s s' d R h hinv hcur hws hok hhead hsim hfr
    unfold fAddLoop at h
    cases hw : s.writeStack with
    | nil =>
      simp only [hw, Except.ok.injEq, Prod.mk.injEq] at h
      obtain ⟨rfl, rfl⟩ := h
      rw [hw] at hfr
      cases hro : s.readOpStack with
      | nil =>
        rw [hro] at hfr hsim
        simp only [List.map_nil, finalRootF, Option.some.injEq] at hfr
        exact ⟨rfl, rfl, hfr, by rw [← hfr]; exact hsim, hcur⟩
      | cons op ops =>
        rw [hro] at hfr hhead
        cases op with
        | parse => simp [finalRootF] at hfr
        | cons _ => exact absurd hhead (by simp [HeadNotConsF])
    | cons node ws =>
      simp only [hw, isSentinel_none hinv.sentinel, Bool.false_eq_true, if_false] at h
      have hkn : KOk K node := hws node (by rw [hw]; exact List.mem_cons_self)
      cases hro : s.readOpStack with
      | nil => simp [hro] at h
      | cons op ops =>
        cases op with
        | cons _ => simp [hro] at h
        | parse =>
          simp only [hro] at h
          rw [hw, hro] at hfr
          rw [hro] at hsim hok
          have hfr' : finalRootF ops (ws.map Node.tree) (Tree.pair node.tree (M C s.tc)) = some R := by
            simpa [finalRootF] using hfr
          cases hfp : s.tc.findPath node with
          | error e => simp [hfp] at h
          | ok fp =>
            simp only [hfp] at h
            cases hem : fEmit { s with writeStack := ws, readOpStack := ops } node fp with
            | error e => simp [hem] at h
            | ok s1 =>
              simp only [hem] at h
              cases hpc : fPopConses (s1.readOpStack.length + 1) s1.readOpStack s1.tc with
              | error e => simp [hpc] at h
              | ok r =>
                obtain ⟨ops', tc'⟩ := r
                simp only [hpc] at h
                -- the state after the token
                have hafter : UInv K C s1.tc ∧ CurOk s1.output ∧ (∀ n, n ∈ s1.writeStack → KOk K n) ∧
                    OpsOk K s1.readOpStack ∧ PSim s1.output.buf (opsOfF s1.readOpStack) (M C s1.tc) ∧
                    finalRootF s1.readOpStack (s1.writeStack.map Node.tree) (M C s1.tc) = some R := by
                  have hwsk : ∀ n, n ∈ ws → KOk K n := fun n hn => hws n (by rw [hw]; exact List.mem_cons_of_mem _ hn)
                  have hopk : OpsOk K ops := fun n hn => hok n (List.mem_cons_of_mem _ hn)
                  cases fp with
                  | some path =>
                    simp only [fEmit] at hem
                    obtain ⟨hb1, hc1⟩ := write_ok hcur [Classic.u8 Gen.incBackReference]
                    cases hwa : writeAtomCur (s.output.write [Classic.u8 Gen.incBackReference]) path with
                    | error e => simp [hwa] at hem
                    | ok out2 =>
                      simp only [hwa] at hem
                      cases hpu : s.tc.push node with
                      | error e => simp [hpu] at hem
                      | ok tc2 =>
                        simp only [hpu, Except.ok.injEq] at hem
                        subst hem
                        obtain ⟨hpl, hb2, hc2⟩ := writeAtomCur_ok hc1 hwa
                        obtain ⟨idx, g, est, i2⟩ := push_spec hinv node hpu
                        obtain ⟨idx', g', cost, htp⟩ := findPath_sound C s.tc hinv.parentsSound node path hfp
                        rw [g] at g'
                        simp only [Option.some.injEq] at g'
                        subst g'
                        have hci : C idx = node.tree := by
                          rw [(hinv.nodeMap _ _ g).2]; exact hkn node (self_mem_subs node)
                        have hM2 : M C tc2 = Tree.pair node.tree (M C s.tc) := by
                          unfold M; rw [est, ← hci]; rfl
                        refine ⟨i2, hc2, hwsk, hopk, ?_, by rw [hM2]; exact hfr'⟩
                        have hbuf : out2.buf = s.output.buf ++ (UInt8.ofNat Gen.deBrBackReference :: atomEnc path) := by
                          rw [hb2, hb1]
                          have : Classic.u8 Gen.incBackReference = UInt8.ofNat Gen.deBrBackReference := by decide
                          rw [this]; simp
                        show PSim out2.buf (opsOfF ops) (M C tc2)
                        rw [hbuf, hM2]
                        refine hsim.step (fun rest c hcc => ?_)
                        rw [hci] at htp
                        have := deBrOld_backref_token' (M C s.tc) node.tree path cost htp hpl rest (opsOfF ops) c hcc
                        simpa [opsOfF, M] using this
                  | none =>
                    cases node with
                    | pair id l r =>
                      simp only [fEmit, Except.ok.injEq] at hem
                      subst hem
                      obtain ⟨hb1, hc1⟩ := write_ok hcur [Classic.u8 Gen.incConsBoxMarker]
                      refine ⟨hinv, hc1, ?_, ?_, ?_, ?_⟩
                      · intro n hn
                        simp only [List.mem_cons] at hn
                        rcases hn with rfl | rfl | hn
                        · exact hkn.left
                        · exact hkn.right
                        · exact hwsk n hn
                      · intro n hn
                        simp only [List.mem_cons, reduceCtorEq, false_or] at hn
                        rcases hn with hn | hn
                        · cases hn; exact hkn
                        · exact hopk n hn
                      · have hbuf : (s.output.write [Classic.u8 Gen.incConsBoxMarker]).buf =
                            s.output.buf ++ [UInt8.ofNat Gen.deBrConsBoxMarker] := by
                          rw [hb1]
                          have : Classic.u8 Gen.incConsBoxMarker = UInt8.ofNat Gen.deBrConsBoxMarker := by decide
                          rw [this]
                        show PSim (s.output.write [Classic.u8 Gen.incConsBoxMarker]).buf
                          (opsOfF (.parse :: .parse :: .cons (.pair id l r) :: ops)) (M C s.tc)
                        rw [hbuf]
                        refine hsim.step (fun rest c hcc => ?_)
                        have := deBrOld_cons_token (M C s.tc) rest (opsOfF ops) c hcc
                        simpa [opsOfF] using this
                      · show finalRootF (.parse :: .parse :: .cons (.pair id l r) :: ops)
                          ((l :: r :: ws).map Node.tree) (M C s.tc) = some R
                        simpa [finalRootF, Node.tree] using hfr'
                    | atom a =>
                      simp only [fEmit] at hem
                      cases hwa : writeAtomCur s.output a with
                      | error e => simp [hwa] at hem
                      | ok out1 =>
                        simp only [hwa] at hem
                        cases hpu : s.tc.push (.atom a) with
                        | error e => simp [hpu] at hem
                        | ok tc2 =>
                          simp only [hpu, Except.ok.injEq] at hem
                          subst hem
                          obtain ⟨hal, hb1, hc1⟩ := writeAtomCur_ok hcur hwa
                          obtain ⟨idx, g, est, i2⟩ := push_spec hinv (.atom a) hpu
                          have hci : C idx = Tree.atom a := by
                            rw [(hinv.nodeMap _ _ g).2]; exact hkn (.atom a) (self_mem_subs _)
                          have hM2 : M C tc2 = Tree.pair (Tree.atom a) (M C s.tc) := by
                            unfold M; rw [est, ← hci]; rfl
                          refine ⟨i2, hc1, hwsk, hopk, ?_, by rw [hM2]; exact hfr'⟩
                          show PSim out1.buf (opsOfF ops) (M C tc2)
                          rw [hb1, hM2]
                          refine hsim.step (fun rest c hcc => ?_)
                          have := deBrOld_atom_token a hal rest (opsOfF ops) (M C s.tc) c hcc
                          simpa [opsOfF] using this
                obtain ⟨a1, a2, a3, a4, a5, a6⟩ := hafter
                obtain ⟨j1, j2, j3, j4, j5⟩ := fPopConses_sim K C _ _ _ _ _ _ R hpc a1 a4 a6
                refine ih _ s' d R h j1 a2 a3 j2 j3 ?_ j4
                intro rest c hcc
                exact (a5 rest c hcc).trans (fun c1 hc1 => j5 rest c1 hc1)

/-! ### a single `add` on a serializer without sentinel -/

theorem uinv_new (K : Key → Tree) : UInv K (fun _ => Tree.nil) (TC.new none) where
  sentinel := rfl
  parents := by intro X e he; simp [TC.new] at he
  nodeMap := by intro k i h; simp [TC.new, alGet] at h
  atoms := by intro b i h; simp [TC.new, alGet] at h
  pairs := by intro l r i h; simp [TC.new, alGet] at h

/-- **The faithful model used as a one-shot serializer**: a serializer without sentinel, one `add` of a
node whose `NodePtr`s determine their contents (`KOk`).  If the call returns, it reports completion,
`into_inner` is allowed, and the bytes decode — legacy and current decoder, followed by any bytes, from
any allocator state short of its limits — to the tree of the node. -/
theorem single_add_decodes (K : Key → Tree) (node : Node) (hk : KOk K node) (s' : FSer) (d : Bool) (u : FUndo)
    (h : (FSer.new none).add node = .ok (s', d, u)) :
    d = true ∧ s'.readOpStack = [] ∧
    ∀ (rest : Bytes) (c : Ctr), c.pairs + c.ghostPairs ≤ Gen.maxNumPairs →
      ((∃ e, deBrOld (s'.output.buf ++ rest) [.sexp] Tree.nil c = .error e ∧ limitErr e) ∨
        ∃ c', deBrOld (s'.output.buf ++ rest) [.sexp] Tree.nil c = .ok (node.tree, rest, c')) ∧
      ((∃ e, deBrNew (s'.output.buf ++ rest) [.sexp] [] c = .error e ∧ limitErr e) ∨
        ∃ c', deBrNew (s'.output.buf ++ rest) [.sexp] [] c = .ok (node.tree, rest, c')) := by
  unfold FSer.add at h
  simp only [FSer.new, List.isEmpty_cons, Bool.false_eq_true, if_false] at h
  cases hu : (TC.new none).update node with
  | error e => simp [hu] at h
  | ok tc1 =>
    simp only [hu] at h
    obtain ⟨C, i1, _, hst⟩ := update_spec (uinv_new K) node hk hu
    have hf : ([node].map Node.size).sum + 2 = node.size + 2 := by simp
    rw [hf] at h
    cases hl : fAddLoop (node.size + 2)
        { readOpStack := [.parse], writeStack := [node], tc := tc1, output := { buf := [], pos := 0 } } with
    | error e => rw [hl] at h; cases h
    | ok r =>
      obtain ⟨s1, d1⟩ := r
      rw [hl] at h
      simp only [Except.ok.injEq, Prod.mk.injEq] at h
      obtain ⟨rfl, rfl, _⟩ := h
      have hM : M C tc1 = Tree.nil := by unfold M; rw [hst]; rfl
      obtain ⟨r1, r2, _, r4, _⟩ := fAddLoop_sim K C _ _ s1 d1 (Tree.pair node.tree Tree.nil) hl i1 rfl
        (by intro n hn; simp only [List.mem_singleton] at hn; subst hn; exact hk)
        (by intro n hn; simp at hn) trivial
        (by
          show PSim [] [.sexp] (M C tc1)
          rw [hM]
          intro rest c hc
          exact Steps.refl hc)
        (by
          show finalRootF [.parse] ([node].map Node.tree) (M C tc1) = _
          rw [hM]; rfl)
      refine ⟨r1, r2, fun rest c hc => ?_⟩
      have hold : (∃ e, deBrOld (s1.output.buf ++ rest) [.sexp] Tree.nil c = .error e ∧ limitErr e) ∨
          ∃ c', deBrOld (s1.output.buf ++ rest) [.sexp] Tree.nil c = .ok (node.tree, rest, c') := by
        rcases r4 rest c hc with ⟨e, he, hle⟩ | ⟨c', _, he⟩
        · exact .inl ⟨e, he, hle⟩
        · exact .inr ⟨c', by rw [he]; exact deBrOld_done node.tree rest c'⟩
      exact ⟨hold, new_of_old _ c hc node.tree rest hold⟩

/-! ### the nodes the harness builds satisfy `KOk` -/

/-- contents of the keys of `adds:` nodes -/
def KShared : Key → Tree
  | .atom b => .atom b
  | .shared t => t
  | .fresh _ => Tree.nil

theorem labelShared_tree : ∀ (t : Tree), (labelShared t).tree = t := by
  intro t
  induction t with
  | atom b => rfl
  | pair l r ihl ihr => simp [labelShared, Node.tree, ihl, ihr]

theorem subs_labelShared : ∀ (t : Tree) (s : Node), s ∈ subs (labelShared t) → ∃ t', s = labelShared t' := by
  intro t
  induction t with
  | atom b => intro s hs; simp [labelShared, subs] at hs; exact ⟨.atom b, hs⟩
  | pair l r ihl ihr =>
    intro s hs
    simp only [labelShared, subs, List.mem_cons, List.mem_append] at hs
    rcases hs with rfl | hs | hs
    · exact ⟨.pair l r, rfl⟩
    · exact ihl s hs
    · exact ihr s hs

theorem kOk_labelShared (t : Tree) : KOk KShared (labelShared t) := by
  intro s hs
  obtain ⟨t', rfl⟩ := subs_labelShared t s hs
  cases t' with
  | atom b => rfl
  | pair l r => simp [labelShared, Node.key, Node.tree, KShared]

end Clvm.TreeCacheProofs
