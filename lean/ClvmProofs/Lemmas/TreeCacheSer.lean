/-
C19, faithful model, part 4: `update`, `push`, `pop`, `pop2_and_cons` keep the invariant; the loop of
`Serializer::add` on the faithful cache and the legacy decoder in lock step; a single `add` on a
serializer without sentinel (the incremental serializer used as a one-shot serializer) decodes.
-/
import ClvmProofs.Lemmas.TreeCacheUpdate
import ClvmProofs.Lemmas.IncrementalRun

namespace Clvm.TreeCacheProofs
open Clvm Clvm.Serde Clvm.Serde.Backref Clvm.Serde.TraversePath Clvm.Serde.TreeCache Clvm.Backref
open Clvm.Serde.Incremental (Cursor writeAtomCur)
open Clvm.Incremental (CurOk write_ok writeAtomCur_ok deBrOld_backref_token' deBrOld_cons_token new_of_old deBrOld_done)
open Clvm.Serde.Classic (atomEnc)

/-! ### entries change, parents do not grow -/

theorem UInv.shrink {sent K C} {tc : TC} (h : UInv sent K C tc) (es : Array NodeEntry) (hsz : es.size = tc.entries.size)
    (hsub : ∀ (X : Nat) (e' : NodeEntry), es[X]? = some e' → ∃ e : NodeEntry, tc.entries[X]? = some e ∧
      e'.serializedLength = e.serializedLength ∧ ∀ x, x ∈ e'.parents → x ∈ e.parents) :
    UInv sent K C { tc with entries := es } where
  sentinel := h.sentinel
  parents := by
    intro X e' he' P d hm
    obtain ⟨e, he, _, hs⟩ := hsub X e' he'
    simp only [hsz]
    exact h.parents X e he P d (hs _ hm)
  nodeMap := by intro k i hk; simp only [hsz]; exact h.nodeMap k i hk
  atoms := by intro b i hk; simp only [hsz]; exact h.atoms b i hk
  pairs := by intro l r i hk; simp only [hsz]; exact h.pairs l r i hk
  slZero := by
    intro m hm i e' he' hc
    obtain ⟨e, he, hsl, _⟩ := hsub i e' he'
    rw [hsl]; exact h.slZero m hm i e he hc

theorem set_sameParents {es : Array NodeEntry} {i : Nat} {e e1 : NodeEntry} (he : es[i]? = some e)
    (hsl : e1.serializedLength = e.serializedLength) (hp : ∀ x, x ∈ e1.parents → x ∈ e.parents) :
    (es.set! i e1).size = es.size ∧
    ∀ (X : Nat) (e' : NodeEntry), (es.set! i e1)[X]? = some e' → ∃ e0 : NodeEntry, es[X]? = some e0 ∧
      e'.serializedLength = e0.serializedLength ∧ ∀ x, x ∈ e'.parents → x ∈ e0.parents := by
  refine ⟨by simp [Array.set!], ?_⟩
  intro X e' hX
  rw [Array.set!, Array.getElem?_setIfInBounds] at hX
  by_cases hix : i = X
  · subst hix
    rw [if_pos rfl] at hX
    split at hX
    · simp only [Option.some.injEq] at hX; subst hX
      exact ⟨e, he, hsl, hp⟩
    · cases hX
  · rw [if_neg hix] at hX
    exact ⟨e', hX, rfl, fun _ hx => hx⟩

/-! ### substitution of the pending sentinel -/

/-- replace every marker atom -/
def substAll (m : Bytes) (x : Tree) : Tree → Tree
  | .atom b => if b = m then x else .atom b
  | .pair l r => .pair (substAll m x l) (substAll m x r)

/-- the refinement of contents when the tree `x` is added: the pending sentinel becomes `x` -/
def sigma (sent : Option Bytes) (x : Tree) : Tree → Tree :=
  match sent with
  | some m => substAll m x
  | none => id

theorem substAll_clean (m : Bytes) (x : Tree) : ∀ (t : Tree), cnt m t = 0 → substAll m x t = t := by
  intro t
  induction t with
  | atom b =>
    intro h
    simp only [cnt] at h
    split at h
    · cases h
    · rename_i hb; simp [substAll, hb]
  | pair l r ihl ihr =>
    intro h
    simp only [cnt] at h
    simp only [substAll, ihl (by omega), ihr (by omega)]

theorem child_sigma {sent : Option Bytes} {x t u : Tree} {d : Bool} (h : child t d = some u) :
    child (sigma sent x t) d = some (sigma sent x u) := by
  cases sent with
  | none => exact h
  | some m =>
    cases t with
    | atom b => simp [child] at h
    | pair l r =>
      cases d <;> simp only [child, Option.some.injEq] at h <;> subst h <;> rfl

/-- the invariant survives the refinement of all contents -/
theorem UInv.refine {sent K C} {tc : TC} (h : UInv sent K C tc) (x : Tree)
    (hx : ∀ m, sent = some m → cnt m x ≤ 1) :
    UInv sent (fun k => sigma sent x (K k)) (fun i => sigma sent x (C i)) tc where
  sentinel := h.sentinel
  parents := by
    intro X e he P d hm
    obtain ⟨p1, p2⟩ := h.parents X e he P d hm
    exact ⟨p1, child_sigma p2⟩
  nodeMap := by
    intro k i hk
    obtain ⟨p1, p2⟩ := h.nodeMap k i hk
    exact ⟨p1, fun hs => by simp only [p2 hs]⟩
  atoms := by
    intro b i hk
    obtain ⟨p1, p2, p3⟩ := h.atoms b i hk
    refine ⟨p1, ?_, p3⟩
    simp only [p2]
    cases sent with
    | none => rfl
    | some m =>
      have : b ≠ m := fun e => p3 (by rw [e])
      simp [sigma, substAll, this]
  pairs := by
    intro l r i hk
    obtain ⟨p1, p2, p3, p4⟩ := h.pairs l r i hk
    refine ⟨p1, p2, p3, ?_⟩
    simp only [p4]
    cases sent <;> rfl
  slZero := by
    intro m hm i e he hc
    apply h.slZero m hm i e he
    -- a content that contains the marker after the substitution contained it before
    subst hm
    simp only [sigma] at hc
    cases hz : cnt m (C i) with
    | zero => rw [substAll_clean m x _ hz, hz] at hc; omega
    | succ n => omega

theorem UInv.changeK {sent K C} {tc : TC} (h : UInv sent K C tc) (K' : Key → Tree)
    (hagree : ∀ k i, alGet tc.nodeMap k = some i → ¬ IsSK sent k → K' k = K k) : UInv sent K' C tc where
  sentinel := h.sentinel
  parents := h.parents
  nodeMap := by
    intro k i hk
    obtain ⟨p1, p2⟩ := h.nodeMap k i hk
    exact ⟨p1, fun hs => by rw [p2 hs, hagree k i hk hs]⟩
  atoms := h.atoms
  pairs := h.pairs
  slZero := h.slZero

theorem modEntry_sub {es es' : Array NodeEntry} {i : Nat} {f : NodeEntry → Except Err NodeEntry}
    (hm : modEntry es i f = .ok es')
    (hf : ∀ (e e' : NodeEntry), f e = .ok e' → e'.serializedLength = e.serializedLength ∧ ∀ x, x ∈ e'.parents → x ∈ e.parents) :
    es'.size = es.size ∧
    ∀ (X : Nat) (e' : NodeEntry), es'[X]? = some e' → ∃ e0 : NodeEntry, es[X]? = some e0 ∧
      e'.serializedLength = e0.serializedLength ∧ ∀ x, x ∈ e'.parents → x ∈ e0.parents := by
  unfold modEntry at hm
  cases he : es[i]? with
  | none => simp [he] at hm
  | some e =>
    simp only [he] at hm
    cases hfe : f e with
    | error er => simp [hfe] at hm
    | ok e1 =>
      simp only [hfe, Except.ok.injEq] at hm
      subst hm
      exact set_sameParents he (hf e e1 hfe).1 (hf e e1 hfe).2

/-! ### `update` -/

/-- taking the root parents: the invariant stays, the taken links point at the sentinel entry -/
theorem takeRootParents_spec {sent K C} {tc : TC} (h : UInv sent K C tc) :
    UInv sent K C tc.takeRootParents.2 ∧ tc.takeRootParents.2.entries.size = tc.entries.size ∧
    tc.takeRootParents.2.nodeMap = tc.nodeMap ∧ tc.takeRootParents.2.stack = tc.stack ∧
    (∀ P d, (P, d) ∈ tc.takeRootParents.1 → ∃ m s0, sent = some m ∧ alGet tc.nodeMap (Key.atom m) = some s0 ∧
      P < tc.entries.size ∧ child (C P) d = some (C s0)) := by
  unfold TC.takeRootParents
  cases hs : tc.sentinelKey with
  | none => refine ⟨h, ?_, ?_, ?_, ?_⟩ <;> simp
  | some k =>
    simp only []
    cases hg : alGet tc.nodeMap k with
    | none => refine ⟨h, ?_, ?_, ?_, ?_⟩ <;> simp
    | some idx =>
      simp only []
      cases he : tc.entries[idx]? with
      | none => refine ⟨h, ?_, ?_, ?_, ?_⟩ <;> simp
      | some e =>
        simp only []
        obtain ⟨s1, s2⟩ := set_sameParents (e1 := { e with parents := [] }) he rfl (fun _ hx => by cases hx)
        have hinv := h.shrink _ s1 s2
        refine ⟨⟨hinv.sentinel, hinv.parents, hinv.nodeMap, hinv.atoms, hinv.pairs, hinv.slZero⟩, s1, trivial, trivial, ?_⟩
        intro P d hm
        unfold TC.sentinelKey at hs
        cases hsen : tc.sentinel with
        | none => simp [hsen] at hs
        | some m =>
          simp only [hsen, Option.map_some, Option.some.injEq] at hs
          subst hs
          obtain ⟨p1, p2⟩ := h.parents idx e he P d hm
          exact ⟨m, idx, by rw [← h.sentinel]; exact hsen, hg, p1, p2⟩

theorem mem_extendParents {e : NodeEntry} {rp : List (Nat × Bool)} {x : Nat × Bool}
    (h : x ∈ (extendParents e rp).parents) : x ∈ e.parents ∨ x ∈ rp := by
  unfold extendParents at h
  simp only [] at h
  split at h
  · exact List.mem_append.mp (List.mem_of_mem_drop h)
  · exact List.mem_append.mp h

/-- **`update()` keeps the invariant**, with all contents refined by the added tree: `K'` is the new
key-content function — right for the nodes of `root`, and the refinement of `K` on what was registered. -/
theorem update_spec {sent K C} {tc tc' : TC} (h : UInv sent K C tc) (root : Node) (K' : Key → Tree)
    (hk : KOk K' root) (hx : ∀ m, sent = some m → cnt m root.tree ≤ 1)
    (hagree : ∀ k i, alGet tc.nodeMap k = some i → ¬ IsSK sent k → K' k = sigma sent root.tree (K k))
    (hpend : ∀ m s0, sent = some m → alGet tc.nodeMap (Key.atom m) = some s0 → C s0 = Tree.atom m)
    (hu : tc.update root = .ok tc') :
    ∃ C', UInv sent K' C' tc' ∧ (∀ j, j < tc.entries.size → C' j = sigma sent root.tree (C j)) ∧
      tc'.stack = tc.stack ∧ tc.entries.size ≤ tc'.entries.size ∧
      (∀ k, alGet tc'.nodeMap k ≠ none → alGet tc.nodeMap k ≠ none ∨ ∃ s, s ∈ subs root ∧ s.key = k) ∧
      (∀ m j, sent = some m → alGet tc'.nodeMap (Key.atom m) = some j →
        alGet tc.nodeMap (Key.atom m) = some j ∨ C' j = Tree.atom m) ∧
      (∀ m, sent = some m → cnt m root.tree = 1 →
        (∀ s, s ∈ subs root → IsPair s → cnt m s.tree ≥ 1 → alGet tc.nodeMap s.key = none) →
        ∃ j, alGet tc'.nodeMap (Key.atom m) = some j ∧ C' j = Tree.atom m) := by
  unfold TC.update at hu
  obtain ⟨t1, t2, t3, t4, t5⟩ := takeRootParents_spec h
  generalize tc.takeRootParents = rp at hu t1 t2 t3 t4 t5
  simp only [] at hu
  -- refine the contents, switch to the new key-content function
  have hinv1 : UInv sent K' (fun i => sigma sent root.tree (C i)) rp.2 :=
    (t1.refine root.tree hx).changeK K' (by
      intro k i hki hns
      rw [t3] at hki
      exact hagree k i hki hns)
  cases hl : updateLoop (updateFuel root) [.traverse root] [] rp.2 with
  | error e => simp [hl] at hu
  | ok res =>
    obtain ⟨stack, tc1⟩ := res
    simp only [hl] at hu
    obtain ⟨f', i, tc2, C', h2, st⟩ := updateLoop_traverse sent K' root hk _ _ _ _ _ _ hinv1 hl
    cases f' with
    | zero => simp [updateLoop] at h2
    | succ f' =>
      simp only [updateLoop, Except.ok.injEq, Prod.mk.injEq] at h2
      obtain ⟨rfl, rfl⟩ := h2
      simp only [List.length_cons, List.length_nil, Nat.zero_add, bne_self_eq_false, Bool.false_eq_true, if_false] at hu
      cases hg : alGet tc2.nodeMap root.key with
      | none => simp [hg] at hu
      | some ri =>
        simp only [hg] at hu
        split at hu
        · cases hu
        · split at hu
          · cases hu
          · rename_i es hm
            cases hxs : tc2.serializedNodes.extend es.size with
            | error e => simp [hxs] at hu
            | ok sn =>
              simp only [hxs, Except.ok.injEq] at hu
              subst hu
              have hsame : ∀ j, j < tc.entries.size → C' j = sigma sent root.tree (C j) :=
                fun j hj => st.same j (by rw [t2]; exact hj)
              -- the root entry with the taken parents added
              have hsz : es.size = tc2.entries.size := modEntry_size hm
              have hinv2 : UInv sent K' C' { tc2 with entries := es } := by
                unfold modEntry at hm
                cases he : tc2.entries[i]? with
                | none => simp [he] at hm
                | some e =>
                  simp only [he, Except.ok.injEq] at hm
                  subst hm
                  refine ⟨st.inv.sentinel, ?_, ?_, ?_, ?_, ?_⟩
                  · intro Y e' he' P d hmem
                    simp only [hsz]
                    rw [Array.set!, Array.getElem?_setIfInBounds] at he'
                    by_cases hiy : i = Y
                    · subst hiy
                      rw [if_pos rfl] at he'
                      split at he'
                      · simp only [Option.some.injEq] at he'; subst he'
                        rcases mem_extendParents hmem with h1 | h1
                        · exact st.inv.parents i e he P d h1
                        · obtain ⟨m, s0, hm', hs0, hP, hch⟩ := t5 P d h1
                          have hg' := st.grow
                          refine ⟨by rw [t2] at hg'; omega, ?_⟩
                          rw [hsame P hP, st.content]
                          have := child_sigma (sent := sent) (x := root.tree) hch
                          rw [hpend m s0 hm' hs0] at this
                          rw [this]
                          subst hm'
                          simp [sigma, substAll]
                      · cases he'
                    · rw [if_neg hiy] at he'
                      exact st.inv.parents Y e' he' P d hmem
                  · intro k j hk'; simp only [hsz]; exact st.inv.nodeMap k j hk'
                  · intro b j hk'; simp only [hsz]; exact st.inv.atoms b j hk'
                  · intro l r j hk'; simp only [hsz]; exact st.inv.pairs l r j hk'
                  · intro m hm' j e' he' hc
                    rw [Array.set!, Array.getElem?_setIfInBounds] at he'
                    by_cases hiy : i = j
                    · subst hiy
                      rw [if_pos rfl] at he'
                      split at he'
                      · simp only [Option.some.injEq] at he'; subst he'
                        exact st.inv.slZero m hm' i e he hc
                      · cases he'
                    · rw [if_neg hiy] at he'
                      exact st.inv.slZero m hm' j e' he' hc
              refine ⟨C', ⟨hinv2.sentinel, hinv2.parents, hinv2.nodeMap, hinv2.atoms, hinv2.pairs, hinv2.slZero⟩, hsame,
                by rw [st.stack, t4], ?_, ?_, ?_, ?_⟩
              · show tc.entries.size ≤ es.size
                rw [hsz, ← t2]; exact st.grow
              · intro k hne
                rcases st.fresh k hne with hh | hh
                · rw [t3] at hh; exact .inl hh
                · exact .inr hh
              · intro m j hm' hj
                rcases st.sentNew m j hm' hj with hh | ⟨_, hc⟩
                · rw [t3] at hh; exact .inl hh
                · exact .inr hc
              · intro m hm' hc hun
                obtain ⟨j, g, _, c⟩ := st.sentHit m hm' hc (fun s hs hp hcs => by rw [t3]; exact hun s hs hp hcs)
                exact ⟨j, g, c⟩

/-! ### `push`, `pop`, `pop2_and_cons` -/

theorem push_spec {sent K C} {tc tc' : TC} (h : UInv sent K C tc) (node : Node) (hp : tc.push node = .ok tc') :
    ∃ idx, alGet tc.nodeMap node.key = some idx ∧ tc'.stack.reverse = idx :: tc.stack.reverse ∧
      tc'.nodeMap = tc.nodeMap ∧ UInv sent K C tc' ∧ tc'.entries.size = tc.entries.size := by
  unfold TC.push at hp
  cases hg : alGet tc.nodeMap node.key with
  | none => simp [hg] at hp
  | some idx =>
    simp only [hg] at hp
    cases he : tc.entries[idx]? with
    | none => simp [he] at hp
    | some e =>
      simp only [he] at hp
      obtain ⟨s1, s2⟩ := set_sameParents (e1 := { e with onStack := e.onStack + 1 }) he rfl (fun _ hx => hx)
      have hinv := h.shrink _ s1 s2
      cases hv : visitIf tc.serializedNodes (decide (e.serializedLength ≥ Gen.treeCacheMinSerializedLength)) idx with
      | error er => simp [hv] at hp
      | ok sn =>
        simp only [hv, Except.ok.injEq] at hp
        subst hp
        exact ⟨idx, rfl, by simp, rfl, ⟨hinv.sentinel, hinv.parents, hinv.nodeMap, hinv.atoms, hinv.pairs, hinv.slZero⟩, s1⟩

theorem pop_spec {sent K C} {tc tc' : TC} (h : UInv sent K C tc) (hp : tc.pop = .ok tc') :
    ∃ idx, tc.stack.reverse = idx :: tc'.stack.reverse ∧ tc'.nodeMap = tc.nodeMap ∧ UInv sent K C tc' ∧
      tc'.entries.size = tc.entries.size := by
  unfold TC.pop at hp
  cases hl : tc.stack.getLast? with
  | none => simp [hl] at hp
  | some idx =>
    simp only [hl] at hp
    cases he : tc.entries[idx]? with
    | none => simp [he] at hp
    | some e =>
      simp only [he] at hp
      split at hp
      · cases hp
      · simp only [Except.ok.injEq] at hp
        subst hp
        obtain ⟨s1, s2⟩ := set_sameParents (e1 := { e with onStack := e.onStack - 1 }) he rfl (fun _ hx => hx)
        have hinv := h.shrink _ s1 s2
        refine ⟨idx, ?_, rfl, ⟨hinv.sentinel, hinv.parents, hinv.nodeMap, hinv.atoms, hinv.pairs, hinv.slZero⟩, s1⟩
        obtain ⟨ys, hys⟩ := List.getLast?_eq_some_iff.mp hl
        show tc.stack.reverse = idx :: tc.stack.dropLast.reverse
        rw [hys]
        simp

/-- a path is only returned for an entry with a serialized length -/
theorem findPath_sl {tc : TC} {node : Node} {path : Bytes} (h : tc.findPath node = .ok (some path)) :
    ∃ idx e, alGet tc.nodeMap node.key = some idx ∧ tc.entries[idx]? = some e ∧ e.serializedLength ≠ 0 := by
  unfold TC.findPath at h
  split at h
  · cases h
  · cases hn : alGet tc.nodeMap node.key with
    | none => simp [hn] at h
    | some idx =>
      simp only [hn] at h
      cases hv : tc.serializedNodes.isVisited idx with
      | error e => simp [hv] at h
      | ok b =>
        cases b with
        | false => simp [hv] at h
        | true =>
          simp only [hv] at h
          cases he : tc.entries[idx]? with
          | none => simp [he] at h
          | some entry =>
            simp only [he] at h
            split at h
            · cases h
            · rename_i hz
              exact ⟨idx, entry, rfl, he, by simpa using hz⟩

/-! ### the serializer loop and the decoder in lock step -/

def opsOfF : List FReadOp → List ParseOp
  | [] => []
  | .parse :: r => .sexp :: opsOfF r
  | .cons _ :: r => .cons :: opsOfF r

/-- what the pending operations will leave on the decoder's value stack; every `Cons(node)` finds the
contents of `node`'s children on top (`K` = current contents of the `NodePtr`s) -/
def finalRootF (K : Key → Tree) : List FReadOp → List Tree → Tree → Option Tree
  | [], [], root => some root
  | [], _ :: _, _ => none
  | .parse :: ops, t :: ws, root => finalRootF K ops ws (Tree.pair t root)
  | .parse :: _, [], _ => none
  | .cons n :: ops, ws, .pair r (.pair l rest) =>
    if Tree.pair l r = K n.key then finalRootF K ops ws (Tree.pair (Tree.pair l r) rest) else none
  | .cons _ :: _, _, _ => none

def HeadNotConsF : List FReadOp → Prop
  | .cons _ :: _ => False
  | _ => True

/-- the pending `Cons` operations are about pairs -/
def OpsPairs (ops : List FReadOp) : Prop := ∀ n, FReadOp.cons n ∈ ops → IsPair n

/-- the prefix invariant: the decoder, fed with the bytes written so far, stands at (`pops`, `root`) -/
def PSim (buf : Bytes) (pops : List ParseOp) (root : Tree) : Prop :=
  ∀ rest c, PairInv c → Steps (deBrOld (buf ++ rest) [.sexp] Tree.nil c) (fun c' => deBrOld rest pops root c')

theorem PSim.step {buf tok : Bytes} {pops pops2 : List ParseOp} {root root2 : Tree} (h : PSim buf pops root)
    (ht : ∀ rest c, PairInv c → Steps (deBrOld (tok ++ rest) pops root c) (fun c' => deBrOld rest pops2 root2 c')) :
    PSim (buf ++ tok) pops2 root2 := by
  intro rest c hc
  have := h (tok ++ rest) c hc
  rw [← List.append_assoc] at this
  exact this.trans (fun c1 hc1 => ht rest c1 hc1)

/-- the mirror of the parse stack -/
def M (C : Nat → Tree) (tc : TC) : Tree := mirror C tc.stack.reverse

/-- no stacked content contains the marker -/
def Clean (sent : Option Bytes) (t : Tree) : Prop := ∀ m, sent = some m → cnt m t = 0

/-- the parse stack holds valid entry indices -/
def StackOk (tc : TC) : Prop := ∀ i, i ∈ tc.stack.reverse → i < tc.entries.size

theorem isPair_key {sent : Option Bytes} {n : Node} (h : IsPair n) : ¬ IsSK sent n.key := by
  cases n with
  | atom b => cases h
  | pair id l r => exact not_isSK_pair

theorem fPopConses_sim (sent : Option Bytes) (K : Key → Tree) (C : Nat → Tree) : ∀ (fuel : Nat) (ops : List FReadOp) (tc : TC)
    (ops' : List FReadOp) (tc' : TC) (ws : List Tree) (R : Tree),
    fPopConses fuel ops tc = .ok (ops', tc') → UInv sent K C tc → OpsPairs ops → Clean sent (M C tc) →
    finalRootF K ops ws (M C tc) = some R → StackOk tc →
    StackOk tc' ∧ tc'.entries.size = tc.entries.size ∧ UInv sent K C tc' ∧ OpsPairs ops' ∧ HeadNotConsF ops' ∧ Clean sent (M C tc') ∧ finalRootF K ops' ws (M C tc') = some R ∧
    tc'.nodeMap = tc.nodeMap ∧ (∀ n, FReadOp.cons n ∈ ops' → FReadOp.cons n ∈ ops) ∧
    ∀ inp ctr, PairInv ctr →
      Steps (deBrOld inp (opsOfF ops) (M C tc) ctr) (fun c2 => deBrOld inp (opsOfF ops') (M C tc') c2) := by
  intro fuel
  induction fuel with
  | zero => intro ops tc ops' tc' ws R h; simp [fPopConses] at h
  | succ fuel ih =>
    intro ops tc ops' tc' ws R h hinv hok hcl hfr hso
    cases ops with
    | nil =>
      simp only [fPopConses, Except.ok.injEq, Prod.mk.injEq] at h
      obtain ⟨rfl, rfl⟩ := h
      exact ⟨hso, rfl, hinv, hok, trivial, hcl, hfr, rfl, fun _ hn => hn, fun _ _ hc => Steps.refl hc⟩
    | cons op ops =>
      cases op with
      | parse =>
        simp only [fPopConses, Except.ok.injEq, Prod.mk.injEq] at h
        obtain ⟨rfl, rfl⟩ := h
        exact ⟨hso, rfl, hinv, hok, trivial, hcl, hfr, rfl, fun _ hn => hn, fun _ _ hc => Steps.refl hc⟩
      | cons node =>
        simp only [fPopConses] at h
        cases hp : tc.pop2AndCons node with
        | error e => simp [hp] at h
        | ok tc3 =>
          simp only [hp] at h
          unfold TC.pop2AndCons at hp
          cases hp1 : tc.pop with
          | error e => simp [hp1] at hp
          | ok tc1 =>
            simp only [hp1] at hp
            cases hp2 : tc1.pop with
            | error e => simp [hp2] at hp
            | ok tc2 =>
              simp only [hp2] at hp
              obtain ⟨ir, e1, n1, i1, z1⟩ := pop_spec hinv hp1
              obtain ⟨il, e2, n2, i2, z2⟩ := pop_spec i1 hp2
              obtain ⟨idx, g3, e3, n3, i3, z3⟩ := push_spec i2 node hp
              have hso3 : StackOk tc3 := by
                intro i hi
                rw [e3] at hi
                rw [z3, z2, z1]
                simp only [List.mem_cons] at hi
                rcases hi with rfl | hi
                · have := (i2.nodeMap _ _ g3).1; rw [z2, z1] at this; exact this
                · exact hso i (by rw [e1, e2]; exact List.mem_cons_of_mem _ (List.mem_cons_of_mem _ hi))
              have hpn : IsPair node := hok node List.mem_cons_self
              have hci : C idx = K node.key := (i2.nodeMap _ _ g3).2 (isPair_key hpn)
              have hM : M C tc = Tree.pair (C ir) (Tree.pair (C il) (M C tc2)) := by
                unfold M; rw [e1, e2]; rfl
              have hM3 : M C tc3 = Tree.pair (C idx) (M C tc2) := by
                unfold M; rw [e3]; rfl
              rw [hM] at hfr
              simp only [finalRootF] at hfr
              split at hfr
              · rename_i hchk
                have hfr3 : finalRootF K ops ws (M C tc3) = some R := by rw [hM3, hci, ← hchk]; exact hfr
                have hcl3 : Clean sent (M C tc3) := by
                  intro m hm
                  have := hcl m hm
                  rw [hM] at this
                  rw [hM3, hci, ← hchk]
                  simp only [cnt] at this ⊢
                  omega
                obtain ⟨k1, k2, j1, j2, j3, j4, j5, j6, j8, j7⟩ := ih ops tc3 ops' tc' ws R h i3
                  (fun n hn => hok n (List.mem_cons_of_mem _ hn)) hcl3 hfr3 hso3
                refine ⟨k1, by rw [k2, z3, z2, z1], j1, j2, j3, j4, j5, by rw [j6, n3, n2, n1],
                  fun n hn => List.mem_cons_of_mem _ (j8 n hn), ?_⟩
                intro inp ctr hc
                rw [hM]
                show Steps (deBrOld inp (.cons :: opsOfF ops) _ ctr) _
                conv => arg 1; unfold deBrOld
                simp only []
                refine (steps_newPair ctr hc _).trans ?_
                intro ca hca
                refine (steps_newPair ca hca _).trans ?_
                intro cb hcb
                have := j7 inp cb hcb
                rw [hM3, hci, ← hchk] at this
                exact this
              · cases hfr

/-- total number of marker occurrences on the write stack -/
def tot (m : Bytes) (ws : List Node) : Nat := (ws.map (fun n => cnt m n.tree)).sum

/-- what the loop of `add` guarantees when it returns (`Q`: any property of nodes inherited by children) -/
def FPost (sent : Option Bytes) (K : Key → Tree) (C : Nat → Tree) (Q Qo : Node → Prop) (s : FSer) (s' : FSer) (d : Bool)
    (R : Tree) : Prop :=
  UInv sent K C s'.tc ∧ CurOk s'.output ∧ (∀ n, n ∈ s'.writeStack → Q n) ∧
  (∀ n, FReadOp.cons n ∈ s'.readOpStack → Qo n) ∧ OpsPairs s'.readOpStack ∧
  (StackOk s'.tc ∧ s'.tc.entries.size = s.tc.entries.size) ∧
  Clean sent (M C s'.tc) ∧ PSim s'.output.buf (opsOfF s'.readOpStack) (M C s'.tc) ∧ s'.tc.nodeMap = s.tc.nodeMap ∧
  (∀ m, sent = some m → tot m s'.writeStack + (if d then 0 else 1) = tot m s.writeStack) ∧
  (if d then s'.readOpStack = [] ∧ s'.writeStack = [] ∧ M C s'.tc = R
   else ∃ m, sent = some m ∧ HeadNotConsF s'.readOpStack ∧
     finalRootF K s'.readOpStack (Tree.atom m :: s'.writeStack.map Node.tree) (M C s'.tc) = some R)

theorem isSentinel_eq {tc : TC} {sent : Option Bytes} (hs : tc.sentinel = sent) {n : Node} (h : tc.isSentinel n = true) :
    ∃ m, sent = some m ∧ n = Node.atom m := by
  cases n with
  | pair id l r => simp [TC.isSentinel] at h
  | atom b =>
    simp only [TC.isSentinel, beq_iff_eq] at h
    exact ⟨b, by rw [← hs]; exact h, rfl⟩

theorem not_isSentinel_key {tc : TC} {sent : Option Bytes} (hs : tc.sentinel = sent) {n : Node}
    (h : tc.isSentinel n = false) : ¬ IsSK sent n.key ∧ ∀ m, sent = some m → n ≠ Node.atom m := by
  cases n with
  | pair id l r => exact ⟨not_isSK_pair, fun _ _ he => by cases he⟩
  | atom b =>
    have hne : sent ≠ some b := by
      intro hc
      rw [← hs] at hc
      simp [TC.isSentinel, hc] at h
    exact ⟨not_isSK_atom hne, fun m hm he => by cases he; exact hne hm⟩

/-- **the loop of `add`**, for any sentinel: it either runs to completion or stops at the sentinel; the
decoder has followed, the parse stack is clean, and what the pending stacks promise is unchanged -/
theorem fAddLoop_sim (sent : Option Bytes) (K : Key → Tree) (C : Nat → Tree) (Q Qo : Node → Prop)
    (hQc : ∀ id l r, Q (Node.pair id l r) → Q l ∧ Q r) (hQK : ∀ n, Q n → KOk K n) (hQo : ∀ n, Q n → Qo n) :
    ∀ (fuel : Nat) (s s' : FSer) (d : Bool) (R : Tree),
    fAddLoop fuel s = .ok (s', d) → UInv sent K C s.tc → CurOk s.output → (∀ n, n ∈ s.writeStack → Q n) →
    (∀ n, FReadOp.cons n ∈ s.readOpStack → Qo n) → OpsPairs s.readOpStack → HeadNotConsF s.readOpStack →
    Clean sent (M C s.tc) → PSim s.output.buf (opsOfF s.readOpStack) (M C s.tc) →
    finalRootF K s.readOpStack (s.writeStack.map Node.tree) (M C s.tc) = some R → StackOk s.tc →
    FPost sent K C Q Qo s s' d R := by
  intro fuel
  induction fuel with
  | zero => intro s s' d R h; simp [fAddLoop] at h
  | succ fuel ih =>
    intro s s' d R h hinv hcur hws hopsQ hok hhead hclean hsim hfr hso
    unfold fAddLoop at h
    cases hw : s.writeStack with
    | nil =>
      simp only [hw, Except.ok.injEq, Prod.mk.injEq] at h
      obtain ⟨rfl, rfl⟩ := h
      rw [hw] at hfr
      refine ⟨hinv, hcur, hws, hopsQ, hok, ⟨hso, rfl⟩, hclean, hsim, rfl, fun _ _ => by simp, ?_⟩
      rw [if_pos rfl]
      cases hro : s.readOpStack with
      | nil =>
        rw [hro] at hfr
        simp only [List.map_nil, finalRootF, Option.some.injEq] at hfr
        exact ⟨rfl, hw, hfr⟩
      | cons op ops =>
        rw [hro] at hfr hhead
        cases op with
        | parse => simp [finalRootF] at hfr
        | cons _ => exact absurd hhead (by simp [HeadNotConsF])
    | cons node ws =>
      simp only [hw] at h
      by_cases hsen : s.tc.isSentinel node = true
      · -- the sentinel: stop here
        simp only [hsen, if_true, Except.ok.injEq, Prod.mk.injEq] at h
        obtain ⟨rfl, rfl⟩ := h
        obtain ⟨m, hm, rfl⟩ := isSentinel_eq hinv.sentinel hsen
        refine ⟨hinv, hcur, fun n hn => hws n (by rw [hw]; exact List.mem_cons_of_mem _ hn), hopsQ, hok, ⟨hso, rfl⟩,
          hclean, hsim, rfl, ?_, ?_⟩
        · intro m' hm'
          rw [hm] at hm'
          simp only [Option.some.injEq] at hm'
          subst hm'
          simp [tot, hw, Node.tree, cnt]; omega
        · rw [if_neg (by simp)]
          refine ⟨m, hm, hhead, ?_⟩
          rw [hw] at hfr
          exact hfr
      · have hsen' : s.tc.isSentinel node = false := by simpa using hsen
        obtain ⟨hnsk, hnotm⟩ := not_isSentinel_key hinv.sentinel hsen'
        simp only [hsen', Bool.false_eq_true, if_false] at h
        have hqn : Q node := hws node (by rw [hw]; exact List.mem_cons_self)
        have hkn : KOk K node := hQK node hqn
        cases hro : s.readOpStack with
        | nil => simp [hro] at h
        | cons op ops =>
          cases op with
          | cons _ => simp [hro] at h
          | parse =>
            simp only [hro] at h
            rw [hw, hro] at hfr
            rw [hro] at hsim hok hopsQ
            have hfr' : finalRootF K ops (ws.map Node.tree) (Tree.pair node.tree (M C s.tc)) = some R := by
              simpa [finalRootF] using hfr
            cases hfp : s.tc.findPath node with
            | error e => simp [hfp] at h
            | ok fp =>
              simp only [hfp] at h
              cases hem : fEmit { s with writeStack := ws, readOpStack := ops } node fp with
              | error e => simp [hem] at h
              | ok s1 =>
                simp only [hem] at h
                cases hpc : fPopConses (s1.readOpStack.length + 1) s1.readOpStack s1.tc with
                | error e => simp [hpc] at h
                | ok r =>
                  obtain ⟨ops', tc'⟩ := r
                  simp only [hpc] at h
                  have hwsq : ∀ n, n ∈ ws → Q n := fun n hn => hws n (by rw [hw]; exact List.mem_cons_of_mem _ hn)
                  have hopq : ∀ n, FReadOp.cons n ∈ ops → Qo n := fun n hn => hopsQ n (List.mem_cons_of_mem _ hn)
                  have hopk : OpsPairs ops := fun n hn => hok n (List.mem_cons_of_mem _ hn)
                  -- the state after the token
                  have hafter : UInv sent K C s1.tc ∧ CurOk s1.output ∧ (∀ n, n ∈ s1.writeStack → Q n) ∧
                      (∀ n, FReadOp.cons n ∈ s1.readOpStack → Qo n) ∧ OpsPairs s1.readOpStack ∧
                      (StackOk s1.tc ∧ s1.tc.entries.size = s.tc.entries.size) ∧ Clean sent (M C s1.tc) ∧
                      PSim s1.output.buf (opsOfF s1.readOpStack) (M C s1.tc) ∧ s1.tc.nodeMap = s.tc.nodeMap ∧
                      (∀ m, sent = some m → tot m s1.writeStack = tot m s.writeStack) ∧
                      finalRootF K s1.readOpStack (s1.writeStack.map Node.tree) (M C s1.tc) = some R := by
                    cases fp with
                    | some path =>
                      simp only [fEmit] at hem
                      obtain ⟨hb1, hc1⟩ := write_ok hcur [Classic.u8 Gen.incBackReference]
                      cases hwa : writeAtomCur (s.output.write [Classic.u8 Gen.incBackReference]) path with
                      | error e => simp [hwa] at hem
                      | ok out2 =>
                        simp only [hwa] at hem
                        cases hpu : s.tc.push node with
                        | error e => simp [hpu] at hem
                        | ok tc2 =>
                          simp only [hpu, Except.ok.injEq] at hem
                          subst hem
                          obtain ⟨hpl, hb2, hc2⟩ := writeAtomCur_ok hc1 hwa
                          obtain ⟨idx, g, est, nm2, i2, z2⟩ := push_spec hinv node hpu
                          have hso2 : StackOk tc2 := by
                            intro i hi
                            rw [est] at hi; rw [z2]
                            simp only [List.mem_cons] at hi
                            rcases hi with rfl | hi
                            · exact (hinv.nodeMap _ _ g).1
                            · exact hso i hi
                          obtain ⟨idx', g', cost, htp⟩ := findPath_sound C s.tc hinv.parentsSound node path hfp
                          obtain ⟨idx'', e'', g'', he'', hsl''⟩ := findPath_sl hfp
                          rw [g] at g' g''
                          simp only [Option.some.injEq] at g' g''
                          subst g'; subst g''
                          have hci : C idx = node.tree := by
                            rw [(hinv.nodeMap _ _ g).2 hnsk]; exact hkn node (self_mem_subs node)
                          -- a back-referenced node does not contain the sentinel
                          have hcn : ∀ m, sent = some m → cnt m node.tree = 0 := by
                            intro m hm
                            cases hz : cnt m node.tree with
                            | zero => rfl
                            | succ k =>
                              exfalso
                              exact hsl'' (hinv.slZero m hm idx e'' he'' (by rw [hci, hz]; omega))
                          have hM2 : M C tc2 = Tree.pair node.tree (M C s.tc) := by
                            unfold M; rw [est, ← hci]; rfl
                          refine ⟨i2, hc2, hwsq, hopq, hopk, ⟨hso2, z2⟩, ?_, ?_, nm2, ?_, by rw [hM2]; exact hfr'⟩
                          · intro m hm
                            rw [hM2]
                            simp only [cnt, hcn m hm, hclean m hm]
                          · have hbuf : out2.buf = s.output.buf ++ (UInt8.ofNat Gen.deBrBackReference :: atomEnc path) := by
                              rw [hb2, hb1]
                              have : Classic.u8 Gen.incBackReference = UInt8.ofNat Gen.deBrBackReference := by decide
                              rw [this]; simp
                            show PSim out2.buf (opsOfF ops) (M C tc2)
                            rw [hbuf, hM2]
                            refine hsim.step (fun rest c hcc => ?_)
                            rw [hci] at htp
                            have := deBrOld_backref_token' (M C s.tc) node.tree path cost htp hpl rest (opsOfF ops) c hcc
                            simpa [opsOfF, M] using this
                          · intro m hm
                            show tot m ws = tot m s.writeStack
                            rw [hw]
                            simp [tot, hcn m hm]
                    | none =>
                      cases node with
                      | pair id l r =>
                        simp only [fEmit, Except.ok.injEq] at hem
                        subst hem
                        obtain ⟨hb1, hc1⟩ := write_ok hcur [Classic.u8 Gen.incConsBoxMarker]
                        obtain ⟨hql, hqr⟩ := hQc id l r hqn
                        refine ⟨hinv, hc1, ?_, ?_, ?_, ⟨hso, rfl⟩, hclean, ?_, rfl, ?_, ?_⟩
                        · intro n hn
                          simp only [List.mem_cons] at hn
                          rcases hn with rfl | rfl | hn
                          · exact hql
                          · exact hqr
                          · exact hwsq n hn
                        · intro n hn
                          simp only [List.mem_cons, reduceCtorEq, false_or] at hn
                          rcases hn with hn | hn
                          · cases hn; exact hQo _ hqn
                          · exact hopq n hn
                        · intro n hn
                          simp only [List.mem_cons, reduceCtorEq, false_or] at hn
                          rcases hn with hn | hn
                          · cases hn; trivial
                          · exact hopk n hn
                        · have hbuf : (s.output.write [Classic.u8 Gen.incConsBoxMarker]).buf =
                              s.output.buf ++ [UInt8.ofNat Gen.deBrConsBoxMarker] := by
                            rw [hb1]
                            have : Classic.u8 Gen.incConsBoxMarker = UInt8.ofNat Gen.deBrConsBoxMarker := by decide
                            rw [this]
                          show PSim (s.output.write [Classic.u8 Gen.incConsBoxMarker]).buf
                            (opsOfF (.parse :: .parse :: .cons (.pair id l r) :: ops)) (M C s.tc)
                          rw [hbuf]
                          refine hsim.step (fun rest c hcc => ?_)
                          have := deBrOld_cons_token (M C s.tc) rest (opsOfF ops) c hcc
                          simpa [opsOfF] using this
                        · intro m hm
                          show tot m (l :: r :: ws) = tot m s.writeStack
                          rw [hw]
                          simp [tot, Node.tree, cnt]; omega
                        · show finalRootF K (.parse :: .parse :: .cons (.pair id l r) :: ops)
                            ((l :: r :: ws).map Node.tree) (M C s.tc) = some R
                          have hKn : K (Node.pair id l r).key = Tree.pair l.tree r.tree := hkn _ (self_mem_subs _)
                          simpa [finalRootF, Node.tree, hKn] using hfr'
                      | atom a =>
                        simp only [fEmit] at hem
                        cases hwa : writeAtomCur s.output a with
                        | error e => simp [hwa] at hem
                        | ok out1 =>
                          simp only [hwa] at hem
                          cases hpu : s.tc.push (.atom a) with
                          | error e => simp [hpu] at hem
                          | ok tc2 =>
                            simp only [hpu, Except.ok.injEq] at hem
                            subst hem
                            obtain ⟨hal, hb1, hc1⟩ := writeAtomCur_ok hcur hwa
                            obtain ⟨idx, g, est, nm2, i2, z2⟩ := push_spec hinv (.atom a) hpu
                            have hso2 : StackOk tc2 := by
                              intro i hi
                              rw [est] at hi; rw [z2]
                              simp only [List.mem_cons] at hi
                              rcases hi with rfl | hi
                              · exact (hinv.nodeMap _ _ g).1
                              · exact hso i hi
                            have hci : C idx = Tree.atom a := by
                              rw [(hinv.nodeMap _ _ g).2 hnsk]; exact hkn (.atom a) (self_mem_subs _)
                            have hca : ∀ m, sent = some m → cnt m (Tree.atom a) = 0 := by
                              intro m hm
                              simp only [cnt]
                              split
                              · rename_i ham; subst ham; exact absurd rfl (hnotm a hm)
                              · rfl
                            have hM2 : M C tc2 = Tree.pair (Tree.atom a) (M C s.tc) := by
                              unfold M; rw [est, ← hci]; rfl
                            refine ⟨i2, hc1, hwsq, hopq, hopk, ⟨hso2, z2⟩, ?_, ?_, nm2, ?_, by rw [hM2]; exact hfr'⟩
                            · intro m hm
                              rw [hM2]
                              show cnt m (Tree.atom a) + cnt m (M C s.tc) = 0
                              rw [hca m hm, hclean m hm]
                            · show PSim out1.buf (opsOfF ops) (M C tc2)
                              rw [hb1, hM2]
                              refine hsim.step (fun rest c hcc => ?_)
                              have := deBrOld_atom_token a hal rest (opsOfF ops) (M C s.tc) c hcc
                              simpa [opsOfF] using this
                            · intro m hm
                              show tot m ws = tot m s.writeStack
                              rw [hw]
                              have h1 := hca m hm
                              simp [tot, Node.tree, h1]
                  obtain ⟨a1, a2, a3, a4, a5, ⟨a11, a12⟩, a6, a7, a8, a9, a10⟩ := hafter
                  obtain ⟨k1, k2, j1, j2, j3, j4, j5, j6, j8, j7⟩ :=
                    fPopConses_sim sent K C _ _ _ _ _ _ R hpc a1 a5 a6 a10 a11
                  have hops'Q : ∀ n, FReadOp.cons n ∈ ops' → Qo n := fun n hn => a4 n (j8 n hn)
                  have := ih { s1 with readOpStack := ops', tc := tc' } s' d R h j1 a2 a3 hops'Q j2 j3 j4
                    (fun rest c hcc => (a7 rest c hcc).trans (fun c1 hc1 => j7 rest c1 hc1)) j5 k1
                  obtain ⟨b1, b2, b3, b4, b5, ⟨b11, b12⟩, b6, b7, b8, b9, b10⟩ := this
                  exact ⟨b1, b2, b3, b4, b5, ⟨b11, by rw [b12]; show tc'.entries.size = _; rw [k2, a12]⟩, b6, b7,
                    by rw [b8]; show tc'.nodeMap = _; rw [j6, a8],
                    fun m hm => by rw [b9 m hm]; exact a9 m hm, b10⟩

/-! ### a single `add` on a serializer without sentinel -/

theorem uinv_new (sent : Option Bytes) (K : Key → Tree) : UInv sent K (fun _ => Tree.nil) (TC.new sent) where
  sentinel := rfl
  parents := by intro X e he; simp [TC.new] at he
  nodeMap := by intro k i h; simp [TC.new, alGet] at h
  atoms := by intro b i h; simp [TC.new, alGet] at h
  pairs := by intro l r i h; simp [TC.new, alGet] at h
  slZero := by intro m _ i e he; simp [TC.new] at he

/-- **The faithful model used as a one-shot serializer**: a serializer without sentinel, one `add` of a
node whose `NodePtr`s determine their contents (`KOk`).  If the call returns, it reports completion,
`into_inner` is allowed, and the bytes decode — legacy and current decoder, followed by any bytes, from
any allocator state short of its limits — to the tree of the node. -/
theorem single_add_decodes (K : Key → Tree) (node : Node) (hk : KOk K node) (s' : FSer) (d : Bool) (u : FUndo)
    (h : (FSer.new none).add node = .ok (s', d, u)) :
    d = true ∧ s'.readOpStack = [] ∧
    ∀ (rest : Bytes) (c : Ctr), c.pairs + c.ghostPairs ≤ Gen.maxNumPairs →
      ((∃ e, deBrOld (s'.output.buf ++ rest) [.sexp] Tree.nil c = .error e ∧ limitErr e) ∨
        ∃ c', deBrOld (s'.output.buf ++ rest) [.sexp] Tree.nil c = .ok (node.tree, rest, c')) ∧
      ((∃ e, deBrNew (s'.output.buf ++ rest) [.sexp] [] c = .error e ∧ limitErr e) ∨
        ∃ c', deBrNew (s'.output.buf ++ rest) [.sexp] [] c = .ok (node.tree, rest, c')) := by
  unfold FSer.add at h
  simp only [FSer.new, List.isEmpty_cons, Bool.false_eq_true, if_false] at h
  cases hu : (TC.new none).update node with
  | error e => simp [hu] at h
  | ok tc1 =>
    simp only [hu] at h
    obtain ⟨C, i1, _, hst, _⟩ := update_spec (uinv_new none K) node K hk (fun m hm => by cases hm)
      (fun k i hki _ => by simp [TC.new, alGet] at hki) (fun m s0 hm => by cases hm) hu
    have hf : ([node].map Node.size).sum + 2 = node.size + 2 := by simp
    rw [hf] at h
    cases hl : fAddLoop (node.size + 2)
        { readOpStack := [.parse], writeStack := [node], tc := tc1, output := { buf := [], pos := 0 } } with
    | error e => rw [hl] at h; cases h
    | ok r =>
      obtain ⟨s1, d1⟩ := r
      rw [hl] at h
      simp only [Except.ok.injEq, Prod.mk.injEq] at h
      obtain ⟨rfl, rfl, _⟩ := h
      have hM : M C tc1 = Tree.nil := by unfold M; rw [hst]; rfl
      have hpost := fAddLoop_sim none K C (KOk K) (fun _ => True) (fun id l r hq => ⟨hq.left, hq.right⟩) (fun _ hq => hq)
        (fun _ _ => trivial) _ _ s1 d1 (Tree.pair node.tree Tree.nil) hl i1 rfl
        (by intro n hn; simp only [List.mem_singleton] at hn; subst hn; exact hk)
        (by intro n hn; simp at hn) (by intro n hn; simp at hn) trivial (fun m hm => by cases hm)
        (by
          show PSim [] [.sexp] (M C tc1)
          rw [hM]
          intro rest c hc
          exact Steps.refl hc)
        (by
          show finalRootF K [.parse] ([node].map Node.tree) (M C tc1) = _
          rw [hM]; rfl)
        (by intro i hi; rw [show tc1.stack = [] from hst] at hi; simp at hi)
      obtain ⟨_, _, _, _, _, _, _, r4, _, _, r10⟩ := hpost
      cases d1 with
      | false =>
        rw [if_neg (by simp)] at r10
        obtain ⟨m, hm, _⟩ := r10
        cases hm
      | true =>
        rw [if_pos rfl] at r10
        obtain ⟨r2, _, r3⟩ := r10
        refine ⟨rfl, r2, fun rest c hc => ?_⟩
        rw [r2, r3] at r4
        have hold : (∃ e, deBrOld (s1.output.buf ++ rest) [.sexp] Tree.nil c = .error e ∧ limitErr e) ∨
            ∃ c', deBrOld (s1.output.buf ++ rest) [.sexp] Tree.nil c = .ok (node.tree, rest, c') := by
          rcases r4 rest c hc with ⟨e, he, hle⟩ | ⟨c', _, he⟩
          · exact .inl ⟨e, he, hle⟩
          · exact .inr ⟨c', by rw [he]; exact deBrOld_done node.tree rest c'⟩
        exact ⟨hold, new_of_old _ c hc node.tree rest hold⟩

/-! ### the nodes the harness builds satisfy `KOk` -/

/-- contents of the keys of `adds:` nodes -/
def KShared : Key → Tree
  | .atom b => .atom b
  | .shared t => t
  | .fresh _ => Tree.nil

theorem labelShared_tree : ∀ (t : Tree), (labelShared t).tree = t := by
  intro t
  induction t with
  | atom b => rfl
  | pair l r ihl ihr => simp [labelShared, Node.tree, ihl, ihr]

theorem subs_labelShared : ∀ (t : Tree) (s : Node), s ∈ subs (labelShared t) → ∃ t', s = labelShared t' := by
  intro t
  induction t with
  | atom b => intro s hs; simp [labelShared, subs] at hs; exact ⟨.atom b, hs⟩
  | pair l r ihl ihr =>
    intro s hs
    simp only [labelShared, subs, List.mem_cons, List.mem_append] at hs
    rcases hs with rfl | hs | hs
    · exact ⟨.pair l r, rfl⟩
    · exact ihl s hs
    · exact ihr s hs

theorem kOk_labelShared (t : Tree) : KOk KShared (labelShared t) := by
  intro s hs
  obtain ⟨t', rfl⟩ := subs_labelShared t s hs
  cases t' with
  | atom b => rfl
  | pair l r => simp [labelShared, Node.key, Node.tree, KShared]

end Clvm.TreeCacheProofs
