/-
C19, part 4 — the checked replay policy is valid by construction, hence the run that `validate`
performs on recorded outputs of the real serializer is covered by the theorems about valid policies.
-/
import ClvmProofs.Lemmas.IncrementalRun

namespace Clvm.Incremental
open Clvm Clvm.Serde Clvm.Serde.Backref Clvm.Serde.Incremental Clvm.Serde.TraversePath Clvm.Backref

theorem replayChecked_valid (rec : Bytes) : Valid (replayChecked rec) := by
  intro s node path h
  unfold replayChecked at h
  cases hr : replay rec s node with
  | none => simp [hr] at h
  | some p =>
    simp only [hr] at h
    split at h
    · rename_i hpv
      simp only [Option.some.injEq] at h
      subst h
      unfold pathValid at hpv
      simp only [Bool.and_eq_true] at hpv
      obtain ⟨h1, _⟩ := hpv
      cases htp : traversePath p s.cache.root with
      | error e => simp [htp] at h1
      | ok x =>
        obtain ⟨cost, r⟩ := x
        simp only [htp, beq_iff_eq] at h1
        subst h1
        exact ⟨cost, rfl⟩
    · cases h

theorem validateStep_inv {sent : Option Bytes} {r r' : Run} {q : Req} {c : Rec} (hi : RunInv sent r)
    (h : validateStep r q c = .ok r') : RunInv sent r' := by
  unfold validateStep at h
  split at h
  · -- add / added
    rename_i t done out
    split at h
    · cases h
    · rename_i r1 hstep
      split at h
      · cases h
      · split at h
        · simp only [Except.ok.injEq] at h
          subst h
          exact step_inv (st := .add (replayChecked out) t) hi (replayChecked_valid out) hstep
        · split at h
          · split at h <;> cases h
          · cases h
  · -- add / panicked
    split at h
    · simp only [Except.ok.injEq] at h
      subst h; exact hi
    · cases h
  · -- undo / undone
    rename_i k out
    split at h
    · cases h
    · rename_i r1 hstep
      split at h
      · simp only [Except.ok.injEq] at h
        subst h
        exact step_inv (st := .undo k) hi trivial hstep
      · cases h
  · cases h

theorem validateSteps_inv {sent : Option Bytes} : ∀ (steps : List (Req × Rec)) (r r' : Run), RunInv sent r →
    validateSteps r steps = .ok r' → RunInv sent r' := by
  intro steps
  induction steps with
  | nil =>
    intro r r' hi h
    simp only [validateSteps, Except.ok.injEq] at h
    subst h; exact hi
  | cons qc rest ih =>
    intro r r' hi h
    obtain ⟨q, c⟩ := qc
    simp only [validateSteps] at h
    cases hs : validateStep r q c with
    | error e => simp [hs] at h
    | ok r1 =>
      simp only [hs] at h
      exact ih r1 r' (validateStep_inv hi hs) h

theorem validate_inv {sent : Option Bytes} {steps : List (Req × Rec)} {r : Run}
    (h : validate sent steps = .ok r) : RunInv sent r := by
  unfold validate at h
  cases hs : validateSteps (Run.new sent) steps with
  | error e => simp [hs] at h
  | ok r0 =>
    have hi := validateSteps_inv steps _ r0 (runInv_new sent) hs
    simp only [hs] at h
    split at h
    · split at h
      · cases h
      · split at h
        · cases h
        · split at h
          · split at h
            · simp only [Except.ok.injEq] at h; subst h; exact hi
            · cases h
          · cases h
    · simp only [Except.ok.injEq] at h; subst h; exact hi

end Clvm.Incremental
