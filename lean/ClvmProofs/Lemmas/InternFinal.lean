/-
Consequences of the loop invariant for the result of `internTree`.
-/
import ClvmProofs.Lemmas.InternLoop
import Mathlib.Data.List.Dedup
import Mathlib.Data.List.Perm.Subperm

namespace Clvm.Intern

/-! ### the specification side: sub-trees of a tree -/

def subtrees : Tree → List Tree
  | .atom b => [.atom b]
  | .pair l r => .pair l r :: (subtrees l ++ subtrees r)

theorem mem_subtrees (s t : Tree) : s ∈ subtrees t ↔ Subtree s t := by
  induction t with
  | atom b =>
    simp only [subtrees, List.mem_singleton]
    constructor
    · rintro rfl; exact .refl _
    · intro h; cases h; rfl
  | pair l r ihl ihr =>
    simp only [subtrees, List.mem_cons, List.mem_append, ihl, ihr]
    constructor
    · rintro (rfl | h | h)
      · exact .refl _
      · exact .left h
      · exact .right h
    · intro h
      cases h with
      | refl => left; rfl
      | left h => right; left; exact h
      | right h => right; right; exact h

/-- the atom values occurring in a tree (with repetitions) -/
def atomValues (t : Tree) : List Bytes :=
  (subtrees t).filterMap fun
    | .atom b => some b
    | .pair _ _ => none

/-- the pair sub-trees of a tree (with repetitions) -/
def pairSubtrees (t : Tree) : List Tree :=
  (subtrees t).filter fun
    | .atom _ => false
    | .pair _ _ => true

theorem mem_atomValues (b : Bytes) (t : Tree) : b ∈ atomValues t ↔ Subtree (.atom b) t := by
  unfold atomValues
  rw [List.mem_filterMap, ← mem_subtrees]
  constructor
  · rintro ⟨a, ha, h⟩
    cases a with
    | atom b' => simp at h; subst h; exact ha
    | pair _ _ => simp at h
  · intro h; exact ⟨_, h, rfl⟩

theorem mem_pairSubtrees (s t : Tree) : s ∈ pairSubtrees t ↔ (∃ l r, s = .pair l r) ∧ Subtree s t := by
  unfold pairSubtrees
  rw [List.mem_filter, mem_subtrees]
  constructor
  · rintro ⟨h1, h2⟩
    cases s with
    | atom _ => simp at h2
    | pair l r => exact ⟨⟨l, r, rfl⟩, h1⟩
  · rintro ⟨⟨l, r, rfl⟩, h⟩; exact ⟨h, rfl⟩

/-! ### inversion of `treeOf` -/

theorem treeOf_eq_atom {A : List Bytes} {P : List (INode × INode)} {n : INode} {b : Bytes}
    (h : treeOf A P n = some (.atom b)) : ∃ k, n = .atom k ∧ A[k]? = some b := by
  cases n with
  | atom k =>
    rw [treeOf_atom] at h
    cases hk : A[k]? with
    | none => rw [hk] at h; cases h
    | some b' => rw [hk] at h; simp at h; subst h; exact ⟨k, rfl, hk⟩
  | pair k =>
    rw [treeOf] at h
    split at h
    · cases h
    · split at h
      · split at h
        · cases h
        · cases h
      · cases h

theorem treeOf_eq_pair {A : List Bytes} {P : List (INode × INode)} {n : INode} {L R : Tree}
    (h : treeOf A P n = some (.pair L R)) :
    ∃ k l r, n = .pair k ∧ P[k]? = some (l, r) ∧ l.rank ≤ k ∧ r.rank ≤ k ∧
      treeOf A P l = some L ∧ treeOf A P r = some R := by
  cases n with
  | atom k =>
    rw [treeOf_atom] at h
    cases hk : A[k]? with
    | none => rw [hk] at h; cases h
    | some b' => rw [hk] at h; cases h
  | pair k =>
    rw [treeOf] at h
    split at h
    · cases h
    · rename_i l r hk
      split at h
      · rename_i hlr
        split at h
        · rename_i a b ha hb
          cases h
          exact ⟨k, l, r, rfl, hk, by omega, by omega, ha, hb⟩
        · cases h
      · cases h

/-- distinct interned nodes denote distinct trees -/
theorem Inv.treeOf_inj {d : Dag} {root : Nat} {s : State} (inv : Inv d root s) :
    ∀ (t : Tree) (n m : INode), treeOf s.atoms s.pairs n = some t → treeOf s.atoms s.pairs m = some t → n = m := by
  intro t
  induction t with
  | atom b =>
    intro n m hn hm
    obtain ⟨j, rfl, hj⟩ := treeOf_eq_atom hn
    obtain ⟨k, rfl, hk⟩ := treeOf_eq_atom hm
    have h1 := inv.atomFwd j b hj
    have h2 := inv.atomFwd k b hk
    rw [h1] at h2; cases h2; rfl
  | pair L R ihL ihR =>
    intro n m hn hm
    obtain ⟨j, l, r, rfl, hj, _, _, hl, hr⟩ := treeOf_eq_pair hn
    obtain ⟨k, l', r', rfl, hk, _, _, hl', hr'⟩ := treeOf_eq_pair hm
    have e1 := ihL l l' hl hl'
    have e2 := ihR r r' hr hr'
    subst e1 e2
    have h1 := inv.pairFwd j (l, r) hj
    have h2 := inv.pairFwd k (l, r) hk
    rw [h1] at h2; cases h2; rfl

/-- every sub-tree of what a valid node denotes is denoted by a valid node -/
theorem Inv.closed {d : Dag} {root : Nat} {s : State} (inv : Inv d root s) {t T : Tree} (hsub : Subtree t T) :
    ∀ n : INode, n.Valid s.atoms.length s.pairs.length → treeOf s.atoms s.pairs n = some T →
      ∃ m : INode, m.Valid s.atoms.length s.pairs.length ∧ treeOf s.atoms s.pairs m = some t := by
  induction hsub with
  | refl => intro n hv hn; exact ⟨n, hv, hn⟩
  | left _ ih =>
    intro n hv hn
    obtain ⟨k, l, r, rfl, hk, _, _, hl, hr⟩ := treeOf_eq_pair hn
    exact ih l (inv.pairWF k l r hk).2.2.1 hl
  | right _ ih =>
    intro n hv hn
    obtain ⟨k, l, r, rfl, hk, _, _, hl, hr⟩ := treeOf_eq_pair hn
    exact ih r (inv.pairWF k l r hk).2.2.2 hr

/-! ### what a successful `internTree` returns -/

theorem heapLimit_ok : ¬ (Gen.internTreeHeapLimit > 2 ^ 32 - 1) := by decide

/-- a successful run ends in a state satisfying the invariant, with an empty stack and the root interned -/
theorem internTree_ok {d : Dag} (wf : d.WF) {root : Nat} (hroot : root < d.size) {it : InternedTree}
    (h : internTree d root = .ok it) :
    ∃ s : State, Inv d root s ∧ s.stack = [] ∧ it.atoms = s.atoms ∧ it.pairs = s.pairs ∧
      s.nodeToInterned.lookup root = some it.root := by
  unfold internTree internTreeLimited Counters.newLimited at h
  rw [if_neg heapLimit_ok] at h
  simp only at h
  split at h
  · cases h
  · rename_i s hloop
    obtain ⟨inv, hst⟩ := loop_inv wf _ _ s (Inv.init d root _ hroot) hloop
    split at h
    · cases h
    · rename_i r hr
      cases h
      exact ⟨s, inv, hst, rfl, rfl, hr⟩

/-- `intern_tree` never panics and never runs out of fuel: it succeeds or reports an allocator limit -/
theorem internTree_total {d : Dag} (wf : d.WF) {root : Nat} (hroot : root < d.size) :
    (∃ it, internTree d root = .ok it) ∨ (∃ e, AllocErr e ∧ internTree d root = .error e) := by
  unfold internTree internTreeLimited Counters.newLimited
  rw [if_neg heapLimit_ok]
  simp only
  rcases loop_terminates wf root hroot
      { ctr := { heapLimit := Gen.internTreeHeapLimit, heap := Gen.initGhostHeap, atoms := Gen.initGhostAtoms,
                 pairs := Gen.initGhostPairs },
        atoms := [], pairs := [], nodeToInterned := [], atomToInterned := [], pairToInterned := [],
        stack := [root] } rfl with ⟨e, he, hl⟩ | ⟨s', hl, hst⟩
  · right; exact ⟨e, he, by rw [hl]⟩
  · left
    rw [hl]
    simp only
    obtain ⟨inv, _⟩ := loop_inv wf _ _ s' (Inv.init d root _ hroot) hl
    rcases inv.rootIn with h1 | h1
    · rw [hst] at h1; cases h1
    · cases hr : List.lookup root s'.nodeToInterned with
      | none => rw [hr] at h1; cases h1
      | some r => exact ⟨_, rfl⟩

end Clvm.Intern
