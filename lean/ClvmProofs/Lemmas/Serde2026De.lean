/-
The 2026 decoder and the length probe: error kinds (no panic, no abort).
-/
import ClvmModel.Serde2026

namespace Clvm.Serde2026
open Clvm Clvm.Intern Clvm.Varint

/-- the errors the decoder can return: malformed input or a limit of the caller's allocator -/
def DeErr (e : Err) : Prop :=
  e = .SerializationError ∨ e = .OutOfMemory ∨ e = .TooManyAtoms ∨ e = .TooManyPairs

theorem DeErr.ser : DeErr .SerializationError := Or.inl rfl

theorem readRaw_err {inp : Bytes} {e : Err} (h : readRaw inp = .error e) : e = .SerializationError := by
  unfold readRaw at h
  split at h
  · cases h; rfl
  · simp only at h
    split at h
    · cases h; rfl
    · split at h
      · cases h; rfl
      · cases h

theorem readVarint_err {strict : Bool} {inp : Bytes} {e : Err} (h : readVarint strict inp = .error e) :
    e = .SerializationError := by
  unfold readVarint at h
  split at h
  · rename_i e' he; cases h; exact readRaw_err he
  · simp only at h
    split at h
    · cases h; rfl
    · cases h

theorem checkedUsize_err {v : Int} {e : Err} (h : checkedUsize v = .error e) : e = .SerializationError := by
  unfold checkedUsize at h
  split at h
  · cases h; rfl
  · cases h

theorem checkedBoundedUsize_err {v : Int} {m : Nat} {e : Err} (h : checkedBoundedUsize v m = .error e) :
    e = .SerializationError := by
  unfold checkedBoundedUsize at h
  split at h
  · rename_i e' he; cases h; exact checkedUsize_err he
  · split at h
    · cases h; rfl
    · cases h

theorem checkedBoundedUsize_le {v : Int} {m n : Nat} (h : checkedBoundedUsize v m = .ok n) : n ≤ m := by
  unfold checkedBoundedUsize at h
  split at h
  · cases h
  · split at h
    · cases h
    · cases h; omega

theorem newAtom_deErr {c : Counters} {n : Nat} {e : Err} (h : c.newAtom n = .error e) : DeErr e := by
  unfold Counters.newAtom at h
  split at h
  · cases h; right; left; rfl
  · split at h
    · cases h; right; right; left; rfl
    · cases h

theorem newPair_deErr {c : Counters} {e : Err} (h : c.newPair = .error e) : DeErr e := by
  unfold Counters.newPair at h
  split at h
  · cases h; right; right; right; rfl
  · cases h

theorem readAtoms_err {length : Nat} : ∀ (count : Nat) (inp : Bytes) (ctr : Counters) (atoms : List Bytes) (e : Err),
    readAtoms length count inp ctr atoms = .error e → DeErr e := by
  intro count
  induction count with
  | zero => intro inp ctr atoms e h; rw [readAtoms] at h; cases h
  | succ n ih =>
    intro inp ctr atoms e h
    rw [readAtoms] at h
    split at h
    · cases h; exact .ser
    · split at h
      · rename_i e' he; cases h; exact newAtom_deErr he
      · exact ih _ _ _ _ h

/-- a successful `readAtoms` consumed exactly `length * count` bytes -/
theorem readAtoms_ok {length : Nat} : ∀ (count : Nat) (inp : Bytes) (ctr : Counters) (atoms : List Bytes)
    (inp' : Bytes) (c' : Counters) (a' : List Bytes),
    readAtoms length count inp ctr atoms = .ok (inp', c', a') →
      length * count ≤ inp.length ∧ inp' = inp.drop (length * count) := by
  intro count
  induction count with
  | zero => intro inp ctr atoms inp' c' a' h; rw [readAtoms] at h; cases h; simp
  | succ n ih =>
    intro inp ctr atoms inp' c' a' h
    rw [readAtoms] at h
    split at h
    · cases h
    · rename_i hlen
      split at h
      · cases h
      · obtain ⟨h1, h2⟩ := ih _ _ _ _ _ _ h
        simp only [List.length_drop] at h1
        refine ⟨by rw [Nat.mul_succ]; omega, ?_⟩
        rw [h2, List.drop_drop, Nat.mul_succ]
        congr 1; omega

theorem readGroupHeader_err {mal : Nat} {strict : Bool} {inp : Bytes} {e : Err}
    (h : readGroupHeader mal strict inp = .error e) : e = .SerializationError := by
  unfold readGroupHeader at h
  split at h
  · rename_i e' he; cases h; exact readVarint_err he
  · split at h
    · split at h
      · cases h; rfl
      · split at h
        · rename_i e' he; cases h; exact checkedBoundedUsize_err he
        · split at h
          · rename_i e' he; cases h; exact readVarint_err he
          · split at h
            · rename_i e' he; cases h; exact checkedUsize_err he
            · cases h
    · split at h
      · rename_i e' he; cases h; exact checkedBoundedUsize_err he
      · cases h

theorem readGroupHeader_le {mal : Nat} {strict : Bool} {inp inp' : Bytes} {length count : Nat}
    (h : readGroupHeader mal strict inp = .ok (length, count, inp')) : length ≤ mal := by
  unfold readGroupHeader at h
  split at h
  · cases h
  · split at h
    · split at h
      · cases h
      · split at h
        · cases h
        · rename_i len hl
          split at h
          · cases h
          · split at h
            · cases h
            · cases h; exact checkedBoundedUsize_le hl
    · split at h
      · cases h
      · rename_i len hl
        cases h; exact checkedBoundedUsize_le hl

/-- errors of the atom-table loop are benign -/
theorem readGroups_err {mal : Nat} {strict : Bool} :
    ∀ (n : Nat) (inp : Bytes) (ctr : Counters) (atoms : List Bytes) (e : Err),
    readGroups mal strict n inp ctr atoms = .error e → DeErr e := by
  intro n
  induction n with
  | zero => intro inp ctr atoms e h; rw [readGroups] at h; cases h
  | succ n ih =>
    intro inp ctr atoms e h
    rw [readGroups] at h
    split at h
    · rename_i e' he; cases h; rw [readGroupHeader_err he]; exact .ser
    · split at h
      · cases h; exact .ser
      · split at h
        · rename_i e' he; cases h; exact readAtoms_err _ _ _ _ _ he
        · exact ih _ _ _ _ h

theorem execInst_err {atoms : List Bytes} {s : DState} {inst : Int} {e : Err}
    (h : execInst atoms s inst = .error e) : DeErr e := by
  unfold execInst at h
  split at h
  · cases h
  · split at h
    · split at h
      · cases h; exact .ser
      · rename_i hlen
        split at h
        · split at h
          · rename_i e' he; cases h; exact newPair_deErr he
          · cases h
        · rename_i hno
          exfalso
          match hs : s.stack with
          | [] => rw [hs] at hlen; simp at hlen
          | [_] => rw [hs] at hlen; simp at hlen
          | a :: b :: st => exact hno a b st hs
    · split at h
      · split at h
        · cases h; exact .ser
        · rename_i hlen
          split at h
          · split at h
            · rename_i e' he; cases h; exact newPair_deErr he
            · cases h
          · rename_i hno
            exfalso
            match hs : s.stack with
            | [] => rw [hs] at hlen; simp at hlen
            | [_] => rw [hs] at hlen; simp at hlen
            | a :: b :: st => exact hno a b st hs
      · split at h
        · simp only at h
          split at h
          · cases h; exact .ser
          · cases h
        · split at h
          · cases h; exact .ser
          · split at h
            · cases h; exact .ser
            · simp only at h
              split at h
              · cases h; exact .ser
              · cases h

theorem runInstructions_err {atoms : List Bytes} {strict : Bool} :
    ∀ (n : Nat) (inp : Bytes) (s : DState) (e : Err),
    runInstructions atoms strict n inp s = .error e → DeErr e := by
  intro n
  induction n with
  | zero => intro inp s e h; rw [runInstructions] at h; cases h
  | succ n ih =>
    intro inp s e h
    rw [runInstructions] at h
    split at h
    · rename_i e' he; cases h; rw [readVarint_err he]; exact .ser
    · split at h
      · rename_i e' he; cases h; exact execInst_err he
      · exact ih _ _ _ h

theorem deserializeBody_err {ctr : Counters} {inp : Bytes} {mal : Nat} {strict : Bool} {e : Err}
    (h : deserializeBody ctr inp mal strict = .error e) : DeErr e := by
  unfold deserializeBody at h
  split at h
  · rename_i e' he; cases h; rw [readVarint_err he]; exact .ser
  · split at h
    · rename_i e' he; cases h; rw [checkedUsize_err he]; exact .ser
    · split at h
      · rename_i e' he; cases h; exact readGroups_err _ _ _ _ _ he
      · split at h
        · rename_i e' he; cases h; rw [readVarint_err he]; exact .ser
        · split at h
          · rename_i e' he; cases h; rw [checkedUsize_err he]; exact .ser
          · split at h
            · cases h; exact .ser
            · split at h
              · rename_i e' he; cases h; exact runInstructions_err _ _ _ _ he
              · rename_i inp4 s hrun
                split at h
                · cases h; exact .ser
                · rename_i hlen
                  split at h
                  · rename_i hnone
                    exfalso
                    cases hs : s.stack with
                    | nil => rw [hs] at hlen; simp at hlen
                    | cons a st => rw [hs] at hnone; simp at hnone
                  · cases h

theorem deserializeFromStream_err {ctr : Counters} {inp : Bytes} {mal : Nat} {strict : Bool}
    {e : Err} (h : deserializeFromStream ctr inp mal strict = .error e) : DeErr e := by
  unfold deserializeFromStream at h
  split at h
  · cases h; exact .ser
  · split at h
    · cases h; exact .ser
    · exact deserializeBody_err h

/-! ### the length probe -/

theorem lenInstructions_err {strict : Bool} : ∀ (n : Nat) (inp : Bytes) (e : Err),
    lenInstructions strict n inp = .error e → e = .SerializationError := by
  intro n
  induction n with
  | zero => intro inp e h; rw [lenInstructions] at h; cases h
  | succ n ih =>
    intro inp e h
    rw [lenInstructions] at h
    split at h
    · rename_i e' he; cases h; exact readVarint_err he
    · exact ih _ _ h

theorem lenGroups_err {mal : Nat} {strict : Bool} {dataLen : Nat} : ∀ (n : Nat) (inp : Bytes) (e : Err),
    lenGroups mal strict dataLen n inp = .error e → e = .SerializationError := by
  intro n
  induction n with
  | zero => intro inp e h; rw [lenGroups] at h; cases h
  | succ n ih =>
    intro inp e h
    rw [lenGroups] at h
    split at h
    · rename_i e' he; cases h; exact readVarint_err he
    · simp only at h
      split at h
      · rename_i e' he
        cases h
        split at he
        · split at he
          · cases he; rfl
          · split at he
            · rename_i e'' he'; cases he; exact checkedBoundedUsize_err he'
            · split at he
              · rename_i e'' he'; cases he; exact readVarint_err he'
              · split at he
                · rename_i e'' he'; cases he; exact checkedUsize_err he'
                · split at he
                  · cases he; rfl
                  · split at he
                    · cases he; rfl
                    · cases he
        · split at he
          · rename_i e'' he'; cases he; exact checkedBoundedUsize_err he'
          · split at he
            · cases he; rfl
            · cases he
      · split at h
        · cases h; rfl
        · split at h
          · cases h; rfl
          · exact ih _ _ h

theorem serializedLength2026_err {buf : Bytes} {mal : Nat} {strict : Bool} {e : Err}
    (h : serializedLength2026 buf mal strict = .error e) : e = .SerializationError := by
  unfold serializedLength2026 at h
  split at h
  · cases h; rfl
  · simp only at h
    split at h
    · rename_i e' he; cases h; exact readVarint_err he
    · split at h
      · rename_i e' he; cases h; exact checkedUsize_err he
      · split at h
        · rename_i e' he; cases h; exact lenGroups_err _ _ _ he
        · split at h
          · rename_i e' he; cases h; exact readVarint_err he
          · split at h
            · rename_i e' he; cases h; exact checkedUsize_err he
            · split at h
              · cases h; rfl
              · split at h
                · rename_i e' he; cases h; exact lenInstructions_err _ _ _ he
                · cases h

end Clvm.Serde2026
