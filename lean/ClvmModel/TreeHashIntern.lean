/-
`InternedTree::tree_hash()` on the result of C24's transcription of `intern_tree`
(`ClvmModel/Intern.lean`): the bridge between the interned tables and the allocator-node view that
`ObjectCache` + `treehash` (`ClvmModel/TreeHash.lean`) work on.
-/
import ClvmModel.Intern
import ClvmModel.TreeHash

namespace Clvm.TreeHash
open Clvm.Intern

/-- the node `new_allocator.new_atom(b)` created for `atoms[k]` -/
def newAtomNode (k : Nat) (b : Bytes) : NTree :=
  match Alloc.fitsInSmallAtom b with
  | some v => .u32 (smallId v) v
  | none => .buffer (bytesId k) b

/-- the allocator node behind an interned `NodePtr` (`none` for a dangling reference) -/
def nodeOf (atoms : List Bytes) (pairs : List (INode × INode)) (n : INode) : Option NTree :=
  match n with
  | .atom k => (atoms[k]?).map (newAtomNode k)
  | .pair k =>
    match pairs[k]? with
    | none => none
    | some (l, r) =>
      if _h : l.rank < k + 1 ∧ r.rank < k + 1 then
        match nodeOf atoms pairs l, nodeOf atoms pairs r with
        | some a, some b => some (.pair (pairId k) a b)
        | _, _ => none
      else none
termination_by n.rank
decreasing_by all_goals simp_all [INode.rank]

/-- `InternedTree::tree_hash()` on the result of `intern_tree`: the allocator node of the root, hashed by
`ObjectCache::new(treehash).get_or_calculate(.., None).expect(..)` -/
def treeHashOfInterned (it : InternedTree) : Except Err Bytes :=
  match nodeOf it.atoms it.pairs it.root with
  | some n => internedTreeHash n
  | none => .error (.Panic "dangling root NodePtr")

end Clvm.TreeHash
