import ClvmModel.Serde.Backref
import ClvmModel.Serde.SerBr
import ClvmModel.Proto.Util
namespace Clvm.Proto
open Clvm.Serde.Backref Clvm.Serde.TraversePath

/-- allocator preload of a `DE` line: `<heap_limit|-> <ghost_pairs> <ghost_atoms>` -/
def ctrOfArgs : List String → Option Ctr
  | [] => some Ctr.default
  | [hl, gp, ga] => do
    let c ← if hl == "-" then some Ctr.default else hl.toNat?.map Ctr.fresh
    let gp ← gp.toNat?
    let ga ← ga.toNat?
    some { c with ghostPairs := c.ghostPairs + gp, atoms := c.atoms + ga }
  | _ => none

def fmtDe (r : Except Err (Tree × Nat × Ctr)) : String :=
  match r with
  | .ok (t, _, c) => s!"ok {Wire.hexOfTree t} {c.pairCount} {c.pairs} {c.atoms} {c.heap}"
  | .error e => fmtErr e

/-- `DE br|brold <bytes> [<heap_limit|-> <ghost_pairs> <ghost_atoms>]`, `DE len <bytes>` -/
def handleDeBackref (args : List String) : Option String :=
  match args with
  | "br" :: h :: pre => do
    let b ← bytesOfHex h
    let c ← ctrOfArgs pre
    some (fmtDe (nodeFromBytesBackrefs b c))
  | "brold" :: h :: pre => do
    let b ← bytesOfHex h
    let c ← ctrOfArgs pre
    some (fmtDe (nodeFromBytesBackrefsOld b c))
  | ["len", h] => do
    let b ← bytesOfHex h
    match serializedLengthFromBytes b with
    | .ok n => some s!"ok {n}"
    | .error e => some (fmtErr e)
  | _ => none

/-- a proper CLVM list as a Lean list (`none` when the terminator is not nil) -/
def listOfTree : Tree → Option (List Tree)
  | .atom [] => some []
  | .atom _ => none
  | .pair x r => (listOfTree r).map (x :: ·)

/-- `PATH slow <path> <tree>` | `PATH fast <n> <tree>` | `PATH vec <path> <stack-list>` (the stack
list is in `Vec` order: first item = bottom of the stack; all caches empty) -/
def handlePath (args : List String) : Option String :=
  match args with
  | ["slow", ph, th] => do
    let p ← bytesOfHex ph
    let t ← Wire.treeOfHex th
    match traversePath p t with
    | .ok (cost, r) => some s!"ok {cost} {Wire.hexOfTree r}"
    | .error e => some (fmtErr e)
  | ["fast", n, th] => do
    let n ← n.toNat?
    let t ← Wire.treeOfHex th
    match traversePathFast n t with
    | .ok (cost, r) => some s!"ok {cost} {Wire.hexOfTree r}"
    | .error e => some (fmtErr e)
  | ["vec", ph, sh] => do
    let p ← bytesOfHex ph
    let st ← Wire.treeOfHex sh
    let items ← listOfTree st
    let c := { Ctr.default with ghostPairs := items.length }
    match traversePathWithVec p (items.map (·, none)) c with
    | .ok (r, _, _) => some s!"ok {Wire.hexOfTree r}"
    | .error e => some (fmtErr e)
  | _ => none

/-- `SER br <limit|-> <tree>` -/
def handleSerBackref (args : List String) : Option String :=
  match args with
  | ["br", lim, th] => do
    let t ← Wire.treeOfHex th
    let r ← if lim == "-" then some (Serde.SerBr.nodeToBytesBackrefs t)
            else (lim.toNat?).map (Serde.SerBr.nodeToBytesBackrefsLimit t)
    match r with
    | .ok b => some ("ok " ++ hexOfBytes b)
    | .error e => some (fmtErr e)
  | _ => none

end Clvm.Proto
