import ClvmModel.Serde.Incremental
import ClvmModel.Proto.Util
/-!
`INC <id> <sentinel> <history> out=<outs>` — validation of an incremental-serializer history recorded
from the real crate (see `harness/src/incremental.rs` for the grammar).  The model runs its own
`Ser.add` / `Ser.restore` with the *checked replay policy* of each step and answers
`ok <r1>,<r2>,… <complete|partial>` when every recorded step is reproduced, every recorded
back-reference is valid for the parse-stack mirror and (on completion) `deBrNew` decodes the final
bytes to the assembled tree; `err invalid` otherwise.  `INCWHY` (model only) names the failed check.
-/
namespace Clvm.Proto
open Clvm.Serde.Incremental

def parseSent (s : String) : Option (Option Bytes) :=
  if s == "none" then some none
  else
    match s.splitOn ":" with
    | ["pair", m] => (bytesOfHex m).map some
    | ["atom", m] => (bytesOfHex m).map some
    | _ => none

def parseReq (s : String) : Option Req :=
  match s.splitOn ":" with
  | ["add", h] => (Wire.treeOfHex h).map Req.add
  | ["adds", h] => (Wire.treeOfHex h).map Req.add
  | ["undo", k] => k.toNat?.map Req.undo
  | ["undo0", k] => k.toNat?.map Req.undo
  | _ => none

def parseRec (s : String) : Option Rec :=
  if s == "p" then some .panicked
  else
    match s.splitOn ":" with
    | ["0", h] => (bytesOfHex h).map (Rec.added false)
    | ["1", h] => (bytesOfHex h).map (Rec.added true)
    | ["u", h] => (bytesOfHex h).map Rec.undone
    | _ => none

/-- are the undo positions meaningful (same rule as the harness) -/
def indicesOk : List (Req × Rec) → Nat → Nat → Bool
  | [], _, _ => true
  | (.add _, .added _ _) :: r, n, _ => indicesOk r (n + 1) (n + 1)
  | (.add _, .panicked) :: r, n, avail => indicesOk r n avail
  | (.undo k, .undone _) :: r, _, avail => if k < 1 || k > avail then false else indicesOk r (k - 1) k
  | _, _, _ => false

def fmtRec : Rec → String
  | .added d out => s!"{if d then 1 else 0}:{out.length}"
  | .undone out => s!"u:{out.length}"
  | .panicked => "p"

def incRequest (args : List String) : Option (Option Bytes × List (Req × Rec)) :=
  match args with
  | [sent, hist, outs] => do
    let sentinel ← parseSent sent
    if !outs.startsWith "out=" then none
    let reqs ← (hist.splitOn ";").mapM parseReq
    let recs ← (((outs.drop 4).toString).splitOn ";").mapM parseRec
    if reqs.length != recs.length then none
    let steps := reqs.zip recs
    if !indicesOk steps 0 0 then none
    some (sentinel, steps)
  | _ => none

def handleIncWith (why : Bool) (args : List String) : Option String := do
  let (sentinel, steps) ← incRequest args
  -- `INCWHY`: the strict check the theorems are about; `INC`: the lenient verdict (see the model)
  match (if why then validate sentinel steps else validateLenient sentinel steps) with
  | .ok r =>
    some s!"ok {",".intercalate (steps.map (fun x => fmtRec x.2))} {if r.done then "complete" else "partial"}"
  | .error e => some (if why then "err " ++ e else "err invalid")

def handleInc (args : List String) : Option String := handleIncWith false args
def handleIncWhy (args : List String) : Option String := handleIncWith true args

end Clvm.Proto
