import ClvmModel.Serde.Incremental
import ClvmModel.Serde.TreeCache
import ClvmModel.Proto.Util
/-!
`INC <id> <sentinel> <history> out=<outs>` (grammar: `harness/src/incremental.rs`).

The Lean side runs the **faithful** model (`Serde/TreeCache.lean`: `TreeCache` + `Serializer`) on the
history and compares, step by step, its own verdicts and bytes with the ones recorded from the real
crate — exactly.  Replies:
* `err model-differs step=<i> model=<what the model has>`: the crate's recorded step is not what the model computes
  (never equal to an implementation reply: a correspondence break);
* `ok <r1>,… <complete|partial>`: all steps agree and (if complete) `deBrNew` decodes the final bytes
  to the tree assembled from the retained additions;
* `err wrong-decode known=<tag>`: all steps agree, the history is complete and the bytes do **not**
  decode to the assembled tree — a violation of C19 that the model *reproduces*.  `<tag>` names the
  shape of the history (`L-…`, `N-…`, `M-…`, or `none`), computed from the request alone by the same
  rule on both sides; `./check` reports an agreed wrong decode under that known finding and everything
  else (the model does not reproduce the bytes, or no known shape) as a new violation.
* `err protocol-model-rejects`: (never expected) the faithful model agrees and the bytes decode, but the
  strict validator of the *protocol* model (`validate`, what the C19 theorems are about) rejects an
  undo-free history.
`INCWHY` (model only): the verdict of `validate` alone.
-/
namespace Clvm.Proto
open Clvm.Serde.Incremental Clvm.Serde.TreeCache

def parseSent (s : String) : Option (Option Bytes) :=
  if s == "none" then some none
  else
    match s.splitOn ":" with
    | ["pair", m] => (bytesOfHex m).map some
    | ["atom", m] => (bytesOfHex m).map some
    | _ => none

inductive FReq where
  | add (shared : Bool) (t : Tree)
  | undo (k : Nat) (oldest : Bool)

def parseFReq (s : String) : Option FReq :=
  match s.splitOn ":" with
  | ["add", h] => (Wire.treeOfHex h).map (FReq.add false)
  | ["adds", h] => (Wire.treeOfHex h).map (FReq.add true)
  | ["undo", k] => k.toNat?.map (FReq.undo · false)
  | ["undo0", k] => k.toNat?.map (FReq.undo · true)
  | _ => none

def FReq.toReq : FReq → Req
  | .add _ t => .add t
  | .undo k _ => .undo k

def parseRec (s : String) : Option Rec :=
  if s == "p" then some .panicked
  else
    match s.splitOn ":" with
    | ["0", h] => (bytesOfHex h).map (Rec.added false)
    | ["1", h] => (bytesOfHex h).map (Rec.added true)
    | ["u", h] => (bytesOfHex h).map Rec.undone
    | _ => none

/-- are the undo positions meaningful (same rule as the harness) -/
def indicesOk : List (FReq × Rec) → Nat → Nat → Bool
  | [], _, _ => true
  | (.add _ _, .added _ _) :: r, n, _ => indicesOk r (n + 1) (n + 1)
  | (.add _ _, .panicked) :: r, n, avail => indicesOk r n avail
  | (.undo k _, .undone _) :: r, _, avail => if k < 1 || k > avail then false else indicesOk r (k - 1) k
  | _, _, _ => false

def fmtRec : Rec → String
  | .added d out => s!"{if d then 1 else 0}:{out.length}"
  | .undone out => s!"u:{out.length}"
  | .panicked => "p"

def incRequest (args : List String) : Option (Option Bytes × List (FReq × Rec)) :=
  match args with
  | [sent, hist, outs] => do
    let sentinel ← parseSent sent
    if !outs.startsWith "out=" then none
    let reqs ← (hist.splitOn ";").mapM parseFReq
    let recs ← (((outs.drop 4).toString).splitOn ";").mapM parseRec
    if reqs.length != recs.length then none
    let steps := reqs.zip recs
    if !indicesOk steps 0 0 then none
    some (sentinel, steps)
  | _ => none

/-! ### the shape tag of a history (same rule in `harness/src/incremental.rs::shape_tag`) -/

def countMarker (m : Bytes) : Tree → Nat
  | .atom b => if b = m then 1 else 0
  | .pair l r => countMarker m l + countMarker m r

def isAdd : FReq → Bool
  | .add _ _ => true
  | .undo _ _ => false

/-- L: an addition with ≥ 2 sentinels, followed (anywhere later) by another addition -/
def shapeL (m : Bytes) : List FReq → Bool
  | [] => false
  | .add _ t :: r => (countMarker m t ≥ 2 && r.any isAdd) || shapeL m r
  | _ :: r => shapeL m r

/-- pairs with a sentinel below, in post-order (left, right, node) -/
def holedPairs (m : Bytes) : Tree → List Tree → Bool × List Tree
  | .atom b, acc => (b = m, acc)
  | .pair l r, acc =>
    let (hl, acc1) := holedPairs m l acc
    let (hr, acc2) := holedPairs m r acc1
    if hl || hr then (true, Tree.pair l r :: acc2) else (false, acc2)

def hasDup : List Tree → Bool
  | [] => false
  | x :: r => r.contains x || hasDup r

/-- N: the same sentinel-containing pair occurs twice among the `adds` trees -/
def shapeN (m : Bytes) (steps : List FReq) : Bool :=
  hasDup (steps.foldl (fun acc s => match s with
    | .add true t => (holedPairs m t acc).2
    | _ => acc) [])

/-- M: an undo followed (anywhere later) by an addition -/
def shapeM : List FReq → Bool
  | [] => false
  | .undo _ _ :: r => r.any isAdd || shapeM r
  | _ :: r => shapeM r

def shapeTag (sentinel : Option Bytes) (steps : List FReq) : String :=
  match sentinel with
  | some m =>
    if shapeL m steps then "L-incremental-multi-sentinel"
    else if shapeN m steps then "N-incremental-shared-sentinel-node"
    else if shapeM steps then "M-incremental-undo-stale-parents"
    else "none"
  | none => if shapeM steps then "M-incremental-undo-stale-parents" else "none"

/-! ### running the faithful model -/

structure FRun where
  s : FSer
  /-- undos[i]: the still valid undo states for position i+1, oldest first -/
  undos : List (List FUndo)
  trees : List Tree
  done : Bool
  next : Nat   -- next free `NodePtr` number for `add:` steps

def listSet {α : Type} (l : List α) (i : Nat) (x : α) : List α :=
  if i < l.length then l.set i x else l ++ [x]

/-- one step of the model; the outcome in the notation of the recorded outputs -/
def fStep (r : FRun) : FReq → Except Err (FRun × Rec)
  | .add shared t =>
    let (node, next) := if shared then (labelShared t, r.next) else labelFresh t r.next
    match r.s.add node with
    | .error (.Panic m) =>
      -- the entry assertion of `add` (called after completion) leaves the serializer untouched
      if r.done then .ok ({ r with next := next }, .panicked) else .error (.Panic m)
    | .error e => .error e
    | .ok (s', done, u) =>
      let i := r.trees.length
      let us := (r.undos.take (i + 1))
      let cur := us.getD i []
      .ok ({ s := s', undos := listSet us i (cur ++ [u]), trees := r.trees ++ [t], done := done, next := next },
           .added done s'.output.buf)
  | .undo k oldest =>
    match r.undos[k - 1]? with
    | none => .error (.InvalidOpArg "undo index")
    | some us =>
      match (if oldest then us.head? else us.getLast?) with
      | none => .error (.InvalidOpArg "undo index")
      | some u =>
        match r.s.restore u with
        | .error e => .error e
        | .ok s' =>
          .ok ({ r with s := s', undos := r.undos.take k, trees := r.trees.take (k - 1), done := false }, .undone s'.output.buf)

def recEq : Rec → Rec → Bool
  | .added d o, .added d' o' => d == d' && o == o'
  | .undone o, .undone o' => o == o'
  | .panicked, .panicked => true
  | _, _ => false

def recFull : Rec → String
  | .added d out => s!"{if d then 1 else 0}:{hexOrDash out}"
  | .undone out => s!"u:{hexOrDash out}"
  | .panicked => "p"

/-- all steps; `.error (i, what the model has)` at the first step that differs from the record -/
def fSteps (r : FRun) : List (FReq × Rec) → Nat → Except (Nat × String) FRun
  | [], _ => .ok r
  | (q, c) :: rest, i =>
    match fStep r q with
    | .error e => .error (i, fmtErr e)
    | .ok (r', got) => if recEq got c then fSteps r' rest (i + 1) else .error (i, recFull got)

def handleInc (args : List String) : Option String := do
  let (sentinel, steps) ← incRequest args
  match fSteps { s := FSer.new sentinel, undos := [], trees := [], done := false, next := 0 } steps 1 with
  | .error (i, what) => some s!"err model-differs step={i} model={what}"
  | .ok r =>
    let sizes := ",".intercalate (steps.map (fun x => fmtRec x.2))
    if !r.done then some s!"ok {sizes} partial"
    else
      let good : Bool :=
        match assemble sentinel r.trees with
        | none => false
        | some want =>
          match Clvm.Serde.Backref.deBrNew r.s.output.buf [.sexp] [] Clvm.Serde.Backref.Ctr.default with
          | .ok (t, rest, _) => t == want && rest.isEmpty
          | .error _ => false
      if good then
        -- tie of the *protocol* model (the one the C19 theorems are about) to the same run: on a history
        -- without undo whose bytes decode correctly its strict validator must accept the recorded bytes
        -- (with undo it may object to a back-reference inside an addition that was undone later)
        let noUndo := steps.all (fun x => isAdd x.1)
        if noUndo && !(match validate sentinel (steps.map (fun x => (x.1.toReq, x.2))) with
            | .ok _ => true
            | .error _ => false) then
          some "err protocol-model-rejects"
        else some s!"ok {sizes} complete"
      else some s!"err wrong-decode known={shapeTag sentinel (steps.map (·.1))}"

/-- `INCWHY`: the strict validation of the protocol model -/
def handleIncWhy (args : List String) : Option String := do
  let (sentinel, steps) ← incRequest args
  let steps' := steps.map (fun x => (x.1.toReq, x.2))
  match validate sentinel steps' with
  | .ok r =>
    some s!"ok {",".intercalate (steps'.map (fun x => fmtRec x.2))} {if r.done then "complete" else "partial"}"
  | .error e => some ("err " ++ e)

end Clvm.Proto
