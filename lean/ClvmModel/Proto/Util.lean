import ClvmModel.Basic
namespace Clvm.Proto

def fmtErr (e : Err) : String :=
  match e with
  | .Panic _ => "panic"
  | .Abort _ => "abort"
  | e => "err " ++ e.kind

def splitOn1 (s : String) (sep : String) : List String := s.splitOn sep

def parseInt? (s : String) : Option Int := s.toInt?

end Clvm.Proto
