import ClvmModel.Proto.PyGlue
namespace Clvm.Proto

/-- request kinds of the Python-wheel correspondence (C26–C28) that the model answers;
the others (`PYRUN`, `PYSERDE`, `PYCRUN`) are answered by the two implementations only. -/
def handlePy (kind : String) (args : List String) : Option String :=
  match kind with
  | "PYGLUE" => handlePyGlue args
  | _ => none

end Clvm.Proto
