import ClvmModel.Proto.PyGlue
import ClvmModel.Proto.PySerDe
import ClvmModel.Proto.PyCastsCurry
namespace Clvm.Proto

/-- request kinds of the Python-wheel correspondence (C26–C28) that the model answers;
the others (`PYRUN`, `PYSERDE`, `PYCRUN`) are answered by the two implementations only. -/
def handlePy (kind : String) (args : List String) : Option String :=
  match kind with
  | "PYGLUE" => handlePyGlue args
  | "PYSER" => handlePySer args
  | "PYPFX" => handlePyPfx args
  | "PYDE" => handlePyDe args
  | "PYINT" => handlePyInt args
  | "PYCURRY" => handlePyCurry args
  | "PYUNCURRY" => handlePyUncurry args
  | _ => none

end Clvm.Proto
