import ClvmModel.Py.Glue
import ClvmModel.Proto.Util
namespace Clvm.Proto
open Clvm.Py.Glue

def pyHex8 (n : Nat) : String :=
  String.ofList ((List.range 8).reverse.map (fun i => hexDigit ((n / 16 ^ i) % 16)))

def pyParseHexNat (s : String) : Option Nat :=
  s.toList.foldl (fun acc c => match acc, hexVal c with
    | some a, some d => some (a * 16 + d)
    | _, _ => none) (some 0)

def pyErrOfKind (k : String) : Option Err :=
  match k with
  | "SerializationError" => some .SerializationError
  | "SerializationBackreferenceError" => some .SerializationBackreferenceError
  | "OutOfMemory" => some .OutOfMemory
  | "PathIntoAtom" => some .PathIntoAtom
  | "TooManyPairs" => some .TooManyPairs
  | "TooManyAtoms" => some .TooManyAtoms
  | "CostExceeded" => some .CostExceeded
  | "UnknownSoftforkExtension" => some .UnknownSoftforkExtension
  | "SoftforkCostMismatch" => some .SoftforkCostMismatch
  | "InternalError" => some (.InternalError "payload")
  | "Raise" => some .Raise
  | "InvalidNilTerminator" => some .InvalidNilTerminator
  | "DivisionByZero" => some .DivisionByZero
  | "ValueStackLimitReached" => some .ValueStackLimitReached
  | "EnvironmentStackLimitReached" => some .EnvironmentStackLimitReached
  | "ShiftTooLarge" => some .ShiftTooLarge
  | "Reserved" => some .Reserved
  | "Invalid" => some .Invalid
  | "Unimplemented" => some .Unimplemented
  | "InvalidOpArg" => some (.InvalidOpArg "payload")
  | "InvalidAllocArg" => some (.InvalidAllocArg "payload")
  | "BLSPairingIdentityFailed" => some .BLSPairingIdentityFailed
  | "BLSVerifyFailed" => some .BLSVerifyFailed
  | "Secp256Failed" => some .Secp256Failed
  | "SoftforkStackDepthExceeded" => some .SoftforkStackDepthExceeded
  | _ => none

def pyUs (s : String) : String := s.replace " " "_"

/-- `PYGLUE flags:<hex>` | `auto:<hex>` | `e2026:<hex>:<Kind>` | `msg:<Kind>` -/
def handlePyGlue (args : List String) : Option String :=
  match args with
  | [a] =>
    match a.splitOn ":" with
    | ["flags", h] => do
      let w ← pyParseHexNat h
      let (f, lim) := runSetup w
      some s!"ok {pyHex8 f} {lim}"
    | ["auto", h] => do
      let b ← bytesOfHex h
      match deserAuto b with
      | (.serde2026, body) => some ("ok 2026 " ++ hexOrDash body)
      | (.backrefs, whole) => some ("ok backrefs " ++ hexOrDash whole)
    | ["e2026", h, k] => do
      let b ← bytesOfHex h
      let e ← pyErrOfKind k
      let m ← deser2026Message b e
      some ("ok " ++ pyUs m)
    | ["msg", k] => do
      let e ← pyErrOfKind k
      let (m, n) ← adaptErr e
      some ("ok " ++ pyUs m ++ (if n then " node" else " nil"))
    | _ => none
  | _ => none

end Clvm.Proto
