/-
Protocol handler for the reference side of property C01.

`REF <id> <budget> <prog-hex> <env-hex> [nocanon]` ↦ the outcome of the *adapted reference*
(`Clvm.Ref.runWith` with `Adapter.consensus …`) in the coarse format both sides share:

    ok <cost> <result-hex>  |  err <class>  |  unsupported

`unsupported` = the run applied an operator outside the classic set (`RefErr.outOfDomain`): the
case is outside C01 and skipped by the driver.  The class of a failure is canonicalised by
`Adapter.costCheckOrder` (second run without a budget); when program or environment mention
opcode 36 the class is not compared at all (`err *`): inside a softfork guard a budget is always in
force, so which of two errors is met first is not canonical.

The parameters of the adapters that belong to the implementation (which opcodes are assigned,
guard cost, known extensions, stack limit) are taken from the generated constants
(`Gen.chiaOpTable`, `Gen.chiaOp4Table`, `Gen.GUARD_COST`, `Gen.STACK_SIZE_LIMIT`) and from
`chiaDialect`'s `softfork_extension` under default flags.
-/
import ClvmModel.Spec.Ref
import ClvmModel.Proto.Run

namespace Clvm.Proto
open Clvm

/-- the classic operator set of C01: opcodes 1–36 without 29 and 30 -/
def classicOpcode (op : Nat) : Bool := 1 ≤ op && op ≤ 36 && op != 29 && op != 30

/-- opcodes `ChiaDialect::op` assigns under flags `fl` that are not classic -/
def assignedWith (fl : Nat) : List Bytes :=
  (Gen.chiaOpTable.filterMap (fun (op, _, req) =>
    if (req == 0 || Interp.hasFlag fl req) && !classicOpcode op then some [UInt8.ofNat op] else none))
  ++ Gen.chiaOp4Table.map (fun (op, _) => Py.Casts.toBytesUnsigned 4 op)

/-- flags an extension adds inside its guard (`ChiaDialect::op`, default flags) -/
def extensionFlags (ext : Nat) : Nat :=
  match (Interp.chiaDialect {} noExtra 0).softforkExtension ext with
  | .Keccak => Gen.FLAG_ENABLE_KECCAK_OPS_OUTSIDE_GUARD
  | .PreHardFork => Gen.FLAG_ENABLE_KECCAK_OPS_OUTSIDE_GUARD
  | _ => 0

def knownExtension (ext : Nat) : Bool :=
  (Interp.chiaDialect {} noExtra 0).softforkExtension ext != .Default

/-- the adapters of C01 (`lenient` switches the finding `Adapter.lenientOperandLists` on) -/
def c01Adapters (lenient : Bool) : Ref.Adapters :=
  Ref.Adapter.consensus (assignedWith 0) (fun ext => assignedWith (extensionFlags ext))
    Gen.GUARD_COST knownExtension Gen.STACK_SIZE_LIMIT lenient

def refFuel : Nat := 200000000

/-- the adapted reference at a `u64` budget (`0` = unlimited) -/
def adaptedRun (lenient : Bool) (prog env : Tree) (budget : Nat) : Option Ref.Res :=
  Ref.runWith (c01Adapters lenient) refFuel prog env (Ref.Adapter.u64Budget budget)

def mentions36 : Tree → Bool
  | .atom b => b.map UInt8.toNat == [0x24]
  | .pair l r => mentions36 l || mentions36 r

def classed (r : Ref.Res) : Except String (Nat × Tree) :=
  match r with
  | .ok x => .ok x
  | .error e => .error e.name

/-- outcome of one flavour of the reference in the shared format; `none` = out of fuel -/
def refOutcome (lenient : Bool) (prog env : Tree) (budget : Nat) (canon : Bool := true) : Option String := do
  let atB ← adaptedRun lenient prog env budget
  match atB with
  | .ok (cost, t) => some s!"ok {cost} {Wire.hexOfTree t}"
  | .error .outOfDomain => some "unsupported"
  | .error _ =>
    if !canon || mentions36 prog || mentions36 env then some "err *"
    else
      let unb ← if budget == 0 then some atB else adaptedRun lenient prog env 0
      match unb with
      | .error .outOfDomain => some "unsupported"
      | _ =>
        match Ref.Adapter.costCheckOrder (classed atB) (classed unb) with
        | .ok _ => none
        | .error k => some ("err " ++ k)

/-- `REF <budget> <prog> <env>`.  The reply is the adapted reference's outcome; where the strict
and the lenient reading of operand lists differ (the region of finding `C01-lenient-lists`) the
lenient one — what `clvm_rs` is known to do — is reported, so that the stream flags any *other*
difference and also a change of this one. -/
def handleRef (args : List String) : Option String :=
  match args with
  | bud :: ph :: eh :: opt => do
    let budget ← bud.toNat?
    let prog ← Wire.treeOfHex ph
    let env ← Wire.treeOfHex eh
    -- trailing `nocanon`: the class of a failure is not canonicalised (stress programs that only
    -- terminate under a budget)
    match refOutcome true prog env budget (opt != ["nocanon"]) with
    | some s => some s
    | none => some "unsupported"
  | _ => none

/-- `REFPY <mode> <budget> <prog> <env>`: `mode` = `py` (the Python, no adapters), `strict`
(all consensus adapters, operand lists as the Python reads them) or `lenient`; raw class, no
canonicalisation.  For replaying findings by hand. -/
def handleRefPy (args : List String) : Option String :=
  match args with
  | [mode, bud, ph, eh] => do
    let budget ← bud.toNat?
    let prog ← Wire.treeOfHex ph
    let env ← Wire.treeOfHex eh
    let r ← match mode with
      | "py" => some (Ref.run refFuel prog env (if budget == 0 then none else some budget))
      | "strict" => some (adaptedRun false prog env budget)
      | "lenient" => some (adaptedRun true prog env budget)
      | _ => none
    match r with
    | none => some "unsupported"
    | some (.ok (cost, t)) => some s!"ok {cost} {Wire.hexOfTree t}"
    | some (.error e) => some ("err " ++ e.name)
  | _ => none

end Clvm.Proto
