import ClvmModel.Py.Ser
import ClvmModel.Py.De
import ClvmModel.Proto.Util
namespace Clvm.Proto
open Clvm.Py

/-- `PYSER <tree-hex>` -/
def handlePySer (args : List String) : Option String :=
  match args with
  | [h] => do
    let t ← Wire.treeOfHex h
    match Ser.sexpToBytes t with
    | .ok b => some ("ok " ++ hexOfBytes b)
    | .error _ => some "err"
  | _ => none

/-- `PYPFX <len> <first-byte-hex>`: what `atom_to_byte_iterator` yields before the body -/
def handlePyPfx (args : List String) : Option String :=
  match args with
  | [l, f] => do
    let n ← l.toNat?
    let fb ← bytesOfHex f
    let first ← fb.head?
    if n ≤ 1 then
      let body := List.replicate n first
      match Ser.atomToBytes body with
      | .ok b => some ("ok " ++ hexOrDash (b.take (b.length - n)))
      | .error _ => some "err"
    else
      match Ser.sizeBlobForBlob n with
      | .ok p => some ("ok " ++ hexOrDash p)
      | .error _ => some "err"
  | _ => none

/-- `PYDE <hex>` -/
def handlePyDe (args : List String) : Option String :=
  match args with
  | [h] => do
    let b ← bytesOfHex h
    match De.sexpFromStream b with
    | .ok (t, rest) => some s!"ok {Wire.hexOfTree t} {b.length - rest.length}"
    | .error _ => some "err"
  | _ => none

end Clvm.Proto
