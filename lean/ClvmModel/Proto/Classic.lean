import ClvmModel.Serde.Classic
import ClvmModel.Proto.Util
namespace Clvm.Proto
open Clvm.Serde.Classic

/-- `SER classic <limit|-> <tree>` -/
def handleSerClassic (args : List String) : Option String :=
  match args with
  | ["classic", lim, th] => do
    let t ← Wire.treeOfHex th
    let r ← if lim == "-" then some (nodeToBytes t) else (lim.toNat?).map (nodeToBytesLimit t)
    match r with
    | .ok b => some ("ok " ++ hexOfBytes b)
    | .error e => some (fmtErr e)
  | _ => none

/-- `DE classic|lent|canon <bytes>` -/
def handleDeClassic (args : List String) : Option String :=
  match args with
  | [fmt, h] => do
    let b ← bytesOfHex h
    match fmt with
    | "classic" =>
      match nodeFromBytesConsumed b with
      | .ok (t, n) => some s!"ok {Wire.hexOfTree t} {n}"
      | .error e => some (fmtErr e)
    | "lent" =>
      match serializedLengthTrusted b with
      | .ok n => some s!"ok {n}"
      | .error e => some (fmtErr e)
    | "canon" =>
      match isCanonicalSerialization b with
      | .ok v => some s!"ok {v}"
      | .error e => some (fmtErr e)
    | _ => none
  | _ => none

/-- `LEN atom <bytes>` | `LEN cache <tree>` -/
def handleLen (args : List String) : Option String :=
  match args with
  | ["atom", h] => do
    let b ← bytesOfHex h
    some s!"ok {serializedLengthAtom b}"
  | ["cache", th] => do
    let t ← Wire.treeOfHex th
    some s!"ok {cacheSerializedLength t}"
  | _ => none

/-- `PFX <len> <first-byte>`: prefix bytes and total length, O(1) -/
def handlePfx (args : List String) : Option String :=
  match args with
  | [l, f] => do
    let n ← l.toNat?
    let fb ← bytesOfHex f
    let first := match fb with
      | [x] => x.toNat
      | _ => 0
    let atom0 := if n == 0 then 0 else first
    match writePrefix { out := [], limit := none } atom0 n with
    | .ok w => some s!"ok {hexOrDash w.out} {w.out.length + n}"
    | .error e => some (fmtErr e)
  | _ => none

end Clvm.Proto
