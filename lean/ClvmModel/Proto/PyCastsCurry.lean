/-
Protocol handlers for the pure-Python helpers of the wheel (C28):
`PYINT` (casts.py), `PYCURRY`, `PYUNCURRY` (curry_and_treehash.py through `Program`).
-/
import ClvmModel.Proto.Util
import ClvmModel.Basic
import ClvmModel.Tree
import ClvmModel.TreeHash
import ClvmModel.Py.Casts
import ClvmModel.Py.Curry

namespace Clvm.Proto
open Clvm Clvm.Py

/-- the items of a proper (nil-terminated) list; `none` if improper -/
def pyItemsOf : Tree → Option (List Tree)
  | .atom b => if b.isEmpty then some [] else none
  | .pair x rest => (pyItemsOf rest).map (x :: ·)

/-- `PYINT <id> to:<decimal>` ⇒ `ok <hex of int_to_bytes(v) or ->`;
`PYINT <id> from:<hex or ->` ⇒ `ok <decimal of int_from_bytes(b)>` -/
def handlePyInt (args : List String) : Option String :=
  match args with
  | [a] =>
    match a.splitOn ":" with
    | ["to", d] => do
      let v ← d.toInt?
      some ("ok " ++ hexOrDash (Casts.intToBytes v))
    | ["from", h] => do
      let b ← bytesOfHex h
      some ("ok " ++ toString (Casts.intFromBytes b))
    | _ => none
  | _ => none

/-- `PYCURRY <id> <mod> <proper list of args>` ⇒
`ok <Program.curry> <Program.curry_hash of the args' tree hashes> <tree hash of the curried program>`.
The hash functions are the Python `shatree_atom` / `shatree_pair` (`Clvm.TreeHash.shatreeAtom/Pair`,
the same functions as `tree_hash_atom` / `tree_hash_pair`). -/
def handlePyCurry (args : List String) : Option String :=
  match args with
  | [modHex, argsHex] => do
    let m ← Wire.treeOfHex modHex
    let l ← Wire.treeOfHex argsHex
    let as ← pyItemsOf l
    let c := Curry.curry m as
    let hs := as.map TreeHash.treeHash
    match Curry.curryHash TreeHash.shatreeAtom TreeHash.shatreePair m hs with
    | .ok h =>
      some ("ok " ++ Wire.hexOfTree c ++ " " ++ hexOfBytes h ++ " " ++ hexOfBytes (TreeHash.treeHash c))
    | .error _ => some "exc ValueError"
  | _ => none

/-- `PYUNCURRY <id> <prog>` ⇒ `ok <mod> <proper list of args>` | `ok <prog> none` -/
def handlePyUncurry (args : List String) : Option String :=
  match args with
  | [progHex] => do
    let p ← Wire.treeOfHex progHex
    match Curry.uncurry p with
    | (m, some as) => some ("ok " ++ Wire.hexOfTree m ++ " " ++ Wire.hexOfTree (Tree.ofList as))
    | (m, none) => some ("ok " ++ Wire.hexOfTree m ++ " none")
  | _ => none

end Clvm.Proto
