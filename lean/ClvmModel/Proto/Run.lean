import ClvmModel.Interp.Machine
import ClvmModel.Proto.Util
namespace Clvm.Proto
open Clvm Clvm.Interp

def parseHexNat (s : String) : Option Nat :=
  s.toList.foldl (fun acc c => match acc, hexVal c with
    | some a, some d => some (a * 16 + d)
    | _, _ => none) (some 0)

/-- counters after building a tree the way the harness does (`nil()`/`one()` are free, every other
atom is one `new_atom`, every pair one `new_pair`) -/
def buildCtr : Tree → Interp.Ctr → Interp.Ctr
  | .atom b, c =>
    if b.isEmpty || b == [1] then c
    else { c with atoms := c.atoms + 1, heap := c.heap + b.length }
  | .pair l r, c =>
    let c := buildCtr l c
    let c := buildCtr r c
    { c with pairs := c.pairs + 1 }

/-- operators this model does not implement yet (crypto operators are supplied by `extra`) -/
def noExtra : String → Option OpFn := fun _ => none

def fmtRun (c0 : Interp.Ctr) : Option (Except Err (Nat × Val × Interp.Ctr)) → String
  | none => "unsupported"
  | some (.error e) => fmtErr e
  | some (.ok (cost, v, c)) =>
    s!"ok {cost} {Wire.hexOfTree v.erase} {c.atoms - c0.atoms} {c.pairs - c0.pairs} {c.heap - c0.heap}"

/-- the *standard operator-name table*: operator names at the opcodes the Chia language assigns to them
(the table a user of `RuntimeDialect` passes in; the same literal table as
`harness::run::standard_op_map`).  It is pinned here, not derived from the sources: which function a
name resolves to is `f_table.rs`'s business (`Gen.fTableNames`), which function an opcode resolves to is
`ChiaDialect::op`'s (`Gen.chiaOpTable`), and C30 says the two agree through this table. -/
def standardOpMap : List (String × Bytes) :=
  [("op_if", [3]), ("op_cons", [4]), ("op_first", [5]), ("op_rest", [6]), ("op_listp", [7]), ("op_raise", [8]),
   ("op_eq", [9]), ("op_gr_bytes", [10]), ("op_sha256", [11]), ("op_substr", [12]), ("op_strlen", [13]),
   ("op_concat", [14]), ("op_add", [16]), ("op_subtract", [17]), ("op_multiply", [18]), ("op_div", [19]),
   ("op_divmod", [20]), ("op_gr", [21]), ("op_ash", [22]), ("op_lsh", [23]), ("op_logand", [24]),
   ("op_logior", [25]), ("op_logxor", [26]), ("op_lognot", [27]), ("op_point_add", [29]),
   ("op_pubkey_for_exp", [30]), ("op_not", [32]), ("op_any", [33]), ("op_all", [34]),
   ("op_g1_subtract", [49]), ("op_g1_multiply", [50]), ("op_g1_negate", [51]), ("op_g2_add", [52]),
   ("op_g2_subtract", [53]), ("op_g2_multiply", [54]), ("op_g2_negate", [55]), ("op_g1_map", [56]),
   ("op_g2_map", [57]), ("op_bls_pairing_identity", [58]), ("op_bls_verify", [59]), ("op_modpow", [60]),
   ("op_mod", [61])]

/-- `RUN <dialect> <flags> <budget> <headroom|-> <prog> <env> [tags]` -/
def handleRunWith (cfg : Cfg) (extra : String → Option OpFn) (args : List String) : Option String :=
  match args with
  | dialect :: fl :: bud :: heap :: ph :: eh :: rest => do
    let flags ← parseHexNat fl
    let budget ← bud.toNat?
    let prog ← Wire.treeOfHex ph
    let env ← Wire.treeOfHex eh
    let tags := (rest.headD "").toList
    let (p, t1) := Val.ofTreeTagged prog tags
    let (e, _) := Val.ofTreeTagged env t1
    let flags := flags &&& Gen.allFlagBits        -- `ClvmFlags::from_bits_truncate`
    let c0 : Interp.Ctr ←
      if heap == "-" then some (Interp.Ctr.new (2 ^ 32 - 1))
      else do
        let h ← heap.toNat?
        let built := buildCtr env (buildCtr prog (Interp.Ctr.new 0))
        some { built with heapLimit := built.heap + h }
    let c0 := if heap == "-" then c0 else c0
    let d ← match dialect with
      | "chia" => some (chiaDialect cfg extra flags)
      | "runtime" => some (runtimeDialect cfg extra standardOpMap 1 2 flags)
      | _ => none
    some (fmtRun c0 (runProgram cfg d 200000000 c0 p e budget))
  | _ => none

/-- `OP <op_fn_name> <flags> <budget> <args> [tags]` -/
def handleOpWith (cfg : Cfg) (extra : String → Option OpFn) (args : List String) : Option String :=
  match args with
  | name :: fl :: bud :: ah :: rest => do
    let flags ← parseHexNat fl
    let budget ← bud.toNat?
    let t ← Wire.treeOfHex ah
    let (v, _) := Val.ofTreeTagged t (rest.headD "").toList
    let flags := flags &&& Gen.allFlagBits
    let c0 := Interp.Ctr.new (2 ^ 32 - 1)
    let f ← match coreOpByName cfg name with
      | some f => some f
      | none => extra name
    some (fmtRun c0 (some (f flags budget v c0)))
  | _ => none

/-- `UNK <opcode> <flags> <budget> <args>` -/
def handleUnknown (args : List String) : Option String :=
  match args with
  | [oh, fl, bud, ah] => do
    let op ← bytesOfHex oh
    let flags ← parseHexNat fl
    let budget ← bud.toNat?
    let t ← Wire.treeOfHex ah
    let c0 := Interp.Ctr.new (2 ^ 32 - 1)
    some (fmtRun c0 (some (opUnknown op (flags &&& Gen.allFlagBits) budget (Val.ofTree t) c0)))
  | _ => none

end Clvm.Proto
