import ClvmModel.Interp.Machine
import ClvmModel.Proto.Util
namespace Clvm.Proto
open Clvm Clvm.Interp

def parseHexNat (s : String) : Option Nat :=
  s.toList.foldl (fun acc c => match acc, hexVal c with
    | some a, some d => some (a * 16 + d)
    | _, _ => none) (some 0)

/-- counters after building a tree the way the harness does (`nil()`/`one()` are free, every other
atom is one `new_atom`, every pair one `new_pair`) -/
def buildCtr : Tree → Interp.Ctr → Interp.Ctr
  | .atom b, c =>
    if b.isEmpty || b == [1] then c
    else { c with atoms := c.atoms + 1, heap := c.heap + b.length }
  | .pair l r, c =>
    let c := buildCtr l c
    let c := buildCtr r c
    { c with pairs := c.pairs + 1 }

/-- operators this model does not implement yet (crypto operators are supplied by `extra`) -/
def noExtra : String → Option OpFn := fun _ => none

def fmtRun (c0 : Interp.Ctr) : Option (Except Err (Nat × Val × Interp.Ctr)) → String
  | none => "unsupported"
  | some (.error e) => fmtErr e
  | some (.ok (cost, v, c)) =>
    s!"ok {cost} {Wire.hexOfTree v.erase} {c.atoms - c0.atoms} {c.pairs - c0.pairs} {c.heap - c0.heap}"

def standardOpMap : List (String × Bytes) :=
  (Gen.fTableNames.filterMap (fun (name, fn) =>
    (Gen.chiaOpTable.find? (fun e => e.2.1 == fn && e.2.2 == 0)).map (fun e => (name, [UInt8.ofNat e.1]))))

/-- `RUN <dialect> <flags> <budget> <headroom|-> <prog> <env> [tags]` -/
def handleRunWith (cfg : Cfg) (extra : String → Option OpFn) (args : List String) : Option String :=
  match args with
  | dialect :: fl :: bud :: heap :: ph :: eh :: rest => do
    let flags ← parseHexNat fl
    let budget ← bud.toNat?
    let prog ← Wire.treeOfHex ph
    let env ← Wire.treeOfHex eh
    let tags := (rest.headD "").toList
    let (p, t1) := Val.ofTreeTagged prog tags
    let (e, _) := Val.ofTreeTagged env t1
    let flags := flags &&& Gen.allFlagBits        -- `ClvmFlags::from_bits_truncate`
    let c0 : Interp.Ctr ←
      if heap == "-" then some (Interp.Ctr.new (2 ^ 32 - 1))
      else do
        let h ← heap.toNat?
        let built := buildCtr env (buildCtr prog (Interp.Ctr.new 0))
        some { built with heapLimit := built.heap + h }
    let c0 := if heap == "-" then c0 else c0
    let d ← match dialect with
      | "chia" => some (chiaDialect cfg extra flags)
      | "runtime" => some (runtimeDialect cfg extra standardOpMap 1 2 flags)
      | _ => none
    some (fmtRun c0 (runProgram cfg d 200000000 c0 p e budget))
  | _ => none

/-- `OP <op_fn_name> <flags> <budget> <args> [tags]` -/
def handleOpWith (cfg : Cfg) (extra : String → Option OpFn) (args : List String) : Option String :=
  match args with
  | name :: fl :: bud :: ah :: rest => do
    let flags ← parseHexNat fl
    let budget ← bud.toNat?
    let t ← Wire.treeOfHex ah
    let (v, _) := Val.ofTreeTagged t (rest.headD "").toList
    let flags := flags &&& Gen.allFlagBits
    let c0 := Interp.Ctr.new (2 ^ 32 - 1)
    let f ← match coreOpByName cfg name with
      | some f => some f
      | none => extra name
    some (fmtRun c0 (some (f flags budget v c0)))
  | _ => none

/-- `UNK <opcode> <flags> <budget> <args>` -/
def handleUnknown (args : List String) : Option String :=
  match args with
  | [oh, fl, bud, ah] => do
    let op ← bytesOfHex oh
    let flags ← parseHexNat fl
    let budget ← bud.toNat?
    let t ← Wire.treeOfHex ah
    let c0 := Interp.Ctr.new (2 ^ 32 - 1)
    some (fmtRun c0 (some (opUnknown op (flags &&& Gen.allFlagBits) budget (Val.ofTree t) c0)))
  | _ => none

end Clvm.Proto
