import ClvmModel.Varint
import ClvmModel.Proto.Util
namespace Clvm.Proto
open Clvm.Varint

/-- `VARINT w:<i64>` | `VARINT r:<hex>:<strict>` -/
def handleVarint (args : List String) : Option String :=
  match args with
  | [a] =>
    match a.splitOn ":" with
    | ["w", v] => do
      let v ← v.toInt?
      match writeVarint v with
      | some b => some ("ok " ++ hexOfBytes b)
      | none => some "panic"
    | ["r", h, s] => do
      let b ← bytesOfHex h
      let strict := s == "1"
      match readVarint strict b with
      | .ok (v, rest) => some s!"ok {v} {b.length - rest.length}"
      | .error e => some (fmtErr e)
    | _ => none
  | _ => none

end Clvm.Proto
