import ClvmModel.Alloc.Session
import ClvmModel.Proto.Util
namespace Clvm.Proto
open Clvm Clvm.Alloc

/-!
`ALLOC <id> <heaplimit|-> <op>;<op>;…`

ops: `atom:HEX small:N u64:N i64:N num:HEX pair:a,b sub:a,s,e cat:n,a,b,… gatom:N gpair:N rgpair:N
cp tcp rst:k trst:k mrst:k,a` (operands = indices of earlier ops) and the pure queries
`fit:HEX` (`fits_in_small_atom`) and `lfv:N` (`len_for_value`), which also occupy a slot.

reply: `ok <tag>/<atoms>/<pairs>/<heap>;… | <slot>=<repr><hex>,<atom|->,<len>,<small|->,<number>,<eq> …`
one entry per still-valid node slot: `repr` is `S` (inline), `B` (buffer) or `P` (pair), `hex` the
classic serialization of the denoted tree; for atoms the results of `atom`, `atom_len`,
`small_number`, `number` and `atom_eq` with the previous valid atom (`-` for the first).
-/

def parseNat? (s : String) : Option Nat := s.toNat?

def parseNats? : List String → Option (List Nat)
  | [] => some []
  | x :: xs => do
    let n ← x.toNat?
    let ns ← parseNats? xs
    pure (n :: ns)

inductive POp where
  | op (o : Op)
  | fit (b : Bytes)
  | lfv (n : Nat)

def parseOp (s : String) : Option POp :=
  match s.splitOn ":" with
  | ["cp"] => some (.op .cp)
  | ["tcp"] => some (.op .tcp)
  | [name, args] =>
    let as := args.splitOn ","
    match name, as with
    | "atom", [h] => do let b ← bytesOfHex h; pure (.op (.atom b))
    | "fit", [h] => do let b ← bytesOfHex h; pure (.fit b)
    | "lfv", [n] => do let n ← n.toNat?; pure (.lfv n)
    | "small", [n] => do let n ← n.toNat?; pure (.op (.small n))
    | "u64", [n] => do let n ← n.toNat?; pure (.op (.u64 n))
    | "i64", [n] => do let n ← n.toInt?; pure (.op (.i64 n))
    | "num", [h] => do let b ← bytesOfHex h; pure (.op (.num (decodeInt b)))
    | "pair", [x, y] => do let x ← x.toNat?; let y ← y.toNat?; pure (.op (.pair x y))
    | "sub", [x, s, e] => do let x ← x.toNat?; let s ← s.toNat?; let e ← e.toNat?; pure (.op (.sub x s e))
    | "cat", n :: xs => do let n ← n.toNat?; let xs ← parseNats? xs; pure (.op (.cat n xs))
    | "gatom", [n] => do let n ← n.toNat?; pure (.op (.gatom n))
    | "gpair", [n] => do let n ← n.toNat?; pure (.op (.gpair n))
    | "rgpair", [n] => do let n ← n.toNat?; pure (.op (.rgpair n))
    | "rst", [k] => do let k ← k.toNat?; pure (.op (.rst k))
    | "trst", [k] => do let k ← k.toNat?; pure (.op (.trst k))
    | "mrst", [k, x] => do let k ← k.toNat?; let x ← x.toNat?; pure (.op (.mrst k x))
    | _, _ => none
  | _ => none

def parseOps : List String → Option (List POp)
  | [] => some []
  | x :: xs => do
    let o ← parseOp x
    let os ← parseOps xs
    pure (o :: os)

def tagStr : Tag → String
  | .ok => "ok"
  | .aborted => "okA"
  | .noReplace => "okN"
  | .replace => "okR"
  | .err e => "e" ++ e.kind
  | .skip => "skip"

def counts (a : Alloc) : String := s!"/{atomCount a}/{pairCount a}/{heapSize a}"

def optNat : Option Nat → String
  | some n => toString n
  | none => "-"

/-- run the ops; `none` = a panic somewhere -/
def runOps : Session → List POp → List String → Option (Session × List String)
  | s, [], acc => some (s, acc.reverse)
  | s, .fit b :: rest, acc =>
    match fitsInSmallAtomE b with
    | .error _ => none
    | .ok r => runOps (s.push s.a .unit false) rest (("ok=" ++ optNat r ++ counts s.a) :: acc)
  | s, .lfv n :: rest, acc =>
    runOps (s.push s.a .unit false) rest (("ok=" ++ toString (lenForValue n) ++ counts s.a) :: acc)
  | s, .op o :: rest, acc =>
    match s.step o with
    | .error _ => none
    | .ok (s', t) => runOps s' rest ((tagStr t ++ counts s'.a) :: acc)

def exceptOpt {α : Type} : Except Err α → Option α
  | .ok x => some x
  | .error _ => none

/-- the final dump of one valid node slot; `none` = a reader panicked -/
def dumpNode (a : Alloc) (i : Nat) (p : Ptr) (prev : Option Ptr) : Option String := do
  let v ← exceptOpt (node a p)
  let hex := Wire.hexOfTree (treeOf a p)
  match v with
  | .pair _ _ =>
    let sx ← exceptOpt (sexp a p)
    let sn ← exceptOpt (smallNumber a p)
    pure s!"{i}=P{hex},{if sx == SExp.atom then "atom" else "pair"},{optNat sn}"
  | _ =>
    let r := match v with | .u32 _ => "S" | _ => "B"
    let b ← exceptOpt (atom a p)
    let l ← exceptOpt (atomLen a p)
    let sn ← exceptOpt (smallNumber a p)
    let n ← exceptOpt (number a p)
    let eq ← match prev with
      | none => some "-"
      | some q => do
        let e1 ← exceptOpt (atomEq a p q)
        let e2 ← exceptOpt (atomEq a q p)
        pure ((if e1 then "1" else "0") ++ (if e2 then "1" else "0"))
    pure s!"{i}={r}{hex},{hexOrDash b},{l},{optNat sn},{n},{eq}"

def isPairPtr : Ptr → Bool
  | .pair _ => true
  | _ => false

def dumpAll (a : Alloc) : List Slot → Nat → Option Ptr → List String → Option (List String)
  | [], _, _, acc => some acc.reverse
  | ⟨.node p, true⟩ :: rest, i, prev, acc =>
    match dumpNode a i p prev with
    | none => none
    | some s => dumpAll a rest (i + 1) (if isPairPtr p then prev else some p) (s :: acc)
  | _ :: rest, i, prev, acc => dumpAll a rest (i + 1) prev acc

def handleAlloc (args : List String) : Option String :=
  match args with
  | [lim, ops] => do
    let ops ← parseOps (ops.splitOn ";")
    let a0 : Except Err Alloc ← if lim == "-" then some Alloc.new else (lim.toNat?).map newLimited
    match a0 with
    | .error _ => some "panic"
    | .ok a0 =>
      match runOps (Session.init a0) ops [] with
      | none => some "panic"
      | some (s, outs) =>
        match dumpAll s.a s.slots 0 none [] with
        | none => some "panic"
        | some d => some ("ok " ++ ";".intercalate outs ++ " | " ++ " ".intercalate d)
  | _ => none

end Clvm.Proto
