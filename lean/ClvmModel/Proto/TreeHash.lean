import ClvmModel.TreeHash
import ClvmModel.TreeHashIntern
import ClvmModel.Hash.Keccak256
import ClvmModel.Proto.Util
namespace Clvm.Proto
open Clvm.TreeHash Clvm.Hash

/-- `HASH sha256|keccak256 <hex>` -/
def handleHash (args : List String) : Option String :=
  match args with
  | [alg, h] => do
    let b ← bytesOfHex h
    match alg with
    | "sha256" => some ("ok " ++ hexOfBytes (sha256 b))
    | "keccak256" => some ("ok " ++ hexOfBytes (keccak256 b))
    | _ => none
  | _ => none

/-- the node `Allocator::new_atom` creates for these bytes; `n` = running index for fresh ids -/
def atomNode (n : Nat) (b : Bytes) : NTree :=
  match Alloc.fitsInSmallAtom b with
  | some v => .u32 (smallId v) v
  | none => .buffer (bytesId n) b

/-- a tree built node by node with `new_atom` / `new_pair` (no sharing except inline atoms) -/
def ofTreeGo : Tree → Nat → NTree × Nat
  | .atom b, n => (atomNode n b, n + 1)
  | .pair l r, n =>
    let (l', n1) := ofTreeGo l n
    let (r', n2) := ofTreeGo r n1
    (.pair (pairId n2) l' r', n2 + 1)

def ofTree (t : Tree) : NTree := (ofTreeGo t 0).1

/-- `a:HEX` (new_atom) | `h:HEX` (a heap atom whatever the bytes) | `p:i,j`; the root is the last node -/
def parseDag (s : String) : Option NTree := do
  let mut nodes : Array NTree := #[]
  for item in s.splitOn ";" do
    let i := nodes.size
    match item.splitOn ":" with
    | ["a", h] =>
      let b ← bytesOfHex h
      nodes := nodes.push (atomNode i b)
    | ["h", h] =>
      let b ← bytesOfHex h
      nodes := nodes.push (.buffer (bytesId i) b)
    | ["p", lr] =>
      match lr.splitOn "," with
      | [l, r] =>
        let l ← l.toNat?
        let r ← r.toNat?
        let lt ← nodes[l]?
        let rt ← nodes[r]?
        nodes := nodes.push (.pair (pairId i) lt rt)
      | _ => none
    | _ => none
  nodes.back?

def fmtCosted (r : Except Err (Nat × Bytes)) : String :=
  match r with
  | .ok (cost, h) => s!"ok {hexOfBytes h} {cost}"
  | .error e => fmtErr e

def renderTriples (r : List Triple) (hs : Option (List Bytes)) : String :=
  let ts := r.map fun
    | .atom s e o => s!"a:{s},{e},{o};"
    | .pair s e ri => s!"p:{s},{e},{ri};"
  let hs := match hs with
    | some l => l.map (fun h => hexOfBytes h ++ ",")
    | none => ["none"]
  String.join ts ++ "|" ++ String.join hs

/-- variants whose input is an allocator node -/
def runNodeVariant (variant : String) (t : NTree) : Option String :=
  match variant.splitOn ":" with
  | ["costed", nm, budget] => do
    let budget ← budget.toNat?
    some (fmtCosted (treeHashCosted (nm == "1") budget t))
  | ["op", nm, budget] => do
    let budget ← budget.toNat?
    some (fmtCosted (opSha256Tree (nm == "1") budget t))
  | ["cache"] =>
    match objectCacheTreeHash t with
    | .ok (some h) => some ("ok " ++ hexOfBytes h)
    | .ok none => some "ok none"
    | .error e => some (fmtErr e)
  | ["intern"] =>
    match internTree t with
    | .error e => some (fmtErr e)
    | .ok (root, na, np) =>
      match internedTreeHash root with
      | .ok h => some s!"ok {hexOfBytes h} {na} {np}"
      | .error e => some (fmtErr e)
  | ["py"] =>
    match pySha256Treehash (fun _ => true) [] t with
    | .ok (h, _) => some ("ok " ++ hexOfBytes h)
    | .error e => some (fmtErr e)
  | _ => none

/-- `THASH <variant> <hex>`: node variants take the wire form of a tree, stream variants raw bytes -/
def handleTHash (args : List String) : Option String :=
  match args with
  | [variant, h] =>
    match variant with
    | "stream" => do
      let b ← bytesOfHex h
      match treeHashFromStream b with
      | .ok (hash, rest) => some s!"ok {hexOfBytes hash} {b.length - rest.length}"
      | .error e => some (fmtErr e)
    | "triples" | "triples0" => do
      let b ← bytesOfHex h
      let calcH := variant == "triples"
      match parseTriples b calcH with
      | .error e => some (fmtErr e)
      | .ok (r, hs, rest) =>
        let h0 := match hs with
          | some (x :: _) => hexOfBytes x
          | _ => "-"
        some s!"ok {h0} {r.length} {b.length - rest.length} {hexOfBytes (sha256 (renderTriples r hs).toUTF8.toList)}"
    | _ => do
      let t ← Wire.treeOfHex h
      runNodeVariant variant (ofTree t)
  | _ => none

/-- the same request as a source DAG of C24's interning model (`a:` and `h:` are both atoms there) -/
def parseSDag (s : String) : Option Intern.Dag := do
  let mut nodes : Intern.Dag := #[]
  for item in s.splitOn ";" do
    let i := nodes.size
    match item.splitOn ":" with
    | ["a", h] | ["h", h] =>
      let b ← bytesOfHex h
      nodes := nodes.push (.atom b)
    | ["p", lr] =>
      match lr.splitOn "," with
      | [l, r] =>
        let l ← l.toNat?
        let r ← r.toNat?
        if l < i ∧ r < i then nodes := nodes.push (.pair l r) else none
      | _ => none
    | _ => none
  if nodes.size == 0 then none else some nodes

/-- `intern24`: C24's transcription of `intern_tree` composed with `InternedTree::tree_hash`
(`treeHashOfInterned`) — the composition theorem `C22.internThenHash` is about -/
def runIntern24 (d : Intern.Dag) : String :=
  match Intern.internTree d (d.size - 1) with
  | .error e => fmtErr e
  | .ok it =>
    match treeHashOfInterned it with
    | .ok h => s!"ok {hexOfBytes h} {it.atoms.length} {it.pairs.length}"
    | .error e => fmtErr e

/-- `THASHDAG <variant> <nodes>` -/
def handleTHashDag (args : List String) : Option String :=
  match args with
  | ["intern24", dag] => do
    let d ← parseSDag dag
    some (runIntern24 d)
  | [variant, dag] => do
    let t ← parseDag dag
    runNodeVariant variant t
  | _ => none

end Clvm.Proto
