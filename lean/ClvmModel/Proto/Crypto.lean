import ClvmModel.Crypto.Dispatch
import ClvmModel.Proto.Util
namespace Clvm.Proto
open Clvm Clvm.Crypto Clvm.Crypto.Ops

/-- `CRYPTO <op> <flags:hex8> <maxcost> <args-tree-hex> <oracle> <mode>`

`oracle` (the real chia_bls hash-to-curve output / pairing verdict, kept on the line for
diagnosis) is NOT read by the model any more: pairing and hash-to-curve are computed by the
independent Lean implementations (`Clvm.Crypto.leanPrimitives`).
`mode` (fresh / warmed validated-points cache) only concerns the implementation side. -/
def handleCrypto (args : List String) : Option String :=
  match args with
  | [op, flagsHex, maxCost, argsHex, oracle, _mode] => do
    let flags := natOfBytesBE (← bytesOfHex flagsHex)
    let maxCost ← maxCost.toNat?
    let tree ← Wire.treeOfHex argsHex
    let _ := oracle
    let name := match op with
      | "sha256" => "op_sha256" | "keccak256" => "op_keccak256" | "coinid" => "op_coinid"
      | "point_add" => "op_point_add" | "pubkey_for_exp" => "op_pubkey_for_exp"
      | "g1_subtract" => "op_bls_g1_subtract" | "g1_multiply" => "op_bls_g1_multiply" | "g1_negate" => "op_bls_g1_negate"
      | "g2_add" => "op_bls_g2_add" | "g2_subtract" => "op_bls_g2_subtract" | "g2_multiply" => "op_bls_g2_multiply"
      | "g2_negate" => "op_bls_g2_negate" | "g1_map" => "op_bls_map_to_g1" | "g2_map" => "op_bls_map_to_g2"
      | "bls_pairing_identity" => "op_bls_pairing_identity" | "bls_verify" => "op_bls_verify"
      | "secp256k1_verify" => "op_secp256k1_verify" | "secp256r1_verify" => "op_secp256r1_verify"
      | _ => ""
    let f ← Clvm.Crypto.opByName name
    match f flags maxCost tree with
    | .ok r => some s!"ok {r.cost} {Wire.hexOfTree r.value} {if r.fresh then 1 else 0}"
    | .error e => some (fmtErr e)
  | _ => none

end Clvm.Proto
