import ClvmModel.Crypto.Ops
import ClvmModel.Proto.Util
namespace Clvm.Proto
open Clvm Clvm.Crypto Clvm.Crypto.Ops

/-- `CRYPTO <op> <flags:hex8> <maxcost> <args-tree-hex> <oracle> <mode>`

`oracle`: for g1_map/g2_map the real hash-to-curve output (compressed point), for
bls_pairing_identity / bls_verify the real verdict (`1`/`0`); `-` when the harness could not
compute it (arguments do not parse) — the model must then not reach the primitive.
`mode` (fresh / warmed validated-points cache) only concerns the implementation side. -/
def handleCrypto (args : List String) : Option String :=
  match args with
  | [op, flagsHex, maxCost, argsHex, oracle, _mode] => do
    let flags := natOfBytesBE (← bytesOfHex flagsHex)
    let maxCost ← maxCost.toNat?
    let tree ← Wire.treeOfHex argsHex
    let missing := oracle == "-"
    let verdict := oracle == "1"
    let oracleBytes := (bytesOfHex oracle).getD []
    let r? : Option Res :=
      match op with
      | "sha256" => some (opSha256 flags maxCost tree)
      | "keccak256" => some (opKeccak256 flags maxCost tree)
      | "coinid" => some (opCoinid flags maxCost tree)
      | "point_add" => some (opPointAdd flags maxCost tree)
      | "pubkey_for_exp" => some (opPubkeyForExp flags maxCost tree)
      | "g1_subtract" => some (opBlsG1Subtract flags maxCost tree)
      | "g1_multiply" => some (opBlsG1Multiply flags maxCost tree)
      | "g1_negate" => some (opBlsG1Negate flags maxCost tree)
      | "g2_add" => some (opBlsG2Add flags maxCost tree)
      | "g2_subtract" => some (opBlsG2Subtract flags maxCost tree)
      | "g2_multiply" => some (opBlsG2Multiply flags maxCost tree)
      | "g2_negate" => some (opBlsG2Negate flags maxCost tree)
      | "g1_map" =>
        let P := ((Bls.g1DecodeUnchecked oracleBytes).getD none)
        some (opBlsMapToG1 (fun _ _ => P) flags maxCost tree)
      | "g2_map" =>
        let P := ((Bls.g2DecodeUnchecked oracleBytes).getD none)
        some (opBlsMapToG2 (fun _ _ => P) flags maxCost tree)
      | "bls_pairing_identity" => some (opBlsPairingIdentity (fun _ => verdict) flags maxCost tree)
      | "bls_verify" => some (opBlsVerify (fun _ _ => verdict) flags maxCost tree)
      | "secp256k1_verify" => some (opSecp256k1Verify flags maxCost tree)
      | "secp256r1_verify" => some (opSecp256r1Verify flags maxCost tree)
      | _ => none
    let usesOracle := op == "g1_map" || op == "g2_map" || op == "bls_pairing_identity" || op == "bls_verify"
    match ← r? with
    | .ok r =>
      if usesOracle && missing then some "oracle-missing"
      else some s!"ok {r.cost} {Wire.hexOfTree r.value} {if r.fresh then 1 else 0}"
    | .error .BLSPairingIdentityFailed =>
      if missing then some "oracle-missing" else some (fmtErr .BLSPairingIdentityFailed)
    | .error .BLSVerifyFailed =>
      if missing then some "oracle-missing" else some (fmtErr .BLSVerifyFailed)
    | .error e => some (fmtErr e)
  | _ => none

end Clvm.Proto
