import ClvmModel.Serde2026
import ClvmModel.Proto.Util
namespace Clvm.Proto
open Clvm.Intern Clvm.Serde2026

/-!
```
SER    <id> 2026:<level> <dag>                         → ok <blob-hex>
DE     <id> 2026 <bytes> <max_atom_len> <strict:0|1>   → ok <tree-hex> <consumed>
DE     <id> len2026 <bytes> <max_atom_len> <strict>    → ok <length>
INTERN <id> <dag>                                      → ok <#atoms> <#pairs> <tree-hex> <atoms> <pairs>
```
`dag` = `;`-separated post-order node list, root last: `a:HEX` (built with `new_atom`), `h:HEX` (a heap
atom whatever the bytes: concat laundering), `v:HEX` (a substring view of a longer heap atom),
`p:i,j`.  The three atom spellings denote the same model node: representation is not an input of
the model, which is the representation-independence the streams check.
`atoms` = `,`-separated hex (`-` = empty atom; `~` if there is none), `pairs` = `,`-separated
`<child>.<child>` with `A<k>` / `P<k>` (`~` if none).

Requests with `max_atom_len` above 2^24 whose probe fails are still executed in a child process by the
harness (a regression of finding I would abort there and show up as `abort` ≠ model reply).
-/

def parseDagNodes : List String → Array SNode → Option (Array SNode)
  | [], acc => some acc
  | item :: rest, acc =>
    match item.splitOn ":" with
    | [k, h] =>
      if k == "a" || k == "h" || k == "v" then
        match bytesOfHex h with
        | some b => parseDagNodes rest (acc.push (.atom b))
        | none => none
      else if k == "p" then
        match h.splitOn "," with
        | [l, r] =>
          match l.toNat?, r.toNat? with
          | some l, some r => if l < acc.size && r < acc.size then parseDagNodes rest (acc.push (.pair l r)) else none
          | _, _ => none
        | _ => none
      else none
    | _ => none

def parseDag2026 (s : String) : Option Dag :=
  match parseDagNodes (s.splitOn ";") #[] with
  | some d => if d.size > 0 then some d else none
  | none => none

def showINode : INode → String
  | .atom k => s!"A{k}"
  | .pair k => s!"P{k}"

def orTilde (l : List String) : String := if l.isEmpty then "~" else ",".intercalate l

/-- `SER 2026:<level> <dag>` -/
def handleSer2026 (args : List String) : Option String :=
  match args with
  | [fmt, dag] =>
    match fmt.splitOn ":" with
    | ["2026", lvl] => do
      let level ← lvl.toNat?
      let d ← parseDag2026 dag
      match serialize2026 d (d.size - 1) level with
      | .ok b => some ("ok " ++ hexOfBytes b)
      | .error e => some (fmtErr e)
    | _ => none
  | _ => none

/-- `DE 2026|len2026 <bytes> <max_atom_len> <strict>` -/
def handleDe2026 (args : List String) : Option String :=
  match args with
  | [fmt, h, mal, st] => do
    let b ← bytesOfHex h
    let maxAtomLen ← mal.toNat?
    let strict ← if st == "1" then some true else if st == "0" then some false else none
    match fmt with
    | "2026" =>
      match deserialize2026Consumed b maxAtomLen strict with
      | .ok (t, n) => some s!"ok {Wire.hexOfTree t} {n}"
      | .error e => some (fmtErr e)
    | "len2026" =>
      match serializedLength2026 b maxAtomLen strict with
      | .ok n => some s!"ok {n}"
      | .error e => some (fmtErr e)
    | _ => none
  | _ => none

/-- `INTERN <dag>` -/
def handleIntern (args : List String) : Option String :=
  match args with
  | [dag] => do
    let d ← parseDag2026 dag
    match internTree d (d.size - 1) with
    | .error e => some (fmtErr e)
    | .ok it =>
      match it.tree with
      | none => some "panic"
      | some t =>
        let atoms := orTilde (it.atoms.map hexOrDash)
        let pairs := orTilde (it.pairs.map fun (l, r) => showINode l ++ "." ++ showINode r)
        some s!"ok {it.atoms.length} {it.pairs.length} {Wire.hexOfTree t} {atoms} {pairs}"
  | _ => none

end Clvm.Proto
