/-
Protocol handlers `OPZ` / `UNKZ` (C09 / C10): direct operator calls with *compact* argument
lists, so that operands of several MiB fit on one request line.  Independent implementation of
the format documented in `harness/src/costs.rs`:

```
OPZ  <id> <op_fn_name> <flags:hex> <budget> <items>
UNKZ <id> <opcode-hex | -> <flags:hex> <budget> <items>
items := '-' | item (',' item)*        item := 'p' (the pair (1 . 2)) | <hex>'~'<off>'+'<len>
```
an atom item denotes `hex-decoded prefix ++ ZBUF[off .. off+len)`, `ZBUF[i] = ((i * 2654435761) >> 13) as u8`.
Atoms get the representation `new_atom` chooses (`Val.mkAtom`).  Reply: `ok <cost> <res> <d_atoms>
<d_pairs> <d_heap>` | `err <Kind>`; `<res>` = hex of the classic serialization of the result, or
`<hexlen>:<first 64 digits>:<last 64 digits>` when it is longer than 160 digits.
-/
import ClvmModel.Proto.Run
namespace Clvm.Proto
open Clvm Clvm.Interp

def zbufLen : Nat := 8 * 1048576 + 65536

def zbyte (i : Nat) : UInt8 := UInt8.ofNat ((i * 2654435761) >>> 13)

def zslice (off len : Nat) : Bytes := (List.range len).map (fun k => zbyte (off + k))

/-- one item; `none` = malformed -/
def parseItem (s : String) : Option Val :=
  if s == "p" then some (.pair (Val.mkAtom [1]) (Val.mkAtom [2]))
  else
    match s.splitOn "~" with
    | [hx, rest] =>
      match rest.splitOn "+" with
      | [o, l] => do
        let pre ← bytesOfHexChars hx.toList
        let off ← o.toNat?
        let len ← l.toNat?
        if off + len > zbufLen then none
        else some (Val.mkAtom (pre ++ zslice off len))
      | _ => none
    | _ => none

/-- the argument list; identical item strings denote the same value (computed once) -/
def parseItems (s : String) : Option Val :=
  if s == "-" then some Val.nil
  else
    let items := s.splitOn ","
    let rec go (rest : List String) (cache : List (String × Val)) (acc : List Val) : Option (List Val) :=
      match rest with
      | [] => some acc.reverse
      | it :: more =>
        match cache.find? (fun e => e.1 == it) with
        | some (_, v) => go more cache (v :: acc)
        | none =>
          match parseItem it with
          | none => none
          | some v => go more ((it, v) :: cache) (v :: acc)
    (go items [] []).map (fun l => l.foldr (fun a r => Val.pair a r) Val.nil)

def fmtRes (v : Val) : String :=
  let s := Wire.hexOfTree v.erase
  let n := s.length
  if n ≤ 160 then s
  else s!"{n}:{String.ofList (s.toList.take 64)}:{String.ofList (s.toList.drop (n - 64))}"

def fmtRunZ (c0 : Interp.Ctr) : Except Err (Nat × Val × Interp.Ctr) → String
  | .error e => fmtErr e
  | .ok (cost, v, c) =>
    s!"ok {cost} {fmtRes v} {c.atoms - c0.atoms} {c.pairs - c0.pairs} {c.heap - c0.heap}"

/-- `OPZ <op_fn_name> <flags> <budget> <items>` -/
def handleOpz (cfg : Cfg) (extra : String → Option OpFn) (args : List String) : Option String :=
  match args with
  | [name, fl, bud, items] => do
    let flags ← parseHexNat fl
    let budget ← bud.toNat?
    let v ← parseItems items
    let flags := flags &&& Gen.allFlagBits
    let c0 := Interp.Ctr.new (2 ^ 32 - 1)
    let f ← match coreOpByName cfg name with
      | some f => some f
      | none => extra name
    some (fmtRunZ c0 (f flags budget v c0))
  | _ => none

/-- `UNKZ <opcode> <flags> <budget> <items>` -/
def handleUnkz (args : List String) : Option String :=
  match args with
  | [oh, fl, bud, items] => do
    let op ← bytesOfHex oh
    let flags ← parseHexNat fl
    let budget ← bud.toNat?
    let v ← parseItems items
    let c0 := Interp.Ctr.new (2 ^ 32 - 1)
    some (fmtRunZ c0 (opUnknown op (flags &&& Gen.allFlagBits) budget v c0))
  | _ => none

end Clvm.Proto
