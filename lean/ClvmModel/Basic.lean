/-
Layer 0: bytes, hex I/O, error kinds.  No imports beyond core: everything under
`ClvmModel/` is linked into the `clvm_model` driver executable.
-/
namespace Clvm

abbrev Bytes := List UInt8

/-- Outcome kinds shared by all models.  The names are the `EvalErr` variant
names of `src/error.rs`; `panic`, `internal` and `abort` are the explicit
outcomes for Rust panics, `InternalError` and allocation aborts. -/
inductive Err where
  | SerializationError
  | OutOfMemory
  | CostExceeded
  | TooManyAtoms
  | TooManyPairs
  | InvalidOpArg (msg : String)
  | InvalidOperator
  | Unimplemented
  | PathIntoAtom
  | InvalidNilTerminator
  | DivisionByZero
  | ShiftTooLarge
  | ValueStackLimitReached
  | EnvironmentStackLimitReached
  | InvalidAllocArg (msg : String)
  | Raise
  | SoftforkFailed (msg : String)
  | InvalidSoftforkCost
  | InternalError (msg : String)
  | Panic (msg : String)
  | Abort (msg : String)
  | Other (msg : String)
  deriving Repr, DecidableEq, Inhabited

def Err.kind : Err → String
  | .SerializationError => "SerializationError"
  | .OutOfMemory => "OutOfMemory"
  | .CostExceeded => "CostExceeded"
  | .TooManyAtoms => "TooManyAtoms"
  | .TooManyPairs => "TooManyPairs"
  | .InvalidOpArg _ => "InvalidOpArg"
  | .InvalidOperator => "InvalidOperator"
  | .Unimplemented => "Unimplemented"
  | .PathIntoAtom => "PathIntoAtom"
  | .InvalidNilTerminator => "InvalidNilTerminator"
  | .DivisionByZero => "DivisionByZero"
  | .ShiftTooLarge => "ShiftTooLarge"
  | .ValueStackLimitReached => "ValueStackLimitReached"
  | .EnvironmentStackLimitReached => "EnvironmentStackLimitReached"
  | .InvalidAllocArg _ => "InvalidAllocArg"
  | .Raise => "Raise"
  | .SoftforkFailed _ => "SoftforkFailed"
  | .InvalidSoftforkCost => "InvalidSoftforkCost"
  | .InternalError _ => "InternalError"
  | .Panic _ => "Panic"
  | .Abort _ => "Abort"
  | .Other _ => "Other"

/-! ### hex -/

def hexDigit (n : Nat) : Char :=
  if n < 10 then Char.ofNat (48 + n) else Char.ofNat (87 + n)

def hexOfBytes (b : Bytes) : String :=
  String.ofList (b.foldr (fun x acc => hexDigit (x.toNat / 16) :: hexDigit (x.toNat % 16) :: acc) [])

def hexVal (c : Char) : Option Nat :=
  let n := c.toNat
  if 48 ≤ n ∧ n ≤ 57 then some (n - 48)
  else if 97 ≤ n ∧ n ≤ 102 then some (n - 87)
  else if 65 ≤ n ∧ n ≤ 70 then some (n - 55)
  else none

def bytesOfHexChars : List Char → Option Bytes
  | [] => some []
  | [_] => none
  | a :: b :: rest =>
    match hexVal a, hexVal b, bytesOfHexChars rest with
    | some x, some y, some r => some (UInt8.ofNat (x * 16 + y) :: r)
    | _, _, _ => none

/-- `-` denotes the empty byte string on the wire (so that fields are never empty). -/
def bytesOfHex (s : String) : Option Bytes :=
  if s = "-" then some [] else bytesOfHexChars s.toList

def hexOrDash (b : Bytes) : String :=
  if b.isEmpty then "-" else hexOfBytes b

end Clvm
