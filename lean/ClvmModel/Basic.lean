/-
Layer 0: bytes, hex I/O, error kinds.  No imports beyond core: everything under
`ClvmModel/` is linked into the `clvm_model` driver executable.
-/
namespace Clvm

abbrev Bytes := List UInt8

/-- Outcome kinds shared by all models.  The constructor names are the `EvalErr`
variant names of `src/error.rs` (compared with the implementation as a small enum:
`Err.kind`); `Panic` and `Abort` are the explicit outcomes for a Rust panic
(`unwrap`, `expect`, `assert!`, slice index, arithmetic overflow in debug builds) and for a
process abort (allocation failure).  `InternalError` is a variant of `EvalErr`. -/
inductive Err where
  | SerializationError
  | SerializationBackreferenceError
  | OutOfMemory
  | PathIntoAtom
  | TooManyPairs
  | TooManyAtoms
  | CostExceeded
  | UnknownSoftforkExtension
  | SoftforkCostMismatch
  | InternalError (msg : String)
  | Raise
  | InvalidNilTerminator
  | DivisionByZero
  | ValueStackLimitReached
  | EnvironmentStackLimitReached
  | ShiftTooLarge
  | Reserved
  | Invalid
  | Unimplemented
  | InvalidOpArg (msg : String)
  | InvalidAllocArg (msg : String)
  | BLSPairingIdentityFailed
  | BLSVerifyFailed
  | Secp256Failed
  | SoftforkStackDepthExceeded
  | Panic (msg : String)
  | Abort (msg : String)
  deriving Repr, DecidableEq, Inhabited

def Err.kind : Err → String
  | .SerializationError => "SerializationError"
  | .SerializationBackreferenceError => "SerializationBackreferenceError"
  | .OutOfMemory => "OutOfMemory"
  | .PathIntoAtom => "PathIntoAtom"
  | .TooManyPairs => "TooManyPairs"
  | .TooManyAtoms => "TooManyAtoms"
  | .CostExceeded => "CostExceeded"
  | .UnknownSoftforkExtension => "UnknownSoftforkExtension"
  | .SoftforkCostMismatch => "SoftforkCostMismatch"
  | .InternalError _ => "InternalError"
  | .Raise => "Raise"
  | .InvalidNilTerminator => "InvalidNilTerminator"
  | .DivisionByZero => "DivisionByZero"
  | .ValueStackLimitReached => "ValueStackLimitReached"
  | .EnvironmentStackLimitReached => "EnvironmentStackLimitReached"
  | .ShiftTooLarge => "ShiftTooLarge"
  | .Reserved => "Reserved"
  | .Invalid => "Invalid"
  | .Unimplemented => "Unimplemented"
  | .InvalidOpArg _ => "InvalidOpArg"
  | .InvalidAllocArg _ => "InvalidAllocArg"
  | .BLSPairingIdentityFailed => "BLSPairingIdentityFailed"
  | .BLSVerifyFailed => "BLSVerifyFailed"
  | .Secp256Failed => "Secp256Failed"
  | .SoftforkStackDepthExceeded => "SoftforkStackDepthExceeded"
  | .Panic _ => "Panic"
  | .Abort _ => "Abort"

/-! ### hex -/

def hexDigit (n : Nat) : Char :=
  if n < 10 then Char.ofNat (48 + n) else Char.ofNat (87 + n)

def hexOfBytes (b : Bytes) : String :=
  String.ofList (b.foldr (fun x acc => hexDigit (x.toNat / 16) :: hexDigit (x.toNat % 16) :: acc) [])

def hexVal (c : Char) : Option Nat :=
  let n := c.toNat
  if 48 ≤ n ∧ n ≤ 57 then some (n - 48)
  else if 97 ≤ n ∧ n ≤ 102 then some (n - 87)
  else if 65 ≤ n ∧ n ≤ 70 then some (n - 55)
  else none

def bytesOfHexChars : List Char → Option Bytes
  | [] => some []
  | [_] => none
  | a :: b :: rest =>
    match hexVal a, hexVal b, bytesOfHexChars rest with
    | some x, some y, some r => some (UInt8.ofNat (x * 16 + y) :: r)
    | _, _, _ => none

/-- `-` denotes the empty byte string on the wire (so that fields are never empty). -/
def bytesOfHex (s : String) : Option Bytes :=
  if s = "-" then some [] else bytesOfHexChars s.toList

def hexOrDash (b : Bytes) : String :=
  if b.isEmpty then "-" else hexOfBytes b

end Clvm
