/-
Layer 1: the **concrete** allocator model — a transcription of `src/allocator.rs`
(`struct Allocator` and its public operations), defects included.

Representation: `u8 : Bytes` (= `u8_vec`), `atoms : List (start × end)` (= `atom_vec`),
`pairs : List (Ptr × Ptr)` (= `pair_vec`), `heapLimit ghostAtoms ghostPairs ghostHeap`.
`Ptr` is a `NodePtr` (object type + index).  Every operation that takes `&mut self` returns
`Out R = Except Err R × Alloc`: the outcome *and* the allocator state afterwards, so that
"a failed operation leaves the state unchanged" is a statement about the model and not a
convention.  Rust panics (`assert!`, `debug_assert!` — the harness runs the dev profile —
slice/vector indexing, `usize`/`u32` subtraction overflow) are `Err.Panic`; `InternalError`
is `Err.InternalError`.  `as u32` casts of lengths are the identity here: lengths are below
2^32 whenever `u8.length + ghostHeap ≤ heapLimit ≤ u32::MAX` (see `Inv`/`HeapOk`).
Not modelled: the G1/G2 validation caches, the `counters` and `allocator-debug` features.
-/
import ClvmModel.Alloc.IntEnc
import ClvmModel.Tree

namespace Clvm.Alloc
open Clvm

/-- `NodePtr`: `ObjectType` + index. -/
inductive Ptr where
  | pair (i : Nat)
  | bytes (i : Nat)
  | small (v : Nat)
  deriving Repr, DecidableEq, Inhabited

structure Alloc where
  u8 : Bytes
  pairs : List (Ptr × Ptr)
  atoms : List (Nat × Nat)
  heapLimit : Nat
  ghostAtoms : Nat
  ghostPairs : Nat
  ghostHeap : Nat
  deriving Repr, DecidableEq, Inhabited

/-- `TransparentCheckpoint` -/
structure TCheckpoint where
  u8s : Nat
  pairs : Nat
  atoms : Nat
  deriving Repr, DecidableEq, Inhabited

/-- `Checkpoint` -/
structure Checkpoint where
  inner : TCheckpoint
  ghostAtoms : Nat
  ghostPairs : Nat
  ghostHeap : Nat
  deriving Repr, DecidableEq, Inhabited

inductive NodeStatus where
  | before
  | afterNewBytes
  | afterOldBytes (start stop : Nat)
  deriving Repr, DecidableEq

inductive MaybeRestore where
  | noReplace
  | replace (p : Ptr)
  | aborted
  deriving Repr, DecidableEq

/-- `NodeVisitor` -/
inductive Visitor where
  | buffer (b : Bytes)
  | u32 (v : Nat)
  | pair (l r : Ptr)
  deriving Repr, DecidableEq

inductive SExp where
  | atom
  | pair (l r : Ptr)
  deriving Repr, DecidableEq

/-- outcome of a `&mut self` operation: result or error, and the state afterwards -/
abbrev Out (R : Type) := Except Err R × Alloc

def u32Max : Nat := 2 ^ 32 - 1

/-- `NODE_PTR_IDX_MASK` -/
def idxMask : Nat := 2 ^ Gen.nodePtrIdxBits - 1

/-! ### primitive accesses that can panic -/

/-- `&buf[s..e]` -/
def slice (buf : Bytes) (s e : Nat) : Except Err Bytes :=
  if s > e then .error (.Panic "slice index starts after its end")
  else if e > buf.length then .error (.Panic "range end index out of range for slice")
  else .ok ((buf.drop s).take (e - s))

/-- `self.atom_vec[i]` -/
def atomBuf (a : Alloc) (i : Nat) : Except Err (Nat × Nat) :=
  match a.atoms[i]? with
  | some x => .ok x
  | none => .error (.Panic "index out of bounds: atom_vec")

/-- `self.pair_vec[i]` -/
def pairAt (a : Alloc) (i : Nat) : Except Err (Ptr × Ptr) :=
  match a.pairs[i]? with
  | some x => .ok x
  | none => .error (.Panic "index out of bounds: pair_vec")

/-- `atom.end - atom.start` on `u32` (overflow checks are on in the dev profile) -/
def bufLen (ab : Nat × Nat) : Except Err Nat :=
  if ab.2 < ab.1 then .error (.Panic "attempt to subtract with overflow") else .ok (ab.2 - ab.1)

/-- `let buf: [u8;4] = val.to_be_bytes(); &buf[4 - len as usize..]` -/
def smallBytesE (val : Nat) : Except Err Bytes :=
  if lenForValue val > 4 then .error (.Panic "attempt to subtract with overflow")
  else .ok (smallBytes val)

/-! ### construction, counters -/

/-- `Allocator::new_limited` -/
def newLimited (heapLimit : Nat) : Except Err Alloc :=
  if heapLimit > u32Max then .error (.Panic "assertion failed: heap_limit <= u32::MAX as usize")
  else .ok { u8 := [], pairs := [], atoms := [], heapLimit := heapLimit,
             ghostAtoms := Gen.initGhostAtoms, ghostPairs := Gen.initGhostPairs,
             ghostHeap := Gen.initGhostHeap }

/-- `Allocator::new` -/
def new : Except Err Alloc := newLimited u32Max

def atomCount (a : Alloc) : Nat := a.atoms.length + a.ghostAtoms
def pairCount (a : Alloc) : Nat := a.pairs.length + a.ghostPairs
def heapSize (a : Alloc) : Nat := a.u8.length + a.ghostHeap
def allocatedAtomCount (a : Alloc) : Nat := a.atoms.length
def allocatedPairCount (a : Alloc) : Nat := a.pairs.length
def allocatedHeapSize (a : Alloc) : Nat := a.u8.length

/-- `check_atom_limit` -/
def checkAtomLimit (a : Alloc) : Except Err Unit :=
  if a.atoms.length + a.ghostAtoms == Gen.maxNumAtoms then .error .TooManyAtoms else .ok ()

def nil : Ptr := .small 0
def one : Ptr := .small 1

/-! ### checkpoints -/

/-- `transparent_checkpoint` -/
def transparentCheckpoint (a : Alloc) : TCheckpoint :=
  { u8s := a.u8.length, pairs := a.pairs.length, atoms := a.atoms.length }

/-- `checkpoint` -/
def checkpoint (a : Alloc) : Checkpoint :=
  { inner := transparentCheckpoint a, ghostAtoms := a.ghostAtoms, ghostPairs := a.ghostPairs,
    ghostHeap := a.ghostHeap }

/-- `restore_transparent_checkpoint` -/
def restoreTransparentCheckpoint (a : Alloc) (cp : TCheckpoint) : Out Unit :=
  if a.u8.length < cp.u8s then (.error (.Panic "assertion failed: self.u8_vec.len() >= cp.u8s"), a)
  else if a.pairs.length < cp.pairs then (.error (.Panic "assertion failed: self.pair_vec.len() >= cp.pairs"), a)
  else if a.atoms.length < cp.atoms then (.error (.Panic "assertion failed: self.atom_vec.len() >= cp.atoms"), a)
  else
    (.ok (),
     { a with ghostHeap := a.ghostHeap + (a.u8.length - cp.u8s),
              ghostPairs := a.ghostPairs + (a.pairs.length - cp.pairs),
              ghostAtoms := a.ghostAtoms + (a.atoms.length - cp.atoms),
              u8 := a.u8.take cp.u8s, pairs := a.pairs.take cp.pairs, atoms := a.atoms.take cp.atoms })

/-- `restore_checkpoint` -/
def restoreCheckpoint (a : Alloc) (cp : Checkpoint) : Out Unit :=
  match restoreTransparentCheckpoint a cp.inner with
  | (.error e, a') => (.error e, a')
  | (.ok (), a') =>
    (.ok (), { a' with ghostAtoms := cp.ghostAtoms, ghostPairs := cp.ghostPairs, ghostHeap := cp.ghostHeap })

/-- `checkpoint_node_status` -/
def checkpointNodeStatus (a : Alloc) (cp : TCheckpoint) (node : Ptr) : Except Err NodeStatus :=
  match node with
  | .pair i => if i < cp.pairs then .ok .before else .ok .afterNewBytes
  | .bytes i =>
    if i < cp.atoms then .ok .before
    else
      match atomBuf a i with
      | .error e => .error e
      | .ok (s, e) => if s < cp.u8s then .ok (.afterOldBytes s e) else .ok .afterNewBytes
  | .small _ => .ok .before

/-! ### readers -/

/-- `node` -/
def node (a : Alloc) (p : Ptr) : Except Err Visitor :=
  match p with
  | .bytes i =>
    match atomBuf a i with
    | .error e => .error e
    | .ok (s, e) =>
      match slice a.u8 s e with
      | .error er => .error er
      | .ok b => .ok (.buffer b)
  | .small v => .ok (.u32 v)
  | .pair i =>
    match pairAt a i with
    | .error e => .error e
    | .ok (l, r) => .ok (.pair l r)

/-- `sexp` -/
def sexp (a : Alloc) (p : Ptr) : Except Err SExp :=
  match p with
  | .bytes _ => .ok .atom
  | .small _ => .ok .atom
  | .pair i =>
    match pairAt a i with
    | .error e => .error e
    | .ok (l, r) => .ok (.pair l r)

/-- `atom` (the bytes the returned `Atom` derefs to; `Atom::U32(bytes, len)` derefs to
`&bytes[4 - len..]`) -/
def atom (a : Alloc) (p : Ptr) : Except Err Bytes :=
  match p with
  | .bytes i =>
    match atomBuf a i with
    | .error e => .error e
    | .ok (s, e) => slice a.u8 s e
  | .small v => smallBytesE v
  | .pair _ => .error (.Panic "expected atom, got pair")

/-- `atom_len` -/
def atomLen (a : Alloc) (p : Ptr) : Except Err Nat :=
  match p with
  | .bytes i =>
    match atomBuf a i with
    | .error e => .error e
    | .ok ab => bufLen ab
  | .small v => .ok (lenForValue v)
  | .pair _ => .error (.Panic "expected atom, got pair")

/-- `small_number` -/
def smallNumber (a : Alloc) (p : Ptr) : Except Err (Option Nat) :=
  match p with
  | .small v => .ok (some v)
  | .bytes i =>
    match atomBuf a i with
    | .error e => .error e
    | .ok (s, e) =>
      match slice a.u8 s e with
      | .error er => .error er
      | .ok b => fitsInSmallAtomE b
  | .pair _ => .ok none

/-- `number` (`number_from_u8` is `decodeInt`) -/
def number (a : Alloc) (p : Ptr) : Except Err Int :=
  match p with
  | .bytes i =>
    match atomBuf a i with
    | .error e => .error e
    | .ok (s, e) =>
      match slice a.u8 s e with
      | .error er => .error er
      | .ok b => .ok (decodeInt b)
  | .small v => .ok (v : Int)
  | .pair _ => .error (.Panic "number() called on pair")

/-- the loop `for i in atom.start..atom.end { atom_val <<= 8; atom_val |= u8_vec[i] }` -/
def foldRange (u8 : Bytes) : Nat → Nat → Nat → Except Err Nat
  | _, 0, acc => .ok acc
  | i, n + 1, acc =>
    match u8[i]? with
    | none => .error (.Panic "index out of bounds: u8_vec")
    | some x => foldRange u8 (i + 1) n (((acc <<< 8) ||| x.toNat) % 2 ^ 32)

/-- `bytes_eq_int` -/
def bytesEqInt (a : Alloc) (ab : Nat × Nat) (val : Nat) : Except Err Bool :=
  let len := lenForValue val
  match bufLen ab with
  | .error e => .error e
  | .ok l =>
    if l != len then .ok false
    else if val == 0 then .ok true
    else
      match a.u8[ab.1]? with
      | none => .error (.Panic "index out of bounds: u8_vec")
      | some x =>
        if x.toNat &&& 0x80 != 0 then .ok false
        else
          match foldRange a.u8 ab.1 (ab.2 - ab.1) 0 with
          | .error e => .error e
          | .ok atomVal => .ok (val == atomVal)

/-- `atom_eq` -/
def atomEq (a : Alloc) (lhs rhs : Ptr) : Except Err Bool :=
  match lhs, rhs with
  | .pair _, _ => .error (.Panic "atom_eq() called on pair")
  | _, .pair _ => .error (.Panic "atom_eq() called on pair")
  | .bytes i, .bytes j =>
    match atomBuf a i with
    | .error e => .error e
    | .ok l =>
      match atomBuf a j with
      | .error e => .error e
      | .ok r =>
        match slice a.u8 l.1 l.2 with
        | .error e => .error e
        | .ok lb =>
          match slice a.u8 r.1 r.2 with
          | .error e => .error e
          | .ok rb => .ok (lb == rb)
  | .small v, .small w => .ok (v == w)
  | .small v, .bytes j =>
    match atomBuf a j with
    | .error e => .error e
    | .ok r => bytesEqInt a r v
  | .bytes i, .small w =>
    match atomBuf a i with
    | .error e => .error e
    | .ok l => bytesEqInt a l w

/-! ### allocation -/

/-- `new_atom` -/
def newAtom (a : Alloc) (v : Bytes) : Out Ptr :=
  let start := a.u8.length
  if start + a.ghostHeap + v.length > a.heapLimit then (.error .OutOfMemory, a)
  else
    let idx := a.atoms.length
    match checkAtomLimit a with
    | .error e => (.error e, a)
    | .ok () =>
      match fitsInSmallAtomE v with
      | .error e => (.error e, a)
      | .ok (some ret) =>
        (.ok (.small ret), { a with ghostAtoms := a.ghostAtoms + 1, ghostHeap := a.ghostHeap + v.length })
      | .ok none =>
        let u8' := a.u8 ++ v
        (.ok (.bytes idx), { a with u8 := u8', atoms := a.atoms ++ [(start, u8'.length)] })

/-- `new_small_number` (`debug_assert!` is active in the dev profile the harness uses) -/
def newSmallNumber (a : Alloc) (v : Nat) : Out Ptr :=
  if v > idxMask then (.error (.Panic "assertion failed: v <= NODE_PTR_IDX_MASK"), a)
  else
    let len := lenForValue v
    if a.u8.length + a.ghostHeap + len > a.heapLimit then (.error .OutOfMemory, a)
    else
      match checkAtomLimit a with
      | .error e => (.error e, a)
      | .ok () =>
        (.ok (.small v), { a with ghostAtoms := a.ghostAtoms + 1, ghostHeap := a.ghostHeap + len })

/-- `new_u64` (`val < 2^64`) -/
def newU64 (a : Alloc) (val : Nat) : Out Ptr := newAtom a (u64Bytes val)

/-- `new_i64` (`-2^63 ≤ val < 2^63`) -/
def newI64 (a : Alloc) (val : Int) : Out Ptr :=
  if val ≥ 0 then newU64 a val.toNat
  else newAtom a (i64NegBytes val)

/-- `new_number` -/
def newNumber (a : Alloc) (v : Int) : Out Ptr :=
  if numberIsSmall v then newSmallNumber a v.toNat
  else newAtom a (stripLeadingZeros (toSignedBytesBE v))

/-- `new_pair` -/
def newPair (a : Alloc) (first rest : Ptr) : Out Ptr :=
  let idx := a.pairs.length
  if Gen.maxNumPairs < a.ghostPairs then (.error (.Panic "attempt to subtract with overflow"), a)
  else if idx ≥ Gen.maxNumPairs - a.ghostPairs then (.error .TooManyPairs, a)
  else (.ok (.pair idx), { a with pairs := a.pairs ++ [(first, rest)] })

/-- `add_ghost_pair` -/
def addGhostPair (a : Alloc) (amount : Nat) : Out Unit :=
  if Gen.maxNumPairs < a.ghostPairs then (.error (.Panic "attempt to subtract with overflow"), a)
  else if Gen.maxNumPairs - a.ghostPairs < a.pairs.length then (.error (.Panic "attempt to subtract with overflow"), a)
  else if Gen.maxNumPairs - a.ghostPairs - a.pairs.length < amount then (.error .TooManyPairs, a)
  else (.ok (), { a with ghostPairs := a.ghostPairs + amount })

/-- `remove_ghost_pair` -/
def removeGhostPair (a : Alloc) (amount : Nat) : Out Unit :=
  if a.ghostPairs < amount then (.error (.Panic "assertion failed: self.ghost_pairs >= amount"), a)
  else (.ok (), { a with ghostPairs := a.ghostPairs - amount })

/-- `add_ghost_atom` -/
def addGhostAtom (a : Alloc) (amount : Nat) : Out Unit :=
  if Gen.maxNumAtoms < a.ghostAtoms then (.error (.Panic "attempt to subtract with overflow"), a)
  else if Gen.maxNumAtoms - a.ghostAtoms < a.atoms.length then (.error (.Panic "attempt to subtract with overflow"), a)
  else if Gen.maxNumAtoms - a.ghostAtoms - a.atoms.length < amount then (.error .TooManyAtoms, a)
  else (.ok (), { a with ghostAtoms := a.ghostAtoms + amount })

/-- `bounds_check` of `new_substr` -/
def boundsCheck (start stop len : Nat) : Except Err Unit :=
  if start > len then .error (.InvalidAllocArg "substr start out of bounds")
  else if stop > len then .error (.InvalidAllocArg "substr end out of bounds")
  else if stop < start then .error (.InvalidAllocArg "substr invalid bounds")
  else .ok ()

/-- `new_substr`.  Note the last branch: a substring of an inline atom that is not itself a
canonical small integer is appended to `u8_vec` **without a heap-limit check and without
ghost compensation** (DESIGN §6 finding C). -/
def newSubstr (a : Alloc) (node : Ptr) (start stop : Nat) : Out Ptr :=
  match checkAtomLimit a with
  | .error e => (.error e, a)
  | .ok () =>
    match node with
    | .pair _ => (.error (.InternalError "substr expected atom, got pair"), a)
    | .bytes i =>
      match atomBuf a i with
      | .error e => (.error e, a)
      | .ok ab =>
        match bufLen ab with
        | .error e => (.error e, a)
        | .ok atomLen =>
          match boundsCheck start stop atomLen with
          | .error e => (.error e, a)
          | .ok () =>
            let idx := a.atoms.length
            (.ok (.bytes idx), { a with atoms := a.atoms ++ [(ab.1 + start, ab.1 + stop)] })
    | .small val =>
      let len := lenForValue val
      match boundsCheck start stop len with
      | .error e => (.error e, a)
      | .ok () =>
        match smallBytesE val with
        | .error e => (.error e, a)
        | .ok buf =>
          match slice buf start stop with
          | .error e => (.error e, a)
          | .ok substr =>
            match fitsInSmallAtomE substr with
            | .error e => (.error e, a)
            | .ok (some newVal) => (.ok (.small newVal), { a with ghostAtoms := a.ghostAtoms + 1 })
            | .ok none =>
              let start' := a.u8.length
              let end' := start' + substr.length
              let idx := a.atoms.length
              (.ok (.bytes idx), { a with u8 := a.u8 ++ substr, atoms := a.atoms ++ [(start', end')] })

/-- the `for node in nodes` loop of `new_concat`: current `u8_vec` and `counter` are threaded;
on the error exits the vector is truncated to `start` as in the source. -/
def concatLoop (atoms : List (Nat × Nat)) (start newSize : Nat) :
    List Ptr → Bytes → Nat → Except Err Nat × Bytes
  | [], u8, counter => (.ok counter, u8)
  | .pair _ :: _, u8, _ => (.error (.InternalError "concat expected atom, got pair"), u8.take start)
  | .bytes i :: rest, u8, counter =>
    match atoms[i]? with
    | none => (.error (.Panic "index out of bounds: atom_vec"), u8)
    | some term =>
      match bufLen term with
      | .error e => (.error e, u8)
      | .ok tlen =>
        if counter + tlen > newSize then
          (.error (.InternalError "concat passed invalid new_size"), u8.take start)
        else
          match slice u8 term.1 term.2 with   -- `extend_from_within`
          | .error e => (.error e, u8)
          | .ok bs => concatLoop atoms start newSize rest (u8 ++ bs) (counter + tlen)
  | .small val :: rest, u8, counter =>
    match smallBytesE val with
    | .error e => (.error e, u8)
    | .ok buf => concatLoop atoms start newSize rest (u8 ++ buf) (counter + lenForValue val)

/-- `new_concat` -/
def newConcat (a : Alloc) (newSize : Nat) (nodes : List Ptr) : Out Ptr :=
  match checkAtomLimit a with
  | .error e => (.error e, a)
  | .ok () =>
    let start := a.u8.length
    if start + a.ghostHeap + newSize > a.heapLimit then (.error .OutOfMemory, a)
    else
      match nodes with
      | [] =>
        if 0 != newSize then (.error (.InternalError "concat passed invalid new_size"), a)
        else (.ok nil, { a with ghostAtoms := a.ghostAtoms + 1 })
      | [n0] =>
        match atomLen a n0 with
        | .error e => (.error e, a)
        | .ok l =>
          if l != newSize then (.error (.InternalError "concat passed invalid new_size"), a)
          else (.ok n0, { a with ghostHeap := a.ghostHeap + newSize, ghostAtoms := a.ghostAtoms + 1 })
      | _ =>
        match concatLoop a.atoms start newSize nodes a.u8 0 with
        | (.error e, u8') => (.error e, { a with u8 := u8' })
        | (.ok counter, u8') =>
          if counter != newSize then
            (.error (.InternalError "concat passed invalid new_size"), { a with u8 := u8'.take start })
          else
            let idx := a.atoms.length
            (.ok (.bytes idx), { a with u8 := u8', atoms := a.atoms ++ [(start, u8'.length)] })

/-- `maybe_restore_with_node` -/
def maybeRestoreWithNode (a : Alloc) (cp : TCheckpoint) (ret : Ptr) : Out MaybeRestore :=
  if a.u8.length < cp.u8s then (.error (.Panic "attempt to subtract with overflow"), a)
  else if a.atoms.length < cp.atoms then (.error (.Panic "attempt to subtract with overflow"), a)
  else if a.pairs.length < cp.pairs then (.error (.Panic "attempt to subtract with overflow"), a)
  else
    let savedBytes := (a.u8.length - cp.u8s) + (a.atoms.length - cp.atoms) * Gen.savedBytesPerAtom
      + (a.pairs.length - cp.pairs) * Gen.savedBytesPerPair
    if savedBytes < Gen.minSavings then (.ok .aborted, a)
    else
      match checkpointNodeStatus a cp ret with
      | .error e => (.error e, a)
      | .ok .before =>
        match restoreTransparentCheckpoint a cp with
        | (.error e, a') => (.error e, a')
        | (.ok (), a') => (.ok .noReplace, a')
      | .ok (.afterOldBytes start stop) =>
        match restoreTransparentCheckpoint a cp with
        | (.error e, a') => (.error e, a')
        | (.ok (), a1) =>
          if a1.ghostAtoms == 0 then (.error (.InternalError "ghost atom accounting error"), a1)
          else
            let a2 := { a1 with ghostAtoms := a1.ghostAtoms - 1 }
            if stop < start || stop > a2.u8.length then (.error (.InternalError "invalid atom byte range"), a2)
            else
              let idx := a2.atoms.length
              (.ok (.replace (.bytes idx)), { a2 with atoms := a2.atoms ++ [(start, stop)] })
      | .ok .afterNewBytes =>
        match node a ret with
        | .error e => (.error e, a)
        | .ok (.u32 _) => (.ok .aborted, a)
        | .ok (.pair _ _) => (.ok .aborted, a)
        | .ok (.buffer buf) =>
          if buf.length > Gen.cloneAtomLimit then (.ok .aborted, a)
          else
            let len := buf.length
            match restoreTransparentCheckpoint a cp with
            | (.error e, a') => (.error e, a')
            | (.ok (), a1) =>
              if a1.ghostAtoms == 0 then (.error (.InternalError "ghost atom accounting error"), a1)
              else
                let a2 := { a1 with ghostAtoms := a1.ghostAtoms - 1 }
                if a2.ghostHeap < len then (.error (.InternalError "ghost heap accounting error"), a2)
                else
                  let a3 := { a2 with ghostHeap := a2.ghostHeap - len }
                  -- re-created as a heap atom (no `new_atom`: no limit checks, never inline)
                  let start := a3.u8.length
                  let u8' := a3.u8 ++ buf
                  let idx := a3.atoms.length
                  (.ok (.replace (.bytes idx)), { a3 with u8 := u8', atoms := a3.atoms ++ [(start, u8'.length)] })

end Clvm.Alloc
