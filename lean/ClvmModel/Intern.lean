/-
Model of `src/serde/intern.rs` (`intern_tree_limited`, `intern_tree`, `InternedTree`).

The *source* of an interning run is a DAG inside an `Allocator`: the memo `node_to_interned` is keyed
by source `NodePtr`, so sharing in the source is observable by the traversal (its result is
characterised by the denotation alone: `C24.intern_preserves`, `atoms_complete`, `pairs_complete`).
The source is therefore modelled as a
post-order node list (`Dag`): node `i` is an atom with its bytes or a pair of two earlier nodes.  Its
denotation is `denote d i : Tree`.

Transcription rules
* `while let Some(current) = stack.pop()` is `loop` (explicit fuel; `internTreeLimited` supplies
  `5·|d| + 2`, and `Lemmas/InternLoop.lean` proves that this is never exhausted on a well-formed DAG);
  the body of the loop is `step`, with every branch in the order written.
* The three `HashMap`s are association lists with `List.lookup` (newest binding first); a key is
  inserted at most once, as in the Rust (`Entry::Vacant` / `contains_key` guard).
* A `NodePtr` of the *new* allocator is an `INode`: `atom k` is the node created by the `new_atom`
  whose result was pushed as `atoms[k]`, `pair k` likewise for `pairs[k]` (each `new_atom` /
  `new_pair` of `intern_tree_limited` is immediately followed by that push).  The real allocator
  hands out *inline* pointers for small canonical atoms, so two `new_atom` calls with equal bytes
  could return equal pointers; the content-keyed `atom_to_interned` map guarantees that
  `new_atom` is called once per distinct content, which is what makes `INode.atom k` injective in
  the content (theorem `C24.atoms_distinct`).
* Source node identity is the DAG index.  The implementation's identity is coarser for inline
  small atoms (equal values share one `NodePtr`); this only turns some memo misses into memo
  hits (the content-keyed maps decide what is created); the `INTERN` stream compares the tables
  themselves on DAGs with equal inline atoms at different indices.
* The new allocator is represented by the counters `new_atom` / `new_pair` consult
  (`Counters`): heap bytes incl. ghost heap, atom count incl. ghost atoms, pair count.  Every
  `new_atom(v)` adds `|v|` to the heap figure whether the atom is stored inline or in the buffer.
* `source.sexp(current)` on a node that does not exist and `node_to_interned[&node]` on a missing
  key are `Err.Panic`.
-/
import ClvmModel.Tree
import ClvmModel.Gen.Allocator
import ClvmModel.Gen.Serde2026

namespace Clvm.Intern

/-! ### the source DAG -/

inductive SNode where
  | atom (b : Bytes)
  | pair (l r : Nat)
  deriving Repr, DecidableEq, Inhabited

/-- post-order node list; the root of a request is its last node -/
abbrev Dag := Array SNode

/-- children precede their parent -/
def Dag.WF (d : Dag) : Prop := ∀ i l r, d[i]? = some (SNode.pair l r) → l < i ∧ r < i

/-- executable form of `WF` (used by the protocol parser to reject ill-formed requests) -/
def Dag.wfB (d : Dag) : Bool :=
  (List.range d.size).all fun i =>
    match d[i]? with
    | some (SNode.pair l r) => decide (l < i) && decide (r < i)
    | _ => true

/-- the tree a source node denotes (an ill-formed reference denotes nil; the theorems assume `WF`) -/
def denote (d : Dag) (i : Nat) : Tree :=
  match d[i]? with
  | some (.atom b) => .atom b
  | some (.pair l r) =>
    if _h : l < i ∧ r < i then .pair (denote d l) (denote d r) else .atom []
  | none => .atom []
termination_by i

/-! ### the new allocator, as far as interning and the 2026 decoder consult it -/

structure Counters where
  heapLimit : Nat
  /-- `u8_vec.len() + ghost_heap` -/
  heap : Nat
  /-- `atom_vec.len() + ghost_atoms` -/
  atoms : Nat
  /-- `pair_vec.len() + ghost_pairs` -/
  pairs : Nat
  deriving Repr, DecidableEq

/-- `Allocator::new_limited(heap_limit)` (`assert!(heap_limit <= u32::MAX)`) -/
def Counters.newLimited (heapLimit : Nat) : Except Err Counters :=
  if heapLimit > 2 ^ 32 - 1 then .error (.Panic "assert!(heap_limit <= u32::MAX as usize)")
  else .ok { heapLimit, heap := Gen.initGhostHeap, atoms := Gen.initGhostAtoms, pairs := Gen.initGhostPairs }

/-- `Allocator::new()` -/
def Counters.new : Counters :=
  { heapLimit := 2 ^ 32 - 1, heap := Gen.initGhostHeap, atoms := Gen.initGhostAtoms, pairs := Gen.initGhostPairs }

/-- `Allocator::new_atom(v)` with `|v| = len`: heap check, then atom-count check -/
def Counters.newAtom (c : Counters) (len : Nat) : Except Err Counters :=
  if c.heap + len > c.heapLimit then .error .OutOfMemory
  else if c.atoms == Gen.maxNumAtoms then .error .TooManyAtoms
  else .ok { c with heap := c.heap + len, atoms := c.atoms + 1 }

/-- `Allocator::new_pair` -/
def Counters.newPair (c : Counters) : Except Err Counters :=
  if c.pairs ≥ Gen.maxNumPairs then .error .TooManyPairs
  else .ok { c with pairs := c.pairs + 1 }

/-! ### interned nodes -/

/-- a `NodePtr` of the new allocator -/
inductive INode where
  | atom (k : Nat)
  | pair (k : Nat)
  deriving Repr, DecidableEq, Inhabited

/-- `InternedTree` (`allocator` = the counters plus the contents reachable through `atoms` / `pairs`) -/
structure InternedTree where
  ctr : Counters
  root : INode
  /-- all unique atoms, in insertion order: `atoms[k]` is the content of `INode.atom k` -/
  atoms : List Bytes
  /-- all unique pairs, in post-order: `pairs[k]` are the children of `INode.pair k` -/
  pairs : List (INode × INode)
  deriving Repr

def INode.rank : INode → Nat
  | .atom _ => 0
  | .pair k => k + 1

/-- the tree an interned node denotes (`none` for a dangling or non-post-order reference) -/
def treeOf (atoms : List Bytes) (pairs : List (INode × INode)) (n : INode) : Option Tree :=
  match n with
  | .atom k => (atoms[k]?).map Tree.atom
  | .pair k =>
    match pairs[k]? with
    | none => none
    | some (l, r) =>
      if _h : l.rank < k + 1 ∧ r.rank < k + 1 then
        match treeOf atoms pairs l, treeOf atoms pairs r with
        | some a, some b => some (.pair a b)
        | _, _ => none
      else none
termination_by n.rank
decreasing_by all_goals simp_all [INode.rank]

def InternedTree.tree (t : InternedTree) : Option Tree := treeOf t.atoms t.pairs t.root

/-! ### `intern_tree_limited` -/

structure State where
  ctr : Counters
  atoms : List Bytes
  pairs : List (INode × INode)
  /-- `node_to_interned: HashMap<NodePtr, NodePtr>` -/
  nodeToInterned : List (Nat × INode)
  /-- `atom_to_interned: HashMap<Atom, NodePtr>` -/
  atomToInterned : List (Bytes × INode)
  /-- `pair_to_interned: HashMap<(NodePtr, NodePtr), NodePtr>` -/
  pairToInterned : List ((INode × INode) × INode)
  stack : List Nat
  deriving Repr

/-- one iteration of the `while let` loop after `stack.pop()` returned `current`
(`rest` is the remaining stack) -/
def step (d : Dag) (s : State) (current : Nat) (rest : List Nat) : Except Err State :=
  -- `if node_to_interned.contains_key(&current) { continue; }`
  if (s.nodeToInterned.lookup current).isSome then .ok { s with stack := rest }
  else
    match d[current]? with
    | none => .error (.Panic "source.sexp: invalid NodePtr")
    | some (.atom atom) =>
      match s.atomToInterned.lookup atom with
      | some o => .ok { s with stack := rest, nodeToInterned := (current, o) :: s.nodeToInterned }
      | none =>
        match s.ctr.newAtom atom.length with
        | .error e => .error e
        | .ok ctr =>
          let newNode := INode.atom s.atoms.length
          .ok { s with
                ctr := ctr
                atomToInterned := (atom, newNode) :: s.atomToInterned
                atoms := s.atoms ++ [atom]
                nodeToInterned := (current, newNode) :: s.nodeToInterned
                stack := rest }
    | some (.pair left right) =>
      let leftInterned := s.nodeToInterned.lookup left
      let rightInterned := s.nodeToInterned.lookup right
      match leftInterned, rightInterned with
      | some l, some r =>
        match s.pairToInterned.lookup (l, r) with
        | some o => .ok { s with stack := rest, nodeToInterned := (current, o) :: s.nodeToInterned }
        | none =>
          match s.ctr.newPair with
          | .error e => .error e
          | .ok ctr =>
            let newNode := INode.pair s.pairs.length
            .ok { s with
                  ctr := ctr
                  pairToInterned := ((l, r), newNode) :: s.pairToInterned
                  pairs := s.pairs ++ [(l, r)]
                  nodeToInterned := (current, newNode) :: s.nodeToInterned
                  stack := rest }
      | _, _ =>
        let st := current :: rest
        let st := if rightInterned.isNone then right :: st else st
        let st := if leftInterned.isNone then left :: st else st
        .ok { s with stack := st }

/-- `while let Some(current) = stack.pop() { … }` -/
def loop (d : Dag) : Nat → State → Except Err State
  | 0, _ => .error (.Panic "fuel")
  | fuel + 1, s =>
    match s.stack with
    | [] => .ok s
    | current :: rest =>
      match step d s current rest with
      | .error e => .error e
      | .ok s' => loop d fuel s'

def fuelFor (d : Dag) : Nat := 5 * d.size + 2

/-- `intern_tree_limited(source, node, heap_limit)` -/
def internTreeLimited (d : Dag) (node : Nat) (heapLimit : Nat) : Except Err InternedTree :=
  match Counters.newLimited heapLimit with
  | .error e => .error e
  | .ok ctr =>
    let s0 : State := { ctr, atoms := [], pairs := [], nodeToInterned := [], atomToInterned := [],
                        pairToInterned := [], stack := [node] }
    match loop d (fuelFor d) s0 with
    | .error e => .error e
    | .ok s =>
      match s.nodeToInterned.lookup node with
      | none => .error (.Panic "node_to_interned[&node]")
      | some root => .ok { ctr := s.ctr, root, atoms := s.atoms, pairs := s.pairs }

/-- `intern_tree(source, node)` -/
def internTree (d : Dag) (node : Nat) : Except Err InternedTree :=
  internTreeLimited d node Gen.internTreeHeapLimit

end Clvm.Intern
