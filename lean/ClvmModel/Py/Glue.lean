/-
Model of the pure glue logic of the Python bindings (C26):

* `wheel/src/api.rs`            `run_serialized_chia_program` (flag conversion, allocator choice),
                                `deser_2026` (message translation), `deser_auto` (format dispatch)
* `wheel/src/adapt_response.rs` `adapt_response` (what a failing run hands to Python)
* bitflags 2.x                  `from_bits_truncate`, `contains`, `all`

Everything numeric (declared flag constants, the flag that selects the limited allocator, the two
heap limits, the default maximal atom length, the magic prefix, the `EvalErr` display strings) is
generated from the sources (`Clvm.Gen`, translator snippets `50_wheel.py`, `10_serde2026.py`).
pyo3 marshalling (argument conversion, `PyErr` construction, GIL release) is runtime behaviour and
is not modelled.
-/
import ClvmModel.Basic
import ClvmModel.Gen.Wheel
import ClvmModel.Gen.Serde2026

namespace Clvm.Py.Glue

/-! ### flags -/

/-- bitflags `Flags::all()`: the union of the declared constants (a fold of `|` over `FLAGS`). -/
def allBits (fs : List Nat) : Nat := fs.foldl (fun acc f => acc ||| f) 0

/-- bitflags `from_bits_truncate(bits) = from_bits_retain(bits & Self::all().bits())`. -/
def fromBitsTruncateWith (fs : List Nat) (word : Nat) : Nat := word &&& allBits fs

/-- `ClvmFlags::from_bits_truncate(flags)` as called by `run_serialized_chia_program`. -/
def fromBitsTruncate (word : Nat) : Nat := fromBitsTruncateWith Gen.wheelFlagBits word

/-- bitflags `contains`: `self & other == other`. -/
def contains (flags other : Nat) : Bool := flags &&& other == other

/-- the heap limit of the allocator the binding creates:
`if flags.contains(LIMIT_HEAP) { Allocator::new_limited(500000000) } else { Allocator::new() }`. -/
def heapLimit (flags : Nat) : Nat :=
  if contains flags Gen.wheelHeapFlag then Gen.wheelHeapLimit else Gen.wheelDefaultHeapLimit

/-- what `run_serialized_chia_program` derives from its `flags: u32` argument before parsing anything:
the flag set handed to `ChiaDialect::new`, and the allocator's heap limit. -/
def runSetup (word : Nat) : Nat × Nat :=
  let flags := fromBitsTruncate word
  (flags, heapLimit flags)

/-! ### format dispatch -/

def magic : Bytes := Gen.magic2026.map UInt8.ofNat

/-- `<[u8]>::strip_prefix` -/
def stripPrefix : Bytes → Bytes → Option Bytes
  | [], b => some b
  | _ :: _, [] => none
  | p :: ps, x :: xs => if p == x then stripPrefix ps xs else none

/-- `<[u8]>::starts_with` -/
def startsWith (b pre : Bytes) : Bool := (stripPrefix pre b).isSome

inductive Decoder where
  /-- `deserialize_2026_body_from_stream` on the bytes after the magic prefix -/
  | serde2026
  /-- `node_from_bytes_backrefs` on the whole blob (also reads the classic format) -/
  | backrefs
  deriving Repr, DecidableEq

/-- `deser_auto`: which decoder gets which bytes. -/
def deserAuto (blob : Bytes) : Decoder × Bytes :=
  match stripPrefix magic blob with
  | some body => (.serde2026, body)
  | none => (.backrefs, blob)

/-! ### error adaptation -/

def lookupErr (k : String) : List (String × String × Bool) → Option (String × Bool)
  | [] => none
  | (v, m, n) :: rest => if v == k then some (m, n) else lookupErr k rest

/-- the `String` payload of the variants that have one (`{1}` of the display string) -/
def Err.payload : Err → String
  | .InternalError m => m
  | .InvalidOpArg m => m
  | .InvalidAllocArg m => m
  | _ => ""

/-- `EvalErr::to_string()` (thiserror `#[error("…")]`): the table is generated from `src/error.rs`.
`Panic`/`Abort` are not `EvalErr` values; they have no entry. -/
def errMessage (e : Err) : Option String :=
  match lookupErr e.kind Gen.wheelErrTable with
  | some (fmt, _) => some (fmt.replace "{1}" (Err.payload e))
  | none => none

/-- does `EvalErr::node_ptr()` return the error's own node (`true`) or the default `NodePtr::NIL` -/
def errHasNode (e : Err) : Option Bool :=
  match lookupErr e.kind Gen.wheelErrTable with
  | some (_, n) => some n
  | none => none

/-- `adapt_response` on `Err(eval_err)`: `ValueError((eval_err.to_string(), LazyNode(node_ptr)))`:
the message, and whether the blob is the error's node (else nil). -/
def adaptErr (e : Err) : Option (String × Bool) :=
  match errMessage e, errHasNode e with
  | some m, some n => some (m, n)
  | _, _ => none

/-- the `map_err` closure of `deser_2026`: a friendlier message when the prefix is missing. -/
def deser2026Message (blob : Bytes) (e : Err) : Option String :=
  if !startsWith blob magic then some Gen.wheelMissingPrefixMsg else errMessage e

end Clvm.Py.Glue
