/-
`wheel/python/clvm_rs/curry_and_treehash.py` (`CurryTreehasher`), `at.py` (`at`) and the
`Program` methods that call them (`Program.curry`, `.uncurry`, `.curry_hash`, `__eq__`/`__ne__`)
— property C28.

One Lean definition per Python function:

* `atPos`                         `at(obj, position)`  (`at` is a Lean keyword)
* `Castable`, `Castable.toTree`   the nested python lists / tuples / ints / bytes that
                                  `CurryTreehasher.curry` builds, and `Program.to` on them
* `curryCastable`                 `CurryTreehasher.curry`
* `curry`                         `Program.curry` (= `self.to(curry_treehasher.curry(self, *args))`)
* `progEq`, `progNe`              `x == kw`, `x != kw` for `x = at(…)` (`None` or a `Program`)
* `uncurryLoop`, `uncurryE`       `CurryTreehasher.uncurry` (literal: every `assert` is an outcome)
* `uncurry`                       the same, total (equal by `CurryLemmas.uncurry_no_assert`)
* `curriedValuesTreeHash`, `curryAndTreehash`, `calculateHashOfQuotedModHash`
* `curryHash`                     `Program.curry_hash`
* `treeHashWith`                  the recursive specification of a tree hash for arbitrary
                                  `shatree_atom` / `shatree_pair`

Modelling decisions (trusted base)
* `Program.__eq__(other)` is `self.tree_hash() == Program.to(other).tree_hash()`: it compares
  sha256 tree hashes.  It is modelled as STRUCTURAL equality of trees (`progEq`), i.e.
  collision-freeness of sha256tree on the compared values is assumed.  `None == bytes` is `False`,
  `None != bytes` is `True`.
* `Program.to` (`to_clvm_object`, an explicit-stack machine) is modelled by its recursive meaning
  `Castable.toTree`: `bytes ↦ atom`, `int ↦ atom (int_to_bytes v)`, a CLVM object ↦ itself,
  `(a, b) ↦ pair`, `[a, b, …] ↦` the nil-terminated list.  The stack machine itself is not
  transcribed.
* The position strings passed to `at` are literals made of `f`/`r`; they are `List Step`, so
  the `ValueError` for any other character cannot be expressed (and cannot happen).
* Everything that hashes is parametric in `shatree_atom` / `shatree_pair`.
* The module-level `ONE = bytes.fromhex("01")` of curry_and_treehash.py has no translator item of
  its own; it is taken from `Gen.pyKwOne` (= `CHIA_DIALECT.ONE`, the same bytes).
-/
import ClvmModel.Tree
import ClvmModel.Gen.Wheel
import ClvmModel.Py.Casts

namespace Clvm.Py.Curry
open Clvm

/-! ### `chia_dialect.py` constants (extracted) -/

/-- `CHIA_DIALECT.NULL` -/
def NULL : Bytes := Gen.pyKwNull.map UInt8.ofNat
/-- `CHIA_DIALECT.ONE` -/
def ONE : Bytes := Gen.pyKwOne.map UInt8.ofNat
/-- `CHIA_DIALECT.Q_KW` -/
def Q_KW : Bytes := Gen.pyKwQ.map UInt8.ofNat
/-- `CHIA_DIALECT.A_KW` -/
def A_KW : Bytes := Gen.pyKwA.map UInt8.ofNat
/-- `CHIA_DIALECT.C_KW` -/
def C_KW : Bytes := Gen.pyKwC.map UInt8.ofNat
/-- the module constant `ONE` of curry_and_treehash.py (see the header) -/
def moduleONE : Bytes := Gen.pyKwOne.map UInt8.ofNat
/-- `casts.NULL_BLOB = b""` -/
def NULL_BLOB : Bytes := []

/-! ### `at` -/

/-- one character of a position string -/
inductive Step where
  | f
  | r
  deriving Repr, DecidableEq, Inhabited

/-- `at(obj, position)`: follow the path; `None` if an atom is hit at some intermediate node. -/
def atPos : Tree → List Step → Option Tree
  | v, [] => some v
  | v, c :: rest =>
    match v with
    | .atom _ => none            -- `pair = v.pair; if pair is None: return None`
    | .pair p0 p1 =>
      match c with
      | .f => atPos p0 rest
      | .r => atPos p1 rest

/-! ### `Program.to` on the values `curry` builds -/

/-- the part of `CastableType` that `CurryTreehasher.curry` uses -/
inductive Castable where
  | bytes (b : Bytes)
  | int (v : Int)
  | storage (t : Tree)
  | tuple (l r : Castable)
  | list (xs : List Castable)

mutual
/-- `Program.to(v)` -/
def Castable.toTree : Castable → Tree
  | .bytes b => .atom b
  | .int v => .atom (Casts.intToBytes v)
  | .storage t => t
  | .tuple l r => .pair l.toTree r.toTree
  | .list xs => Castable.listToTree xs
/-- a python list: the items, then the null terminator `to_atom_f(NULL_BLOB)` -/
def Castable.listToTree : List Castable → Tree
  | [] => .atom NULL_BLOB
  | x :: xs => .pair x.toTree (Castable.listToTree xs)
end

/-! ### `curry` -/

/-- `CurryTreehasher.curry`:
`fixed_args = 1; for arg in reversed(args): fixed_args = [C_KW, (Q_KW, arg), fixed_args];
return [A_KW, (Q_KW, mod), fixed_args]` -/
def curryCastable (mod : Tree) (args : List Tree) : Castable :=
  let fixedArgs : Castable :=
    args.reverse.foldl
      (fun fixedArgs arg => .list [.bytes C_KW, .tuple (.bytes Q_KW) (.storage arg), fixedArgs])
      (.int 1)
  .list [.bytes A_KW, .tuple (.bytes Q_KW) (.storage mod), fixedArgs]

/-- `Program.curry`: `self.to(self.curry_treehasher.curry(self, *args))` -/
def curry (mod : Tree) (args : List Tree) : Tree := (curryCastable mod args).toTree

/-! ### `uncurry` -/

/-- `x == kw` for `x = at(…)`: `None == bytes` is `False`; `Program.__eq__(bytes)` compares the
tree hashes of `self` and `Program.to(bytes)` — modelled as structural equality with the atom
(collision-freeness of sha256tree assumed; trusted base). -/
def progEq (x : Option Tree) (kw : Bytes) : Bool :=
  match x with
  | none => false
  | some t => decide (t = .atom kw)

/-- `x != kw`: `None != bytes` is `True`; `Program.__ne__` is `not self.__eq__(other)`. -/
def progNe (x : Option Tree) (kw : Bytes) : Bool :=
  match x with
  | none => true
  | some t => !(progEq (some t) kw)

/-- the `while core != dialect.ONE:` loop of `uncurry`.  `core` descends to a strict sub-tree in
every iteration; the fuel (`sexp.size` at the call) is never exhausted
(`CurryLemmas.uncurry_no_assert`). -/
def uncurryLoop (sexp uncurriedFunction : Tree) :
    Nat → Option Tree → List Tree → Except Err (Tree × Option (List Tree))
  | 0, _, _ => .error (.Panic "fuel")
  | fuel + 1, core, coreItems =>
    if progNe core ONE then
      match core with
      | none => .error (.Panic "assert core is not None")
      | some core =>
        if progNe (atPos core [.f]) C_KW
            || progNe (atPos core [.r, .f, .f]) Q_KW
            || progNe (atPos core [.r, .r, .r]) NULL then
          .ok (sexp, none)
        else
          match atPos core [.r, .f, .r] with
          | none => .error (.Panic "assert new_item is not None")
          | some newItem =>
            uncurryLoop sexp uncurriedFunction fuel (atPos core [.r, .r, .f]) (coreItems ++ [newItem])
    else .ok (uncurriedFunction, some coreItems)

/-- `CurryTreehasher.uncurry`, literal -/
def uncurryE (sexp : Tree) : Except Err (Tree × Option (List Tree)) :=
  if progNe (atPos sexp [.f]) A_KW
      || progNe (atPos sexp [.r, .f, .f]) Q_KW
      || progNe (atPos sexp [.r, .r, .r]) NULL then
    .ok (sexp, none)
  else
    match atPos sexp [.r, .f, .r] with
    | none => .error (.Panic "assert uncurried_function is not None")
    | some uncurriedFunction =>
      uncurryLoop sexp uncurriedFunction sexp.size (atPos sexp [.r, .r, .f]) []

/-- `CurryTreehasher.uncurry` / `Program.uncurry` (the asserts never fire:
`CurryLemmas.uncurry_no_assert : uncurryE p = .ok (uncurry p)`) -/
def uncurry (sexp : Tree) : Tree × Option (List Tree) :=
  match uncurryE sexp with
  | .ok r => r
  | .error _ => (sexp, none)

/-! ### hashing -/

/-- the tree hash built from `shatree_atom` / `shatree_pair` (recursive specification) -/
def treeHashWith (shaAtom : Bytes → Bytes) (shaPair : Bytes → Bytes → Bytes) : Tree → Bytes
  | .atom b => shaAtom b
  | .pair l r => shaPair (treeHashWith shaAtom shaPair l) (treeHashWith shaAtom shaPair r)

/-- the Python exceptions these functions raise -/
inductive PyExc where
  | ValueError
  deriving Repr, DecidableEq, Inhabited

section
variable (shaAtom : Bytes → Bytes) (shaPair : Bytes → Bytes → Bytes)

/-- `self.q_kw_treehash = shatree_atom(dialect.Q_KW)` -/
def qKwTreehash : Bytes := shaAtom Q_KW
/-- `self.c_kw_treehash` -/
def cKwTreehash : Bytes := shaAtom C_KW
/-- `self.a_kw_treehash` -/
def aKwTreehash : Bytes := shaAtom A_KW
/-- `self.null_treehash` -/
def nullTreehash : Bytes := shaAtom NULL
/-- `self.one_treehash = shatree_atom(ONE)` -/
def oneTreehash : Bytes := shaAtom moduleONE

/-- `curried_values_tree_hash` -/
def curriedValuesTreeHash : List Bytes → Bytes
  | [] => oneTreehash shaAtom
  | arg0 :: rest =>
    let innerCurriedValues := curriedValuesTreeHash rest
    shaPair (cKwTreehash shaAtom)
      (shaPair (shaPair (qKwTreehash shaAtom) arg0)
        (shaPair innerCurriedValues (nullTreehash shaAtom)))

/-- `for arg in hashed_arguments: if … len(arg) != 32: raise ValueError` -/
def checkHashedArguments : List Bytes → Except PyExc Unit
  | [] => .ok ()
  | arg :: rest => if arg.length != 32 then .error .ValueError else checkHashedArguments rest

/-- `curry_and_treehash` -/
def curryAndTreehash (hashOfQuotedModHash : Bytes) (hashedArguments : List Bytes) :
    Except PyExc Bytes :=
  match checkHashedArguments hashedArguments with
  | .error e => .error e
  | .ok () =>
    let curriedValues := curriedValuesTreeHash shaAtom shaPair hashedArguments
    .ok (shaPair (aKwTreehash shaAtom)
      (shaPair hashOfQuotedModHash (shaPair curriedValues (nullTreehash shaAtom))))

/-- `calculate_hash_of_quoted_mod_hash` -/
def calculateHashOfQuotedModHash (modHash : Bytes) : Bytes :=
  shaPair (qKwTreehash shaAtom) modHash

/-- `Program.curry_hash` -/
def curryHash (mod : Tree) (args : List Bytes) : Except PyExc Bytes :=
  let quotedModHash :=
    calculateHashOfQuotedModHash shaAtom shaPair (treeHashWith shaAtom shaPair mod)
  curryAndTreehash shaAtom shaPair quotedModHash args

end

end Clvm.Py.Curry
