/-
Model of `clvm_tree_to_lazy_node` (`wheel/src/api.rs:193-298`): the walk over an arbitrary Python
object exposing `.atom` / `.pair`, memoised by **object address** (`pyobj.as_ptr() as usize`).

What is abstracted, and how:

* A Python object is a `Handle`: its address and the CLVM tree it denotes (the object protocol is
  assumed *honest*: the children handed back by `.pair` denote the two sub-trees).
* The CPython heap is the list of live objects `(address, denoted tree)`.  Which addresses the
  children returned by `.pair` have, and what happens to the heap when the walk drops its reference
  to an object, is a *parameter* (`Proto`): stored children that stay alive, freshly allocated
  children that die when dropped (LazyNode, or any class building wrappers on the fly), an allocator
  that reuses freed addresses, … — nothing about it is fixed by the model.
* The Rust `Allocator` nodes are represented by the trees they denote; `atom_map` / `pair_map`
  (interning by content) are therefore invisible and omitted.  `identity_map` is `memo`, a
  first-match association list (`HashMap::insert` overwrites).
* `identity_map[&k]` panics on a missing key: explicit `Err.Panic`.
* `keepAlive = true` is **the code as it is** since /repo commit 6e19398 (repair of finding E): every
  visited object and every child object obtained from `.pair` is pushed on `keep_alive`, so nothing
  the walk has looked at can die — and its address cannot be reused — before the walk ends.
  `keepAlive = false` is the code before that commit (references dropped as the walk proceeds); it is
  kept because the theorem that the keep-alive list is necessary is about it.
* `log` is a ghost field: every handle the walk has looked at (popped from the stack or returned
  by `.pair`).  The algorithm never reads it; theorems are stated about it.
-/
import ClvmModel.Tree

namespace Clvm.Py.Memo

/-- a Python object as the walk sees it: address + the tree it denotes -/
structure Handle where
  addr : Nat
  tree : Tree
  deriving Repr, DecidableEq

abbrev Heap := List (Nat × Tree)

/-- the Python side -/
structure Proto where
  /-- `obj.pair` for an object denoting `pair l r`: addresses of the two child objects, new heap -/
  children : Heap → Handle → Tree → Tree → Nat × Nat × Heap
  /-- the walk drops its reference to an object (`Bound` goes out of scope) -/
  release : Heap → Handle → Heap

inductive Item where
  | visit (h : Handle)
  | buildPair (id leftId rightId : Nat)
  deriving Repr, DecidableEq

structure St where
  heap : Heap
  memo : List (Nat × Tree)
  stack : List Item
  keep : List Handle
  log : List Handle
  deriving Repr

def lookup (m : List (Nat × Tree)) (k : Nat) : Option Tree :=
  match m with
  | [] => none
  | (a, t) :: rest => if a = k then some t else lookup rest k

def contains (m : List (Nat × Tree)) (k : Nat) : Bool := (lookup m k).isSome

/-- `identity_map[&k]` -/
def index (m : List (Nat × Tree)) (k : Nat) : Except Err Tree :=
  match lookup m k with
  | some t => .ok t
  | none => .error (.Panic "identity_map: key not found")

/-- the reference held by the walk goes away: dropped (original code) or parked (repaired code) -/
def drop (P : Proto) (keepAlive : Bool) (st : St) (h : Handle) : St :=
  if keepAlive then { st with keep := h :: st.keep } else { st with heap := P.release st.heap h }

/-- one iteration of `while let Some(item) = stack.pop()`, `item` already popped -/
def stepItem (P : Proto) (keepAlive : Bool) (item : Item) (st : St) : Except Err St :=
  match item with
  | .visit h =>
    let st := { st with log := h :: st.log }
    let id := h.addr
    if contains st.memo id then
      .ok (drop P keepAlive st h)                                   -- `continue`
    else
      match h.tree with
      | .atom b =>
        .ok (drop P keepAlive { st with memo := (id, .atom b) :: st.memo } h)
      | .pair l r =>
        let (aL, aR, heap') := P.children st.heap h l r
        let left : Handle := ⟨aL, l⟩
        let right : Handle := ⟨aR, r⟩
        let st := { st with heap := heap', log := right :: left :: st.log }
        let leftDone := contains st.memo aL
        let rightDone := contains st.memo aR
        if leftDone && rightDone then
          match index st.memo aL, index st.memo aR with
          | .ok tl, .ok tr =>
            let st := { st with memo := (id, .pair tl tr) :: st.memo }
            .ok (drop P keepAlive (drop P keepAlive (drop P keepAlive st left) right) h)
          | .error e, _ => .error e
          | _, .error e => .error e
        else
          let st := { st with stack := .buildPair id aL aR :: st.stack }
          let st := if rightDone then drop P keepAlive st right
                    else { st with stack := .visit right :: st.stack }
          let st := if leftDone then drop P keepAlive st left
                    else { st with stack := .visit left :: st.stack }
          .ok (drop P keepAlive st h)
  | .buildPair id leftId rightId =>
    match index st.memo leftId, index st.memo rightId with
    | .ok tl, .ok tr => .ok { st with memo := (id, .pair tl tr) :: st.memo }
    | .error e, _ => .error e
    | _, .error e => .error e

/-- the loop; `fuel` bounds the number of iterations (`weight` of the stack suffices) -/
def run (P : Proto) (keepAlive : Bool) : Nat → St → Except Err St
  | 0, _ => .error (.Abort "model fuel exhausted")
  | fuel + 1, st =>
    match st.stack with
    | [] => .ok st
    | item :: rest =>
      match stepItem P keepAlive item { st with stack := rest } with
      | .error e => .error e
      | .ok st' => run P keepAlive fuel st'

def Item.weight : Item → Nat
  | .visit h => 2 * h.tree.size
  | .buildPair _ _ _ => 1

def weight (s : List Item) : Nat := (s.map Item.weight).sum

/-- `clvm_tree_to_lazy_node(obj)`: the tree of the returned LazyNode (and the final state). -/
def treeToLazyNode (P : Proto) (keepAlive : Bool) (heap : Heap) (root : Handle) : Except Err (Tree × St) :=
  let st0 : St := { heap := heap, memo := [], stack := [.visit root], keep := [], log := [] }
  match run P keepAlive (2 * root.tree.size + 1) st0 with
  | .error e => .error e
  | .ok st =>
    match index st.memo root.addr with
    | .ok t => .ok (t, st)
    | .error e => .error e

/-! ### two concrete Python sides -/

def addrs (h : Heap) : List Nat := h.map (·.1)

/-- smallest address not in use (a free-list allocator hands a freed block out again first) -/
def firstFree (h : Heap) : Nat :=
  match (List.range (h.length + 1)).find? (fun a => !(addrs h).contains a) with
  | some a => a
  | none => h.length

def eraseAddr : Heap → Nat → Heap
  | [], _ => []
  | (a, t) :: rest, k => if a = k then rest else (a, t) :: eraseAddr rest k

/-- LazyNode-like objects: `.pair` creates two fresh wrapper objects; an object dies as soon as the
walk drops it; the allocator reuses the lowest free address. -/
def ephemeral : Proto where
  children := fun heap _ l r =>
    let aL := firstFree heap
    let heap1 := (aL, l) :: heap
    let aR := firstFree heap1
    (aL, aR, (aR, r) :: heap1)
  release := fun heap h => eraseAddr heap h.addr

/-- any allocator: `alloc heap` is the address of the next new object -/
def freshWith (alloc : Heap → Nat) : Proto where
  children := fun heap _ l r =>
    let aL := alloc heap
    let heap1 := (aL, l) :: heap
    let aR := alloc heap1
    (aL, aR, (aR, r) :: heap1)
  release := fun heap h => eraseAddr heap h.addr

end Clvm.Py.Memo
