/-
`wheel/python/clvm_rs/casts.py`: `int_from_bytes`, `int_to_bytes` (property C28).

One Lean definition per Python function / built-in method used:

* `bitLength`        `int.bit_length()` (of `|v|`; `0` for `0`)
* `fromBytesSigned`  `int.from_bytes(blob, "big", signed=True)`
* `toBytesSigned`    `int.to_bytes(n, "big", signed=True)`; the built-in raises `OverflowError`
                     when the value is not representable in `n` bytes (`fitsSigned n v = false`).
                     `int_to_bytes` always asks for enough bytes
                     (`Clvm.Py.CastsLemmas.intToBytes_no_overflow`), so the total function below
                     — the `n` big-endian bytes of `v mod 256^n` — is what Python computes.
* `stripLoop`        the `while len(r) > 1 and r[0] == (0xFF if r[1] & 0x80 else 0): r = r[1:]` loop
* `intFromBytes`, `intToBytes`   the two functions themselves

That `intToBytes` is the canonical encoding of `src/allocator.rs` (`Clvm.Alloc.encodeInt`) and
`intFromBytes` is `number_from_u8` (`Clvm.Alloc.decodeInt`) is proved in
`ClvmProofs/Lemmas/PyCasts.lean`.
-/
import ClvmModel.Basic

namespace Clvm.Py.Casts
open Clvm

/-- `int.bit_length()`: number of bits of `|v|`, `0` for `0`. -/
def bitLength (v : Int) : Nat :=
  if v.natAbs = 0 then 0 else Nat.log2 v.natAbs + 1

/-- unsigned big-endian value of a byte string (`int.from_bytes(blob, "big")`) -/
def fromBytesUnsigned (blob : Bytes) : Nat :=
  blob.foldl (fun acc x => acc * 256 + x.toNat) 0

/-- `int.from_bytes(blob, "big", signed=True)`: the unsigned value, minus `2^(8·len)` when the
top bit of the first byte is set (`0` for the empty string). -/
def fromBytesSigned (blob : Bytes) : Int :=
  match blob with
  | [] => 0
  | x :: _ =>
    if x.toNat &&& 0x80 != 0 then (fromBytesUnsigned blob : Int) - (2 : Int) ^ (8 * blob.length)
    else (fromBytesUnsigned blob : Int)

/-- `int_from_bytes` -/
def intFromBytes (blob : Bytes) : Int :=
  let size := blob.length
  if size == 0 then 0
  else fromBytesSigned blob

/-- the `n` big-endian bytes of a natural number (`int.to_bytes(n, "big")` of a value `< 256^n`) -/
def toBytesUnsigned : Nat → Nat → Bytes
  | 0, _ => []
  | k + 1, m => UInt8.ofNat (m / 256 ^ k % 256) :: toBytesUnsigned k m

/-- the range check of `int.to_bytes(n, "big", signed=True)` (`OverflowError: int too big to
convert` otherwise): `-2^(8n-1) ≤ v < 2^(8n-1)`, written without the `-1` so that `n = 0` (only
`v = 0` fits) needs no special case. -/
def fitsSigned (n : Nat) (v : Int) : Bool :=
  decide (-((256 : Int) ^ n) ≤ 2 * v ∧ 2 * v < (256 : Int) ^ n)

/-- `v.to_bytes(n, "big", signed=True)` for a value that fits: two's complement, i.e. the `n`
big-endian bytes of `v mod 256^n`. -/
def toBytesSigned (n : Nat) (v : Int) : Bytes :=
  toBytesUnsigned n (v % (256 : Int) ^ n).toNat

/-- `while len(r) > 1 and r[0] == (0xFF if r[1] & 0x80 else 0): r = r[1:]` -/
def stripLoop : Bytes → Bytes
  | r0 :: r1 :: rest =>
    if r0.toNat == (if r1.toNat &&& 0x80 != 0 then 0xFF else 0) then stripLoop (r1 :: rest)
    else r0 :: r1 :: rest
  | r => r

/-- `byte_count = (v.bit_length() + 8) // 8` -/
def byteCount (v : Int) : Nat := (bitLength v + 8) / 8

/-- `int_to_bytes` -/
def intToBytes (v : Int) : Bytes :=
  if v == 0 then []
  else
    let byte_count := byteCount v
    let r := toBytesSigned byte_count v
    stripLoop r

end Clvm.Py.Casts
