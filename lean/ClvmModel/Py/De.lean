/-
Transcription of the pure-Python stream deserializer (`sexp_from_stream`, `_op_read_sexp`, `_op_cons`,
`_atom_from_stream` — they live in `wheel/python/clvm_rs/ser.py`; `Program.parse` uses them).

* The stream `f` is the unread remainder `inp`; `f.read(n)` returns `inp.take n` (possibly shorter).
* `op_stack` / `val_stack` are lists with the top at the head; `list.pop()` on an empty list is an
  explicit `IndexError` outcome.
* `_atom_from_stream` counts the leading one-bits of the first byte and rejects a count above 6
  (`if bit_count > 6: raise ValueError("bad encoding")`, added by the repair of finding H, /repo
  commit 61f724c; before it a 7-byte size prefix was accepted — the old transcription and its
  witness are kept in `ClvmProofs/Lemmas/PyDe.lean`, section "historical").
-/
import ClvmModel.Py.Ser

namespace Clvm.Py.De
open Clvm.Py

/-- the `while b & bit_mask:` loop of `_atom_from_stream`: returns `(bit_count, b)`.
`fuel` is 9 at the call site; the mask is 0 after 8 halvings, so the loop has ended by then
(`b & 0 == 0`) and the `0` case returns exactly what the loop would. -/
def stripLoop : Nat → Nat → Nat → Nat → Nat × Nat
  | 0, b, _, cnt => (cnt, b)
  | fuel + 1, b, mask, cnt =>
    if b &&& mask ≠ 0 then stripLoop fuel (b &&& (0xFF ^^^ mask)) (mask >>> 1) (cnt + 1)
    else (cnt, b)

/-- `int.from_bytes(blob, "big")` -/
def fromBytesBig (b : Bytes) : Nat := b.foldl (fun acc x => acc * 256 + x.toNat) 0

/-- `_atom_from_stream(f, b, new_atom_f)`: `(bytes read from the stream, atom)` -/
def atomFromStream (inp : Bytes) (b : Nat) : Except PyErr (Nat × Tree) :=
  if b == 0x80 then .ok (0, .atom [])
  else if b ≤ Gen.pyMaxSingleByte then .ok (0, .atom [UInt8.ofNat b])
  else
    let (bitCount, b') := stripLoop 9 b 0x80 0
    if bitCount > 6 then .error (.valueError "bad encoding")
    else
    let more := if bitCount > 1 then inp.take (bitCount - 1) else []
    if bitCount > 1 ∧ more.length ≠ bitCount - 1 then .error (.valueError "bad encoding")
    else
      let sizeBlob := UInt8.ofNat b' :: more
      let size := fromBytesBig sizeBlob
      if size ≥ Gen.pyBlobTooLarge then .error (.valueError "blob too large")
      else
        let rest := inp.drop more.length
        let blob := rest.take size
        if blob.length ≠ size then .error (.valueError "bad encoding")
        else .ok (more.length + size, .atom blob)

inductive Op where
  | readSexp
  | cons
  deriving Repr, DecidableEq

/-- `sexp_from_stream`: the `while op_stack:` loop with `_op_read_sexp` / `_op_cons` inlined -/
def sexpFromStreamGo (inp : Bytes) (ops : List Op) (vals : List Tree) : Except PyErr (Tree × Bytes) :=
  match ops with
  | [] =>
    match vals with
    | v :: _ => .ok (v, inp)
    | [] => .error .indexError
  | .readSexp :: ops' =>
    match inp with
    | [] => .error (.valueError "bad encoding")
    | b :: rest =>
      if b.toNat == Gen.pyConsBoxMarker then
        sexpFromStreamGo rest (.readSexp :: .readSexp :: .cons :: ops') vals
      else
        match atomFromStream rest b.toNat with
        | .error e => .error e
        | .ok (n, t) => sexpFromStreamGo (rest.drop n) ops' (t :: vals)
  | .cons :: ops' =>
    match vals with
    | right :: left :: vs => sexpFromStreamGo inp ops' (.pair left right :: vs)
    | _ => .error .indexError
termination_by (inp.length, ops.length)
decreasing_by
  · simp_wf; left; omega
  · simp_wf; left; omega
  · simp_wf; right; omega

/-- `sexp_from_stream(f, …)`: the tree and the unread remainder of the stream -/
def sexpFromStream (inp : Bytes) : Except PyErr (Tree × Bytes) := sexpFromStreamGo inp [.readSexp] []

end Clvm.Py.De
