/-
Transcription of the pure-Python serializer `wheel/python/clvm_rs/ser.py`:
`size_blob_for_blob`, `atom_to_byte_iterator`, `sexp_to_byte_iterator`, `sexp_to_bytes` / `sexp_to_stream`.

* A generator's chunks are concatenated (`sexp_to_bytes` extends a bytearray with every chunk,
  `sexp_to_stream` writes every chunk); an exception raised while iterating aborts the whole call.
* `bytes([x])` raises `ValueError` unless `0 <= x < 256`: explicit outcome (`mkByte`), shown unreachable.
* Objects are plain trees: the optional `_cached_serialization` attribute (a previously computed or,
  for `CLVMTree`, the *original input* serialization of a sub-tree) is not modelled.
* Thresholds and markers are the constants generated from ser.py (`Clvm.Gen.py…`).
-/
import ClvmModel.Tree
import ClvmModel.Gen.Wheel

namespace Clvm.Py

/-- Python exceptions the helpers can raise -/
inductive PyErr where
  | valueError (msg : String)
  | assertionError
  | indexError
  deriving Repr, DecidableEq, Inhabited

namespace Ser

def thr (i : Nat) : Nat := Gen.pySizeThresholds.getD i 0

/-- `bytes([x])` for one element -/
def mkByte (x : Nat) : Except PyErr UInt8 :=
  if x < 256 then .ok (UInt8.ofNat x) else .error (.valueError "bytes must be in range(0, 256)")

def mkBytes : List Nat → Except PyErr Bytes
  | [] => .ok []
  | x :: xs =>
    match mkByte x, mkBytes xs with
    | .ok b, .ok bs => .ok (b :: bs)
    | .error e, _ => .error e
    | _, .error e => .error e

/-- `size_blob_for_blob(blob)` as a function of `len(blob)` -/
def sizeBlobForBlob (size : Nat) : Except PyErr Bytes :=
  if size < thr 0 then mkBytes [0x80 ||| size]
  else if size < thr 1 then mkBytes [0xC0 ||| (size >>> 8), (size >>> 0) &&& 0xFF]
  else if size < thr 2 then mkBytes [0xE0 ||| (size >>> 16), (size >>> 8) &&& 0xFF, (size >>> 0) &&& 0xFF]
  else if size < thr 3 then
    mkBytes [0xF0 ||| (size >>> 24), (size >>> 16) &&& 0xFF, (size >>> 8) &&& 0xFF, (size >>> 0) &&& 0xFF]
  else if size < thr 4 then
    mkBytes [0xF8 ||| (size >>> 32), (size >>> 24) &&& 0xFF, (size >>> 16) &&& 0xFF, (size >>> 8) &&& 0xFF,
             (size >>> 0) &&& 0xFF]
  else .error (.valueError "blob too long")

/-- `atom_to_byte_iterator(as_atom)`, chunks concatenated -/
def atomToBytes (a : Bytes) : Except PyErr Bytes :=
  let size := a.length
  if size == 0 then .ok [0x80]
  else
    let single : Bool := match a with
      | [x] => x.toNat ≤ Gen.pyMaxSingleByte
      | _ => false
    if size == 1 && single then .ok a
    else
      match sizeBlobForBlob size with
      | .error e => .error e
      | .ok p => .ok (p ++ a)

def stackSize (st : List Tree) : Nat := (st.map Tree.size).sum

theorem size_pos (t : Tree) : 0 < t.size := by
  cases t <;> simp [Tree.size, Tree.pairs, Tree.atoms] <;> omega

/-- `sexp_to_byte_iterator`: `todo` is `todo_stack` (top = head), `acc` what has been yielded so far -/
def sexpToByteIterator (todo : List Tree) (acc : Bytes) : Except PyErr Bytes :=
  match todo with
  | [] => .ok acc
  | .pair l r :: st =>
    match mkByte Gen.pyConsBoxMarker with
    | .error e => .error e
    | .ok m => sexpToByteIterator (l :: r :: st) (acc ++ [m])
  | .atom a :: st =>
    match atomToBytes a with
    | .error e => .error e
    | .ok b => sexpToByteIterator st (acc ++ b)
termination_by stackSize todo
decreasing_by
  all_goals simp [stackSize, Tree.size, Tree.pairs, Tree.atoms]
  all_goals omega

/-- `sexp_to_bytes(sexp)` (and what `sexp_to_stream` writes) -/
def sexpToBytes (t : Tree) : Except PyErr Bytes := sexpToByteIterator [t] []

end Ser
end Clvm.Py
